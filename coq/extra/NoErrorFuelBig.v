(* EGraph/NoErrorFuelBig.v — the constant `rebuild_fuel = 2000` IS exceeded by a reachable run (about 19 minutes of coqc: 570 s of
   vm_compute; NOT part of the default build).  History: the terms a(x), b, f_0(a(x)), ..., f_1998(a(x)) are added, then
   a(x) = b is asserted.  The class of a(x) loses its slot and is merged into the class of b; `touched_class` puts its
   1999 usages on the worklist (plus the moved node a and the node b: 2001 entries in all, see NoErrorFuel.fan1_rounds);
   `rebuild` pops one entry per unit of fuel and needs one more unit to see the empty worklist: 2001 units.
   With 1998 parents the same history succeeds (measured: Ok, 2000 hashcons entries; 575 s). *)
From SE Require Import EGraph.Model EGraph.ModelMachine EGraph.AddCoversFacts EGraph.NoErrorFuel.
Require Import ZArith List.
Import ListNotations.

Example rebuild_fuel_exceeded_reachable :
  run_ops (fan1_terms 1999) (map HAdd (seq 0 2001) ++ [HUnion 0 1 None]) [] empty_egraph = Err OutOfFuel.
Proof. vm_compute. reflexivity. Qed.
