From Coq Require Import Extraction ExtrOcamlBasic.
From SE Require Import Base.Prelude Dispatch.
Extraction Language OCaml.
Extraction "model.ml" dispatch.
