(* Base/Prelude.v — shared definitions: s-expressions (wire format of the
   correspondence), result type with panic sites, small list utilities.
   Definitions only; proofs about them live in Base/PreludeFacts.v. *)
From Coq Require Export String Ascii.
From Coq Require Export List NArith Bool.
Export ListNotations.
Open Scope N_scope.

Arguments N.add : simpl never.
Arguments N.sub : simpl never.
Arguments N.mul : simpl never.
Arguments N.eqb : simpl never.
Arguments N.ltb : simpl never.
Arguments N.leb : simpl never.
Arguments N.div : simpl never.
Arguments N.modulo : simpl never.

(* ---------- s-expressions ---------- *)
Inductive sexp : Type :=
| Num (n : N)
| Sym (s : string)
| Lst (l : list sexp).
Arguments Sym s%string_scope.

(* ---------- results: every Rust panic site is a value ---------- *)
Inductive site : Type :=
| SlotMapIndexMissing      (* slotmap.rs Index::index *)
| AssertFailed             (* an assert!/assert_eq! under CHECKS or unconditional *)
| UnwrapNone               (* Option::unwrap / expect on None *)
| OutOfBounds              (* slice index out of range *)
| Overflow                 (* arithmetic overflow in a debug build *)
| ExplicitPanic            (* panic!() / unreachable!() / todo!() *)
| OutOfFuel.               (* model-only: fuel exhausted *)

Inductive res (A : Type) : Type :=
| Ok (a : A)
| Err (s : site).
Arguments Ok {A} a.
Arguments Err {A} s.

Definition bind {A B} (r : res A) (f : A -> res B) : res B :=
  match r with Ok a => f a | Err s => Err s end.
Notation "'do' x <- r ; k" := (bind r (fun x => k))
  (at level 200, x pattern, r at level 100, k at level 200, right associativity).

Definition site_sexp (s : site) : sexp :=
  Sym (match s with
       | SlotMapIndexMissing => "index-missing"
       | AssertFailed => "assert"
       | UnwrapNone => "unwrap-none"
       | OutOfBounds => "oob"
       | Overflow => "overflow"
       | ExplicitPanic => "explicit-panic"
       | OutOfFuel => "out-of-fuel"
       end)%string.

(* ---------- small utilities ---------- *)
Definition sbool (b : bool) : sexp := Sym (if b then "true" else "false")%string.

Fixpoint nth_opt {A} (l : list A) (n : nat) : option A :=
  match l, n with
  | [], _ => None
  | x :: _, O => Some x
  | _ :: t, S n => nth_opt t n
  end.

Fixpoint set_nth {A} (l : list A) (n : nat) (x : A) : list A :=
  match l, n with
  | [], _ => []
  | _ :: t, O => x :: t
  | y :: t, S n => y :: set_nth t n x
  end.

Fixpoint forallb2 {A B} (f : A -> B -> bool) (l : list A) (l' : list B) : bool :=
  match l, l' with
  | [], [] => true
  | x :: t, y :: t' => f x y && forallb2 f t t'
  | _, _ => false
  end.

Definition opt_sexp {A} (f : A -> sexp) (o : option A) : sexp :=
  match o with None => Sym "none" | Some a => Lst [Sym "some"; f a] end%string.

(* decimal rendering of N, for the in-Coq printer used by cases.v *)
Definition digit_char (d : N) : ascii := ascii_of_N (48 + d).

Fixpoint dec_go (fuel : nat) (n : N) (acc : string) : string :=
  match fuel with
  | O => acc
  | S f => let acc' := String (digit_char (n mod 10)) acc in
           if n / 10 =? 0 then acc' else dec_go f (n / 10) acc'
  end.
Definition dec (n : N) : string := dec_go 40 n EmptyString.

Fixpoint show (e : sexp) : string :=
  match e with
  | Num n => dec n
  | Sym s => s
  | Lst l => ("(" ++ (fix go (l : list sexp) : string :=
                        match l with
                        | [] => ""
                        | [x] => show x
                        | x :: t => show x ++ " " ++ go t
                        end) l ++ ")")%string
  end.
