(* Base/Text.v — texts as lists of Unicode scalar values (N), decimal numerals,
   and the model of `str::parse::<u32>()` used by slot.rs and the payload parsers.
   Definitions only. *)
From SE Require Export Base.Prelude.

Definition text := list N.

Fixpoint text_eqb (a b : text) : bool :=
  match a, b with
  | [], [] => true
  | x :: a', y :: b' => (x =? y) && text_eqb a' b'
  | _, _ => false
  end.

Definition is_digit (c : N) : bool := (48 <=? c) && (c <=? 57).

(* digit strings <-> Decimal.uint of the standard library (most significant digit first) *)
Fixpoint uint_of_text (t : text) : option Decimal.uint :=
  match t with
  | [] => Some Decimal.Nil
  | c :: r =>
      match uint_of_text r with
      | None => None
      | Some d =>
          if c =? 48 then Some (Decimal.D0 d) else if c =? 49 then Some (Decimal.D1 d)
          else if c =? 50 then Some (Decimal.D2 d) else if c =? 51 then Some (Decimal.D3 d)
          else if c =? 52 then Some (Decimal.D4 d) else if c =? 53 then Some (Decimal.D5 d)
          else if c =? 54 then Some (Decimal.D6 d) else if c =? 55 then Some (Decimal.D7 d)
          else if c =? 56 then Some (Decimal.D8 d) else if c =? 57 then Some (Decimal.D9 d)
          else None
      end
  end.

Fixpoint text_of_uint (d : Decimal.uint) : text :=
  match d with
  | Decimal.Nil => []
  | Decimal.D0 d => 48 :: text_of_uint d | Decimal.D1 d => 49 :: text_of_uint d
  | Decimal.D2 d => 50 :: text_of_uint d | Decimal.D3 d => 51 :: text_of_uint d
  | Decimal.D4 d => 52 :: text_of_uint d | Decimal.D5 d => 53 :: text_of_uint d
  | Decimal.D6 d => 54 :: text_of_uint d | Decimal.D7 d => 55 :: text_of_uint d
  | Decimal.D8 d => 56 :: text_of_uint d | Decimal.D9 d => 57 :: text_of_uint d
  end.

(* u32::from_str: optional '+', at least one ASCII digit, no overflow *)
Definition parse_u32 (s : text) : option N :=
  let body := match s with 43 :: t => t | _ => s end in
  match body with
  | [] => None
  | _ => match uint_of_text body with
         | Some d => let v := N.of_uint d in if v <? 4294967296 then Some v else None
         | None => None
         end
  end.

(* the canonical numerals: what `u32::to_string` prints - no sign, no leading zero *)
Definition canonical_uint (d : Decimal.uint) : bool :=
  match d with
  | Decimal.Nil => false
  | Decimal.D0 Decimal.Nil => true
  | Decimal.D0 _ => false
  | _ => true
  end.

Definition parse_canonical (s : text) : option N :=
  match uint_of_text s with
  | Some d => if canonical_uint d
              then let v := N.of_uint d in if v <? 4294967296 then Some v else None
              else None
  | None => None
  end.

(* decimal printing *)
Definition dec_text (n : N) : text := text_of_uint (N.to_uint n).

Definition text_of_string (s : string) : text :=
  (fix go (s : string) : text := match s with EmptyString => [] | String a t => N_of_ascii a :: go t end) s.

Definition text_sexp (t : text) : sexp := Lst (Sym "t" :: map Num t).
Definition dec_text_sexp (e : sexp) : option text :=
  match e with
  | Lst (Sym "t" :: l) =>
      (fix go (l : list sexp) : option text :=
         match l with
         | [] => Some []
         | Num c :: r => match go r with Some t => Some (c :: t) | None => None end
         | _ => None
         end) l
  | _ => None
  end.
