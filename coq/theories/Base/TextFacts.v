(* Base/TextFacts.v — decimal numerals: printing and canonical parsing are inverse. *)
From SE Require Import Base.Text.
From Coq Require Import Lia DecimalN DecimalFacts.

Lemma text_eqb_eq : forall a b, text_eqb a b = true <-> a = b.
Proof.
  induction a as [|x a IH]; destruct b as [|y b]; cbn; split; intro H; try discriminate; auto.
  - apply andb_true_iff in H. destruct H as [H1 H2]. apply N.eqb_eq in H1. apply IH in H2. congruence.
  - inversion H; subst. rewrite N.eqb_refl. cbn. apply IH. reflexivity.
Qed.

Lemma text_eqb_refl : forall a, text_eqb a a = true.
Proof. intro a. apply text_eqb_eq. reflexivity. Qed.

Lemma uint_of_text_of_uint : forall d, uint_of_text (text_of_uint d) = Some d.
Proof. induction d; cbn; try rewrite IHd; reflexivity. Qed.

Lemma text_of_uint_of_text : forall t d, uint_of_text t = Some d -> text_of_uint d = t.
Proof.
  induction t as [|c r IH]; intros d H; cbn in H.
  - inversion H; subst. reflexivity.
  - destruct (uint_of_text r) as [d'|]; [|discriminate].
    specialize (IH d' eq_refl).
    repeat match type of H with
    | (if ?c =? ?k then _ else _) = _ =>
        let E := fresh "E" in destruct (c =? k) eqn:E;
        [apply N.eqb_eq in E; subst c; inversion H; cbn; f_equal; exact IH|]
    end.
    discriminate.
Qed.

Lemma nzhead_not_D0 : forall u v, Decimal.nzhead u <> Decimal.D0 v.
Proof. induction u; cbn; intros v; try discriminate; auto. Qed.

Lemma canonical_unorm : forall d, canonical_uint d = true <-> (Decimal.unorm d = d).
Proof.
  intro d. destruct d as [|d| | | | | | | | |]; cbn; try (split; reflexivity).
  - split; [discriminate|]. unfold Decimal.unorm. cbn. discriminate.
  - destruct d as [|d'|d'|d'|d'|d'|d'|d'|d'|d'|d']; [split; reflexivity| | | | | | | | | |];
      (split; [discriminate|]); unfold Decimal.unorm; cbn; try discriminate.
    destruct (Decimal.nzhead d') eqn:E; try discriminate.
    exfalso. eapply nzhead_not_D0. exact E.
Qed.

Lemma parse_canonical_dec : forall n, n < 4294967296 -> parse_canonical (dec_text n) = Some n.
Proof.
  intros n Hn. unfold parse_canonical, dec_text. rewrite uint_of_text_of_uint.
  assert (Hc : canonical_uint (N.to_uint n) = true).
  { apply canonical_unorm. rewrite <- DecimalN.Unsigned.to_of, DecimalN.Unsigned.of_to. reflexivity. }
  rewrite Hc, DecimalN.Unsigned.of_to. apply N.ltb_lt in Hn. rewrite Hn. reflexivity.
Qed.

Lemma parse_canonical_inv : forall s v, parse_canonical s = Some v -> s = dec_text v /\ v < 4294967296.
Proof.
  intros s v H. unfold parse_canonical in H. destruct (uint_of_text s) as [d|] eqn:E; [|discriminate].
  destruct (canonical_uint d) eqn:Hc; [|discriminate].
  destruct (N.of_uint d <? 4294967296) eqn:Hlt; [|discriminate]. inversion H; subst.
  apply N.ltb_lt in Hlt. split; [|assumption].
  unfold dec_text. rewrite DecimalN.Unsigned.to_of. apply canonical_unorm in Hc. rewrite Hc.
  symmetry. apply text_of_uint_of_text. assumption.
Qed.

Lemma parse_canonical_inj : forall a b v, parse_canonical a = Some v -> parse_canonical b = Some v -> a = b.
Proof. intros a b v Ha Hb. apply parse_canonical_inv in Ha, Hb. destruct Ha, Hb. congruence. Qed.

