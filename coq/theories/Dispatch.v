(* Dispatch.v — single entry point of the executable model: one s-expression case
   in, one s-expression observation out.  Extracted to OCaml (ocaml/driver.ml) and
   evaluated by vm_compute in the per-run cases.v cross-check. *)
From SE Require Import Base.Prelude Slots.SlotMapMachine Slots.SlotMachine Lang.LangMachine Parse.ParseMachine Group.GroupMachine Sem.EgMachine Explain.CheckMachine EGraph.ModelMachine EGraph.Model9 Extract.ExtractMachine EGraph.ModelAMachine EGraph.RewriteMachine Run.RunMachine Sem.FpMachine EGraph.MatchMachine EGraph.InvMachine Extract.CertMachine EGraph.SoundMachine EGraph.MatchCertMachine.

Definition dispatch (e : sexp) : sexp :=
  match e with
  | Lst (Sym "c19" :: args) => run_c19 args
  | Lst (Sym "c17" :: args) => run_c17 false args
  | Lst (Sym "c16" :: args) => run_c16 false args
  | Lst (Sym "c18" :: args) => run_c18 false false args
  | Lst (Sym "c10" :: args) => run_c10 args
  | Lst (Sym "eg" :: args) => run_eg 2 8 args
  | Lst (Sym "chk" :: args) => run_chk args
  | Lst (Sym "c01" :: args) => run_c01 args
  | Lst (Sym "egm" :: args) => run_egm args
  | Lst (Sym "egs" :: args) => run_egs args
  | Lst (Sym "egall" :: args) => run_egall_static args
  | Lst (Sym "eg9" :: args) => run_eg9 args
  | Lst (Sym "egt" :: args) => run_egt false args
  | Lst (Sym "egtl" :: args) => run_egt true args
  | Lst (Sym "eg14" :: args) => run_eg14 args
  | Lst (Sym "egr" :: args) => run_egr args
  | Lst (Sym "egq" :: args) => run_egq args
  | Lst (Sym "c03" :: args) => run_c03 args
  | Lst (Sym "egc" :: args) => run_egc args
  | Lst (Sym "egtc" :: args) => run_egtc args
  | Lst (Sym "egsound" :: args) => run_egsound args
  | Lst (Sym "eg5c" :: args) => run_eg5c args
  | Lst (Sym "eg5" :: args) => run_eg5 true args
  | Lst (Sym "eg5legacy" :: args) => run_eg5 false args
  | Lst (Sym "eg4" :: args) => run_eg4 args
  | _ => Sym "unknown-case"
  end.
