(* EGraph/AddCoversFacts.v — the invocation returned by `add_expr` covers its class, in every
   reachable state; hence `eg_eq` is an equivalence relation on covered invocations in every
   reachable state (the unconditional form of `reachable_eq_equivalence` of UnionInvariantFacts.v).

   New invariant.  `nodes_ok s`: for every class c of s and every entry `shape |-> (bij, src)` of
   `c_nodes c` (by membership in the association list, no duplicate-freeness needed): `bij` is
   sorted and injective, its keys are public slots of the shape, and every slot of `c_slots c` is a
   value of `bij`.  `inv3 s` = `eg_inv2 s` /\ `nodes_ok s`.  Executable form `nodes_okb`
   (`nodes_okb_sound`).

   The file re-walks the pass of UnionInvariantFacts.v (whose theorems are used as black boxes for
   the `eg_inv2` part wherever the operation is named there) and adds the `nodes_ok` part.

   Proved (all closed under the global context):
   - `lookup_covers`: the invocation returned by a lookup hit covers its class (under `nodes_ok`).
   - `inv3_shrink_slots`, `inv3_move_to` (the re-keyed bijection `compose_fresh bij map_inv` is
     injective by `syn_below` and covers the slots of the target class), `inv3_union_leaders`,
     `inv3_union_internal` / `inv3_uint`.
   - `inv3_handle_shrink`, `inv3_handle_congruence`, `inv3_determine_self_symmetries`, `inv3_hp_loop`
     (with the exit facts of the loop), `inv3_handle_pending` (the entry `bij ; m` written by the
     None branch), `inv3_rebuild`, `inv3_eg_union`.
   - `pre_shape_keeps_proved`: the pre-shape of a result of find_enode keeps its public slots
     (find_enode is idempotent; a group variant does not change the value set of a child).
   - `inv3_mk_singleton`, `inv3_add_internal`, `inv3_eg_add` (= `eg_add_covers`), `inv3_add_expr`
     (= `add_expr_covers`): insertions keep `inv3` and return a covering invocation, for ANY node /
     term (no premise on the children).
   - `reachable_inv3`, `add_covers_ok_all` (the hypothesis of section 10 of UnionInvariantFacts.v
     holds for all terms), `reachable_eq_equivalence_all`, `reachable_handles_equivalence`.
   - Examples: `nodes_okb` on `ex_state`, `ix_state` and after every operation of six hand-written
     histories; `x_exact_false`: the stronger formulation "values bij = class slots" is false on a
     reachable state. *)
From SE Require Import Slots.SlotMapFacts Group.GroupSound Lang.LangFacts Lang.ShapeFacts Lang.RenameFacts
  Base.TextFacts EGraph.Model EGraph.ModelFacts EGraph.ModelMachine EGraph.UnionFindFacts EGraph.InvariantFacts
  EGraph.UnionInvariantFacts.
Require Import ZArith Lia ZifyBool ZifyN ZifyNat.

Local Notation "a ** b" := (compose_partial a b) (at level 40, left associativity).
Local Notation inv := inverse_nocheck.
Local Notation ectr := Model.ctr.

Local Ltac neq := repeat match goal with
  | H : (_ =? _) = true |- _ => apply N.eqb_eq in H
  | H : (_ =? _) = false |- _ => apply N.eqb_neq in H
  end.

(* ------------------------------------------------------------------ *)
(* 1. the invariant on the stored node bijections, and its executable form *)

Definition entry_ok (sl : sset) (e : node * (slotmap * N)) : Prop :=
  wf (fst (snd e)) /\ injective (fst (snd e)) /\
  (forall k, get (fst (snd e)) k <> None -> In k (pub_occ (fst e))) /\
  (forall x, In x sl -> exists k, get (fst (snd e)) k = Some x).

Definition nodes_ok (s : egraph) : Prop :=
  forall i c e, get_class s i = Ok c -> In e (c_nodes c) -> entry_ok (c_slots c) e.

Definition inv3 (s : egraph) : Prop := eg_inv2 s /\ nodes_ok s.

Definition entry_okb (sl : sset) (e : node * (slotmap * N)) : bool :=
  let bij := fst (snd e) in
  sortedb bij && is_bijection bij
  && forallb (fun kv => sset_mem (fst kv) (slots (fst e))) bij
  && forallb (fun x => existsb (fun kv => snd kv =? x) bij) sl.

Definition nodes_okb (s : egraph) : bool :=
  forallb (fun c => forallb (entry_okb (c_slots c)) (c_nodes c)) (classes s).

Lemma entry_okb_sound : forall sl e, entry_okb sl e = true -> entry_ok sl e.
Proof.
  intros sl [sh [bij src]] H. unfold entry_okb in H. cbn [fst snd] in H.
  apply andb_true_iff in H. destruct H as [H H4]. apply andb_true_iff in H. destruct H as [H H3].
  apply andb_true_iff in H. destruct H as [H1 H2]. apply sortedb_wf in H1.
  unfold entry_ok. cbn [fst snd]. split; [assumption|]. split; [apply is_bijection_injective; assumption|]. split.
  - intros k Hk. destruct (get bij k) as [v|] eqn:G; [|congruence]. apply get_in in G.
    pose proof (proj1 (forallb_forall _ _) H3 _ G) as T. cbn [fst] in T. apply sset_mem_in in T.
    apply slots_spec. assumption.
  - intros x Hx. pose proof (proj1 (forallb_forall _ _) H4 _ Hx) as T. cbv beta in T.
    apply existsb_exists in T. destruct T as ([k v] & Hin & E). cbn [snd] in E. neq. subst v.
    exists k. apply in_get; assumption.
Qed.

Theorem nodes_okb_sound : forall s, nodes_okb s = true -> nodes_ok s.
Proof.
  intros s H i c e Hc He. unfold nodes_okb in H.
  pose proof (proj1 (forallb_forall _ _) H c (get_class_In _ _ _ Hc)) as T. cbv beta in T.
  apply entry_okb_sound. exact (proj1 (forallb_forall _ _) T e He).
Qed.

Lemma entry_ok_incl : forall sl sl' e, incl sl' sl -> entry_ok sl e -> entry_ok sl' e.
Proof. intros sl sl' e I (A & B & C & D). split; [assumption|]. split; [assumption|]. split; [assumption|]. intros x Hx. apply D, I, Hx. Qed.

(* association lists, by membership *)
Lemma na_get_in : forall {V} (l : list (node * V)) k v, na_get l k = Some v -> In (k, v) l.
Proof.
  intros V. induction l as [|[k' v'] t IH]; intros k v H; cbn [na_get] in H; [discriminate|].
  destruct (node_eqb k k') eqn:E.
  - apply node_eqb_iff in E. subst k'. inversion H; subst. left. reflexivity.
  - right. apply IH. assumption.
Qed.

Lemma na_set_in : forall {V} (l : list (node * V)) k v e, In e (na_set l k v) -> e = (k, v) \/ In e l.
Proof.
  intros V. induction l as [|[k' v'] t IH]; intros k v e H; cbn [na_set] in H.
  - destruct H as [<-|[]]. left. reflexivity.
  - destruct (node_eqb k k') eqn:E.
    + apply node_eqb_iff in E. subst k'. destruct H as [<-|H]; [left; reflexivity|right; right; assumption].
    + destruct H as [<-|H]; [right; left; reflexivity|]. apply IH in H. destruct H as [H|H]; [left; assumption|right; right; assumption].
Qed.

Lemma na_remove_in : forall {V} (l : list (node * V)) k e, In e (na_remove l k) -> In e l.
Proof.
  intros V. induction l as [|[k' v'] t IH]; intros k e H; cbn [na_remove] in H; [contradiction|].
  destruct (node_eqb k k'); [right; assumption|]. destruct H as [<-|H]; [left; reflexivity|right; eapply IH; eauto].
Qed.

(* ------------------------------------------------------------------ *)
(* 2. steps that keep the nodes of every class and do not enlarge its slot set *)

Definition nsame (s s' : egraph) : Prop :=
  forall i c', get_class s' i = Ok c' ->
    exists c, get_class s i = Ok c /\ c_nodes c' = c_nodes c /\ incl (c_slots c') (c_slots c).

Lemma nsame_refl : forall s, nsame s s.
Proof. intros s i c H. exists c. split; [assumption|]. split; [reflexivity|apply incl_refl]. Qed.
Lemma nsame_trans : forall a b c, nsame a b -> nsame b c -> nsame a c.
Proof.
  intros a b c H1 H2 i x Hx. destruct (H2 _ _ Hx) as (y & Hy & N2 & I2). destruct (H1 _ _ Hy) as (z & Hz & N1 & I1).
  exists z. split; [assumption|]. split; [congruence|eapply incl_tran; eauto].
Qed.
Lemma nsame_nodes : forall s s', nsame s s' -> nodes_ok s -> nodes_ok s'.
Proof.
  intros s s' H N i c' e Hc' He. destruct (H _ _ Hc') as (c & Hc & En & I). rewrite En in He.
  eapply entry_ok_incl; [exact I|]. eapply N; eauto.
Qed.
Lemma nsame_classes : forall s s', classes s' = classes s -> nsame s s'.
Proof. intros s s' E i c H. unfold get_class in H. rewrite E in H. exists c. split; [exact H|]. split; [reflexivity|apply incl_refl]. Qed.

Lemma nsame_pend : forall s p, nsame s (set_pending s p).
Proof. intros; apply nsame_classes; reflexivity. Qed.
Lemma nsame_hc : forall s h, nsame s (set_hashcons s h).
Proof. intros; apply nsame_classes; reflexivity. Qed.
Lemma nsame_ctr : forall s c, nsame s (set_ctr s c).
Proof. intros; apply nsame_classes; reflexivity. Qed.

Local Notation npres := (pres nsame).
Lemma n_bind : forall A C (m : M A) (k : A -> M C), npres m -> (forall a, npres (k a)) -> npres (mbind m k).
Proof. apply (pres_bind nsame nsame_trans). Qed.
Lemma n_ret : forall A (a : A), npres (ret a).
Proof. apply (pres_ret nsame nsame_refl). Qed.
Lemma n_with_ctr : forall A (f : N -> A * N), npres (with_ctr f).
Proof. intros A f s x s' H. apply with_ctr_spec in H. subst s'. apply nsame_ctr. Qed.
Lemma n_fresh : npres fresh.
Proof. intros s x s' H. inversion H. apply nsame_ctr. Qed.
Lemma n_touched_class : forall i ty, npres (touched_class i ty).
Proof. apply (pres_touched_class nsame nsame_refl nsame_trans nsame_pend). Qed.
Lemma n_pc_congruence : forall a b, npres (pc_congruence a b).
Proof. apply (pres_pc_congruence nsame nsame_refl nsame_trans); intros; apply n_with_ctr. Qed.
Lemma n_synify_app_id : forall a, npres (synify_app_id a).
Proof. apply (pres_synify_app_id nsame nsame_refl nsame_trans n_fresh). Qed.
Lemma n_synify_enode : forall n, npres (synify_enode n).
Proof. apply (pres_synify_enode nsame nsame_refl nsame_trans n_fresh). Qed.
Lemma n_fill_fresh : forall l m, npres (fill_fresh l m).
Proof. apply (pres_fill_fresh nsame nsame_refl nsame_trans n_fresh). Qed.
Lemma n_pending_insert : forall sh ty, npres (pending_insert sh ty).
Proof. intros sh ty s x s' H. inversion H. apply nsame_pend. Qed.
Lemma n_unionfind_set : forall i p, npres (unionfind_set i p).
Proof. intros i p s x s' H. apply nsame_classes. eapply unionfind_set_classes; eauto. Qed.

Lemma get_class_upd : forall s i cn j, (N.to_nat i < lc s)%nat ->
  get_class (set_classes s (set_nth (classes s) (N.to_nat i) cn)) j = if j =? i then Ok cn else get_class s j.
Proof. intros s i cn j L. exact (get_class_set_nth s (set_classes s (set_nth (classes s) (N.to_nat i) cn)) i cn j eq_refl L). Qed.

(* a class update that keeps the nodes and does not enlarge the slots *)
Lemma n_upd_class : forall i f, (forall c, c_nodes (f c) = c_nodes c /\ c_slots (f c) = c_slots c) -> npres (upd_class i f).
Proof.
  intros i f Hf s x s' H. apply upd_class_inv in H. destruct H as (c & Hc & ->).
  pose proof (get_class_lt _ _ _ Hc) as L. intros j cj Hj.
  rewrite (get_class_upd s i (f c) j L) in Hj. destruct (j =? i) eqn:E; neq.
  - subst j. inversion Hj; subst cj. exists c. split; [assumption|]. destruct (Hf c) as [A B]. rewrite A, B.
    split; [reflexivity|apply incl_refl].
  - exists cj. split; [assumption|]. split; [reflexivity|apply incl_refl].
Qed.

Lemma n_upd_class_shrink : forall i c0 f s x s', get_class s i = Ok c0 ->
  c_nodes (f c0) = c_nodes c0 -> incl (c_slots (f c0)) (c_slots c0) ->
  upd_class i f s = Ok (x, s') -> nsame s s'.
Proof.
  intros i c0 f s x s' Hc0 A B H. apply upd_class_inv in H. destruct H as (c & Hc & ->).
  rewrite Hc0 in Hc. inversion Hc; subst c; clear Hc.
  pose proof (get_class_lt _ _ _ Hc0) as L. intros j cj Hj.
  rewrite (get_class_upd s i (f c0) j L) in Hj. destruct (j =? i) eqn:E; neq.
  - subst j. inversion Hj; subst cj. exists c0. auto.
  - exists cj. split; [assumption|]. split; [reflexivity|apply incl_refl].
Qed.

(* ------------------------------------------------------------------ *)
(* 3. adding / removing one entry *)

Lemma usages_nsame : forall (F : eclass -> list node) l, npres (iterM (fun r => upd_class r (fun c => with_usages c (F c))) l).
Proof.
  intros F l. apply (pres_iterM nsame nsame_refl nsame_trans). intros r. apply n_upd_class. intros c. split; reflexivity.
Qed.

(* raw_add_to_class: the entry must be good for the class it is added to *)
Lemma nodes_raw_add : forall id sh bij src s x s' c, nodes_ok s -> get_class s id = Ok c ->
  entry_ok (c_slots c) (sh, (bij, src)) ->
  raw_add_to_class id (sh, bij) src s = Ok (x, s') -> nodes_ok s'.
Proof.
  intros id sh bij src s x s' c N Hc He H. unfold raw_add_to_class in H.
  apply mbind_inv in H. destruct H as (u1 & s1 & H1 & H). apply upd_class_inv in H1. destruct H1 as (c1 & Hc1 & ->).
  rewrite Hc in Hc1. inversion Hc1; subst c1; clear Hc1.
  apply mbind_inv in H. destruct H as (u2 & s2 & H2 & H). inversion H2; subst u2 s2; clear H2.
  apply usages_nsame in H. eapply nsame_nodes; [exact H|]. clear H.
  pose proof (get_class_lt _ _ _ Hc) as L. intros j cj e Hj Hin.
  assert (Hj' : get_class (set_classes s (set_nth (classes s) (N.to_nat id) (with_nodes c (na_set (c_nodes c) sh (bij, src))))) j = Ok cj) by exact Hj.
  rewrite (get_class_upd s id _ j L) in Hj'. destruct (j =? id) eqn:E; neq.
  - inversion Hj'; subst cj. cbn [c_nodes c_slots with_nodes] in *. apply na_set_in in Hin.
    destruct Hin as [->|Hin]; [assumption|]. eapply N; eauto.
  - eapply N; eauto.
Qed.

Lemma nodes_raw_remove : forall id sh s p s', nodes_ok s -> raw_remove_from_class id sh s = Ok (p, s') -> nodes_ok s'.
Proof.
  intros id sh s p s' N H. unfold raw_remove_from_class in H.
  apply bind_reads_inv in H. destruct H as (c & Hc & H).
  apply mbind_inv in H. destruct H as (u1 & s1 & H1 & H). apply upd_class_inv in H1. destruct H1 as (c1 & Hc1 & ->).
  rewrite Hc in Hc1. inversion Hc1; subst c1; clear Hc1.
  apply mbind_inv in H. destruct H as (u2 & s2 & H2 & H). inversion H2; subst u2 s2; clear H2.
  apply mbind_inv in H. destruct H as (u3 & s3 & H3 & H).
  assert (s' = s3) by (destruct (na_get (c_nodes c) sh); inversion H; reflexivity). subst s3.
  apply usages_nsame in H3. eapply nsame_nodes; [exact H3|]. clear H3 H.
  pose proof (get_class_lt _ _ _ Hc) as L. intros j cj e Hj Hin.
  assert (Hj' : get_class (set_classes s (set_nth (classes s) (N.to_nat id) (with_nodes c (na_remove (c_nodes c) sh)))) j = Ok cj) by exact Hj.
  rewrite (get_class_upd s id _ j L) in Hj'. destruct (j =? id) eqn:E; neq.
  - inversion Hj'; subst cj. cbn [c_nodes c_slots with_nodes] in *. apply na_remove_in in Hin. eapply N; eauto.
  - eapply N; eauto.
Qed.

(* ------------------------------------------------------------------ *)
(* 4. the lookup-hit branch of add_internal *)

Lemma inv_injective : forall m, wf m -> injective m -> injective (inv m).
Proof.
  intros m W I k1 k2 v H1 H2. pose proof (proj2 (is_bijection_injective m W) I) as B.
  apply (get_inverse m _ _ W B) in H1, H2. congruence.
Qed.

Lemma compose_injective : forall a b, wf a -> injective a -> injective b -> injective (a ** b).
Proof.
  intros a b W Ia Ib k1 k2 v. rewrite !get_compose_partial by assumption.
  destruct (get a k1) as [y1|] eqn:E1; [|discriminate]. destruct (get a k2) as [y2|] eqn:E2; [|discriminate].
  intros H1 H2. pose proof (Ib _ _ _ H1 H2). subst. eapply Ia; eauto.
Qed.

Lemma filter_key_injective : forall (P : slot -> bool) m, injective m -> injective (filter (fun p => P (fst p)) m).
Proof.
  intros P m I k1 k2 v. rewrite !get_filter_key. destruct (P k1); [|discriminate]. destruct (P k2); [|discriminate]. apply I.
Qed.

Theorem lookup_covers : forall s p t x, nodes_ok s -> wshape p = Ok t ->
  lookup_internal s t = Ok (Some x) -> covers s x.
Proof.
  intros s p [sh n_bij] x N Hw H. unfold lookup_internal in H.
  destruct (na_get (hashcons s) sh) as [i|]; [|discriminate].
  destruct (get_class s i) as [c|] eqn:Hc; cbn [bind] in H; [|discriminate].
  destruct (na_get (c_nodes c) sh) as [[cn_bij src]|] eqn:G; [|discriminate]. inversion H; subst x; clear H.
  apply na_get_in in G. destruct (N _ _ _ Hc G) as (W & I & K & V). cbn [fst snd] in *.
  destruct (shape_bij_props _ _ _ Hw) as (Wn & Bn & _). destruct (shape_bij _ _ _ Hw) as (_ & B2 & _).
  exists c. cbn [aid am]. split; [assumption|]. split.
  - apply (filter_key_injective (fun k => sset_mem k (c_slots c))).
    apply compose_injective; [apply inverse_wf|apply inv_injective; assumption|apply is_bijection_injective; assumption].
  - intros y Hy. rewrite (get_filter_key (fun k => sset_mem k (c_slots c))).
    rewrite (proj2 (sset_mem_in _ _) Hy). rewrite get_compose_partial by apply inverse_wf.
    destruct (V y Hy) as (k & Gk).
    pose proof (proj2 (is_bijection_injective cn_bij W) I) as B.
    rewrite (proj2 (get_inverse cn_bij y k W B) Gk). apply B2. apply K. congruence.
Qed.

(* ------------------------------------------------------------------ *)
(* 5. shrink_slots *)

Definition ui_spec3 (ui : appid -> appid -> M bool) : Prop :=
  forall l r s b s', inv3 s -> covers s l -> covers s r -> ui l r s = Ok (b, s') -> inv3 s' /\ ext s s'.

Lemma inv3_intro : forall s s', eg_inv2 s -> eg_inv s' -> ext s s' -> nodes_ok s' -> inv3 s'.
Proof. intros s s' [_ B] A E N. split; [split; [assumption|eapply syn_below_ext; eauto]|assumption]. Qed.

Section Shrink3.
  Variable fu : nat.
  Hypothesis H3 : ui_spec3 (union_internal fu).

  Lemma shrink_moved3 : forall id cap moved, NoDup cap -> (forall pp, In pp moved -> injective pp) ->
    forall s x s', inv3 s -> (exists c, get_class s id = Ok c /\ incl (c_slots c) cap) ->
    iterM (fun pp =>
             dom sl <- reads (fun s => class_slots s id);
             let l := {| aid := id; am := identity sl |} in
             dom ps <- Model.lift (mapr (fun x => do y <- index pp x; Ok (x, y)) cap);
             let r := {| aid := id; am := from_iter ps |} in
             dom _ <- union_internal fu l r;
             ret tt) moved s = Ok (x, s') ->
    inv3 s' /\ ext s s'.
  Proof.
    intros id cap moved Nd. induction moved as [|pp t IH]; intros Hinj s x s' Hs Hcl H; cbn [iterM] in H.
    - inversion H; subst. split; [assumption|apply ext_refl].
    - apply mbind_inv in H. destruct H as (u & s1 & H1 & H).
      apply bind_reads_inv in H1. destruct H1 as (sl & Hsl & H1). cbv zeta in H1.
      apply mbind_inv in H1. destruct H1 as (ps & s0 & Hps & H1). apply lift_inv in Hps. destruct Hps as [Hps ->].
      apply mbind_inv in H1. destruct H1 as (b & s2 & H1 & H2). inversion H2; subst u s2; clear H2.
      destruct Hcl as (c & Hc & Ic). unfold class_slots in Hsl. rewrite Hc in Hsl. cbn [bind] in Hsl.
      inversion Hsl; subst sl; clear Hsl.
      pose proof (get_from_pairs pp cap ps Nd Hps) as G.
      assert (C2 : covers s {| aid := id; am := from_iter ps |}).
      { exists c. cbn [aid am]. split; [assumption|]. split.
        - intros k1 k2 v A1 A2. apply G in A1, A2. destruct A1 as [_ A1], A2 as [_ A2].
          eapply (Hinj pp); [left; reflexivity| |]; eassumption.
        - intros k Hk. apply Ic in Hk. destruct (mapr_pairs pp cap ps Hps) as [A B].
          rewrite <- A in Hk. apply in_map_iff in Hk. destruct Hk as ([k' v] & Ek & Hin). cbn [fst] in Ek. subst k'.
          assert (E : get (from_iter ps) k = Some v) by (apply G; apply B; assumption). congruence. }
      destruct (H3 _ _ _ _ _ Hs (covers_identity s id c Hc) C2 H1) as [Hs1 E1].
      destruct (proj2 (proj2 E1) _ _ Hc) as (c1 & Hc1 & I1 & _).
      destruct (IH (fun q Hq => Hinj q (or_intror Hq)) s1 x s' Hs1) as [Hs' E2]; [|exact H|].
      + exists c1. split; [assumption|]. eapply incl_tran; eauto.
      + split; [assumption|eapply ext_trans; eauto].
  Qed.

  Theorem inv3_shrink_slots : forall from cap s x s', inv3 s -> lcanon s from ->
    shrink_slots (union_internal fu) from cap s = Ok (x, s') -> inv3 s' /\ ext s s'.
  Proof.
    intros from cap s x s' [Hs2 HN] [Ld (c & Hc & Gc & Wf & Bf & Kf)] H. pose proof Hs2 as [Hs Hbl]. unfold shrink_slots in H.
    apply mbind_inv in H. destruct H as (ocl & s0 & Hoc & H). apply lift_inv in Hoc. destruct Hoc as [Hoc ->].
    set (oc := sset_of_list ocl) in *.
    destruct (sset_of_list_spec ocl) as [Woc Ioc]. fold oc in Woc, Ioc.
    assert (Ic : incl oc (c_slots c)).
    { intros y Hy. apply Ioc in Hy. destruct (mapr_in _ _ _ Hoc y Hy) as (x0 & _ & E). unfold index in E.
      destruct (get (inv (am from)) x0) as [y'|] eqn:G; [|discriminate]. inversion E; subst y'.
      apply (get_inverse _ _ _ Wf Bf) in G. rewrite <- Kf. apply keys_spec. congruence. }
    apply mbind_inv in H. destruct H as (u1 & s1 & H1 & H).
    unfold record_redundancy_witness in H1. apply bind_reads_inv in H1. destruct H1 as (ss & Hss & H1).
    unfold syn_slots in Hss. rewrite Hc in Hss. cbn [bind] in Hss. inversion Hss; subst ss; clear Hss.
    pose proof (n_unionfind_set _ _ _ _ _ H1) as NS1.
    pose proof (unionfind_set_classes _ _ _ _ _ H1) as Cl1.
    pose proof (unionfind_set_spec _ _ _ _ _ H1) as (_ & Ct1 & _).
    apply unionfind_set_uf in H1. destruct Ld as (el & Hel & Hal). pose proof (uentry_lt _ _ _ Hel) as Lid.
    destruct H1 as [[Ei _]|[_ U1]]; [lia|].
    cbv zeta in H. apply bind_reads_inv in H. destruct H as (c1 & Hc1 & H).
    assert (c1 = c). { unfold get_class in Hc1, Hc. rewrite Cl1 in Hc1. congruence. } subst c1.
    apply mbind_inv in H. destruct H as (flags & s0 & Hfl & H). apply lift_inv in Hfl. destruct Hfl as [Hfl ->].
    apply mbind_inv in H. destruct H as (g & s0 & Hg & H). apply lift_inv in Hg. destruct Hg as [Hg ->].
    apply mbind_inv in H. destruct H as (u2 & s2 & H2 & H).
    assert (NS2 : nsame s1 s2).
    { eapply (n_upd_class_shrink (aid from) c); [exact Hc1| | |exact H2]; cbn [c_nodes c_slots with_group with_slots]; [reflexivity|exact Ic]. }
    apply upd_class_inv in H2. destruct H2 as (c2 & Hc2 & ->).
    assert (c2 = c). { unfold get_class in Hc2, Hc. rewrite Cl1 in Hc2. congruence. } subst c2.
    apply mbind_inv in H. destruct H as (u3 & s3 & H3' & H).
    pose proof (n_touched_class _ _ _ _ _ H3') as NS3. apply s_touched_class in H3'.
    pose proof (ei_cls s Hs _ _ Hc) as (Wc & _ & Isyn).
    pose proof (grp_ok_generators c Gc) as Gens.
    set (gsel := fun pp : perm => allr (fun x => do y <- index pp x; Ok (sset_mem y oc)) oc) in *.
    match type of H3' with semR ?st _ => set (s2 := st) in * end.
    assert (S2 : eg_inv s2 /\ ext s s2).
    { apply (shrink_state s s2 (aid from) c {| aid := aid from; am := identity (slots (c_syn c)) ** identity oc |} oc g);
        try assumption.
      - exists el. auto.
      - match type of Hg with group_new _ _ ?r = _ => exists r end.
        cbn [c_slots c_group with_group with_slots]. split; [|exact Hg].
        apply Forall_forall. intros q Hq. apply in_map_iff in Hq. destruct Hq as (pp & <- & Hpp).
        apply in_map_iff in Hpp. destruct Hpp as ([pp' b] & Epp & Hin). cbn [fst] in Epp. subst pp'.
        apply filter_In in Hin. destruct Hin as [Hin Hb]. cbn [snd] in Hb. subst b.
        destruct (mapr_combine _ _ _ Hfl _ _ Hin) as [Hall Hflag].
        apply (restrict_perm_on (c_slots c)).
        + exact (proj1 (Forall_forall _ _) Gens pp Hall).
        + apply swf_NoDup. assumption.
        + intros x0 Hx0. pose proof (allr_true _ _ Hflag x0 Hx0) as T. cbv beta in T. unfold index in T.
          destruct (get pp x0) as [y|]; cbn [bind] in T; [|discriminate]. exists y. split; [reflexivity|].
          apply mem_in. inversion T. reflexivity.
      - apply compose_partial_wf.
      - apply pid_compose; [apply identity_wf|apply pid_identity|apply pid_identity].
      - reflexivity.
      - cbn [am]. apply sset_ext; [apply sset_of_list_spec|assumption|]. intros k. rewrite keys_spec.
        rewrite get_compose_partial by apply identity_wf. rewrite get_identity.
        destruct (sset_mem k (slots (c_syn c))) eqn:E.
        + rewrite get_identity. destruct (sset_mem k oc) eqn:E2.
          * apply mem_in in E2. split; [auto|discriminate].
          * split; [congruence|]. intros Hk. apply mem_in in Hk. congruence.
        + split; [congruence|]. intros Hk. apply Ic, Isyn, mem_in in Hk. congruence.
      - unfold s2. cbn [classes set_classes]. rewrite Cl1. reflexivity.
      - unfold s2. cbn [Model.ctr set_classes]. rewrite Ct1. lia. }
    destruct S2 as [Hs2' E2]. destruct (semR_step _ _ H3' Hs2') as [Hs3 E3].
    pose proof (ext_trans _ _ _ E2 E3) as E03.
    assert (I3 : inv3 s3).
    { eapply inv3_intro; [exact Hs2|exact Hs3|exact E03|].
      eapply nsame_nodes; [|exact HN]. eapply nsame_trans; [exact NS1|]. eapply nsame_trans; [exact NS2|exact NS3]. }
    assert (Hc3' : exists c3, get_class s3 (aid from) = Ok c3 /\ incl (c_slots c3) oc).
    { destruct (proj2 (proj2 E3) (aid from) (with_group (with_slots c oc) g)) as (c4 & Hc4 & I4 & _).
      - unfold s2, get_class. cbn [classes set_classes]. rewrite nth_opt_set_same; [reflexivity|].
        rewrite Cl1. eapply get_class_lt; eauto.
      - exists c4. split; [assumption|]. exact I4. }
    match type of H with iterM _ ?mv _ = _ => set (moved := mv) in * end.
    assert (MI : forall pp, In pp moved -> injective pp).
    { intros pp Hpp. unfold moved in Hpp.
      apply in_map_iff in Hpp. destruct Hpp as ([pp' b] & Epp & Hin). cbn [fst] in Epp. subst pp'.
      apply filter_In in Hin. destruct Hin as [Hin _].
      destruct (mapr_combine _ _ _ Hfl _ _ Hin) as [Hall _].
      exact (proj1 (proj2 (proj2 (proj2 (proj1 (Forall_forall _ _) Gens pp Hall))))). }
    destruct (shrink_moved3 (aid from) oc moved (swf_NoDup _ Woc) MI s3 x s' I3 Hc3' H) as [Hs' E'].
    split; [assumption|]. eapply ext_trans; [exact E03|exact E'].
  Qed.
End Shrink3.

(* ------------------------------------------------------------------ *)
(* 6. move_to: the re-keyed bijection `compose_fresh bij map_inv` *)

Lemma move_entry_ok : forall bij mi c sh src slf slt,
  entry_ok slf (sh, (bij, src)) -> injective mi -> (forall k v, get mi k = Some v -> v < c) ->
  (forall y, In y slt -> exists x, In x slf /\ get mi x = Some y) ->
  entry_ok slt (sh, (fst (compose_fresh bij mi c), src)).
Proof.
  intros bij mi c sh src slf slt (W & I & K & V) Imi Bmi Sur. cbn [fst snd] in *.
  pose proof (fun k => compose_fresh_spec bij mi c k W) as Sp. cbv zeta in Sp.
  destruct (compose_fresh_inj bij mi c W I Imi Bmi) as [Ir _].
  unfold entry_ok. cbn [fst snd]. split; [exact (proj1 (Sp 0))|]. split; [exact Ir|]. split.
  - intros k Hk. apply K. destruct (Sp k) as (_ & _ & T). destruct (get bij k); [discriminate|congruence].
  - intros y Hy. destruct (Sur y Hy) as (x & Hx & Gx). destruct (V x Hx) as (k & Gk). exists k.
    destruct (Sp k) as (_ & _ & T). rewrite Gk, Gx in T. exact T.
Qed.

Lemma semR_class_slots : forall s s' i c, semR s s' -> get_class s i = Ok c ->
  exists c', get_class s' i = Ok c' /\ c_slots c' = c_slots c.
Proof.
  intros s s' i c [E _] Hc. destruct (get_class_sem_ok s s' i c E Hc) as (c' & Hc' & Cs).
  apply csem_inv in Cs. exists c'. split; [assumption|tauto].
Qed.

Lemma move_loop_nodes : forall idf idt mi slf ct l s0,
  get_class s0 idt = Ok ct -> injective mi -> (forall k v, get mi k = Some v -> v < ectr s0) ->
  (forall y, In y (c_slots ct) -> exists x, In x slf /\ get mi x = Some y) ->
  (forall e, In e l -> entry_ok slf e) ->
  forall s x s', semR s0 s -> nodes_ok s ->
  iterM (fun e => let '(sh, (bij, src_id)) := e in
                  dom _ <- raw_remove_from_class idf sh;
                  dom new_bij <- with_ctr (compose_fresh bij mi);
                  dom _ <- raw_add_to_class idt (sh, new_bij) src_id;
                  pending_insert sh true) l s = Ok (x, s') -> nodes_ok s'.
Proof.
  intros idf idt mi slf ct l s0 Hct Imi Bmi Sur. induction l as [|[sh [bij src]] t IH]; intros Hl s x s' S0 N H; cbn [iterM] in H.
  - inversion H; subst. assumption.
  - apply mbind_inv in H. destruct H as (u & s4 & H1 & H).
    apply mbind_inv in H1. destruct H1 as (p & s1 & Hr & H1).
    apply mbind_inv in H1. destruct H1 as (nb & s2 & Hcf & H1).
    apply mbind_inv in H1. destruct H1 as (u3 & s3 & Ha & Hp).
    pose proof (nodes_raw_remove _ _ _ _ _ N Hr) as N1. pose proof (s_raw_remove _ _ _ _ _ Hr) as S1.
    pose proof (s_compose_fresh _ _ _ _ _ Hcf) as S2.
    pose proof (nsame_nodes _ _ (n_with_ctr _ _ _ _ _ Hcf) N1) as N2.
    pose proof (semR_trans _ _ _ S0 (semR_trans _ _ _ S1 S2)) as S02.
    destruct (semR_class_slots _ _ _ _ S02 Hct) as (ct2 & Hct2 & Sl2).
    assert (Enb : nb = fst (compose_fresh bij mi (ectr s1))).
    { unfold with_ctr in Hcf. destruct (compose_fresh bij mi (ectr s1)) as [a b]. inversion Hcf. reflexivity. }
    assert (EO : entry_ok (c_slots ct2) (sh, (nb, src))).
    { rewrite Enb, Sl2. apply (move_entry_ok bij mi (ectr s1) sh src slf (c_slots ct)); try assumption.
      - apply Hl. left. reflexivity.
      - intros k v G. apply Bmi in G. destruct (semR_trans _ _ _ S0 S1) as [_ L]. lia. }
    pose proof (nodes_raw_add _ _ _ _ _ _ _ _ N2 Hct2 EO Ha) as N3.
    pose proof (nsame_nodes _ _ (n_pending_insert _ _ _ _ _ Hp) N3) as N4.
    apply (IH (fun e He => Hl e (or_intror He)) s4 x s'); [|exact N4|exact H].
    eapply semR_trans; [exact S02|]. eapply semR_trans; [exact (s_raw_add _ _ _ _ _ _ Ha)|exact (s_pending_insert _ _ _ _ _ Hp)].
Qed.

Theorem inv3_move_to : forall from to s x s', inv3 s -> lcanon s from -> lcanon s to ->
  aid to <> aid from -> values (am from) = values (am to) ->
  move_to from to s = Ok (x, s') -> inv3 s' /\ ext s s'.
Proof.
  intros from to s x s' [Hs2 HN] Lf Lt Hn V H. pose proof Hs2 as [Hs Hbl].
  destruct (inv_move_to from to s x s' Hs Lf Lt Hn V H) as [Hs' E]. split; [|exact E].
  eapply inv3_intro; [exact Hs2|exact Hs'|exact E|].
  destruct Lf as [Lf Cf]. destruct Lt as [Lt Ct]. unfold move_to in H. cbv zeta in H.
  pose proof Cf as (cf & Hcf & Gf & Wf & Bf & Kf). pose proof Ct as (ct & Hct & Gt & Wt & Bt & Kt).
  destruct (move_map_ok s from to cf ct Hcf Hct Cf Ct V) as (Wm & Im & Sm & Vm).
  apply mbind_inv in H. destruct H as (u1 & s1 & H1 & H).
  pose proof (unionfind_set_classes _ _ _ _ _ H1) as Cl1.
  pose proof (unionfind_set_spec _ _ _ _ _ H1) as (_ & Ct1 & _).
  pose proof (nsame_nodes _ _ (n_unionfind_set _ _ _ _ _ H1) HN) as N1.
  assert (GC : forall j, get_class s1 j = get_class s j) by (intros j; unfold get_class; rewrite Cl1; reflexivity).
  apply bind_reads_inv in H. destruct H as (cf1 & Hcf1 & H). rewrite GC, Hcf in Hcf1. inversion Hcf1; subst cf1; clear Hcf1.
  apply mbind_inv in H. destruct H as (u2 & s2 & H2 & H).
  set (m := am to ** inv (am from)) in *.
  pose proof (proj2 (is_bijection_injective m Wm) Im) as Bm.
  assert (N2 : nodes_ok s2).
  { apply (move_loop_nodes (aid from) (aid to) (inv m) (c_slots cf) ct (c_nodes cf) s1) with (s := s1) (x := u2); try assumption.
    - rewrite GC. exact Hct.
    - apply inv_injective; assumption.
    - intros k v G. apply (get_inverse m _ _ Wm Bm) in G. rewrite Ct1.
      assert (Hv : In v (c_slots ct)).
      { rewrite <- Kt. apply keys_spec. unfold m in G. rewrite get_compose_partial in G by assumption.
        destruct (get (am to) v); [discriminate|discriminate]. }
      destruct (ei_cls s Hs _ _ Hct) as (_ & _ & Isyn). apply Isyn, slots_spec, pub_occ_all_occ in Hv.
      exact (Hbl _ _ _ Hct Hv).
    - intros y Hy. destruct (get m y) as [x0|] eqn:G; [|exfalso; exact (Sm y Hy G)].
      exists x0. split; [eapply Vm; eauto|]. apply (get_inverse m _ _ Wm Bm). exact G.
    - intros e He. rewrite <- GC in Hcf. exact (N1 _ _ _ Hcf He).
    - apply semR_refl. }
  apply bind_reads_inv in H. destruct H as (cf2 & Hcf2 & H).
  apply bind_reads_inv in H. destruct H as (ct2 & Hct2 & H).
  apply mbind_inv in H. destruct H as (r & s0 & Hr & H). apply lift_inv in Hr. destruct Hr as [Hr ->].
  apply mbind_inv in H. destruct H as (u3 & s3 & H3 & H).
  assert (N3 : nodes_ok s3).
  { eapply nsame_nodes; [|exact N2]. eapply n_upd_class; [|exact H3]. intros c0. split; reflexivity. }
  eapply nsame_nodes; [|exact N3]. revert H. apply n_bind; [destruct (snd r); [apply n_touched_class|apply n_ret]|].
  intros _. apply n_touched_class.
Qed.

(* ------------------------------------------------------------------ *)
(* 7. union_leaders, union_internal *)

Section Leaders3.
  Variable fu : nat.
  Hypothesis H3 : ui_spec3 (union_internal fu).

  Theorem inv3_union_leaders : forall l r s b s', inv3 s -> lcanon s l -> lcanon s r ->
    union_leaders (union_internal fu) l r s = Ok (b, s') -> inv3 s' /\ ext s s'.
  Proof.
    intros l r s b s' I3 Ll Lr H. pose proof I3 as [Hs2 HN]. pose proof Hs2 as [Hs Hbl].
    pose proof (inv_union_leaders (union_internal fu) (inv_union_internal fu) l r s b s' Hs Ll Lr H) as [Hs' E'].
    unfold union_leaders in H.
    apply bind_reads_inv in H. destruct H as (e & _ & H).
    destruct e; [inversion H; subst; split; [assumption|apply ext_refl]|]. cbv zeta in H.
    pose proof (canon_covers _ _ (proj2 Ll)) as Cl. pose proof (canon_covers _ _ (proj2 Lr)) as Cr.
    destruct (negb (sset_eqb (values (am l)) _)) eqn:E1.
    { apply mbind_inv in H. destruct H as (u1 & s1 & H1 & H).
      destruct (inv3_shrink_slots fu H3 _ _ _ _ _ I3 Ll H1) as [Hs1 X1].
      apply mbind_inv in H. destruct H as (b2 & s2 & H2 & H). inversion H; subst b s2; clear H.
      destruct (H3 _ _ _ _ _ Hs1 (covers_ext _ _ _ X1 Cl) (covers_ext _ _ _ X1 Cr) H2) as [Hs2' X2].
      split; [assumption|eapply ext_trans; eauto]. }
    destruct (negb (sset_eqb (values (am r)) _)) eqn:E2.
    { apply mbind_inv in H. destruct H as (u1 & s1 & H1 & H).
      destruct (inv3_shrink_slots fu H3 _ _ _ _ _ I3 Lr H1) as [Hs1 X1].
      apply mbind_inv in H. destruct H as (b2 & s2 & H2 & H). inversion H; subst b s2; clear H.
      destruct (H3 _ _ _ _ _ Hs1 (covers_ext _ _ _ X1 Cl) (covers_ext _ _ _ X1 Cr) H2) as [Hs2' X2].
      split; [assumption|eapply ext_trans; eauto]. }
    apply negb_false_iff in E1, E2. apply sset_eqb_eq in E1, E2.
    assert (V : values (am l) = values (am r)) by congruence.
    destruct (aid l =? aid r) eqn:E3; neq.
    - split; [|exact E']. eapply inv3_intro; [exact Hs2|exact Hs'|exact E'|].
      apply bind_reads_inv in H. destruct H as (c & Hc & H).
      apply mbind_inv in H. destruct H as (bc & s0 & Hb & H). apply lift_inv in Hb. destruct Hb as [Hb ->].
      destruct bc; [inversion H; subst; assumption|].
      apply mbind_inv in H. destruct H as ([g' bg] & s0 & Hg & H). apply lift_inv in Hg. destruct Hg as [Hg ->].
      cbn [fst] in H.
      apply mbind_inv in H. destruct H as (u1 & s1 & H1 & H).
      apply mbind_inv in H. destruct H as (u2 & s2 & H2 & H). inversion H; subst b s2; clear H.
      eapply nsame_nodes; [|exact HN]. eapply nsame_trans; [|exact (n_touched_class _ _ _ _ _ H2)].
      eapply n_upd_class; [|exact H1]. intros c0. split; reflexivity.
    - apply bind_reads_inv in H. destruct H as (cl & Hcl & H).
      apply bind_reads_inv in H. destruct H as (cr & Hcr & H). cbv zeta in H.
      apply mbind_inv in H. destruct H as (u1 & s1 & H1 & H). inversion H; subst b s1; clear H.
      match type of H1 with (if ?b then _ else _) _ = _ => destruct b end.
      + eapply inv3_move_to; [exact I3|exact Ll|exact Lr| |exact V|exact H1]. congruence.
      + eapply inv3_move_to; [exact I3|exact Lr|exact Ll| | |exact H1]; congruence.
  Qed.

  Theorem inv3_union_internal_body : ui_spec3 (union_internal_body (union_internal fu)).
  Proof.
    intros l r s b s' I3 Cl Cr H. unfold union_internal_body in H.
    apply bind_reads_inv in H. destruct H as (l' & Hl & H).
    apply bind_reads_inv in H. destruct H as (r' & Hr & H).
    eapply inv3_union_leaders; [exact I3| | |exact H].
    - exact (covers_lcanon s l l' (proj1 (proj1 I3)) Cl Hl).
    - exact (covers_lcanon s r r' (proj1 (proj1 I3)) Cr Hr).
  Qed.
End Leaders3.

Theorem inv3_union_internal : forall fuel, ui_spec3 (union_internal fuel).
Proof.
  induction fuel as [|f IH]; [intros l r s b s' _ _ _ H; discriminate|].
  intros l r. rewrite union_internal_S. apply inv3_union_internal_body. exact IH.
Qed.

Corollary inv3_uint : ui_spec3 uint.
Proof. apply inv3_union_internal. Qed.

(* ------------------------------------------------------------------ *)
(* 8. the rebuild side *)

Definition step3 (s s' : egraph) : Prop := inv3 s -> inv3 s' /\ ext s s'.
Lemma step3_refl : forall s, step3 s s.
Proof. intros s H. split; [assumption|apply ext_refl]. Qed.
Lemma step3_trans : forall a b c, step3 a b -> step3 b c -> step3 a c.
Proof.
  intros a b c H1 H2 Ha. destruct (H1 Ha) as [Hb E1]. destruct (H2 Hb) as [Hc E2].
  split; [assumption|eapply ext_trans; eauto].
Qed.

Local Notation qpres := (pres step3).
Lemma q_bind : forall A C (m : M A) (k : A -> M C), qpres m -> (forall a, qpres (k a)) -> qpres (mbind m k).
Proof. apply (pres_bind step3 step3_trans). Qed.
Lemma q_ret : forall A (a : A), qpres (ret a).
Proof. apply (pres_ret step3 step3_refl). Qed.
Lemma q_reads : forall A (f : egraph -> res A), qpres (reads f).
Proof. apply (pres_reads step3 step3_refl). Qed.
Lemma q_lift : forall A (r : res A), qpres (Model.lift r).
Proof. apply (pres_lift step3 step3_refl). Qed.
Lemma q_fail : forall A e, qpres (@fail A e).
Proof. apply (pres_fail step3). Qed.
Lemma q_gets : forall A (f : egraph -> A), qpres (gets f).
Proof. apply (pres_gets step3 step3_refl). Qed.

Lemma semn_step3 : forall s s', semR s s' -> nsame s s' -> step3 s s'.
Proof.
  intros s s' S N [Hs2 HN]. destruct (semR_step2 _ _ S Hs2) as [Hs' E]. split; [|exact E].
  split; [exact Hs'|eapply nsame_nodes; eauto].
Qed.

Lemma s_modify_pend' : forall f s x s', modify (fun s => set_pending s (f s)) s = Ok (x, s') -> semR s s' /\ nsame s s'.
Proof. intros f s x s' H. inversion H. split; [split; [apply sem_set_pending|cbn; lia]|apply nsame_pend]. Qed.

Lemma inv3_pcc_uint : forall s0 s i pc1 pc2 ab s1 b s', inv3 s0 -> ext s0 s -> inv3 s ->
  pc_from_src_id s0 i = Ok pc1 -> lcanon s0 (snd pc2) ->
  pc_congruence pc1 pc2 s = Ok (ab, s1) -> uint (fst ab) (snd ab) s1 = Ok (b, s') ->
  inv3 s' /\ ext s s'.
Proof.
  intros s0 s i pc1 pc2 ab s1 b s' [[Hs0 Hb0] _] E0 I3 P1 L2 H U.
  destruct (pc_props s0 i pc1 Hs0 P1) as (L1 & c & Hc & Oc).
  destruct (canon_wf_inj _ _ (proj2 L2)) as [W2 I2].
  destruct (pcc_injective s pc1 pc2 ab s1) as (F1 & F2 & F3 & F4); try assumption.
  { intros x Hx. assert (x < ectr s0) by (apply (Hb0 i c x Hc); apply Oc; apply pub_occ_all_occ; assumption).
    destruct E0 as (L & _). lia. }
  destruct (semn_step3 _ _ (s_pc_congruence _ _ _ _ _ H) (n_pc_congruence _ _ _ _ _ H) I3) as [Hs1 E1].
  pose proof (ext_trans _ _ _ E0 E1) as E01.
  assert (C1 : covers s1 (fst ab)).
  { rewrite F1. apply (covers_ext s0 s1); [assumption|]. apply canon_covers. apply L1. }
  assert (C2 : covers s1 (snd ab)).
  { pose proof (canon_covers _ _ (proj2 L2)) as C. apply (covers_ext s0 s1 _ E01) in C.
    destruct C as (c2 & Hc2 & _ & Sk). exists c2. rewrite F2. split; [assumption|]. split; [assumption|].
    intros k Hk. apply F4. apply Sk. assumption. }
  destruct (inv3_uint _ _ _ _ _ Hs1 C1 C2 U) as [Hs' E2].
  split; [assumption|eapply ext_trans; eauto].
Qed.

Theorem inv3_handle_shrink : forall src, qpres (handle_shrink_in_upwards_merge src).
Proof.
  intros src s x s' H I3. pose proof I3 as [[Hs Hb] _]. unfold handle_shrink_in_upwards_merge in H.
  apply bind_reads_inv in H. destruct H as (pc1 & P1 & H).
  apply bind_reads_inv in H. destruct H as (n2 & _ & H).
  apply mbind_inv in H. destruct H as ([a b] & s1 & H1 & H).
  pose proof (pc_congruence_fst _ _ _ _ _ H1) as Fa. cbn [fst] in Fa. subst a.
  destruct (pc_props s src pc1 Hs P1) as (L1 & _).
  pose proof (s_pc_congruence _ _ _ _ _ H1) as S1.
  destruct (semn_step3 _ _ S1 (n_pc_congruence _ _ _ _ _ H1) I3) as [Hs1 E1].
  destruct (inv3_shrink_slots ui_fuel (inv3_union_internal ui_fuel) _ _ _ _ _ Hs1 (lcanon_sem _ _ _ (proj1 S1) L1) H) as [Hs' E2].
  split; [assumption|eapply ext_trans; eauto].
Qed.

Theorem inv3_handle_congruence : forall src s pc1 x s', inv3 s -> pc_from_src_id s src = Ok pc1 ->
  handle_congruence pc1 s = Ok (x, s') -> inv3 s' /\ ext s s'.
Proof.
  intros src s pc1 x s' I3 P1 H. unfold handle_congruence in H.
  apply bind_reads_inv in H. destruct H as (sh & _ & H).
  apply bind_reads_inv in H. destruct H as (pc2 & P2 & H).
  apply mbind_inv in H. destruct H as (ab & s1 & H1 & H).
  apply mbind_inv in H. destruct H as (b & s2 & H2 & H). inversion H; subst x s2; clear H.
  unfold pc_from_shape in P2. destruct (na_get (hashcons s) (fst sh)) as [i2|]; [|discriminate].
  destruct (get_class s i2) as [c2|]; cbn [bind] in P2; [|discriminate].
  destruct (na_get (c_nodes c2) (fst sh)) as [[bj src2]|]; [|discriminate].
  destruct (pc_props s src2 pc2 (proj1 (proj1 I3)) P2) as (L2 & _).
  exact (inv3_pcc_uint s s src pc1 pc2 ab s1 b s' I3 (ext_refl s) I3 P1 L2 H1 H2).
Qed.

Theorem inv3_determine_self_symmetries : forall src, qpres (determine_self_symmetries src).
Proof.
  intros src s x s' H I3. unfold determine_self_symmetries in H.
  apply bind_reads_inv in H. destruct H as (pc1 & P1 & H).
  apply mbind_inv in H. destruct H as (w & s0 & Hw & H). apply lift_inv in Hw. destruct Hw as [Hw ->].
  cbv zeta in H. apply bind_reads_inv in H. destruct H as (vs & _ & H).
  destruct (pc_props s src pc1 (proj1 (proj1 I3)) P1) as (L1 & _).
  assert (G : forall vs s1 x s', inv3 s1 -> ext s s1 ->
            iterM (fun pn2 => dom w2 <- Model.lift (wshape pn2);
                     if node_eqb (fst w) (fst w2) then
                       dom ab <- pc_congruence pc1 (pn2, snd pc1); dom _ <- uint (fst ab) (snd ab); ret tt
                     else ret tt) vs s1 = Ok (x, s') -> inv3 s' /\ ext s1 s').
  { clear H vs x s'. induction vs as [|pn2 t IH]; intros s1 x s' Hs1 E01 H; cbn [iterM] in H.
    - inversion H; subst. split; [assumption|apply ext_refl].
    - apply mbind_inv in H. destruct H as (u & s2 & H1 & H).
      assert (S12 : inv3 s2 /\ ext s1 s2).
      { apply mbind_inv in H1. destruct H1 as (w2 & s0 & Hw2 & H1). apply lift_inv in Hw2. destruct Hw2 as [_ ->].
        destruct (node_eqb (fst w) (fst w2)); [|inversion H1; subst; split; [assumption|apply ext_refl]].
        apply mbind_inv in H1. destruct H1 as (ab & s3 & H3 & H1).
        apply mbind_inv in H1. destruct H1 as (b & s4 & H4 & H1). inversion H1; subst u s4; clear H1.
        exact (inv3_pcc_uint s s1 src pc1 (pn2, snd pc1) ab s3 b s2 I3 E01 Hs1 P1 L1 H3 H4). }
      destruct S12 as [Hs2' E12]. destruct (IH s2 x s' Hs2' (ext_trans _ _ _ E01 E12) H) as [Hs' E2].
      split; [assumption|eapply ext_trans; eauto]. }
  exact (G vs s x s' I3 (ext_refl s) H).
Qed.

(* the loop of handle_pending: on exit the invocation is a canonical leader invocation, the node
   is the result of find_enode in the final state, and the loop condition holds *)
Lemma lcanon_ext_find : forall s0 s a a', eg_inv s -> ext s0 s -> lcanon s0 a ->
  find_applied_id s a = Ok a' -> lcanon s a'.
Proof.
  intros s0 s a a' Hs E [_ C] F. eapply covers_lcanon; [exact Hs| |exact F].
  eapply covers_ext; [exact E|]. apply canon_covers. exact C.
Qed.

Lemma inv3_hp_loop : forall fuel src enode i s r s', inv3 s -> lcanon s i ->
  (exists n0, find_enode s n0 = Ok enode) ->
  hp_loop fuel src enode i s = Ok (r, s') ->
  inv3 s' /\ ext s s' /\ lcanon s' (snd r) /\ (exists n0, find_enode s' n0 = Ok (fst r)) /\
  sset_subset (values (am (snd r))) (slots (fst r)) = true.
Proof.
  induction fuel as [|f IH]; intros src enode i s r s' I3 L F H; cbn [hp_loop] in H; [discriminate|].
  destruct (sset_subset (values (am i)) (slots enode)) eqn:E.
  - inversion H; subst r s'. cbn [fst snd]. split; [assumption|]. split; [apply ext_refl|]. auto.
  - apply mbind_inv in H. destruct H as (u & s1 & H1 & H).
    destruct (inv3_handle_shrink _ _ _ _ H1 I3) as [I1 E1].
    apply bind_reads_inv in H. destruct H as (enode' & He & H).
    apply bind_reads_inv in H. destruct H as (i' & Hi & H).
    destruct (IH src enode' i' s1 r s' I1) as (I' & E' & R); [| |exact H|].
    + eapply lcanon_ext_find; [exact (proj1 (proj1 I1))|exact E1|exact L|exact Hi].
    + exists enode. exact He.
    + split; [assumption|]. split; [eapply ext_trans; eauto|exact R].
Qed.

Lemma fill_fresh_inj : forall l m s m' s', wf m -> injective m -> (forall k v, get m k = Some v -> v < ectr s) ->
  fill_fresh l m s = Ok (m', s') -> injective m' /\ (forall k v, get m' k = Some v -> v < ectr s').
Proof.
  induction l as [|x t IH]; intros m s m' s' W I B H; cbn [fill_fresh] in H.
  - inversion H; subst. auto.
  - destruct (contains_key m x); [eapply IH; eauto|].
    apply mbind_inv in H. destruct H as (f & s1 & H1 & H). inversion H1; subst f s1; clear H1.
    apply (IH _ _ _ _ (insert_wf _ _ _ W)) in H; [exact H| |].
    + intros k1 k2 v. rewrite !get_insert by assumption.
      destruct (k1 =? x) eqn:E1, (k2 =? x) eqn:E2; neq; intros A1 A2.
      * congruence.
      * inversion A1; subst v. apply B in A2. lia.
      * inversion A2; subst v. apply B in A1. lia.
      * eapply I; eauto.
    + intros k v. rewrite get_insert by assumption. cbn [Model.ctr set_ctr]. destruct (k =? x).
      * intros A. inversion A; subst v. lia.
      * intros A. apply B in A. lia.
Qed.

(* the one fact about shapes that handle_pending needs: computing the pre-shape of a node that
   is already the result of find_enode does not lose public slots *)
Definition pre_shape_keeps : Prop :=
  forall s n0 n p, eg_inv s -> find_enode s n0 = Ok n -> pre_shape s n = Ok p -> incl (slots n) (slots p).

Section Rebuild3.
  Hypothesis KEY : pre_shape_keeps.

  Theorem inv3_handle_pending : forall sh ty, qpres (handle_pending sh ty).
  Proof.
    intros sh ty s x s' H I3. unfold handle_pending in H.
    apply bind_reads_inv in H. destruct H as (i & _ & H).
    destruct (negb ty); [inversion H; subst; split; [assumption|apply ext_refl]|].
    apply bind_reads_inv in H. destruct H as (c & Hc & H).
    apply mbind_inv in H. destruct H as ([bij0 src_id] & s0 & Hp & H). apply lift_inv in Hp. destruct Hp as [_ ->].
    apply mbind_inv in H. destruct H as (nd & s0 & Hnd & H). apply lift_inv in Hnd. destruct Hnd as [_ ->].
    apply mbind_inv in H. destruct H as (u1 & sA & HA & H).
    assert (IA : inv3 sA /\ ext s sA).
    { destruct I3 as [Hs2 HN]. destruct (semR_step2 _ _ (s_raw_remove _ _ _ _ _ HA) Hs2) as [HsA EA].
      split; [|exact EA]. split; [exact HsA|eapply nodes_raw_remove; eauto]. }
    destruct IA as [IA EA].
    apply bind_reads_inv in H. destruct H as (sl & Hsl & H). cbv zeta in H.
    apply bind_reads_inv in H. destruct H as (enode0 & Hen & H).
    apply bind_reads_inv in H. destruct H as (i0 & Hi0 & H).
    unfold class_slots in Hsl. destruct (get_class sA i) as [cA|] eqn:HcA; cbn [bind] in Hsl; [|discriminate].
    inversion Hsl; subst sl; clear Hsl.
    pose proof (covers_lcanon sA _ i0 (proj1 (proj1 IA)) (covers_identity sA i cA HcA) Hi0) as L0.
    apply mbind_inv in H. destruct H as ([enode i1] & sB & HB & H).
    destruct (inv3_hp_loop _ _ _ _ _ _ _ IA L0 (ex_intro _ nd Hen) HB) as (IB & EB & L1 & (n0 & Fn) & Sub). cbn [fst snd] in *.
    pose proof (ext_trans _ _ _ EA EB) as E0B.
    apply bind_reads_inv in H. destruct H as (t & Ht & H).
    apply bind_reads_inv in H. destruct H as (lk & _ & H).
    destruct lk as [hit|].
    - apply bind_reads_inv in H. destruct H as (pc & P & H).
      destruct (inv3_handle_congruence _ _ _ _ _ IB P H) as [I' E']. split; [assumption|eapply ext_trans; eauto].
    - destruct t as [sh' bij].
      apply mbind_inv in H. destruct H as (m & sC & Hm & H).
      change (fill_fresh (values bij) (inv (am i1)) sB = Ok (m, sC)) in Hm. cbv zeta in H.
      apply mbind_inv in H. destruct H as (u2 & sD & HD & H).
      pose proof IB as [[HsB HbB] NB].
      destruct L1 as [Ld1 (cB & HcB & G1 & W1 & B1 & K1)].
      pose proof (proj1 (is_bijection_injective _ W1) B1) as Inj1.
      (* the shape *)
      unfold shape in Ht. destruct (pre_shape sB enode) as [p|] eqn:Pp; cbn [bind] in Ht; [|discriminate].
      destruct (shape_bij_props _ _ _ Ht) as (Wb & Bb & _). destruct (shape_bij _ _ _ Ht) as (Sb1 & Sb2 & _).
      pose proof (proj1 (is_bijection_injective _ Wb) Bb) as Injb.
      (* the filled map *)
      destruct (fill_fresh_spec _ _ _ _ _ (inverse_wf (am i1)) Hm) as (Wm & _ & Keep & (cC & ->)).
      assert (Bnd : forall k v, get (inv (am i1)) k = Some v -> v < ectr sB).
      { intros k v G. apply (get_inverse _ _ _ W1 B1) in G.
        assert (Hv : In v (c_slots cB)) by (rewrite <- K1; apply keys_spec; congruence).
        destruct (ei_cls sB HsB _ _ HcB) as (_ & _ & Isyn). apply Isyn, slots_spec, pub_occ_all_occ in Hv.
        exact (HbB _ _ _ HcB Hv). }
      destruct (fill_fresh_inj _ _ _ _ _ (inverse_wf (am i1)) (inv_injective _ W1 Inj1) Bnd Hm) as [Injm _].
      assert (IC : inv3 (set_ctr sB cC) /\ ext sB (set_ctr sB cC)).
      { apply (semn_step3 sB (set_ctr sB cC)); [|apply nsame_ctr|exact IB].
        exact (s_fill_fresh _ _ _ _ _ Hm). }
      destruct IC as [IC EC].
      assert (EO : entry_ok (c_slots cB) (sh', (bij ** m, src_id))).
      { unfold entry_ok. cbn [fst snd]. split; [apply compose_partial_wf|]. split; [apply compose_injective; assumption|]. split.
        - intros k Hk. apply Sb2. rewrite get_compose_partial in Hk by assumption. destruct (get bij k); congruence.
        - intros y Hy. rewrite <- K1 in Hy. apply keys_spec in Hy. destruct (get (am i1) y) as [v|] eqn:Gy; [|congruence].
          assert (Hv : In v (slots enode)).
          { apply mem_in. unfold sset_subset in Sub. apply (proj1 (forallb_forall _ _) Sub). apply values_spec; eauto. }
          apply (KEY sB n0 enode p HsB Fn Pp), slots_spec, Sb1 in Hv. destruct Hv as (k & Gk). exists k.
          rewrite get_compose_partial by assumption. rewrite Gk.
          assert (Gi : get (inv (am i1)) v = Some y) by (apply (get_inverse _ _ _ W1 B1); exact Gy).
          rewrite Keep by congruence. exact Gi. }
      assert (ID : inv3 sD /\ ext (set_ctr sB cC) sD).
      { destruct IC as [Hs2 HN]. destruct (semR_step2 _ _ (s_raw_add _ _ _ _ _ _ HD) Hs2) as [HsD ED].
        split; [|exact ED]. split; [exact HsD|]. eapply nodes_raw_add; [exact HN| |exact EO|exact HD]. exact HcB. }
      destruct ID as [ID ED].
      destruct (inv3_determine_self_symmetries _ _ _ _ H ID) as [I' E'].
      split; [assumption|]. eapply ext_trans; [exact E0B|]. eapply ext_trans; [exact EC|]. eapply ext_trans; eauto.
  Qed.

  Theorem inv3_rebuild : forall fuel, qpres (rebuild fuel).
  Proof.
    induction fuel as [|f IH]; [apply q_fail|]. rewrite rebuild_S.
    apply q_bind; [apply q_gets|]. intros p. destruct p as [|[sh ty] rest]; [apply q_ret|].
    apply q_bind.
    { intros s x s' H. destruct (s_modify_pend' (fun _ => rest) _ _ _ H) as [A B]. apply semn_step3; assumption. }
    intros _. apply q_bind; [apply inv3_handle_pending|]. intros _. apply IH.
  Qed.

  Theorem inv3_eg_union : forall l r s b s', inv3 s -> covers s l -> covers s r ->
    eg_union l r s = Ok (b, s') -> inv3 s' /\ ext s s'.
  Proof.
    intros l r s b s' Hs Cl Cr H. unfold eg_union in H.
    apply mbind_inv in H. destruct H as (l1 & s1 & H1 & H).
    destruct (semn_step3 _ _ (s_synify_app_id _ _ _ _ H1) (n_synify_app_id _ _ _ _ H1) Hs) as [Hs1 E1].
    apply mbind_inv in H. destruct H as (r1 & s2 & H2 & H).
    destruct (semn_step3 _ _ (s_synify_app_id _ _ _ _ H2) (n_synify_app_id _ _ _ _ H2) Hs1) as [Hs2 E2].
    pose proof (ext_trans _ _ _ E1 E2) as E02.
    apply mbind_inv in H. destruct H as (out & s3 & H3 & H).
    destruct (inv3_uint _ _ _ _ _ Hs2 (covers_ext _ _ _ E02 Cl) (covers_ext _ _ _ E02 Cr) H3) as [Hs3 E3].
    apply mbind_inv in H. destruct H as (u & s4 & H4 & H). inversion H; subst b s4; clear H.
    destruct (inv3_rebuild _ _ _ _ H4 Hs3) as [Hs4 E4].
    split; [assumption|]. eapply ext_trans; [exact E02|]. eapply ext_trans; eauto.
  Qed.
End Rebuild3.

(* ------------------------------------------------------------------ *)
(* 9. the insertion side *)

Lemma bff_props : forall set c bf c', swf set -> bijection_from_fresh_to set c = (bf, c') -> wf bf /\ injective bf.
Proof.
  intros set c bf c' Hs E. unfold bijection_from_fresh_to in E.
  destruct (bff_go_spec set c [] I (fun k _ => eq_refl)) as [H1 H2].
  rewrite E in H1, H2. cbn [fst snd] in H1, H2.
  assert (Hwf : wf bf). { pose proof (bff_go_wf set c [] I) as Hw. rewrite E in Hw. exact Hw. }
  split; [assumption|]. intros k1 k2 v G1 G2. apply H2 in G1, G2.
  destruct G1 as [G1|G1]; [discriminate|]. destruct G2 as [G2|G2]; [discriminate|].
  eapply bkeys_inj; [apply swf_NoDup; eassumption|eassumption|eassumption].
Qed.

Definition step30 (s s' : egraph) : Prop := inv3 s -> inv3 s' /\ ext0 s s'.
Lemma step30_refl : forall s, step30 s s.
Proof. intros s H. split; [assumption|apply ext0_refl]. Qed.
Lemma step30_trans : forall a b c, step30 a b -> step30 b c -> step30 a c.
Proof.
  intros a b c H1 H2 Ha. destruct (H1 Ha) as [Hb E1]. destruct (H2 Hb) as [Hc E2].
  split; [assumption|eapply ext0_trans; eauto].
Qed.

Section Add3.
  Hypothesis KEY : pre_shape_keeps.

  Theorem inv3_mk_singleton : forall en s a s', inv3 s -> Forall (fun b => b < ectr s) (binders en) ->
    mk_singleton_class en s = Ok (a, s') ->
    inv3 s' /\ ext0 s s' /\
    exists c, get_class s' (aid a) = Ok c /\ injective (am a) /\ (forall x, In x (c_slots c) -> get (am a) x <> None).
  Proof.
    intros en s a s' I3 Hb H. unfold mk_singleton_class in H.
    apply mbind_inv in H. destruct H as (f2o & s1 & H1 & H).
    unfold with_ctr in H1. destruct (bijection_from_fresh_to (slots en) (ectr s)) as [f2o' c2] eqn:BF.
    inversion H1; subst f2o' s1; clear H1.
    apply mbind_inv in H. destruct H as (syn0 & s2 & H2 & H). unfold with_ctr in H2. cbn [Model.ctr set_ctr] in H2.
    pose proof (fresh_rename_spec en (ectr s) f2o c2 Hb BF) as R. cbv zeta in R.
    destruct (bff_props _ _ _ _ (slots_sorted en) BF) as [Wf2o If2o].
    destruct (apply_slotmap_fresh false (inv f2o) en c2) as [synf c3] eqn:ASF. cbn [fst snd] in R.
    inversion H2; subst syn0 s2; clear H2.
    destruct R as (Ec3 & _ & Bi & Sl & _ & Pb & _). subst c3.
    pose proof (bijection_from_fresh_to_step (slots en) (ectr s)) as St. rewrite BF in St. cbn [snd] in St. apply ctr_step_le in St.
    set (s2 := set_ctr (set_ctr s c2) c2) in *.
    assert (S02 : semR s s2).
    { split; [|unfold s2; cbn [Model.ctr set_ctr]; lia]. split; reflexivity. }
    destruct (semn_step3 _ _ S02 (nsame_classes s s2 eq_refl) I3) as [I2 E02].
    apply mbind_inv in H. destruct H as (i & s3 & H3 & H).
    pose proof (alloc_eclass_exact _ _ _ _ _ H3) as (Hi & U & C & _ & _ & Ct).
    assert (S3 : inv3 s3 /\ ext0 s2 s3).
    { destruct I2 as [[[Hok Hsl HC] Hbl] HN].
      assert (Wsl : swf (values (inv f2o))) by apply sset_of_list_spec.
      split; [split; [split|]|].
      - constructor.
        + exact (uf_ok_alloc_eclass _ _ _ _ _ H3 Hok).
        + eapply uf_slots_ok_alloc_eclass; [exact Hok|exact Hsl|exact Wsl|exact Sl|exact H3].
        + intros j c Hc. apply (get_class_ext_inv s2 s3 _ C) in Hc. destruct Hc as [Hc|[_ ->]]; [eapply HC; eauto|].
          split; [exact Wsl|]. split.
          * apply class_flat_grp_ok. unfold class_flat. cbn [c_slots c_group c_syn]. auto.
          * cbn [c_slots c_syn]. rewrite Sl. apply incl_refl.
      - intros j c x Hc Hx. rewrite Ct. apply (get_class_ext_inv s2 s3 _ C) in Hc. destruct Hc as [Hc|[_ ->]]; [eapply Hbl; eauto|].
        cbn [c_syn] in Hx. unfold s2. cbn [Model.ctr set_ctr].
        apply (Permutation.Permutation_in _ (occ_partition synf)) in Hx. apply in_app_or in Hx. destruct Hx as [Hx|Hx].
        + apply Pb in Hx. lia.
        + apply prv_binders in Hx. rewrite Bi in Hx. pose proof (proj1 (Forall_forall _ _) Hb x Hx) as T. cbv beta in T. lia.
      - intros j c e Hc He. apply (get_class_ext_inv s2 s3 _ C) in Hc. destruct Hc as [Hc|[_ ->]]; [eapply HN; eauto|].
        cbn [c_nodes] in He. contradiction.
      - split; [rewrite Ct; lia|]. intros j c Hc. exists c. split; [eapply get_class_ext_old; eauto|].
        split; [apply incl_refl|reflexivity]. }
    destruct S3 as [I3' E23].
    pose proof (get_class_ext_new s2 s3 _ C) as Hnew.
    assert (Ei : i = N.of_nat (lc s2)).
    { rewrite Hi. f_equal. exact (uso_wf _ (ei_slots _ (proj1 (proj1 I2)))). }
    rewrite <- Ei in Hnew.
    apply mbind_inv in H. destruct H as (t & s0 & Ht & H). apply lift_inv in Ht. destruct Ht as [Ht ->].
    apply mbind_inv in H. destruct H as (u4 & s4 & H4 & H). destruct t as [sh bij].
    assert (I4 : inv3 s4 /\ ext s3 s4).
    { destruct I3' as [Hs2 HN]. destruct (semR_step2 _ _ (s_raw_add _ _ _ _ _ _ H4) Hs2) as [Hs4 E4].
      split; [|exact E4]. split; [exact Hs4|]. eapply nodes_raw_add; [exact HN|exact Hnew| |exact H4].
      destruct (shape_bij_props _ _ _ Ht) as (Wb & Bb & _). destruct (shape_bij _ _ _ Ht) as (Sb1 & Sb2 & _).
      unfold entry_ok. cbn [fst snd c_slots]. split; [assumption|]. split; [apply is_bijection_injective; assumption|].
      split; [intros k Hk; apply Sb2; assumption|].
      intros x Hx. apply Sb1. rewrite <- Sl in Hx. apply slots_spec. assumption. }
    destruct I4 as [I4 E34].
    apply mbind_inv in H. destruct H as (u5 & s5 & H5 & H).
    destruct (semn_step3 _ _ (s_pending_insert _ _ _ _ _ H5) (n_pending_insert _ _ _ _ _ H5) I4) as [I5 E45].
    apply mbind_inv in H. destruct H as (u6 & s6 & H6 & H). inversion H; subst a s6; clear H.
    destruct (inv3_rebuild KEY _ _ _ _ H6 I5) as [I6 E56].
    pose proof (ext_trans _ _ _ E34 (ext_trans _ _ _ E45 E56)) as E36.
    split; [assumption|]. split.
    - eapply ext0_trans; [apply ext_ext0; exact E02|]. eapply ext0_trans; [exact E23|]. apply ext_ext0. exact E36.
    - destruct (proj2 (proj2 E36) _ _ Hnew) as (c6 & Hc6 & I6' & _). cbn [aid am c_slots] in *.
      exists c6. split; [assumption|]. split; [assumption|].
      intros x Hx. apply I6' in Hx. apply values_spec in Hx; [|apply inverse_wf]. destruct Hx as (k & Gk).
      apply get_inverse_sound in Gk; [|assumption]. congruence.
  Qed.

  Theorem inv3_add_internal : forall t p s a s', inv3 s -> wshape p = Ok t ->
    add_internal t s = Ok (a, s') -> inv3 s' /\ ext0 s s' /\ covers s' a.
  Proof.
    intros t p s a s' I3 Hw H. unfold add_internal in H.
    apply bind_reads_inv in H. destruct H as (lk & Hlk & H).
    destruct lk as [hit|].
    { inversion H; subst. split; [assumption|]. split; [apply ext0_refl|]. eapply lookup_covers; [exact (proj2 I3)|exact Hw|exact Hlk]. }
    apply mbind_inv in H. destruct H as (en1 & s1 & H1 & H).
    destruct (refresh_private (fst t) (ectr s)) as [[r|e] c1] eqn:RP; [|discriminate]. inversion H1; subst r s1; clear H1.
    pose proof (refresh_private_step (fst t) (ectr s)) as St1. rewrite RP in St1. cbn [snd] in St1. apply ctr_step_le in St1.
    destruct (refresh_private_spec _ _ _ _ RP) as (_ & Bi1 & _).
    set (s1 := set_ctr s c1) in *.
    assert (S01 : semR s s1) by (split; [apply sem_set_ctr|unfold s1; cbn [Model.ctr set_ctr]; lia]).
    destruct (semn_step3 _ _ S01 (nsame_ctr s c1) I3) as [I1 E01].
    apply mbind_inv in H. destruct H as (en2 & s2 & H2 & H). apply lift_inv in H2. destruct H2 as [H2 ->].
    pose proof (apply_slotmap_ren _ _ _ H2) as R2.
    assert (Bi2 : binders en2 = binders en1) by (rewrite R2, ren_binders; unfold asm_g; apply map_id).
    apply mbind_inv in H. destruct H as (en3 & s3 & H3 & H).
    pose proof (s_synify_enode _ _ _ _ H3) as S13.
    destruct (semn_step3 _ _ S13 (n_synify_enode _ _ _ _ H3) I1) as [I3' E13].
    pose proof (synify_enode_binders _ _ _ _ H3) as Bi3.
    apply mbind_inv in H. destruct H as (syn & s4 & H4 & H).
    destruct (inv3_mk_singleton en3 s3 syn s4 I3') as (I4 & E34 & (c & Hc & Isyn & Ksyn)); [|exact H4|].
    { rewrite Bi3, Bi2. revert Bi1. apply Forall_impl. intros b ((_ & Hb) & _).
      destruct S13 as [_ L13]. unfold s1 in L13. cbn [Model.ctr set_ctr] in L13. lia. }
    unfold reads, semify_app_id, class_slots in H. rewrite Hc in H. cbn [bind] in H. inversion H; subst a s'; clear H.
    split; [assumption|]. split.
    - eapply ext0_trans; [apply ext_ext0; exact E01|]. eapply ext0_trans; [apply ext_ext0; exact E13|exact E34].
    - exists c. cbn [aid am]. split; [assumption|]. split.
      + apply (filter_key_injective (fun k => sset_mem k (c_slots c))). assumption.
      + intros x Hx. rewrite (get_filter_key (fun k => sset_mem k (c_slots c))). rewrite (proj2 (sset_mem_in _ _) Hx).
        apply Ksyn. assumption.
  Qed.

  Theorem inv3_eg_add : forall n s a s', inv3 s -> eg_add n s = Ok (a, s') -> inv3 s' /\ ext0 s s' /\ covers s' a.
  Proof.
    intros n s a s' I3 H. unfold eg_add in H. apply bind_reads_inv in H. destruct H as (t & Ht & H).
    unfold shape in Ht. destruct (pre_shape s n) as [p|]; cbn [bind] in Ht; [|discriminate].
    eapply inv3_add_internal; eauto.
  Qed.

  Theorem inv3_add_expr : forall t s a s', inv3 s -> add_expr t s = Ok (a, s') -> inv3 s' /\ ext0 s s' /\ covers s' a.
  Proof.
    fix IH 1. intros [n ch] s a s' I3 H. cbn [add_expr] in H.
    apply mbind_inv in H. destruct H as (l & s1 & Hgo & H).
    assert (G : pres step30 ((fix go (l : list rterm) : M (list appid) :=
                  match l with
                  | [] => ret []
                  | c :: r => dom a <- add_expr c; dom r' <- go r; ret (a :: r')
                  end) ch)).
    { clear Hgo. induction ch as [|c r IHr]; [apply (pres_ret step30 step30_refl)|].
      apply (pres_bind step30 step30_trans).
      - intros s0 x0 s0' H0 I0. destruct (IH c s0 x0 s0' I0 H0) as (A & B & _). split; assumption.
      - intros a0. apply (pres_bind step30 step30_trans); [apply IHr|]. intros; apply (pres_ret step30 step30_refl). }
    destruct (G _ _ _ Hgo I3) as [I1 E1].
    destruct (Nat.ltb _ _); [discriminate|].
    destruct (inv3_eg_add _ _ _ _ I1 H) as (I' & E' & C'). split; [assumption|]. split; [eapply ext0_trans; eauto|assumption].
  Qed.

  (* ------------------------------------------------------------------ *)
  (* 10. every reachable state *)

  Lemma inv3_run_ops : forall terms ops hs s hs' s', inv3 s -> Forall (covers s) hs ->
    run_ops terms ops hs s = Ok (hs', s') -> inv3 s' /\ Forall (covers s') hs'.
  Proof.
    intros terms. induction ops as [|o t IH]; intros hs s hs' s' I3 Hc H; cbn [run_ops] in H.
    - inversion H; subst. auto.
    - destruct o as [k|i j just].
      + destruct (nth_opt terms k) as [tm|] eqn:Ek; [|discriminate].
        apply mbind_inv in H. destruct H as (a & s1 & H1 & H).
        destruct (inv3_add_expr tm s a s1 I3 H1) as (I1 & E01 & Ca).
        eapply IH; [exact I1| |exact H].
        apply Forall_app. split; [|constructor; [assumption|constructor]].
        revert Hc. apply Forall_impl. intros x. apply covers_ext0. assumption.
      + destruct (nth_opt hs i) as [a|] eqn:Ei; [|discriminate]. destruct (nth_opt hs j) as [b|] eqn:Ej; [|discriminate].
        apply mbind_inv in H. destruct H as (u & s1 & H1 & H).
        pose proof (proj1 (Forall_forall _ _) Hc a (nth_opt_In _ _ _ Ei)) as Ca.
        pose proof (proj1 (Forall_forall _ _) Hc b (nth_opt_In _ _ _ Ej)) as Cb.
        destruct (inv3_eg_union KEY a b s u s1 I3 Ca Cb H1) as [I1 E1].
        eapply IH; [exact I1| |exact H].
        revert Hc. apply Forall_impl. intros x. apply covers_ext. assumption.
  Qed.
End Add3.

Theorem inv3_empty : inv3 empty_egraph.
Proof.
  split; [apply eg_inv2_empty|]. intros i c e H. unfold get_class in H. cbn in H. destruct (N.to_nat i); discriminate.
Qed.

(* ------------------------------------------------------------------ *)
(* 11. `pre_shape_keeps`: the pre-shape of a node that is a result of find_enode has (at least) the
   public slots of the node.  find_enode is idempotent; a variant replaces the map m of a child
   by pp ; m for a permutation pp of the slots of the (leader) class, on which m is defined only
   inside that slot set: the value set of the child is unchanged. *)

Definition vals_sup (x y : appid) : Prop := incl (values_vec (am x)) (values_vec (am y)).

Lemma set_apps_f_pub_occ : forall a r0 l, Forall2 vals_sup (app_occ_f a ++ r0) l ->
  incl (pub_occ_f a) (pub_occ_f (fst (set_apps_f a l))) /\ Forall2 vals_sup r0 (snd (set_apps_f a l)).
Proof.
  induction a as [s|x|s b IH|p]; intros r0 l H; cbn [set_apps_f app_occ_f pub_occ_f app] in *;
    try (split; [apply incl_refl|assumption]).
  - inversion H as [|? y ? t Hxy Ht]; subst. cbn [fst snd pub_occ_f]. split; [exact Hxy|assumption].
  - specialize (IH r0 l H). destruct (set_apps_f b l) as [b' r]. cbn [fst snd pub_occ_f] in *.
    destruct IH as (A & B). split; [|assumption]. intros z Hz. apply filter_In in Hz. apply filter_In.
    split; [apply A; tauto|tauto].
Qed.

Lemma set_apps_args_pub_occ : forall args l, Forall2 vals_sup (flat_map app_occ_f args) l ->
  incl (flat_map pub_occ_f args) (flat_map pub_occ_f (set_apps_args args l)).
Proof.
  induction args as [|a t IH]; intros l H; cbn [set_apps_args flat_map] in *; [apply incl_refl|].
  destruct (set_apps_f_pub_occ a _ l H) as (A & B). destruct (set_apps_f a l) as [a' r]. cbn [fst snd flat_map] in *.
  apply incl_app; [apply incl_appl; assumption|apply incl_appr; apply IH; assumption].
Qed.

Lemma find_enode_idem : forall s n0 n, uf_ok s -> find_enode s n0 = Ok n ->
  find_enode s n = Ok n /\ forall a, In a (app_occ n) -> exists a0, find_applied_id s a0 = Ok a.
Proof.
  intros s n0 n Hok H. unfold find_enode in H.
  destruct (mapr (find_applied_id s) (app_occ n0)) as [l|] eqn:E; cbn [bind] in H; [|discriminate].
  inversion H; subst n; clear H.
  assert (A : app_occ (set_apps n0 l) = l) by (apply app_occ_set_apps; eapply mapr_length; eauto).
  assert (F : forall a, In a l -> exists a0, find_applied_id s a0 = Ok a).
  { intros a Ha. destruct (mapr_in _ _ _ E a Ha) as (a0 & _ & Fa). eauto. }
  split.
  - unfold find_enode. rewrite A. rewrite (mapr_id (find_applied_id s) l).
    + cbn [bind]. rewrite <- A at 2. rewrite set_apps_self. reflexivity.
    + intros a Ha. destruct (F a Ha) as (a0 & Fa). eapply find_idempotent; eauto.
  - rewrite A. exact F.
Qed.

(* the map of a found invocation is defined inside the slots of its (leader) class only *)
Lemma found_keys : forall s a0 a, eg_inv s -> find_applied_id s a0 = Ok a ->
  exists c, get_class s (aid a) = Ok c /\ grp_ok c /\ wf (am a) /\ forall k, get (am a) k <> None -> In k (c_slots c).
Proof.
  intros s a0 a [Hok Hsl HC] H. unfold find_applied_id, unionfind_get in H.
  destruct (uf_get_go _ _ _) as [p|] eqn:Hp; [|discriminate]. cbn [bind] in H. inversion H; subst a; clear H. cbn [aid am].
  assert (L : (N.to_nat (aid a0) < lc s)%nat).
  { rewrite <- (uso_wf s Hsl). cbn [uf_get_go] in Hp.
    destruct (nth_opt (unionfind s) (N.to_nat (aid a0))) as [e|] eqn:He; [|discriminate].
    eapply nth_opt_Some_lt; eauto. }
  destruct (get_class_ok s _ L) as [ci Hci].
  destruct (uf_get_go_canon s Hok Hsl _ _ _ _ Hp Hci) as (cl & Hcl & Wl & _ & Kl & _).
  exists cl. split; [assumption|]. split; [exact (proj1 (proj2 (HC _ _ Hcl)))|]. split; [apply compose_partial_wf|].
  intros k Hk. apply Kl. rewrite get_compose_partial in Hk by assumption. destruct (get (am p) k); congruence.
Qed.

Lemma perm_vals_sup : forall sl pp m, perm_on sl pp -> wf m -> (forall k, get m k <> None -> In k sl) ->
  incl (values_vec m) (values_vec (pp ** m)).
Proof.
  intros sl pp m (W & K & V & I & S) Wm Hm v Hv. unfold values_vec in Hv. apply in_map_iff in Hv.
  destruct Hv as ([k v'] & Ev & Hin). cbn [snd] in Ev. subst v'. apply in_get in Hin; [|assumption].
  assert (Hk : In k sl) by (apply Hm; congruence).
  destruct (S k Hk) as (k0 & G0).
  unfold values_vec. apply in_map_iff. exists (k0, v). split; [reflexivity|].
  apply get_in. rewrite get_compose_partial by assumption. rewrite G0. exact Hin.
Qed.

Lemma zip_vals_sup : forall apps (groups : list (list perm)),
  Forall2 (fun a g => forall pp, In pp g -> vals_sup a {| aid := aid a; am := pp ** am a |}) apps groups ->
  forall l, In l (cartesian groups) ->
  Forall2 vals_sup apps (zip_with (fun a pp => {| aid := aid a; am := pp ** am a |}) apps l).
Proof.
  intros apps groups H. induction H as [|a g t gs Hag _ IH]; intros l Hl; cbn [cartesian] in Hl.
  - destruct Hl as [<-|[]]. constructor.
  - apply in_flat_map in Hl. destruct Hl as (rest & Hr & Hl). apply in_map_iff in Hl. destruct Hl as (x & <- & Hx).
    cbn [zip_with]. constructor; [apply Hag; assumption|apply IH; assumption].
Qed.

Lemma mapr_mapr_F2 : forall {A B C} (P : A -> Prop) (f : A -> res B) (g : B -> res C) l r r',
  (forall a, In a l -> P a) -> mapr f l = Ok r -> mapr g r = Ok r' ->
  Forall2 (fun a c => P a /\ exists b, f a = Ok b /\ g b = Ok c) l r'.
Proof.
  intros A B C P f g l r r' HP H1 H2. apply mapr_ok in H1, H2. revert r' H2.
  induction H1 as [|a b l r Hab _ IH]; intros r' H2; inversion H2 as [|? c ? r2 Hbc Hr]; subst; constructor.
  - split; [apply HP; left; reflexivity|eauto].
  - apply IH; [intros a0 Ha0; apply HP; right; assumption|assumption].
Qed.

Lemma variants_pub_occ : forall s n vs, eg_inv s ->
  (forall a, In a (app_occ n) -> exists a0, find_applied_id s a0 = Ok a) ->
  variants s n = Ok vs -> forall v, In v vs -> incl (pub_occ n) (pub_occ v).
Proof.
  intros s n vs Hs Hf H v Hv. unfold variants in H.
  destruct (mapr (fun a => get_class s (aid a)) (app_occ n)) as [cls|] eqn:Ec; cbn [bind] in H; [|discriminate].
  destruct (forallb _ cls).
  - inversion H; subst vs. destruct Hv as [<-|[]]. apply incl_refl.
  - destruct (mapr _ cls) as [groups|] eqn:Eg; cbn [bind] in H; [|discriminate]. inversion H; subst vs; clear H.
    apply in_map_iff in Hv. destruct Hv as (l & <- & Hl).
    unfold pub_occ, set_apps. cbn [nargs]. apply set_apps_args_pub_occ. fold (app_occ n).
    apply (zip_vals_sup (app_occ n) groups); [|exact Hl].
    pose proof (mapr_mapr_F2 (fun a => exists a0, find_applied_id s a0 = Ok a) _ _ _ _ _ Hf Ec Eg) as F2.
    revert F2. apply Forall2_imp. intros a g ((a0 & Fa) & c & Hc & Hg) pp Hpp.
    destruct (found_keys s a0 a Hs Fa) as (c' & Hc' & (gens & HG & Hgn) & Wa & Ka).
    rewrite Hc in Hc'. inversion Hc'; subst c'; clear Hc'.
    unfold vals_sup. cbn [am]. apply (perm_vals_sup (c_slots c)); try assumption.
    unfold group_new in Hgn.
    apply (generated_po (c_slots c) (identity (c_slots c)) (identity_is_id _) (pdedup gens) (pdedup_po _ _ HG)).
    eapply (gnew_gall_sound (c_slots c) (identity (c_slots c)) (identity_is_id _)); [apply pdedup_po; exact HG|exact Hgn|exact Hg|exact Hpp].
Qed.

Theorem pre_shape_keeps_proved : pre_shape_keeps.
Proof.
  intros s n0 n p Hs F P. destruct (find_enode_idem s n0 n (ei_uf _ Hs) F) as [Fi Ff].
  unfold pre_shape in P. rewrite Fi in P. cbn [bind] in P.
  destruct (variants s n) as [vs|] eqn:Ev; cbn [bind] in P; [|discriminate].
  apply min_variant_in in P. destruct P as [P|[k P]]; [|discriminate].
  intros x Hx. apply slots_spec. apply slots_spec in Hx. exact (variants_pub_occ s n vs Hs Ff Ev p P x Hx).
Qed.

(* ------------------------------------------------------------------ *)
(* 12. the unconditional theorems *)

Theorem reachable_inv3 : forall terms ops hs s, run_ops terms ops [] empty_egraph = Ok (hs, s) ->
  inv3 s /\ Forall (covers s) hs.
Proof.
  intros terms ops hs s H.
  exact (inv3_run_ops pre_shape_keeps_proved terms ops [] empty_egraph hs s inv3_empty (Forall_nil _) H).
Qed.

Theorem eg_add_covers : forall n s a s', inv3 s -> eg_add n s = Ok (a, s') -> inv3 s' /\ ext0 s s' /\ covers s' a.
Proof. exact (inv3_eg_add pre_shape_keeps_proved). Qed.

Theorem add_expr_covers : forall t s a s', inv3 s -> add_expr t s = Ok (a, s') -> inv3 s' /\ ext0 s s' /\ covers s' a.
Proof. exact (inv3_add_expr pre_shape_keeps_proved). Qed.

Theorem eg_union_inv3 : forall l r s b s', inv3 s -> covers s l -> covers s r ->
  eg_union l r s = Ok (b, s') -> inv3 s' /\ ext s s'.
Proof. exact (inv3_eg_union pre_shape_keeps_proved). Qed.

(* the hypothesis of section 10 of UnionInvariantFacts.v holds for every list of terms *)
Theorem add_covers_ok_all : forall terms, add_covers_ok terms.
Proof.
  intros terms hs s k t a s' [ops R] _ _ _ H.
  destruct (reachable_inv3 terms ops hs s R) as [I3 _].
  exact (proj2 (proj2 (add_expr_covers t s a s' I3 H))).
Qed.

Theorem reachable_eq_equivalence_all : forall terms ops hs s,
  run_ops terms ops [] empty_egraph = Ok (hs, s) ->
  eg_inv2 s /\ Forall (covers s) hs /\
  (forall a, covers s a -> eg_eq s a a = Ok true) /\
  (forall a b, covers s a -> covers s b -> exists x, eg_eq s a b = Ok x /\ eg_eq s b a = Ok x) /\
  (forall a b c, covers s a -> covers s b -> covers s c ->
     eg_eq s a b = Ok true -> eg_eq s b c = Ok true -> eg_eq s a c = Ok true).
Proof.
  intros terms ops hs s H.
  destruct (reachable_inv terms (add_covers_ok_all terms) ops hs s H) as [Hs Hc].
  split; [exact Hs|]. split; [exact Hc|].
  exact (reachable_eq_equivalence terms (add_covers_ok_all terms) ops hs s H).
Qed.

(* in particular: the handles of a run are pairwise comparable, and eg_eq restricted to them is an
   equivalence relation *)
Corollary reachable_handles_equivalence : forall terms ops hs s,
  run_ops terms ops [] empty_egraph = Ok (hs, s) ->
  (forall a, In a hs -> eg_eq s a a = Ok true) /\
  (forall a b, In a hs -> In b hs -> exists x, eg_eq s a b = Ok x /\ eg_eq s b a = Ok x) /\
  (forall a b c, In a hs -> In b hs -> In c hs ->
     eg_eq s a b = Ok true -> eg_eq s b c = Ok true -> eg_eq s a c = Ok true).
Proof.
  intros terms ops hs s H. destruct (reachable_eq_equivalence_all terms ops hs s H) as (_ & Hc & R & S & T).
  pose proof (proj1 (Forall_forall _ _) Hc) as C.
  split; [intros a Ha; apply R; auto|]. split; [intros a b Ha Hb; apply S; auto|].
  intros a b c Ha Hb Hc'. apply T; auto.
Qed.

(* ------------------------------------------------------------------ *)
(* 13. examples *)

Example ex_nodes_okb : nodes_okb ex_state = true.
Proof. vm_compute. reflexivity. Qed.
Example ix_nodes_okb : nodes_okb ix_state = true.
Proof. vm_compute. reflexivity. Qed.
Example ex_nodes_ok : nodes_ok ex_state.
Proof. exact (proj2 (proj1 (reachable_inv3 _ _ _ _ ex_run_ok))). Qed.
Example ix_nodes_ok : nodes_ok ix_state.
Proof. exact (proj2 (proj1 (reachable_inv3 _ _ _ _ ix_run_ok))). Qed.
Example ex_handles_covered : Forall (covers ex_state) [ex_h0; ex_h1; ex_h2; ex_h3; ex_h4].
Proof. exact (proj2 (reachable_inv3 _ _ _ _ ex_run_ok)). Qed.

(* the checker, after every operation of hand-written histories: symmetries with parents, redundant
   slots with parents and binders, self-reference, congruence cascades *)
Fixpoint run_chk (terms : list rterm) (ops : list hop) (hs : list appid) (s : egraph) : bool :=
  match ops with
  | [] => true
  | o :: t =>
    let r := match o with
      | HAdd k => match nth_opt terms k with None => Err OutOfBounds
                  | Some tm => match add_expr tm s with Ok (a, s') => Ok (hs ++ [a], s') | Err e => Err e end end
      | HUnion i j _ => match nth_opt hs i, nth_opt hs j with
                  | Some a, Some b => match eg_union a b s with Ok (_, s') => Ok (hs, s') | Err e => Err e end
                  | _, _ => Err OutOfBounds end
      end in
    match r with
    | Err e => false
    | Ok (hs', s') => nodes_okb s' && forallb (coversb s') hs' && eg_invb s' && run_chk terms t hs' s'
    end
  end.

Definition xph : farg := AApp {| aid := 0; am := [] |}.
Definition xc0 v : rterm := RT {| nvar := v; nargs := [] |} [].
Definition xun v t : rterm := RT {| nvar := v; nargs := [xph] |} [t].
Definition xbin v a b : rterm := RT {| nvar := v; nargs := [xph; xph] |} [a; b].
Definition xs1 v x : rterm := RT {| nvar := v; nargs := [ASlot x] |} [].
Definition xs2 v x y : rterm := RT {| nvar := v; nargs := [ASlot x; ASlot y] |} [].
Definition xs3 v x y z : rterm := RT {| nvar := v; nargs := [ASlot x; ASlot y; ASlot z] |} [].
Definition xlam x b : rterm := RT {| nvar := 0; nargs := [ABind x xph] |} [b].
Definition xU i j := HUnion i j None.

Definition xT1 := [xs2 2 2 6; xs2 2 6 2; xun 3 (xs2 2 2 6); xun 3 (xs2 2 6 2); xbin 4 (xs2 2 2 6) (xs2 2 6 10); xbin 4 (xs2 2 6 2) (xs2 2 10 6)].
Definition xO1 := [HAdd 0; HAdd 1; HAdd 2; HAdd 3; HAdd 4; HAdd 5; xU 0 1; HAdd 2; HAdd 3; HAdd 4; HAdd 5; xU 2 3; xU 4 5].
Definition xT2 := [xs2 2 2 6; xs2 2 2 10; xun 3 (xs2 2 2 6); xbin 4 (xs2 2 2 6) (xs2 2 6 2); xun 3 (xs2 2 14 18); xlam 6 (xs2 2 2 6); xlam 2 (xs2 2 2 6)].
Definition xO2 := [HAdd 2; HAdd 3; HAdd 5; HAdd 6; HAdd 0; HAdd 1; xU 4 5; HAdd 4; HAdd 2; HAdd 3; HAdd 5; HAdd 6; HAdd 0].
Definition xT3 := [xc0 5; xun 6 (xc0 5); xun 6 (xun 6 (xc0 5)); xs1 7 2; xun 6 (xs1 7 2); xun 6 (xun 6 (xs1 7 6)); xbin 4 (xs1 7 2) (xun 6 (xs1 7 6))].
Definition xO3 := [HAdd 0; HAdd 1; HAdd 2; xU 0 1; HAdd 2; HAdd 3; HAdd 4; HAdd 5; HAdd 6; xU 3 4; HAdd 5; HAdd 6; HAdd 2].
Definition xT4 := [xlam 2 (xs2 2 2 6); xlam 2 (xs2 2 6 2); xlam 6 (xs2 2 2 6); xs2 2 2 6; xs2 2 6 2; xs2 2 2 10; xlam 2 (xlam 6 (xs2 2 2 6)); xlam 2 (xlam 6 (xs2 2 6 2)); xlam 2 (xun 3 (xlam 6 (xs3 8 2 6 10)))].
Definition xO4 := [HAdd 0; HAdd 1; HAdd 2; HAdd 6; HAdd 7; HAdd 8; HAdd 3; HAdd 4; xU 6 7; HAdd 0; HAdd 1; HAdd 6; HAdd 7; HAdd 5; xU 6 12; HAdd 0; HAdd 1; HAdd 2; HAdd 6; HAdd 7; HAdd 8; xU 0 1; xU 0 2].
Definition xT5 := [xs3 2 2 6 10; xs3 2 6 10 2; xs3 2 6 2 10; xs3 2 2 6 14; xun 3 (xs3 2 2 6 10); xbin 4 (xs3 2 2 6 10) (xs3 2 10 6 2); xs3 9 2 6 10].
Definition xO5 := [HAdd 0; HAdd 1; HAdd 2; HAdd 4; HAdd 5; HAdd 6; xU 0 1; HAdd 4; HAdd 5; xU 0 2; HAdd 5; HAdd 3; xU 0 7; HAdd 4; HAdd 5; xU 0 5; HAdd 0; HAdd 1].
Definition xT6 := [xc0 5; xc0 6; xun 3 (xc0 5); xun 3 (xc0 6); xun 3 (xun 3 (xc0 5)); xun 3 (xun 3 (xc0 6));
                   xs2 2 2 6; xs2 2 2 10; xbin 4 (xs2 2 2 6) (xs1 7 6); xbin 4 (xs2 2 2 6) (xs1 7 2); xbin 4 (xs2 2 6 2) (xs2 2 2 6); xlam 6 (xbin 4 (xs2 2 2 6) (xs1 7 6));
                   xs2 9 2 6; xs2 9 6 2; xbin 4 (xs2 9 2 6) (xs2 2 2 6)].
Definition xO6 := [HAdd 4; HAdd 5; HAdd 0; HAdd 1; xU 2 3; HAdd 4; HAdd 5; HAdd 8; HAdd 9; HAdd 10; HAdd 11; HAdd 14; HAdd 6; HAdd 7; xU 11 12;
                   HAdd 8; HAdd 9; HAdd 10; HAdd 11; HAdd 12; HAdd 13; xU 17 18; HAdd 14; HAdd 8; xU 11 18; HAdd 14; HAdd 10; xU 0 11; HAdd 8; HAdd 14].

Example x_histories_checked :
  map (fun p => run_chk (fst p) (snd p) [] empty_egraph) [(xT1, xO1); (xT2, xO2); (xT3, xO3); (xT4, xO4); (xT5, xO5); (xT6, xO6)]
  = [true; true; true; true; true; true].
Proof. vm_compute. reflexivity. Qed.

(* a natural STRONGER formulation that is false on a reachable state: "the values of a stored
   bijection are exactly the slots of the class".  After f(x,y) = f(x,z) the class keeps only x, the
   stored bijection of f still has two values (the second one is the redundant slot). *)
Definition entry_exactb (sl : sset) (e : node * (slotmap * N)) : bool := sset_eqb (values (fst (snd e))) sl.
Definition nodes_exactb (s : egraph) : bool :=
  forallb (fun c => forallb (entry_exactb (c_slots c)) (c_nodes c)) (classes s).
Example x_exact_false :
  match run_ops [xs2 2 2 6; xs2 2 2 10] [HAdd 0; HAdd 1; xU 0 1] [] empty_egraph with
  | Ok (_, s) => nodes_okb s = true /\ nodes_exactb s = false
  | Err _ => False
  end.
Proof. vm_compute. split; reflexivity. Qed.

(* ------------------------------------------------------------------ *)
Print Assumptions nodes_okb_sound.
Print Assumptions lookup_covers.
Print Assumptions inv3_shrink_slots.
Print Assumptions inv3_move_to.
Print Assumptions inv3_union_internal.
Print Assumptions inv3_handle_pending.
Print Assumptions inv3_rebuild.
Print Assumptions pre_shape_keeps_proved.
Print Assumptions eg_union_inv3.
Print Assumptions eg_add_covers.
Print Assumptions add_expr_covers.
Print Assumptions reachable_inv3.
Print Assumptions add_covers_ok_all.
Print Assumptions reachable_eq_equivalence_all.
Print Assumptions reachable_handles_equivalence.
Print Assumptions x_histories_checked.
Print Assumptions x_exact_false.
