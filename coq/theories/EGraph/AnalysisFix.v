(* EGraph/AnalysisFix.v — the worklist fixpoint lemma behind e-class analysis, abstractly
   (no dependence on the e-graph model).

   Setting.  Classes are numbers; class c has the finite list of nodes `nodes c`; a node is a label
   and a list of child classes.  (D, join) is a join-semilattice (associative, commutative,
   idempotent), ordered by  x <= y := join x y = y.  `make l ds` is the datum of a node with label l
   whose children have the data ds; it is MONOTONE in ds.  A state gives every class a datum.

     val st x            = make (lab x) (map st (kids x))          the node's datum under st
     stable st           = every node's datum is below its class's datum
     built st c d        = d is a finite join of contributions, each of which is below `val st' x`
                           for a node x of c and a state st' that is pointwise BELOW st
                           ("every contribution ever merged into the datum was make of one of the
                            class's nodes, under data that have only grown since")
     justified st        = forall c, built st c (st c)

   Theorem analysis_fixpoint:  justified st -> stable st ->
       st c = join over the nodes x of c of (val st x)              (for every class with a node).

   The dynamic part: `step` merges `val st x` of a node of c into c's datum (what update_analysis and
   alloc_eclass do); steps only grow the state and preserve `justified`.  `run` is the worklist
   algorithm itself (process an entry; if the datum changed, requeue the usages of the class): if it
   returns, the result is the fixpoint above (theorem run_fixpoint).

   Instances: min on nat (the order is the reverse of the usual one) with
   make = 1 + sum (saturating at any bound M): MinSize; make = 1 + max: Depth.
   No axioms. *)
From Coq Require Import List Arith Lia Relations.
Import ListNotations.

Section Fix.
  Variable D : Type.
  Variable join : D -> D -> D.
  Hypothesis join_assoc : forall x y z, join x (join y z) = join (join x y) z.
  Hypothesis join_comm : forall x y, join x y = join y x.
  Hypothesis join_idem : forall x, join x x = x.

  Definition le (x y : D) : Prop := join x y = y.

  Variable L : Type.
  Record enode := { lab : L; kids : list nat }.

  Variable make : L -> list D -> D.
  Hypothesis make_mono : forall l xs ys, Forall2 le xs ys -> le (make l xs) (make l ys).

  Variable nodes : nat -> list enode.

  Definition state := nat -> D.
  Definition val (st : state) (x : enode) : D := make (lab x) (map st (kids x)).
  Definition below (st st' : state) : Prop := forall c, le (st c) (st' c).

  Definition stable (st : state) : Prop :=
    forall c x, In x (nodes c) -> le (val st x) (st c).

  Inductive built (st : state) (c : nat) : D -> Prop :=
  | built_make : forall x st' d, In x (nodes c) -> below st' st -> le d (val st' x) -> built st c d
  | built_join : forall d e, built st c d -> built st c e -> built st c (join d e).

  Definition justified (st : state) : Prop := forall c, built st c (st c).

  (* join over a non-empty list *)
  Definition joins (d : D) (l : list D) : D := fold_left join l d.

  (* ---- order facts ---- *)
  Lemma le_refl : forall x, le x x.
  Proof. intro x. apply join_idem. Qed.

  Lemma le_trans : forall x y z, le x y -> le y z -> le x z.
  Proof. unfold le. intros x y z H1 H2. rewrite <- H2. rewrite join_assoc. rewrite H1. reflexivity. Qed.

  Lemma le_antisym : forall x y, le x y -> le y x -> x = y.
  Proof. unfold le. intros x y H1 H2. transitivity (join x y). symmetry. rewrite join_comm. exact H2. exact H1. Qed.

  Lemma join_ub_l : forall x y, le x (join x y).
  Proof. unfold le. intros. rewrite join_assoc. rewrite join_idem. reflexivity. Qed.

  Lemma join_ub_r : forall x y, le y (join x y).
  Proof. intros. rewrite join_comm. apply join_ub_l. Qed.

  Lemma join_lub : forall x y z, le x z -> le y z -> le (join x y) z.
  Proof. unfold le. intros x y z H1 H2. rewrite <- join_assoc. rewrite H2. exact H1. Qed.

  Lemma joins_ub : forall l d y, y = d \/ In y l -> le y (joins d l).
  Proof.
    unfold joins. induction l as [|a l IH]; intros d y H; simpl.
    - destruct H as [->|[]]. apply le_refl.
    - destruct H as [->|[<-|H]].
      + apply le_trans with (join d a). apply join_ub_l. apply IH. left. reflexivity.
      + apply le_trans with (join d a). apply join_ub_r. apply IH. left. reflexivity.
      + apply IH. right. exact H.
  Qed.

  Lemma joins_lub : forall l d z, le d z -> (forall y, In y l -> le y z) -> le (joins d l) z.
  Proof.
    unfold joins. induction l as [|a l IH]; intros d z Hd Hl; simpl.
    - exact Hd.
    - apply IH.
      + apply join_lub. exact Hd. apply Hl. left. reflexivity.
      + intros y Hy. apply Hl. right. exact Hy.
  Qed.

  Lemma below_refl : forall st, below st st.
  Proof. intros st c. apply le_refl. Qed.

  Lemma below_trans : forall a b c, below a b -> below b c -> below a c.
  Proof. intros a b c H1 H2 k. eapply le_trans. apply H1. apply H2. Qed.

  Lemma val_mono : forall st st' x, below st st' -> le (val st x) (val st' x).
  Proof.
    intros st st' x H. unfold val. apply make_mono.
    induction (kids x) as [|k l IH]; simpl; constructor. apply H. exact IH.
  Qed.

  (* ---- the static statement ---- *)
  Lemma built_below_join :
    forall st c d, built st c d ->
    forall x rest, nodes c = x :: rest -> le d (joins (val st x) (map (val st) rest)).
  Proof.
    intros st c d Hb. induction Hb as [y st' d Hy Hst' Hd | d e _ IHd _ IHe]; intros x rest Hn.
    - apply le_trans with (val st' y). exact Hd.
      apply le_trans with (val st y). apply val_mono. exact Hst'.
      apply joins_ub. rewrite Hn in Hy. destruct Hy as [->|Hy].
      + left. reflexivity.
      + right. apply in_map. exact Hy.
    - apply join_lub. apply IHd. exact Hn. apply IHe. exact Hn.
  Qed.

  Theorem analysis_fixpoint :
    forall st, justified st -> stable st ->
    forall c x rest, nodes c = x :: rest ->
    st c = joins (val st x) (map (val st) rest).
  Proof.
    intros st Hj Hs c x rest Hn. apply le_antisym.
    - eapply built_below_join. apply Hj. exact Hn.
    - apply joins_lub.
      + apply Hs. rewrite Hn. left. reflexivity.
      + intros y Hy. apply in_map_iff in Hy. destruct Hy as [z [<- Hz]].
        apply Hs. rewrite Hn. right. exact Hz.
  Qed.

  (* ---- the merging steps ---- *)
  Definition upd (st : state) (c : nat) (d : D) : state := fun k => if Nat.eqb k c then d else st k.

  Inductive step : state -> state -> Prop :=
  | step_merge : forall st c x, In x (nodes c) -> step st (upd st c (join (st c) (val st x))).

  Lemma upd_below : forall st c d, le (st c) d -> below st (upd st c d).
  Proof.
    intros st c d H k. unfold upd. destruct (Nat.eqb k c) eqn:E.
    - apply Nat.eqb_eq in E. subst k. exact H.
    - apply le_refl.
  Qed.

  Lemma step_below : forall st st', step st st' -> below st st'.
  Proof. intros st st' H. destruct H. apply upd_below. apply join_ub_l. Qed.

  Lemma built_weaken : forall st st' c d, below st st' -> built st c d -> built st' c d.
  Proof.
    intros st st' c d Hb H. induction H as [x s d Hx Hs Hd | d e _ IHd _ IHe].
    - apply built_make with (x := x) (st' := s). exact Hx. eapply below_trans. exact Hs. exact Hb. exact Hd.
    - apply built_join. exact IHd. exact IHe.
  Qed.

  Lemma step_justified : forall st st', justified st -> step st st' -> justified st'.
  Proof.
    intros st st' Hj H. destruct H as [st c x Hx].
    assert (Hb : below st (upd st c (join (st c) (val st x)))) by (apply upd_below; apply join_ub_l).
    intro k. unfold upd at 2. destruct (Nat.eqb k c) eqn:E.
    - apply Nat.eqb_eq in E. subst k. apply built_join.
      + eapply built_weaken. exact Hb. apply Hj.
      + apply built_make with (x := x) (st' := st). exact Hx. exact Hb. apply le_refl.
    - eapply built_weaken. exact Hb. apply Hj.
  Qed.

  (* a start: every class holds `make` of one of its nodes (alloc_eclass) *)
  Lemma justified_init :
    forall st, (forall c, exists x, In x (nodes c) /\ st c = val st x) -> justified st.
  Proof.
    intros st H c. destruct (H c) as [x [Hx He]]. rewrite He.
    apply built_make with (x := x) (st' := st). exact Hx. apply below_refl. apply le_refl.
  Qed.

  Lemma steps_justified :
    forall st st', clos_refl_trans _ step st st' -> justified st -> justified st' /\ below st st'.
  Proof.
    intros st st' H. induction H as [a b Hab | a | a b c _ IH1 _ IH2]; intro Hj.
    - split. eapply step_justified; eassumption. apply step_below. exact Hab.
    - split. exact Hj. apply below_refl.
    - destruct (IH1 Hj) as [Hb Hab]. destruct (IH2 Hb) as [Hc Hbc].
      split. exact Hc. eapply below_trans; eassumption.
  Qed.

  Theorem worklist_fixpoint :
    forall st0 st, justified st0 -> clos_refl_trans _ step st0 st -> stable st ->
    forall c x rest, nodes c = x :: rest -> st c = joins (val st x) (map (val st) rest).
  Proof.
    intros st0 st Hj Hs Hst. apply analysis_fixpoint.
    - exact (proj1 (steps_justified _ _ Hs Hj)).
    - exact Hst.
  Qed.

  (* ---- the worklist algorithm ---- *)
  Variable D_eqb : D -> D -> bool.
  Hypothesis D_eqb_spec : forall x y, D_eqb x y = true <-> x = y.
  (* usages c: the (class, node) pairs whose node has c among its children (touched_class) *)
  Variable usages : nat -> list (nat * enode).
  Hypothesis usages_complete :
    forall c c' x', In x' (nodes c') -> In c (kids x') -> In (c', x') (usages c).
  Hypothesis usages_sound : forall c c' x', In (c', x') (usages c) -> In x' (nodes c').

  Fixpoint run (fuel : nat) (wl : list (nat * enode)) (st : state) : option state :=
    match wl with
    | [] => Some st
    | (c, x) :: rest =>
        match fuel with
        | O => None
        | S f =>
            let new := join (st c) (val st x) in
            if D_eqb new (st c) then run f rest st
            else run f (rest ++ usages c) (upd st c new)
        end
    end.

  (* every node that is not yet below its class's datum is on the worklist *)
  Definition covered (st : state) (wl : list (nat * enode)) : Prop :=
    forall c x, In x (nodes c) -> le (val st x) (st c) \/ In (c, x) wl.
  Definition wl_ok (wl : list (nat * enode)) : Prop := forall c x, In (c, x) wl -> In x (nodes c).

  Lemma val_upd_other :
    forall st c d x, ~ In c (kids x) -> val (upd st c d) x = val st x.
  Proof.
    intros st c d x H. unfold val. f_equal. apply map_ext_in. intros k Hk. unfold upd.
    destruct (Nat.eqb k c) eqn:E. apply Nat.eqb_eq in E. subst k. contradiction. reflexivity.
  Qed.

  Lemma run_sound :
    forall fuel wl st st', run fuel wl st = Some st' ->
    wl_ok wl -> covered st wl ->
    clos_refl_trans _ step st st' /\ stable st'.
  Proof.
    induction fuel as [|f IH]; intros wl st st' Hr Hok Hcov.
    - destruct wl as [|[c x] rest]; simpl in Hr.
      + inversion Hr; subst st'. split. apply rt_refl.
        intros c x Hx. destruct (Hcov c x Hx) as [H|[]]. exact H.
      + discriminate.
    - destruct wl as [|[c x] rest]; simpl in Hr.
      + inversion Hr; subst st'. split. apply rt_refl.
        intros c x Hx. destruct (Hcov c x Hx) as [H|[]]. exact H.
      + assert (Hx : In x (nodes c)) by (apply Hok; left; reflexivity).
        destruct (D_eqb (join (st c) (val st x)) (st c)) eqn:E.
        * (* unchanged: (c, x) is stable now *)
          apply D_eqb_spec in E.
          apply IH in Hr.
          -- exact Hr.
          -- intros c' x' H. apply Hok. right. exact H.
          -- intros c' x' Hx'. destruct (Hcov c' x' Hx') as [H|[H|H]].
             ++ left. exact H.
             ++ inversion H; subst c' x'. left. unfold le. rewrite join_comm. exact E.
             ++ right. exact H.
        * (* changed: requeue the usages of c *)
          set (new := join (st c) (val st x)) in *.
          assert (Hb : below st (upd st c new)) by (apply upd_below; apply join_ub_l).
          apply IH in Hr.
          -- destruct Hr as [Hsteps Hst]. split. 2: exact Hst.
             eapply rt_trans. apply rt_step. apply step_merge. exact Hx. exact Hsteps.
          -- intros c' x' H. apply in_app_or in H. destruct H as [H|H].
             ++ apply Hok. right. exact H.
             ++ eapply usages_sound. exact H.
          -- intros c' x' Hx'.
             destruct (in_dec Nat.eq_dec c (kids x')) as [Hin|Hnin].
             ++ right. apply in_or_app. right. apply usages_complete. exact Hx'. exact Hin.
             ++ rewrite (val_upd_other st c new x' Hnin).
                destruct (Hcov c' x' Hx') as [H|[H|H]].
                ** left. eapply le_trans. exact H. apply Hb.
                ** inversion H; subst c' x'. left. unfold upd. rewrite Nat.eqb_refl. apply join_ub_r.
                ** right. apply in_or_app. left. exact H.
  Qed.

  Theorem run_fixpoint :
    forall fuel wl st0 st,
    justified st0 -> wl_ok wl -> covered st0 wl ->
    run fuel wl st0 = Some st ->
    below st0 st /\
    forall c x rest, nodes c = x :: rest -> st c = joins (val st x) (map (val st) rest).
  Proof.
    intros fuel wl st0 st Hj Hok Hcov Hr.
    destruct (run_sound _ _ _ _ Hr Hok Hcov) as [Hsteps Hst].
    split.
    - exact (proj2 (steps_justified _ _ Hsteps Hj)).
    - eapply worklist_fixpoint; eassumption.
  Qed.
End Fix.

(* ------------------------------------------------------------------ *)
(* Instances: min on nat.  The semilattice order is the REVERSE of the usual one:
   le Nat.min x y  <->  y <= x  ("smaller is more information"). *)

Lemma min_le_iff : forall x y, le nat Nat.min x y <-> y <= x.
Proof. unfold le. intros x y. split; intro H. lia. lia. Qed.

Lemma min_assoc' : forall x y z, Nat.min x (Nat.min y z) = Nat.min (Nat.min x y) z.
Proof. intros. lia. Qed.
Lemma min_comm' : forall x y, Nat.min x y = Nat.min y x.
Proof. intros. lia. Qed.
Lemma min_idem' : forall x, Nat.min x x = x.
Proof. intros. lia. Qed.

(* MinSize: make(n) = 1 + sum of the children's data, every addition saturating at M
   (u64::saturating_add: M = 2^64 - 1); the label plays no role *)
Definition sat_add (M a b : nat) : nat := Nat.min M (a + b).
Definition make_size (M : nat) (_ : unit) (ds : list nat) : nat := fold_left (sat_add M) ds 1.

Lemma fold_sat_mono :
  forall M xs ys, Forall2 (le nat Nat.min) xs ys ->
  forall a b, b <= a -> fold_left (sat_add M) ys b <= fold_left (sat_add M) xs a.
Proof.
  intros M xs ys H. induction H as [|x y xs ys Hxy _ IH]; intros a b Hab; simpl.
  - exact Hab.
  - apply IH. apply min_le_iff in Hxy. unfold sat_add. lia.
Qed.

Lemma make_size_mono :
  forall M l xs ys, Forall2 (le nat Nat.min) xs ys ->
  le nat Nat.min (make_size M l xs) (make_size M l ys).
Proof.
  intros M l xs ys H. apply min_le_iff. unfold make_size. apply fold_sat_mono. exact H. lia.
Qed.

(* Depth: make(n) = 1 + max of the children's data (0 without children) *)
Definition make_depth (_ : unit) (ds : list nat) : nat := S (fold_left Nat.max ds 0).

Lemma fold_max_mono :
  forall xs ys, Forall2 (le nat Nat.min) xs ys ->
  forall a b, b <= a -> fold_left Nat.max ys b <= fold_left Nat.max xs a.
Proof.
  intros xs ys H. induction H as [|x y xs ys Hxy _ IH]; intros a b Hab; simpl.
  - exact Hab.
  - apply IH. apply min_le_iff in Hxy. lia.
Qed.

Lemma make_depth_mono :
  forall l xs ys, Forall2 (le nat Nat.min) xs ys ->
  le nat Nat.min (make_depth l xs) (make_depth l ys).
Proof.
  intros l xs ys H. apply min_le_iff. unfold make_depth. apply le_n_S. apply fold_max_mono. exact H. lia.
Qed.

(* the fixpoint theorem for the two instances: a justified, stable assignment of sizes (depths) gives
   every class exactly the minimum over its nodes of 1 + sum (1 + max) of the children's data *)
Theorem minsize_fixpoint :
  forall (M : nat) (nodes : nat -> list (enode unit)) (st : nat -> nat),
  justified nat Nat.min unit (make_size M) nodes st ->
  stable nat Nat.min unit (make_size M) nodes st ->
  forall c x rest, nodes c = x :: rest ->
  st c = fold_left Nat.min (map (val nat unit (make_size M) st) rest) (val nat unit (make_size M) st x).
Proof.
  intros M nodes st Hj Hs c x rest Hn.
  exact (analysis_fixpoint nat Nat.min min_assoc' min_comm' min_idem' unit (make_size M)
           (make_size_mono M) nodes st Hj Hs c x rest Hn).
Qed.

Theorem depth_fixpoint :
  forall (nodes : nat -> list (enode unit)) (st : nat -> nat),
  justified nat Nat.min unit make_depth nodes st ->
  stable nat Nat.min unit make_depth nodes st ->
  forall c x rest, nodes c = x :: rest ->
  st c = fold_left Nat.min (map (val nat unit make_depth st) rest) (val nat unit make_depth st x).
Proof.
  intros nodes st Hj Hs c x rest Hn.
  exact (analysis_fixpoint nat Nat.min min_assoc' min_comm' min_idem' unit make_depth
           make_depth_mono nodes st Hj Hs c x rest Hn).
Qed.

(* the worklist algorithm for MinSize: whatever it returns is that fixpoint *)
Theorem minsize_run_fixpoint :
  forall (M : nat) (nodes : nat -> list (enode unit)) (usages : nat -> list (nat * enode unit)),
  (forall c c' x', In x' (nodes c') -> In c (kids unit x') -> In (c', x') (usages c)) ->
  (forall c c' x', In (c', x') (usages c) -> In x' (nodes c')) ->
  forall fuel wl st0 st,
  justified nat Nat.min unit (make_size M) nodes st0 ->
  wl_ok unit nodes wl -> covered nat Nat.min unit (make_size M) nodes st0 wl ->
  run nat Nat.min unit (make_size M) Nat.eqb usages fuel wl st0 = Some st ->
  (forall c, st c <= st0 c) /\
  forall c x rest, nodes c = x :: rest ->
  st c = fold_left Nat.min (map (val nat unit (make_size M) st) rest) (val nat unit (make_size M) st x).
Proof.
  intros M nodes usages Hc Hsd fuel wl st0 st Hj Hok Hcov Hr.
  destruct (run_fixpoint nat Nat.min min_assoc' min_comm' min_idem' unit (make_size M)
              (make_size_mono M) nodes Nat.eqb Nat.eqb_eq usages Hc Hsd fuel wl st0 st Hj Hok Hcov Hr)
    as [Hb Hf].
  split.
  - intro c. apply min_le_iff. apply Hb.
  - exact Hf.
Qed.

Print Assumptions analysis_fixpoint.
Print Assumptions worklist_fixpoint.
Print Assumptions run_fixpoint.
Print Assumptions minsize_fixpoint.
Print Assumptions depth_fixpoint.
Print Assumptions minsize_run_fixpoint.
