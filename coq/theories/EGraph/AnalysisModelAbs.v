(* EGraph/AnalysisModelAbs.v — the STATIC part of "after rebuild (pending = []), the datum of every
   class of a ModelA state is the join of `make` over the e-nodes of the class".

   A ModelA state s is abstracted to the setting of EGraph/AnalysisFix.v:
     abs_nodes s c   the stored shapes of class c (the hashcons entries with value c), as enodes
                     (label `lab sh`, children `node_ids sh`)
     abs_st s c      the datum of class c (analysis_data s c; `dflt` where that is an error)
   Two state-local invariants give the fixpoint:
     stable_all s    (AnalysisModelBase.v) make of every stored node is below its class's datum
     upper s         the datum of every live class is a finite join of contributions, each below
                     make (under the CURRENT data) of a node stored in the class.
   `upper` needs no history: by monotonicity of make, AnalysisFix.built st c d is equivalent to
   "d is below the join of the current makes of the nodes of c".

   No axioms. *)
From SE Require Import EGraph.ModelA EGraph.AnalysisFix EGraph.AnalysisModelBase.
From Coq Require Import Lia Arith Bool List NArith.
Import ListNotations.

(* na_get finds an entry of the list *)
Lemma na_get_in : forall {V} (l : list (node * V)) k v, na_get l k = Some v -> In (k, v) l.
Proof.
  intros V l. induction l as [|[k0 v0] t IH]; intros k v H; cbn [na_get] in H.
  - discriminate.
  - destruct (node_eqb k k0) eqn:E.
    + apply node_eqb_true in E. subst k0. inversion H; subst v0. left. reflexivity.
    + right. apply IH. exact H.
Qed.

Section AMA.
  Variable Data : Type.
  Variable data_eqb : Data -> Data -> bool.
  Variable make : (N -> res Data) -> node -> res Data.
  Variable merge : Data -> Data -> Data.

  Hypothesis merge_assoc : forall x y z, merge x (merge y z) = merge (merge x y) z.
  Hypothesis merge_comm : forall x y, merge x y = merge y x.
  Hypothesis merge_idem : forall x, merge x x = x.
  Hypothesis data_eqb_spec : forall x y, data_eqb x y = true <-> x = y.

  Variable L : Type.
  Variable lab : node -> L.
  Variable mk : L -> list Data -> Data.
  Hypothesis make_spec : forall get n, make get n = do ds <- mapr get (node_ids n); Ok (mk (lab n) ds).
  Hypothesis make_mono :
    forall l xs ys, Forall2 (AnalysisFix.le Data merge) xs ys ->
    AnalysisFix.le Data merge (mk l xs) (mk l ys).

  (* only to make the abstract state total *)
  Variable dflt : Data.

  Notation eg := (egraph Data).
  Notation adata := (analysis_data Data).
  Notation mk_in := (make_in Data make).
  Notation mle := (AnalysisFix.le Data merge).
  Notation stored := (AnalysisModelBase.stored Data).
  Notation stable_all := (AnalysisModelBase.stable_all Data make merge).

  (* ---------------- the justification invariant ---------------- *)
  Inductive jb (s : eg) (c : N) : Data -> Prop :=
  | jb_make : forall sh v d, stored s sh c -> mk_in s sh = Ok v -> mle d v -> jb s c d
  | jb_join : forall d e, jb s c d -> jb s c e -> jb s c (merge d e).

  Definition upper (s : eg) : Prop :=
    forall c d, In c (ids Data s) -> adata s c = Ok d -> jb s c d.

  (* ---------------- the abstraction ---------------- *)
  Definition anode (sh : node) : enode L := Build_enode L (lab sh) (map N.to_nat (node_ids sh)).

  (* the stored shapes of class c, in hashcons order *)
  Definition shapes_of (s : eg) (c : N) : list node :=
    map fst (filter (fun e => N.eqb (snd e) c) (hashcons Data s)).

  Definition abs_nodes (s : eg) (c : nat) : list (enode L) := map anode (shapes_of s (N.of_nat c)).

  Definition abs_st (s : eg) (c : nat) : Data :=
    match adata s (N.of_nat c) with Ok d => d | Err _ => dflt end.

  Notation aval s := (val Data L mk (abs_st s)).

  (* ---------------- the premises ---------------- *)
  (* every stored node sits in a live class, and the data of its children are defined *)
  Definition WF (s : eg) : Prop :=
    forall sh i, stored s sh i ->
      In i (ids Data s) /\ forall k, In k (node_ids sh) -> exists d, adata s k = Ok d.

  (* the hashcons has no second entry for a shape (the converse, na_get_in, always holds) *)
  Definition hc_nodup (s : eg) : Prop :=
    forall sh i, In (sh, i) (hashcons Data s) -> na_get (hashcons Data s) sh = Some i.

  Lemma hc_stored_iff : forall s, hc_nodup s ->
    forall sh i, stored s sh i <-> In (sh, i) (hashcons Data s).
  Proof.
    intros s Hn sh i. split.
    - intro H. apply na_get_in. exact H.
    - intro H. apply Hn. exact H.
  Qed.

  (* ---------------- shapes_of ---------------- *)
  Lemma in_shapes_of : forall s c sh, In sh (shapes_of s c) <-> In (sh, c) (hashcons Data s).
  Proof.
    intros s c sh. unfold shapes_of. rewrite in_map_iff. split.
    - intros [[sh' i] [E H]]. cbn [fst] in E. subst sh'. apply filter_In in H.
      destruct H as [H E]. cbn [snd] in E. apply N.eqb_eq in E. subst i. exact H.
    - intro H. exists (sh, c). split. reflexivity. apply filter_In. split. exact H.
      cbn [snd]. apply N.eqb_refl.
  Qed.

  Lemma stored_in_shapes : forall s sh c, stored s sh c -> In sh (shapes_of s c).
  Proof. intros s sh c H. apply in_shapes_of. apply na_get_in. exact H. Qed.

  Lemma shapes_stored : forall s, hc_nodup s -> forall sh c, In sh (shapes_of s c) -> stored s sh c.
  Proof. intros s Hn sh c H. apply Hn. apply in_shapes_of. exact H. Qed.

  Lemma in_abs_nodes : forall s c x,
    In x (abs_nodes s c) <-> exists sh, x = anode sh /\ In sh (shapes_of s (N.of_nat c)).
  Proof.
    intros s c x. unfold abs_nodes. rewrite in_map_iff. split.
    - intros [sh [E H]]. exists sh. split. symmetry. exact E. exact H.
    - intros [sh [E H]]. exists sh. split. symmetry. exact E. exact H.
  Qed.

  (* ---------------- make = val of the abstraction ---------------- *)
  Lemma mapr_adata_abs : forall s ks,
    (forall k, In k ks -> exists d, adata s k = Ok d) ->
    mapr (adata s) ks = Ok (map (abs_st s) (map N.to_nat ks)).
  Proof.
    intros s ks. induction ks as [|k t IH]; intro H.
    - reflexivity.
    - cbn [mapr map]. destruct (H k (or_introl eq_refl)) as [d Hd].
      rewrite IH. 2: { intros k' Hk'. apply H. right. exact Hk'. }
      assert (E : abs_st s (N.to_nat k) = d).
      { unfold abs_st. rewrite N2Nat.id. rewrite Hd. reflexivity. }
      rewrite E. rewrite Hd. reflexivity.
  Qed.

  Lemma abs_val_kids : forall s sh,
    (forall k, In k (node_ids sh) -> exists d, adata s k = Ok d) ->
    mk_in s sh = Ok (aval s (anode sh)).
  Proof.
    intros s sh H. unfold make_in. rewrite make_spec. rewrite (mapr_adata_abs s _ H).
    reflexivity.
  Qed.

  Lemma abs_val : forall s sh i, WF s -> stored s sh i -> mk_in s sh = Ok (aval s (anode sh)).
  Proof. intros s sh i Hwf Hs. apply abs_val_kids. exact (proj2 (Hwf sh i Hs)). Qed.

  (* ---------------- stability ---------------- *)
  Lemma abs_stable : forall s, WF s -> hc_nodup s -> stable_all s ->
    AnalysisFix.stable Data merge L mk (abs_nodes s) (abs_st s).
  Proof.
    intros s Hwf Hn Hst c x Hx. apply in_abs_nodes in Hx. destruct Hx as [sh [-> Hsh]].
    apply (shapes_stored s Hn) in Hsh.
    destruct (Hst sh _ Hsh) as [d [v [Hd [Hv Hm]]]].
    rewrite (abs_val s sh _ Hwf Hsh) in Hv. inversion Hv as [Ev].
    unfold abs_st at 2. rewrite Hd.
    unfold AnalysisFix.le. rewrite merge_comm. rewrite Ev. exact Hm.
  Qed.

  (* a class with a stored node has a datum *)
  Lemma stored_adata : forall s sh i, stable_all s -> stored s sh i -> exists d, adata s i = Ok d.
  Proof. intros s sh i Hst Hs. destruct (Hst sh i Hs) as [d [v [Hd _]]]. exists d. exact Hd. Qed.

  (* ---------------- justification ---------------- *)
  Lemma jb_built : forall s c d, WF s -> jb s (N.of_nat c) d ->
    built Data merge L mk (abs_nodes s) (abs_st s) c d.
  Proof.
    intros s c d Hwf Hj. remember (N.of_nat c) as cn eqn:Ec.
    induction Hj as [sh v d Hs Hv Hle | d e _ IHd _ IHe].
    - apply built_make with (x := anode sh) (st' := abs_st s).
      + apply in_abs_nodes. exists sh. split. reflexivity. rewrite <- Ec.
        apply stored_in_shapes. exact Hs.
      + apply (below_refl Data merge merge_idem).
      + rewrite (abs_val s sh _ Hwf Hs) in Hv. inversion Hv as [Ev]. rewrite Ev. exact Hle.
    - apply built_join. exact IHd. exact IHe.
  Qed.

  (* the datum of a live class that HAS a datum is justified (hc_nodup is not needed here) *)
  Lemma abs_justified_at : forall s, WF s -> hc_nodup s -> upper s ->
    forall c, In (N.of_nat c) (ids Data s) -> (exists d, adata s (N.of_nat c) = Ok d) ->
    built Data merge L mk (abs_nodes s) (abs_st s) c (abs_st s c).
  Proof.
    intros s Hwf _ Hup c Hc [d Hd]. apply jb_built. exact Hwf.
    unfold abs_st. rewrite Hd. apply Hup. exact Hc. exact Hd.
  Qed.

  (* ---------------- the fixpoint, abstractly ---------------- *)
  Theorem modelA_fixpoint_static :
    forall s, WF s -> hc_nodup s -> stable_all s -> upper s ->
    forall c x rest, In (N.of_nat c) (ids Data s) -> abs_nodes s c = x :: rest ->
    abs_st s c = joins Data merge (aval s x) (map (aval s) rest).
  Proof.
    intros s Hwf Hn Hst Hup c x rest Hc Hnodes.
    assert (Hstab := abs_stable s Hwf Hn Hst).
    (* the class has a stored node, hence a datum *)
    assert (Hd : exists d, adata s (N.of_nat c) = Ok d).
    { assert (Hx : In x (abs_nodes s c)) by (rewrite Hnodes; left; reflexivity).
      apply in_abs_nodes in Hx. destruct Hx as [sh [_ Hsh]].
      apply (shapes_stored s Hn) in Hsh. exact (stored_adata s sh _ Hst Hsh). }
    apply (AnalysisFix.le_antisym Data merge merge_comm).
    - apply (built_below_join Data merge merge_assoc merge_comm merge_idem L mk make_mono
               (abs_nodes s) (abs_st s) c (abs_st s c)).
      + apply abs_justified_at; assumption.
      + exact Hnodes.
    - apply (joins_lub Data merge merge_assoc).
      + apply Hstab. rewrite Hnodes. left. reflexivity.
      + intros y Hy. apply in_map_iff in Hy. destruct Hy as [z [<- Hz]].
        apply Hstab. rewrite Hnodes. right. exact Hz.
  Qed.

  (* ---------------- the fixpoint, concretely ---------------- *)
  Lemma mapr_mk_in_abs : forall s l,
    (forall sh, In sh l -> forall k, In k (node_ids sh) -> exists d, adata s k = Ok d) ->
    mapr (mk_in s) l = Ok (map (aval s) (map anode l)).
  Proof.
    intros s l. induction l as [|sh t IH]; intro H.
    - reflexivity.
    - cbn [mapr map]. rewrite (abs_val_kids s sh (H sh (or_introl eq_refl))).
      rewrite IH. 2: { intros sh' Hsh'. apply H. right. exact Hsh'. }
      reflexivity.
  Qed.

  (* (with the section's `dflt`; the statement without it is after the section) *)
  Lemma modelA_fixpoint_concrete_dflt :
    forall s, WF s -> hc_nodup s -> stable_all s -> upper s ->
    forall c d, In c (ids Data s) -> adata s c = Ok d ->
    forall sh0 rest,
      map fst (filter (fun e => N.eqb (snd e) c) (hashcons Data s)) = sh0 :: rest ->
    exists v0 vs, mk_in s sh0 = Ok v0 /\ mapr (mk_in s) rest = Ok vs /\ d = fold_left merge vs v0.
  Proof.
    intros s Hwf Hn Hst Hup c d Hc Hd sh0 rest Hsh.
    assert (Hkids : forall sh, In sh (sh0 :: rest) ->
                    forall k, In k (node_ids sh) -> exists d', adata s k = Ok d').
    { intros sh Hin. fold (shapes_of s c) in Hsh. rewrite <- Hsh in Hin.
      apply (shapes_stored s Hn) in Hin. exact (proj2 (Hwf sh c Hin)). }
    exists (aval s (anode sh0)), (map (aval s) (map anode rest)).
    split. { apply abs_val_kids. apply Hkids. left. reflexivity. }
    split. { apply mapr_mk_in_abs. intros sh Hin. apply Hkids. right. exact Hin. }
    assert (Hnodes : abs_nodes s (N.to_nat c) = anode sh0 :: map anode rest).
    { unfold abs_nodes. rewrite N2Nat.id. unfold shapes_of. rewrite Hsh. reflexivity. }
    assert (Hc' : In (N.of_nat (N.to_nat c)) (ids Data s)) by (rewrite N2Nat.id; exact Hc).
    assert (Hfix := modelA_fixpoint_static s Hwf Hn Hst Hup (N.to_nat c) _ _ Hc' Hnodes).
    unfold abs_st at 1 in Hfix. rewrite N2Nat.id in Hfix. rewrite Hd in Hfix.
    exact Hfix.
  Qed.

End AMA.

(* the concrete statement needs no default datum: the datum of the class itself will do *)
Theorem modelA_fixpoint_concrete :
  forall (Data : Type) (make : (N -> res Data) -> node -> res Data) (merge : Data -> Data -> Data),
  (forall x y z, merge x (merge y z) = merge (merge x y) z) ->
  (forall x y, merge x y = merge y x) ->
  (forall x, merge x x = x) ->
  forall (L : Type) (lab : node -> L) (mk : L -> list Data -> Data),
  (forall get n, make get n = do ds <- mapr get (node_ids n); Ok (mk (lab n) ds)) ->
  (forall l xs ys, Forall2 (AnalysisFix.le Data merge) xs ys ->
                   AnalysisFix.le Data merge (mk l xs) (mk l ys)) ->
  forall s : egraph Data,
  WF Data s -> hc_nodup Data s -> stable_all Data make merge s -> upper Data make merge s ->
  forall c d, In c (ids Data s) -> analysis_data Data s c = Ok d ->
  forall sh0 rest,
    map fst (filter (fun e => N.eqb (snd e) c) (hashcons Data s)) = sh0 :: rest ->
  exists v0 vs,
    make_in Data make s sh0 = Ok v0 /\ mapr (make_in Data make s) rest = Ok vs /\
    d = fold_left merge vs v0.
Proof.
  intros Data make merge Ha Hc Hi L lab mk Hspec Hmono s Hwf Hn Hst Hup c d Hin Hd sh0 rest Hsh.
  exact (modelA_fixpoint_concrete_dflt Data make merge Ha Hc Hi L lab mk Hspec Hmono d
           s Hwf Hn Hst Hup c d Hin Hd sh0 rest Hsh).
Qed.

Print Assumptions modelA_fixpoint_static.
Print Assumptions modelA_fixpoint_concrete.
