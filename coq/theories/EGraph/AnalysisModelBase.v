(* EGraph/AnalysisModelBase.v — the analysis bookkeeping of EGraph/ModelA.v: stability
   ("pending is empty" means: make of every stored node is below its class's datum). *)
From SE Require Import EGraph.ModelA EGraph.AnalysisFix EGraph.AnalysisModelChk.
From SE Require Import Base.TextFacts Slots.SlotMapFacts.
From Coq Require Import Lia Arith Bool.

(* ------------------------------------------------------------------ *)
(* generic facts: res / the state monad / association lists *)

Lemma bind_ok : forall {A B} (r : res A) (f : A -> res B) b,
  bind r f = Ok b -> exists a, r = Ok a /\ f a = Ok b.
Proof. intros A B [a|e] f b H; cbn in H. exists a. split. reflexivity. exact H. discriminate. Qed.

Lemma mapr_ext_in : forall {A C} (f g : A -> res C) l,
  (forall x, In x l -> f x = g x) -> mapr f l = mapr g l.
Proof.
  intros A C f g l. induction l as [|x t IH]; intros H. reflexivity.
  cbn [mapr]. rewrite (H x (or_introl eq_refl)). rewrite IH. reflexivity.
  intros y Hy. apply H. right. exact Hy.
Qed.

Lemma mapr_ok_in : forall {A C} (f : A -> res C) l r, mapr f l = Ok r ->
  forall x, In x l -> exists y, f x = Ok y /\ In y r.
Proof.
  intros A C f l. induction l as [|a t IH]; intros r H x Hx. destruct Hx.
  cbn [mapr] in H. apply bind_ok in H. destruct H as [y [Hy H]].
  apply bind_ok in H. destruct H as [r' [Hr' H]]. inversion H; subst r.
  destruct Hx as [->|Hx].
  - exists y. split. exact Hy. left. reflexivity.
  - destruct (IH r' Hr' x Hx) as [z [Hz Hin]]. exists z. split. exact Hz. right. exact Hin.
Qed.

Lemma node_eqb_true : forall n m, node_eqb n m = true <-> n = m.
Proof.
  assert (Hp : forall p q, pval_eqb p q = true <-> p = q).
  { intros p q. split.
    - destruct p as [a|a|a], q as [b|b|b]; cbn; intro H; try discriminate.
      + apply N.eqb_eq in H. congruence.
      + apply Bool.eqb_prop in H. congruence.
      + apply text_eqb_eq in H. congruence.
    - intros <-. destruct p as [a|a|a]; cbn.
      + apply N.eqb_refl.
      + apply Bool.eqb_reflx.
      + apply text_eqb_refl. }
  assert (Ha : forall a b, appid_eqb a b = true <-> a = b).
  { intros [i m] [j m']. unfold appid_eqb. cbn [aid am]. rewrite andb_true_iff, N.eqb_eq, eqb_map_eq.
    split; [intros [-> ->]; reflexivity|intros E; inversion E; auto]. }
  assert (Hf : forall a b, farg_eqb a b = true <-> a = b).
  { induction a as [s|x|s f IH|p]; intros [t|y|t g|q]; cbn [farg_eqb]; try (split; [discriminate|congruence]).
    - rewrite N.eqb_eq. split; congruence.
    - rewrite Ha. split; congruence.
    - rewrite andb_true_iff, N.eqb_eq, IH. split; [intros [-> ->]; reflexivity|intros E; inversion E; auto].
    - rewrite Hp. split; congruence. }
  assert (Hl : forall l l', forallb2 farg_eqb l l' = true <-> l = l').
  { induction l as [|a t IH]; intros [|b t']; cbn [forallb2]; try (split; [discriminate|congruence]).
    - tauto.
    - rewrite andb_true_iff, Hf, IH. split; [intros [-> ->]; reflexivity|intros E; inversion E; auto]. }
  intros [v l] [w l']. unfold node_eqb. cbn [nvar nargs].
  rewrite andb_true_iff, Nat.eqb_eq, Hl.
  split; [intros [-> ->]; reflexivity|intros E; inversion E; auto].
Qed.

Lemma node_eqb_refl : forall n, node_eqb n n = true.
Proof. intro n. apply node_eqb_true. reflexivity. Qed.

Lemma node_eqb_false : forall n m, n <> m -> node_eqb n m = false.
Proof. intros n m H. destruct (node_eqb n m) eqn:E. apply node_eqb_true in E. contradiction. reflexivity. Qed.

Section AssocFacts.
  Context {V : Type}.
  Implicit Types l : list (node * V).

  Lemma na_get_set_same : forall l k v, na_get (na_set l k v) k = Some v.
  Proof.
    induction l as [|[k' v'] t IH]; intros k v; cbn [na_set na_get].
    - rewrite node_eqb_refl. reflexivity.
    - destruct (node_eqb k k') eqn:E; cbn [na_get]; rewrite E. reflexivity. apply IH.
  Qed.

  Lemma na_get_set_other : forall l k v k', k' <> k -> na_get (na_set l k v) k' = na_get l k'.
  Proof.
    induction l as [|[k0 v0] t IH]; intros k v k' Hne; cbn [na_set na_get].
    - rewrite (node_eqb_false _ _ Hne). reflexivity.
    - destruct (node_eqb k k0) eqn:E; cbn [na_get].
      + apply node_eqb_true in E. subst k0. rewrite (node_eqb_false _ _ Hne). reflexivity.
      + destruct (node_eqb k' k0). reflexivity. apply IH. exact Hne.
  Qed.

  Lemma na_get_remove_other : forall l k k', k' <> k -> na_get (na_remove l k) k' = na_get l k'.
  Proof.
    induction l as [|[k0 v0] t IH]; intros k k' Hne; cbn [na_remove na_get]. reflexivity.
    destruct (node_eqb k k0) eqn:E; cbn [na_get].
    - apply node_eqb_true in E. subst k0. rewrite (node_eqb_false _ _ Hne). reflexivity.
    - destruct (node_eqb k' k0). reflexivity. apply IH. exact Hne.
  Qed.

  Lemma na_get_app_none : forall l k r, na_get l k = None -> na_get (l ++ r) k = na_get r k.
  Proof.
    induction l as [|[k0 v0] t IH]; intros k r H; cbn [app na_get] in *. reflexivity.
    destruct (node_eqb k k0). discriminate. apply IH. exact H.
  Qed.

  Lemma na_get_app_some : forall l k r v, na_get l k = Some v -> na_get (l ++ r) k = Some v.
  Proof.
    induction l as [|[k0 v0] t IH]; intros k r v H; cbn [app na_get] in *. discriminate.
    destruct (node_eqb k k0). exact H. apply IH. exact H.
  Qed.
End AssocFacts.

Lemma existsb_node_eqb : forall sh l, existsb (node_eqb sh) l = true <-> In sh l.
Proof.
  intros sh l. rewrite existsb_exists. split.
  - intros [x [Hx E]]. apply node_eqb_true in E. subst x. exact Hx.
  - intro H. exists sh. split. exact H. apply node_eqb_refl.
Qed.

(* ------------------------------------------------------------------ *)
Section AMF.
  Variable Data : Type.
  Variable data_eqb : Data -> Data -> bool.
  Variable make : (N -> res Data) -> node -> res Data.
  Variable merge : Data -> Data -> Data.

  Hypothesis merge_assoc : forall x y z, merge x (merge y z) = merge (merge x y) z.
  Hypothesis merge_comm : forall x y, merge x y = merge y x.
  Hypothesis merge_idem : forall x, merge x x = x.
  Hypothesis data_eqb_spec : forall x y, data_eqb x y = true <-> x = y.

  (* make = a label of the node and the data of the children's classes, in occurrence order *)
  Variable L : Type.
  Variable lab : node -> L.
  Variable mk : L -> list Data -> Data.
  Hypothesis make_spec : forall get n, make get n = do ds <- mapr get (node_ids n); Ok (mk (lab n) ds).

  (* a node never raises the datum of a child's class (min-size, depth: a node costs more than its
     children).  `Dok` is an invariant of the data (for the instances: d <= u64::MAX). *)
  Variable Dok : Data -> Prop.
  Hypothesis Dok_mk : forall l ds, Dok (mk l ds).
  Hypothesis Dok_merge : forall a b, Dok a -> Dok b -> Dok (merge a b).
  Hypothesis make_below_kids :
    forall l ds d, In d ds -> Dok d -> merge d (mk l ds) = d.

  Notation eg := (egraph Data).
  Notation M := (ModelA.M Data).
  Notation adata := (analysis_data Data).
  Notation mk_in := (make_in Data make).
  Notation mle := (AnalysisFix.le Data merge).

  (* ---------------- the monad ---------------- *)
  Lemma mbind_ok : forall {A C} (m : M A) (k : A -> M C) s c s',
    mbind Data m k s = Ok (c, s') -> exists a s1, m s = Ok (a, s1) /\ k a s1 = Ok (c, s').
  Proof.
    intros A C m k s c s' H. unfold mbind in H. destruct (m s) as [[a s1]|e]. exists a, s1. split. reflexivity. exact H. discriminate.
  Qed.
  Lemma reads_ok : forall {A} (f : eg -> res A) s a s', reads Data f s = Ok (a, s') -> s' = s /\ f s = Ok a.
  Proof. intros A f s a s' H. unfold reads in H. destruct (f s) as [x|e]. inversion H. split; reflexivity. discriminate. Qed.
  Lemma lift_ok : forall {A} (r : res A) s a s', lift Data r s = Ok (a, s') -> s' = s /\ r = Ok a.
  Proof. intros A r s a s' H. unfold lift in H. destruct r as [x|e]. inversion H. split; reflexivity. discriminate. Qed.
  Lemma gets_ok : forall {A} (f : eg -> A) s a s', gets Data f s = Ok (a, s') -> s' = s /\ a = f s.
  Proof. intros A f s a s' H. unfold gets in H. inversion H. split; reflexivity. Qed.
  Lemma modify_ok : forall (f : eg -> eg) s a s', modify Data f s = Ok (a, s') -> s' = f s.
  Proof. intros f s a s' H. unfold modify in H. inversion H. reflexivity. Qed.
  Lemma ret_ok : forall {A} (x : A) s a s', ret Data x s = Ok (a, s') -> s' = s /\ a = x.
  Proof. intros A x s a s' H. unfold ret in H. inversion H. split; reflexivity. Qed.

  Lemma iterM_inv : forall {A} (P : eg -> Prop) (f : A -> M unit) l,
    (forall x s s', In x l -> P s -> f x s = Ok (tt, s') -> P s') ->
    forall s s', P s -> iterM Data f l s = Ok (tt, s') -> P s'.
  Proof.
    intros A P f l. induction l as [|x t IH]; intros Hf s s' HP H.
    - cbn [iterM] in H. apply ret_ok in H. destruct H as [-> _]. exact HP.
    - cbn [iterM] in H. apply mbind_ok in H. destruct H as [[] [s1 [H1 H2]]].
      apply (IH (fun y a b Hy => Hf y a b (or_intror Hy)) s1 s').
      + apply (Hf x s s1). left. reflexivity. exact HP. exact H1.
      + exact H2.
  Qed.

  (* ---------------- the order ---------------- *)
  Lemma mle_refl : forall x, mle x x.
  Proof. exact (AnalysisFix.le_refl Data merge merge_idem). Qed.
  Lemma mle_trans : forall x y z, mle x y -> mle y z -> mle x z.
  Proof. exact (AnalysisFix.le_trans Data merge merge_assoc). Qed.
  Lemma mle_ub_l : forall x y, mle x (merge x y).
  Proof. exact (AnalysisFix.join_ub_l Data merge merge_assoc merge_idem). Qed.
  Lemma mle_ub_r : forall x y, mle y (merge x y).
  Proof. exact (AnalysisFix.join_ub_r Data merge merge_assoc merge_comm merge_idem). Qed.
  (* "v is below d" as the implementation tests it: merge d v = d *)
  Lemma below_iff : forall d v, merge d v = d <-> mle v d.
  Proof. intros d v. unfold AnalysisFix.le. rewrite merge_comm. tauto. Qed.

  (* ---------------- the invariants ---------------- *)
  Definition stored (s : eg) (sh : node) (i : N) : Prop := na_get (hashcons Data s) sh = Some i.
  Definition npend (s : eg) (sh : node) : Prop := na_get (pending Data s) sh = None.

  Definition stab_at (s : eg) (sh : node) (i : N) : Prop :=
    exists d v, adata s i = Ok d /\ mk_in s sh = Ok v /\ merge d v = d.
  (* STABILITY: make of every stored node that is not pending is below the datum of its class *)
  Definition stab (s : eg) : Prop := forall sh i, stored s sh i -> npend s sh -> stab_at s sh i.
  (* ... except for the shapes in X *)
  Definition stabx (X : node -> Prop) (s : eg) : Prop :=
    forall sh i, stored s sh i -> npend s sh -> ~ X sh -> stab_at s sh i.
  (* every stored node: what `pending = []` gives *)
  Definition stable_all (s : eg) : Prop := forall sh i, stored s sh i -> stab_at s sh i.

  Lemma stab_stabx : forall s, stab s <-> stabx (fun _ => False) s.
  Proof. intro s. split. intros H sh i H1 H2 _. apply H; assumption. intros H sh i H1 H2. apply H; tauto. Qed.

  Theorem stab_pending_nil : forall s, stab s -> pending Data s = [] -> stable_all s.
  Proof. intros s H Hp sh i Hs. apply H. exact Hs. unfold npend. rewrite Hp. reflexivity. Qed.

  (* all data are Dok *)
  Definition dok (s : eg) : Prop := forall c, In c (classes Data s) -> Dok (c_data Data c).

  (* ---------------- frames ---------------- *)
  Definition dsame (s s' : eg) : Prop := forall j, adata s' j = adata s j.
  Definition sub_np (s s' : eg) : Prop :=
    forall sh i, stored s' sh i -> npend s' sh -> stored s sh i /\ npend s sh.
  Definition fr (s s' : eg) : Prop := dsame s s' /\ sub_np s s'.

  Lemma make_ext : forall (g g' : N -> res Data) n,
    (forall k, In k (node_ids n) -> g k = g' k) -> make g n = make g' n.
  Proof. intros g g' n H. rewrite !make_spec. rewrite (mapr_ext_in g g' _ H). reflexivity. Qed.

  Lemma mk_in_dsame : forall s s' sh, dsame s s' -> mk_in s' sh = mk_in s sh.
  Proof. intros s s' sh H. unfold make_in. apply make_ext. intros k _. apply H. Qed.

  Lemma fr_refl : forall s, fr s s.
  Proof. intro s. split. intro j. reflexivity. intros sh i H1 H2. split; assumption. Qed.
  Lemma fr_trans : forall a b c, fr a b -> fr b c -> fr a c.
  Proof.
    intros a b c [D1 S1] [D2 S2]. split.
    - intro j. rewrite D2. apply D1.
    - intros sh i H1 H2. destruct (S2 sh i H1 H2) as [H3 H4]. apply S1; assumption.
  Qed.

  Lemma stabx_fr : forall X s s', stabx X s -> fr s s' -> stabx X s'.
  Proof.
    intros X s s' Hs [Hd Hsub] sh i H1 H2 HX. destruct (Hsub sh i H1 H2) as [H3 H4].
    destruct (Hs sh i H3 H4 HX) as [d [v [Ha [Hm Hle]]]]. exists d, v. split. rewrite Hd. exact Ha.
    split. rewrite (mk_in_dsame s s' sh Hd). exact Hm. exact Hle.
  Qed.
  Lemma stab_fr : forall s s', stab s -> fr s s' -> stab s'.
  Proof. intros s s' H F. apply stab_stabx. eapply stabx_fr. apply stab_stabx. exact H. exact F. Qed.

End AMF.
