(* EGraph/AnalysisModelChk.v — executable checkers for the analysis invariants of EGraph/ModelA.v
   (used by AnalysisModelBase.v: validated with vm_compute on histories before anything is proved),
   and an instrumented rebuild that evaluates a checker at every head of the pending loop. *)
From SE Require Import EGraph.ModelA.

Section Chk.
  Variable Data : Type.
  Variable data_eqb : Data -> Data -> bool.
  Variable make : (N -> res Data) -> node -> res Data.
  Variable merge : Data -> Data -> Data.
  Variable modify_kind : nat.
  Variable const_of : Data -> option N.

  Notation eg := (egraph Data).
  Notation adata := (analysis_data Data).
  Notation mk_in := (make_in Data make).

  Definition pend_mem (s : eg) (sh : node) : bool :=
    match na_get (pending Data s) sh with Some _ => true | None => false end.

  (* le in the merge order *)
  Definition leb (d e : Data) : bool := data_eqb (merge d e) e.

  (* make of the stored shape is below the datum of (find of) its class *)
  Definition stab_entry (s : eg) (e : node * N) : bool :=
    let '(sh, i) := e in
    match adata s i, mk_in s sh with
    | Ok d, Ok v => data_eqb (merge d v) d
    | _, _ => false
    end.
  Definition stabb (s : eg) : bool :=
    forallb (fun e => pend_mem s (fst e) || stab_entry s e) (hashcons Data s).
  (* the same, without the exemption of pending entries *)
  Definition stableb (s : eg) : bool := forallb (stab_entry s) (hashcons Data s).

  Definition aliveb (s : eg) (i : N) : bool :=
    match is_alive Data s i with Ok b => b | Err _ => false end.
  Definition usedb (s : eg) (k : N) (sh : node) : bool :=
    match get_class Data s k with Ok c => existsb (node_eqb sh) (c_usages Data c) | Err _ => false end.

  (* a stored shape that is not pending mentions live classes only, and is among their usages *)
  Definition ucovb (s : eg) : bool :=
    forallb (fun e => pend_mem s (fst e) ||
                      forallb (fun k => aliveb s k && usedb s k (fst e)) (node_ids (fst e))) (hashcons Data s).
  (* every stored shape (pending or not) is among the usages of the classes it mentions *)
  Definition ucov_allb (s : eg) : bool :=
    forallb (fun e => forallb (fun k => usedb s k (fst e)) (node_ids (fst e))) (hashcons Data s).
  (* the hashcons points to live classes *)
  Definition hliveb (s : eg) : bool := forallb (fun e => aliveb s (snd e)) (hashcons Data s).
  (* hashcons and the node tables of the classes agree *)
  Definition hconsb (s : eg) : bool :=
    forallb (fun e => match get_class Data s (snd e) with
                      | Ok c => match na_get (c_nodes Data c) (fst e) with Some _ => true | None => false end
                      | Err _ => false end) (hashcons Data s)
    && forallb (fun ic => forallb (fun e => match na_get (hashcons Data s) (fst e) with
                                            | Some j => j =? fst ic | None => false end)
                                  (c_nodes Data (snd ic)))
               (combine (map N.of_nat (seq 0 (List.length (classes Data s)))) (classes Data s)).
  (* pending entries are stored *)
  Definition pstoredb (s : eg) : bool :=
    forallb (fun p => match na_get (hashcons Data s) (fst p) with Some _ => true | None => false end) (pending Data s).
  (* a pending entry that mentions a dead class is Full *)
  Definition pfullb (s : eg) : bool :=
    forallb (fun p => snd p || forallb (aliveb s) (node_ids (fst p))) (pending Data s).

  (* the datum of a live class against the join of make over its stored nodes *)
  Definition nodes_of (s : eg) (i : N) : list node :=
    map fst (filter (fun e => snd e =? i) (hashcons Data s)).
  Definition joinr (l : list (res Data)) : option Data :=
    fold_left (fun acc r => match acc, r with
                            | _, Err _ => None
                            | None, Ok v => Some v
                            | Some a, Ok v => Some (merge a v) end) l None.
  (* datum = join (pending empty) *)
  Definition fixb (s : eg) : bool :=
    forallb (fun i => match adata s i, joinr (map (mk_in s) (nodes_of s i)) with
                      | Ok d, Some j => data_eqb d j
                      | _, _ => false end) (ids Data s).
  (* datum <= join, at any time *)
  Definition upperb (s : eg) : bool :=
    forallb (fun i => match adata s i, joinr (map (mk_in s) (nodes_of s i)) with
                      | Ok d, Some j => leb d j
                      | _, _ => false end) (ids Data s).

  (* ---- instrumented rebuild: `chk` at every head of the pending loop ---- *)
  Variable chk : eg -> bool.
  Notation M := (ModelA.M Data).
  Definition guard (e : site) : M unit := fun s => if chk s then Ok (tt, s) else Err e.

  Fixpoint rebuild_pending_chk (fuel : nat) : M unit :=
    match fuel with
    | O => fail Data OutOfFuel
    | S f =>
        mbind Data (guard ExplicitPanic) (fun _ =>
        mbind Data (gets Data (pending Data)) (fun p =>
        match p with
        | [] => ret Data tt
        | (sh, ty) :: rest =>
            mbind Data (modify Data (fun s => set_pending Data s rest)) (fun _ =>
            mbind Data (handle_pending Data data_eqb make merge sh ty) (fun _ =>
            rebuild_pending_chk f))
        end))
    end.

  Fixpoint rebuild_chk (depth : nat) : M unit :=
    match depth with
    | O => fail Data OutOfFuel
    | S d =>
        mbind Data (rebuild_pending_chk (rebuild_fuel)) (fun _ =>
        mq_loop Data data_eqb make merge modify_kind const_of (rebuild_chk d) (mq_fuel))
    end.
  Definition rb_chk : M unit := rebuild_chk rebuild_depth.
End Chk.
