(* EGraph/AnalysisModelClosed.v — the two structural premises of AnalysisModelReach.v are DISCHARGED, and the theorem
   is lifted from node insertions to TERM insertions:

     reachT s hs   s is reachable from the empty e-graph by `add_expr0 t` of terms with `term_static t`
                   (OpsPreFacts.v: pairwise distinct binder names, one child per applied-id position, no slot name of
                   residue 1 mod 4) and by `eg_union0 l r` of handles l, r returned by earlier insertions (hs = the
                   handles returned so far)
     modelA_data_is_fixpoint_all_histories / minsize_... / depth_... :
       reachT s hs -> In c (ids s) -> analysis_data s c = Ok d -> stored nodes of c = sh0 :: rest ->
       exists v0 vs, make s sh0 = Ok v0 /\ mapr (make s) rest = Ok vs /\ d = fold_left merge vs v0
   with NO remaining premise.

   Route: ModelA.v is simulated by Model.v (AnalysisModelSim.v, relation R; `erase`).  The step invariants of Model.v
   (ModelStepsDefs.MI, HashconsFacts.hc_ok, handles `hok`; ModelStepsA.v, ModelStepsW.v) are carried along the run of
   ModelA THROUGH the simulation, one round of the pending loop / one operation prefix at a time:
     (2) key_at_hit   <- ModelStepsA.key_at_hit_model (the KS run invariant of SoundClosed.v) on the erased states
                         (`key_at_hit_LI`); used through AnalysisModelRound.hp_round_local (hp_round with a LOCAL premise)
     (1) node_ok      <- ModelStepsW.MI_add_pre (HashconsAbs.add_shape_absent_nodup) for nodes with
                         HashconsFacts.node_pre on the erased state (`node_ok_LI`); term_static gives node_pre for every
                         node that add_expr inserts (ModelStepsA.node_pre_static: the child handles are `hok`). *)
From SE Require Import EGraph.ModelA EGraph.AnalysisFix EGraph.AnalysisModelBase EGraph.AnalysisModelStab
  EGraph.AnalysisModelUF EGraph.AnalysisModelAbs EGraph.AnalysisModelFrames EGraph.AnalysisModelTop EGraph.AnalysisModelFacts
  EGraph.AnalysisModelInv EGraph.AnalysisModelUpper EGraph.AnalysisModelReachA EGraph.AnalysisModelReach EGraph.AnalysisModelRound
  EGraph.ModelAMachine EGraph.AnalysisModelInst.
From SE Require EGraph.Model EGraph.ModelPre EGraph.ModelStepsDefs EGraph.ModelStepsA EGraph.ModelStepsW EGraph.HashconsFacts
  EGraph.OpsPreFacts EGraph.AnalysisModelSim EGraph.UnionInvariantFacts EGraph.AddCoversFacts.
From Coq Require Import Lia Arith Bool List NArith.
Import ListNotations.

Module SM := SE.EGraph.AnalysisModelSim.
Module SA := SE.EGraph.ModelStepsA.
Module SW := SE.EGraph.ModelStepsW.
Module HF := SE.EGraph.HashconsFacts.
Module UI := SE.EGraph.UnionInvariantFacts.

Section Closed.
  Variable Data : Type.
  Variable data_eqb : Data -> Data -> bool.
  Variable make : (N -> res Data) -> node -> res Data.
  Variable merge : Data -> Data -> Data.
  Variable const_of : Data -> option N.
  Hypothesis merge_assoc : forall x y z, merge x (merge y z) = merge (merge x y) z.
  Hypothesis merge_comm : forall x y, merge x y = merge y x.
  Hypothesis merge_idem : forall x, merge x x = x.
  Hypothesis data_eqb_spec : forall x y, data_eqb x y = true <-> x = y.
  Variable L : Type.
  Variable lab : node -> L.
  Variable mk : L -> list Data -> Data.
  Hypothesis make_spec : forall get n, make get n = do ds <- mapr get (node_ids n); Ok (mk (lab n) ds).
  Hypothesis make_mono : forall l xs ys, Forall2 (AnalysisFix.le Data merge) xs ys -> AnalysisFix.le Data merge (mk l xs) (mk l ys).
  Hypothesis lab_nvar : forall n m, nvar n = nvar m -> lab n = lab m.
  Variable Dok : Data -> Prop.
  Hypothesis Dok_mk : forall l ds, Dok (mk l ds).
  Hypothesis Dok_merge : forall a b, Dok a -> Dok b -> Dok (merge a b).
  Hypothesis make_below_kids : forall l ds d, In d ds -> Dok d -> merge d (mk l ds) = d.

  Notation eg := (egraph Data).
  Notation er := (SM.erase Data).
  Notation RR := (SM.R Data).
  Notation Inv0 := (AnalysisModelReachA.Inv Data make merge Dok (fun _ : node => False) []).
  Notation MI := ModelStepsDefs.MI.
  Notation hok := ModelStepsDefs.hok.
  Notation hc_ok := HF.hc_ok.
  Notation hp := (handle_pending Data data_eqb make merge).
  Notation add_pre := (add_pre0 Data make).
  Notation union_pre := (eg_union Data data_eqb merge (ret Data tt)).
  Notation rb := (rb0 Data data_eqb make merge 0%nat const_of).
  Notation stored := (AnalysisModelBase.stored Data).

  (* the invariant inside one operation: `anchor` is a Model state that the erased state extends *)
  Definition LI (anchor : Model.egraph) (hs : list appid) (s : eg) : Prop :=
    Inv0 s /\ MI (er s) /\ hc_ok (er s) /\ Forall (hok (er s)) hs /\ UI.ext anchor (er s).
  (* the invariant between operations *)
  Definition OI (hs : list appid) (s : eg) : Prop :=
    Inv0 s /\ MI (er s) /\ hc_ok (er s) /\ Forall (hok (er s)) hs /\ pending Data s = [].

  (* ---------------- transfer along R ---------------- *)
  Lemma ext_sp : forall x m p, UI.ext x m -> UI.ext x (Model.set_pending m p).
  Proof. intros x m p H. exact H. Qed.
  Lemma ext_sp_l : forall m p x, UI.ext (Model.set_pending m p) x -> UI.ext m x.
  Proof. intros m p x H. exact H. Qed.

  Lemma tr_MI : forall s m, RR s m -> MI m -> MI (er s).
  Proof. intros s m HR H. rewrite (SM.erase_of_R Data s m HR). apply SA.MI_set_pending. exact H. Qed.
  Lemma tr_hc : forall s m, RR s m -> hc_ok m -> hc_ok (er s).
  Proof.
    intros s m HR H. rewrite (SM.erase_of_R Data s m HR). unfold HF.hc_ok. apply (SA.hce_set_pending HF.noex HF.noex m _ H).
    intros sh F. exact F. intros sh Hsh. left. apply (SM.R_prel Data s m HR sh). exact Hsh.
  Qed.
  Lemma tr_hok : forall s m a, RR s m -> hok m a -> hok (er s) a.
  Proof. intros s m a HR H. rewrite (SM.erase_of_R Data s m HR). apply SA.hok_set_pending. exact H. Qed.
  Lemma tr_ext : forall s m x, RR s m -> UI.ext x m -> UI.ext x (er s).
  Proof. intros s m x HR H. rewrite (SM.erase_of_R Data s m HR). apply ext_sp. exact H. Qed.
  Lemma tr_ext_refl : forall s m, RR s m -> UI.ext m (er s).
  Proof. intros s m HR. apply (tr_ext s m m HR). apply UI.ext_refl. Qed.

  Lemma Forall_hok_imp : forall (m m' : Model.egraph) hs, (forall a, hok m a -> hok m' a) -> Forall (hok m) hs -> Forall (hok m') hs.
  Proof. intros m m' hs H. apply Forall_impl. exact H. Qed.

  (* ---------------- (2) the key fact at the hash-cons hit, from the Model invariant ---------------- *)
  Theorem key_at_hit_MI : forall s sh rest i s1 c bij0 src_id nd p s2 sl enode i1 enode' i1' s3 t x pc t2,
    MI (er s) -> stored s sh i ->
    update_analysis Data data_eqb make merge sh i (set_pending Data s rest) = Ok (tt, s1) ->
    get_class Data s1 i = Ok c -> na_get (c_nodes Data c) sh = Some (bij0, src_id) -> apply_slotmap false bij0 sh = Ok nd ->
    raw_remove_from_class Data i sh s1 = Ok (p, s2) ->
    class_slots Data s2 i = Ok sl -> find_enode Data s2 nd = Ok enode ->
    find_applied_id Data s2 {| aid := i; am := identity sl |} = Ok i1 ->
    hp_loop Data data_eqb merge 100 src_id enode i1 s2 = Ok ((enode', i1'), s3) ->
    shape Data s3 enode' = Ok t -> lookup_internal Data s3 t = Ok (Some x) -> pc_from_src_id Data s3 src_id = Ok pc ->
    shape Data s3 (fst pc) = Ok t2 -> fst t2 = fst t.
  Proof.
    intros s sh rest i s1 c bij0 src_id nd p s2 sl enode i1 enode' i1' s3 t x pc t2
      HM Hsto H1 Hc Hent Hnd H2 Hsl Hen Hi1 H3 Ht Hlk Hpc Ht2.
    set (m0 := Model.set_pending (er s) rest).
    assert (HM0 : MI m0) by (apply SA.MI_set_pending; exact HM).
    assert (HR0 : RR (set_pending Data s rest) m0) by (apply (SM.R_erase Data (set_pending Data s rest))).
    assert (HR1 : RR s1 m0) by (exact (SM.askip_update_analysis Data data_eqb make merge sh i _ m0 tt s1 HR0 H1)).
    destruct (SM.sim_raw_remove Data i sh s1 m0 p s2 HR1 H2) as [m2 [E2 HR2]].
    destruct (SM.sim_hp_loop Data data_eqb merge 100 src_id enode i1 s2 m2 (enode', i1') s3 HR2 H3) as [m3 [E3 HR3]].
    apply (SA.key_at_hit_model m0 sh i (SM.ecl Data c) bij0 src_id nd p m2 sl enode i1 enode' i1' m3 t pc t2 HM0).
    - exact Hsto.
    - rewrite (SM.get_class_R Data s1 m0 i HR1). rewrite Hc. reflexivity.
    - exact Hent.
    - exact Hnd.
    - exact E2.
    - rewrite (SM.class_slots_R Data s2 m2 i HR2). exact Hsl.
    - rewrite (SM.find_enode_R Data s2 m2 nd HR2). exact Hen.
    - rewrite (SM.find_applied_id_R Data s2 m2 _ HR2). exact Hi1.
    - exact E3.
    - rewrite (SM.shape_R Data s3 m3 _ HR3). exact Ht.
    - rewrite (SM.pc_from_src_id_R Data s3 m3 _ HR3). exact Hpc.
    - rewrite (SM.shape_R Data s3 m3 _ HR3). exact Ht2.
  Qed.

  (* the statement `key_at_hit` of AnalysisModelReach.v with the premise `lh s` replaced by the invariant of the loop heads *)
  Corollary key_at_hit_LI : forall anchor hs s sh rest i s1 c bij0 src_id nd p s2 sl enode i1 enode' i1' s3 t x pc t2,
    LI anchor hs s -> pending Data s = (sh, true) :: rest -> stored s sh i ->
    update_analysis Data data_eqb make merge sh i (set_pending Data s rest) = Ok (tt, s1) ->
    get_class Data s1 i = Ok c -> na_get (c_nodes Data c) sh = Some (bij0, src_id) -> apply_slotmap false bij0 sh = Ok nd ->
    raw_remove_from_class Data i sh s1 = Ok (p, s2) ->
    class_slots Data s2 i = Ok sl -> find_enode Data s2 nd = Ok enode ->
    find_applied_id Data s2 {| aid := i; am := identity sl |} = Ok i1 ->
    hp_loop Data data_eqb merge 100 src_id enode i1 s2 = Ok ((enode', i1'), s3) ->
    shape Data s3 enode' = Ok t -> lookup_internal Data s3 t = Ok (Some x) -> pc_from_src_id Data s3 src_id = Ok pc ->
    shape Data s3 (fst pc) = Ok t2 -> fst t2 = fst t.
  Proof.
    intros anchor hs s sh rest i s1 c bij0 src_id nd p s2 sl enode i1 enode' i1' s3 t x pc t2 (_ & HM & _) _.
    apply (key_at_hit_MI s sh rest). exact HM.
  Qed.

  (* ---------------- one round of the pending loop ---------------- *)
  Theorem LI_hp : forall anchor hs sh ty rest s s1, LI anchor hs s -> pending Data s = (sh, ty) :: rest ->
    hp sh ty (set_pending Data s rest) = Ok (tt, s1) -> LI anchor hs s1.
  Proof.
    intros anchor hs sh ty rest s s1 (HI & HM & HH & HK & HE) Hp H.
    set (m0 := Model.set_pending (er s) rest).
    assert (HM0 : MI m0) by (apply SA.MI_set_pending; exact HM).
    assert (HR0 : RR (set_pending Data s rest) m0) by (apply (SM.R_erase Data (set_pending Data s rest))).
    destruct (SM.sim_handle_pending Data data_eqb make merge sh ty _ m0 tt s1 HR0 H) as [m1 [E1 HR1]].
    destruct (SA.MI_hp sh ty m0 tt m1 HM0 E1) as [HM1 HE1].
    assert (HH0 : HF.hce (fun y => y = sh /\ ty = true) m0).
    { apply (SA.hce_set_pending HF.noex _ (er s) rest HH). intros y F. destruct F.
      intros y Hy. change (Model.na_get (pending Data s) y = Some true) in Hy. rewrite Hp in Hy.
      change (Model.na_get ((sh, ty) :: rest) y) with (if Model.node_eqb y sh then Some ty else Model.na_get rest y) in Hy.
      destruct (Model.node_eqb y sh) eqn:Ey.
      - right. split. apply (proj1 (AnalysisModelBase.node_eqb_true y sh)). exact Ey. inversion Hy. reflexivity.
      - left. exact Hy. }
    assert (HH1 : hc_ok m1) by (apply (HF.hc_ok_handle_pending sh ty m0 tt m1 (proj1 HM0) E1 HH0)).
    split; [|split; [|split; [|split]]].
    - apply (hp_round_local Data data_eqb make merge merge_assoc merge_comm merge_idem data_eqb_spec L lab mk make_spec make_mono lab_nvar
               Dok Dok_mk Dok_merge make_below_kids sh ty rest s s1). 2: exact HI. 2: exact Hp. 2: exact H.
      intros i s1' c bij0 src_id nd p s2 sl enode i1 enode' i1' s3 t x pc t2. apply (key_at_hit_MI s sh rest). exact HM.
    - apply (tr_MI s1 m1 HR1 HM1).
    - apply (tr_hc s1 m1 HR1 HH1).
    - apply (Forall_hok_imp (er s) (er s1)). 2: exact HK. intros a Ha. apply (tr_hok s1 m1 a HR1).
      apply (SA.hok_ext m0 m1 a HE1). apply SA.hok_set_pending. exact Ha.
    - apply (tr_ext s1 m1 anchor HR1). eapply UI.ext_trans. 2: exact HE1. apply ext_sp. exact HE.
  Qed.

  Lemma LI_mq : forall anchor hs s q, LI anchor hs s -> LI anchor hs (set_mq Data s q).
  Proof.
    intros anchor hs s q (HI & HM & HH & HK & HE). split; [|split; [|split; [|split]]]; try assumption.
    apply (Inv_set_mq Data make merge merge_assoc merge_idem L lab mk make_spec make_mono Dok s q HI).
  Qed.

  Lemma LI_rebuild : forall anchor hs s s', LI anchor hs s -> rb s = Ok (tt, s') -> LI anchor hs s' /\ pending Data s' = [].
  Proof.
    intros anchor hs s s' HL H. unfold rb0 in H.
    apply (rebuild_J Data data_eqb make merge const_of (LI anchor hs) (LI_mq anchor hs) (LI_hp anchor hs) rebuild_depth s s' HL H).
  Qed.

  Lemma OI_LI : forall hs s, OI hs s -> LI (er s) hs s.
  Proof. intros hs s (A & B & C & E & _). split; [exact A|split; [exact B|split; [exact C|split; [exact E|apply UI.ext_refl]]]]. Qed.
  Lemma LI_OI : forall anchor hs s, LI anchor hs s -> pending Data s = [] -> OI hs s.
  Proof. intros anchor hs s (A & B & C & E & _) Hp. split; [exact A|split; [exact B|split; [exact C|split; [exact E|exact Hp]]]]. Qed.
  Lemma OI_incl : forall hs hs' s, incl hs' hs -> OI hs s -> OI hs' s.
  Proof.
    intros hs hs' s Hi (A & B & C & E & F). split; [exact A|split; [exact B|split; [exact C|split; [|exact F]]]].
    apply Forall_forall. intros a Ha. apply (proj1 (Forall_forall _ _) E). apply Hi. exact Ha.
  Qed.

  (* ---------------- union ---------------- *)
  Theorem OI_union : forall hs l r s b s', OI hs s -> In l hs -> In r hs ->
    eg_union0 Data data_eqb make merge 0%nat const_of l r s = Ok (b, s') -> OI hs s'.
  Proof.
    intros hs l r s b s' (HI & HM & HH & HK & Hp) Hl Hr H. unfold eg_union0 in H.
    destruct (eg_union_split Data data_eqb merge _ l r s b s' H) as [s1 [H1 H2]].
    destruct (SM.sim_union_pre Data data_eqb merge l r s (er s) b s1 (SM.R_erase Data s) H1) as [m1 [E1 HR1]].
    assert (Cl : UnionFindFacts.covers (er s) l) by (apply (proj1 (proj1 (Forall_forall _ _) HK l Hl))).
    assert (Cr : UnionFindFacts.covers (er s) r) by (apply (proj1 (proj1 (Forall_forall _ _) HK r Hr))).
    destruct (SA.MI_union_pre l r (er s) b m1 HM Cl Cr E1) as (HM1 & HE1 & HHt).
    assert (HL1 : LI (er s1) hs s1).
    { split; [|split; [|split; [|split]]].
      - apply (union_round Data data_eqb make merge merge_assoc merge_comm merge_idem data_eqb_spec L lab mk make_spec make_mono Dok Dok_merge l r s b s1 HI H1).
      - apply (tr_MI s1 m1 HR1 HM1).
      - apply (tr_hc s1 m1 HR1). apply HHt. exact HH.
      - apply (Forall_hok_imp (er s) (er s1)). 2: exact HK. intros a Ha. apply (tr_hok s1 m1 a HR1). apply (SA.hok_ext _ _ a HE1 Ha).
      - apply UI.ext_refl. }
    destruct (LI_rebuild _ hs s1 s' HL1 H2) as [HL' Hp']. eapply LI_OI; eassumption.
  Qed.

  (* ---------------- (1) insertion of a node with node_pre: no hash-cons entry is overwritten ---------------- *)
  Theorem add_pre_LI : forall hs n t syn s s1, OI hs s -> HF.node_pre (er s) n -> shape Data s n = Ok t ->
    lookup_internal Data s t = Ok None -> add_pre t s = Ok (syn, s1) ->
    keeps_hc Data s s1 /\ LI (er s1) hs s1 /\
    (forall m' a, UI.ext (er s1) m' -> Model.semify_app_id m' syn = Ok a -> hok m' a).
  Proof.
    intros hs n t syn s s1 (HI & HM & HH & HK & Hp) Hn Hsh Hlk H.
    destruct (SM.sim_add_pre Data make t s (er s) syn s1 (SM.R_erase Data s) H) as [m5 [E5 HR5]].
    assert (Hsh' : Model.shape (er s) n = Ok t) by (rewrite (SM.shape_R Data s (er s) n (SM.R_erase Data s)); exact Hsh).
    assert (Hlk' : Model.lookup_internal (er s) t = Ok None) by (rewrite (SM.lookup_internal_R Data s (er s) t (SM.R_erase Data s)); exact Hlk).
    destruct (SW.MI_add_pre (er s) n t syn m5 HM HH Hp Hn Hsh' Hlk' E5) as (HM5 & HH5 & HE5 & Hkeep & Hsyn).
    assert (Hk : keeps_hc Data s s1).
    { intros sh j Hs. unfold AnalysisModelBase.stored in *. destruct HR5 as (_ & _ & Hh5 & _). rewrite <- Hh5. apply Hkeep. exact Hs. }
    split. exact Hk. split.
    - split; [|split; [|split; [|split]]].
      + apply (add_round Data make merge merge_assoc merge_idem L lab mk make_spec make_mono lab_nvar Dok Dok_mk t s syn s1 HI H Hk).
      + apply (tr_MI s1 m5 HR5 HM5).
      + apply (tr_hc s1 m5 HR5 HH5).
      + apply (Forall_hok_imp (er s) (er s1)). 2: exact HK. intros a Ha. apply (tr_hok s1 m5 a HR5). apply (SA.hok_ext0 _ _ a HE5 Ha).
      + apply UI.ext_refl.
    - intros m' a He Hsem.
      apply (SW.MI_add_pre_hok (er s) n t syn m5 (proj1 HM) (proj1 (proj2 HM)) (proj1 (proj2 Hn)) Hsh' E5 m' a). 2: exact Hsem.
      eapply UI.ext_trans. apply (tr_ext_refl s1 m5 HR5). exact He.
  Qed.

  Theorem node_ok_OI : forall hs s n, OI hs s -> HF.node_pre (er s) n -> node_ok Data make s n.
  Proof.
    intros hs s n HO Hn t a s1 Hsh Hlk H. destruct (add_pre_LI hs n t a s s1 HO Hn Hsh Hlk H) as [Hk _]. exact Hk.
  Qed.

  Theorem OI_eg_add : forall hs n s a s', OI hs s -> HF.node_pre (er s) n -> eg_add Data make rb n s = Ok (a, s') -> OI (a :: hs) s'.
  Proof.
    intros hs n s a s' HO Hn H. unfold eg_add in H.
    apply (mbind_ok Data) in H. destruct H as [t [sx [H0 H]]]. apply (reads_ok Data) in H0. destruct H0 as [-> Hsh].
    unfold add_internal in H. apply (mbind_ok Data) in H. destruct H as [lk [sx [H0 H]]]. apply (reads_ok Data) in H0. destruct H0 as [-> Hlk].
    destruct lk as [x|].
    - apply (ret_ok Data) in H. destruct H as [-> ->]. destruct HO as (HI & HM & HH & HK & Hp).
      assert (Hx : hok (er s) x).
      { apply (SA.hit_hok (er s) n t x HM Hn).
        rewrite (SM.shape_R Data s (er s) n (SM.R_erase Data s)). exact Hsh.
        rewrite (SM.lookup_internal_R Data s (er s) t (SM.R_erase Data s)). exact Hlk. }
      split; [exact HI|split; [exact HM|split; [exact HH|split; [constructor; assumption|exact Hp]]]].
    - apply (mbind_ok Data) in H. destruct H as [x1 [s1 [H1 H]]].
      apply (mbind_ok Data) in H. destruct H as [x2 [s2 [H2 H]]].
      apply (mbind_ok Data) in H. destruct H as [x3 [s3 [H3 H]]].
      apply (mbind_ok Data) in H. destruct H as [x4 [s4 [H4 H]]].
      destruct (mk_singleton_split Data make rb x3 s3 x4 s4 H4) as [s5 [H5 H6]].
      apply (reads_ok Data) in H. destruct H as [-> Hsem].
      assert (Hpre : add_pre t s = Ok (x4, s5)). { unfold add_pre0, mbind. rewrite H1, H2, H3. exact H5. }
      destruct (add_pre_LI hs n t x4 s s5 HO Hn Hsh Hlk Hpre) as (_ & HL5 & Hsyn).
      destruct (LI_rebuild _ hs s5 s4 HL5 H6) as [(HI' & HM' & HH' & HK' & HE') Hp'].
      assert (Ha : hok (er s4) a).
      { apply (Hsyn (er s4) a HE'). rewrite (SM.semify_R Data s4 (er s4) x4 (SM.R_erase Data s4)). exact Hsem. }
      split; [exact HI'|split; [exact HM'|split; [exact HH'|split; [constructor; assumption|exact Hp']]]].
  Qed.

  (* ---------------- terms ---------------- *)
  Notation add_e := (add_expr0 Data data_eqb make merge 0%nat const_of).
  Notation union_e := (eg_union0 Data data_eqb make merge 0%nat const_of).
  Notation term_static := OpsPreFacts.term_static.

  Theorem OI_add_expr : forall t hs s a s', OI hs s -> term_static t -> add_e t s = Ok (a, s') -> OI (a :: hs) s'.
  Proof.
    unfold add_expr0.
    fix IH 1. intros [n ch] hs s a s' HO Hst H. cbn [add_expr] in H.
    apply OpsPreFacts.term_static_iff in Hst. destruct Hst as (ND & Len & Occ & Hch).
    apply (mbind_ok Data) in H. destruct H as [l [s1 [H1 H]]].
    assert (HC : OI (l ++ hs) s1 /\ List.length l = List.length ch).
    { clear H Len. revert hs s l s1 HO H1 Hch. induction ch as [|c r IHr]; intros hs s l s1 HO H1 Hch.
      - apply (ret_ok Data) in H1. destruct H1 as [-> ->]. split. exact HO. reflexivity.
      - assert (Hc : term_static c) by (inversion Hch; assumption).
        assert (Hr : Forall term_static r) by (inversion Hch; assumption).
        apply (mbind_ok Data) in H1. destruct H1 as [a0 [s2 [H2 H1]]].
        apply (mbind_ok Data) in H1. destruct H1 as [r' [s3 [H3 H1]]].
        apply (ret_ok Data) in H1. destruct H1 as [-> ->].
        destruct (IHr (a0 :: hs) s2 r' s3 (IH c hs s a0 s2 HO Hc H2) H3 Hr) as [HO3 Hl3].
        split. 2: { cbn [List.length]. rewrite Hl3. reflexivity. }
        apply (OI_incl (r' ++ a0 :: hs)). 2: exact HO3.
        intros y Hy. cbn [app] in Hy. destruct Hy as [<-|Hy]. apply in_or_app. right. left. reflexivity.
        apply in_app_or in Hy. apply in_or_app. destruct Hy as [Hy|Hy]. left. exact Hy. right. right. exact Hy. }
    destruct HC as [HO1 Hl].
    destruct (Nat.ltb (List.length (app_occ n)) (List.length l)). discriminate.
    assert (Hn : HF.node_pre (er s1) (Model.set_apps n l)).
    { apply SA.node_pre_static. exact ND. rewrite Hl, Len. apply Nat.le_refl. exact Occ.
      destruct HO1 as (_ & _ & _ & HK & _). apply Forall_forall. intros y Hy. apply (proj1 (Forall_forall _ _) HK). apply in_or_app. left. exact Hy.
      rewrite Hl. exact Len. }
    apply (OI_incl (a :: l ++ hs)).
    - intros y [<-|Hy]. left. reflexivity. right. apply in_or_app. right. exact Hy.
    - apply (OI_eg_add (l ++ hs) (set_apps n l) s1 a s' HO1 Hn H).
  Qed.

  (* ---------------- all histories ---------------- *)
  Inductive reachT : eg -> list appid -> Prop :=
  | rT_empty : reachT (empty_egraph Data) []
  | rT_add : forall s hs t a s', reachT s hs -> term_static t -> add_e t s = Ok (a, s') -> reachT s' (a :: hs)
  | rT_union : forall s hs l r b s', reachT s hs -> In l hs -> In r hs -> union_e l r s = Ok (b, s') -> reachT s' hs.

  Lemma OI_empty : OI [] (empty_egraph Data).
  Proof.
    split. apply (Inv_empty Data make merge Dok). split. exact SA.MI_empty. split. exact HF.hc_ok_empty. split. constructor. reflexivity.
  Qed.

  Theorem reachT_OI : forall s hs, reachT s hs -> OI hs s.
  Proof.
    intros s hs Hr. induction Hr as [|s hs t a s' _ IH Hst H|s hs l r b s' _ IH Hl Hr' H].
    - exact OI_empty.
    - eapply OI_add_expr; eassumption.
    - exact (OI_union hs l r s b s' IH Hl Hr' H).
  Qed.

  Theorem modelA_data_is_fixpoint_all_histories :
    forall s hs, reachT s hs ->
    forall c d, In c (ids Data s) -> analysis_data Data s c = Ok d ->
    forall sh0 rest, map fst (filter (fun e => N.eqb (snd e) c) (hashcons Data s)) = sh0 :: rest ->
    exists v0 vs, make_in Data make s sh0 = Ok v0 /\ mapr (make_in Data make s) rest = Ok vs /\
                  d = fold_left merge vs v0.
  Proof.
    intros s hs Hr. destruct (reachT_OI s hs Hr) as ((Hst & Hd & Hup & HS) & _ & _ & _ & Hp).
    assert (Hall : stable_all Data make merge s).
    { apply stab_pending_nil. apply stab_stabx. exact Hst. exact Hp. }
    apply (modelA_fixpoint_concrete Data make merge merge_assoc merge_comm merge_idem L lab mk make_spec make_mono s).
    - intros sh i Hs. split.
      + apply ids_root. assert (Hi := sx_hl Data _ s HS sh i Hs). change (fidl (unionfind Data s) i = Ok i) in Hi. eapply fidl_is_root. exact Hi.
      + intros k Hk. destruct (Hall sh i Hs) as [d0 [v [_ [Hv _]]]]. eapply (mk_in_kids_ok Data make L lab mk make_spec). exact Hv. exact Hk.
    - intros sh i Hin. apply na_get_nodup_in. apply (sx_nd Data _ s HS). exact Hin.
    - exact Hall.
    - intros c d Hc Hd0. apply jbv_nil_jb. apply Hup. 2: exact Hd0.
      apply ids_root in Hc. change (fidl (unionfind Data s) c = Ok c). apply fidl_root. exact Hc.
  Qed.
End Closed.

Print Assumptions key_at_hit_MI.
Print Assumptions key_at_hit_LI.
Print Assumptions LI_hp.
Print Assumptions add_pre_LI.
Print Assumptions node_ok_OI.
Print Assumptions reachT_OI.
Print Assumptions modelA_data_is_fixpoint_all_histories.

(* ------------------------------------------------------------------ *)
(* the two instances *)
Definition minsize_data_is_fixpoint_all_histories :=
  modelA_data_is_fixpoint_all_histories N N.eqb make_minsize N.min (fun _ => None) Nmin_assoc' Nmin_comm' Nmin_idem' Neqb_spec'
    unit (fun _ => tt) mk_minsize minsize_make_spec minsize_mono (fun _ _ _ => eq_refl)
    (fun d => (d <= u64_max)%N) minsize_Dok_mk Dok_min minsize_below_kids.
Definition depth_data_is_fixpoint_all_histories :=
  modelA_data_is_fixpoint_all_histories N N.eqb make_depth N.min (fun _ => None) Nmin_assoc' Nmin_comm' Nmin_idem' Neqb_spec'
    unit (fun _ => tt) mk_depth depth_make_spec depth_mono (fun _ _ _ => eq_refl)
    (fun d => (d <= u64_max)%N) depth_Dok_mk Dok_min depth_below_kids.
Check minsize_data_is_fixpoint_all_histories.
Check depth_data_is_fixpoint_all_histories.
Print Assumptions minsize_data_is_fixpoint_all_histories.
Print Assumptions depth_data_is_fixpoint_all_histories.
