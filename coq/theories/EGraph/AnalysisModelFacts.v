(* EGraph/AnalysisModelFacts.v — assembling: the union-find fact behind move_to, handle_pending on an
   OnlyAnalysis entry, and the final theorem modelA_data_is_fixpoint. *)
From SE Require Import EGraph.ModelA EGraph.AnalysisFix EGraph.AnalysisModelBase EGraph.AnalysisModelStab
  EGraph.AnalysisModelUF EGraph.AnalysisModelAbs EGraph.AnalysisModelTop EGraph.AnalysisModelFrames EGraph.ModelAMachine EGraph.AnalysisModelInst.
From Coq Require Import Lia Arith Bool.

Lemma nth_opt_some_lt' : forall {A} (l : list A) n x, nth_opt l n = Some x -> (n < List.length l)%nat.
Proof.
  intros A l. induction l as [|a t IH]; intros n x H; destruct n as [|n]; cbn [nth_opt List.length] in *; try discriminate.
  lia. apply IH in H. lia.
Qed.

(* the link step of move_to on find_id: discharges `link_spec` of AnalysisModelStab.v *)
Theorem link_spec_holds : forall Data, link_spec Data.
Proof.
  intros Data s2 s3 from to mp Hrf Hrt Hne H j r Hr.
  change (fidl (unionfind Data s2) from = Ok from) in Hrf.
  change (fidl (unionfind Data s2) to = Ok to) in Hrt.
  change (fidl (unionfind Data s2) j = Ok r) in Hr.
  change (fidl (unionfind Data s3) j = Ok (if r =? from then to else r)).
  assert (Rf := fidl_is_root _ _ _ Hrf). assert (Rt := fidl_is_root _ _ _ Hrt).
  destruct Rf as [e [He Hae]]. assert (Hlt := nth_opt_some_lt' _ _ _ He).
  unfold unionfind_set in H.
  destruct (Nat.eqb (List.length (unionfind Data s2)) (N.to_nat from)) eqn:E1.
  - apply Nat.eqb_eq in E1. lia.
  - destruct (Nat.ltb (N.to_nat from) (List.length (unionfind Data s2))) eqn:E2.
    + inversion H; subst s3. cbn [unionfind set_uf].
      apply (fidl_link (unionfind Data s2) from to mp). exists e. split; assumption. exact Rt. exact Hne. exact Hr.
    + apply Nat.ltb_ge in E2. lia.
Qed.

Section Final.
  Variable Data : Type.
  Variable data_eqb : Data -> Data -> bool.
  Variable make : (N -> res Data) -> node -> res Data.
  Variable merge : Data -> Data -> Data.
  Variable const_of : Data -> option N.
  Hypothesis merge_assoc : forall x y z, merge x (merge y z) = merge (merge x y) z.
  Hypothesis merge_comm : forall x y, merge x y = merge y x.
  Hypothesis merge_idem : forall x, merge x x = x.
  Hypothesis data_eqb_spec : forall x y, data_eqb x y = true <-> x = y.
  Variable L : Type.
  Variable lab : node -> L.
  Variable mk : L -> list Data -> Data.
  Hypothesis make_spec : forall get n, make get n = do ds <- mapr get (node_ids n); Ok (mk (lab n) ds).
  Hypothesis make_mono : forall l xs ys, Forall2 (AnalysisFix.le Data merge) xs ys -> AnalysisFix.le Data merge (mk l xs) (mk l ys).
  Variable Dok : Data -> Prop.
  Hypothesis Dok_mk : forall l ds, Dok (mk l ds).
  Hypothesis Dok_merge : forall a b, Dok a -> Dok b -> Dok (merge a b).
  Hypothesis make_below_kids : forall l ds d, In d ds -> Dok d -> merge d (mk l ds) = d.

  Notation eg := (egraph Data).

  (* ---- handle_pending on an OnlyAnalysis entry is update_analysis: stability is re-established ---- *)
  Theorem handle_pending_analysis_stab : forall sh i s s',
    stabx Data make merge (eq sh) s -> dok Data Dok s ->
    stored Data s sh i -> find_id Data s i = Ok i -> ucov_at Data (eq sh) s i ->
    handle_pending Data data_eqb make merge sh false s = Ok (tt, s') ->
    stab Data make merge s' /\ dok Data Dok s'.
  Proof.
    intros sh i s s' Hst Hdok Hsto Hroot Hcov H. unfold handle_pending in H.
    apply (mbind_ok Data) in H. destruct H as [i' [s0 [H0 H]]]. apply (reads_ok Data) in H0. destruct H0 as [-> Hi'].
    unfold AnalysisModelBase.stored in Hsto. rewrite Hsto in Hi'. inversion Hi'; subst i'.
    apply (mbind_ok Data) in H. destruct H as [[] [s1 [H1 H]]]. cbn [negb] in H. apply (ret_ok Data) in H. destruct H as [-> _].
    destruct (update_analysis_stab Data data_eqb make merge merge_assoc merge_comm merge_idem data_eqb_spec L lab mk make_spec
                Dok Dok_mk Dok_merge make_below_kids sh i s s1 Hst Hdok Hsto Hroot Hcov H1) as [A [B _]].
    split; assumption.
  Qed.

  (* ---- move_to (the union of two classes) keeps stability ---- *)
  Theorem move_to_stab : forall from to s s',
    stab Data make merge s -> dok Data Dok s -> na_nodup (hashcons Data s) ->
    find_id Data s (aid from) = Ok (aid from) -> find_id Data s (aid to) = Ok (aid to) -> aid from <> aid to ->
    ucov_at Data (fun _ => False) s (aid to) -> ucov_at Data (fun _ => False) s (aid from) ->
    move_to Data data_eqb merge from to s = Ok (tt, s') ->
    stab Data make merge s' /\ dok Data Dok s' /\ na_nodup (hashcons Data s').
  Proof.
    intros from to s s' Hst Hdok Hnd Hrf Hrt Hne Hcovt Hcovf H.
    destruct (move_to_split Data data_eqb merge from to s s' H) as [a_from [to_id [a_to [s1 [s2 [s3 [Haf [Hto [Hat [H1 [H2 [H3 Htail]]]]]]]]]]]].
    rewrite Hrt in Hto. inversion Hto; subst to_id. clear Hto.
    destruct (move_head_stab Data data_eqb make merge merge_assoc merge_comm merge_idem data_eqb_spec L lab mk make_spec
                Dok Dok_merge (link_spec_holds Data) s s1 s2 s3 (aid from) (aid to) a_from a_to _
                Hst Hdok Hrf Hrt Hne Haf Hat Hcovt H1 H2 H3) as [Hx3 [Hdok3 [HC3 [HP3 [_ HG3]]]]].
    assert (Hnd3 : na_nodup (hashcons Data s3)). { rewrite HC3. exact Hnd. }
    destruct (Htail Hnd3) as [Hdfr [Hsub [Hnd' Hup]]].
    assert (Hds := dfr_dsame Data s3 s' Hdfr).
    split; [|split; [|exact Hnd']].
    - intros sh i Hs Hn. destruct (Hsub sh i Hs Hn) as [Hs3 Hn3].
      assert (Hnk : ~ kid_in Data s sh (aid from)).
      { intro Hk. assert (Hs0 : stored Data s sh i). { unfold AnalysisModelBase.stored in *. rewrite <- HC3. exact Hs3. }
        destruct (adata_root_class Data s (aid from) a_from Hrf Haf) as [cf [Hcf _]].
        assert (Hin := Hcovf sh i cf Hs0 (HP3 sh Hn3) (fun x => x) Hk Hcf).
        assert (Hcf3 : get_class Data s3 (aid from) = Ok cf).
        { rewrite HG3. destruct (aid from =? aid to) eqn:E. apply N.eqb_eq in E. contradiction. exact Hcf. }
        apply (Hup cf Hcf3 sh Hin). exact Hn. }
      destruct (Hx3 sh i Hs3 Hn3 Hnk) as [d [v [Hd [Hv Hle]]]].
      exists d, v. split. rewrite Hds. exact Hd. split.
      rewrite (mk_in_dsame Data make L lab mk make_spec s3 s' sh Hds). exact Hv. exact Hle.
    - intros c Hc. destruct Hdfr as [_ Hcd].
      assert (Hin : In (c_data Data c) (map (c_data Data) (classes Data s'))). { apply in_map. exact Hc. }
      rewrite Hcd in Hin. apply in_map_iff in Hin. destruct Hin as [c3 [E Hc3]]. rewrite <- E. apply Hdok3. exact Hc3.
  Qed.

  (* ---- shrink_slots writes no analysis data: it keeps every predicate that is closed under quiet
          frames (stability is one) as soon as the recursive unions do ---- *)
  Theorem shrink_slots_keeps : forall (P : eg -> Prop),
    (forall s s', P s -> qfr Data s s' -> P s') ->
    forall ui, (forall l r s b s', ui l r s = Ok (b, s') -> P s -> P s') ->
    forall from cap s s', shrink_slots Data ui from cap s = Ok (tt, s') ->
    find_id Data s (aid from) = Ok (aid from) -> P s -> P s'.
  Proof.
    intros P HP ui Hui from cap s s' H Hroot.
    apply (shrink_slots_rel Data (fun a b => P a -> P b)) with (ui := ui) (from := from) (cap := cap).
    - intros a Ha. exact Ha.
    - intros a b c Hab Hbc Ha. apply Hbc. apply Hab. exact Ha.
    - intros a b Hq Ha. eapply HP. exact Ha. exact Hq.
    - exact Hui.
    - exact H.
    - change (fidl (unionfind Data s) (aid from) = Ok (aid from)) in Hroot. exact (fidl_is_root _ _ _ Hroot).
  Qed.

  Lemma stab_qfr : forall s s', stab Data make merge s -> qfr Data s s' -> stab Data make merge s'.
  Proof.
    intros s s' Hs Hq. apply (stab_fr Data make merge L lab mk make_spec s s' Hs). apply qfr_fr. exact Hq.
  Qed.

  Corollary shrink_slots_stab : forall ui,
    (forall l r s b s', ui l r s = Ok (b, s') -> stab Data make merge s -> stab Data make merge s') ->
    forall from cap s s', shrink_slots Data ui from cap s = Ok (tt, s') ->
    find_id Data s (aid from) = Ok (aid from) -> stab Data make merge s -> stab Data make merge s'.
  Proof. intros ui Hui. apply (shrink_slots_keeps (stab Data make merge) stab_qfr ui Hui). Qed.

  (* ---- the final theorem ---- *)
  (* J: any invariant of the loop heads that contains stability, justification and the two
     well-formedness facts the static theorem needs *)
  Variable J : eg -> Prop.
  Hypothesis J_stab : forall s, J s -> stab Data make merge s.
  Hypothesis J_upper : forall s, J s -> upper Data make merge s.
  Hypothesis J_WF : forall s, J s -> WF Data s.
  Hypothesis J_nodup : forall s, J s -> hc_nodup Data s.
  Hypothesis J_empty : J (empty_egraph Data).
  Hypothesis J_mq : forall s q, J s -> J (set_mq Data s q).
  Hypothesis J_hp : forall sh ty rest s s1, J s -> pending Data s = (sh, ty) :: rest ->
    handle_pending Data data_eqb make merge sh ty (set_pending Data s rest) = Ok (tt, s1) -> J s1.
  Hypothesis J_add_pre : forall t s a s1, J s -> pending Data s = [] -> add_pre0 Data make t s = Ok (a, s1) -> J s1.
  Hypothesis J_union_pre : forall l r s b s1, J s -> pending Data s = [] ->
    eg_union Data data_eqb merge (ret Data tt) l r s = Ok (b, s1) -> J s1.

  Theorem reach_stable : forall s, reach Data data_eqb make merge const_of s ->
    pending Data s = [] /\ stable_all Data make merge s.
  Proof.
    intros s Hr. destruct (reach_Jp Data data_eqb make merge const_of J J_mq J_hp J_add_pre J_union_pre J_empty s Hr) as [HJ Hp].
    split. exact Hp. apply stab_pending_nil. apply J_stab. exact HJ. exact Hp.
  Qed.

  Theorem modelA_data_is_fixpoint :
    forall s, reach Data data_eqb make merge const_of s ->
    forall c d, In c (ids Data s) -> analysis_data Data s c = Ok d ->
    forall sh0 rest, map fst (filter (fun e => snd e =? c) (hashcons Data s)) = sh0 :: rest ->
    exists v0 vs, make_in Data make s sh0 = Ok v0 /\ mapr (make_in Data make s) rest = Ok vs /\
                  d = fold_left merge vs v0.
  Proof.
    intros s Hr. destruct (reach_Jp Data data_eqb make merge const_of J J_mq J_hp J_add_pre J_union_pre J_empty s Hr) as [HJ Hp].
    apply (modelA_fixpoint_concrete Data make merge merge_assoc merge_comm merge_idem L lab mk make_spec make_mono s).
    - apply J_WF. exact HJ.
    - apply J_nodup. exact HJ.
    - apply stab_pending_nil. apply J_stab. exact HJ. exact Hp.
    - apply J_upper. exact HJ.
  Qed.

  (* the same through the abstraction of AnalysisFix.v *)
  Theorem modelA_data_is_fixpoint_abs : forall (dflt : Data),
    forall s, reach Data data_eqb make merge const_of s ->
    forall (c : nat) x rest, In (N.of_nat c) (ids Data s) -> abs_nodes Data L lab s c = x :: rest ->
    abs_st Data dflt s c = joins Data merge (val Data L mk (abs_st Data dflt s) x) (map (val Data L mk (abs_st Data dflt s)) rest).
  Proof.
    intros dflt s Hr. destruct (reach_Jp Data data_eqb make merge const_of J J_mq J_hp J_add_pre J_union_pre J_empty s Hr) as [HJ Hp].
    apply (modelA_fixpoint_static Data make merge merge_assoc merge_comm merge_idem L lab mk make_spec make_mono dflt s).
    - apply J_WF. exact HJ.
    - apply J_nodup. exact HJ.
    - apply stab_pending_nil. apply J_stab. exact HJ. exact Hp.
    - apply J_upper. exact HJ.
  Qed.
End Final.

Print Assumptions link_spec_holds.
Print Assumptions handle_pending_analysis_stab.
Print Assumptions move_to_stab.
Print Assumptions shrink_slots_stab.
Print Assumptions modelA_data_is_fixpoint.
Print Assumptions modelA_data_is_fixpoint_abs.

(* ------------------------------------------------------------------ *)
(* the two instances of the project: all hypotheses about the analysis are discharged
   (AnalysisModelInst.v); what remains are the J-hypotheses (see the header of the report) *)
Definition minsize_data_is_fixpoint :=
  modelA_data_is_fixpoint N N.eqb make_minsize N.min (fun _ => None) Nmin_assoc' Nmin_comm' Nmin_idem'
    unit (fun _ => tt) mk_minsize minsize_make_spec minsize_mono.
Definition depth_data_is_fixpoint :=
  modelA_data_is_fixpoint N N.eqb make_depth N.min (fun _ => None) Nmin_assoc' Nmin_comm' Nmin_idem'
    unit (fun _ => tt) mk_depth depth_make_spec depth_mono.
Definition minsize_update_analysis_stab :=
  update_analysis_stab N N.eqb make_minsize N.min Nmin_assoc' Nmin_comm' Nmin_idem' Neqb_spec'
    unit (fun _ => tt) mk_minsize minsize_make_spec (fun d => d <= u64_max) minsize_Dok_mk Dok_min minsize_below_kids.
Definition minsize_move_to_stab :=
  move_to_stab N N.eqb make_minsize N.min Nmin_assoc' Nmin_comm' Nmin_idem' Neqb_spec'
    unit (fun _ => tt) mk_minsize minsize_make_spec (fun d => d <= u64_max) Dok_min.
Definition depth_update_analysis_stab :=
  update_analysis_stab N N.eqb make_depth N.min Nmin_assoc' Nmin_comm' Nmin_idem' Neqb_spec'
    unit (fun _ => tt) mk_depth depth_make_spec (fun d => d <= u64_max) depth_Dok_mk Dok_min depth_below_kids.
Definition depth_move_to_stab :=
  move_to_stab N N.eqb make_depth N.min Nmin_assoc' Nmin_comm' Nmin_idem' Neqb_spec'
    unit (fun _ => tt) mk_depth depth_make_spec (fun d => d <= u64_max) Dok_min.
Check minsize_data_is_fixpoint.
Check minsize_update_analysis_stab.
Check minsize_move_to_stab.
Print Assumptions minsize_data_is_fixpoint.
Print Assumptions depth_data_is_fixpoint.
Print Assumptions minsize_update_analysis_stab.
Print Assumptions minsize_move_to_stab.
Print Assumptions depth_update_analysis_stab.
Print Assumptions depth_move_to_stab.
