(* EGraph/AnalysisModelFold.v — C14 for CONSTANT FOLDING (modify_kind = 1): statement of the all-histories theorem, what
   is proved of it, and the one remaining hypothesis.

   HISTORIES.  rho : node -> option N is a valuation of the leaves (variables, nullary symbols); `sval rho t` is the value
   of an arithmetic term under rho (Num k -> Some k; Add/Mul -> wrapping u32 arithmetic on known values, else None).
     reachF rho s hts    s is reachable from the empty e-graph by `add_expr0 t` (constant-folding analysis WITH its modify
                         hook) of terms with `term_static t` and `arith t` (Num / Add / Mul / leaves), and by
                         `eg_union0 l r` of handles returned earlier whose TERMS HAVE THE SAME VALUE under rho
                         (hts = the handles returned so far, each with its term).
   The soundness premise has to be SEMANTIC (a valuation fixed for the whole history): the local premise "the data of the
   two classes are not two different constants at the time of the union" is NOT enough — AnalysisModelFoldEval.v,
   local_premise_insufficient: a history all of whose unions satisfy the local premise and whose final state has a class
   whose datum is not the fold of merge over make of its nodes.

   PROVED (no hypothesis):
     reachF_quiet        reachF rho s hts -> pending s = [] /\ modify_queue s = []
                         (through AnalysisModelFoldTop.reach1_Jq: the control structure rebuild -> modify -> add/union ->
                          rebuild, every step of the hook being an operation step)
     cf_fixpoint         (AnalysisModelFoldInst.v) flat stability of every stored node + justification  ->  the fixpoint equation
   REMAINING HYPOTHESIS (Section variable H_inv), validated at every operation AND at every head of the pending loop
   (including the nested rebuilds of the hook) of the histories of AnalysisModelFoldEval.v:
     H_inv : forall s hts, reachF rho s hts -> cf_stab s /\ cf_just s
       cf_stab   make of every stored node that is not pending is None or the datum of its class   (flat order)
       cf_just   a live class with datum Some k stores a node whose make is Some k
   The invariant machinery of AnalysisModelReachA.v / AnalysisModelRound.v (hp_round_local, union_round, add_round) cannot be
   instantiated: its Section hypotheses merge_comm, make_spec and lab_nvar are FALSE for constant folding
   (AnalysisModelFoldInst.v: merge_or_not_comm, cf_make_spec_fails; Num k and Num k' have the same nvar), and its notion of
   stability `merge d v = d` is not the order for a left-biased merge (below_not_order). *)
From SE Require Import EGraph.ModelA EGraph.ModelAMachine EGraph.AnalysisFix EGraph.AnalysisModelChk EGraph.AnalysisModelBase
  EGraph.AnalysisModelTop EGraph.AnalysisModelFoldInst EGraph.AnalysisModelFoldTop.
From SE Require EGraph.OpsPreFacts.
From Coq Require Import Lia Arith Bool List NArith.
Import ListNotations.

Notation cf_add_e := (add_expr0 D optN_eqb make_constfold merge_or 1%nat (fun d : D => d)).
Notation cf_union_e := (eg_union0 D optN_eqb make_constfold merge_or 1%nat (fun d : D => d)).

(* the arithmetic fragment *)
Inductive arith : rterm -> Prop :=
| ar_num : forall k, arith (RT (num_node k) [])
| ar_bin : forall v x y a b, (v = 13 \/ v = 14)%nat -> arith a -> arith b ->
    arith (RT {| nvar := v; nargs := [AApp x; AApp y] |} [a; b])
| ar_leaf : forall n, app_occ n = [] -> nvar n <> 13%nat -> nvar n <> 14%nat -> nvar n <> 17%nat -> arith (RT n []).

Definition lift2 (f : N -> N -> N) (x y : option N) : option N :=
  match x, y with Some a, Some b => Some (f a b mod u32_mod)%N | _, _ => None end.

Section Fold.
  Variable rho : node -> option N.

  Fixpoint sval (t : rterm) : option N :=
    match t with
    | RT n ch =>
        match ch with
        | [] => if Nat.eqb (nvar n) 17 then match nargs n with [APay (PVu32 k)] => Some k | _ => None end else rho n
        | [a; b] => if Nat.eqb (nvar n) 13 then lift2 N.add (sval a) (sval b)
                    else if Nat.eqb (nvar n) 14 then lift2 N.mul (sval a) (sval b) else None
        | _ => None
        end
    end.

  Notation eg := (egraph D).

  Inductive reachF : eg -> list (appid * rterm) -> Prop :=
  | rF_empty : reachF (empty_egraph D) []
  | rF_add : forall s hts t a s', reachF s hts -> OpsPreFacts.term_static t -> arith t ->
      cf_add_e t s = Ok (a, s') -> reachF s' ((a, t) :: hts)
  | rF_union : forall s hts l tl r tr b s', reachF s hts -> In (l, tl) hts -> In (r, tr) hts ->
      (exists k, sval tl = Some k /\ sval tr = Some k) \/ (sval tl = None /\ sval tr = None) ->
      cf_union_e l r s = Ok (b, s') -> reachF s' hts.

  (* ---------------- proved: every reachable state is quiet ---------------- *)
  Lemma reachF_reach1 : forall s hts, reachF s hts ->
    reach1 D optN_eqb make_constfold merge_or (fun d : D => d) (fun _ _ _ => True) s.
  Proof.
    intros s hts Hr. induction Hr as [|s hts t a s' _ IH _ _ H|s hts l tl r tr b s' _ IH _ _ _ H].
    - apply reach1_empty.
    - eapply reach1_add. exact IH. exact H.
    - eapply reach1_union. exact IH. exact I. exact H.
  Qed.

  Theorem reachF_quiet : forall s hts, reachF s hts -> pending D s = [] /\ modify_queue D s = [].
  Proof.
    intros s hts Hr.
    destruct (reach1_Jq D optN_eqb make_constfold merge_or (fun d : D => d) (fun _ => True) (fun _ _ _ => True)
                (fun _ _ _ => I) (fun _ _ _ _ _ _ _ _ => I) (fun _ _ _ _ _ _ _ => I) (fun _ _ _ _ _ _ _ _ _ => I)
                (fun _ _ _ _ _ _ _ _ _ _ _ _ _ _ _ _ => I) I s (reachF_reach1 s hts Hr)) as [_ [Hp Hq]].
    split; assumption.
  Qed.

  (* ---------------- the invariant between operations ---------------- *)
  Definition cf_stab (s : eg) : Prop :=
    forall sh i, In (sh, i) (hashcons D s) -> na_get (pending D s) sh = None ->
      exists d v, cf_adata s i = Ok d /\ cf_mk_in s sh = Ok v /\ fle v d.

  Lemma cf_stab_quiet : forall s, cf_stab s -> pending D s = [] -> cf_stable_in s.
  Proof. intros s Hs Hp sh i Hi. apply Hs. exact Hi. rewrite Hp. reflexivity. Qed.

  Hypothesis H_inv : forall s hts, reachF s hts -> cf_stab s /\ cf_just s.

  Theorem constfold_data_is_fixpoint_all_histories :
    forall s hts, reachF s hts ->
    forall c d, In c (ids D s) -> analysis_data D s c = Ok d ->
    forall sh0 rest, map fst (filter (fun e => N.eqb (snd e) c) (hashcons D s)) = sh0 :: rest ->
    exists v0 vs, make_in D make_constfold s sh0 = Ok v0 /\ mapr (make_in D make_constfold s) rest = Ok vs /\
                  d = fold_left merge_or vs v0.
  Proof.
    intros s hts Hr. destruct (H_inv s hts Hr) as [Hs Hj]. destruct (reachF_quiet s hts Hr) as [Hp _].
    apply cf_fixpoint. apply cf_stab_quiet; assumption. exact Hj.
  Qed.
End Fold.

Check constfold_data_is_fixpoint_all_histories.
Print Assumptions reachF_quiet.
Print Assumptions constfold_data_is_fixpoint_all_histories.
