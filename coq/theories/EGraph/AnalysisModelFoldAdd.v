(* EGraph/AnalysisModelFoldAdd.v — FI through add_internal's miss branch (constant folding). *)
From SE Require Import EGraph.ModelA EGraph.ModelAMachine EGraph.AnalysisFix EGraph.AnalysisModelChk EGraph.AnalysisModelBase EGraph.AnalysisModelStab EGraph.AnalysisModelUF EGraph.AnalysisModelAbs EGraph.AnalysisModelFrames EGraph.AnalysisModelTop EGraph.AnalysisModelFacts EGraph.AnalysisModelInv EGraph.AnalysisModelUpper EGraph.AnalysisModelQuiet EGraph.AnalysisModelIds EGraph.AnalysisModelStr EGraph.AnalysisModelMove EGraph.AnalysisModelFoldInst EGraph.AnalysisModelFoldTop EGraph.AnalysisModelFold EGraph.AnalysisModelFoldSem EGraph.AnalysisModelFoldMove EGraph.AnalysisModelFoldUi EGraph.AnalysisModelFoldSkel.
From Coq Require Import Lia Arith Bool List NArith.
Import ListNotations.

Section Add.
  Variable rho : node -> option N.
  Hypothesis rho_sk : forall n m, nvar n = nvar m -> skel n = skel m -> rho n = rho m.

  Notation fid := (find_id D).
  Notation stored := (AnalysisModelBase.stored D).

  (* ---- remaining structural hypotheses (independent of the algebra) ---- *)
  Lemma H_refresh_ids : forall n c n' c', refresh_private n c = (Ok n', c') -> nvar n' = nvar n /\ node_ids n' = node_ids n.
  Proof.
    intros n c n' c' H. unfold refresh_private, refresh_by in H.
    destruct (bijection_from_fresh_to _ c) as [bf c1]. inversion H as [[H1 H2]].
    eapply trav_res_ids; eauto.
  Qed.

  Lemma H_fresh_ids : forall m n c n' c', apply_slotmap_fresh false m n c = (n', c') -> nvar n' = nvar n /\ node_ids n' = node_ids n.
  Proof.
    intros m n c n' c' H. unfold apply_slotmap_fresh in H.
    match type of H with (let '(_, _) := trav ?F n ?st in _) = _ => pose proof (trav_ids F n st) as T; destruct (trav F n st) as [n1 [x c1]] end.
    cbn [fst] in T. inversion H; subst. exact T.
  Qed.

  Lemma synify_app_id_aid : forall a (s : egraph D) x s', synify_app_id D a s = Ok (x, s') -> aid x = aid a.
  Proof.
    intros a s x s' H. rewrite synify_app_id_eq in H.
    apply (mbind_ok D) in H. destruct H as [ss [s1 [H1 H2]]].
    apply (mbind_ok D) in H2. destruct H2 as [m [s2 [H2 H3]]]. unfold ret in H3. inversion H3. reflexivity.
  Qed.

  Lemma mapM_synify_aid : forall l (s : egraph D) x s', mapM D (synify_app_id D) l s = Ok (x, s') ->
    map aid x = map aid l /\ List.length x = List.length l.
  Proof.
    induction l as [|a t IH]; intros s x s' H; cbn [mapM] in H.
    - unfold ret in H. inversion H. split; reflexivity.
    - apply (mbind_ok D) in H. destruct H as [y [s1 [H1 H2]]].
      apply (mbind_ok D) in H2. destruct H2 as [r [s2 [H2 H3]]]. unfold ret in H3. inversion H3; subst.
      cbn [map List.length]. rewrite (synify_app_id_aid _ _ _ _ H1). destruct (IH _ _ _ H2) as [A B]. rewrite A, B. split; reflexivity.
  Qed.

  Lemma H_synify_ids : forall n (s : egraph D) n' s', synify_enode D n s = Ok (n', s') -> nvar n' = nvar n /\ node_ids n' = node_ids n.
  Proof.
    intros n s n' s' H. unfold synify_enode in H. apply (mbind_ok D) in H. destruct H as [l [s1 [H1 H2]]].
    unfold ret in H2. inversion H2; subst. destruct (mapM_synify_aid _ _ _ _ H1) as [A B].
    split. apply nvar_set_apps. rewrite node_ids_set_apps by exact B. unfold node_ids. exact A.
  Qed.

  Definition kids_data (s : egraph D) : Prop :=
    forall x j k, stored s x j -> In k (node_ids x) -> exists d, cf_adata s k = Ok d.

  Lemma H_fid_lt : forall (s : egraph D) j r, fid s j = Ok r -> (N.to_nat j < List.length (unionfind D s))%nat.
  Proof.
    intros s j r H. change (fidl (unionfind D s) j = Ok r) in H.
    destruct (stepsl_of_fidl _ _ _ H) as [l Hs]. apply stepsl_dom in Hs. rewrite par_eq in Hs.
    destruct (nth_opt (unionfind D s) (N.to_nat j)) as [e|] eqn:E. eapply nth_opt_lt. exact E. exfalso. apply Hs. reflexivity.
  Qed.

  Lemma stepsl_snoc_inv : forall uf e j r l, aid e = N.of_nat (List.length uf) ->
    stepsl (par (uf ++ [e])) j r l -> r = N.of_nat (List.length uf) \/ stepsl (par uf) j r l.
  Proof.
    intros uf e j r l He Hs. induction Hs as [j Hj|j q r l Hj Hq Hs IH].
    - rewrite par_eq in Hj. destruct (nth_opt (uf ++ [e]) (N.to_nat j)) as [e0|] eqn:E0. 2: discriminate.
      apply nth_opt_snoc_inv in E0. destruct E0 as [E0|[E0 _]].
      + right. apply sl_root. rewrite par_eq. rewrite E0. exact Hj.
      + left. rewrite <- E0. rewrite N2Nat.id. reflexivity.
    - destruct IH as [IH|IH]. left. exact IH.
      rewrite par_eq in Hj. destruct (nth_opt (uf ++ [e]) (N.to_nat j)) as [e0|] eqn:E0. 2: discriminate.
      apply nth_opt_snoc_inv in E0. destruct E0 as [E0|[E0 E1]].
      + right. eapply sl_next. rewrite par_eq. rewrite E0. exact Hj. exact Hq. exact IH.
      + exfalso. subst e0. apply Hq. inversion Hj as [Hj']. rewrite He. rewrite <- E0. rewrite N2Nat.id. reflexivity.
  Qed.

  Lemma H_alloc_fid : forall sl syn (s : egraph D) i s', S0 D s -> alloc_eclass D make_constfold sl syn s = Ok (i, s') ->
    forall j r, fid s' j = Ok r -> r = i \/ fid s j = Ok r.
  Proof.
    intros sl syn s i s' HS H j r Hr.
    destruct (alloc_Sx D make_constfold (fun _ => False) sl syn s i s' HS H) as [_ [Ei [_ [_ [_ [_ [_ [e [Hub Hae]]]]]]]]].
    change (fidl (unionfind D s') j = Ok r) in Hr. rewrite Hub in Hr.
    destruct (stepsl_of_fidl _ _ _ Hr) as [l Hs].
    destruct (stepsl_snoc_inv (unionfind D s) e j r l) as [E|E]. rewrite Hae. exact Ei. exact Hs.
    left. rewrite Ei. exact E. right. change (fidl (unionfind D s) j = Ok r). eapply fidl_of_stepsl. exact E.
  Qed.

  Notation npend := (AnalysisModelBase.npend D).

  Lemma nth_opt_some_of_lt_cf : forall {A} (l : list A) n, (n < List.length l)%nat -> exists x, nth_opt l n = Some x.
  Proof.
    intros A l. induction l as [|a t IH]; intros n Hn; cbn [List.length] in Hn. lia.
    destruct n as [|n]. exists a. reflexivity. cbn [nth_opt]. apply IH. lia.
  Qed.

  Lemma F2_refl_cf : forall {A} (R : A -> A -> Prop) l, (forall x, R x x) -> Forall2 R l l.
  Proof. intros A R l H. induction l as [|x t IH]; constructor. apply H. exact IH. Qed.

  (* the algebraic/semantic conclusion from the structural decomposition of the run *)
  Lemma H_fold_new : forall val (sa se : egraph D) i sh0 synf d t0,
    FI rho val sa -> kids_data sa -> S0 D se ->
    i = N.of_nat (List.length (unionfind D sa)) ->
    (forall j r, fid sa j = Ok r -> fid se j = Ok r /\ cf_adata se j = cf_adata sa j) ->
    (forall j r, fid se j = Ok r -> r = i \/ fid sa j = Ok r) ->
    fid se i = Ok i -> cf_adata se i = Ok d -> cf_mk_in sa synf = Ok d ->
    hashcons D se = na_set (hashcons D sa) sh0 i -> na_get (hashcons D sa) sh0 = None ->
    pending D se = na_set (pending D sa) sh0 true ->
    nvar sh0 = nvar t0 -> skel sh0 = skel t0 -> node_ids sh0 = node_ids t0 ->
    nvar synf = nvar t0 -> skel synf = skel t0 -> node_ids synf = node_ids t0 ->
    (forall k, In k (node_ids t0) -> exists r, fid sa k = Ok r) ->
    exists val',
      FI rho val' se /\ kids_data se /\
      (forall j r, fid sa j = Ok r -> val' j = val j) /\
      val' i = node_val rho val t0.
  Proof.
    intros val sa se i sh0 synf d t0 HI Hkd HSe Ei Hold Hinv Hri Hai Hmk Hhe Hno Hpe Nv Kv Iv Ns Ks Is Hkids.
    destruct HI as [Hsem [Hst [Hj HSa]]].
    assert (Hlen := sx_len D _ sa HSa).
    assert (Hne : forall k, (N.to_nat k < List.length (unionfind D sa))%nat -> k <> i).
    { intros k Hk E. subst k. rewrite Ei in Hk. rewrite Nat2N.id in Hk. lia. }
    assert (Halive_ne : forall j r, fid sa j = Ok r -> j <> i).
    { intros j r Hr. apply Hne. eapply H_fid_lt. exact Hr. }
    assert (Hkid_old : forall x c k, stored sa x c -> In k (node_ids x) -> exists r, fid sa k = Ok r).
    { intros x c k Hx Hk. destruct (Hkd x c k Hx Hk) as [d0 Hd0]. eapply (adata_fid_ok D). exact Hd0. }
    set (nv := node_val rho val t0).
    set (val' := fun j => match fid se j with Ok r => if N.eqb r i then nv else val j | Err _ => val j end).
    assert (Hv_new : forall j, fid se j = Ok i -> val' j = nv).
    { intros j Hj'. unfold val'. rewrite Hj'. rewrite N.eqb_refl. reflexivity. }
    assert (Hv_old : forall j r, fid sa j = Ok r -> val' j = val j).
    { intros j r Hr. unfold val'. rewrite (proj1 (Hold j r Hr)). destruct (N.eqb_spec r i) as [E|E]. 2: reflexivity.
      exfalso. apply (Halive_ne r r). eapply (fid_root_of D). exact Hr. exact E. }
    assert (Hv_i : val' i = nv) by (apply Hv_new; exact Hri).
    assert (Hnv : forall x, (forall k, In k (node_ids x) -> exists r, fid sa k = Ok r) -> node_val rho val' x = node_val rho val x).
    { intros x Hx. apply node_val_ext. intros k Hk. destruct (Hx k Hk) as [r Hr]. eapply Hv_old. exact Hr. }
    assert (Hsk : forall x, nvar x = nvar t0 -> skel x = skel t0 -> node_ids x = node_ids t0 -> node_val rho val x = node_val rho val t0).
    { intros x A B C. apply node_val_skel. exact A. exact B. intros _. apply rho_sk; assumption. rewrite C. apply F2_refl_cf. intro x0. reflexivity. }
    assert (Hnv0 : node_val rho val' sh0 = val' i).
    { rewrite Hv_i. rewrite Hnv. apply Hsk; assumption. rewrite Iv. exact Hkids. }
    assert (Hadk : forall k, In k (node_ids t0) -> cf_adata se k = cf_adata sa k).
    { intros k Hk. destruct (Hkids k Hk) as [r Hr]. apply (Hold k r Hr). }
    assert (Hsto : forall x c, stored se x c -> (x = sh0 /\ c = i) \/ (x <> sh0 /\ stored sa x c)).
    { intros x c Hx. unfold AnalysisModelBase.stored in *. rewrite Hhe in Hx. destruct (node_eq_dec' x sh0) as [->|Hn].
      rewrite na_get_set_same in Hx. inversion Hx. left. split; reflexivity.
      rewrite na_get_set_other in Hx by exact Hn. right. split; assumption. }
    assert (Hsto' : forall x c, stored sa x c -> stored se x c).
    { intros x c Hx. unfold AnalysisModelBase.stored in *. rewrite Hhe. rewrite na_get_set_other. exact Hx.
      intro E. subst x. rewrite Hno in Hx. discriminate. }
    assert (Hfle : forall k, fle_res (cf_adata sa k) (cf_adata se k)).
    { intros k v Hv. destruct (adata_fid_ok D sa k v Hv) as [r Hr]. exists v. split. rewrite (proj2 (Hold k r Hr)). exact Hv. right. reflexivity. }
    assert (Halive_data : forall k r, fid sa k = Ok r -> exists d0, cf_adata sa k = Ok d0).
    { intros k r Hr. assert (Hrr := fid_root_of D sa k r Hr). apply H_fid_lt in Hrr. rewrite Hlen in Hrr.
      destruct (nth_opt_some_of_lt_cf (classes D sa) _ Hrr) as [c0 Hc0]. exists (c_data D c0).
      unfold analysis_data. rewrite Hr. cbn [bind]. unfold get_class. rewrite Hc0. reflexivity. }
    exists val'. split; [|split; [|split]]. 4: exact Hv_i. 3: exact Hv_old.
    2: { intros x c k Hx Hk. destruct (Hsto x c Hx) as [[-> ->]|[Hn Hx']].
         - rewrite Iv in Hk. destruct (Hkids k Hk) as [r Hr]. destruct (Halive_data k r Hr) as [d0 Hd0]. exists d0. rewrite (Hadk k Hk). exact Hd0.
         - destruct (Hkd x c k Hx' Hk) as [d0 Hd0]. destruct (Hfle k d0 Hd0) as [d1 [Hd1 _]]. exists d1. exact Hd1. }
    split; [|split; [|split]]. 4: exact HSe.
    - constructor.
      + intros j r Hr. destruct (Hinv j r Hr) as [->|Hr']. rewrite (Hv_new j Hr). symmetry. exact Hv_i.
        rewrite (Hv_old j r Hr'). rewrite (Hv_old r r (fid_root_of D sa j r Hr')).
        apply (sv_find rho val sa Hsem j r Hr').
      + intros x c Hx. destruct (Hsto x c Hx) as [[-> ->]|[Hn Hx']]. exact Hnv0. rewrite Hnv.
        rewrite (Hv_old c c (sx_hl D _ sa HSa x c Hx')).
        apply (sv_node rho val sa Hsem x c Hx').
        intros k Hk. eapply Hkid_old. exact Hx'. exact Hk.
      + intros j d0 Hd0. destruct (adata_fid_ok D se j d0 Hd0) as [r Hr]. destruct (Hinv j r Hr) as [->|Hr'].
        * assert (Ed : d0 = d).
          { unfold analysis_data in Hd0, Hai. rewrite Hr in Hd0. rewrite Hri in Hai. cbn [bind] in Hd0, Hai. rewrite Hai in Hd0. inversion Hd0. reflexivity. }
          subst d0. rewrite (Hv_new j Hr). unfold nv. rewrite <- (Hsk synf Ns Ks Is).
          eapply make_le_node_val. 2: exact Hmk. intros k dk _ Hdk. apply (sv_data rho val sa Hsem k dk Hdk).
        * rewrite (Hv_old j r Hr'). apply (sv_data rho val sa Hsem). rewrite <- (proj2 (Hold j r Hr')). exact Hd0.
    - intros x c Hx Hn _. destruct (Hsto x c Hx) as [[-> ->]|[Hne' Hx']].
      + exfalso. unfold AnalysisModelBase.npend in Hn. rewrite Hpe, na_get_set_same in Hn. discriminate.
      + assert (Hn' : npend sa x).
        { unfold AnalysisModelBase.npend in *. rewrite Hpe in Hn. rewrite na_get_set_other in Hn by exact Hne'. exact Hn. }
        destruct (Hst x c Hx' Hn' (fun F => F)) as [d0 [v [A1 [A2 A3]]]]. exists d0, v.
        split. rewrite (proj2 (Hold c c (sx_hl D _ sa HSa x c Hx'))). exact A1. split. 2: exact A3.
        rewrite <- A2. apply cf_mk_in_ext. intros k Hk.
        destruct (Hkid_old x c k Hx' Hk) as [r Hr]. apply (Hold k r Hr).
    - intros c k Hc Hd. destruct (Hinv c c Hc) as [->|Hc'].
      + exists sh0. split. unfold AnalysisModelBase.stored. rewrite Hhe. apply na_get_set_same.
        rewrite Hai in Hd. inversion Hd as [Hd']. subst d. unfold make_in in *.
        rewrite (cf_make_ext (cf_adata se) (cf_adata sa) sh0).
        2: { intros k0 Hk0. apply Hadk. rewrite <- Iv. exact Hk0. }
        rewrite (cf_make_skel (cf_adata sa) sh0 synf). exact Hmk. congruence. congruence.
        rewrite Iv, Is. apply F2_refl_cf. intro x0. reflexivity.
      + rewrite (proj2 (Hold c c Hc')) in Hd. destruct (Hj c k Hc' Hd) as [sh [Hs Hm]]. exists sh. split. apply Hsto'. exact Hs.
        unfold make_in in *. eapply cf_make_some_mono. 2: exact Hm. intros k0 _. apply Hfle.
  Qed.

  Lemma kids_data_gfr : forall s s', kids_data s -> gfr D s s' -> kids_data s'.
  Proof.
    intros s s' Hk G. assert (Q := gfr_qfr D s s' G). assert (F := qfr_fr D s s' Q). destruct F as [Hd _].
    assert (Hh : hashcons D s' = hashcons D s) by (apply G).
    intros x j k Hx Hin. unfold AnalysisModelBase.stored in Hx. rewrite Hh in Hx. destruct (Hk x j k Hx Hin) as [d Hd0].
    exists d. rewrite (Hd k). exact Hd0.
  Qed.

  Tactic Notation "bnd" hyp(H) ident(x) ident(s1) ident(H1) := apply (mbind_ok D) in H; destruct H as [x [s1 [H1 H]]].

  Lemma gfr_dfr_cf : forall s s' : egraph D, gfr D s s' -> dfr D s s'.
  Proof. intros s s' G. apply (gfr_qfr D) in G. apply G. Qed.

  Lemma root_lt_cf : forall (s : egraph D) r, fid s r = Ok r -> (N.to_nat r < List.length (unionfind D s))%nat.
  Proof. intros s r H. eapply H_fid_lt. exact H. Qed.


  Theorem FI_add_round : forall val t s a s',
    FI rho val s -> kids_data s -> add_pre0 D make_constfold t s = Ok (a, s') -> keeps_hc D s s' ->
    (forall k, In k (node_ids (fst t)) -> exists r, find_id D s k = Ok r) ->
    exists val',
      FI rho val' s' /\ kids_data s' /\
      (forall j r, find_id D s j = Ok r -> val' j = val j /\ exists r', find_id D s' j = Ok r') /\
      val' (aid a) = node_val rho val (fst t) /\
      (exists r, find_id D s' (aid a) = Ok r).
  Proof.
    intros val t s a s' HI Hkd H Hkeep Hkids. unfold add_pre0 in H.
    bnd H en1 sa1 H1.
    assert (G1 : gfr D s sa1 /\ nvar en1 = nvar (fst t) /\ skel en1 = skel (fst t) /\ node_ids en1 = node_ids (fst t)).
    { destruct (refresh_private (fst t) (ModelA.ctr D s)) as [r c] eqn:Er. destruct r as [n|e]; inversion H1; subst.
      split. apply (eq_fields_gfr D); reflexivity.
      destruct (H_refresh_ids _ _ _ _ Er) as [A B]. split. exact A. split. 2: exact B. eapply refresh_private_skel. exact Er. }
    destruct G1 as [G1 [N1 [K1 I1]]].
    bnd H en2 sa2 H2. apply (lift_ok D) in H2. destruct H2 as [-> H2].
    destruct (apply_slotmap_ids _ _ _ H2) as [N2 I2]. assert (K2 := apply_slotmap_skel _ _ _ H2).
    bnd H en3 sa3 H3. assert (G3 := synify_enode_gfr D _ _ _ _ H3).
    destruct (H_synify_ids _ _ _ _ H3) as [N3 I3]. assert (K3 := synify_enode_skel D _ _ _ _ H3).
    unfold mk_singleton_class in H.
    bnd H f2o sa4 H4. assert (G4 := with_ctr_gfr D _ _ _ _ H4).
    bnd H synf sa H5. assert (G5 := with_ctr_gfr D _ _ _ _ H5).
    assert (Hsy : nvar synf = nvar en3 /\ skel synf = skel en3 /\ node_ids synf = node_ids en3).
    { unfold with_ctr in H5.
      destruct (apply_slotmap_fresh false (inverse_nocheck f2o) en3 (ModelA.ctr D sa4)) as [q c] eqn:Eq. inversion H5; subst q sa.
      destruct (H_fresh_ids _ _ _ _ _ Eq) as [A B]. split. exact A. split. 2: exact B. eapply apply_slotmap_fresh_skel. exact Eq. }
    destruct Hsy as [N5 [K5 I5]].
    assert (G : gfr D s sa).
    { eapply (gfr_trans D). exact G1. eapply (gfr_trans D). exact G3. eapply (gfr_trans D). exact G4. exact G5. }
    assert (HIa := FI_gfr rho val s sa HI G). assert (HSa : S0 D sa) by apply HIa.
    assert (Hfa : forall j, fid sa j = fid s j) by (apply gfr_fid; exact G).
    assert (Hha : hashcons D sa = hashcons D s) by (apply G).
    bnd H i sb H6.
    destruct (alloc_Sx D make_constfold (fun _ => False) _ synf sa i sb HSa H6) as [HSb [Ei [Hri [Hfb [Hhb [Hpb [[cn [Hcb [Hmk [Hcn Hcu]]]] [e [Hub Haide]]]]]]]]].
    assert (Hfbinv := H_alloc_fid _ _ _ _ _ HSa H6).
    assert (Hkda := kids_data_gfr s sa Hkd G).
    bnd H t0 sb' H7. apply (lift_ok D) in H7. destruct H7 as [-> Hws]. destruct t0 as [sh0 bij].
    bnd H u8 sc H8. destruct u8.
    bnd H u9 sd H9. destruct u9. cbn [fst] in H9.
    bnd H u10 se H10. destruct u10.
    bnd H u11 sf H11. apply (ret_ok D) in H11. destruct H11 as [-> _]. assert (Ea : aid a = i) by (unfold ret in H; inversion H; reflexivity).
    assert (Es : s' = se) by (unfold ret in H; inversion H; reflexivity). subst s'. clear H.
    assert (G10 := mq_push_gfr D _ _ _ _ H10).
    assert (G9 := pending_insert_true_gfr D _ _ _ _ H9).
    destruct (raw_add_to_class_fr D i sh0 bij i sb sc H8) as [D8 [Hp8 [Hh8 _]]]. rewrite Hhb. apply (sx_nd D _ sa HSa).
    assert (Hhe : hashcons D se = na_set (hashcons D sa) sh0 i).
    { replace (hashcons D se) with (hashcons D sd) by (symmetry; apply G10). replace (hashcons D sd) with (hashcons D sc) by (symmetry; apply G9). rewrite Hh8, Hhb. reflexivity. }
    assert (Hno : na_get (hashcons D sa) sh0 = None).
    { destruct (na_get (hashcons D sa) sh0) as [j|] eqn:Ej. 2: reflexivity. exfalso.
      assert (Hsj : stored s sh0 j). { unfold AnalysisModelBase.stored. rewrite <- Hha. exact Ej. }
      assert (Hs' := Hkeep sh0 j Hsj). unfold AnalysisModelBase.stored in Hs'. rewrite Hhe in Hs'. rewrite na_get_set_same in Hs'. inversion Hs'; subst j.
      assert (Hrj : fid sa i = Ok i). { apply (sx_hl D _ sa HSa sh0 i). exact Ej. }
      apply root_lt_cf in Hrj. rewrite Ei in Hrj. rewrite Nat2N.id in Hrj. lia. }
    assert (Hnob : na_get (hashcons D sb) sh0 = None) by (rewrite Hhb; exact Hno).
    destruct (raw_add_Sx D (fun _ => False) i sh0 bij i sb sc HSb Hnob Hri Hri H8) as [HScx _].
    assert (HSd : S0 D sd) by (apply (Sx_pending_true D (fun _ => False) sh0 sc sd HScx H9)).
    assert (HSe : S0 D se). { eapply (Sx_strfr D). exact HSd. apply G10. }
    assert (Dbe : dfr D sb se).
    { eapply (dfr_trans D). exact D8. eapply (dfr_trans D). apply gfr_dfr_cf. exact G9. apply gfr_dfr_cf. exact G10. }
    assert (Hfe : forall j, fid se j = fid sb j) by (intro j; apply find_id_dfr; apply Dbe).
    assert (Hae : forall j, cf_adata se j = cf_adata sb j) by (apply dfr_dsame; exact Dbe).
    assert (Hlen : List.length (unionfind D sa) = List.length (classes D sa)) by (apply (sx_len D _ sa HSa)).
    assert (Hgb : forall r, fid sa r = Ok r -> get_class D sb r = get_class D sa r).
    { intros r Hr. apply root_lt_cf in Hr. rewrite Hlen in Hr. destruct (nth_opt_some_of_lt_cf (classes D sa) _ Hr) as [c0 Hc0].
      unfold get_class. rewrite Hcb. rewrite (nth_opt_app_l _ _ _ _ Hc0). rewrite Hc0. reflexivity. }
    assert (Hold : forall j r, fid sa j = Ok r -> fid se j = Ok r /\ cf_adata se j = cf_adata sa j).
    { intros j r Hr. split. rewrite Hfe. apply Hfb. exact Hr.
      rewrite Hae. unfold analysis_data. rewrite (Hfb j r Hr), Hr. cbn [bind]. rewrite (Hgb r (fid_root_of D sa j r Hr)). reflexivity. }
    assert (Hpe : pending D se = na_set (pending D sa) sh0 true).
    { replace (pending D se) with (pending D sd). 2: { unfold mq_push in H10. apply (modify_ok D) in H10. subst se. reflexivity. }
      unfold pending_insert in H9. apply (modify_ok D) in H9. subst sd. cbn [pending set_pending]. rewrite Hp8, Hpb. reflexivity. }
    assert (Hgi : get_class D sb i = Ok cn).
    { unfold get_class. rewrite Hcb, Ei, Nat2N.id, Hlen. rewrite nth_opt_snoc. reflexivity. }
    assert (Hrie : fid se i = Ok i) by (rewrite Hfe; exact Hri).
    assert (Hai : cf_adata se i = Ok (c_data D cn)).
    { rewrite Hae. unfold analysis_data. rewrite Hri. cbn [bind]. rewrite Hgi. reflexivity. }
    destruct (wshape_ids synf sh0 bij Hws) as [Nv Ni]. assert (Kv := wshape_skel synf sh0 bij Hws).
    destruct (H_fold_new val sa se i sh0 synf (c_data D cn) (fst t)) as [val' [HF' [Hkd' [Hv1 Hv2]]]]; try assumption.
    - intros j r Hr. rewrite Hfe in Hr. apply Hfbinv. exact Hr.
    - congruence.
    - congruence.
    - congruence.
    - congruence.
    - congruence.
    - congruence.
    - intros k Hk. destruct (Hkids k Hk) as [r Hr]. exists r. rewrite Hfa. exact Hr.
    - exists val'. split. exact HF'. split. exact Hkd'. split.
      + intros j r Hr. rewrite <- Hfa in Hr. split. eapply Hv1. exact Hr. exists r. apply (Hold j r Hr).
      + rewrite Ea. split. exact Hv2. exists i. exact Hrie.
  Qed.
End Add.

Print Assumptions FI_add_round.
