(* EGraph/AnalysisModelFoldEval.v — constant folding WITH its modify hook (modify_kind = 1), evaluated (vm_compute):
   the remaining hypothesis H_inv of AnalysisModelFold.v and its loop-head form, on hand-made arithmetic histories
   (the motifs of harness eg14.rs gen_arith_part: subterms first, the folded constant inserted by hand and united,
   "the variables get their value late", unions of equal-valued handles, re-adds and parents over what was united),
   and the counterexamples for the false formulations.
     cf_loop   at EVERY head of the pending loop, including the nested rebuilds of the hook (rb_chk of AnalysisModelChk.v):
               structure (ucovb hliveb hconsb pstoredb pfullb ucov_allb) && cf_stabb && cf_compatb && cf_justb
     cf_op     after every operation: cf_loop && cf_stable_inb && cf_numb && fixb && pending = [] && modify_queue = [] *)
From SE Require Import EGraph.ModelA EGraph.ModelAMachine EGraph.AnalysisModelChk EGraph.AnalysisModelEval
  EGraph.AnalysisModelFoldInst EGraph.AnalysisModelFold.
From SE Require EGraph.OpsPreFacts.
From Coq Require Import List NArith Bool String.
Import ListNotations.
Open Scope N_scope.

Definition nul : appid := {| aid := 0; am := [] |}.
Definition tnum (k : N) : rterm := RT (num_node k) [].
Definition tadd (a b : rterm) : rterm := RT {| nvar := 13; nargs := [AApp nul; AApp nul] |} [a; b].
Definition tmul (a b : rterm) : rterm := RT {| nvar := 14; nargs := [AApp nul; AApp nul] |} [a; b].
Definition tvar (x : N) : rterm := RT {| nvar := 5; nargs := [ASlot x] |} [].      (* a variable: one slot *)
Definition tleaf (v : nat) : rterm := RT {| nvar := v; nargs := [] |} [].           (* a nullary symbol *)

Definition struct_b (s : egraph D) : bool :=
  ucovb D s && hliveb D s && hconsb D s && pstoredb D s && pfullb D s && ucov_allb D s.
Definition cf_loop (s : egraph D) : bool := struct_b s && cf_stabb s && cf_compatb s && cf_justb s.
Definition quietb (s : egraph D) : bool :=
  match pending D s, modify_queue D s with [], [] => true | _, _ => false end.
Definition cf_op (s : egraph D) : bool :=
  cf_loop s && cf_stable_inb s && cf_numb s && fixb D optN_eqb make_constfold merge_or s && quietb s.

Definition runcf chkl chko ts ops :=
  runc D optN_eqb make_constfold merge_or 1 (fun d => d) chkl chko ts ops [] 0 (empty_egraph D).
Definition U i j := HUnion i j None.

(* the premises of reachF, as booleans: terms static and arithmetic; every union equates terms of equal value *)
Fixpoint arithb (t : rterm) : bool :=
  match t with
  | RT n ch =>
      match ch with
      | [] => match nargs n with
              | [APay (PVu32 _)] => Nat.eqb (nvar n) 17
              | _ => match app_occ n with [] => negb (Nat.eqb (nvar n) 13 || Nat.eqb (nvar n) 14 || Nat.eqb (nvar n) 17) | _ => false end
              end
      | [a; b] => (Nat.eqb (nvar n) 13 || Nat.eqb (nvar n) 14) && arithb a && arithb b &&
                  match nargs n with [AApp _; AApp _] => true | _ => false end
      | _ => false
      end
  end.
Fixpoint sound_ops (rho : node -> option N) (ts : list rterm) (ops : list hop) (hts : list rterm) : bool :=
  match ops with
  | [] => true
  | HAdd k :: r => match nth_opt ts k with Some t => sound_ops rho ts r (hts ++ [t]) | None => false end
  | HUnion i j _ :: r =>
      match nth_opt hts i, nth_opt hts j with
      | Some a, Some b => optN_eqb (sval rho a) (sval rho b) && sound_ops rho ts r hts
      | _, _ => false
      end
  end.
Definition premises rho ts ops : bool :=
  forallb (fun t => OpsPreFacts.term_staticb t && arithb t) ts && sound_ops rho ts ops [].

(* ---------------- sound histories ---------------- *)
Definition rho0 : node -> option N := fun _ => None.
(* every variable / leaf is worth 4 *)
Definition rho4 : node -> option N := fun _ => Some 4.

Definition ts1 := [tadd (tnum 1) (tnum 2)].
Definition ops1 := [HAdd 0].
Definition ts2 := [tadd (tvar 2) (tnum 1); tmul (tadd (tvar 2) (tnum 1)) (tadd (tvar 2) (tnum 1)); tvar 2; tnum 4].
Definition ops2 := [HAdd 0; HAdd 1; HAdd 2; HAdd 3; U 2 3].
Definition ops2b := [HAdd 0; HAdd 1; HAdd 2; HAdd 3; U 3 2].
(* subterms first, the folded constant by hand, union either way, parents afterwards *)
Definition ts3 := [tnum 2; tnum 3; tmul (tnum 2) (tnum 3); tnum 6; tadd (tmul (tnum 2) (tnum 3)) (tnum 6); tnum 12;
                   tmul (tadd (tmul (tnum 2) (tnum 3)) (tnum 6)) (tnum 12)].
Definition ops3 := [HAdd 0; HAdd 1; HAdd 2; HAdd 3; U 2 3; HAdd 4; HAdd 5; U 5 4; HAdd 6; HAdd 2].
(* two variables and a leaf get their value late; unions of unknown-valued terms; wrapping arithmetic *)
Definition ts4 := [tadd (tvar 2) (tleaf 3); tmul (tvar 6) (tadd (tvar 2) (tleaf 3)); tvar 2; tvar 6; tleaf 3; tnum 4;
                   tmul (tnum 4294967295) (tnum 4294967295); tnum 1; tadd (tvar 6) (tnum 4); tadd (tvar 2) (tnum 4)].
Definition ops4 := [HAdd 0; HAdd 1; HAdd 8; HAdd 9; HAdd 2; HAdd 3; U 4 5; HAdd 4; HAdd 5; U 4 7; U 6 5; HAdd 6; HAdd 7; U 8 9; HAdd 1; U 2 3].
(* the same with no value for the variables: only unknown-valued terms are equated *)
Definition ops4n := [HAdd 0; HAdd 1; HAdd 8; HAdd 9; HAdd 2; HAdd 3; U 4 5; U 2 3; HAdd 6; HAdd 7; U 6 7; HAdd 1].

Lemma premises_ok :
  premises rho0 ts1 ops1 && premises rho4 ts2 ops2 && premises rho4 ts2 ops2b && premises rho0 ts3 ops3
  && premises rho4 ts4 ops4 && premises rho0 ts4 ops4n = true.
Proof. vm_compute. reflexivity. Qed.

Definition okb (r : nat * sexp) (n : nat) : bool := Nat.eqb (fst r) n && is_ok r.
(* H_inv (and its loop-head form) on these runs: every check holds at every loop head and after every operation *)
Lemma eval_constfold_ok :
  okb (runcf cf_loop cf_op ts1 ops1) 1 && okb (runcf cf_loop cf_op ts2 ops2) 5 && okb (runcf cf_loop cf_op ts2 ops2b) 5
  && okb (runcf cf_loop cf_op ts3 ops3) 10 && okb (runcf cf_loop cf_op ts4 ops4) 16 && okb (runcf cf_loop cf_op ts4 ops4n) 12 = true.
Proof. vm_compute. reflexivity. Qed.

(* ---------------- counterexamples ---------------- *)
Definition fixb_cf := fixb D optN_eqb make_constfold merge_or.
Definition tt_b (_ : egraph D) : bool := true.

(* (a) an UNSOUND union (Num 1 with Num 2): the run returns, every structural check holds at every loop head, and after the
   union the datum of the merged class is NOT the fold of merge over make of its nodes (the fold follows the hashcons
   order, the datum the order of the merges); compatibility fails at a loop head of that union *)
Definition tsU := [tnum 1; tnum 2].
Lemma unsound_union_breaks_fixpoint :
  runcf struct_b tt_b tsU [HAdd 0; HAdd 1; U 0 1] = (3%nat, Sym "ok")
  /\ runcf tt_b fixb_cf tsU [HAdd 0; HAdd 1; U 0 1] = (2%nat, Sym "OPCHK-FAIL")
  /\ runcf tt_b fixb_cf tsU [HAdd 0; HAdd 1; U 1 0] = (2%nat, Sym "OPCHK-FAIL")
  /\ runcf cf_compatb tt_b tsU [HAdd 0; HAdd 1; U 0 1] = (2%nat, Lst [Sym "err"; Sym "explicit-panic"]).
Proof. repeat split; vm_compute; reflexivity. Qed.

(* (b) the LOCAL premise "at the time of the union the data of the two classes are not two different constants" is not
   enough.  P = a + 1, Q = b + 1 (a, b nullary symbols); P ~ Q while nothing is known; a ~ 1 (the class of P, Q becomes 2);
   b ~ 2 (b is unknown, 2 is a constant: locally fine) — now Q = b + 1 makes 3 in a class whose datum is 2. *)
Section Local.
  Let add_e := add_expr0 D optN_eqb make_constfold merge_or 1%nat (fun d : D => d).
  Let union_e := eg_union0 D optN_eqb make_constfold merge_or 1%nat (fun d : D => d).
  Definition local_ok (s : egraph D) (a b : appid) : bool :=
    match analysis_data D s (aid a), analysis_data D s (aid b) with Ok x, Ok y => compatb x y | _, _ => false end.
  (* Some true: every union satisfied the local premise and the final state satisfies fixb; Some false: ... and fixb fails *)
  Fixpoint runl (ts : list rterm) (ops : list hop) (hs : list appid) (s : egraph D) : option bool :=
    match ops with
    | [] => Some (fixb_cf s)
    | HAdd k :: r => match nth_opt ts k with
                     | Some t => match add_e t s with Ok (a, s') => runl ts r (hs ++ [a]) s' | Err _ => None end
                     | None => None end
    | HUnion i j _ :: r =>
        match nth_opt hs i, nth_opt hs j with
        | Some a, Some b => if local_ok s a b then match union_e a b s with Ok (_, s') => runl ts r hs s' | Err _ => None end else None
        | _, _ => None
        end
    end.
End Local.
Definition tsL := [tadd (tleaf 3) (tnum 1); tadd (tleaf 4) (tnum 1); tleaf 3; tnum 1; tleaf 4; tnum 5].
Definition opsL := [HAdd 0; HAdd 1; U 0 1; HAdd 2; HAdd 3; U 2 3; HAdd 4; HAdd 5; U 4 5].
Definition soundL (x y : option N) : bool :=
  optN_eqb (lift2 N.add x (Some 1)) (lift2 N.add y (Some 1)) && (optN_eqb x (Some 1) && (optN_eqb y (Some 5) && true)).
Lemma soundL_false : forall x y, soundL x y = false.
Proof.
  intros [x|] [y|]; unfold soundL; try (cbv [optN_eqb]; rewrite ?andb_false_r; reflexivity).
  unfold lift2. cbv [optN_eqb]. destruct (N.eqb_spec x 1) as [Hx|Hx]; [|rewrite andb_false_r; reflexivity].
  destruct (N.eqb_spec y 5) as [Hy|Hy]; [|rewrite !andb_false_r; reflexivity].
  subst x y. vm_compute. reflexivity.
Qed.
Lemma local_premise_insufficient :
  runl tsL opsL [] (empty_egraph D) = Some false
  /\ (forall rho, sound_ops rho tsL opsL [] = false).
Proof.
  split. vm_compute. reflexivity.
  intro rho. change (soundL (rho {| nvar := 3; nargs := [] |}) (rho {| nvar := 4; nargs := [] |}) = false). apply soundL_false.
Qed.
(* the same history, operation by operation: every check of cf_op holds until the last union; there, compatibility fails at a loop head *)
Lemma local_premise_insufficient_where :
  runcf cf_loop cf_op tsL opsL = (8%nat, Lst [Sym "err"; Sym "explicit-panic"])
  /\ runcf cf_compatb tt_b tsL opsL = (8%nat, Lst [Sym "err"; Sym "explicit-panic"])
  /\ runcf struct_b tt_b tsL opsL = (9%nat, Sym "ok").
Proof. repeat split; vm_compute; reflexivity. Qed.

Print Assumptions premises_ok.
Print Assumptions eval_constfold_ok.
Print Assumptions unsound_union_breaks_fixpoint.
Print Assumptions local_premise_insufficient.
Print Assumptions local_premise_insufficient_where.
