(* EGraph/AnalysisModelFoldHp.v — one round of the pending loop for the constant-folding invariant FI.
   PARTIAL: the OnlyAnalysis kind is proved; the Full kind and the kid-data totality are Section Hypotheses. *)
From SE Require Import EGraph.ModelA EGraph.ModelAMachine EGraph.AnalysisFix EGraph.AnalysisModelChk EGraph.AnalysisModelBase EGraph.AnalysisModelStab
  EGraph.AnalysisModelUF EGraph.AnalysisModelAbs EGraph.AnalysisModelFrames EGraph.AnalysisModelTop EGraph.AnalysisModelFacts
  EGraph.AnalysisModelInv EGraph.AnalysisModelQuiet EGraph.AnalysisModelIds EGraph.AnalysisModelStr EGraph.AnalysisModelMove
  EGraph.AnalysisModelFoldInst EGraph.AnalysisModelFoldTop EGraph.AnalysisModelFold EGraph.AnalysisModelFoldSem
  EGraph.AnalysisModelFoldUpd EGraph.AnalysisModelFoldMove EGraph.AnalysisModelFoldUi EGraph.AnalysisModelFoldSkel.
From SE Require EGraph.AnalysisModelUpper.
From SE Require Import EGraph.AnalysisModelReachA.
From Coq Require Import Lia Arith Bool List NArith.
Import ListNotations.

Lemma cf_stabx_conv : forall X s, cf_stabx X s <-> cf_stabx_m X s.
Proof. intros X s. split; intro H; exact H. Qed.
Lemma cf_justs_conv : forall s, cf_justs s <-> cf_justs_m s.
Proof. intros s. split; intro H; exact H. Qed.

Lemma ucov_of_Sx_cf : forall X (s : egraph D) i, Sx D X s -> ucov_at D X s i.
Proof.
  intros X s i HS sh2 i2 c Hs Hn HX [k [Hk Hf]] Hc.
  assert (Hkk : find_id D s k = Ok k).
  { apply (sx_kl D X s HS sh2 i2 Hs). unfold AnalysisModelBase.npend in Hn. rewrite Hn. discriminate. exact HX. exact Hk. }
  rewrite Hkk in Hf. inversion Hf; subst k.
  destruct (sx_ua D X s HS sh2 i2 Hs i Hk) as [c' [Hc' Hin]]. rewrite Hc in Hc'. inversion Hc'; subst c'. exact Hin.
Qed.


Definition cf_justv (V : list (node * N)) (s : egraph D) : Prop :=
  forall c k, find_id D s c = Ok c -> cf_adata s c = Ok (Some k) ->
    (exists sh, AnalysisModelBase.stored D s sh c /\ cf_mk_in s sh = Ok (Some k)) \/
    (exists sh j, In (sh, j) V /\ find_id D s j = Ok c /\ cf_mk_in s sh = Ok (Some k)).

Definition FIv (rho : node -> option N) (val : N -> option N) (V : list (node * N)) (s : egraph D) : Prop :=
  semv rho val s /\ cf_stabx_m (fun _ => False) s /\ cf_justv V s /\ S0 D s.

Lemma gfr_adata_cf : forall s s' : egraph D, gfr D s s' -> forall j, cf_adata s' j = cf_adata s j.
Proof. intros s s' G. destruct (qfr_fr D s s' (gfr_qfr D s s' G)) as [Hd _]. exact Hd. Qed.

Lemma adata_same_find : forall (s : egraph D) k k' r, find_id D s k = Ok r -> find_id D s k' = Ok r -> cf_adata s k = cf_adata s k'.
Proof. intros s k k' r H H'. unfold analysis_data. rewrite H, H'. reflexivity. Qed.

Lemma FIv_gfr : forall rho val V s s', FIv rho val V s -> gfr D s s' -> FIv rho val V s'.
Proof.
  intros rho val V s s' [Hsem [Hst [Hj HS]]] G.
  assert (Q := gfr_qfr D s s' G). assert (F := qfr_fr D s s' Q). destruct F as [Hd Hsub].
  assert (Hf : forall j, find_id D s' j = find_id D s j) by (apply gfr_fid; exact G).
  assert (Hh : hashcons D s' = hashcons D s) by (apply G).
  assert (Hmk : forall sh, cf_mk_in s' sh = cf_mk_in s sh).
  { intro sh. apply cf_mk_in_ext. intros k _. apply Hd. }
  split; [|split; [|split]].
  - constructor.
    + intros i r H. rewrite Hf in H. apply (sv_find rho val s Hsem i r H).
    + intros sh c H. unfold AnalysisModelBase.stored in H. rewrite Hh in H. apply (sv_node rho val s Hsem sh c H).
    + intros i d H. rewrite (Hd i) in H. apply (sv_data rho val s Hsem i d H).
  - intros sh i H1 H2 HX. destruct (Hsub sh i H1 H2) as [H3 H4].
    destruct (Hst sh i H3 H4 HX) as [d [v [Ha [Hm Hle]]]]. exists d, v. split. rewrite (Hd i). exact Ha.
    split. rewrite Hmk. exact Hm. exact Hle.
  - intros c k Hc Hdk. rewrite Hf in Hc. rewrite (Hd c) in Hdk. destruct (Hj c k Hc Hdk) as [[sh [Hs Hm]]|[sh [j [Hin [Hfj Hm]]]]].
    + left. exists sh. split. unfold AnalysisModelBase.stored in *. rewrite Hh. exact Hs. rewrite Hmk. exact Hm.
    + right. exists sh, j. split. exact Hin. split. rewrite Hf. exact Hfj. rewrite Hmk. exact Hm.
  - eapply (Sx_strfr D). exact HS. apply G.
Qed.

Lemma stored_remove_back : forall (l : list (node * N)) sh x c, na_get (na_remove l sh) sh = None ->
  na_get (na_remove l sh) x = Some c -> x <> sh /\ na_get l x = Some c.
Proof.
  intros l sh x c Hno H. assert (Hne : x <> sh). { intro E. subst x. rewrite Hno in H. discriminate. }
  split. exact Hne. rewrite na_get_remove_other in H. exact H. exact Hne.
Qed.


Section MoveV.
  Local Open Scope N_scope.
  Notation eg := (egraph D).
  Notation fid := (find_id D).
  Notation stored := (AnalysisModelBase.stored D).
  Notation npend := (AnalysisModelBase.npend D).
  Notation adata := (analysis_data D).
  Variable rho : node -> option N.
  Variable V : list (node * N).

  Theorem cf_move_to_v : forall val from to s s',
    semv rho val s -> cf_stabx_m (fun _ => False) s -> cf_justv V s -> S0 D s ->
    find_id D s (aid from) = Ok (aid from) -> find_id D s (aid to) = Ok (aid to) -> aid from <> aid to ->
    val (aid from) = val (aid to) ->
    move_to D optN_eqb merge_or from to s = Ok (tt, s') ->
    semv rho val s' /\ cf_stabx_m (fun _ => False) s' /\ cf_justv V s' /\ S0 D s'.
  Proof.
    intros val from to s s' HS Hst Hj H0 Hrf Hrt Hne Hval H.
    destruct (move_to_S0_full D optN_eqb merge_or from to s s' H0 Hrf Hrt Hne H) as [H0' [Hsto [Hfm Hroots]]].
    assert (Hsb := cf_sto_back from to s s' H0 Hrf Hrt Hne H).
    destruct (move_to_split D optN_eqb merge_or from to s s' H) as [a_from [to_id [a_to [s1 [s2 [s3 [Haf [Hto [Hat [H1 [H2 [H3 Htail]]]]]]]]]]]].
    rewrite Hrt in Hto. inversion Hto; subst to_id. clear Hto.
    destruct (cf_head_eff s s1 s2 s3 (aid from) (aid to) a_from a_to _ Hrf Hrt Hne Haf Hat H1 H2 H3) as [HC3 [HP3 [Hf3 [Hd3 [HG3 Hch]]]]].
    assert (Hnd3 : na_nodup (hashcons D s3)). { rewrite HC3. exact (sx_nd D _ s H0). }
    destruct (Htail Hnd3) as [Hdfr [Hsub [_ Hup]]].
    assert (Hds := dfr_dsame D s3 s' Hdfr).
    assert (Hfb : forall i r', fid s' i = Ok r' -> exists r, fid s i = Ok r).
    { assert (H2' : (if optN_eqb a_to (merge_or a_from a_to) then ret D tt
                     else mbind D (mq_push D (aid to)) (fun _ => touched_class D (aid to) false)) s1 = Ok (tt, s2)).
      { destruct (optN_eqb a_to (merge_or a_from a_to)). subst s2. reflexivity. exact H2. }
      destruct (move_head_eff D _ _ _ _ _ _ _ _ _ Hrf Hrt Hne H1 H2' H3) as [_ [[Hlt Hu3] _]].
      destruct Hdfr as [Hdu _].
      intros i r' Hi. destruct (fid s i) as [r|e] eqn:E. exists r. reflexivity. exfalso.
      rewrite (find_id_dfr D s3 s' i Hdu) in Hi.
      assert (Hrf' : fidl (unionfind D s) (aid from) = Ok (aid from)) by exact Hrf.
      assert (Hrt' : fidl (unionfind D s) (aid to) = Ok (aid to)) by exact Hrt.
      assert (E' : fidl (unionfind D s) i = Err e) by exact E.
      pose proof (fidl_link_err (unionfind D s) (aid from) (aid to) (compose_partial (am to) (inverse_nocheck (am from)))
                    (fidl_is_root _ _ _ Hrf') (fidl_is_root _ _ _ Hrt') Hne) as HL. cbv zeta in HL.
      destruct (HL i e E') as [e' He'].
      assert (Hi' : fidl (unionfind D s3) i = Ok r') by exact Hi.
      rewrite Hu3 in Hi'. rewrite He' in Hi'. discriminate Hi'. }
    assert (Lf : fle a_from (val (aid to))). { rewrite <- Hval. apply (sv_data rho val s HS _ _ Haf). }
    assert (Lt : fle a_to (val (aid to))). { apply (sv_data rho val s HS _ _ Hat). }
    destruct (sem_merge_le a_from a_to (val (aid to)) Lf Lt) as [Ln [Lfn Ltn]].
    assert (Hd' : forall j r, fid s j = Ok r ->
              adata s' j = if (r =? aid from) || (r =? aid to) then Ok (merge_or a_from a_to) else adata s j).
    { intros j r Hr. rewrite Hds. apply Hd3. exact Hr. }
    assert (Hmono : forall j, fle_res (adata s j) (adata s' j)).
    { intros j d Hd. destruct (adata_fid_ok D s j d Hd) as [r Hr]. rewrite (Hd' j r Hr).
      destruct (r =? aid from) eqn:E1.
      - apply N.eqb_eq in E1. subst r. cbn [orb]. exists (merge_or a_from a_to). split. reflexivity.
        rewrite (adata_same_class D s j (aid from) Hr Hrf) in Hd. rewrite Haf in Hd. inversion Hd; subst d. exact Lfn.
      - destruct (r =? aid to) eqn:E2; cbn [orb].
        + apply N.eqb_eq in E2. subst r. exists (merge_or a_from a_to). split. reflexivity.
          rewrite (adata_same_class D s j (aid to) Hr Hrt) in Hd. rewrite Hat in Hd. inversion Hd; subst d. exact Ltn.
        + exists d. split. exact Hd. apply fle_refl. }
    (* ---- semv ---- *)
    assert (HS' : semv rho val s').
    { constructor.
      - intros i r' Hi. destruct (Hfb i r' Hi) as [r Hr]. rewrite (Hfm i r Hr) in Hi. injection Hi as Hi. subst r'.
        rewrite (sv_find rho val s HS i r Hr). destruct (r =? aid from) eqn:E. apply N.eqb_eq in E. subst r. exact Hval. reflexivity.
      - intros sh c' Hs'. destruct (Hsb sh c' Hs') as [c Hs]. assert (Hs2 := Hsto sh c Hs).
        unfold AnalysisModelBase.stored in Hs', Hs2. rewrite Hs' in Hs2. injection Hs2 as Hs2. subst c'.
        rewrite (sv_node rho val s HS sh c Hs). destruct (c =? aid from) eqn:E. apply N.eqb_eq in E. subst c. exact Hval. reflexivity.
      - intros i d Hd. destruct (adata_fid_ok D s' i d Hd) as [r' Hr']. destruct (Hfb i r' Hr') as [r Hr]. rewrite (Hd' i r Hr) in Hd.
        destruct ((r =? aid from) || (r =? aid to)) eqn:E.
        + injection Hd as Hd. subst d. rewrite (sv_find rho val s HS i r Hr). apply orb_true_iff in E.
          destruct E as [E|E]; apply N.eqb_eq in E; subst r. rewrite Hval. exact Ln. exact Ln.
        + apply (sv_data rho val s HS i d Hd). }
    (* ---- stability ---- *)
    assert (Hst' : cf_stabx_m (fun _ => False) s').
    { intros sh i Hs Hn _. destruct (Hsub sh i Hs Hn) as [Hs3 Hn3].
      assert (Hs0 : stored s sh i). { unfold AnalysisModelBase.stored in *. rewrite <- HC3. exact Hs3. }
      assert (Hn0 := HP3 sh Hn3).
      destruct (Hst sh i Hs0 Hn0 (fun x => x)) as [d [v [Hd [Hv Hle]]]].
      assert (Hkr : forall k, In k (node_ids sh) -> fid s k = Ok k).
      { intros k Hk. apply (sx_kl D _ s H0 sh i Hs0). unfold AnalysisModelBase.npend in Hn0. rewrite Hn0. discriminate. intro x; exact x. exact Hk. }
      assert (Hkf : ~ In (aid from) (node_ids sh)).
      { intro Hk. destruct (sx_ua D _ s H0 sh i Hs0 _ Hk) as [cf [Hcf Hin]].
        assert (Hcf3 : get_class D s3 (aid from) = Ok cf). { rewrite HG3. exact Hcf. exact Hne. }
        apply (Hup cf Hcf3 sh Hin). exact Hn. }
      assert (Hkt : merge_or a_from a_to = a_to \/ ~ In (aid to) (node_ids sh)).
      { destruct Hch as [E|Hc]. left. exact E. right. intro Hk.
        destruct (sx_ua D _ s H0 sh i Hs0 _ Hk) as [ct [Hct Hin]]. apply (Hc ct sh Hct Hn3 Hin). }
      assert (Hmk : cf_mk_in s' sh = Ok v).
      { rewrite <- Hv. apply cf_mk_in_ext. intros k Hk. rewrite (Hd' k k (Hkr k Hk)).
        destruct (k =? aid from) eqn:E1. apply N.eqb_eq in E1. subst k. contradiction.
        destruct (k =? aid to) eqn:E2; cbn [orb]. 2: reflexivity. apply N.eqb_eq in E2. subst k.
        destruct Hkt as [E|Hnk]. rewrite E. symmetry. exact Hat. contradiction. }
      destruct (Hmono i d Hd) as [d' [Hd'' Hle']]. exists d', v. split. exact Hd''. split. exact Hmk.
      eapply fle_trans; eassumption. }
    (* ---- justification ---- *)
    assert (Hj' : cf_justv V s').
    { intros c k Hc Hdc. destruct (Hroots c Hc) as [Hc0 Hcf].
      assert (Hlift : forall sh, cf_mk_in s sh = Ok (Some k) -> cf_mk_in s' sh = Ok (Some k)).
      { intros sh Hm. apply (cf_make_some_mono (adata s) (adata s') sh k). intros j _. apply Hmono. exact Hm. }
      assert (Htr : forall c0, fid s c0 = Ok c0 -> adata s c0 = Ok (Some k) -> (if c0 =? aid from then aid to else c0) = c ->
         (exists sh, stored s' sh c /\ cf_mk_in s' sh = Ok (Some k)) \/
         (exists sh j, In (sh, j) V /\ fid s' j = Ok c /\ cf_mk_in s' sh = Ok (Some k))).
      { intros c0 Hr0 Hd0 Ec. destruct (Hj c0 k Hr0 Hd0) as [[sh [Hs Hm]]|[sh [j [Hin [Hfj Hm]]]]].
        - left. exists sh. split. rewrite <- Ec. apply Hsto. exact Hs. apply Hlift. exact Hm.
        - right. exists sh, j. split. exact Hin. split. rewrite <- Ec. apply Hfm. exact Hfj. apply Hlift. exact Hm. }
      rewrite (Hd' c c Hc0) in Hdc.
      destruct (c =? aid from) eqn:E1. apply N.eqb_eq in E1. contradiction.
      destruct (c =? aid to) eqn:E2; cbn [orb] in Hdc.
      - apply N.eqb_eq in E2. subst c. injection Hdc as Hnew.
        destruct (merge_or_some a_from a_to k Hnew) as [Ea|[Ea Eb]].
        + subst a_from. apply (Htr (aid from) Hrf Haf). rewrite N.eqb_refl. reflexivity.
        + subst a_to. apply (Htr (aid to) Hrt Hat). rewrite E1. reflexivity.
      - apply (Htr c Hc0 Hdc). rewrite E1. reflexivity. }
    split. exact HS'. split. exact Hst'. split. exact Hj'. exact H0'.
  Qed.
End MoveV.

Section UiV.
  Local Open Scope N_scope.
Theorem FIv_ui : forall rho val V f l r s b s', FIv rho val V s ->
  (forall rl rr, find_id D s (aid l) = Ok rl -> find_id D s (aid r) = Ok rr -> val rl = val rr) ->
  union_internal D optN_eqb merge_or f l r s = Ok (b, s') ->
  FIv rho val V s' /\ fmap D s s' /\
  (forall sh c, AnalysisModelBase.stored D s sh c -> exists c', AnalysisModelBase.stored D s' sh c' /\ find_id D s' c = Ok c') /\
  (exists m, find_id D s' (aid l) = Ok m /\ find_id D s' (aid r) = Ok m).
Proof.
  intros rho val V f l r s b s' HI Hsound H.
  destruct (ui_shape D optN_eqb merge_or f l r s b s' H) as [s1 [rl [rr [G [Hl [Hr Hcase]]]]]].
  assert (HI1 := FIv_gfr rho val V s s1 HI G).
  assert (Hf1 : forall j, find_id D s1 j = find_id D s j) by (apply gfr_fid; exact G).
  assert (Hh1 : hashcons D s1 = hashcons D s) by (apply G).
  assert (Hv : val rl = val rr) by (apply Hsound; assumption).
  destruct Hcase as [[-> ->]|[Hne [from [to [Hft Hmv]]]]].
  - split. exact HI1. split. apply fmap_fid_same_cf. exact Hf1. split.
    + intros sh c Hs. exists c. split. unfold AnalysisModelBase.stored in *. rewrite Hh1. exact Hs.
      rewrite Hf1. destruct HI as [_ [_ [_ HS]]]. apply (sx_hl D (fun _ => False) s HS sh c Hs).
    + exists rr. rewrite !Hf1. split; assumption.
  - assert (Hrl : find_id D s1 rl = Ok rl). { rewrite Hf1. eapply (AnalysisModelUpper.fid_root_of D). exact Hl. }
    assert (Hrr : find_id D s1 rr = Ok rr). { rewrite Hf1. eapply (AnalysisModelUpper.fid_root_of D). exact Hr. }
    assert (Hroots : find_id D s1 (aid from) = Ok (aid from) /\ find_id D s1 (aid to) = Ok (aid to) /\ aid from <> aid to
                     /\ val (aid from) = val (aid to)).
    { destruct Hft as [[-> ->]|[-> ->]]. split. exact Hrl. split. exact Hrr. split. exact Hne. exact Hv.
      split. exact Hrr. split. exact Hrl. split. intro E. apply Hne. symmetry. exact E. symmetry. exact Hv. }
    destruct Hroots as [Hrf [Hrt [Hne' Hvft]]].
    destruct HI1 as [Hsem1 [Hst1 [Hj1 HS1]]].
    assert (HI' := cf_move_to_v rho V val from to s1 s' Hsem1 Hst1 Hj1 HS1 Hrf Hrt Hne' Hvft Hmv).
    destruct (move_to_S0_full D optN_eqb merge_or from to s1 s' HS1 Hrf Hrt Hne' Hmv) as [_ [Hsto [Hfm _]]].
    assert (F1 : fmap D s1 s'). { eapply fmap_move_cf. exact Hrt. exact Hne'. exact Hfm. }
    split. exact HI'. split.
    + intros j r0 Hr0. apply F1. rewrite Hf1. exact Hr0.
    + split.
      * intros sh c Hs. assert (Hs1 : AnalysisModelBase.stored D s1 sh c). { unfold AnalysisModelBase.stored in *. rewrite Hh1. exact Hs. }
        exists (if c =?  aid from then aid to else c). split. apply Hsto. exact Hs1.
        apply Hfm. apply (sx_hl D (fun _ => False) s1 HS1 sh c Hs1).
      * exists (aid to). rewrite <- Hf1 in Hl, Hr. rewrite (Hfm _ _ Hl), (Hfm _ _ Hr).
        destruct Hft as [[E1 E2]|[E1 E2]]; rewrite <- E1, <- E2.
        -- rewrite N.eqb_refl. destruct (aid to =?  aid from) eqn:E. apply N.eqb_eq in E. symmetry in E. contradiction. split; reflexivity.
        -- rewrite N.eqb_refl. destruct (aid to =?  aid from) eqn:E. apply N.eqb_eq in E. symmetry in E. contradiction. split; reflexivity.
Qed.

End UiV.

Section UaAt.
  Local Open Scope N_scope.
  Lemma cf_ua_at : forall rho val sh i (s s' : egraph D), semv rho val s -> AnalysisModelBase.stored D s sh i -> find_id D s i = Ok i ->
    update_analysis D optN_eqb make_constfold merge_or sh i s = Ok (tt, s') ->
    exists d v, cf_adata s' i = Ok d /\ cf_mk_in s' sh = Ok v /\ fle v d.
  Proof.
    intros rho val sh i s s' HS Hsto Hroot H.
    unfold update_analysis in H.
    apply (mbind_ok D) in H. destruct H as [v [s0 [H0 H]]]. apply (reads_ok D) in H0. destruct H0 as [-> Hv].
    apply (mbind_ok D) in H. destruct H as [c [s0 [H0 H]]]. apply (reads_ok D) in H0. destruct H0 as [-> Hc].
    apply (mbind_ok D) in H. destruct H as [[] [s1 [H1 H]]].
    apply upd_data_eff in H1. destruct H1 as [c' [Hc' [U1 [HC1 [P1 [G1 In1]]]]]].
    rewrite Hc in Hc'. inversion Hc'; subst c'. clear Hc'.
    set (old := c_data D c) in *. set (new := merge_or old v) in *.
    assert (Hold : cf_adata s i = Ok old).
    { unfold analysis_data. rewrite Hroot. cbn [bind]. rewrite Hc. reflexivity. }
    assert (Ha1 := adata_upd D i new s s1 c Hc U1 G1).
    assert (Ha : forall j, cf_adata s' j = match find_id D s j with
                               | Ok r => if N.eqb r i then Ok new else cf_adata s j
                               | Err e => Err e end).
    { destruct (optN_eqb new old) eqn:Eq.
      - apply (ret_ok D) in H. destruct H as [-> _]. exact Ha1.
      - apply (mbind_ok D) in H. destruct H as [[] [s2 [H2 H3]]].
        apply mq_push_eff in H2. destruct H2 as [U2 [C2 [HC2 P2]]].
        apply touched_class_eff in H3. destruct H3 as [c3 [Hc3 [U3 [C3 [HC3 P3]]]]].
        intro j. rewrite <- Ha1. apply adata_eq. congruence. congruence. }
    assert (Lo : fle old (val i)) by (apply (sv_data rho val s HS i old Hold)).
    assert (Lv : fle v (val i)).
    { rewrite <- (sv_node rho val s HS sh i Hsto). apply (make_le_node_val rho (cf_adata s) val sh v). 2: exact Hv.
      intros k d _ Hd. apply (sv_data rho val s HS k d Hd). }
    destruct (sem_merge_le old v (val i) Lo Lv) as [_ [Lon Lvn]]. fold new in Lon, Lvn.
    assert (Hi' : cf_adata s' i = Ok new). { rewrite Ha, Hroot, N.eqb_refl. reflexivity. }
    exists new. destruct v as [k|].
    - exists (Some k). split. exact Hi'. split. 2: exact Lvn.
      apply (cf_make_some_mono (cf_adata s) (cf_adata s') sh k). 2: exact Hv.
      intros j _ d Hd. destruct (adata_fid_ok D s j d Hd) as [r Hr]. rewrite Ha, Hr.
      destruct (r =? i) eqn:E.
      + apply N.eqb_eq in E. subst r. exists new. split. reflexivity.
        rewrite (adata_same_class D s j i Hr Hroot) in Hd. rewrite Hold in Hd. inversion Hd; subst d. exact Lon.
      + exists d. split. exact Hd. apply fle_refl.
    - exists None. split. exact Hi'. split. 2: exact Lvn.
      rewrite <- Hv. apply cf_mk_in_ext. intros j _. rewrite Ha.
      destruct (find_id D s j) as [r|e] eqn:Er.
      + destruct (r =? i) eqn:E. 2: reflexivity. apply N.eqb_eq in E. subst r.
        rewrite (adata_same_class D s j i Er Hroot). rewrite Hold. unfold new. destruct old; reflexivity.
      + unfold analysis_data. rewrite Er. reflexivity.
  Qed.
End UaAt.

Section Hp.
  Variable rho : node -> option N.
  Hypothesis rho_sk : forall n m, nvar n = nvar m -> skel n = skel m -> rho n = rho m.

  Notation NoX := (fun _ : node => False).
  Notation stored := (AnalysisModelBase.stored D).
  Notation npend := (AnalysisModelBase.npend D).
  Notation fid := (find_id D).

  (* REMAINING 1: the data of the children of stored nodes are defined (premise of cf_update_analysis) *)
  Hypothesis Hyp_kids_data : forall X (s : egraph D), Sx D X s ->
    forall x j k, stored s x j -> In k (node_ids x) -> exists d, cf_adata s k = Ok d.

  Tactic Notation "bnd" hyp(H) ident(x) ident(s1) ident(H1) := apply (mbind_ok D) in H; destruct H as [x [s1 [H1 H]]].

  (* the prelude of the round: pop the pending entry and run update_analysis *)
  Lemma FI_hp_prelude : forall val sh ty rest s i s1,
    FI rho val s -> pending D s = (sh, ty) :: rest ->
    stored (set_pending D s rest) sh i ->
    update_analysis D optN_eqb make_constfold merge_or sh i (set_pending D s rest) = Ok (tt, s1) ->
    semv rho val s1 /\ cf_stabx NoX s1 /\ cf_justs s1 /\ Sx D (eq sh) s1 /\
    unionfind D s1 = unionfind D s /\ hashcons D s1 = hashcons D s /\ fid s1 i = Ok i /\
    (exists d v, cf_adata s1 i = Ok d /\ cf_mk_in s1 sh = Ok v /\ fle v d).
  Proof.
    intros val sh ty rest s i s1 [Hsem [Hst [Hj HS]]] Hp Hsto H1.
    remember (set_pending D s rest) as s0 eqn:Es0.
    assert (Hu0 : unionfind D s0 = unionfind D s) by (subst s0; reflexivity).
    assert (Hc0 : classes D s0 = classes D s) by (subst s0; reflexivity).
    assert (Hh0 : hashcons D s0 = hashcons D s) by (subst s0; reflexivity).
    assert (Hp0 : pending D s0 = rest) by (subst s0; reflexivity).
    assert (Hf0 : forall j, fid s0 j = fid s j) by (intro j; apply (fid_uf D); exact Hu0).
    assert (Ha0 : forall j, cf_adata s0 j = cf_adata s j) by (intro j; apply (adata_eq D); assumption).
    assert (Hmk0 : forall x, cf_mk_in s0 x = cf_mk_in s x) by (intro x; apply cf_mk_in_ext; intros k _; apply Ha0).
    assert (Hsem0 : semv rho val s0).
    { constructor.
      - intros j r Hr. rewrite Hf0 in Hr. apply (sv_find rho val s Hsem j r Hr).
      - intros x c Hx. unfold AnalysisModelBase.stored in Hx. rewrite Hh0 in Hx. apply (sv_node rho val s Hsem x c Hx).
      - intros j d Hd. rewrite Ha0 in Hd. apply (sv_data rho val s Hsem j d Hd). }
    assert (Hst0 : cf_stabx (eq sh) s0).
    { intros x j Hs Hn HX. assert (Hne : x <> sh) by (intro E; apply HX; symmetry; exact E).
      assert (A : exists d v, cf_adata s j = Ok d /\ cf_mk_in s x = Ok v /\ fle v d).
      { apply Hst. unfold AnalysisModelBase.stored in *. rewrite <- Hh0. exact Hs.
        unfold AnalysisModelBase.npend in *. rewrite Hp. cbn [na_get]. rewrite (node_eqb_false _ _ Hne). rewrite <- Hp0. exact Hn.
        intro F. exact F. }
      destruct A as [d [v [A1 [A2 A3]]]]. exists d, v. split. rewrite Ha0. exact A1. split. 2: exact A3.
      rewrite Hmk0. exact A2. }
    assert (Hj0 : cf_justs s0).
    { intros c k Hc Hd. rewrite Hf0 in Hc. rewrite Ha0 in Hd. destruct (Hj c k Hc Hd) as [x [Hx Hm]].
      exists x. split. unfold AnalysisModelBase.stored in *. rewrite Hh0. exact Hx. rewrite Hmk0. exact Hm. }
    assert (HS0 : Sx D (eq sh) s0). { subst s0. eapply (Sx_pop D). exact HS. exact Hp. }
    assert (Hroot : fid s0 i = Ok i) by (apply (sx_hl D _ s0 HS0 sh i Hsto)).
    destruct (cf_update_analysis rho val sh i s0 s1 Hsem0 Hst0 Hj0 Hsto Hroot (ucov_of_Sx_cf (eq sh) s0 i HS0)
                (Hyp_kids_data (eq sh) s0 HS0) H1) as [Hsem1 [Hst1 [Hj1 [Hu1 [Hh1 _]]]]].
    split. exact Hsem1. split. exact Hst1. split. exact Hj1. split.
    { eapply (Sx_strfr D). exact HS0. eapply (update_analysis_strfr D). exact H1. }
    split. rewrite Hu1. exact Hu0. split. rewrite Hh1. exact Hh0. split.
    rewrite (fid_uf D s0 s1 i Hu1). exact Hroot.
    apply (cf_ua_at rho val sh i s0 s1 Hsem0 Hsto Hroot H1).
  Qed.


  Theorem FI_hp_round : forall val sh ty rest s s',
    (forall i s1 c bij0 src_id nd p s2 sl enode i1 enode' i1' s3 t x pc t2,
       AnalysisModelBase.stored D s sh i ->
       update_analysis D optN_eqb make_constfold merge_or sh i (set_pending D s rest) = Ok (tt, s1) ->
       get_class D s1 i = Ok c -> na_get (c_nodes D c) sh = Some (bij0, src_id) -> apply_slotmap false bij0 sh = Ok nd ->
       raw_remove_from_class D i sh s1 = Ok (p, s2) ->
       class_slots D s2 i = Ok sl -> find_enode D s2 nd = Ok enode ->
       find_applied_id D s2 {| aid := i; am := identity sl |} = Ok i1 ->
       hp_loop D optN_eqb merge_or 100 src_id enode i1 s2 = Ok ((enode', i1'), s3) ->
       shape D s3 enode' = Ok t -> lookup_internal D s3 t = Ok (Some x) -> pc_from_src_id D s3 src_id = Ok pc ->
       shape D s3 (fst pc) = Ok t2 -> fst t2 = fst t) ->
    FI rho val s -> pending D s = (sh, ty) :: rest ->
    handle_pending D optN_eqb make_constfold merge_or sh ty (set_pending D s rest) = Ok (tt, s') ->
    FI rho val s' /\ fmap D s s'.
  Proof.
    intros val sh ty rest s s' H_key HI Hp H.
    assert (HS : S0 D s) by (apply HI).
    unfold handle_pending in H.
    bnd H i s0' Hi. apply (reads_ok D) in Hi. destruct Hi as [-> Hi].
    assert (Hsto : stored (set_pending D s rest) sh i).
    { unfold AnalysisModelBase.stored. destruct (na_get (hashcons D (set_pending D s rest)) sh) as [i'|]; inversion Hi. reflexivity. }
    bnd H u1 s1 H1. destruct u1.
    destruct (FI_hp_prelude val sh ty rest s i s1 HI Hp Hsto H1) as [Hsem1 [Hst1 [Hj1 [HS1 [Hu1 [Hh1 [Hroot1 Hat1]]]]]]].
    assert (Hf1 : forall j, fid s1 j = fid s j) by (intro j; apply (fid_uf D); exact Hu1).
    destruct ty; cbn [negb] in H.
    2: { (* OnlyAnalysis *)
      apply (ret_ok D) in H. destruct H as [-> _].
      split.
      - split. exact Hsem1. split. exact Hst1. split. exact Hj1.
        apply (Sx_kids_alive D NoX sh s1). eapply (Sx_mono D). 2: exact HS1. intros x E. right. exact E.
        intros i0 Hs0 k Hk. rewrite Hf1. apply (sx_kl D NoX s HS sh i0).
        + unfold AnalysisModelBase.stored in *. rewrite <- Hh1. exact Hs0.
        + rewrite Hp. cbn [na_get]. rewrite node_eqb_refl. discriminate.
        + intro F. exact F.
        + exact Hk.
      - apply fmap_fid_same_cf. exact Hf1. }
    (* Full *)
    bnd H c1 s1' Hc1. apply (reads_ok D) in Hc1. destruct Hc1 as [-> Hc1].
    bnd H psn s1' Hpsn. apply (lift_ok D) in Hpsn. destruct Hpsn as [-> Hpsn].
    assert (Hent : na_get (c_nodes D c1) sh = Some psn). { destruct (na_get (c_nodes D c1) sh) as [q|]; inversion Hpsn. reflexivity. }
    destruct psn as [bij0 src_id]. cbv iota beta in H.
    bnd H nd s1' Hnd. apply (lift_ok D) in Hnd. destruct Hnd as [-> Hnd].
    bnd H p s2 H2.
    bnd H sl s2' Hsl. apply (reads_ok D) in Hsl. destruct Hsl as [-> Hsl].
    bnd H enode s2' Hen. apply (reads_ok D) in Hen. destruct Hen as [-> Hen].
    bnd H i1 s2' Hi1. apply (reads_ok D) in Hi1. destruct Hi1 as [-> Hi1].
    bnd H ei s3 H3. destruct ei as [enode' i1']. cbv iota beta in H.
    bnd H t s3' Ht. apply (reads_ok D) in Ht. destruct Ht as [-> Ht].
    bnd H lk s3' Hlk. apply (reads_ok D) in Hlk. destruct Hlk as [-> Hlk].
    assert (Hsto0 : stored s sh i) by exact Hsto.
    assert (Hsto1 : stored s1 sh i). { unfold AnalysisModelBase.stored in *. rewrite Hh1. exact Hsto0. }
    assert (Hsrc1 : fid s1 src_id = Ok i). { apply (sx_so D _ s1 HS1 i c1 sh bij0 src_id Hc1). apply na_get_in. exact Hent. }
    assert (Hvi : node_val rho val sh = val i) by (apply (sv_node rho val s1 Hsem1 sh i Hsto1)).
    (* the node leaves its class *)
    destruct (raw_remove_Sx D (eq sh) i sh s1 p s2 HS1 Hsto1 H2) as [HS2x [Hh2 [Hno2 [D2 [Hp2 _]]]]].
    assert (HS2 : S0 D s2).
    { apply (Sx_kids_alive D NoX sh s2). eapply (Sx_mono D). 2: exact HS2x. intros x E. right. exact E.
      intros i0 Hs0. unfold AnalysisModelBase.stored in Hs0. rewrite Hno2 in Hs0. discriminate. }
    assert (Hf2 : forall j, fid s2 j = fid s1 j) by (intro j; apply (find_id_dfr D); apply D2).
    assert (Ha2 : forall j, cf_adata s2 j = cf_adata s1 j) by (apply (dfr_dsame D); exact D2).
    assert (Hmk2 : forall x, cf_mk_in s2 x = cf_mk_in s1 x) by (intro x; apply cf_mk_in_ext; intros k _; apply Ha2).
    assert (Hroot2 : fid s2 i = Ok i) by (rewrite Hf2; exact Hroot1).
    assert (Hback2 : forall x c, stored s2 x c -> x <> sh /\ stored s1 x c).
    { intros x c Hx. unfold AnalysisModelBase.stored in *. rewrite Hh2 in Hx. rewrite Hh2 in Hno2.
      apply (stored_remove_back _ sh x c Hno2 Hx). }
    assert (HI2 : FIv rho val [(sh, i)] s2).
    { split; [|split; [|split]].
      - constructor.
        + intros j r Hr. rewrite Hf2 in Hr. apply (sv_find rho val s1 Hsem1 j r Hr).
        + intros x c Hx. apply (sv_node rho val s1 Hsem1 x c). apply (Hback2 x c Hx).
        + intros j d Hd. rewrite Ha2 in Hd. apply (sv_data rho val s1 Hsem1 j d Hd).
      - intros x j Hx Hn _. destruct (Hback2 x j Hx) as [_ Hx1].
        assert (Hn1 : npend s1 x). { unfold AnalysisModelBase.npend in *. rewrite <- Hp2. exact Hn. }
        destruct (Hst1 x j Hx1 Hn1 (fun F => F)) as [d [v [A1 [A2 A3]]]]. exists d, v. split. rewrite Ha2. exact A1.
        split. rewrite Hmk2. exact A2. exact A3.
      - intros c k Hc Hd. rewrite Hf2 in Hc. rewrite Ha2 in Hd. destruct (Hj1 c k Hc Hd) as [x [Hx Hm]].
        destruct (node_eq_dec' x sh) as [->|Hne].
        + right. exists sh, i. split. left. reflexivity. split.
          unfold AnalysisModelBase.stored in Hx, Hsto1. rewrite Hsto1 in Hx. inversion Hx; subst c. exact Hroot2.
          rewrite Hmk2. exact Hm.
        + left. exists x. split. unfold AnalysisModelBase.stored in *. rewrite Hh2. rewrite na_get_remove_other. exact Hx. exact Hne.
          rewrite Hmk2. exact Hm.
      - exact HS2. }
    (* the shrink loop *)
    set (P := fun (en : node) (a : appid) => aid a = i /\ nvar en = nvar sh /\ skel en = skel sh /\
                Forall2 (fun k k' => fid s2 k = Ok k') (node_ids sh) (node_ids en)).
    assert (HP0 : P enode i1).
    { destruct (apply_slotmap_ids bij0 sh nd Hnd) as [N1 I1]. destruct (find_enode_ids D s2 nd enode Hen) as [N2 I2].
      split. apply (find_applied_id_fid D) in Hi1. cbn [aid] in Hi1. rewrite Hroot2 in Hi1. inversion Hi1. reflexivity.
      split. congruence. split. rewrite (find_enode_skel D s2 nd enode Hen). apply (apply_slotmap_skel bij0 sh nd Hnd).
      rewrite <- I1. exact I2. }
    assert (HPstep : forall s00 en a en' a', gfr D s2 s00 -> P en a -> find_enode D s00 en = Ok en' -> find_applied_id D s00 a = Ok a' -> P en' a').
    { intros s00 en a en' a' G [Q1 [Q2 [Qs Q3]]] Qe Qa.
      assert (Hf00 : forall j, fid s00 j = fid s2 j) by (apply gfr_fid; exact G).
      destruct (find_enode_ids D s00 en en' Qe) as [N2 I2].
      split. apply (find_applied_id_fid D) in Qa. rewrite Q1, Hf00, Hroot2 in Qa. inversion Qa. reflexivity.
      split. congruence. split. rewrite (find_enode_skel D s00 en en' Qe). exact Qs.
      eapply (F2_comp _ (fun k k' => fid s00 k = Ok k')). 2: exact Q3. 2: exact I2.
      intros a0 b0 c0 R1 R2. cbv beta in *. rewrite Hf00 in R2. rewrite (AnalysisModelUpper.fid_root_of D s2 a0 b0 R1) in R2. inversion R2; subst c0. exact R1. }
    destruct (hp_loop_inv D optN_eqb merge_or P 100 src_id s2 enode i1 enode' i1' s3 HPstep HP0 H3) as [G3 [Q1 [Q2 [Qs Q3]]]].
    assert (HI3 := FIv_gfr rho val _ s2 s3 HI2 G3).
    assert (Hf3 : forall j, fid s3 j = fid s2 j) by (apply gfr_fid; exact G3).
    assert (Hh3 : hashcons D s3 = hashcons D s2) by (apply G3).
    destruct t as [sh' bij]. destruct (shape_ids D s3 enode' sh' bij Ht) as [N3 I3].
    assert (Hn' : nvar sh = nvar sh') by congruence.
    assert (Hsk' : skel sh = skel sh'). { rewrite (shape_skel D s3 enode' sh' bij Ht). symmetry. exact Qs. }
    assert (Hids : Forall2 (fun k k' => fid s3 k = Ok k') (node_ids sh) (node_ids sh')).
    { eapply (F2_comp _ (fun k k' => fid s3 k = Ok k')). 2: exact Q3. 2: exact I3.
      intros a0 b0 c0 R1 R2. cbv beta in *. rewrite Hf3 in R2. rewrite (AnalysisModelUpper.fid_root_of D s2 a0 b0 R1) in R2. inversion R2; subst c0. rewrite Hf3. exact R1. }
    assert (Hroot3 : fid s3 i = Ok i) by (rewrite Hf3; exact Hroot2).
    assert (Hsrc3 : fid s3 src_id = Ok i) by (rewrite Hf3, Hf2; exact Hsrc1).
    assert (Hvi' : node_val rho val sh' = val i).
    { rewrite <- Hvi. symmetry. apply node_val_skel. exact Hn'. exact Hsk'. intros _. apply rho_sk. exact Hn'. exact Hsk'.
      eapply F2_imp. 2: exact Hids. intros k k' Hk. cbv beta in Hk. destruct HI3 as [Hsem3 _]. apply (sv_find rho val s3 Hsem3 k k' Hk). }
    (* make of sh and sh' agree in every state whose find refines the find of s3 *)
    assert (Hmkeq : forall s9 : egraph D, fmap D s3 s9 -> cf_mk_in s9 sh = cf_mk_in s9 sh').
    { intros s9 F9. unfold make_in. apply cf_make_skel. exact Hn'. exact Hsk'.
      eapply F2_imp. 2: exact Hids. intros k k' Hk. cbv beta in Hk. destruct (F9 k k' Hk) as [r' [R1 R2]].
      apply (adata_same_find s9 k k' r' R1 R2). }
    assert (Hfs3 : forall j, fid s3 j = fid s j) by (intro j; rewrite Hf3, Hf2, Hf1; reflexivity).
    destruct lk as [x|].
    - (* hash-cons hit: congruence *)
      bnd H pc s3' Hpc. apply (reads_ok D) in Hpc. destruct Hpc as [-> Hpc].
      destruct (handle_congruence_split D optN_eqb merge_or pc s3 s' H) as [t2 [pc2 [a [b [s3a [bb [Ht2 [Hpc2 [G3a [Ea [Eb Hu]]]]]]]]]]].
      assert (Hkey : fst t2 = sh').
      { apply (H_key i s1 c1 bij0 src_id nd p s2 sl enode i1 enode' i1' s3 (sh', bij) x pc t2); assumption. }
      rewrite Hkey in Hpc2.
      destruct (pc_from_shape_inv D s3 sh' pc2 Hpc2) as [j [cj [bj [src2 [Hj [Hcj [Hej Hpc2']]]]]]].
      assert (HS3 : S0 D s3) by (apply HI3).
      assert (Hsrc2 : fid s3 src2 = Ok j). { apply (sx_so D _ s3 HS3 j cj sh' bj src2 Hcj). apply na_get_in. exact Hej. }
      assert (Eaa : aid a = i). { rewrite Ea. apply (pc_from_src_id_fid D) in Hpc. rewrite Hsrc3 in Hpc. inversion Hpc. reflexivity. }
      assert (Ebb : aid b = j). { rewrite Eb. apply (pc_from_src_id_fid D) in Hpc2'. rewrite Hsrc2 in Hpc2'. inversion Hpc2'. reflexivity. }
      assert (HI3a := FIv_gfr rho val _ s3 s3a HI3 G3a).
      assert (Hf3a : forall j0, fid s3a j0 = fid s3 j0) by (apply gfr_fid; exact G3a).
      assert (Hj3a : stored s3a sh' j). { unfold AnalysisModelBase.stored. replace (hashcons D s3a) with (hashcons D s3) by (symmetry; apply G3a). exact Hj. }
      assert (Hrootj : fid s3a j = Ok j). { destruct HI3a as [_ [_ [_ HS3a]]]. apply (sx_hl D _ s3a HS3a sh' j Hj3a). }
      assert (Hvj : node_val rho val sh' = val j). { destruct HI3a as [Hsem3a _]. apply (sv_node rho val s3a Hsem3a sh' j Hj3a). }
      unfold uint in Hu.
      destruct (FIv_ui rho val [(sh, i)] ui_fuel a b s3a bb s' HI3a) with (2 := Hu) as [[Hsem' [Hst' [Hjv' HS']]] [F' [Hsto' [m [Hm1 Hm2]]]]].
      { intros rl rr Hl Hr. rewrite Eaa, Hf3a, Hroot3 in Hl. rewrite Ebb, Hrootj in Hr. inversion Hl; inversion Hr; subst rl rr.
        rewrite <- Hvi'. exact Hvj. }
      destruct (Hsto' sh' j Hj3a) as [c' [Hs' Hjc']].
      rewrite Eaa in Hm1. rewrite Ebb in Hm2. rewrite Hjc' in Hm2. inversion Hm2; subst m.
      assert (F39 : fmap D s3 s').
      { intros j0 r0 Hr0. apply F'. rewrite Hf3a. exact Hr0. }
      split.
      + split. exact Hsem'. split. exact Hst'. split. 2: exact HS'.
        intros c k Hc Hd. destruct (Hjv' c k Hc Hd) as [[x0 [Hx0 Hm0]]|[x0 [j0 [Hin [Hfj Hm0]]]]].
        * exists x0. split; assumption.
        * destruct Hin as [E|[]]. inversion E; subst x0 j0. rewrite Hm1 in Hfj. inversion Hfj; subst c.
          exists sh'. split. exact Hs'. rewrite <- (Hmkeq s' F39). exact Hm0.
      + intros j0 r0 Hr0. apply F39. rewrite Hfs3. exact Hr0.
    - (* miss: the node is re-inserted *)
      cbv iota beta in H.
      bnd H m s3a Hm. assert (G3a := hp_go_gfr D _ _ _ _ _ Hm).
      bnd H u5 s5 H5. destruct u5.
      assert (HI3a := FIv_gfr rho val _ s3 s3a HI3 G3a). destruct HI3a as [Hsem3a [Hst3a [Hjv3a HS3a]]].
      assert (Hf3a : forall j0, fid s3a j0 = fid s3 j0) by (apply gfr_fid; exact G3a).
      assert (Hno3a : na_get (hashcons D s3a) sh' = None).
      { replace (hashcons D s3a) with (hashcons D s3) by (symmetry; apply G3a). apply (lookup_none D s3 (sh', bij) Hlk). }
      rewrite Q1 in H5.
      destruct (raw_add_Sx D NoX i sh' _ src_id s3a s5 HS3a Hno3a (eq_trans (Hf3a i) Hroot3) (eq_trans (Hf3a src_id) Hsrc3) H5) as [HS5x [Hh5 [D5 Hp5]]].
      assert (Hf5 : forall j0, fid s5 j0 = fid s3a j0) by (intro j0; apply (find_id_dfr D); apply D5).
      assert (Ha5 : forall j0, cf_adata s5 j0 = cf_adata s3a j0) by (apply (dfr_dsame D); exact D5).
      assert (Hmk5 : forall x, cf_mk_in s5 x = cf_mk_in s3a x) by (intro x; apply cf_mk_in_ext; intros k _; apply Ha5).
      assert (F35 : fmap D s3 s5). { apply fmap_fid_same_cf. intro j0. rewrite Hf5, Hf3a. reflexivity. }
      assert (Hids5 : Forall2 (fun k k' => fid s5 k = Ok k') (node_ids sh) (node_ids sh')).
      { eapply F2_imp. 2: exact Hids. intros k k' Hk. cbv beta. rewrite Hf5, Hf3a. exact Hk. }
      assert (Hs5 : stored s5 sh' i). { unfold AnalysisModelBase.stored. rewrite Hh5. apply na_get_set_same. }
      assert (Hroot5 : fid s5 i = Ok i) by (rewrite Hf5, Hf3a; exact Hroot3).
      assert (Hback5 : forall x c, stored s5 x c -> x <> sh' -> stored s3a x c).
      { intros x c Hx Hne. unfold AnalysisModelBase.stored in *. rewrite Hh5 in Hx. rewrite na_get_set_other in Hx. exact Hx. exact Hne. }
      assert (Hdd : forall j0, cf_adata s5 j0 = cf_adata s1 j0).
      { intro j0. rewrite Ha5. rewrite (gfr_adata_cf s3 s3a G3a). rewrite (gfr_adata_cf s2 s3 G3). apply Ha2. }
      assert (HI5 : FI rho val s5).
      { split; [|split; [|split]].
        - constructor.
          + intros j0 r Hr. rewrite Hf5 in Hr. apply (sv_find rho val s3a Hsem3a j0 r Hr).
          + intros x c Hx. destruct (node_eq_dec' x sh') as [->|Hne].
            * unfold AnalysisModelBase.stored in Hx, Hs5. rewrite Hs5 in Hx. inversion Hx; subst c. exact Hvi'.
            * apply (sv_node rho val s3a Hsem3a x c). apply Hback5; assumption.
          + intros j0 d Hd. rewrite Ha5 in Hd. apply (sv_data rho val s3a Hsem3a j0 d Hd).
        - intros x j Hx Hn _. destruct (node_eq_dec' x sh') as [->|Hne].
          + unfold AnalysisModelBase.stored in Hx, Hs5. rewrite Hs5 in Hx. inversion Hx; subst j.
            destruct Hat1 as [d [w [A1 [A2 A3]]]].
            exists d, w. split. rewrite Hdd. exact A1. split. 2: exact A3.
            rewrite <- (Hmkeq s5 F35). rewrite <- A2. apply cf_mk_in_ext. intros k _. apply Hdd.
          + assert (A : exists d v, cf_adata s3a j = Ok d /\ cf_mk_in s3a x = Ok v /\ fle v d).
            { apply Hst3a. apply Hback5; assumption.
              unfold AnalysisModelBase.npend in *. rewrite <- Hp5. exact Hn. intro F. exact F. }
            destruct A as [d [w [A1 [A2 A3]]]]. exists d, w. split. rewrite Ha5. exact A1. split. 2: exact A3.
            rewrite Hmk5. exact A2.
        - intros c k Hc Hd. rewrite Hf5 in Hc. rewrite Ha5 in Hd.
          destruct (Hjv3a c k Hc Hd) as [[x0 [Hx0 Hm0]]|[x0 [j0 [Hin [Hfj Hm0]]]]].
          + exists x0. split. unfold AnalysisModelBase.stored in *. rewrite Hh5. rewrite na_get_set_other. exact Hx0.
            intro E. subst x0. rewrite Hno3a in Hx0. discriminate. rewrite Hmk5. exact Hm0.
          + destruct Hin as [E|[]]. inversion E; subst x0 j0. rewrite Hf3a, Hroot3 in Hfj. inversion Hfj; subst c.
            exists sh'. split. exact Hs5. rewrite <- (Hmkeq s5 F35). rewrite Hmk5. exact Hm0.
        - apply (Sx_kids_alive D NoX sh' s5 HS5x). intros i0 _ k Hk.
          destruct (F2_in_r _ _ _ k Hids5 Hk) as [k0 Hk0]. cbv beta in Hk0. eapply (AnalysisModelUpper.fid_root_of D). exact Hk0. }
      assert (G5 : gfr D s5 s') by (eapply determine_self_symmetries_gfr; exact H).
      split. eapply FI_gfr. exact HI5. exact G5.
      apply fmap_fid_same_cf. intro j0. rewrite (gfr_fid D s5 s' G5). rewrite Hf5, Hf3a. apply Hfs3.
  Qed.
End Hp.

Check FI_hp_round.
Print Assumptions FI_hp_round.
