(* EGraph/AnalysisModelFoldInst.v — CONSTANT FOLDING (ModelAMachine.make_constfold, merge = l.or(r), modify = add Num k + union)
   against the analysis interface of AnalysisModelBase.v (Section AMF):

   (1) which hypotheses hold for (make_constfold, merge_or):
         merge_assoc, merge_idem                       hold               (merge_or_assoc, merge_or_idem)
         merge_comm                                    FAILS              (merge_or_not_comm); holds on COMPATIBLE data (merge_or_comm_compat)
         the order  le x y := merge x y = y            is the FLAT order  fle x y := x = None \/ x = y      (le_fle)
         merge d v = d  (how `stab_at` says "v below d")  is NOT the order: it holds for every d = Some _  (below_weak);
                                                       on compatible data it is the order (below_compat)
         make_spec (make calls get on ALL children)    FAILS for an erring get (cf_make_spec_fails); make only reads the
                                                       children of Add/Mul nodes (cf_make_some)
         make_below_kids                               holds, unconditionally, BECAUSE merge is left-biased (cf_below_kids)
         make_mono (flat order)                        holds              (cf_make_mono)
   (2) the final step of the fixpoint theorem for constant folding, from an invariant in the FLAT order:
         cf_stable_in s   make of every stored node is None or the datum of its class
         cf_just s        a live class with datum Some k stores a node whose make is Some k   (what the modify hook provides: cf_num)
       cf_fixpoint : cf_stable_in s -> cf_just s -> datum of every live class = fold_left merge_or over make of its stored nodes.
   (3) executable checkers (reflected: *_sound) for these, used in AnalysisModelFoldEval.v. *)
From SE Require Import EGraph.ModelA EGraph.ModelAMachine EGraph.AnalysisFix EGraph.AnalysisModelChk EGraph.AnalysisModelBase.
From Coq Require Import Lia Arith Bool List NArith.
Import ListNotations.

Notation D := (option N).
Notation cf_adata := (analysis_data D).
Notation cf_mk_in := (make_in D make_constfold).

(* ------------------------------------------------------------------ *)
(* (1) the algebra of l.or(r) *)
Definition compat (x y : D) : Prop := forall a b, x = Some a -> y = Some b -> a = b.
Definition fle (v d : D) : Prop := v = None \/ v = d.

Lemma merge_or_assoc : forall x y z, merge_or x (merge_or y z) = merge_or (merge_or x y) z.
Proof. intros [a|] [b|] [c|]; reflexivity. Qed.
Lemma merge_or_idem : forall x, merge_or x x = x.
Proof. intros [a|]; reflexivity. Qed.
Lemma merge_or_not_comm : merge_or (Some 1%N) (Some 2%N) <> merge_or (Some 2%N) (Some 1%N).
Proof. cbn. discriminate. Qed.
Lemma merge_or_comm_compat : forall x y, compat x y -> merge_or x y = merge_or y x.
Proof. intros [a|] [b|] Hc; cbn; try reflexivity. rewrite (Hc a b eq_refl eq_refl). reflexivity. Qed.
Lemma merge_or_left_absorb : forall x y, merge_or (merge_or x y) x = merge_or x y.
Proof. intros [a|] [b|]; reflexivity. Qed.
Lemma optN_eqb_spec : forall x y, optN_eqb x y = true <-> x = y.
Proof.
  intros [a|] [b|]; cbn; split; intro He; try discriminate; try reflexivity.
  - apply N.eqb_eq in He. subst b. reflexivity.
  - inversion He. apply N.eqb_refl.
Qed.

Lemma le_fle : forall x y, AnalysisFix.le D merge_or x y <-> fle x y.
Proof.
  intros [a|] [b|]; unfold AnalysisFix.le, fle; cbn; split; intro He.
  - right. exact He.
  - destruct He as [He|He]. discriminate. exact He.
  - discriminate.
  - destruct He as [He|He]; discriminate.
  - left. reflexivity.
  - reflexivity.
  - left. reflexivity.
  - reflexivity.
Qed.
Lemma fle_refl : forall x, fle x x.
Proof. intro x. right. reflexivity. Qed.
Lemma fle_trans : forall x y z, fle x y -> fle y z -> fle x z.
Proof. intros x y z [-> | ->] Hyz. left. reflexivity. exact Hyz. Qed.
Lemma fle_antisym : forall x y, fle x y -> fle y x -> x = y.
Proof. intros x y [-> | ->] [Hy|Hy]; congruence. Qed.
(* "below" as update_analysis tests it is weaker than the order ... *)
Lemma below_weak : forall a v, merge_or (Some a) v = Some a.
Proof. reflexivity. Qed.
Lemma below_not_order : merge_or (Some 2%N) (Some 3%N) = Some 2%N /\ ~ fle (Some 3%N) (Some 2%N).
Proof. split. reflexivity. intros [He|He]; discriminate. Qed.
(* ... and is the order on compatible data *)
Lemma below_compat : forall d v, compat d v -> (merge_or d v = d <-> fle v d).
Proof.
  intros [a|] [b|] Hc; unfold fle; cbn; split; intro He.
  - right. rewrite (Hc a b eq_refl eq_refl). reflexivity.
  - reflexivity.
  - left. reflexivity.
  - reflexivity.
  - discriminate.
  - destruct He as [He|He]; discriminate.
  - left. reflexivity.
  - reflexivity.
Qed.
(* the upper bound on the right needs compatibility *)
Lemma ub_l : forall x y, fle x (merge_or x y).
Proof. intros [a|] y. right. reflexivity. left. reflexivity. Qed.
Lemma ub_r_compat : forall x y, compat x y -> fle y (merge_or x y).
Proof. intros [a|] [b|] Hc; cbn. right. rewrite (Hc a b eq_refl eq_refl). reflexivity. left. reflexivity. right. reflexivity. left. reflexivity. Qed.
Lemma ub_r_fails : ~ fle (Some 2%N) (merge_or (Some 1%N) (Some 2%N)).
Proof. cbn. intros [He|He]; discriminate. Qed.

(* ------------------------------------------------------------------ *)
(* (1) make_constfold *)
(* a constant comes from a Num node or from an Add/Mul node whose two children are constants *)
Lemma cf_make_some : forall get n x, make_constfold get n = Ok (Some x) ->
  (nargs n = [APay (PVu32 x)] /\ nvar n = 17%nat) \/
  (exists a b xa xb, nargs n = [AApp a; AApp b] /\ get (aid a) = Ok (Some xa) /\ get (aid b) = Ok (Some xb) /\
     ((nvar n = 13%nat /\ x = ((xa + xb) mod u32_mod)%N) \/ (nvar n = 14%nat /\ x = ((xa * xb) mod u32_mod)%N))).
Proof.
  intros get n x Hm. unfold make_constfold in Hm.
  destruct (nargs n) as [|f1 [|f2 [|f3 r]]] eqn:En.
  - discriminate.
  - destruct f1 as [s|a|s f|p]; try discriminate. destruct p as [k|b|t]; try discriminate.
    destruct (Nat.eqb (nvar n) 17) eqn:Ev; [|discriminate]. apply Nat.eqb_eq in Ev. inversion Hm. subst x. left. split; [reflexivity|exact Ev].
  - destruct f1 as [s|a|s f|p]; try discriminate. 2: { destruct p; discriminate. }
    destruct f2 as [s|b|s f|p]; try discriminate.
    right. exists a, b.
    destruct (Nat.eqb (nvar n) 13) eqn:E13.
    + apply Nat.eqb_eq in E13. destruct (get (aid a)) as [[xa|]|e] eqn:Ea; try discriminate; destruct (get (aid b)) as [[xb|]|e'] eqn:Eb; try discriminate.
      cbn in Hm. inversion Hm. exists xa, xb. split; [reflexivity|split; [reflexivity|split; [reflexivity|left; split; [exact E13|reflexivity]]]].
    + destruct (Nat.eqb (nvar n) 14) eqn:E14; [|discriminate].
      apply Nat.eqb_eq in E14. destruct (get (aid a)) as [[xa|]|e] eqn:Ea; try discriminate; destruct (get (aid b)) as [[xb|]|e'] eqn:Eb; try discriminate.
      cbn in Hm. inversion Hm. exists xa, xb. split; [reflexivity|split; [reflexivity|split; [reflexivity|right; split; [exact E14|reflexivity]]]].
  - destruct f1 as [s|a|s f|p]; try discriminate. 2: { destruct p; discriminate. }
    destruct f2 as [s|b|s f|p]; discriminate.
Qed.

Lemma node_ids_2 : forall n a b, nargs n = [AApp a; AApp b] -> node_ids n = [aid a; aid b].
Proof. intros n a b En. unfold node_ids, app_occ. rewrite En. reflexivity. Qed.
Lemma node_ids_num : forall n p, nargs n = [APay p] -> node_ids n = [].
Proof. intros n p En. unfold node_ids, app_occ. rewrite En. reflexivity. Qed.

(* make_below_kids, in the form `make_below_child` of AnalysisModelStab.v: no `Dok` needed *)
Theorem cf_below_kids : forall get n v k d, make_constfold get n = Ok v -> In k (node_ids n) -> get k = Ok d -> merge_or d v = d.
Proof.
  intros get n v k d Hm Hk Hd. destruct d as [x|]. reflexivity.
  destruct v as [y|]; [|reflexivity]. exfalso.
  destruct (cf_make_some get n y Hm) as [[En _]|[a [b [xa [xb [En [Ha [Hb _]]]]]]]].
  - rewrite (node_ids_num n _ En) in Hk. destruct Hk.
  - rewrite (node_ids_2 n a b En) in Hk. destruct Hk as [<- | [<- | []]]; congruence.
Qed.

(* make is monotone for the flat order *)
Definition fle_res (r r' : res D) : Prop := forall v, r = Ok v -> exists v', r' = Ok v' /\ fle v v'.
Theorem cf_make_mono : forall get get' n v v', (forall k, In k (node_ids n) -> fle_res (get k) (get' k)) ->
  make_constfold get n = Ok v -> make_constfold get' n = Ok v' -> fle v v'.
Proof.
  intros get get' n v v' Hg Hm Hm'. destruct v as [x|]; [|left; reflexivity]. right.
  destruct (cf_make_some get n x Hm) as [[En Ev]|[a [b [xa [xb [En [Ha [Hb Hx]]]]]]]].
  - unfold make_constfold in Hm'. rewrite En, Ev in Hm'. cbn in Hm'. inversion Hm'. reflexivity.
  - assert (Ha' : get' (aid a) = Ok (Some xa)).
    { destruct (Hg (aid a)) with (v := Some xa) as [w [Hw [Hf|Hf]]]. rewrite (node_ids_2 n a b En). left. reflexivity. exact Ha. discriminate. rewrite Hf. exact Hw. }
    assert (Hb' : get' (aid b) = Ok (Some xb)).
    { destruct (Hg (aid b)) with (v := Some xb) as [w [Hw [Hf|Hf]]]. rewrite (node_ids_2 n a b En). right. left. reflexivity. exact Hb. discriminate. rewrite Hf. exact Hw. }
    unfold make_constfold in Hm'. rewrite En in Hm'. rewrite Ha', Hb' in Hm'.
    destruct Hx as [[Ev ->]|[Ev ->]]; rewrite Ev in Hm'; cbn in Hm'; inversion Hm'; reflexivity.
Qed.

(* make_spec (every child is read) fails: a node that is not Add/Mul/Num does not read its children *)
Lemma cf_make_spec_fails :
  let n := {| nvar := 6; nargs := [AApp {| aid := 0; am := [] |}] |} in
  let get := fun _ : N => @Err D OutOfBounds in
  make_constfold get n = Ok None /\ (do ds <- mapr get (node_ids n); Ok (@None N)) = Err OutOfBounds.
Proof. split; reflexivity. Qed.

(* ------------------------------------------------------------------ *)
(* (2) the invariant in the flat order, and the final step *)
Section Final.
  Notation eg := (egraph D).
  (* make of every stored node is None or the datum of its class *)
  Definition cf_stable_in (s : eg) : Prop :=
    forall sh i, In (sh, i) (hashcons D s) -> exists d v, cf_adata s i = Ok d /\ cf_mk_in s sh = Ok v /\ fle v d.
  (* a live class with a known constant stores a node that makes it *)
  Definition cf_just (s : eg) : Prop :=
    forall c k, In c (ids D s) -> cf_adata s c = Ok (Some k) -> exists sh, In (sh, c) (hashcons D s) /\ cf_mk_in s sh = Ok (Some k).
  (* what the modify hook provides: the node Num k itself *)
  Definition cf_num (s : eg) : Prop :=
    forall c k, In c (ids D s) -> cf_adata s c = Ok (Some k) -> In (num_node k, c) (hashcons D s).

  Lemma cf_mk_num : forall s k, cf_mk_in s (num_node k) = Ok (Some k).
  Proof. intros s k. reflexivity. Qed.
  Lemma cf_num_just : forall s, cf_num s -> cf_just s.
  Proof. intros s Hn c k Hc Hd. exists (num_node k). split. apply Hn; assumption. apply cf_mk_num. Qed.

  Lemma fold_or_none : forall vs, Forall (fun v : D => v = None) vs -> fold_left merge_or vs None = None.
  Proof. induction vs as [|v t IH]; intro Hf. reflexivity. inversion Hf as [|x l Hv Ht]; subst. cbn. apply IH. exact Ht. Qed.
  Lemma fold_or_some : forall vs a, fold_left merge_or vs (Some a) = Some a.
  Proof. induction vs as [|v t IH]; intro a. reflexivity. cbn. apply IH. Qed.
  Lemma fold_or_flat : forall vs v0 d, Forall (fun v => fle v d) (v0 :: vs) -> (forall k, d = Some k -> In d (v0 :: vs)) ->
    fold_left merge_or vs v0 = d.
  Proof.
    induction vs as [|v t IH]; intros v0 d Hf Hin.
    - cbn. inversion Hf as [|x l Hv _]; subst. destruct Hv as [-> | ->]. 2: reflexivity.
      destruct d as [k|]. 2: reflexivity. destruct (Hin k eq_refl) as [He|[]]. exact He.
    - inversion Hf as [|x l Hv0 Ht]; subst. cbn [fold_left]. destruct v0 as [a|].
      + cbn. rewrite fold_or_some. destruct Hv0 as [He|He]. discriminate. exact He.
      + cbn. apply IH. exact Ht. intros k Hk. destruct (Hin k Hk) as [He|Hi]. subst d. discriminate. exact Hi.
  Qed.

  Lemma mapr_flat : forall (f : node -> res D) d l, (forall sh, In sh l -> exists v, f sh = Ok v /\ fle v d) ->
    exists vs, mapr f l = Ok vs /\ Forall (fun v => fle v d) vs /\ (forall sh v, In sh l -> f sh = Ok v -> In v vs).
  Proof.
    intros f d. induction l as [|x t IH]; intro Hl.
    - exists []. split. reflexivity. split. constructor. intros sh v [].
    - destruct (Hl x (or_introl eq_refl)) as [v [Hv Hle]].
      destruct (IH (fun sh Hs => Hl sh (or_intror Hs))) as [vs [Hm [Hf Hin]]].
      exists (v :: vs). split. cbn [mapr]. rewrite Hv. cbn [bind]. rewrite Hm. reflexivity.
      split. constructor; assumption.
      intros sh w [<- | Hs] Hw. left. congruence. right. eapply Hin; eassumption.
  Qed.

  Theorem cf_fixpoint : forall s, cf_stable_in s -> cf_just s ->
    forall c d, In c (ids D s) -> cf_adata s c = Ok d ->
    forall sh0 rest, map fst (filter (fun e => N.eqb (snd e) c) (hashcons D s)) = sh0 :: rest ->
    exists v0 vs, cf_mk_in s sh0 = Ok v0 /\ mapr (cf_mk_in s) rest = Ok vs /\ d = fold_left merge_or vs v0.
  Proof.
    intros s Hst Hj c d Hc Hd sh0 rest Hn.
    assert (Hmem : forall sh, In sh (sh0 :: rest) <-> In (sh, c) (hashcons D s)).
    { intro sh. rewrite <- Hn. rewrite in_map_iff. split.
      - intros [[sh' i] [He Hi]]. cbn in He. subst sh'. apply filter_In in Hi. destruct Hi as [Hi Hq]. cbn in Hq. apply N.eqb_eq in Hq. subst i. exact Hi.
      - intro Hi. exists (sh, c). split. reflexivity. apply filter_In. split. exact Hi. cbn. apply N.eqb_refl. }
    destruct (mapr_flat (cf_mk_in s) d (sh0 :: rest)) as [vs0 [Hm [Hf Hin]]].
    { intros sh Hs. apply Hmem in Hs. destruct (Hst sh c Hs) as [d' [v [Hd' [Hv Hle]]]]. exists v. split. exact Hv. congruence. }
    cbn [mapr] in Hm. destruct (cf_mk_in s sh0) as [v0|e] eqn:E0; [|discriminate]. cbn [bind] in Hm.
    destruct (mapr (cf_mk_in s) rest) as [vs|e] eqn:Er; [|discriminate]. cbn [bind] in Hm. inversion Hm; subst vs0.
    exists v0, vs. split. reflexivity. split. reflexivity. symmetry. apply fold_or_flat. exact Hf.
    intros k Hk. subst d. destruct (Hj c k Hc Hd) as [sh [Hs Hv]]. apply (Hin sh). apply Hmem. exact Hs. exact Hv.
  Qed.

  (* ---------------- (3) checkers ---------------- *)
  Definition fleb (v d : D) : bool :=
    match v with None => true | Some x => match d with Some y => N.eqb x y | None => false end end.
  Definition compatb (x y : D) : bool := match x, y with Some a, Some b => N.eqb a b | _, _ => true end.
  Lemma fleb_spec : forall v d, fleb v d = true <-> fle v d.
  Proof.
    intros [x|] [y|]; unfold fle; cbn; split; intro He; try discriminate; try (left; reflexivity); try reflexivity.
    - apply N.eqb_eq in He. subst y. right. reflexivity.
    - destruct He as [He|He]. discriminate. inversion He. apply N.eqb_refl.
    - destruct He as [He|He]; discriminate.
  Qed.
  Lemma compatb_spec : forall x y, compatb x y = true <-> compat x y.
  Proof.
    intros [a|] [b|]; unfold compat; cbn; split; intro He; try reflexivity; try (intros a' b' Ha Hb; discriminate).
    - intros a' b' Ha Hb. inversion Ha. inversion Hb. subst. apply N.eqb_eq. exact He.
    - apply N.eqb_eq. apply He; reflexivity.
  Qed.

  Definition cf_entryb (s : eg) (e : node * N) : bool :=
    match cf_adata s (snd e), cf_mk_in s (fst e) with Ok d, Ok v => fleb v d | _, _ => false end.
  (* every stored node (operation level) *)
  Definition cf_stable_inb (s : eg) : bool := forallb (cf_entryb s) (hashcons D s).
  (* loop heads: pending entries are exempt from stability ... *)
  Definition cf_stabb (s : eg) : bool := forallb (fun e => pend_mem D s (fst e) || cf_entryb s e) (hashcons D s).
  (* ... but not from COMPATIBILITY: make of every stored node and the datum of its class are never two different constants *)
  Definition cf_compatb (s : eg) : bool :=
    forallb (fun e => match cf_adata s (snd e), cf_mk_in s (fst e) with Ok d, Ok v => compatb d v | _, _ => false end) (hashcons D s).
  Definition cf_justb (s : eg) : bool :=
    forallb (fun c => match cf_adata s c with
                      | Ok (Some k) => existsb (fun e => N.eqb (snd e) c && match cf_mk_in s (fst e) with Ok (Some k') => N.eqb k' k | _ => false end) (hashcons D s)
                      | Ok None => true
                      | Err _ => false end) (ids D s).
  Definition cf_numb (s : eg) : bool :=
    forallb (fun c => match cf_adata s c with
                      | Ok (Some k) => existsb (fun e => N.eqb (snd e) c && node_eqb (fst e) (num_node k)) (hashcons D s)
                      | Ok None => true
                      | Err _ => false end) (ids D s).

  Lemma cf_stable_inb_sound : forall s, cf_stable_inb s = true -> cf_stable_in s.
  Proof.
    intros s Hb sh i Hi. unfold cf_stable_inb in Hb. rewrite forallb_forall in Hb. specialize (Hb (sh, i) Hi).
    unfold cf_entryb in Hb. cbn [fst snd] in Hb.
    destruct (cf_adata s i) as [d|e]; [|discriminate]. destruct (cf_mk_in s sh) as [v|e]; [|discriminate].
    exists d, v. split. reflexivity. split. reflexivity. apply fleb_spec. exact Hb.
  Qed.
  Lemma cf_justb_sound : forall s, cf_justb s = true -> cf_just s.
  Proof.
    intros s Hb c k Hc Hd. unfold cf_justb in Hb. rewrite forallb_forall in Hb. specialize (Hb c Hc). rewrite Hd in Hb.
    apply existsb_exists in Hb. destruct Hb as [[sh i] [Hi Hb]]. cbn [fst snd] in Hb. apply andb_true_iff in Hb. destruct Hb as [Hq Hv].
    apply N.eqb_eq in Hq. subst i. exists sh. split. exact Hi.
    destruct (cf_mk_in s sh) as [[k'|]|e]; try discriminate. apply N.eqb_eq in Hv. subst k'. reflexivity.
  Qed.
  Lemma cf_numb_sound : forall s, cf_numb s = true -> cf_num s.
  Proof.
    intros s Hb c k Hc Hd. unfold cf_numb in Hb. rewrite forallb_forall in Hb. specialize (Hb c Hc). rewrite Hd in Hb.
    apply existsb_exists in Hb. destruct Hb as [[sh i] [Hi Hb]]. cbn [fst snd] in Hb. apply andb_true_iff in Hb. destruct Hb as [Hq Hv].
    apply N.eqb_eq in Hq. subst i. apply node_eqb_true in Hv. subst sh. exact Hi.
  Qed.

  (* the checked final step *)
  Corollary cf_fixpoint_checked : forall s, cf_stable_inb s = true -> cf_numb s = true ->
    forall c d, In c (ids D s) -> cf_adata s c = Ok d ->
    forall sh0 rest, map fst (filter (fun e => N.eqb (snd e) c) (hashcons D s)) = sh0 :: rest ->
    exists v0 vs, cf_mk_in s sh0 = Ok v0 /\ mapr (cf_mk_in s) rest = Ok vs /\ d = fold_left merge_or vs v0.
  Proof. intros s H1 H2. apply cf_fixpoint. apply cf_stable_inb_sound. exact H1. apply cf_num_just. apply cf_numb_sound. exact H2. Qed.
End Final.

Print Assumptions cf_below_kids.
Print Assumptions cf_make_mono.
Print Assumptions cf_fixpoint.
Print Assumptions cf_fixpoint_checked.
