(* EGraph/AnalysisModelFoldInv.v — C14 for CONSTANT FOLDING: the concrete invariant of the reachable states, what is
   proved of its preservation, and the theorem relative to what is not.

   THE STATEMENT OF AnalysisModelFold.v IS FALSE AS IT STANDS (AnalysisModelFoldSemEval.v: reachF_X, H_inv_false,
   fixpoint_false): a valuation rho that distinguishes two leaves differing only by a slot name admits "sound" unions that
   put Num 4 and Num 5 into one class.  The premise needed on rho:
       rho_sk rho := forall n m, nvar n = nvar m -> skel n = skel m -> rho n = rho m
   (rho is a function of the variant and the skeleton — payloads and binder structure, not slot names; AnalysisModelFoldSkel.v).

   THE INVARIANT (validated at every loop head and after every operation: AnalysisModelFoldSemEval.v eval_sem_ok,
   eval_handles_ok):
       FJ hts s := exists val, FI rho val s /\ hts_ok val hts s
         FI rho val s   (AnalysisModelFoldUi.v)   semv rho val s        val interprets s (AnalysisModelFoldSem.v)
                                                /\ cf_stabx_m NoX s      flat stability of the stored non-pending nodes
                                                /\ cf_justs_m s          a root with datum Some k stores a node making Some k
                                                /\ S0 D s                the structural invariant Sx of AnalysisModelInv.v
         hts_ok val hts s   every handle (a, t) returned so far is alive and val (aid a) = sval rho t

   PROVED, no hypothesis (each `Closed under the global context`), the per-step lemmas in the SEMANTIC form — the val of the
   invariant is the SAME before and after (except at the id created by an insertion):
       cf_update_analysis   (AnalysisModelFoldUpd.v)   update_analysis re-establishes stability, keeps semv and justification
       cf_move_to           (AnalysisModelFoldMove.v)  move_to keeps FI when val from = val to           (a SOUND union)
       FI_gfr, FI_ui, FI_union_round (AnalysisModelFoldUi.v)  quiet frames; union_internal / eg_union-without-rebuild keep FI
                                                       when the two roots have the same value
       skeleton lemmas      (AnalysisModelFoldSkel.v)  shape / find_enode / apply_slotmap / ... keep the skeleton; make_constfold
                                                       and node_val agree on nodes with the same nvar, skeleton, find-equal kids
       rebuild1_PT, eg_add1_PT, eg_union1_PT (AnalysisModelFoldTop2.v)  the RELATIONAL control structure for modify_kind = 1:
                                                       ghost state (val), transition relation, node-aware insertion, hook
       FI_add_round         (AnalysisModelFoldAdd.v)   the miss branch of add_internal (premises rho_sk, keeps_hc, kids_data s, kids of
                                                       the shape alive): FI for val' extending val at the new id, kids_data s',
                                                       val' (aid a) = node_val rho val (fst t)
   PROVED relative to ONE hypothesis:
       FI_hp_round          (AnalysisModelFoldHp.v)    one round of the pending loop, both kinds, same val, with the LOCAL key premise of
                                                       AnalysisModelRound.hp_round_local (discharged by AnalysisModelClosed.key_at_hit_MI,
                                                       which is generic in the analysis) — relative to
                                                         Hyp_kids_data : forall X s, Sx D X s -> kids_data s
                                                       (every child id of a stored node has a datum; to be carried as the invariant
                                                       conjunct `kids_data` that FI_add_round already carries)
   HERE: FJ gives H_inv of AnalysisModelFold.v, hence the fixpoint theorem, for every history whose OPERATIONS keep FJ
   (Section hypotheses H_add_op, H_union_op: the operation-level closure of FJ — what the per-step lemmas above are the
   bricks of; not yet assembled: the instantiation of AnalysisModelFoldTop2.v with P val s := FI rho val s /\ STR s, where STR
   is the structural run invariant of AnalysisModelClosed.v (MI, hc_ok, hok of the handles, through the simulation by
   Model.v) that provides the key fact of handle_pending's hash-cons hit and keeps_hc of the insertion). *)
From SE Require Import EGraph.ModelA EGraph.ModelAMachine EGraph.AnalysisFix EGraph.AnalysisModelChk EGraph.AnalysisModelBase
  EGraph.AnalysisModelStab EGraph.AnalysisModelUF EGraph.AnalysisModelAbs EGraph.AnalysisModelFrames EGraph.AnalysisModelInv EGraph.AnalysisModelStr EGraph.AnalysisModelReach
  EGraph.AnalysisModelFoldInst EGraph.AnalysisModelFoldTop EGraph.AnalysisModelFold EGraph.AnalysisModelFoldSem
  EGraph.AnalysisModelFoldMove EGraph.AnalysisModelFoldUi.
From SE Require EGraph.OpsPreFacts.
From Coq Require Import Lia Arith Bool List NArith.
Import ListNotations.

Section Inv.
  Variable rho : node -> option N.
  Notation eg := (egraph D).
  Notation NoX := (fun _ : node => False).

  Definition hts_ok (val : N -> option N) (hts : list (appid * rterm)) (s : eg) : Prop :=
    forall a t, In (a, t) hts -> (exists r, find_id D s (aid a) = Ok r) /\ val (aid a) = sval rho t.

  Definition FJ (hts : list (appid * rterm)) (s : eg) : Prop := exists val, FI rho val s /\ hts_ok val hts s.

  (* ---------------- FJ holds initially ---------------- *)
  Lemma FI_empty : forall val, FI rho val (empty_egraph D).
  Proof.
    intro val. split; [|split; [|split]].
    - split.
      + intros i r H. discriminate.
      + intros sh c H. discriminate.
      + intros i d H. discriminate.
    - intros sh i H. discriminate.
    - intros c k H. discriminate.
    - apply Sx_empty.
  Qed.
  Lemma FJ_empty : FJ [] (empty_egraph D).
  Proof. exists (fun _ => None). split. apply FI_empty. intros a t []. Qed.

  (* ---------------- FJ gives the invariant H_inv of AnalysisModelFold.v ---------------- *)
  Lemma stored_of_in : forall (s : eg) sh i, AnalysisModelFrames.na_nodup (hashcons D s) -> In (sh, i) (hashcons D s) -> AnalysisModelBase.stored D s sh i.
  Proof. intros s sh i Hnd Hin. apply na_get_nodup_in; assumption. Qed.

  Theorem FI_cf_stab : forall val s, FI rho val s -> cf_stab s.
  Proof.
    intros val s (_ & Hst & _ & HS) sh i Hin Hn.
    apply (Hst sh i). apply stored_of_in. apply (sx_nd D _ s HS). exact Hin. exact Hn. intro F. exact F.
  Qed.

  Theorem FI_cf_just : forall val s, FI rho val s -> cf_just s.
  Proof.
    intros val s (_ & _ & Hj & HS) c k Hc Hd.
    assert (Hr : find_id D s c = Ok c).
    { apply ids_root in Hc. change (fidl (unionfind D s) c = Ok c). apply fidl_root. exact Hc. }
    destruct (Hj c k Hr Hd) as [sh [Hs Hm]]. exists sh. split. 2: exact Hm.
    apply na_get_in. exact Hs.
  Qed.

  (* the data of one class are pairwise compatible, and make of a stored node is compatible with the datum of its class *)
  Theorem FI_compat : forall val s sh c v d, FI rho val s -> AnalysisModelBase.stored D s sh c ->
    cf_mk_in s sh = Ok v -> cf_adata s c = Ok d -> compat d v.
  Proof. intros val s sh c v d (Hv & _) Hs Hm Hd. eapply sem_compat; eassumption. Qed.

  (* ---------------- the theorem, relative to the operation-level closure of FJ ---------------- *)
  Hypothesis H_add_op : forall s hts t a s', reachF rho s hts -> FJ hts s ->
    OpsPreFacts.term_static t -> arith t -> cf_add_e t s = Ok (a, s') -> FJ ((a, t) :: hts) s'.
  Hypothesis H_union_op : forall s hts l tl r tr b s', reachF rho s hts -> FJ hts s ->
    In (l, tl) hts -> In (r, tr) hts -> sval rho tl = sval rho tr ->
    cf_union_e l r s = Ok (b, s') -> FJ hts s'.

  Theorem reachF_FJ : forall s hts, reachF rho s hts -> FJ hts s.
  Proof.
    intros s hts Hr. induction Hr as [|s hts t a s' Hr IH Hst Har H|s hts l tl r tr b s' Hr IH Hl Hr' Hsv H].
    - exact FJ_empty.
    - eapply H_add_op; eassumption.
    - eapply H_union_op. exact Hr. exact IH. exact Hl. exact Hr'. 2: exact H.
      destruct Hsv as [[k [E1 E2]]|[E1 E2]]; congruence.
  Qed.

  Theorem H_inv_of_FJ : forall s hts, reachF rho s hts -> cf_stab s /\ cf_just s.
  Proof.
    intros s hts Hr. destruct (reachF_FJ s hts Hr) as [val [HI _]]. split. eapply FI_cf_stab. exact HI. eapply FI_cf_just. exact HI.
  Qed.

  Theorem constfold_data_is_fixpoint_reachable :
    forall s hts, reachF rho s hts ->
    forall c d, In c (ids D s) -> analysis_data D s c = Ok d ->
    forall sh0 rest, map fst (filter (fun e => N.eqb (snd e) c) (hashcons D s)) = sh0 :: rest ->
    exists v0 vs, make_in D make_constfold s sh0 = Ok v0 /\ mapr (make_in D make_constfold s) rest = Ok vs /\
                  d = fold_left merge_or vs v0.
  Proof. exact (constfold_data_is_fixpoint_all_histories rho H_inv_of_FJ). Qed.
End Inv.

Print Assumptions FJ_empty.
Print Assumptions FI_cf_stab.
Print Assumptions FI_cf_just.
Print Assumptions FI_compat.
Print Assumptions reachF_FJ.
Print Assumptions constfold_data_is_fixpoint_reachable.
