(* EGraph/AnalysisModelFoldMove.v — move_to (the union of two classes) for CONSTANT FOLDING keeps the semantic invariant
   (semv), stability in the flat order (cf_stabx_m), justification (cf_justs_m) and the structural invariant S0, when the
   union is SOUND (val (aid from) = val (aid to)).  merge_or is not commutative: commutativity / upper bounds come from
   sem_merge_le (both data are below the common value). *)
From SE Require Import EGraph.ModelA EGraph.ModelAMachine EGraph.AnalysisFix EGraph.AnalysisModelChk EGraph.AnalysisModelBase EGraph.AnalysisModelStab EGraph.AnalysisModelUF EGraph.AnalysisModelAbs EGraph.AnalysisModelFrames EGraph.AnalysisModelFacts EGraph.AnalysisModelInv EGraph.AnalysisModelMove EGraph.AnalysisModelFoldInst EGraph.AnalysisModelFoldTop EGraph.AnalysisModelFold EGraph.AnalysisModelFoldSem.
From Coq Require Import Lia Arith Bool List NArith.
Import ListNotations.
Local Open Scope N_scope.

Definition cf_stabx_m (X : node -> Prop) (s : egraph D) : Prop :=
  forall sh i, AnalysisModelBase.stored D s sh i -> AnalysisModelBase.npend D s sh -> ~ X sh ->
    exists d v, cf_adata s i = Ok d /\ cf_mk_in s sh = Ok v /\ fle v d.
Definition cf_justs_m (s : egraph D) : Prop :=
  forall c k, find_id D s c = Ok c -> cf_adata s c = Ok (Some k) ->
    exists sh, AnalysisModelBase.stored D s sh c /\ cf_mk_in s sh = Ok (Some k).

Lemma merge_or_some : forall x y k, merge_or x y = Some k -> x = Some k \/ (x = None /\ y = Some k).
Proof. intros [a|] y k H. left. exact H. right. split. reflexivity. exact H. Qed.

(* a constant made from smaller data is made from larger data *)
Lemma cf_make_some_mono : forall (get get' : N -> res D) n x, (forall k, In k (node_ids n) -> fle_res (get k) (get' k)) ->
  make_constfold get n = Ok (Some x) -> make_constfold get' n = Ok (Some x).
Proof.
  intros get get' n x Hg Hm.
  destruct (cf_make_some get n x Hm) as [[En Ev]|[a [b [xa [xb [En [Ha [Hb Hx]]]]]]]].
  - unfold make_constfold. rewrite En, Ev. reflexivity.
  - assert (Ha' : get' (aid a) = Ok (Some xa)).
    { destruct (Hg (aid a)) with (v := Some xa) as [w [Hw [Hf|Hf]]]. rewrite (node_ids_2 n a b En). left. reflexivity. exact Ha. discriminate. rewrite Hf. exact Hw. }
    assert (Hb' : get' (aid b) = Ok (Some xb)).
    { destruct (Hg (aid b)) with (v := Some xb) as [w [Hw [Hf|Hf]]]. rewrite (node_ids_2 n a b En). right. left. reflexivity. exact Hb. discriminate. rewrite Hf. exact Hw. }
    unfold make_constfold. rewrite En. rewrite Ha', Hb'.
    destruct Hx as [[Ev ->]|[Ev ->]]; rewrite Ev; reflexivity.
Qed.

Section MoveFold.
  Notation eg := (egraph D).
  Notation fid := (find_id D).
  Notation stored := (AnalysisModelBase.stored D).
  Notation npend := (AnalysisModelBase.npend D).
  Notation adata := (analysis_data D).

  (* the analysis head of move_to: s -> s1 (datum of `to`) -> s2 (usages of `to` touched if the datum changed) -> s3 (link) *)
  Lemma cf_head_eff : forall (s s1 s2 s3 : eg) from to a_from a_to mp,
    fid s from = Ok from -> fid s to = Ok to -> from <> to ->
    adata s from = Ok a_from -> adata s to = Ok a_to ->
    upd_class D to (fun c => with_data D c (merge_or a_from a_to)) s = Ok (tt, s1) ->
    (if optN_eqb a_to (merge_or a_from a_to) then s2 = s1
     else mbind D (mq_push D to) (fun _ => touched_class D to false) s1 = Ok (tt, s2)) ->
    unionfind_set D from {| aid := to; am := mp |} s2 = Ok (tt, s3) ->
    hashcons D s3 = hashcons D s /\
    (forall x, npend s3 x -> npend s x) /\
    (forall j r, fid s j = Ok r -> fid s3 j = Ok (if r =? from then to else r)) /\
    (forall j r, fid s j = Ok r ->
       adata s3 j = if (r =? from) || (r =? to) then Ok (merge_or a_from a_to) else adata s j) /\
    (forall j, j <> to -> get_class D s3 j = get_class D s j) /\
    (merge_or a_from a_to = a_to \/ forall c sh, get_class D s to = Ok c -> npend s3 sh -> ~ In sh (c_usages D c)).
  Proof.
    intros s s1 s2 s3 from to a_from a_to mp Hrf Hrt Hne Haf Hat H1 H2 H3.
    remember (merge_or a_from a_to) as new eqn:Enew.
    apply (upd_data_eff D) in H1. destruct H1 as [c [Hc [U1 [HC1 [P1 [G1 _]]]]]].
    assert (Ha1 := adata_upd D to new s s1 c Hc U1 G1).
    assert (HA : unionfind D s2 = unionfind D s /\ classes D s2 = classes D s1 /\ hashcons D s2 = hashcons D s /\
                 (forall x, npend s2 x -> npend s x) /\ (new = a_to \/ forall sh, npend s2 sh -> ~ In sh (c_usages D c))).
    { destruct (optN_eqb a_to new) eqn:Eq.
      - subst s2. apply optN_eqb_spec in Eq. split. exact U1. split. reflexivity. split. exact HC1. split.
        intros x Hx. unfold AnalysisModelBase.npend in *. rewrite P1 in Hx. exact Hx. left. symmetry. exact Eq.
      - apply (mbind_ok D) in H2. destruct H2 as [[] [s1' [H2 H2']]].
        apply (mq_push_eff D) in H2. destruct H2 as [Ua [Ca [HCa Pa]]].
        apply (touched_class_eff D) in H2'. destruct H2' as [c3 [Hc3 [Ub [Cb [HCb Pb]]]]].
        assert (Hc3' : c_usages D c3 = c_usages D c).
        { unfold get_class in Hc3. rewrite Ca in Hc3. fold (get_class D s1 to) in Hc3. rewrite G1 in Hc3. rewrite N.eqb_refl in Hc3. inversion Hc3. reflexivity. }
        split. congruence. split. congruence. split. congruence. split.
        intros x Hx. destruct (Pb x Hx) as [Hx' _]. unfold AnalysisModelBase.npend in *. rewrite Pa, P1 in Hx'. exact Hx'.
        right. intros sh Hn. destruct (Pb sh Hn) as [_ Hnu]. rewrite <- Hc3'. exact Hnu. }
    destruct HA as [U2 [C2 [HC2 [HP2 Hch]]]].
    assert (Had2 : forall j r, fid s j = Ok r -> adata s2 j = if r =? to then Ok new else adata s j).
    { intros j r Hr. transitivity (adata s1 j).
      - unfold analysis_data. rewrite (fid_uf D s1 s2 j). 2: congruence. destruct (fid s1 j); cbn [bind]. unfold get_class. rewrite C2. reflexivity. reflexivity.
      - rewrite Ha1. rewrite Hr. reflexivity. }
    assert (Hrf2 : fid s2 from = Ok from). { rewrite (fid_uf D s s2 from U2). exact Hrf. }
    assert (Hrt2 : fid s2 to = Ok to). { rewrite (fid_uf D s s2 to U2). exact Hrt. }
    assert (Hf3 := link_spec_holds D s2 s3 from to mp Hrf2 Hrt2 Hne H3).
    apply (unionfind_set_eff D) in H3. destruct H3 as [C3 [HC3 P3]].
    assert (Hto2 : adata s2 to = Ok new). { rewrite (Had2 to to Hrt). rewrite N.eqb_refl. reflexivity. }
    assert (Ha3 : forall j r, fid s2 j = Ok r -> adata s3 j = if r =? from then Ok new else adata s2 j).
    { intros j r Hr. unfold analysis_data at 1. rewrite (Hf3 j r Hr). cbn [bind].
      destruct (r =? from) eqn:E.
      - unfold get_class. rewrite C3. fold (get_class D s2 to).
        unfold analysis_data in Hto2. rewrite Hrt2 in Hto2. cbn [bind] in Hto2. exact Hto2.
      - unfold get_class. rewrite C3. fold (get_class D s2 r). unfold analysis_data. rewrite Hr. reflexivity. }
    split. congruence.
    split. intros x Hx. apply HP2. unfold AnalysisModelBase.npend in *. rewrite P3 in Hx. exact Hx.
    split. intros j r Hr. apply Hf3. rewrite (fid_uf D s s2 j U2). exact Hr.
    split. intros j r Hr. assert (Hr2 : fid s2 j = Ok r). { rewrite (fid_uf D s s2 j U2). exact Hr. }
      rewrite (Ha3 j r Hr2). destruct (r =? from) eqn:E1. reflexivity. cbn [orb]. apply Had2. exact Hr.
    split. intros j Hj. unfold get_class at 1. rewrite C3, C2. fold (get_class D s1 j). rewrite G1.
      destruct (j =? to) eqn:E. apply N.eqb_eq in E. contradiction. reflexivity.
    destruct Hch as [E|Hch]. left. exact E. right. intros c0 sh Hc0 Hn. rewrite Hc in Hc0. inversion Hc0; subst c0.
    apply Hch. unfold AnalysisModelBase.npend in *. rewrite <- P3. exact Hn.
  Qed.

  (* a shape stored after move_to was stored before (the converse of the `stored` map of move_to_S0_full; same loop
     invariant LI of AnalysisModelMove.v) *)
  Lemma cf_sto_back : forall from to (s s' : eg), S0 D s ->
    fid s (aid from) = Ok (aid from) -> fid s (aid to) = Ok (aid to) -> aid from <> aid to ->
    move_to D optN_eqb merge_or from to s = Ok (tt, s') ->
    forall sh c', stored s' sh c' -> exists c, stored s sh c.
  Proof.
    intros from to s s' HS Hrf Hrt Hne H.
    unfold move_to in H. cbv zeta in H.
    apply (mbind_ok D) in H. destruct H as [a_from [t0 [Hx H]]]. apply (reads_ok D) in Hx. destruct Hx as [-> Haf].
    apply (mbind_ok D) in H. destruct H as [to_id [t0 [Hx H]]]. apply (reads_ok D) in Hx. destruct Hx as [-> Hti].
    cbv beta in Hti. rewrite Hrt in Hti. inversion Hti; subst to_id. clear Hti.
    apply (mbind_ok D) in H. destruct H as [a_to [t0 [Hx H]]]. apply (reads_ok D) in Hx. destruct Hx as [-> Hat].
    apply (mbind_ok D) in H. destruct H as [[] [s1 [H1 H]]].
    apply (mbind_ok D) in H. destruct H as [[] [s2 [H2 H]]].
    apply (mbind_ok D) in H. destruct H as [[] [s3 [H3 H]]].
    apply (mbind_ok D) in H. destruct H as [cf [t1 [H4 H]]]. apply (reads_ok D) in H4. destruct H4 as [-> Hcf].
    cbv beta in Hcf.
    apply (mbind_ok D) in H. destruct H as [[] [s4 [H5 H]]].
    apply (mbind_ok D) in H. destruct H as [cf2 [t2 [H6 H]]]. apply (reads_ok D) in H6. destruct H6 as [-> _].
    apply (mbind_ok D) in H. destruct H as [ct [t3 [H7 H]]]. apply (reads_ok D) in H7. destruct H7 as [-> _].
    apply (mbind_ok D) in H. destruct H as [r [t4 [H8 H]]]. apply (lift_ok D) in H8. destruct H8 as [-> _].
    apply (mbind_ok D) in H. destruct H as [[] [s5 [H9 H]]].
    apply (mbind_ok D) in H. destruct H as [[] [s6 [H10 H]]].
    destruct (move_head_eff D _ _ _ _ _ _ _ _ _ Hrf Hrt Hne H1 H2 H3) as [Hf3 [[Hlt Hu3] [Hh3 [Hl3 [Hnd3 [Hus3 Hpm3]]]]]].
    destruct (move_tail_eff D _ _ _ _ _ _ _ _ H9 H10 H) as [Tu [Th [Tl [Tnd [Tus [Tpm Ttouch]]]]]].
    assert (HC0 : Cx D s) by (apply (Cx_of_S0 D); exact HS).
    destruct (gclass_nd D _ _ _ Hcf) as [Hcfn Hcfu].
    assert (HL3 : LI D s3 (aid from) (aid to) (c_usages D cf) (c_nodes D cf) s3).
    { constructor.
      - reflexivity.
      - reflexivity.
      - unfold Cx. rewrite Hh3. eapply CxF_ext. exact HC0. exact Hnd3. exact Hus3.
      - exact Hcfn.
      - intros sh c Hs. left. exact Hs.
      - intros sh i Hs. left. exact Hs.
      - intros i n sh bij src Hi Hin. rewrite Hnd3 in Hi. destruct (nd_gclass D _ _ _ Hi) as [c [Hc En]]. subst n.
        apply Hf3. eapply (sx_so D _ _ HS); eassumption.
      - intros x Hx. exact Hx.
      - intros sh Hin. left. exists (c_usages D cf). split; assumption. }
    assert (HL4 : LI D s3 (aid from) (aid to) (c_usages D cf) [] s4).
    { refine (LI_loop D s3 (aid from) (aid to) (c_usages D cf) _ Hne _ (c_nodes D cf) s3 s4 HL3 H5).
      intros sh bij src a a' Hb.
      apply (mbind_ok D) in Hb. destruct Hb as [rm [a1 [Hb1 Hb]]].
      apply (mbind_ok D) in Hb. destruct Hb as [nb [a2 [Hb2 Hb]]].
      apply (mbind_ok D) in Hb. destruct Hb as [[] [a3 [Hb3 Hb4]]].
      exists rm, a1. eexists. exists nb, a2, a3. split. exact Hb1. split. exact Hb2. split. exact Hb3. exact Hb4. }
    intros sh c' Hs'. unfold AnalysisModelBase.stored in Hs'. rewrite Th in Hs'.
    destruct (li_bwd D _ _ _ _ _ _ HL4 sh c' Hs') as [Hb|[_ Hb]]; rewrite Hh3 in Hb; eexists; exact Hb.
  Qed.

  (* ---------------- the theorem (no hypothesis: the converses fid-back / stored-back are proved: fidl_link_err, cf_sto_back) ---------------- *)
  Variable rho : node -> option N.

  Theorem cf_move_to : forall val from to s s',
    semv rho val s -> cf_stabx_m (fun _ => False) s -> cf_justs_m s -> S0 D s ->
    find_id D s (aid from) = Ok (aid from) -> find_id D s (aid to) = Ok (aid to) -> aid from <> aid to ->
    val (aid from) = val (aid to) ->
    move_to D optN_eqb merge_or from to s = Ok (tt, s') ->
    semv rho val s' /\ cf_stabx_m (fun _ => False) s' /\ cf_justs_m s' /\ S0 D s'.
  Proof.
    intros val from to s s' HS Hst Hj H0 Hrf Hrt Hne Hval H.
    destruct (move_to_S0_full D optN_eqb merge_or from to s s' H0 Hrf Hrt Hne H) as [H0' [Hsto [Hfm Hroots]]].
    assert (Hsb := cf_sto_back from to s s' H0 Hrf Hrt Hne H).
    destruct (move_to_split D optN_eqb merge_or from to s s' H) as [a_from [to_id [a_to [s1 [s2 [s3 [Haf [Hto [Hat [H1 [H2 [H3 Htail]]]]]]]]]]]].
    rewrite Hrt in Hto. inversion Hto; subst to_id. clear Hto.
    destruct (cf_head_eff s s1 s2 s3 (aid from) (aid to) a_from a_to _ Hrf Hrt Hne Haf Hat H1 H2 H3) as [HC3 [HP3 [Hf3 [Hd3 [HG3 Hch]]]]].
    assert (Hnd3 : na_nodup (hashcons D s3)). { rewrite HC3. exact (sx_nd D _ s H0). }
    destruct (Htail Hnd3) as [Hdfr [Hsub [_ Hup]]].
    assert (Hds := dfr_dsame D s3 s' Hdfr).
    assert (Hfb : forall i r', fid s' i = Ok r' -> exists r, fid s i = Ok r).
    { assert (H2' : (if optN_eqb a_to (merge_or a_from a_to) then ret D tt
                     else mbind D (mq_push D (aid to)) (fun _ => touched_class D (aid to) false)) s1 = Ok (tt, s2)).
      { destruct (optN_eqb a_to (merge_or a_from a_to)). subst s2. reflexivity. exact H2. }
      destruct (move_head_eff D _ _ _ _ _ _ _ _ _ Hrf Hrt Hne H1 H2' H3) as [_ [[Hlt Hu3] _]].
      destruct Hdfr as [Hdu _].
      intros i r' Hi. destruct (fid s i) as [r|e] eqn:E. exists r. reflexivity. exfalso.
      rewrite (find_id_dfr D s3 s' i Hdu) in Hi.
      assert (Hrf' : fidl (unionfind D s) (aid from) = Ok (aid from)) by exact Hrf.
      assert (Hrt' : fidl (unionfind D s) (aid to) = Ok (aid to)) by exact Hrt.
      assert (E' : fidl (unionfind D s) i = Err e) by exact E.
      pose proof (fidl_link_err (unionfind D s) (aid from) (aid to) (compose_partial (am to) (inverse_nocheck (am from)))
                    (fidl_is_root _ _ _ Hrf') (fidl_is_root _ _ _ Hrt') Hne) as HL. cbv zeta in HL.
      destruct (HL i e E') as [e' He'].
      assert (Hi' : fidl (unionfind D s3) i = Ok r') by exact Hi.
      rewrite Hu3 in Hi'. rewrite He' in Hi'. discriminate Hi'. }
    assert (Lf : fle a_from (val (aid to))). { rewrite <- Hval. apply (sv_data rho val s HS _ _ Haf). }
    assert (Lt : fle a_to (val (aid to))). { apply (sv_data rho val s HS _ _ Hat). }
    destruct (sem_merge_le a_from a_to (val (aid to)) Lf Lt) as [Ln [Lfn Ltn]].
    assert (Hd' : forall j r, fid s j = Ok r ->
              adata s' j = if (r =? aid from) || (r =? aid to) then Ok (merge_or a_from a_to) else adata s j).
    { intros j r Hr. rewrite Hds. apply Hd3. exact Hr. }
    assert (Hmono : forall j, fle_res (adata s j) (adata s' j)).
    { intros j d Hd. destruct (adata_fid_ok D s j d Hd) as [r Hr]. rewrite (Hd' j r Hr).
      destruct (r =? aid from) eqn:E1.
      - apply N.eqb_eq in E1. subst r. cbn [orb]. exists (merge_or a_from a_to). split. reflexivity.
        rewrite (adata_same_class D s j (aid from) Hr Hrf) in Hd. rewrite Haf in Hd. inversion Hd; subst d. exact Lfn.
      - destruct (r =? aid to) eqn:E2; cbn [orb].
        + apply N.eqb_eq in E2. subst r. exists (merge_or a_from a_to). split. reflexivity.
          rewrite (adata_same_class D s j (aid to) Hr Hrt) in Hd. rewrite Hat in Hd. inversion Hd; subst d. exact Ltn.
        + exists d. split. exact Hd. apply fle_refl. }
    (* ---- semv ---- *)
    assert (HS' : semv rho val s').
    { constructor.
      - intros i r' Hi. destruct (Hfb i r' Hi) as [r Hr]. rewrite (Hfm i r Hr) in Hi. injection Hi as Hi. subst r'.
        rewrite (sv_find rho val s HS i r Hr). destruct (r =? aid from) eqn:E. apply N.eqb_eq in E. subst r. exact Hval. reflexivity.
      - intros sh c' Hs'. destruct (Hsb sh c' Hs') as [c Hs]. assert (Hs2 := Hsto sh c Hs).
        unfold AnalysisModelBase.stored in Hs', Hs2. rewrite Hs' in Hs2. injection Hs2 as Hs2. subst c'.
        rewrite (sv_node rho val s HS sh c Hs). destruct (c =? aid from) eqn:E. apply N.eqb_eq in E. subst c. exact Hval. reflexivity.
      - intros i d Hd. destruct (adata_fid_ok D s' i d Hd) as [r' Hr']. destruct (Hfb i r' Hr') as [r Hr]. rewrite (Hd' i r Hr) in Hd.
        destruct ((r =? aid from) || (r =? aid to)) eqn:E.
        + injection Hd as Hd. subst d. rewrite (sv_find rho val s HS i r Hr). apply orb_true_iff in E.
          destruct E as [E|E]; apply N.eqb_eq in E; subst r. rewrite Hval. exact Ln. exact Ln.
        + apply (sv_data rho val s HS i d Hd). }
    (* ---- stability ---- *)
    assert (Hst' : cf_stabx_m (fun _ => False) s').
    { intros sh i Hs Hn _. destruct (Hsub sh i Hs Hn) as [Hs3 Hn3].
      assert (Hs0 : stored s sh i). { unfold AnalysisModelBase.stored in *. rewrite <- HC3. exact Hs3. }
      assert (Hn0 := HP3 sh Hn3).
      destruct (Hst sh i Hs0 Hn0 (fun x => x)) as [d [v [Hd [Hv Hle]]]].
      assert (Hkr : forall k, In k (node_ids sh) -> fid s k = Ok k).
      { intros k Hk. apply (sx_kl D _ s H0 sh i Hs0). unfold AnalysisModelBase.npend in Hn0. rewrite Hn0. discriminate. intro x; exact x. exact Hk. }
      assert (Hkf : ~ In (aid from) (node_ids sh)).
      { intro Hk. destruct (sx_ua D _ s H0 sh i Hs0 _ Hk) as [cf [Hcf Hin]].
        assert (Hcf3 : get_class D s3 (aid from) = Ok cf). { rewrite HG3. exact Hcf. exact Hne. }
        apply (Hup cf Hcf3 sh Hin). exact Hn. }
      assert (Hkt : merge_or a_from a_to = a_to \/ ~ In (aid to) (node_ids sh)).
      { destruct Hch as [E|Hc]. left. exact E. right. intro Hk.
        destruct (sx_ua D _ s H0 sh i Hs0 _ Hk) as [ct [Hct Hin]]. apply (Hc ct sh Hct Hn3 Hin). }
      assert (Hmk : cf_mk_in s' sh = Ok v).
      { rewrite <- Hv. apply cf_mk_in_ext. intros k Hk. rewrite (Hd' k k (Hkr k Hk)).
        destruct (k =? aid from) eqn:E1. apply N.eqb_eq in E1. subst k. contradiction.
        destruct (k =? aid to) eqn:E2; cbn [orb]. 2: reflexivity. apply N.eqb_eq in E2. subst k.
        destruct Hkt as [E|Hnk]. rewrite E. symmetry. exact Hat. contradiction. }
      destruct (Hmono i d Hd) as [d' [Hd'' Hle']]. exists d', v. split. exact Hd''. split. exact Hmk.
      eapply fle_trans; eassumption. }
    (* ---- justification ---- *)
    assert (Hj' : cf_justs_m s').
    { intros c k Hc Hdc. destruct (Hroots c Hc) as [Hc0 Hcf].
      assert (Hlift : forall sh, cf_mk_in s sh = Ok (Some k) -> cf_mk_in s' sh = Ok (Some k)).
      { intros sh Hm. apply (cf_make_some_mono (adata s) (adata s') sh k). intros j _. apply Hmono. exact Hm. }
      rewrite (Hd' c c Hc0) in Hdc.
      destruct (c =? aid from) eqn:E1. apply N.eqb_eq in E1. contradiction.
      destruct (c =? aid to) eqn:E2; cbn [orb] in Hdc.
      - apply N.eqb_eq in E2. subst c. injection Hdc as Hnew.
        destruct (merge_or_some a_from a_to k Hnew) as [Ea|[Ea Eb]].
        + subst a_from. destruct (Hj (aid from) k Hrf Haf) as [sh [Hs Hm]]. exists sh. split.
          assert (Hs2 := Hsto sh _ Hs). rewrite N.eqb_refl in Hs2. exact Hs2. apply Hlift. exact Hm.
        + subst a_to. destruct (Hj (aid to) k Hrt Hat) as [sh [Hs Hm]]. exists sh. split.
          assert (Hs2 := Hsto sh _ Hs). rewrite E1 in Hs2. exact Hs2. apply Hlift. exact Hm.
      - destruct (Hj c k Hc0 Hdc) as [sh [Hs Hm]]. exists sh. split.
        assert (Hs2 := Hsto sh c Hs). rewrite E1 in Hs2. exact Hs2. apply Hlift. exact Hm. }
    split. exact HS'. split. exact Hst'. split. exact Hj'. exact H0'.
  Qed.
End MoveFold.

Print Assumptions cf_head_eff.
Print Assumptions cf_sto_back.
Check cf_move_to.
Print Assumptions cf_move_to.
