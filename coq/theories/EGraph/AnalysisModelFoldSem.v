(* EGraph/AnalysisModelFoldSem.v — the SEMANTIC invariant for constant folding (C14, modify_kind = 1).

   rho : node -> option N is the valuation of the leaves of AnalysisModelFold.v.  A class valuation val : N -> option N
   (on ALL ids, invariant under find) is an INTERPRETATION of the state s when
     sv_find   val i = val (find i)
     sv_node   every stored node sh of class c evaluates to val c:  node_val val sh = val c
                 (Num k -> Some k; Add/Mul -> wrapping arithmetic on the values of the children; a leaf -> rho sh)
     sv_data   every datum is below the interpretation: adata s i = Ok d -> fle d (val i)   (d = None or d = val i)
   Under an interpretation the algebra of l.or(r) is harmless (proved here, no hypothesis):
     sem_make_le      make of a stored node of class c is None or Some (val c)
     sem_compat       make of a stored node and the datum of its class are compatible; so are any two data of classes
                      of equal value (what move_to merges when the union is sound)
     sem_below_order  on these data the stability test `merge d v = d` IS the flat order
     sem_merge_le     merge of two data below the same value is below that value, and is an upper bound of both
   The executable checker `semb rho s` computes the least interpretation by iteration (tabulated) and checks sv_node,
   sv_data (AnalysisModelFoldSemEval.v: at every loop head of the histories of AnalysisModelFoldEval.v). *)
From SE Require Import EGraph.ModelA EGraph.ModelAMachine EGraph.AnalysisFix EGraph.AnalysisModelChk EGraph.AnalysisModelBase
  EGraph.AnalysisModelFoldInst EGraph.AnalysisModelFoldTop EGraph.AnalysisModelFold.
From Coq Require Import Lia Arith Bool List NArith.
Import ListNotations.

Section Sem.
  Variable rho : node -> option N.
  Notation eg := (egraph D).
  Notation fid := (find_id D).
  Notation stored := (AnalysisModelBase.stored D).

  Definition leaf_val (n : node) : option N :=
    if Nat.eqb (nvar n) 17 then match nargs n with [APay (PVu32 k)] => Some k | _ => None end else rho n.

  Definition node_val (val : N -> option N) (n : node) : option N :=
    match node_ids n with
    | [] => leaf_val n
    | [a; b] => if Nat.eqb (nvar n) 13 then lift2 N.add (val a) (val b)
                else if Nat.eqb (nvar n) 14 then lift2 N.mul (val a) (val b) else None
    | _ => None
    end.

  Record semv (val : N -> option N) (s : eg) : Prop := {
    sv_find : forall i r, fid s i = Ok r -> val i = val r;
    sv_node : forall sh c, stored s sh c -> node_val val sh = val c;
    sv_data : forall i d, cf_adata s i = Ok d -> fle d (val i) }.

  (* node_val only reads the values of the children *)
  Lemma node_val_ext : forall val val' n, (forall k, In k (node_ids n) -> val k = val' k) -> node_val val n = node_val val' n.
  Proof.
    intros val val' n H. unfold node_val. destruct (node_ids n) as [|a [|b [|c r]]]; try reflexivity.
    rewrite (H a (or_introl eq_refl)). rewrite (H b (or_intror (or_introl eq_refl))). reflexivity.
  Qed.

  (* make is below node_val as soon as the data are below the values *)
  Lemma make_le_node_val : forall (get : N -> res D) val n v,
    (forall k d, In k (node_ids n) -> get k = Ok d -> fle d (val k)) ->
    make_constfold get n = Ok v -> fle v (node_val val n).
  Proof.
    intros get val n v Hg Hm. destruct v as [x|]. 2: { left. reflexivity. } right.
    destruct (cf_make_some get n x Hm) as [[En Ev]|[a [b [xa [xb [En [Ha [Hb Hx]]]]]]]].
    - unfold node_val. rewrite (node_ids_num n _ En). unfold leaf_val. rewrite Ev, En. reflexivity.
    - unfold node_val. rewrite (node_ids_2 n a b En).
      assert (Hva : val (aid a) = Some xa).
      { destruct (Hg (aid a) (Some xa)) as [E|E]. rewrite (node_ids_2 n a b En). left. reflexivity. exact Ha. discriminate. symmetry. exact E. }
      assert (Hvb : val (aid b) = Some xb).
      { destruct (Hg (aid b) (Some xb)) as [E|E]. rewrite (node_ids_2 n a b En). right. left. reflexivity. exact Hb. discriminate. symmetry. exact E. }
      rewrite Hva, Hvb. destruct Hx as [[Ev ->]|[Ev ->]]; rewrite Ev; reflexivity.
  Qed.

  Theorem sem_make_le : forall val s sh c v, semv val s -> stored s sh c -> cf_mk_in s sh = Ok v -> fle v (val c).
  Proof.
    intros val s sh c v HS Hs Hm. rewrite <- (sv_node val s HS sh c Hs).
    apply (make_le_node_val (cf_adata s) val sh v). 2: exact Hm.
    intros k d _ Hd. apply (sv_data val s HS k d Hd).
  Qed.

  (* ---------------- the algebra on data below a common value ---------------- *)
  Lemma fle_compat : forall x y w, fle x w -> fle y w -> compat x y.
  Proof. intros x y w [->| ->] [->| ->] a b Ha Hb; congruence. Qed.

  Theorem sem_compat : forall val s sh c v d, semv val s -> stored s sh c -> cf_mk_in s sh = Ok v -> cf_adata s c = Ok d -> compat d v.
  Proof.
    intros val s sh c v d HS Hs Hm Hd. apply (fle_compat d v (val c)). apply (sv_data val s HS c d Hd). apply (sem_make_le val s sh c v HS Hs Hm).
  Qed.

  Theorem sem_compat_data : forall val s i j x y, semv val s -> val i = val j -> cf_adata s i = Ok x -> cf_adata s j = Ok y -> compat x y.
  Proof.
    intros val s i j x y HS E Hx Hy. apply (fle_compat x y (val i)). apply (sv_data val s HS i x Hx). rewrite E. apply (sv_data val s HS j y Hy).
  Qed.

  Theorem sem_below_order : forall val s sh c v d, semv val s -> stored s sh c -> cf_mk_in s sh = Ok v -> cf_adata s c = Ok d ->
    (merge_or d v = d <-> fle v d).
  Proof. intros val s sh c v d HS Hs Hm Hd. apply below_compat. eapply sem_compat; eassumption. Qed.

  Lemma sem_merge_le : forall x y w, fle x w -> fle y w -> fle (merge_or x y) w /\ fle x (merge_or x y) /\ fle y (merge_or x y).
  Proof.
    intros x y w Hx Hy. split; [|split].
    - destruct x as [a|]. exact Hx. exact Hy.
    - apply ub_l.
    - apply ub_r_compat. eapply fle_compat; eassumption.
  Qed.
  Lemma sem_merge_comm : forall x y w, fle x w -> fle y w -> merge_or x y = merge_or y x.
  Proof. intros x y w Hx Hy. apply merge_or_comm_compat. eapply fle_compat; eassumption. Qed.

  (* make only reads the data of the children (the replacement for make_spec / mk_in_ext) *)
  Lemma cf_make_ext : forall (g g' : N -> res D) n, (forall k, In k (node_ids n) -> g k = g' k) -> make_constfold g n = make_constfold g' n.
  Proof.
    intros g g' n H. unfold make_constfold.
    destruct (nargs n) as [|f1 [|f2 [|f3 r]]] eqn:En.
    - reflexivity.
    - destruct f1 as [s|a|s f|p]; try reflexivity.
    - destruct f1 as [s|a|s f|p]; try reflexivity; try (destruct p; reflexivity). destruct f2 as [s|b|s f|p]; try reflexivity.
      assert (Ha : g (aid a) = g' (aid a)). { apply H. rewrite (node_ids_2 n a b En). left. reflexivity. }
      assert (Hb : g (aid b) = g' (aid b)). { apply H. rewrite (node_ids_2 n a b En). right. left. reflexivity. }
      rewrite Ha, Hb. reflexivity.
    - destruct f1 as [s|a|s f|p]; try reflexivity; try (destruct p; reflexivity). all: try (destruct f2 as [s|b|s f|p]; reflexivity).
  Qed.
  Lemma cf_mk_in_ext : forall (s s' : eg) sh, (forall k, In k (node_ids sh) -> cf_adata s' k = cf_adata s k) -> cf_mk_in s' sh = cf_mk_in s sh.
  Proof. intros s s' sh H. unfold make_in. apply cf_make_ext. exact H. Qed.

  (* make never errs when the data of the children are defined *)
  Lemma cf_make_ok : forall (g : N -> res D) n, (forall k, In k (node_ids n) -> exists d, g k = Ok d) -> exists v, make_constfold g n = Ok v.
  Proof.
    intros g n H. unfold make_constfold.
    destruct (nargs n) as [|f1 [|f2 [|f3 r]]] eqn:En; try (eexists; reflexivity).
    - destruct f1 as [s|a|s f|p]; try (eexists; reflexivity). destruct p as [k|b|t]; try (eexists; reflexivity).
      destruct (Nat.eqb (nvar n) 17); eexists; reflexivity.
    - destruct f1 as [s|a|s f|p]; try (eexists; reflexivity); try (destruct p; eexists; reflexivity).
      destruct f2 as [s|b|s f|p]; try (eexists; reflexivity).
      destruct (H (aid a)) as [da Ha]. rewrite (node_ids_2 n a b En). left. reflexivity.
      destruct (H (aid b)) as [db Hb]. rewrite (node_ids_2 n a b En). right. left. reflexivity.
      rewrite Ha, Hb. destruct (Nat.eqb (nvar n) 13). eexists; reflexivity. destruct (Nat.eqb (nvar n) 14); eexists; reflexivity.
    - destruct f1 as [s|a|s f|p]; try (eexists; reflexivity); try (destruct p; eexists; reflexivity).
      all: try (destruct f2 as [s|b|s f|p]; eexists; reflexivity).
  Qed.

  (* ---------------- the executable interpretation ---------------- *)
  Definition tab_get (tab : list (N * option N)) (r : N) : option N :=
    match find (fun e => N.eqb (fst e) r) tab with Some e => snd e | None => None end.
  Definition tab_val (s : eg) (tab : list (N * option N)) (i : N) : option N :=
    match fid s i with Ok r => tab_get tab r | Err _ => None end.
  Definition first_some (l : list (option N)) : option N := fold_left merge_or l None.
  Definition tab_step (s : eg) (tab : list (N * option N)) : list (N * option N) :=
    map (fun c => (c, first_some (map (fun e => if N.eqb (snd e) c then node_val (tab_val s tab) (fst e) else None) (hashcons D s)))) (ids D s).
  Definition cval (s : eg) : N -> option N :=
    tab_val s (Nat.iter (S (List.length (hashcons D s))) (tab_step s) []).
  Definition semb_with (s : eg) (val : N -> option N) : bool :=
    forallb (fun e => optN_eqb (node_val val (fst e)) (val (snd e))) (hashcons D s) &&
    forallb (fun c => match cf_adata s c with Ok d => fleb d (val c) | Err _ => false end) (ids D s).
  Definition semb (s : eg) : bool := semb_with s (cval s).
End Sem.

Print Assumptions sem_make_le.
Print Assumptions sem_compat.
Print Assumptions sem_below_order.
Print Assumptions cf_make_ext.
Print Assumptions cf_make_ok.
