(* EGraph/AnalysisModelFoldSemEval.v — the semantic invariant of AnalysisModelFoldSem.v, evaluated (vm_compute), and a
   COUNTEREXAMPLE to the statement of AnalysisModelFold.v.

   (1) sem_loop rho := cf_loop && s0b (the structural invariant Sx of AnalysisModelInv.v) && semb rho
       holds at EVERY head of the pending loop (nested rebuilds of the hook included) and after every operation of the six
       sound histories of AnalysisModelFoldEval.v (eval_sem_ok); after every operation, every handle returned so far has the
       value of its term under the computed interpretation:  cval s (aid a) = sval rho t   (eval_handles_ok).
       Negative controls: semb fails on the unsound histories of AnalysisModelFoldEval.v (sem_rejects_unsound).
   (2) COUNTEREXAMPLE (rho_must_respect_renaming): the premise of `reachF` (unions of handles whose terms have the same value
       under a fixed valuation rho : node -> option N) is NOT enough when rho distinguishes two leaves that differ only by the
       name of a slot: tvar 2 and tvar 6 have the SAME shape, hence the same class; rhoX (tvar 2) = 4, rhoX (tvar 6) = 5;
       tvar 2 ~ Num 4 and tvar 6 ~ Num 5 are both sound for rhoX; the class then stores Num 4 and Num 5.
         reachF_X           : reachF rhoX sX htsX                       (a formal derivation)
         H_inv_false        : ~ (forall s hts, reachF rhoX s hts -> cf_stab s /\ cf_just s)
         fixpoint_false     : the conclusion of constfold_data_is_fixpoint_all_histories fails at sX
       So H_inv of AnalysisModelFold.v is FALSE for general rho, and the theorem needs the premise
         rho_ok rho := forall n sh bij, wshape n = Ok (sh, bij) -> rho sh = rho n      (rho is a function of the shape). *)
From SE Require Import EGraph.ModelA EGraph.ModelAMachine EGraph.AnalysisModelChk EGraph.AnalysisModelEval EGraph.AnalysisModelInv
  EGraph.AnalysisModelFoldInst EGraph.AnalysisModelFold EGraph.AnalysisModelFoldEval EGraph.AnalysisModelFoldSem.
From SE Require EGraph.OpsPreFacts.
From Coq Require Import List NArith Bool String.
Import ListNotations.
Open Scope N_scope.

(* ---------------- (1) validation ---------------- *)
Definition sem_loop (rho : node -> option N) (s : egraph D) : bool := cf_loop s && s0b D s && semb rho s.

Lemma eval_sem_ok :
  okb (runcf (sem_loop rho0) (sem_loop rho0) ts1 ops1) 1 && okb (runcf (sem_loop rho4) (sem_loop rho4) ts2 ops2) 5
  && okb (runcf (sem_loop rho4) (sem_loop rho4) ts2 ops2b) 5 && okb (runcf (sem_loop rho0) (sem_loop rho0) ts3 ops3) 10
  && okb (runcf (sem_loop rho4) (sem_loop rho4) ts4 ops4) 16 && okb (runcf (sem_loop rho0) (sem_loop rho0) ts4 ops4n) 12 = true.
Proof. vm_compute. reflexivity. Qed.

(* handles: after every operation, cval s (aid a) = sval rho t for every handle returned so far *)
Section Handles.
  Let add_e := add_expr0 D optN_eqb make_constfold merge_or 1%nat (fun d : D => d).
  Let union_e := eg_union0 D optN_eqb make_constfold merge_or 1%nat (fun d : D => d).
  Definition hts_okb (rho : node -> option N) (s : egraph D) (hts : list (appid * rterm)) : bool :=
    forallb (fun h => optN_eqb (cval rho s (aid (fst h))) (sval rho (snd h))) hts.
  (* Some n: all n operations ran and every check held *)
  Fixpoint runh (rho : node -> option N) (ts : list rterm) (ops : list hop) (hts : list (appid * rterm)) (n : nat) (s : egraph D) : option nat :=
    match ops with
    | [] => Some n
    | HAdd k :: r => match nth_opt ts k with
                     | Some t => match add_e t s with
                                 | Ok (a, s') => if semb rho s' && hts_okb rho s' (hts ++ [(a, t)]) then runh rho ts r (hts ++ [(a, t)]) (S n) s' else None
                                 | Err _ => None end
                     | None => None end
    | HUnion i j _ :: r =>
        match nth_opt hts i, nth_opt hts j with
        | Some a, Some b => match union_e (fst a) (fst b) s with
                            | Ok (_, s') => if semb rho s' && hts_okb rho s' hts then runh rho ts r hts (S n) s' else None
                            | Err _ => None end
        | _, _ => None
        end
    end.
End Handles.

Lemma eval_handles_ok :
  runh rho0 ts1 ops1 [] 0 (empty_egraph D) = Some 1%nat /\ runh rho4 ts2 ops2 [] 0 (empty_egraph D) = Some 5%nat /\
  runh rho4 ts2 ops2b [] 0 (empty_egraph D) = Some 5%nat /\ runh rho0 ts3 ops3 [] 0 (empty_egraph D) = Some 10%nat /\
  runh rho4 ts4 ops4 [] 0 (empty_egraph D) = Some 16%nat /\ runh rho0 ts4 ops4n [] 0 (empty_egraph D) = Some 12%nat.
Proof. repeat split; vm_compute; reflexivity. Qed.

(* negative controls: no interpretation after an unsound union *)
Lemma sem_rejects_unsound :
  runcf tt_b (semb rho0) tsU [HAdd 0; HAdd 1; U 0 1] = (2%nat, Sym "OPCHK-FAIL")
  /\ runcf tt_b (semb rho0) tsL opsL = (5%nat, Sym "OPCHK-FAIL")
  /\ runcf tt_b (semb (fun _ => Some 1)) tsL opsL = (8%nat, Sym "OPCHK-FAIL").
Proof. repeat split; vm_compute; reflexivity. Qed.

(* ---------------- (2) rho must be a function of the shape ---------------- *)
Definition rhoX : node -> option N := fun n => match nargs n with [ASlot 2] => Some 4 | [ASlot 6] => Some 5 | _ => None end.
Definition tsX := [tvar 2; tvar 6; tnum 4; tnum 5].
Definition opsX := [HAdd 0; HAdd 1; HAdd 2; HAdd 3; U 0 2; U 1 3].

Lemma rhoX_not_ok : ~ (forall n sh bij, wshape n = Ok (sh, bij) -> rhoX sh = rhoX n).
Proof.
  intro H. set (n := {| nvar := 5; nargs := [ASlot 6] |}).
  destruct (wshape n) as [[sh bij]|e] eqn:E.
  - specialize (H n sh bij E). vm_compute in E. inversion E; subst sh. vm_compute in H. discriminate.
  - vm_compute in E. discriminate.
Qed.

Lemma counterexample_bool :
  premises rhoX tsX opsX = true
  /\ runcf tt_b fixb_cf tsX opsX = (5%nat, Sym "OPCHK-FAIL")
  /\ runcf tt_b cf_stable_inb tsX opsX = (5%nat, Sym "OPCHK-FAIL")
  /\ runcf tt_b (semb rhoX) tsX opsX = (4%nat, Sym "OPCHK-FAIL").
Proof. repeat split; vm_compute; reflexivity. Qed.

(* the formal derivation *)
Definition stepA (t : rterm) (st : option (egraph D * list (appid * rterm))) : option (egraph D * list (appid * rterm)) :=
  match st with
  | Some (s, hts) => match cf_add_e t s with Ok (a, s') => Some (s', (a, t) :: hts) | Err _ => None end
  | None => None
  end.
Definition stepU (rho : node -> option N) (i j : nat) (st : option (egraph D * list (appid * rterm))) : option (egraph D * list (appid * rterm)) :=
  match st with
  | Some (s, hts) =>
      match nth_opt hts i, nth_opt hts j with
      | Some (l, tl), Some (r, tr) =>
          match sval rho tl, sval rho tr with
          | Some x, Some y => if N.eqb x y then match cf_union_e l r s with Ok (_, s') => Some (s', hts) | Err _ => None end else None
          | _, _ => None
          end
      | _, _ => None
      end
  | None => None
  end.

Lemma nth_opt_In' : forall {A} (l : list A) n x, nth_opt l n = Some x -> In x l.
Proof. intros A l. induction l as [|a t IH]; intros n x H. destruct n; discriminate. destruct n as [|n]. inversion H. left. reflexivity. right. eapply IH. exact H. Qed.

Lemma stepA_reach : forall rho t s hts s' hts', reachF rho s hts -> OpsPreFacts.term_static t -> arith t ->
  stepA t (Some (s, hts)) = Some (s', hts') -> reachF rho s' hts'.
Proof.
  intros rho t s hts s' hts' Hr Hs Ha H. unfold stepA in H. destruct (cf_add_e t s) as [[a s1]|e] eqn:E; [|discriminate].
  inversion H; subst. eapply rF_add; eassumption.
Qed.
Lemma stepU_reach : forall rho i j s hts s' hts', reachF rho s hts -> stepU rho i j (Some (s, hts)) = Some (s', hts') -> reachF rho s' hts'.
Proof.
  intros rho i j s hts s' hts' Hr H. unfold stepU in H.
  destruct (nth_opt hts i) as [[l tl]|] eqn:Ei; [|discriminate]. destruct (nth_opt hts j) as [[r tr]|] eqn:Ej; [|discriminate].
  destruct (sval rho tl) as [x|] eqn:Ex; [|discriminate]. destruct (sval rho tr) as [y|] eqn:Ey; [|discriminate].
  destruct (N.eqb x y) eqn:Exy; [|discriminate]. apply N.eqb_eq in Exy. subst y.
  destruct (cf_union_e l r s) as [[b s1]|e] eqn:E; [|discriminate]. inversion H; subst.
  eapply rF_union. exact Hr. eapply nth_opt_In'. exact Ei. eapply nth_opt_In'. exact Ej. left. exists x. split; assumption. exact E.
Qed.

Inductive xop := XA (t : rterm) | XU (i j : nat).
Definition stepX (rho : node -> option N) (o : xop) st := match o with XA t => stepA t st | XU i j => stepU rho i j st end.
Definition runX (rho : node -> option N) (ops : list xop) st := fold_left (fun st o => stepX rho o st) ops st.
Definition xop_ok (o : xop) : Prop := match o with XA t => OpsPreFacts.term_static t /\ arith t | XU _ _ => True end.

Lemma runX_none : forall rho ops, runX rho ops None = None.
Proof. intros rho ops. induction ops as [|o r IH]. reflexivity. unfold runX in *. cbn [fold_left]. destruct o; exact IH. Qed.

Lemma runX_reach : forall rho ops s hts s' hts', reachF rho s hts -> Forall xop_ok ops ->
  runX rho ops (Some (s, hts)) = Some (s', hts') -> reachF rho s' hts'.
Proof.
  intros rho ops. induction ops as [|o r IH]; intros s hts s' hts' Hr Hok H.
  - unfold runX in H. cbn [fold_left] in H. inversion H; subst. exact Hr.
  - inversion Hok as [|x l Ho Hr']; subst.
    change (runX rho r (stepX rho o (Some (s, hts))) = Some (s', hts')) in H.
    destruct (stepX rho o (Some (s, hts))) as [[s1 h1]|] eqn:E.
    + apply (IH s1 h1 s' hts'). 2: exact Hr'. 2: exact H.
      destruct o as [t|i j].
      * destruct Ho as [Hs Ha]. eapply stepA_reach. exact Hr. exact Hs. exact Ha. exact E.
      * eapply stepU_reach. exact Hr. exact E.
    + rewrite runX_none in H. discriminate.
Qed.

Definition stX0 : option (egraph D * list (appid * rterm)) := Some (empty_egraph D, []).
(* hts = [Num 5; Num 4; tvar 6; tvar 2]: tvar 2 ~ Num 4 is (3, 1), tvar 6 ~ Num 5 is (2, 0) *)
Definition xopsX : list xop := [XA (tvar 2); XA (tvar 6); XA (tnum 4); XA (tnum 5); XU 3 1; XU 2 0].
Definition stX := runX rhoX xopsX stX0.
Definition sX : egraph D := match stX with Some (s, _) => s | None => empty_egraph D end.
Definition htsX : list (appid * rterm) := match stX with Some (_, h) => h | None => [] end.

Lemma arith_tvar : forall x, arith (tvar x).
Proof. intro x. apply ar_leaf. reflexivity. cbn. discriminate. cbn. discriminate. cbn. discriminate. Qed.

Theorem reachF_X : reachF rhoX sX htsX.
Proof.
  apply (runX_reach rhoX xopsX (empty_egraph D) [] sX htsX). apply rF_empty.
  - assert (St : forall t, OpsPreFacts.term_staticb t = true -> arith t -> xop_ok (XA t)).
    { intros t H1 H2. split. apply OpsPreFacts.term_staticb_sound. exact H1. exact H2. }
    unfold xopsX. constructor. apply St. vm_compute. reflexivity. apply arith_tvar.
    constructor. apply St. vm_compute. reflexivity. apply arith_tvar.
    constructor. apply St. vm_compute. reflexivity. apply ar_num.
    constructor. apply St. vm_compute. reflexivity. apply ar_num.
    constructor. exact I. constructor. exact I. constructor.
  - vm_compute. reflexivity.
Qed.

(* the class of sX that stores Num 4 and Num 5 *)
Definition cX : N := match na_get (hashcons D sX) (num_node 5) with Some c => c | None => 0 end.
Lemma sX_facts :
  pending D sX = [] /\ In (num_node 5, cX) (hashcons D sX) /\ In (num_node 4, cX) (hashcons D sX) /\
  existsb (N.eqb cX) (ids D sX) = true /\
  cf_adata sX cX = Ok (Some 5) /\ cf_mk_in sX (num_node 4) = Ok (Some 4).
Proof.
  split. vm_compute. reflexivity.
  split. { assert (H : existsb (fun e => node_eqb (fst e) (num_node 5) && N.eqb (snd e) cX) (hashcons D sX) = true) by (vm_compute; reflexivity).
           apply existsb_exists in H. destruct H as [[sh c] [Hin Hb]]. cbn [fst snd] in Hb. apply andb_true_iff in Hb. destruct Hb as [H1 H2].
           apply AnalysisModelBase.node_eqb_true in H1. apply N.eqb_eq in H2. subst. exact Hin. }
  split. { assert (H : existsb (fun e => node_eqb (fst e) (num_node 4) && N.eqb (snd e) cX) (hashcons D sX) = true) by (vm_compute; reflexivity).
           apply existsb_exists in H. destruct H as [[sh c] [Hin Hb]]. cbn [fst snd] in Hb. apply andb_true_iff in Hb. destruct Hb as [H1 H2].
           apply AnalysisModelBase.node_eqb_true in H1. apply N.eqb_eq in H2. subst. exact Hin. }
  split. vm_compute. reflexivity. split; vm_compute; reflexivity.
Qed.

Theorem H_inv_false : ~ (forall s hts, reachF rhoX s hts -> cf_stab s /\ cf_just s).
Proof.
  intro H. destruct (H sX htsX reachF_X) as [Hs _].
  destruct sX_facts as [Hp [_ [Hin [_ [Hd Hm]]]]].
  destruct (Hs (num_node 4) cX Hin) as [d [v [Hd' [Hv Hle]]]]. rewrite Hp. reflexivity.
  rewrite Hd in Hd'. rewrite Hm in Hv. inversion Hd'; inversion Hv; subst. destruct Hle as [E|E]; discriminate.
Qed.

(* the conclusion of the theorem fails as well: datum of cX vs the fold over its stored nodes *)
Theorem fixpoint_false :
  reachF rhoX sX htsX /\ In cX (ids D sX) /\ analysis_data D sX cX = Ok (Some 5) /\
  exists sh0 rest, map fst (filter (fun e => N.eqb (snd e) cX) (hashcons D sX)) = sh0 :: rest /\
    ~ (exists v0 vs, make_in D make_constfold sX sh0 = Ok v0 /\ mapr (make_in D make_constfold sX) rest = Ok vs /\
                     Some 5 = fold_left merge_or vs v0).
Proof.
  split. exact reachF_X. destruct sX_facts as [_ [_ [_ [Hid [Hd _]]]]].
  split. { apply existsb_exists in Hid. destruct Hid as [c [Hc E]]. apply N.eqb_eq in E. subst c. exact Hc. }
  split. exact Hd.
  destruct (map fst (filter (fun e => N.eqb (snd e) cX) (hashcons D sX))) as [|sh0 rest] eqn:E.
  - exfalso. vm_compute in E. discriminate.
  - exists sh0, rest. split. reflexivity. intros [v0 [vs [H0 [H1 H2]]]].
    assert (Hc : match map fst (filter (fun e => N.eqb (snd e) cX) (hashcons D sX)) with
                 | sh :: r => match make_in D make_constfold sX sh, mapr (make_in D make_constfold sX) r with
                              | Ok v, Ok w => optN_eqb (Some 5) (fold_left merge_or w v) | _, _ => true end
                 | [] => true end = false) by (vm_compute; reflexivity).
    rewrite E in Hc. rewrite H0, H1 in Hc. rewrite <- H2 in Hc. vm_compute in Hc. discriminate.
Qed.

Print Assumptions eval_sem_ok.
Print Assumptions eval_handles_ok.
Print Assumptions sem_rejects_unsound.
Print Assumptions counterexample_bool.
Print Assumptions reachF_X.
Print Assumptions H_inv_false.
Print Assumptions fixpoint_false.
