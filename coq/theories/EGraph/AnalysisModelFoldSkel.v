(* EGraph/AnalysisModelFoldSkel.v — the SKELETON of a node (everything except slot names and applied ids) through
   apply_slotmap / set_apps / find_enode / wshape / shape / apply_slotmap_fresh / refresh_private / synify_enode,
   and its consequences for constant folding (make_constfold, node_val). *)
From SE Require Import EGraph.ModelA EGraph.AnalysisModelIds.
From SE Require Import EGraph.ModelAMachine EGraph.AnalysisModelFoldInst EGraph.AnalysisModelFold EGraph.AnalysisModelFoldSem.
From Coq Require Import Lia Arith Bool List NArith.
Import ListNotations.

Inductive sk := KSlot | KApp | KBind (k : sk) | KPay (p : pval).
Fixpoint skf (a : farg) : sk :=
  match a with ASlot _ => KSlot | AApp _ => KApp | ABind _ f => KBind (skf f) | APay p => KPay p end.
Definition skel (n : node) : list sk := map skf (nargs n).

(* ------------------------------------------------------------------ *)
(* (g) constant folding *)

Lemma skel_leaf_match : forall n m, skel n = skel m ->
  match nargs n with [APay (PVu32 k)] => Some k | _ => None end =
  match nargs m with [APay (PVu32 k)] => Some k | _ => None end.
Proof.
  intros n m H. unfold skel in H.
  destruct (nargs n) as [|a [|b t]]; destruct (nargs m) as [|a' [|b' t']]; cbn [map] in H; try discriminate; try reflexivity.
  - inversion H as [Ha]. destruct a, a'; cbn [skf] in Ha; try discriminate; try reflexivity.
    inversion Ha; subst. reflexivity.
  - inversion H as [[Ha Hb]]. destruct a, a'; cbn [skf] in Ha; try discriminate; try reflexivity.
    inversion Ha; subst. destruct p0; reflexivity.
Qed.

Lemma cf_make_skel : forall (get : N -> res (option N)) n m, nvar n = nvar m -> skel n = skel m ->
  Forall2 (fun k k' => get k = get k') (node_ids n) (node_ids m) -> make_constfold get n = make_constfold get m.
Proof.
  intros get n m Hv Hs HF. unfold make_constfold. rewrite <- Hv.
  unfold skel in Hs. unfold node_ids, app_occ in HF.
  destruct (nargs n) as [|a [|b [|c t]]]; destruct (nargs m) as [|a' [|b' [|c' t']]]; cbn [map] in Hs; try discriminate; try reflexivity.
  - inversion Hs as [Ha]. destruct a, a'; cbn [skf] in Ha; try discriminate; try reflexivity.
    inversion Ha; subst. reflexivity.
  - inversion Hs as [[Ha Hb]].
    destruct a, a'; cbn [skf] in Ha; try discriminate; try reflexivity.
    + destruct b, b'; cbn [skf] in Hb; try discriminate; try reflexivity.
      cbn in HF. inversion HF as [|x y l l' H1 HF2]; subst. inversion HF2 as [|x y l l' H2 _]; subst.
      rewrite H1, H2. reflexivity.
    + inversion Ha; subst. destruct p0; reflexivity.
  - inversion Hs as [[Ha Hb Hc]].
    destruct a, a'; cbn [skf] in Ha; try discriminate; try reflexivity.
    + destruct b, b'; cbn [skf] in Hb; try discriminate; try reflexivity.
    + inversion Ha; subst. destruct p0; reflexivity.
Qed.

Lemma node_val_skel : forall rho val n m, nvar n = nvar m -> skel n = skel m ->
  (node_ids n = [] -> rho n = rho m) ->
  Forall2 (fun k k' => val k = val k') (node_ids n) (node_ids m) -> node_val rho val n = node_val rho val m.
Proof.
  intros rho val n m Hv Hs Hr HF. unfold node_val. rewrite <- Hv.
  destruct HF as [|x y l l' H1 HF].
  - unfold leaf_val. rewrite <- Hv. rewrite (skel_leaf_match n m Hs). rewrite Hr by reflexivity. reflexivity.
  - destruct HF as [|x2 y2 l2 l2' H2 HF]; [reflexivity|].
    destruct HF as [|x3 y3 l3 l3' H3 HF]; [|reflexivity].
    rewrite H1, H2. reflexivity.
Qed.

(* ------------------------------------------------------------------ *)
(* (a) generic slot traversals keep the skeleton *)

Section TravSk.
  Context {S : Type} (f : bool -> slot -> S -> slot * S).

  Lemma trav_f_sk : forall a bound st, skf (fst (trav_f f bound a st)) = skf a.
  Proof.
    induction a as [s|x|s b IH|p]; intros bound st; cbn [trav_f].
    - destruct (f _ s st) as [s' st1]. reflexivity.
    - destruct (trav_vals f bound (am x) st) as [m' st1]. reflexivity.
    - destruct (f false s st) as [s' st1]. specialize (IH (s :: bound) st1).
      destruct (trav_f f (s :: bound) b st1) as [b' st2]. cbn [fst skf] in *. rewrite IH. reflexivity.
    - reflexivity.
  Qed.

  Lemma trav_args_sk : forall l st, map skf (fst (trav_args f l st)) = map skf l.
  Proof.
    induction l as [|a t IH]; intros st; cbn [trav_args]; [reflexivity|].
    pose proof (trav_f_sk a [] st) as Ha.
    destruct (trav_f f [] a st) as [a' st1]. specialize (IH st1).
    destruct (trav_args f t st1) as [t' st2]. cbn [fst map] in *.
    rewrite Ha, IH. reflexivity.
  Qed.

  Lemma trav_sk : forall n st, skel (fst (trav f n st)) = skel n.
  Proof.
    intros n st. unfold trav. pose proof (trav_args_sk (nargs n) st) as H.
    destruct (trav_args f (nargs n) st) as [l st']. cbn [fst] in *.
    unfold skel. cbn [nargs]. exact H.
  Qed.
End TravSk.

Lemma trav_res_sk : forall f n n', trav_res f n = Ok n' -> skel n' = skel n.
Proof.
  intros f n n' H. unfold trav_res in H.
  match type of H with (let '(_, _) := trav ?F n None in _) = _ => pose proof (trav_sk F n None) as T; destruct (trav F n None) as [n1 e] end.
  cbn [fst] in T. destruct e; [discriminate|]. inversion H; subst n'. exact T.
Qed.

Lemma apply_slotmap_skel : forall m n n', apply_slotmap false m n = Ok n' -> skel n' = skel n.
Proof.
  intros m n n' H. unfold apply_slotmap in H. cbn [andb] in H. unfold apply_slotmap_partial in H.
  eapply trav_res_sk; eauto.
Qed.

(* ------------------------------------------------------------------ *)
(* (b) set_apps (unconditional) *)

Lemma set_apps_f_sk : forall a l, skf (fst (set_apps_f a l)) = skf a.
Proof.
  induction a as [s|x|s b IH|p]; intros l; cbn [set_apps_f]; try reflexivity.
  - destruct l; reflexivity.
  - specialize (IH l). destruct (set_apps_f b l) as [b' r]. cbn [fst skf] in *. rewrite IH. reflexivity.
Qed.

Lemma set_apps_args_sk : forall args l, map skf (set_apps_args args l) = map skf args.
Proof.
  induction args as [|a t IH]; intros l; cbn [set_apps_args]; [reflexivity|].
  pose proof (set_apps_f_sk a l) as Ha. destruct (set_apps_f a l) as [a' r]. cbn [fst map] in *.
  rewrite Ha, IH. reflexivity.
Qed.

Lemma set_apps_skel : forall n l, skel (set_apps n l) = skel n.
Proof. intros n l. unfold skel, set_apps. cbn [nargs]. apply set_apps_args_sk. Qed.

(* ------------------------------------------------------------------ *)
(* (d) weak shape *)

Lemma ws_f_sk : forall lg a m, skf (fst (ws_f lg a m)) = skf a.
Proof.
  induction a as [s|x|s b IH|p]; intros m; cbn [ws_f].
  - destruct (on_see s m) as [s' m1]. reflexivity.
  - destruct (ws_vals (am x) m) as [vm m1]. reflexivity.
  - destruct (add_slot s m) as [s' m1]. specialize (IH m1).
    destruct (ws_f lg b m1) as [b' m2]. cbn [fst skf] in *. rewrite IH. reflexivity.
  - reflexivity.
Qed.

Lemma ws_args_sk : forall lg l m, map skf (fst (ws_args lg l m)) = map skf l.
Proof.
  induction l as [|a t IH]; intros m; cbn [ws_args]; [reflexivity|].
  pose proof (ws_f_sk lg a m) as Ha.
  destruct (ws_f lg a m) as [a' m1]. specialize (IH m1).
  destruct (ws_args lg t m1) as [t' m2]. cbn [fst map] in *.
  rewrite Ha, IH. reflexivity.
Qed.

Lemma weak_shape_skel : forall lg ck n sh b, weak_shape lg ck n = Ok (sh, b) -> skel sh = skel n.
Proof.
  intros lg ck n sh b H. unfold weak_shape in H.
  pose proof (ws_args_sk lg (nargs n) ([], 0%N)) as T.
  destruct (ws_args lg (nargs n) ([], 0%N)) as [l m]. cbn [fst] in T.
  destruct (inverse ck (fst m)) as [bij|]; cbn [bind] in H; [|discriminate].
  inversion H; subst sh b. unfold skel. cbn [nargs]. exact T.
Qed.

Lemma wshape_skel : forall n sh b, wshape n = Ok (sh, b) -> skel sh = skel n.
Proof. intros n sh b H. unfold wshape in H. eapply weak_shape_skel; eauto. Qed.

(* ------------------------------------------------------------------ *)
(* (f) counter-threading traversals *)

Lemma apply_slotmap_fresh_skel : forall m n c n' c', apply_slotmap_fresh false m n c = (n', c') -> skel n' = skel n.
Proof.
  intros m n c n' c' H. unfold apply_slotmap_fresh in H.
  match type of H with (let '(_, _) := trav ?F n ?st in _) = _ => pose proof (trav_sk F n st) as T; destruct (trav F n st) as [n1 [x c1]] end.
  cbn [fst] in T. inversion H; subst. exact T.
Qed.

Lemma refresh_private_skel : forall n c n' c', refresh_private n c = (Ok n', c') -> skel n' = skel n.
Proof.
  intros n c n' c' H. unfold refresh_private, refresh_by in H.
  destruct (bijection_from_fresh_to _ c) as [bf c1]. inversion H as [[H1 H2]].
  eapply trav_res_sk; eauto.
Qed.

(* ------------------------------------------------------------------ *)
(* (c), (e), (f) with the e-graph *)

Section WithData.
  Variable Data : Type.

  Lemma find_enode_skel : forall (s : egraph Data) n n', find_enode Data s n = Ok n' -> skel n' = skel n.
  Proof.
    intros s n n' H. unfold find_enode in H.
    destruct (mapr (find_applied_id Data s) (app_occ n)) as [l|]; cbn [bind] in H; [|discriminate].
    inversion H; subst n'. apply set_apps_skel.
  Qed.

  Lemma variants_skel : forall (s : egraph Data) n vs v, variants Data s n = Ok vs -> In v vs -> skel v = skel n.
  Proof.
    intros s n vs v H Hv. unfold variants in H.
    destruct (mapr (fun a => get_class Data s (aid a)) (app_occ n)) as [cls|]; cbn [bind] in H; [|discriminate].
    destruct (forallb _ cls).
    - inversion H; subst vs. destruct Hv as [<-|[]]. reflexivity.
    - destruct (mapr _ cls) as [groups|]; cbn [bind] in H; [|discriminate]. inversion H; subst vs; clear H.
      apply in_map_iff in Hv. destruct Hv as (l & <- & Hl). apply set_apps_skel.
  Qed.

  Lemma pre_shape_skel : forall (s : egraph Data) n p, pre_shape Data s n = Ok p -> skel p = skel n.
  Proof.
    intros s n p H. unfold pre_shape in H.
    destruct (find_enode Data s n) as [n1|] eqn:E1; cbn [bind] in H; [|discriminate].
    destruct (variants Data s n1) as [vs|] eqn:Ev; cbn [bind] in H; [|discriminate].
    destruct (min_variant_in _ _ _ H) as [Hp|(k & Hk)]; [|discriminate].
    rewrite (variants_skel _ _ _ _ Ev Hp). eapply find_enode_skel; eauto.
  Qed.

  Lemma shape_skel : forall (s : egraph Data) n sh b, shape Data s n = Ok (sh, b) -> skel sh = skel n.
  Proof.
    intros s n sh b H. unfold shape in H.
    destruct (pre_shape Data s n) as [p|] eqn:Ep; cbn [bind] in H; [|discriminate].
    rewrite (wshape_skel _ _ _ H). eapply pre_shape_skel; eauto.
  Qed.

  Lemma synify_enode_skel : forall n (s : egraph Data) n' s', synify_enode Data n s = Ok (n', s') -> skel n' = skel n.
  Proof.
    intros n s n' s' H. unfold synify_enode, mbind, ret in H.
    destruct (mapM Data (synify_app_id Data) (app_occ n) s) as [[l s1]|]; [|discriminate].
    inversion H; subst. apply set_apps_skel.
  Qed.
End WithData.

Print Assumptions cf_make_skel.
Print Assumptions node_val_skel.
Print Assumptions apply_slotmap_skel.
Print Assumptions set_apps_skel.
Print Assumptions find_enode_skel.
Print Assumptions wshape_skel.
Print Assumptions shape_skel.
Print Assumptions apply_slotmap_fresh_skel.
Print Assumptions refresh_private_skel.
Print Assumptions synify_enode_skel.
