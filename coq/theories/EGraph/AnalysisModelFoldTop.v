(* EGraph/AnalysisModelFoldTop.v — the control structure of EGraph/ModelA.v for the constant-folding
   `modify` (modify_kind = 1): the modify queue is not a no-op; the hook adds a Num node and unions it with
   the class, each of which ends in a nested rebuild (one unit of depth less).  rebuild returns with
   pending = [] and modify_queue = [], every operation ends in a rebuild, so every reachable state has
   pending = [] and modify_queue = [] and satisfies every invariant J that is kept by one round of the
   pending loop and by the operations' prefixes (the operation with rebuild := ret tt), provided the union
   performed by the hook is sound (Snd). *)
From SE Require Import EGraph.ModelA EGraph.AnalysisFix EGraph.AnalysisModelBase EGraph.AnalysisModelTop.
From Coq Require Import Lia Arith Bool.

Lemma pop_last_None : forall l, pop_last l = None -> l = [].
Proof.
  induction l as [|x t IH]; intro H.
  - reflexivity.
  - destruct t as [|y t'].
    + discriminate H.
    + change (match pop_last (y :: t') with Some (t'', z) => Some (x :: t'', z) | None => None end = None) in H.
      destruct (pop_last (y :: t')) as [[t'' z]|] eqn:E.
      * discriminate H.
      * specialize (IH eq_refl). discriminate IH.
Qed.

Section Top1.
  Variable Data : Type.
  Variable data_eqb : Data -> Data -> bool.
  Variable make : (N -> res Data) -> node -> res Data.
  Variable merge : Data -> Data -> Data.
  Variable const_of : Data -> option N.

  Notation eg := (egraph Data).
  Notation M := (ModelA.M Data).
  Notation rt := (ret Data tt).
  Notation rb_pending := (rebuild_pending Data data_eqb make merge).
  Notation rebuild1 := (rebuild Data data_eqb make merge 1%nat const_of).
  Notation mq_loop1 := (mq_loop Data data_eqb make merge 1%nat const_of).
  Notation hook1 := (modify_hook Data data_eqb make merge 1%nat const_of).
  Notation add_pre := (add_pre0 Data make).
  Notation union_pre := (eg_union Data data_eqb merge rt).
  Notation add_e := (add_expr0 Data data_eqb make merge 1%nat const_of).
  Notation union_e := (eg_union0 Data data_eqb make merge 1%nat const_of).

  Variable J : eg -> Prop.
  Variable Snd : eg -> appid -> appid -> Prop.      (* "this union is sound in this state" *)
  Hypothesis J_mq : forall s q, J s -> J (set_mq Data s q).
  Hypothesis J_hp : forall sh ty rest s s1, J s -> pending Data s = (sh, ty) :: rest ->
    handle_pending Data data_eqb make merge sh ty (set_pending Data s rest) = Ok (tt, s1) -> J s1.
  Hypothesis J_add_pre : forall t s a s1, J s -> pending Data s = [] -> add_pre t s = Ok (a, s1) -> J s1.
  Hypothesis J_union_pre : forall l r s b s1, J s -> pending Data s = [] -> Snd s l r ->
    union_pre l r s = Ok (b, s1) -> J s1.
  (* the union that the hook performs is sound *)
  Hypothesis Snd_hook : forall d' i d k c s s2 sl, J s -> pending Data s = [] ->
    analysis_data Data s i = Ok d -> const_of d = Some k ->
    eg_add Data make (rebuild1 d') (num_node k) s = Ok (c, s2) -> J s2 -> pending Data s2 = [] ->
    class_slots Data s2 i = Ok sl -> Snd s2 c {| aid := i; am := identity sl |}.

  (* J, no pending entry, empty modify queue: the state between two operations *)
  Definition Jq (s : eg) : Prop := J s /\ pending Data s = [] /\ modify_queue Data s = [].

  (* what a rebuild of nesting depth d guarantees *)
  Definition rb_good (rb : M unit) : Prop := forall s s', J s -> rb s = Ok (tt, s') -> Jq s'.

  (* ---- unfolding equations ---- *)
  Lemma mq_loop1_S : forall rb f,
    mq_loop1 rb (S f) =
    mbind Data (gets Data (modify_queue Data)) (fun q =>
      match pop_last q with
      | None => ret Data tt
      | Some (q', i) =>
          mbind Data (modify Data (fun s => set_mq Data s q')) (fun _ =>
          mbind Data (reads Data (fun s => find_id Data s i)) (fun j =>
          mbind Data (hook1 rb j) (fun _ => mq_loop1 rb f)))
      end).
  Proof. reflexivity. Qed.

  Lemma rebuild1_S : forall d, rebuild1 (S d) = mbind Data (rb_pending rebuild_fuel) (fun _ => mq_loop1 (rebuild1 d) mq_fuel).
  Proof. reflexivity. Qed.

  Lemma hook1_eq : forall rb i,
    hook1 rb i =
    mbind Data (reads Data (fun s => analysis_data Data s i)) (fun d =>
      match const_of d with
      | None => ret Data tt
      | Some k =>
          mbind Data (eg_add Data make rb (num_node k)) (fun c =>
          mbind Data (reads Data (fun s => class_slots Data s i)) (fun sl =>
          mbind Data (reads Data (fun s => eg_eq Data s c {| aid := i; am := identity sl |})) (fun e =>
          if e then ret Data tt
          else mbind Data (eg_union Data data_eqb merge rb c {| aid := i; am := identity sl |}) (fun _ => ret Data tt))))
      end).
  Proof. reflexivity. Qed.

  (* ---- operations with a good rebuild ---- *)
  Lemma eg_add_gen : forall rb n s a s', rb_good rb -> J s -> pending Data s = [] ->
    eg_add Data make rb n s = Ok (a, s') -> s' = s \/ Jq s'.
  Proof.
    intros rb n s a s' Hrb HJ Hp H. unfold eg_add in H.
    apply (mbind_ok Data) in H. destruct H as [t [s0 [H0 H]]]. apply (reads_ok Data) in H0. destruct H0 as [-> _].
    destruct (add_internal_split Data make rb _ _ _ _ H) as [->|[a1 [s1 [H1 H2]]]].
    - left. reflexivity.
    - right. apply (Hrb s1 s'). eapply J_add_pre. exact HJ. exact Hp. exact H1. exact H2.
  Qed.

  Lemma eg_union_gen : forall rb l r s b s', rb_good rb -> J s -> pending Data s = [] -> Snd s l r ->
    eg_union Data data_eqb merge rb l r s = Ok (b, s') -> Jq s'.
  Proof.
    intros rb l r s b s' Hrb HJ Hp HS H.
    destruct (eg_union_split Data data_eqb merge rb _ _ _ _ _ H) as [s1 [H1 H2]].
    apply (Hrb s1 s'). eapply J_union_pre. exact HJ. exact Hp. exact HS. exact H1. exact H2.
  Qed.

  (* ---- the modify hook keeps J and pending = [] ---- *)
  Lemma hook1_Jp : forall d i s s', rb_good (rebuild1 d) -> J s -> pending Data s = [] ->
    hook1 (rebuild1 d) i s = Ok (tt, s') -> J s' /\ pending Data s' = [].
  Proof.
    intros d i s s' Hrb HJ Hp H. rewrite hook1_eq in H.
    apply (mbind_ok Data) in H. destruct H as [dd [s0 [H0 H]]]. apply (reads_ok Data) in H0. destruct H0 as [-> Hd].
    destruct (const_of dd) as [k|] eqn:Ek.
    - apply (mbind_ok Data) in H. destruct H as [c [s2 [Hadd H]]].
      assert (HJ2 : J s2 /\ pending Data s2 = []).
      { destruct (eg_add_gen _ _ _ _ _ Hrb HJ Hp Hadd) as [->|[HJ2 [Hp2 _]]]; split; assumption. }
      destruct HJ2 as [HJ2 Hp2].
      apply (mbind_ok Data) in H. destruct H as [sl [s3 [H3 H]]]. apply (reads_ok Data) in H3. destruct H3 as [-> Hsl].
      apply (mbind_ok Data) in H. destruct H as [e [s4 [H4 H]]]. apply (reads_ok Data) in H4. destruct H4 as [-> _].
      destruct e.
      + apply (ret_ok Data) in H. destruct H as [-> _]. split; assumption.
      + apply (mbind_ok Data) in H. destruct H as [b [s5 [H5 H]]].
        apply (ret_ok Data) in H. destruct H as [-> _].
        assert (HS : Snd s2 c {| aid := i; am := identity sl |}).
        { eapply Snd_hook. exact HJ. exact Hp. exact Hd. exact Ek. exact Hadd. exact HJ2. exact Hp2. exact Hsl. }
        destruct (eg_union_gen _ _ _ _ _ _ Hrb HJ2 Hp2 HS H5) as [HJ5 [Hp5 _]]. split; assumption.
    - apply (ret_ok Data) in H. destruct H as [-> _]. split; assumption.
  Qed.

  (* ---- the modify loop ---- *)
  Lemma mq_loop1_Jq : forall d, rb_good (rebuild1 d) -> forall fuel s s', J s -> pending Data s = [] ->
    mq_loop1 (rebuild1 d) fuel s = Ok (tt, s') -> Jq s'.
  Proof.
    intros d Hrb. induction fuel as [|f IH]; intros s s' HJ Hp H.
    - discriminate H.
    - rewrite mq_loop1_S in H. apply (mbind_ok Data) in H. destruct H as [q [s0 [H0 H]]].
      apply (gets_ok Data) in H0. destruct H0 as [-> ->].
      destruct (pop_last (modify_queue Data s)) as [[q' i]|] eqn:Epop.
      + apply (mbind_ok Data) in H. destruct H as [[] [s1 [H1 H]]]. apply (modify_ok Data) in H1. subst s1.
        apply (mbind_ok Data) in H. destruct H as [j [s2 [H2 H]]]. apply (reads_ok Data) in H2. destruct H2 as [-> _].
        apply (mbind_ok Data) in H. destruct H as [[] [s3 [H3 H]]].
        assert (HJ1 : J (set_mq Data s q')) by (apply J_mq; exact HJ).
        assert (Hp1 : pending Data (set_mq Data s q') = []) by exact Hp.
        destruct (hook1_Jp d j _ _ Hrb HJ1 Hp1 H3) as [HJ3 Hp3].
        exact (IH s3 s' HJ3 Hp3 H).
      + apply (ret_ok Data) in H. destruct H as [-> _].
        split. exact HJ. split. exact Hp. apply pop_last_None. exact Epop.
  Qed.

  (* ---- rebuild ---- *)
  Lemma rebuild1_good : forall depth, rb_good (rebuild1 depth).
  Proof.
    induction depth as [|d IHd]; intros s s' HJ H.
    - discriminate H.
    - rewrite rebuild1_S in H. apply (mbind_ok Data) in H. destruct H as [[] [s1 [H1 H2]]].
      destruct (rebuild_pending_J Data data_eqb make merge J J_hp _ _ _ HJ H1) as [HJ1 Hp1].
      exact (mq_loop1_Jq d IHd mq_fuel s1 s' HJ1 Hp1 H2).
  Qed.

  Theorem rebuild1_J : forall depth s s', J s -> rebuild1 depth s = Ok (tt, s') ->
    J s' /\ pending Data s' = [] /\ modify_queue Data s' = [].
  Proof. intros depth s s' HJ H. exact (rebuild1_good depth s s' HJ H). Qed.

  (* ---- every operation keeps J and returns with pending = [] (and modify_queue = []) ---- *)
  Theorem eg_add1_Jp : forall n s a s', J s -> pending Data s = [] ->
    eg_add Data make (rebuild1 rebuild_depth) n s = Ok (a, s') -> J s' /\ pending Data s' = [].
  Proof.
    intros n s a s' HJ Hp H.
    destruct (eg_add_gen _ _ _ _ _ (rebuild1_good rebuild_depth) HJ Hp H) as [->|[HJ2 [Hp2 _]]]; split; assumption.
  Qed.

  Theorem eg_add1_Jq : forall n s a s', Jq s ->
    eg_add Data make (rebuild1 rebuild_depth) n s = Ok (a, s') -> Jq s'.
  Proof.
    intros n s a s' [HJ [Hp Hq]] H.
    destruct (eg_add_gen _ _ _ _ _ (rebuild1_good rebuild_depth) HJ Hp H) as [->|HJq].
    - split. exact HJ. split. exact Hp. exact Hq.
    - exact HJq.
  Qed.

  (* add_expr, for any predicate kept by eg_add *)
  Lemma add_expr1_gen : forall (P : eg -> Prop),
    (forall n s a s', P s -> eg_add Data make (rebuild1 rebuild_depth) n s = Ok (a, s') -> P s') ->
    forall t s a s', P s -> add_e t s = Ok (a, s') -> P s'.
  Proof.
    intros P Hadd. unfold add_expr0, rb0.
    fix IH 1. intros [n ch] s a s' HP H. cbn [add_expr] in H.
    apply (mbind_ok Data) in H. destruct H as [l [s1 [H1 H]]].
    assert (HP1 : P s1).
    { clear H. revert s l s1 HP H1. induction ch as [|c r IHr]; intros s l s1 HP H1.
      - apply (ret_ok Data) in H1. destruct H1 as [-> _]. exact HP.
      - apply (mbind_ok Data) in H1. destruct H1 as [a0 [s2 [H2 H1]]].
        apply (mbind_ok Data) in H1. destruct H1 as [r' [s3 [H3 H1]]].
        apply (ret_ok Data) in H1. destruct H1 as [-> _].
        apply (IHr s2 r' s3). eapply IH. exact HP. exact H2. exact H3. }
    destruct (Nat.ltb (List.length (app_occ n)) (List.length l)). discriminate H.
    eapply Hadd. exact HP1. exact H.
  Qed.

  Theorem add_expr1_Jq : forall t s a s', Jq s -> add_e t s = Ok (a, s') -> Jq s'.
  Proof. apply (add_expr1_gen Jq). exact eg_add1_Jq. Qed.

  Theorem add_expr1_Jp : forall t s a s', J s -> pending Data s = [] -> add_e t s = Ok (a, s') ->
    J s' /\ pending Data s' = [].
  Proof.
    intros t s a s' HJ Hp H.
    apply (add_expr1_gen (fun s => J s /\ pending Data s = [])) with (t := t) (s := s) (a := a).
    - intros n x y z [HJx Hpx] Hx. eapply eg_add1_Jp. exact HJx. exact Hpx. exact Hx.
    - split; assumption.
    - exact H.
  Qed.

  Theorem eg_union1_Jp : forall l r s b s', J s -> pending Data s = [] -> Snd s l r ->
    union_e l r s = Ok (b, s') -> J s' /\ pending Data s' = [] /\ modify_queue Data s' = [].
  Proof.
    intros l r s b s' HJ Hp HS H. unfold eg_union0, rb0 in H.
    exact (eg_union_gen _ _ _ _ _ _ (rebuild1_good rebuild_depth) HJ Hp HS H).
  Qed.

  Theorem eg_union1_Jq : forall l r s b s', Jq s -> Snd s l r -> union_e l r s = Ok (b, s') -> Jq s'.
  Proof. intros l r s b s' [HJ [Hp _]] HS H. exact (eg_union1_Jp l r s b s' HJ Hp HS H). Qed.

  (* ---- reachable states ---- *)
  Inductive reach1 : eg -> Prop :=
  | reach1_empty : reach1 (empty_egraph Data)
  | reach1_add : forall s t a s', reach1 s -> add_e t s = Ok (a, s') -> reach1 s'
  | reach1_union : forall s l r b s', reach1 s -> Snd s l r -> union_e l r s = Ok (b, s') -> reach1 s'.

  Theorem reach1_Jq : J (empty_egraph Data) -> forall s, reach1 s -> Jq s.
  Proof.
    intros H0 s Hr. induction Hr as [|s t a s' _ IH H|s l r b s' _ IH HS H].
    - split. exact H0. split; reflexivity.
    - eapply add_expr1_Jq. exact IH. exact H.
    - eapply eg_union1_Jq. exact IH. exact HS. exact H.
  Qed.

  Theorem reach1_Jp : J (empty_egraph Data) -> forall s, reach1 s -> J s /\ pending Data s = [].
  Proof. intros H0 s Hr. destruct (reach1_Jq H0 s Hr) as [HJ [Hp _]]. split; assumption. Qed.
End Top1.

Print Assumptions rebuild1_J.
Print Assumptions eg_add1_Jp.
Print Assumptions eg_add1_Jq.
Print Assumptions add_expr1_Jp.
Print Assumptions add_expr1_Jq.
Print Assumptions eg_union1_Jp.
Print Assumptions eg_union1_Jq.
Print Assumptions reach1_Jq.
Print Assumptions reach1_Jp.
