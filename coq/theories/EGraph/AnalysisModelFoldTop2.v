(* EGraph/AnalysisModelFoldTop2.v — the relational version of AnalysisModelFoldTop.v: the control structure
   of EGraph/ModelA.v for modify_kind = 1 keeps an invariant P with a ghost state, along a transition
   relation T, with a node-aware precondition/postcondition for eg_add. *)
From SE Require Import EGraph.ModelA EGraph.AnalysisFix EGraph.AnalysisModelBase EGraph.AnalysisModelTop
  EGraph.AnalysisModelFoldTop.
From Coq Require Import Lia Arith Bool.

Section Top2.
  Variable Data : Type.
  Variable data_eqb : Data -> Data -> bool.
  Variable make : (N -> res Data) -> node -> res Data.
  Variable merge : Data -> Data -> Data.
  Variable const_of : Data -> option N.

  Notation eg := (egraph Data).
  Notation M := (ModelA.M Data).
  Notation rt := (ret Data tt).
  Notation rb_pending := (rebuild_pending Data data_eqb make merge).
  Notation rebuild1 := (rebuild Data data_eqb make merge 1%nat const_of).
  Notation mq_loop1 := (mq_loop Data data_eqb make merge 1%nat const_of).
  Notation hook1 := (modify_hook Data data_eqb make merge 1%nat const_of).
  Notation add_pre := (add_pre0 Data make).
  Notation union_pre := (eg_union Data data_eqb merge rt).
  Notation union_e := (eg_union0 Data data_eqb make merge 1%nat const_of).
  Notation hp := (handle_pending Data data_eqb make merge).

  Variable G : Type.
  Variable P : G -> eg -> Prop.
  Variable T : G -> eg -> G -> eg -> Prop.
  Variable AddOK : G -> eg -> node -> Prop.
  Variable AddPost : G -> eg -> node -> N -> Prop.
  Variable Snd : G -> eg -> appid -> appid -> Prop.

  Hypothesis T_refl : forall g s, T g s g s.
  Hypothesis T_trans : forall g1 s1 g2 s2 g3 s3, T g1 s1 g2 s2 -> T g2 s2 g3 s3 -> T g1 s1 g3 s3.
  Hypothesis P_mq : forall g s q, P g s -> P g (set_mq Data s q) /\ T g s g (set_mq Data s q).
  Hypothesis P_hp : forall g sh ty rest s s1, P g s -> pending Data s = (sh, ty) :: rest ->
    hp sh ty (set_pending Data s rest) = Ok (tt, s1) -> exists g1, P g1 s1 /\ T g s g1 s1.
  Hypothesis P_add_pre : forall g n t s a s1, P g s -> pending Data s = [] -> AddOK g s n -> shape Data s n = Ok t ->
    lookup_internal Data s t = Ok None -> add_pre t s = Ok (a, s1) ->
    exists g1, P g1 s1 /\ T g s g1 s1 /\ AddPost g1 s1 n (aid a).
  Hypothesis P_add_hit : forall g n t s x, P g s -> pending Data s = [] -> AddOK g s n -> shape Data s n = Ok t ->
    lookup_internal Data s t = Ok (Some x) -> AddPost g s n (aid x).
  Hypothesis AddPost_T : forall g s g' s' n i, AddPost g s n i -> T g s g' s' -> AddPost g' s' n i.
  Hypothesis P_union_pre : forall g l r s b s1, P g s -> pending Data s = [] -> Snd g s l r ->
    union_pre l r s = Ok (b, s1) -> exists g1, P g1 s1 /\ T g s g1 s1.
  Hypothesis hook_AddOK : forall g s k, P g s -> AddOK g s (num_node k).
  Hypothesis Snd_hook : forall g s i d k g2 s2 c sl, P g s -> analysis_data Data s i = Ok d -> const_of d = Some k ->
    T g s g2 s2 -> P g2 s2 -> AddPost g2 s2 (num_node k) (aid c) -> class_slots Data s2 i = Ok sl ->
    Snd g2 s2 c {| aid := i; am := identity sl |}.

  Definition rb_good2 (rb : M unit) : Prop := forall g s s', P g s -> rb s = Ok (tt, s') ->
    exists g', P g' s' /\ T g s g' s' /\ pending Data s' = [] /\ modify_queue Data s' = [].

  Lemma semify_app_id_aid : forall s syn a, semify_app_id Data s syn = Ok a -> aid a = aid syn.
  Proof.
    intros s syn a H. unfold semify_app_id in H.
    destruct (class_slots Data s (aid syn)) as [sl|e]; cbn in H.
    - injection H as <-. reflexivity.
    - discriminate H.
  Qed.

  (* ---- unfolding equations ---- *)
  Lemma rb_pending2_S : forall f,
    rb_pending (S f) =
    mbind Data (gets Data (pending Data)) (fun p =>
      match p with
      | [] => ret Data tt
      | (sh, ty) :: rest =>
          mbind Data (modify Data (fun s => set_pending Data s rest)) (fun _ =>
          mbind Data (hp sh ty) (fun _ => rb_pending f))
      end).
  Proof. reflexivity. Qed.

  Lemma mq_loop2_S : forall rb f,
    mq_loop1 rb (S f) =
    mbind Data (gets Data (modify_queue Data)) (fun q =>
      match pop_last q with
      | None => ret Data tt
      | Some (q', i) =>
          mbind Data (modify Data (fun s => set_mq Data s q')) (fun _ =>
          mbind Data (reads Data (fun s => find_id Data s i)) (fun j =>
          mbind Data (hook1 rb j) (fun _ => mq_loop1 rb f)))
      end).
  Proof. reflexivity. Qed.

  Lemma rebuild2_S : forall d, rebuild1 (S d) = mbind Data (rb_pending rebuild_fuel) (fun _ => mq_loop1 (rebuild1 d) mq_fuel).
  Proof. reflexivity. Qed.

  Lemma hook2_eq : forall rb i,
    hook1 rb i =
    mbind Data (reads Data (fun s => analysis_data Data s i)) (fun d =>
      match const_of d with
      | None => ret Data tt
      | Some k =>
          mbind Data (eg_add Data make rb (num_node k)) (fun c =>
          mbind Data (reads Data (fun s => class_slots Data s i)) (fun sl =>
          mbind Data (reads Data (fun s => eg_eq Data s c {| aid := i; am := identity sl |})) (fun e =>
          if e then ret Data tt
          else mbind Data (eg_union Data data_eqb merge rb c {| aid := i; am := identity sl |}) (fun _ => ret Data tt))))
      end).
  Proof. reflexivity. Qed.

  (* ---- the pending loop ---- *)
  Lemma rebuild_pending_PT : forall fuel g s s', P g s -> rb_pending fuel s = Ok (tt, s') ->
    exists g', P g' s' /\ T g s g' s' /\ pending Data s' = [].
  Proof.
    induction fuel as [|f IH]; intros g s s' HP H.
    - discriminate H.
    - rewrite rb_pending2_S in H. apply (mbind_ok Data) in H. destruct H as [p [s0 [H0 H]]].
      apply (gets_ok Data) in H0. destruct H0 as [-> ->].
      destruct (pending Data s) as [|[sh ty] rest] eqn:Ep.
      + apply (ret_ok Data) in H. destruct H as [-> _]. exists g. split. exact HP. split. apply T_refl. exact Ep.
      + apply (mbind_ok Data) in H. destruct H as [[] [s1 [H1 H]]]. apply (modify_ok Data) in H1. subst s1.
        apply (mbind_ok Data) in H. destruct H as [[] [s2 [H2 H]]].
        destruct (P_hp g sh ty rest s s2 HP Ep H2) as [g1 [HP1 HT1]].
        destruct (IH g1 s2 s' HP1 H) as [g' [HP' [HT' Hp']]].
        exists g'. split. exact HP'. split. eapply T_trans. exact HT1. exact HT'. exact Hp'.
  Qed.

  (* ---- a finer split of add_internal ---- *)
  Lemma add_internal_split2 : forall (rb : M unit) t s a s',
    add_internal Data make rb t s = Ok (a, s') ->
    (lookup_internal Data s t = Ok (Some a) /\ s' = s) \/
    (lookup_internal Data s t = Ok None /\
     exists a1 s1, add_pre t s = Ok (a1, s1) /\ rb s1 = Ok (tt, s') /\ aid a = aid a1).
  Proof.
    intros rb t s a s' H. unfold add_internal in H.
    apply (mbind_ok Data) in H. destruct H as [lk [s0 [H0 H]]].
    apply (reads_ok Data) in H0. destruct H0 as [-> Hlk].
    destruct lk as [x|].
    - apply (ret_ok Data) in H. destruct H as [-> ->]. left. split. exact Hlk. reflexivity.
    - right. split. exact Hlk.
      apply (mbind_ok Data) in H. destruct H as [x1 [s1 [H1 H]]].
      apply (mbind_ok Data) in H. destruct H as [x2 [s2 [H2 H]]].
      apply (mbind_ok Data) in H. destruct H as [x3 [s3 [H3 H]]].
      apply (mbind_ok Data) in H. destruct H as [x4 [s4 [H4 H]]].
      destruct (mk_singleton_split Data make rb x3 s3 x4 s4 H4) as [s5 [H5 H6]].
      apply (reads_ok Data) in H. destruct H as [-> Hsem].
      exists x4, s5. split.
      + unfold add_pre0, mbind. rewrite H1, H2, H3. exact H5.
      + split. exact H6. eapply semify_app_id_aid. exact Hsem.
  Qed.

  (* ---- operations with a good rebuild ---- *)
  Lemma eg_add_gen2 : forall rb g n s a s', rb_good2 rb -> P g s -> pending Data s = [] -> AddOK g s n ->
    eg_add Data make rb n s = Ok (a, s') ->
    exists g', P g' s' /\ T g s g' s' /\ pending Data s' = [] /\ AddPost g' s' n (aid a).
  Proof.
    intros rb g n s a s' Hrb HP Hp HA H. unfold eg_add in H.
    apply (mbind_ok Data) in H. destruct H as [t [s0 [H0 H]]]. apply (reads_ok Data) in H0. destruct H0 as [-> Hsh].
    destruct (add_internal_split2 rb _ _ _ _ H) as [[Hlk ->]|[Hlk [a1 [s1 [H1 [H2 Haid]]]]]].
    - exists g. split. exact HP. split. apply T_refl. split. exact Hp.
      eapply P_add_hit. exact HP. exact Hp. exact HA. exact Hsh. exact Hlk.
    - destruct (P_add_pre g n t s a1 s1 HP Hp HA Hsh Hlk H1) as [g1 [HP1 [HT1 HAP1]]].
      destruct (Hrb g1 s1 s' HP1 H2) as [g' [HP' [HT' [Hp' _]]]].
      exists g'. split. exact HP'. split. eapply T_trans. exact HT1. exact HT'. split. exact Hp'.
      rewrite Haid. eapply AddPost_T. exact HAP1. exact HT'.
  Qed.

  Lemma eg_union_gen2 : forall rb g l r s b s', rb_good2 rb -> P g s -> pending Data s = [] -> Snd g s l r ->
    eg_union Data data_eqb merge rb l r s = Ok (b, s') ->
    exists g', P g' s' /\ T g s g' s' /\ pending Data s' = [] /\ modify_queue Data s' = [].
  Proof.
    intros rb g l r s b s' Hrb HP Hp HS H.
    destruct (eg_union_split Data data_eqb merge rb _ _ _ _ _ H) as [s1 [H1 H2]].
    destruct (P_union_pre g l r s b s1 HP Hp HS H1) as [g1 [HP1 HT1]].
    destruct (Hrb g1 s1 s' HP1 H2) as [g' [HP' [HT' [Hp' Hq']]]].
    exists g'. split. exact HP'. split. eapply T_trans. exact HT1. exact HT'. split. exact Hp'. exact Hq'.
  Qed.

  (* ---- the modify hook ---- *)
  Lemma hook2_PT : forall d i g s s', rb_good2 (rebuild1 d) -> P g s -> pending Data s = [] ->
    hook1 (rebuild1 d) i s = Ok (tt, s') -> exists g', P g' s' /\ T g s g' s' /\ pending Data s' = [].
  Proof.
    intros d i g s s' Hrb HP Hp H. rewrite hook2_eq in H.
    apply (mbind_ok Data) in H. destruct H as [dd [s0 [H0 H]]]. apply (reads_ok Data) in H0. destruct H0 as [-> Hd].
    destruct (const_of dd) as [k|] eqn:Ek.
    - apply (mbind_ok Data) in H. destruct H as [c [s2 [Hadd H]]].
      destruct (eg_add_gen2 _ g _ _ _ _ Hrb HP Hp (hook_AddOK g s k HP) Hadd) as [g2 [HP2 [HT2 [Hp2 HAP2]]]].
      apply (mbind_ok Data) in H. destruct H as [sl [s3 [H3 H]]]. apply (reads_ok Data) in H3. destruct H3 as [-> Hsl].
      apply (mbind_ok Data) in H. destruct H as [e [s4 [H4 H]]]. apply (reads_ok Data) in H4. destruct H4 as [-> _].
      destruct e.
      + apply (ret_ok Data) in H. destruct H as [-> _]. exists g2. split. exact HP2. split. exact HT2. exact Hp2.
      + apply (mbind_ok Data) in H. destruct H as [b [s5 [H5 H]]].
        apply (ret_ok Data) in H. destruct H as [-> _].
        assert (HS : Snd g2 s2 c {| aid := i; am := identity sl |}).
        { eapply Snd_hook. exact HP. exact Hd. exact Ek. exact HT2. exact HP2. exact HAP2. exact Hsl. }
        destruct (eg_union_gen2 _ g2 _ _ _ _ _ Hrb HP2 Hp2 HS H5) as [g5 [HP5 [HT5 [Hp5 _]]]].
        exists g5. split. exact HP5. split. eapply T_trans. exact HT2. exact HT5. exact Hp5.
    - apply (ret_ok Data) in H. destruct H as [-> _]. exists g. split. exact HP. split. apply T_refl. exact Hp.
  Qed.

  (* ---- the modify loop ---- *)
  Lemma mq_loop2_PT : forall d, rb_good2 (rebuild1 d) -> forall fuel g s s', P g s -> pending Data s = [] ->
    mq_loop1 (rebuild1 d) fuel s = Ok (tt, s') ->
    exists g', P g' s' /\ T g s g' s' /\ pending Data s' = [] /\ modify_queue Data s' = [].
  Proof.
    intros d Hrb. induction fuel as [|f IH]; intros g s s' HP Hp H.
    - discriminate H.
    - rewrite mq_loop2_S in H. apply (mbind_ok Data) in H. destruct H as [q [s0 [H0 H]]].
      apply (gets_ok Data) in H0. destruct H0 as [-> ->].
      destruct (pop_last (modify_queue Data s)) as [[q' i]|] eqn:Epop.
      + apply (mbind_ok Data) in H. destruct H as [[] [s1 [H1 H]]]. apply (modify_ok Data) in H1. subst s1.
        apply (mbind_ok Data) in H. destruct H as [j [s2 [H2 H]]]. apply (reads_ok Data) in H2. destruct H2 as [-> _].
        apply (mbind_ok Data) in H. destruct H as [[] [s3 [H3 H]]].
        destruct (P_mq g s q' HP) as [HP1 HT1].
        assert (Hp1 : pending Data (set_mq Data s q') = []) by exact Hp.
        destruct (hook2_PT d j g _ _ Hrb HP1 Hp1 H3) as [g3 [HP3 [HT3 Hp3]]].
        destruct (IH g3 s3 s' HP3 Hp3 H) as [g' [HP' [HT' [Hp' Hq']]]].
        exists g'. split. exact HP'. split.
        eapply T_trans. exact HT1. eapply T_trans. exact HT3. exact HT'.
        split. exact Hp'. exact Hq'.
      + apply (ret_ok Data) in H. destruct H as [-> _].
        exists g. split. exact HP. split. apply T_refl. split. exact Hp. apply pop_last_None. exact Epop.
  Qed.

  (* ---- rebuild ---- *)
  Lemma rebuild1_good2 : forall depth, rb_good2 (rebuild1 depth).
  Proof.
    induction depth as [|d IHd]; intros g s s' HP H.
    - discriminate H.
    - rewrite rebuild2_S in H. apply (mbind_ok Data) in H. destruct H as [[] [s1 [H1 H2]]].
      destruct (rebuild_pending_PT _ g _ _ HP H1) as [g1 [HP1 [HT1 Hp1]]].
      destruct (mq_loop2_PT d IHd mq_fuel g1 s1 s' HP1 Hp1 H2) as [g' [HP' [HT' [Hp' Hq']]]].
      exists g'. split. exact HP'. split. eapply T_trans. exact HT1. exact HT'. split. exact Hp'. exact Hq'.
  Qed.

  Theorem rebuild1_PT : forall depth g s s', P g s -> rebuild1 depth s = Ok (tt, s') ->
    exists g', P g' s' /\ T g s g' s' /\ pending Data s' = [] /\ modify_queue Data s' = [].
  Proof. intros depth g s s' HP H. exact (rebuild1_good2 depth g s s' HP H). Qed.

  Theorem eg_add1_PT : forall g n s a s', P g s -> pending Data s = [] -> AddOK g s n ->
    eg_add Data make (rebuild1 rebuild_depth) n s = Ok (a, s') ->
    exists g', P g' s' /\ T g s g' s' /\ pending Data s' = [] /\ AddPost g' s' n (aid a).
  Proof.
    intros g n s a s' HP Hp HA H.
    exact (eg_add_gen2 _ g n s a s' (rebuild1_good2 rebuild_depth) HP Hp HA H).
  Qed.

  Theorem eg_union1_PT : forall g l r s b s', P g s -> pending Data s = [] -> Snd g s l r ->
    union_e l r s = Ok (b, s') ->
    exists g', P g' s' /\ T g s g' s' /\ pending Data s' = [] /\ modify_queue Data s' = [].
  Proof.
    intros g l r s b s' HP Hp HS H. unfold eg_union0, rb0 in H.
    exact (eg_union_gen2 _ g l r s b s' (rebuild1_good2 rebuild_depth) HP Hp HS H).
  Qed.
End Top2.

Print Assumptions rebuild1_PT.
Print Assumptions eg_add1_PT.
Print Assumptions eg_union1_PT.
