(* EGraph/AnalysisModelFoldUi.v — the semantic constant-folding invariant FI through quiet frames, a general union
   (union_internal) and eg_union with the trivial rebuild.  Port of Inv_gfr / Inv_ui / union_round of
   AnalysisModelReachA.v; the move is cf_move_to (AnalysisModelFoldMove.v). *)
From SE Require Import EGraph.ModelA EGraph.ModelAMachine EGraph.AnalysisFix EGraph.AnalysisModelChk EGraph.AnalysisModelBase EGraph.AnalysisModelStab EGraph.AnalysisModelUF EGraph.AnalysisModelAbs EGraph.AnalysisModelFrames EGraph.AnalysisModelTop EGraph.AnalysisModelFacts EGraph.AnalysisModelInv EGraph.AnalysisModelQuiet EGraph.AnalysisModelIds EGraph.AnalysisModelStr EGraph.AnalysisModelMove EGraph.AnalysisModelFoldInst EGraph.AnalysisModelFoldTop EGraph.AnalysisModelFold EGraph.AnalysisModelFoldSem EGraph.AnalysisModelFoldMove.
From SE Require EGraph.AnalysisModelUpper.
From Coq Require Import Lia Arith Bool List NArith.
Import ListNotations.

Definition FI (rho : node -> option N) (val : N -> option N) (s : egraph D) : Prop :=
  semv rho val s /\ cf_stabx_m (fun _ => False) s /\ cf_justs_m s /\ S0 D s.

Lemma FI_gfr : forall rho val s s', FI rho val s -> gfr D s s' -> FI rho val s'.
Proof.
  intros rho val s s' [Hsem [Hst [Hj HS]]] G.
  assert (Q := gfr_qfr D s s' G). assert (F := qfr_fr D s s' Q). destruct F as [Hd Hsub].
  assert (Hf : forall j, find_id D s' j = find_id D s j) by (apply gfr_fid; exact G).
  assert (Hh : hashcons D s' = hashcons D s) by (apply G).
  assert (Hmk : forall sh, cf_mk_in s' sh = cf_mk_in s sh).
  { intro sh. apply cf_mk_in_ext. intros k _. apply Hd. }
  split; [|split; [|split]].
  - constructor.
    + intros i r H. rewrite Hf in H. apply (sv_find rho val s Hsem i r H).
    + intros sh c H. unfold AnalysisModelBase.stored in H. rewrite Hh in H. apply (sv_node rho val s Hsem sh c H).
    + intros i d H. rewrite (Hd i) in H. apply (sv_data rho val s Hsem i d H).
  - intros sh i H1 H2 HX. destruct (Hsub sh i H1 H2) as [H3 H4].
    destruct (Hst sh i H3 H4 HX) as [d [v [Ha [Hm Hle]]]]. exists d, v. split. rewrite (Hd i). exact Ha.
    split. rewrite Hmk. exact Hm. exact Hle.
  - intros c k Hc Hdk. rewrite Hf in Hc. rewrite (Hd c) in Hdk. destruct (Hj c k Hc Hdk) as [sh [Hs Hm]].
    exists sh. split. unfold AnalysisModelBase.stored in *. rewrite Hh. exact Hs. rewrite Hmk. exact Hm.
  - eapply (Sx_strfr D). exact HS. apply G.
Qed.

Lemma fmap_fid_same_cf : forall s s' : egraph D, (forall j, find_id D s' j = find_id D s j) -> fmap D s s'.
Proof.
  intros s s' H j r Hr. exists r. split. rewrite H. exact Hr. rewrite H. eapply (AnalysisModelUpper.fid_root_of D). exact Hr.
Qed.

Lemma fmap_move_cf : forall (s s' : egraph D) from to, find_id D s to = Ok to -> from <> to ->
  (forall j r, find_id D s j = Ok r -> find_id D s' j = Ok (if r =? from then to else r)) -> fmap D s s'.
Proof.
  intros s s' from to Hto Hne H j r Hr. exists (if r =? from then to else r). split. apply H. exact Hr.
  apply H. eapply (AnalysisModelUpper.fid_root_of D). exact Hr.
Qed.

Theorem FI_ui : forall rho val f l r s b s', FI rho val s ->
  (forall rl rr, find_id D s (aid l) = Ok rl -> find_id D s (aid r) = Ok rr -> val rl = val rr) ->
  union_internal D optN_eqb merge_or f l r s = Ok (b, s') ->
  FI rho val s' /\ fmap D s s' /\
  (forall sh c, AnalysisModelBase.stored D s sh c -> exists c', AnalysisModelBase.stored D s' sh c' /\ find_id D s' c = Ok c') /\
  (exists m, find_id D s' (aid l) = Ok m /\ find_id D s' (aid r) = Ok m).
Proof.
  intros rho val f l r s b s' HI Hsound H.
  destruct (ui_shape D optN_eqb merge_or f l r s b s' H) as [s1 [rl [rr [G [Hl [Hr Hcase]]]]]].
  assert (HI1 := FI_gfr rho val s s1 HI G).
  assert (Hf1 : forall j, find_id D s1 j = find_id D s j) by (apply gfr_fid; exact G).
  assert (Hh1 : hashcons D s1 = hashcons D s) by (apply G).
  assert (Hv : val rl = val rr) by (apply Hsound; assumption).
  destruct Hcase as [[-> ->]|[Hne [from [to [Hft Hmv]]]]].
  - split. exact HI1. split. apply fmap_fid_same_cf. exact Hf1. split.
    + intros sh c Hs. exists c. split. unfold AnalysisModelBase.stored in *. rewrite Hh1. exact Hs.
      rewrite Hf1. destruct HI as [_ [_ [_ HS]]]. apply (sx_hl D (fun _ => False) s HS sh c Hs).
    + exists rr. rewrite !Hf1. split; assumption.
  - assert (Hrl : find_id D s1 rl = Ok rl). { rewrite Hf1. eapply (AnalysisModelUpper.fid_root_of D). exact Hl. }
    assert (Hrr : find_id D s1 rr = Ok rr). { rewrite Hf1. eapply (AnalysisModelUpper.fid_root_of D). exact Hr. }
    assert (Hroots : find_id D s1 (aid from) = Ok (aid from) /\ find_id D s1 (aid to) = Ok (aid to) /\ aid from <> aid to
                     /\ val (aid from) = val (aid to)).
    { destruct Hft as [[-> ->]|[-> ->]]. split. exact Hrl. split. exact Hrr. split. exact Hne. exact Hv.
      split. exact Hrr. split. exact Hrl. split. intro E. apply Hne. symmetry. exact E. symmetry. exact Hv. }
    destruct Hroots as [Hrf [Hrt [Hne' Hvft]]].
    destruct HI1 as [Hsem1 [Hst1 [Hj1 HS1]]].
    assert (HI' := cf_move_to rho val from to s1 s' Hsem1 Hst1 Hj1 HS1 Hrf Hrt Hne' Hvft Hmv).
    destruct (move_to_S0_full D optN_eqb merge_or from to s1 s' HS1 Hrf Hrt Hne' Hmv) as [_ [Hsto [Hfm _]]].
    assert (F1 : fmap D s1 s'). { eapply fmap_move_cf. exact Hrt. exact Hne'. exact Hfm. }
    split. exact HI'. split.
    + intros j r0 Hr0. apply F1. rewrite Hf1. exact Hr0.
    + split.
      * intros sh c Hs. assert (Hs1 : AnalysisModelBase.stored D s1 sh c). { unfold AnalysisModelBase.stored in *. rewrite Hh1. exact Hs. }
        exists (if c =? aid from then aid to else c). split. apply Hsto. exact Hs1.
        apply Hfm. apply (sx_hl D (fun _ => False) s1 HS1 sh c Hs1).
      * exists (aid to). rewrite <- Hf1 in Hl, Hr. rewrite (Hfm _ _ Hl), (Hfm _ _ Hr).
        destruct Hft as [[E1 E2]|[E1 E2]]; rewrite <- E1, <- E2.
        -- rewrite N.eqb_refl. destruct (aid to =? aid from) eqn:E. apply N.eqb_eq in E. symmetry in E. contradiction. split; reflexivity.
        -- rewrite N.eqb_refl. destruct (aid to =? aid from) eqn:E. apply N.eqb_eq in E. symmetry in E. contradiction. split; reflexivity.
Qed.

Theorem FI_union_round : forall rho val l r s b s', FI rho val s ->
  (forall rl rr, find_id D s (aid l) = Ok rl -> find_id D s (aid r) = Ok rr -> val rl = val rr) ->
  eg_union D optN_eqb merge_or (ret D tt) l r s = Ok (b, s') -> FI rho val s'.
Proof.
  intros rho val l r s b s' HI Hsound H. unfold eg_union in H.
  apply (mbind_ok D) in H. destruct H as [x1 [s1 [H1 H]]].
  apply (mbind_ok D) in H. destruct H as [x2 [s2 [H2 H]]].
  apply (mbind_ok D) in H. destruct H as [out [s3 [H3 H]]].
  apply (mbind_ok D) in H. destruct H as [u4 [s4 [H4 H]]].
  apply (ret_ok D) in H4. destruct H4 as [-> _]. apply (ret_ok D) in H. destruct H as [-> _].
  assert (G1 := synify_app_id_gfr D _ _ _ _ H1). assert (G2 := synify_app_id_gfr D _ _ _ _ H2).
  assert (HI1 := FI_gfr rho val s s1 HI G1).
  assert (HI2 := FI_gfr rho val s1 s2 HI1 G2).
  unfold uint in H3.
  apply (FI_ui rho val ui_fuel l r s2 out s3 HI2) in H3. apply H3.
  intros rl rr Hl Hr. apply Hsound.
  - rewrite <- (gfr_fid D s s1 G1). rewrite <- (gfr_fid D s1 s2 G2). exact Hl.
  - rewrite <- (gfr_fid D s s1 G1). rewrite <- (gfr_fid D s1 s2 G2). exact Hr.
Qed.

Print Assumptions FI_gfr.
Print Assumptions FI_ui.
Print Assumptions FI_union_round.
