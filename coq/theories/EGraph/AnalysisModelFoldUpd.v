(* EGraph/AnalysisModelFoldUpd.v — update_analysis for CONSTANT FOLDING (make_constfold, merge_or = l.or(r)):
   under a semantic interpretation `semv rho val s` the data-writing step preserves the interpretation, re-establishes
   stability in the FLAT order (fle) for every non-pending stored node, preserves justification, and only grows data.
   Port of AnalysisModelStab.update_analysis_stab without merge_comm / make_spec / Dok. *)
From SE Require Import EGraph.ModelA EGraph.ModelAMachine EGraph.AnalysisFix EGraph.AnalysisModelChk EGraph.AnalysisModelBase EGraph.AnalysisModelStab EGraph.AnalysisModelFoldInst EGraph.AnalysisModelFoldTop EGraph.AnalysisModelFold EGraph.AnalysisModelFoldSem.
From Coq Require Import Lia Arith Bool List NArith.
Import ListNotations.

Definition cf_stabx (X : node -> Prop) (s : egraph D) : Prop :=
  forall sh i, AnalysisModelBase.stored D s sh i -> AnalysisModelBase.npend D s sh -> ~ X sh ->
    exists d v, cf_adata s i = Ok d /\ cf_mk_in s sh = Ok v /\ fle v d.
(* justification in `stored` form *)
Definition cf_justs (s : egraph D) : Prop :=
  forall c k, find_id D s c = Ok c -> cf_adata s c = Ok (Some k) -> exists sh, AnalysisModelBase.stored D s sh c /\ cf_mk_in s sh = Ok (Some k).

Section Core.
  Variable rho : node -> option N.
  Variable val : N -> option N.
  Notation stored := (AnalysisModelBase.stored D).
  Notation npend := (AnalysisModelBase.npend D).
  Notation fid := (find_id D).

  (* the state-level core: s' is s with the datum of the root class i grown from old to merge_or old v *)
  Lemma cf_grow_core : forall sh i s s' old v,
    semv rho val s -> cf_stabx (eq sh) s -> cf_justs s ->
    stored s sh i -> fid s i = Ok i ->
    cf_adata s i = Ok old -> cf_mk_in s sh = Ok v ->
    (forall x j k, stored s x j -> In k (node_ids x) -> exists d, cf_adata s k = Ok d) ->
    unionfind D s' = unionfind D s -> hashcons D s' = hashcons D s ->
    (forall j, cf_adata s' j = match fid s j with
                               | Ok r => if N.eqb r i then Ok (merge_or old v) else cf_adata s j
                               | Err e => Err e end) ->
    (forall x, npend s' x -> npend s x) ->
    (merge_or old v <> old -> forall x i2, stored s x i2 -> npend s' x -> sh <> x -> ~ kid_in D s x i) ->
    semv rho val s' /\ cf_stabx (fun _ => False) s' /\ cf_justs s' /\
    (forall j d, cf_adata s j = Ok d -> exists d', cf_adata s' j = Ok d' /\ fle d d').
  Proof.
    intros sh i s s' old v HS Hst Hj Hsto Hroot Hold Hv Hkids HU HH Ha HP Hcov.
    assert (Hlo : fle old (val i)). { eapply sv_data. exact HS. exact Hold. }
    assert (Hlv : fle v (val i)). { apply (sem_make_le rho val s sh i v HS Hsto Hv). }
    pose proof (sem_merge_le old v (val i) Hlo Hlv) as Hm.
    remember (merge_or old v) as new eqn:Enew. destruct Hm as [Hln [Hon Hvn]].
    assert (Hfid : forall j, fid s' j = fid s j). { intro j. apply fid_uf. exact HU. }
    assert (Hs1 : forall x j, stored s' x j -> stored s x j).
    { intros x j Hx. unfold AnalysisModelBase.stored in *. rewrite HH in Hx. exact Hx. }
    assert (Hs2 : forall x j, stored s x j -> stored s' x j).
    { intros x j Hx. unfold AnalysisModelBase.stored in *. rewrite HH. exact Hx. }
    assert (Hgrow : forall j d, cf_adata s j = Ok d -> exists d', cf_adata s' j = Ok d' /\ fle d d').
    { intros j d Hd. destruct (adata_fid_ok D s j d Hd) as [r Hr]. rewrite Ha, Hr.
      destruct (N.eqb r i) eqn:Eri.
      - apply N.eqb_eq in Eri. subst r. exists new. split. reflexivity.
        rewrite (adata_same_class D s j i Hr Hroot) in Hd. rewrite Hold in Hd.
        assert (Ed : old = d) by congruence. rewrite <- Ed. exact Hon.
      - exists d. split. exact Hd. apply fle_refl. }
    assert (Hsame : new = old -> forall j, cf_adata s' j = cf_adata s j).
    { intros E j. rewrite Ha. destruct (fid s j) as [r|e] eqn:Er.
      - destruct (N.eqb r i) eqn:Eri.
        + apply N.eqb_eq in Eri. subst r. rewrite (adata_same_class D s j i Er Hroot). rewrite Hold, E. reflexivity.
        + reflexivity.
      - unfold analysis_data. rewrite Er. reflexivity. }
    assert (HS' : semv rho val s').
    { constructor.
      - intros j r Hr. rewrite Hfid in Hr. eapply sv_find. exact HS. exact Hr.
      - intros x c Hx. apply Hs1 in Hx. eapply sv_node. exact HS. exact Hx.
      - intros j d Hd. rewrite Ha in Hd. destruct (fid s j) as [r|e] eqn:Er; [|discriminate].
        destruct (N.eqb r i) eqn:Eri.
        + apply N.eqb_eq in Eri. subst r. assert (Ed : new = d) by congruence. rewrite <- Ed.
          rewrite (sv_find rho val s HS j i Er). exact Hln.
        + eapply sv_data. exact HS. exact Hd. }
    assert (Hmk' : forall x j, stored s x j -> exists v', cf_mk_in s' x = Ok v').
    { intros x j Hx. unfold make_in. apply cf_make_ok. intros k Hk.
      destruct (Hkids x j k Hx Hk) as [d Hd]. destruct (Hgrow k d Hd) as [d' [Hd' _]]. exists d'. exact Hd'. }
    assert (Hmono : forall x w w', cf_mk_in s x = Ok w -> cf_mk_in s' x = Ok w' -> fle w w').
    { intros x w w' Hw Hw'. unfold make_in in Hw, Hw'.
      apply (cf_make_mono (cf_adata s) (cf_adata s') x w w'). 2: exact Hw. 2: exact Hw'.
      intros k _ d Hd. apply Hgrow. exact Hd. }
    assert (Hup : forall x j k, stored s x j -> cf_mk_in s x = Ok (Some k) -> cf_mk_in s' x = Ok (Some k)).
    { intros x j k Hx Hw. destruct (Hmk' x j Hx) as [w' Hw'].
      destruct (Hmono x (Some k) w' Hw Hw') as [E|E]. discriminate. rewrite Hw'. rewrite <- E. reflexivity. }
    split. exact HS'. split; [|split].
    - (* stability *)
      intros x i2 Hx Hn _. apply Hs1 in Hx.
      destruct (Hmk' x i2 Hx) as [w' Hw'].
      destruct (node_eqb x sh) eqn:En.
      + apply node_eqb_true in En. subst x.
        assert (Ei : i2 = i). { unfold AnalysisModelBase.stored in Hx, Hsto. congruence. } subst i2.
        exists new, w'. split. rewrite Ha, Hroot, N.eqb_refl. reflexivity. split. exact Hw'.
        assert (Hw'l : fle w' (val i)). { apply (sem_make_le rho val s' sh i w' HS' (Hs2 _ _ Hsto) Hw'). }
        destruct Hln as [X|X].
        * assert (E : new = old). { destruct Hon as [Y|Y]; congruence. }
          assert (Ew : w' = v). { rewrite (cf_mk_in_ext s s' sh (fun k _ => Hsame E k)) in Hw'. congruence. }
          subst w'. exact Hvn.
        * rewrite X. exact Hw'l.
      + assert (Hne : sh <> x). { intro X. subst x. rewrite node_eqb_refl in En. discriminate. }
        destruct (Hst x i2 Hx (HP x Hn) Hne) as [d [w [Hd [Hw Hle]]]].
        destruct (Hgrow i2 d Hd) as [d' [Hd' Hdd']].
        exists d', w'. split. exact Hd'. split. exact Hw'.
        assert (Ew : w' = w).
        { destruct (optN_eqb new old) eqn:Eq.
          - apply optN_eqb_spec in Eq. rewrite (cf_mk_in_ext s s' x (fun k _ => Hsame Eq k)) in Hw'. congruence.
          - assert (Hneq : new <> old). { intro E. apply optN_eqb_spec in E. congruence. }
            assert (Hnk := Hcov Hneq x i2 Hx Hn Hne).
            assert (Hext : cf_mk_in s' x = cf_mk_in s x).
            { apply cf_mk_in_ext. intros k Hk. rewrite Ha. destruct (fid s k) as [r|e] eqn:Er.
              - destruct (N.eqb r i) eqn:Eri.
                + apply N.eqb_eq in Eri. subst r. exfalso. apply Hnk. exists k. split; assumption.
                + reflexivity.
              - unfold analysis_data. rewrite Er. reflexivity. }
            congruence. }
        subst w'. eapply fle_trans. exact Hle. exact Hdd'.
    - (* justification *)
      intros c k Hc Hd. rewrite Hfid in Hc. rewrite Ha, Hc in Hd.
      assert (Hfrom : cf_adata s c = Ok (Some k) -> exists x, stored s' x c /\ cf_mk_in s' x = Ok (Some k)).
      { intro Hd0. destruct (Hj c k Hc Hd0) as [x [Hx Hw]]. exists x. split. apply Hs2. exact Hx.
        apply (Hup x c k Hx Hw). }
      destruct (N.eqb c i) eqn:Eci.
      + apply N.eqb_eq in Eci. subst c. assert (En : new = Some k) by congruence.
        destruct old as [a|].
        * apply Hfrom. rewrite Enew in En. rewrite below_weak in En. rewrite Hold. rewrite En. reflexivity.
        * assert (Ev : v = Some k). { rewrite <- En, Enew. reflexivity. }
          exists sh. split. apply Hs2. exact Hsto. apply (Hup sh i k Hsto). rewrite Hv, Ev. reflexivity.
      + apply Hfrom. exact Hd.
    - exact Hgrow.
  Qed.
End Core.

Theorem cf_update_analysis : forall rho val sh i s s',
  semv rho val s -> cf_stabx (eq sh) s -> cf_justs s ->
  AnalysisModelBase.stored D s sh i -> find_id D s i = Ok i ->
  ucov_at D (eq sh) s i ->
  (forall x j k, AnalysisModelBase.stored D s x j -> In k (node_ids x) -> exists d, cf_adata s k = Ok d) ->
  update_analysis D optN_eqb make_constfold merge_or sh i s = Ok (tt, s') ->
  semv rho val s' /\ cf_stabx (fun _ => False) s' /\ cf_justs s' /\
  unionfind D s' = unionfind D s /\ hashcons D s' = hashcons D s /\
  (forall x, AnalysisModelBase.npend D s' x -> AnalysisModelBase.npend D s x) /\
  (forall j d, cf_adata s j = Ok d -> exists d', cf_adata s' j = Ok d' /\ fle d d').
Proof.
  intros rho val sh i s s' HS Hst Hj Hsto Hroot Hcov Hkids H.
  unfold update_analysis in H.
  apply (mbind_ok D) in H. destruct H as [v [s0 [H0 H]]]. apply (reads_ok D) in H0. destruct H0 as [-> Hv].
  apply (mbind_ok D) in H. destruct H as [c [s0 [H0 H]]]. apply (reads_ok D) in H0. destruct H0 as [-> Hc].
  apply (mbind_ok D) in H. destruct H as [[] [s1 [H1 H]]].
  apply upd_data_eff in H1. destruct H1 as [c' [Hc' [U1 [HC1 [P1 [G1 In1]]]]]].
  rewrite Hc in Hc'. inversion Hc'; subst c'. clear Hc'.
  set (old := c_data D c) in *. set (new := merge_or old v) in *.
  assert (Hold : cf_adata s i = Ok old).
  { unfold analysis_data. rewrite Hroot. cbn [bind]. rewrite Hc. reflexivity. }
  assert (Ha1 := adata_upd D i new s s1 c Hc U1 G1).
  destruct (optN_eqb new old) eqn:Eq.
  - (* unchanged *)
    apply (ret_ok D) in H. destruct H as [-> _].
    apply optN_eqb_spec in Eq.
    assert (HP : forall x, AnalysisModelBase.npend D s1 x -> AnalysisModelBase.npend D s x).
    { intros x Hx. unfold AnalysisModelBase.npend in *. rewrite P1 in Hx. exact Hx. }
    destruct (cf_grow_core rho val sh i s s1 old v HS Hst Hj Hsto Hroot Hold Hv Hkids U1 HC1 Ha1 HP) as [A [B [C E]]].
    { intro Hneq. exfalso. apply Hneq. exact Eq. }
    split. exact A. split. exact B. split. exact C. split. exact U1. split. exact HC1. split. exact HP. exact E.
  - (* changed: the usages of i are pending now *)
    apply (mbind_ok D) in H. destruct H as [[] [s2 [H2 H3]]].
    apply mq_push_eff in H2. destruct H2 as [U2 [C2 [HC2 P2]]].
    apply touched_class_eff in H3. destruct H3 as [c3 [Hc3 [U3 [C3 [HC3 P3]]]]].
    assert (Hc3' : c_usages D c3 = c_usages D c).
    { unfold get_class in Hc3. rewrite C2 in Hc3. fold (get_class D s1 i) in Hc3. rewrite G1 in Hc3. rewrite N.eqb_refl in Hc3. inversion Hc3. reflexivity. }
    assert (Had : forall j, cf_adata s' j = cf_adata s1 j).
    { intro j. apply adata_eq. congruence. congruence. }
    assert (HU : unionfind D s' = unionfind D s) by congruence.
    assert (HH : hashcons D s' = hashcons D s) by congruence.
    assert (Ha : forall j, cf_adata s' j = match find_id D s j with
                               | Ok r => if N.eqb r i then Ok (merge_or old v) else cf_adata s j
                               | Err e => Err e end).
    { intro j. rewrite Had. apply Ha1. }
    assert (HP : forall x, AnalysisModelBase.npend D s' x -> AnalysisModelBase.npend D s x).
    { intros x Hx. destruct (P3 x Hx) as [Hx' _]. unfold AnalysisModelBase.npend in *. rewrite P2, P1 in Hx'. exact Hx'. }
    destruct (cf_grow_core rho val sh i s s' old v HS Hst Hj Hsto Hroot Hold Hv Hkids HU HH Ha HP) as [A [B [C E]]].
    { intros _ x i2 Hx Hn Hne Hk. destruct (P3 x Hn) as [Hn' Hnu]. apply Hnu. rewrite Hc3'.
      apply (Hcov x i2 c Hx (HP x Hn) Hne Hk Hc). }
    split. exact A. split. exact B. split. exact C. split. exact HU. split. exact HH. split. exact HP. exact E.
Qed.

Print Assumptions cf_update_analysis.
