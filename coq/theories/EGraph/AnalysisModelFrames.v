(* EGraph/AnalysisModelFrames.v — frame lemmas for EGraph/ModelA.v: the operations that do not write
   analysis data leave `analysis_data` unchanged and only shrink the set of stored-and-not-pending
   shapes. *)
From SE Require Import EGraph.ModelA EGraph.AnalysisModelBase.
From Coq Require Import Lia Arith Bool List NArith.
Import ListNotations.

Section Frames.
  Variable Data : Type.

  Notation eg := (egraph Data).
  Notation uf := (unionfind Data).
  Notation cls := (classes Data).
  Notation hc := (hashcons Data).
  Notation pend := (pending Data).
  Notation cdata := (c_data Data).
  Notation cusages := (c_usages Data).
  Notation gclass := (get_class Data).
  Notation adata := (analysis_data Data).

  (* ---------------- lists ---------------- *)
  Lemma nth_opt_map_f : forall {A B} (f : A -> B) l n, nth_opt (map f l) n = option_map f (nth_opt l n).
  Proof.
    intros A B f l. induction l as [|x t IH]; intros [|n]; cbn [map nth_opt option_map]; try reflexivity. apply IH.
  Qed.

  Lemma map_set_nth_keep : forall {A B} (f : A -> B) l n x c,
    nth_opt l n = Some c -> f x = f c -> map f (set_nth l n x) = map f l.
  Proof.
    intros A B f l. induction l as [|y t IH]; intros [|n] x c H E; cbn [nth_opt set_nth map] in *; try discriminate.
    - inversion H; subst. rewrite E. reflexivity.
    - f_equal. eapply IH; eassumption.
  Qed.

  Lemma nth_opt_lt_len : forall {A} (l : list A) n x, nth_opt l n = Some x -> (n < List.length l)%nat.
  Proof.
    intros A l. induction l as [|y t IH]; intros [|n] x H; cbn [nth_opt List.length] in *; try discriminate.
    lia. apply IH in H. lia.
  Qed.

  Lemma nth_opt_set_nth_eq : forall {A} (l : list A) n x c, nth_opt l n = Some c -> nth_opt (set_nth l n x) n = Some x.
  Proof.
    intros A l. induction l as [|y t IH]; intros [|n] x c H; cbn [nth_opt set_nth] in *; try discriminate.
    reflexivity. eapply IH; eassumption.
  Qed.

  Lemma nth_opt_set_nth_ne : forall {A} (l : list A) n m x, n <> m -> nth_opt (set_nth l n x) m = nth_opt l m.
  Proof.
    intros A l. induction l as [|y t IH]; intros [|n] [|m] x H; cbn [nth_opt set_nth] in *; try reflexivity.
    contradiction. apply IH. lia.
  Qed.

  (* ---------------- association lists ---------------- *)
  Definition na_nodup {V} (l : list (node * V)) : Prop := NoDup (map fst l).

  Lemma node_eq_dec' : forall n m : node, n = m \/ n <> m.
  Proof.
    intros n m. destruct (node_eqb n m) eqn:E. left. apply node_eqb_true. exact E.
    right. intro H. apply node_eqb_true in H. congruence.
  Qed.

  Lemma na_get_none_notin : forall {V} (l : list (node * V)) k, ~ In k (map fst l) -> na_get l k = None.
  Proof.
    intros V l. induction l as [|[k' v] t IH]; intros k H; cbn [na_get map fst In] in *. reflexivity.
    destruct (node_eqb k k') eqn:E.
    - apply node_eqb_true in E. subst k'. exfalso. apply H. left. reflexivity.
    - apply IH. intro Hin. apply H. right. exact Hin.
  Qed.

  Lemma na_get_remove_same : forall {V} (l : list (node * V)) k, na_nodup l -> na_get (na_remove l k) k = None.
  Proof.
    intros V l. unfold na_nodup. induction l as [|[k' v] t IH]; intros k H; cbn [na_remove map fst] in *. reflexivity.
    inversion H as [|x r Hn Hd]; subst.
    destruct (node_eqb k k') eqn:E.
    - apply node_eqb_true in E. subst k'. apply na_get_none_notin. exact Hn.
    - cbn [na_get]. rewrite E. apply IH. exact Hd.
  Qed.

  Lemma na_set_in_fst : forall {V} (l : list (node * V)) k v x, In x (map fst (na_set l k v)) -> x = k \/ In x (map fst l).
  Proof.
    intros V l. induction l as [|[k' v'] t IH]; intros k v x H; cbn [na_set map fst In] in *.
    - destruct H as [H|[]]. left. congruence.
    - destruct (node_eqb k k') eqn:E; cbn [map fst In] in H.
      + right. exact H.
      + destruct H as [H|H]. right. left. exact H.
        apply IH in H. destruct H as [H|H]. left. exact H. right. right. exact H.
  Qed.

  Lemma na_set_nodup : forall {V} (l : list (node * V)) k v, na_nodup l -> na_nodup (na_set l k v).
  Proof.
    intros V l. unfold na_nodup. induction l as [|[k' v'] t IH]; intros k v H; cbn [na_set map fst] in *.
    - constructor. intros []. constructor.
    - inversion H as [|x r Hn Hd]; subst.
      destruct (node_eqb k k') eqn:E; cbn [map fst].
      + constructor; assumption.
      + constructor. 2: apply IH; exact Hd.
        intro Hin. apply na_set_in_fst in Hin. destruct Hin as [Hin|Hin].
        * subst k'. rewrite node_eqb_refl in E. discriminate.
        * contradiction.
  Qed.

  Lemma na_remove_in_fst : forall {V} (l : list (node * V)) k x, In x (map fst (na_remove l k)) -> In x (map fst l).
  Proof.
    intros V l. induction l as [|[k' v'] t IH]; intros k x H; cbn [na_remove map fst In] in *. exact H.
    destruct (node_eqb k k'); cbn [map fst In] in H.
    - right. exact H.
    - destruct H as [H|H]. left. exact H. right. eapply IH. exact H.
  Qed.

  Lemma na_remove_nodup : forall {V} (l : list (node * V)) k, na_nodup l -> na_nodup (na_remove l k).
  Proof.
    intros V l. unfold na_nodup. induction l as [|[k' v'] t IH]; intros k H; cbn [na_remove map fst] in *. exact H.
    inversion H as [|x r Hn Hd]; subst.
    destruct (node_eqb k k'); cbn [map fst].
    - exact Hd.
    - constructor. intro Hin. apply Hn. eapply na_remove_in_fst. exact Hin. apply IH. exact Hd.
  Qed.

  (* ---------------- the frames ---------------- *)
  Definition dfr (s s' : eg) : Prop :=
    map aid (uf s') = map aid (uf s) /\ map cdata (cls s') = map cdata (cls s).
  Definition pgrow (s s' : eg) : Prop :=
    forall sh, na_get (pend s) sh <> None -> na_get (pend s') sh <> None.
  Definition qfr (s s' : eg) : Prop := dfr s s' /\ hc s' = hc s /\ pgrow s s'.

  Lemma dfr_refl : forall s, dfr s s.
  Proof. intro s. split; reflexivity. Qed.
  Lemma dfr_trans : forall a b c, dfr a b -> dfr b c -> dfr a c.
  Proof. intros a b c [H1 H2] [H3 H4]. split; congruence. Qed.
  Lemma pgrow_refl : forall s, pgrow s s.
  Proof. intros s sh H. exact H. Qed.
  Lemma pgrow_trans : forall a b c, pgrow a b -> pgrow b c -> pgrow a c.
  Proof. intros a b c H1 H2 sh H. apply H2. apply H1. exact H. Qed.
  Lemma pgrow_eq : forall s s', pend s' = pend s -> pgrow s s'.
  Proof. intros s s' E sh H. rewrite E. exact H. Qed.
  Lemma qfr_refl : forall s, qfr s s.
  Proof. intro s. split. apply dfr_refl. split. reflexivity. apply pgrow_refl. Qed.
  Lemma qfr_trans : forall a b c, qfr a b -> qfr b c -> qfr a c.
  Proof.
    intros a b c [D1 [H1 P1]] [D2 [H2 P2]]. split. eapply dfr_trans; eassumption.
    split. congruence. eapply pgrow_trans; eassumption.
  Qed.

  (* ---------------- A: analysis_data depends only on map aid / map c_data ---------------- *)
  Lemma uf_get_go_S : forall f u i,
    uf_get_go (S f) u i =
    match nth_opt u (N.to_nat i) with
    | None => Err OutOfBounds
    | Some e => if (aid e =? i)%N then Ok e
                else do l <- uf_get_go f u (aid e); Ok {| aid := aid l; am := compose_partial (am l) (am e) |}
    end.
  Proof. reflexivity. Qed.

  Lemma uf_get_go_aid : forall fuel u u' i, map aid u = map aid u' ->
    (do p <- uf_get_go fuel u i; Ok (aid p)) = (do p <- uf_get_go fuel u' i; Ok (aid p)).
  Proof.
    induction fuel as [|f IH]; intros u u' i E. reflexivity.
    rewrite !uf_get_go_S.
    assert (En : option_map aid (nth_opt u (N.to_nat i)) = option_map aid (nth_opt u' (N.to_nat i))).
    { rewrite <- !nth_opt_map_f. rewrite E. reflexivity. }
    destruct (nth_opt u (N.to_nat i)) as [e|]; destruct (nth_opt u' (N.to_nat i)) as [e'|];
      cbn [option_map] in En; try discriminate; try reflexivity.
    inversion En as [Ea]. rewrite Ea.
    destruct (aid e' =? i)%N.
    - cbn [bind]. rewrite Ea. reflexivity.
    - specialize (IH u u' (aid e') E).
      destruct (uf_get_go f u (aid e')) as [a|x]; destruct (uf_get_go f u' (aid e')) as [a'|x'];
        cbn [bind aid] in IH |- *; try discriminate; exact IH.
  Qed.

  Lemma find_id_dfr : forall s s' i, map aid (uf s') = map aid (uf s) -> find_id Data s' i = find_id Data s i.
  Proof.
    intros s s' i E. unfold find_id, unionfind_get.
    assert (El : List.length (uf s') = List.length (uf s)).
    { rewrite <- (map_length aid (uf s')), <- (map_length aid (uf s)). rewrite E. reflexivity. }
    rewrite El. apply uf_get_go_aid. exact E.
  Qed.

  Lemma get_class_data_dfr : forall s s' j, map cdata (cls s') = map cdata (cls s) ->
    (do c <- gclass s' j; Ok (cdata c)) = (do c <- gclass s j; Ok (cdata c)).
  Proof.
    intros s s' j E. unfold get_class.
    assert (En : option_map cdata (nth_opt (cls s') (N.to_nat j)) = option_map cdata (nth_opt (cls s) (N.to_nat j))).
    { rewrite <- !nth_opt_map_f. rewrite E. reflexivity. }
    destruct (nth_opt (cls s') (N.to_nat j)) as [c'|]; destruct (nth_opt (cls s) (N.to_nat j)) as [c|];
      cbn [option_map] in En; try discriminate; cbn [bind]. inversion En. congruence. reflexivity.
  Qed.

  Lemma dfr_dsame : forall s s', dfr s s' -> dsame Data s s'.
  Proof.
    intros s s' [E1 E2] j. unfold analysis_data. rewrite (find_id_dfr s s' j E1).
    destruct (find_id Data s j) as [k|e]; cbn [bind]. apply get_class_data_dfr. exact E2. reflexivity.
  Qed.

  Lemma qfr_fr : forall s s', qfr s s' -> fr Data s s'.
  Proof.
    intros s s' [D [H P]]. split. apply dfr_dsame. exact D.
    intros sh i Hs Hn. unfold stored, npend in *. split. rewrite <- H. exact Hs.
    destruct (na_get (pend s) sh) as [b|] eqn:E. 2: reflexivity.
    exfalso. apply (P sh). rewrite E. discriminate. exact Hn.
  Qed.

  (* ---------------- B: quiet operations ---------------- *)
  Lemma qfr_bind : forall {A C} (m : M Data A) (k : A -> M Data C) s c s',
    (forall a s1, m s = Ok (a, s1) -> qfr s s1) ->
    (forall a s1, k a s1 = Ok (c, s') -> qfr s1 s') ->
    mbind Data m k s = Ok (c, s') -> qfr s s'.
  Proof.
    intros A C m k s c s' Hm Hk H. apply mbind_ok in H. destruct H as [a [s1 [H1 H2]]].
    eapply qfr_trans. eapply Hm. exact H1. eapply Hk. exact H2.
  Qed.

  Lemma ret_qfr : forall {A} (x : A) s a s', ret Data x s = Ok (a, s') -> qfr s s'.
  Proof. intros A x s a s' H. apply ret_ok in H. destruct H as [-> _]. apply qfr_refl. Qed.
  Lemma reads_qfr : forall {A} (f : eg -> res A) s a s', reads Data f s = Ok (a, s') -> qfr s s'.
  Proof. intros A f s a s' H. apply reads_ok in H. destruct H as [-> _]. apply qfr_refl. Qed.
  Lemma lift_qfr : forall {A} (r : res A) s a s', lift Data r s = Ok (a, s') -> qfr s s'.
  Proof. intros A r s a s' H. apply lift_ok in H. destruct H as [-> _]. apply qfr_refl. Qed.
  Lemma gets_qfr : forall {A} (f : eg -> A) s a s', gets Data f s = Ok (a, s') -> qfr s s'.
  Proof. intros A f s a s' H. apply gets_ok in H. destruct H as [-> _]. apply qfr_refl. Qed.

  Lemma fresh_qfr : forall s x s', fresh Data s = Ok (x, s') -> qfr s s'.
  Proof.
    intros s x s' H. unfold fresh in H. inversion H; subst. split. split; reflexivity. split. reflexivity.
    apply pgrow_eq. reflexivity.
  Qed.

  Lemma with_ctr_qfr : forall {A} (f : N -> A * N) s x s', with_ctr Data f s = Ok (x, s') -> qfr s s'.
  Proof.
    intros A f s x s' H. unfold with_ctr in H. destruct (f (ctr Data s)) as [a c]. inversion H; subst.
    split. split; reflexivity. split. reflexivity. apply pgrow_eq. reflexivity.
  Qed.

  Lemma set_pending_qfr : forall s p, (forall sh, na_get (pend s) sh <> None -> na_get p sh <> None) ->
    qfr s (set_pending Data s p).
  Proof. intros s p H. split. split; reflexivity. split. reflexivity. exact H. Qed.

  Lemma pending_insert_qfr : forall sh ty s x s', pending_insert Data sh ty s = Ok (x, s') -> qfr s s'.
  Proof.
    intros sh ty s x s' H. unfold pending_insert in H. apply modify_ok in H. subst s'.
    apply set_pending_qfr. intros sh0 H0.
    destruct (node_eq_dec' sh0 sh) as [->|Hne]. rewrite na_get_set_same. discriminate.
    rewrite na_get_set_other by exact Hne. exact H0.
  Qed.

  Lemma pending_touch_qfr : forall sh ty s x s', pending_touch Data sh ty s = Ok (x, s') -> qfr s s'.
  Proof.
    intros sh ty s x s' H. unfold pending_touch in H. apply modify_ok in H. subst s'.
    apply set_pending_qfr. intros sh0 H0.
    destruct (na_get (pend s) sh) as [v|] eqn:E.
    - destruct (node_eq_dec' sh0 sh) as [->|Hne]. rewrite na_get_set_same. discriminate.
      rewrite na_get_set_other by exact Hne. exact H0.
    - destruct (na_get (pend s) sh0) as [v0|] eqn:E0. 2: congruence.
      rewrite (na_get_app_some _ _ _ _ E0). discriminate.
  Qed.

  Lemma pending_touch_sets : forall sh ty s x s', pending_touch Data sh ty s = Ok (x, s') -> na_get (pend s') sh <> None.
  Proof.
    intros sh ty s x s' H. unfold pending_touch in H. apply modify_ok in H. subst s'.
    cbn [pending set_pending]. destruct (na_get (pend s) sh) as [v|] eqn:E.
    - rewrite na_get_set_same. discriminate.
    - rewrite (na_get_app_none _ _ _ E). cbn [na_get]. rewrite node_eqb_refl. discriminate.
  Qed.

  Lemma pending_insert_sets : forall sh ty s x s', pending_insert Data sh ty s = Ok (x, s') -> na_get (pend s') sh <> None.
  Proof.
    intros sh ty s x s' H. unfold pending_insert in H. apply modify_ok in H. subst s'.
    cbn [pending set_pending]. rewrite na_get_set_same. discriminate.
  Qed.

  Lemma mq_push_qfr : forall i s x s', mq_push Data i s = Ok (x, s') -> qfr s s'.
  Proof.
    intros i s x s' H. unfold mq_push in H. apply modify_ok in H. subst s'.
    split. split; reflexivity. split. reflexivity. apply pgrow_eq. reflexivity.
  Qed.

  Lemma iterM_qfr : forall {A} (f : A -> M Data unit) l,
    (forall x s s', In x l -> f x s = Ok (tt, s') -> qfr s s') ->
    forall s s', iterM Data f l s = Ok (tt, s') -> qfr s s'.
  Proof.
    intros A f l Hf s s' H. apply (iterM_inv Data (qfr s) f l) with (s := s). 3: exact H. 2: apply qfr_refl.
    intros x a b Hx Ha Hb. eapply qfr_trans. exact Ha. eapply Hf; eassumption.
  Qed.

  Lemma touched_class_qfr : forall i ty s x s', touched_class Data i ty s = Ok (x, s') -> qfr s s'.
  Proof.
    intros i ty s [] s' H. unfold touched_class in H. apply mbind_ok in H. destruct H as [c [s1 [H1 H2]]].
    apply reads_ok in H1. destruct H1 as [-> _]. eapply iterM_qfr. 2: exact H2.
    intros sh a b _ Hab. eapply pending_touch_qfr. exact Hab.
  Qed.

  Lemma iterM_touch_pending : forall ty l s s', iterM Data (fun sh => pending_touch Data sh ty) l s = Ok (tt, s') ->
    forall sh, In sh l -> na_get (pend s') sh <> None.
  Proof.
    intros ty l. induction l as [|a t IH]; intros s s' H sh Hin. destruct Hin.
    cbn [iterM] in H. apply mbind_ok in H. destruct H as [[] [s1 [H1 H2]]].
    destruct Hin as [->|Hin].
    - assert (Q : qfr s1 s'). { eapply iterM_qfr. 2: exact H2. intros y a0 b _ Hab. eapply pending_touch_qfr. exact Hab. }
      destruct Q as [_ [_ P]]. apply P. eapply pending_touch_sets. exact H1.
    - eapply IH; eassumption.
  Qed.

  Lemma touched_class_pending : forall i ty s s' c, touched_class Data i ty s = Ok (tt, s') -> gclass s i = Ok c ->
    forall sh, In sh (cusages c) -> na_get (pend s') sh <> None.
  Proof.
    intros i ty s s' c H Hc sh Hin. unfold touched_class in H. apply mbind_ok in H. destruct H as [c0 [s1 [H1 H2]]].
    apply reads_ok in H1. destruct H1 as [-> H1]. rewrite Hc in H1. inversion H1; subst c0.
    eapply iterM_touch_pending; eassumption.
  Qed.

  (* the exact effect of upd_class *)
  Lemma upd_class_effect : forall i f s x s', upd_class Data i f s = Ok (x, s') ->
    exists c, gclass s i = Ok c /\ nth_opt (cls s) (N.to_nat i) = Some c /\
              s' = set_classes Data s (set_nth (cls s) (N.to_nat i) (f c)).
  Proof.
    intros i f s x s' H. unfold upd_class in H. unfold get_class.
    destruct (nth_opt (cls s) (N.to_nat i)) as [c|] eqn:E. 2: discriminate.
    inversion H; subst. exists c. split. reflexivity. split; reflexivity.
  Qed.

  Lemma upd_class_get : forall i f s x s', upd_class Data i f s = Ok (x, s') ->
    exists c, gclass s i = Ok c /\ uf s' = uf s /\ hc s' = hc s /\ pend s' = pend s /\
      (forall j, gclass s' j = if (j =? i)%N then Ok (f c) else gclass s j).
  Proof.
    intros i f s x s' H. apply upd_class_effect in H. destruct H as [c [Hc [Hn ->]]].
    exists c. split. exact Hc. split. reflexivity. split. reflexivity. split. reflexivity.
    intro j. unfold get_class. cbn [classes set_classes].
    destruct (j =? i)%N eqn:E.
    - apply N.eqb_eq in E. subst j. rewrite (nth_opt_set_nth_eq _ _ _ _ Hn). reflexivity.
    - apply N.eqb_neq in E. rewrite nth_opt_set_nth_ne. reflexivity. intro Hc'. apply E. apply N2Nat.inj. symmetry. exact Hc'.
  Qed.

  Lemma upd_class_data : forall i d s s', upd_class Data i (fun c => with_data Data c d) s = Ok (tt, s') ->
    exists c, gclass s i = Ok c /\ uf s' = uf s /\ hc s' = hc s /\ pend s' = pend s /\
      (forall j, gclass s' j = if (j =? i)%N then Ok (with_data Data c d) else gclass s j).
  Proof. intros i d s s' H. apply upd_class_get in H. exact H. Qed.

  (* strong quiet frame: nothing but classes (data kept) changes *)
  Definition sfr (s s' : eg) : Prop := dfr s s' /\ hc s' = hc s /\ pend s' = pend s.
  Lemma sfr_refl : forall s, sfr s s.
  Proof. intro s. split. apply dfr_refl. split; reflexivity. Qed.
  Lemma sfr_trans : forall a b c, sfr a b -> sfr b c -> sfr a c.
  Proof. intros a b c [D1 [H1 P1]] [D2 [H2 P2]]. split. eapply dfr_trans; eassumption. split; congruence. Qed.
  Lemma sfr_qfr : forall s s', sfr s s' -> qfr s s'.
  Proof. intros s s' [D [H P]]. split. exact D. split. exact H. apply pgrow_eq. exact P. Qed.

  Lemma upd_class_sfr : forall i f s x s', (forall c, cdata (f c) = cdata c) ->
    upd_class Data i f s = Ok (x, s') -> sfr s s'.
  Proof.
    intros i f s x s' Hf H. apply upd_class_effect in H. destruct H as [c [_ [Hn ->]]].
    split. split. reflexivity. cbn [classes set_classes]. eapply map_set_nth_keep. exact Hn. apply Hf.
    split; reflexivity.
  Qed.

  Lemma upd_class_qfr : forall i f s x s', (forall c, cdata (f c) = cdata c) ->
    upd_class Data i f s = Ok (x, s') -> qfr s s'.
  Proof. intros i f s x s' Hf H. apply sfr_qfr. eapply upd_class_sfr; eassumption. Qed.

  Lemma upd_class_with_nodes_qfr : forall i g s x s', upd_class Data i (fun c => with_nodes Data c (g c)) s = Ok (x, s') -> qfr s s'.
  Proof. intros i g s x s' H. eapply upd_class_qfr. 2: exact H. intro c. reflexivity. Qed.
  Lemma upd_class_with_usages_qfr : forall i g s x s', upd_class Data i (fun c => with_usages Data c (g c)) s = Ok (x, s') -> qfr s s'.
  Proof. intros i g s x s' H. eapply upd_class_qfr. 2: exact H. intro c. reflexivity. Qed.
  Lemma upd_class_with_group_qfr : forall i g s x s', upd_class Data i (fun c => with_group Data c (g c)) s = Ok (x, s') -> qfr s s'.
  Proof. intros i g s x s' H. eapply upd_class_qfr. 2: exact H. intro c. reflexivity. Qed.
  Lemma upd_class_with_slots_qfr : forall i g s x s', upd_class Data i (fun c => with_slots Data c (g c)) s = Ok (x, s') -> qfr s s'.
  Proof. intros i g s x s' H. eapply upd_class_qfr. 2: exact H. intro c. reflexivity. Qed.

  (* synify *)
  Fixpoint syn_go (l : list slot) (m : slotmap) : M Data slotmap :=
    match l with
    | [] => ret Data m
    | x :: t => if contains_key m x then syn_go t m
                else mbind Data (fresh Data) (fun f => syn_go t (insert x f m))
    end.

  Lemma synify_app_id_eq : forall a,
    synify_app_id Data a =
    mbind Data (reads Data (fun s => syn_slots Data s (aid a))) (fun ss =>
    mbind Data (syn_go ss (am a)) (fun m => ret Data {| aid := aid a; am := m |})).
  Proof. reflexivity. Qed.

  Lemma syn_go_qfr : forall l m s x s', syn_go l m s = Ok (x, s') -> qfr s s'.
  Proof.
    induction l as [|y t IH]; intros m s x s' H; cbn [syn_go] in H.
    - eapply ret_qfr. exact H.
    - destruct (contains_key m y). eapply IH. exact H.
      apply mbind_ok in H. destruct H as [f [s1 [H1 H2]]].
      eapply qfr_trans. eapply fresh_qfr. exact H1. eapply IH. exact H2.
  Qed.

  Lemma synify_app_id_qfr : forall a s x s', synify_app_id Data a s = Ok (x, s') -> qfr s s'.
  Proof.
    intros a s x s' H. rewrite synify_app_id_eq in H.
    apply mbind_ok in H. destruct H as [ss [s1 [H1 H2]]]. apply reads_ok in H1. destruct H1 as [-> _].
    apply mbind_ok in H2. destruct H2 as [m [s2 [H2 H3]]]. apply ret_ok in H3. destruct H3 as [-> _].
    eapply syn_go_qfr. exact H2.
  Qed.

  Lemma mapM_qfr : forall {A C} (f : A -> M Data C) l,
    (forall a s x s', f a s = Ok (x, s') -> qfr s s') ->
    forall s x s', mapM Data f l s = Ok (x, s') -> qfr s s'.
  Proof.
    intros A C f l Hf. induction l as [|a t IH]; intros s x s' H; cbn [mapM] in H.
    - eapply ret_qfr. exact H.
    - apply mbind_ok in H. destruct H as [y [s1 [H1 H2]]].
      apply mbind_ok in H2. destruct H2 as [r [s2 [H2 H3]]]. apply ret_ok in H3. destruct H3 as [-> _].
      eapply qfr_trans. eapply Hf. exact H1. eapply IH. exact H2.
  Qed.

  Lemma synify_enode_qfr : forall n s x s', synify_enode Data n s = Ok (x, s') -> qfr s s'.
  Proof.
    intros n s x s' H. unfold synify_enode in H. apply mbind_ok in H. destruct H as [l [s1 [H1 H2]]].
    apply ret_ok in H2. destruct H2 as [-> _]. eapply mapM_qfr. 2: exact H1.
    intros a s0 y s0' Ha. eapply synify_app_id_qfr. exact Ha.
  Qed.

  Lemma pc_congruence_qfr : forall a b s x s', pc_congruence Data a b s = Ok (x, s') -> qfr s s'.
  Proof.
    intros a b s x s' H. unfold pc_congruence in H.
    apply mbind_ok in H. destruct H as [sa [s1 [H1 H]]]. apply lift_ok in H1. destruct H1 as [-> _].
    apply mbind_ok in H. destruct H as [sb [s2 [H2 H]]]. apply lift_ok in H2. destruct H2 as [-> _].
    apply mbind_ok in H. destruct H as [m [s3 [H3 H]]].
    apply mbind_ok in H. destruct H as [u [s4 [H4 H]]].
    apply mbind_ok in H. destruct H as [bm [s5 [H5 H]]]. apply ret_ok in H. destruct H as [-> _].
    eapply qfr_trans. eapply with_ctr_qfr. exact H3.
    eapply qfr_trans. eapply with_ctr_qfr. exact H4. eapply with_ctr_qfr. exact H5.
  Qed.

  (* ---------------- C: record_redundancy_witness ---------------- *)
  Lemma unionfind_set_keep : forall i p s x s' e, unionfind_set Data i p s = Ok (x, s') ->
    nth_opt (uf s) (N.to_nat i) = Some e -> aid p = aid e -> sfr s s'.
  Proof.
    intros i p s x s' e H Hn Ha. unfold unionfind_set in H.
    pose proof (nth_opt_lt_len _ _ _ Hn) as Hlt.
    destruct (Nat.eqb (List.length (uf s)) (N.to_nat i)) eqn:E1. apply Nat.eqb_eq in E1. lia.
    destruct (Nat.ltb (N.to_nat i) (List.length (uf s))) eqn:E2. 2: discriminate.
    inversion H; subst. split. split. cbn [unionfind set_uf]. eapply map_set_nth_keep. exact Hn. exact Ha.
    reflexivity. split; reflexivity.
  Qed.

  Lemma record_redundancy_witness_qfr : forall i cap s s', record_redundancy_witness Data i cap s = Ok (tt, s') ->
    (exists e, nth_opt (uf s) (N.to_nat i) = Some e /\ aid e = i) -> qfr s s'.
  Proof.
    intros i cap s s' H [e [Hn Ha]]. unfold record_redundancy_witness in H.
    apply mbind_ok in H. destruct H as [ss [s1 [H1 H]]]. apply reads_ok in H1. destruct H1 as [-> _].
    apply sfr_qfr. eapply unionfind_set_keep. exact H. exact Hn. cbn [aid]. symmetry. exact Ha.
  Qed.

  (* ---------------- D: hashcons writers ---------------- *)
  Lemma iterM_upd_sfr : forall (g : N -> eclass Data -> eclass Data) l, (forall r c, cdata (g r c) = cdata c) ->
    forall s s', iterM Data (fun r => upd_class Data r (g r)) l s = Ok (tt, s') -> sfr s s'.
  Proof.
    intros g l Hg s s' H. apply (iterM_inv Data (sfr s) (fun r => upd_class Data r (g r)) l) with (s := s). 3: exact H. 2: apply sfr_refl.
    intros r a b _ Ha Hb. eapply sfr_trans. exact Ha. eapply upd_class_sfr. 2: exact Hb. intro c. apply Hg.
  Qed.

  Lemma set_hashcons_dfr : forall s h, dfr s (set_hashcons Data s h).
  Proof. intros s h. split; reflexivity. Qed.

  Lemma raw_remove_from_class_fr : forall id sh s x s', raw_remove_from_class Data id sh s = Ok (x, s') ->
    na_nodup (hc s) ->
    dfr s s' /\ pend s' = pend s /\ hc s' = na_remove (hc s) sh /\ na_nodup (hc s') /\ fr Data s s'.
  Proof.
    intros id sh s x s' H Hnd. unfold raw_remove_from_class in H.
    apply mbind_ok in H. destruct H as [c [s0 [H0 H]]]. apply reads_ok in H0. destruct H0 as [-> _].
    apply mbind_ok in H. destruct H as [[] [s1 [H1 H]]].
    apply mbind_ok in H. destruct H as [[] [s2 [H2 H]]]. apply modify_ok in H2.
    apply mbind_ok in H. destruct H as [[] [s3 [H3 H]]].
    assert (E : s' = s3).
    { destruct (na_get (c_nodes Data c) sh) as [p|]. apply ret_ok in H. tauto. discriminate. }
    subst s'. clear H.
    apply upd_class_sfr in H1. 2: intro c0; reflexivity.
    apply (iterM_upd_sfr (fun r c0 => with_usages Data c0 (ns_remove (c_usages Data c0) sh))) in H3. 2: intros r c0; reflexivity.
    destruct H1 as [D1 [Hh1 Hp1]]. destruct H3 as [D3 [Hh3 Hp3]]. subst s2. cbn [hashcons pending set_hashcons] in *.
    assert (D : dfr s s3).
    { eapply dfr_trans. exact D1. eapply dfr_trans. apply (set_hashcons_dfr s1). exact D3. }
    assert (P : pend s3 = pend s) by congruence.
    assert (Hh : hc s3 = na_remove (hc s) sh) by congruence.
    split. exact D. split. exact P. split. exact Hh. split. rewrite Hh. apply na_remove_nodup. exact Hnd.
    split. apply dfr_dsame. exact D.
    intros sh0 i Hs Hn. unfold stored, npend in *. rewrite Hh in Hs. rewrite P in Hn.
    destruct (node_eq_dec' sh0 sh) as [->|Hne].
    - rewrite na_get_remove_same in Hs by exact Hnd. discriminate.
    - rewrite na_get_remove_other in Hs by exact Hne. split; assumption.
  Qed.

  Lemma raw_add_to_class_fr : forall id sh bij src s s', raw_add_to_class Data id (sh, bij) src s = Ok (tt, s') ->
    na_nodup (hc s) ->
    dfr s s' /\ pend s' = pend s /\ hc s' = na_set (hc s) sh id /\ na_nodup (hc s').
  Proof.
    intros id sh bij src s s' H Hnd. unfold raw_add_to_class in H.
    apply mbind_ok in H. destruct H as [[] [s1 [H1 H]]].
    apply mbind_ok in H. destruct H as [[] [s2 [H2 H3]]]. apply modify_ok in H2.
    apply upd_class_sfr in H1. 2: intro c0; reflexivity.
    apply (iterM_upd_sfr (fun r c0 => with_usages Data c0 (ns_add (c_usages Data c0) sh))) in H3. 2: intros r c0; reflexivity.
    destruct H1 as [D1 [Hh1 Hp1]]. destruct H3 as [D3 [Hh3 Hp3]]. subst s2. cbn [hashcons pending set_hashcons] in *.
    assert (Hh : hc s' = na_set (hc s) sh id) by congruence.
    split. eapply dfr_trans. exact D1. eapply dfr_trans. apply (set_hashcons_dfr s1). exact D3.
    split. congruence. split. exact Hh. rewrite Hh. apply na_set_nodup. exact Hnd.
  Qed.

  Lemma raw_add_then_pending : forall id sh bij src s s1 s', raw_add_to_class Data id (sh, bij) src s = Ok (tt, s1) ->
    pending_insert Data sh true s1 = Ok (tt, s') -> na_nodup (hc s) ->
    fr Data s s' /\ na_nodup (hc s').
  Proof.
    intros id sh bij src s s1 s' H1 H2 Hnd.
    destruct (raw_add_to_class_fr _ _ _ _ _ _ H1 Hnd) as [D [P [Hh Hn1]]].
    pose proof (pending_insert_qfr _ _ _ _ _ H2) as [D2 [Hh2 _]].
    unfold pending_insert in H2. apply modify_ok in H2.
    assert (Pp : pend s' = na_set (pend s) sh true). { subst s'. cbn [pending set_pending]. rewrite P. reflexivity. }
    split. 2: rewrite Hh2; exact Hn1.
    split. apply dfr_dsame. eapply dfr_trans; eassumption.
    intros sh0 i Hs Hn. unfold stored, npend in *. rewrite Hh2, Hh in Hs. rewrite Pp in Hn.
    destruct (node_eq_dec' sh0 sh) as [->|Hne].
    - rewrite na_get_set_same in Hn. discriminate.
    - rewrite na_get_set_other in Hs by exact Hne. rewrite na_get_set_other in Hn by exact Hne. split; assumption.
  Qed.

  (* ---------------- E: shrink_slots, generically ---------------- *)
  Lemma shrink_slots_rel : forall (R : eg -> eg -> Prop),
    (forall s, R s s) -> (forall a b c, R a b -> R b c -> R a c) -> (forall s s', qfr s s' -> R s s') ->
    forall ui, (forall l r s b s', ui l r s = Ok (b, s') -> R s s') ->
    forall from cap s s', shrink_slots Data ui from cap s = Ok (tt, s') ->
      (exists e, nth_opt (uf s) (N.to_nat (aid from)) = Some e /\ aid e = aid from) -> R s s'.
  Proof.
    intros R Rrefl Rtrans Rq ui Hui from cap s s' H Hex. unfold shrink_slots in H. cbv zeta in H.
    apply mbind_ok in H. destruct H as [oc [s0 [H0 H]]]. apply lift_ok in H0. destruct H0 as [-> _].
    apply mbind_ok in H. destruct H as [[] [s1 [H1 H]]].
    apply record_redundancy_witness_qfr in H1. 2: exact Hex.
    apply mbind_ok in H. destruct H as [c [s2 [H2 H]]]. apply reads_ok in H2. destruct H2 as [-> _].
    apply mbind_ok in H. destruct H as [flags [s3 [H3 H]]]. apply lift_ok in H3. destruct H3 as [-> _].
    apply mbind_ok in H. destruct H as [g [s4 [H4 H]]]. apply lift_ok in H4. destruct H4 as [-> _].
    apply mbind_ok in H. destruct H as [[] [s5 [H5 H]]]. apply upd_class_qfr in H5. 2: intro c0; reflexivity.
    apply mbind_ok in H. destruct H as [[] [s6 [H6 H]]]. apply touched_class_qfr in H6.
    eapply Rtrans. apply Rq. exact H1. eapply Rtrans. apply Rq. exact H5. eapply Rtrans. apply Rq. exact H6.
    refine (iterM_inv Data (R s6) _ _ _ s6 s' (Rrefl s6) H).
    intros pp a b _ Ha Hb. cbv beta in Hb.
    apply mbind_ok in Hb. destruct Hb as [sl [a1 [Hb1 Hb]]]. apply reads_ok in Hb1. destruct Hb1 as [-> _].
    apply mbind_ok in Hb. destruct Hb as [ps [a2 [Hb2 Hb]]]. apply lift_ok in Hb2. destruct Hb2 as [-> _].
    apply mbind_ok in Hb. destruct Hb as [bb [a3 [Hb3 Hb]]]. apply ret_ok in Hb. destruct Hb as [-> _].
    eapply Rtrans. exact Ha. eapply Hui. exact Hb3.
  Qed.

  (* ---------------- F: move_to ---------------- *)
  (* classes untouched, pending only grows *)
  Definition cq (s s' : eg) : Prop := cls s' = cls s /\ pgrow s s'.
  Lemma cq_refl : forall s, cq s s.
  Proof. intro s. split. reflexivity. apply pgrow_refl. Qed.
  Lemma cq_trans : forall a b c, cq a b -> cq b c -> cq a c.
  Proof. intros a b c [E1 P1] [E2 P2]. split. congruence. eapply pgrow_trans; eassumption. Qed.

  Lemma with_ctr_cq : forall {A} (f : N -> A * N) s x s', with_ctr Data f s = Ok (x, s') -> cq s s'.
  Proof.
    intros A f s x s' H. unfold with_ctr in H. destruct (f (ctr Data s)) as [a c]. inversion H; subst.
    split. reflexivity. apply pgrow_eq. reflexivity.
  Qed.
  Lemma pending_insert_cq : forall sh ty s x s', pending_insert Data sh ty s = Ok (x, s') -> cq s s'.
  Proof.
    intros sh ty s x s' H. pose proof (pending_insert_qfr _ _ _ _ _ H) as [_ [_ P]].
    unfold pending_insert in H. apply modify_ok in H. subst s'. split. reflexivity. exact P.
  Qed.
  Lemma pending_touch_cq : forall sh ty s x s', pending_touch Data sh ty s = Ok (x, s') -> cq s s'.
  Proof.
    intros sh ty s x s' H. pose proof (pending_touch_qfr _ _ _ _ _ H) as [_ [_ P]].
    unfold pending_touch in H. apply modify_ok in H. subst s'. split. reflexivity. exact P.
  Qed.
  Lemma touched_class_cq : forall i ty s x s', touched_class Data i ty s = Ok (x, s') -> cq s s'.
  Proof.
    intros i ty s [] s' H. unfold touched_class in H. apply mbind_ok in H. destruct H as [c [s1 [H1 H2]]].
    apply reads_ok in H1. destruct H1 as [-> _].
    refine (iterM_inv Data (cq s) _ _ _ s s' (cq_refl s) H2).
    intros sh a b _ Ha Hb. eapply cq_trans. exact Ha. eapply pending_touch_cq. exact Hb.
  Qed.

  Lemma ns_remove_in : forall l k x, In x l -> x <> k -> In x (ns_remove l k).
  Proof.
    intros l k x Hin Hne. unfold ns_remove. apply filter_In. split. exact Hin.
    rewrite node_eqb_false. reflexivity. intro E. apply Hne. symmetry. exact E.
  Qed.
  Lemma ns_add_in : forall l k x, In x l -> In x (ns_add l k).
  Proof. intros l k x Hin. unfold ns_add. destruct (existsb (node_eqb k) l). exact Hin. apply in_or_app. left. exact Hin. Qed.

  (* every shape of U0 is excepted (X), a usage of class fid, or pending *)
  Definition uinv (fid : N) (U0 : list node) (X : node -> Prop) (s : eg) : Prop :=
    forall sh, In sh U0 -> X sh \/ (exists c, gclass s fid = Ok c /\ In sh (cusages c)) \/ na_get (pend s) sh <> None.

  Lemma uinv_mono : forall fid U0 (X Y : node -> Prop) s, (forall y, X y -> Y y) -> uinv fid U0 X s -> uinv fid U0 Y s.
  Proof. intros fid U0 X Y s HXY H sh Hin. destruct (H sh Hin) as [Hx|Hr]. left. apply HXY. exact Hx. right. exact Hr. Qed.

  Lemma uinv_cq : forall fid U0 X s s', cq s s' -> uinv fid U0 X s -> uinv fid U0 X s'.
  Proof.
    intros fid U0 X s s' [Ec Pg] H sh Hin. destruct (H sh Hin) as [Hx|[[c [Hc Hu]]|Hp]].
    - left. exact Hx.
    - right. left. exists c. split. unfold get_class in *. rewrite Ec. exact Hc. exact Hu.
    - right. right. apply Pg. exact Hp.
  Qed.

  Lemma uinv_upd : forall fid U0 (X : node -> Prop) i f s x s', upd_class Data i f s = Ok (x, s') ->
    (forall c sh, In sh (cusages c) -> X sh \/ In sh (cusages (f c))) ->
    uinv fid U0 X s -> uinv fid U0 X s'.
  Proof.
    intros fid U0 X i f s x s' H Hf Hi sh Hin. apply upd_class_get in H. destruct H as [c0 [Hc0 [_ [_ [Hp Hg]]]]].
    destruct (Hi sh Hin) as [Hx|[[c [Hc Hu]]|Hpp]].
    - left. exact Hx.
    - destruct (fid =? i)%N eqn:E.
      + apply N.eqb_eq in E. subst fid. rewrite Hc0 in Hc. inversion Hc; subst c0.
        destruct (Hf c sh Hu) as [Hx|Hu']. left. exact Hx.
        right. left. exists (f c). split. rewrite Hg. rewrite N.eqb_refl. reflexivity. exact Hu'.
      + right. left. exists c. split. rewrite Hg, E. exact Hc. exact Hu.
    - right. right. rewrite Hp. exact Hpp.
  Qed.

  Lemma uinv_iter_upd : forall fid U0 (X : node -> Prop) (g : N -> eclass Data -> eclass Data) l,
    (forall r c sh, In sh (cusages c) -> X sh \/ In sh (cusages (g r c))) ->
    forall s s', iterM Data (fun r => upd_class Data r (g r)) l s = Ok (tt, s') -> uinv fid U0 X s -> uinv fid U0 X s'.
  Proof.
    intros fid U0 X g l Hg s s' H Hi.
    refine (iterM_inv Data (uinv fid U0 X) (fun r => upd_class Data r (g r)) l _ s s' Hi H).
    intros r a b _ Ha Hb. eapply uinv_upd. exact Hb. intros c sh. apply Hg. exact Ha.
  Qed.

  Lemma set_hashcons_cq : forall s h, cq s (set_hashcons Data s h).
  Proof. intros s h. split. reflexivity. apply pgrow_eq. reflexivity. Qed.

  Lemma raw_remove_uinv : forall fid U0 (X : node -> Prop) id sh s x s', raw_remove_from_class Data id sh s = Ok (x, s') ->
    X sh -> uinv fid U0 X s -> uinv fid U0 X s'.
  Proof.
    intros fid U0 X id sh s x s' H HX Hi. unfold raw_remove_from_class in H.
    apply mbind_ok in H. destruct H as [c [s0 [H0 H]]]. apply reads_ok in H0. destruct H0 as [-> _].
    apply mbind_ok in H. destruct H as [[] [s1 [H1 H]]].
    apply mbind_ok in H. destruct H as [[] [s2 [H2 H]]]. apply modify_ok in H2.
    apply mbind_ok in H. destruct H as [[] [s3 [H3 H]]].
    assert (E : s' = s3).
    { destruct (na_get (c_nodes Data c) sh) as [p|]. apply ret_ok in H. tauto. discriminate. }
    subst s'. clear H.
    eapply (uinv_iter_upd fid U0 X (fun r c0 => with_usages Data c0 (ns_remove (c_usages Data c0) sh))). 2: exact H3.
    - intros r c0 sh0 Hin. cbn [c_usages with_usages]. destruct (node_eq_dec' sh0 sh) as [->|Hne].
      left. exact HX. right. apply ns_remove_in; assumption.
    - subst s2. eapply uinv_cq. apply set_hashcons_cq. eapply uinv_upd. exact H1. 2: exact Hi.
      intros c0 sh0 Hin. right. exact Hin.
  Qed.

  Lemma raw_add_uinv : forall fid U0 (X : node -> Prop) id sh bij src s s', raw_add_to_class Data id (sh, bij) src s = Ok (tt, s') ->
    uinv fid U0 X s -> uinv fid U0 X s'.
  Proof.
    intros fid U0 X id sh bij src s s' H Hi. unfold raw_add_to_class in H.
    apply mbind_ok in H. destruct H as [[] [s1 [H1 H]]].
    apply mbind_ok in H. destruct H as [[] [s2 [H2 H3]]]. apply modify_ok in H2.
    eapply (uinv_iter_upd fid U0 X (fun r c0 => with_usages Data c0 (ns_add (c_usages Data c0) sh))). 2: exact H3.
    - intros r c0 sh0 Hin. cbn [c_usages with_usages]. right. apply ns_add_in. exact Hin.
    - subst s2. eapply uinv_cq. apply set_hashcons_cq. eapply uinv_upd. exact H1. 2: exact Hi.
      intros c0 sh0 Hin. right. exact Hin.
  Qed.

  Lemma uinv_pending_insert : forall fid U0 sh ty s x s', pending_insert Data sh ty s = Ok (x, s') ->
    uinv fid U0 (fun y => y = sh) s -> uinv fid U0 (fun _ => False) s'.
  Proof.
    intros fid U0 sh ty s x s' H Hi. pose proof (uinv_cq fid U0 _ s s' (pending_insert_cq _ _ _ _ _ H) Hi) as Hi'.
    intros y Hin. destruct (Hi' y Hin) as [->|Hr]. right. right. eapply pending_insert_sets. exact H.
    right. exact Hr.
  Qed.

  Definition mtP (fid : N) (U0 : list node) (s3 s : eg) : Prop :=
    dfr s3 s /\ fr Data s3 s /\ na_nodup (hc s) /\ uinv fid U0 (fun _ => False) s.

  Lemma mtP_quiet : forall fid U0 s3 a b, qfr a b -> cq a b -> mtP fid U0 s3 a -> mtP fid U0 s3 b.
  Proof.
    intros fid U0 s3 a b Q C [D [F [Nd U]]]. split. eapply dfr_trans. exact D. apply Q.
    split. eapply fr_trans. exact F. apply qfr_fr. exact Q.
    split. destruct Q as [_ [E _]]. rewrite E. exact Nd. eapply uinv_cq; eassumption.
  Qed.

  Definition mt_tail (fid : N) (s3 s' : eg) : Prop :=
    dfr s3 s' /\ sub_np Data s3 s' /\ na_nodup (hc s') /\
    (forall c, gclass s3 fid = Ok c -> forall sh, In sh (cusages c) -> na_get (pend s') sh <> None).

  Variable data_eqb : Data -> Data -> bool.
  Variable merge : Data -> Data -> Data.

  Lemma move_to_split : forall from to s s', move_to Data data_eqb merge from to s = Ok (tt, s') ->
    exists a_from to_id a_to s1 s2 s3,
      adata s (aid from) = Ok a_from /\ find_id Data s (aid to) = Ok to_id /\ adata s (aid to) = Ok a_to /\
      upd_class Data to_id (fun c => with_data Data c (merge a_from a_to)) s = Ok (tt, s1) /\
      (if data_eqb a_to (merge a_from a_to) then s2 = s1
       else mbind Data (mq_push Data (aid to)) (fun _ => touched_class Data (aid to) false) s1 = Ok (tt, s2)) /\
      unionfind_set Data (aid from) {| aid := aid to; am := compose_partial (am to) (inverse_nocheck (am from)) |} s2 = Ok (tt, s3) /\
      (na_nodup (hc s3) -> mt_tail (aid from) s3 s').
  Proof.
    intros from to s s' H. unfold move_to in H. cbv zeta in H.
    apply mbind_ok in H. destruct H as [a_from [t0 [H0 H]]]. apply reads_ok in H0. destruct H0 as [-> Haf].
    apply mbind_ok in H. destruct H as [to_id [t0 [H0 H]]]. apply reads_ok in H0. destruct H0 as [-> Hti].
    apply mbind_ok in H. destruct H as [a_to [t0 [H0 H]]]. apply reads_ok in H0. destruct H0 as [-> Hat].
    apply mbind_ok in H. destruct H as [[] [s1 [H1 H]]].
    apply mbind_ok in H. destruct H as [[] [s2 [H2 H]]].
    apply mbind_ok in H. destruct H as [[] [s3 [H3 H]]].
    exists a_from, to_id, a_to, s1, s2, s3.
    split. exact Haf. split. exact Hti. split. exact Hat. split. exact H1.
    split. { destruct (data_eqb a_to (merge a_from a_to)). apply ret_ok in H2. tauto. exact H2. }
    split. exact H3.
    intro Hnd.
    apply mbind_ok in H. destruct H as [cf [t1 [H4 H]]]. apply reads_ok in H4. destruct H4 as [-> Hcf].
    apply mbind_ok in H. destruct H as [[] [s4 [H5 H]]].
    assert (P4 : mtP (aid from) (cusages cf) s3 s4).
    { refine (iterM_inv Data (mtP (aid from) (cusages cf) s3) _ _ _ s3 s4 _ H5).
      - intros [sh [bij src]] a b _ Ha Hb.
        apply mbind_ok in Hb. destruct Hb as [rm [a1 [Hb1 Hb]]].
        apply mbind_ok in Hb. destruct Hb as [nb [a2 [Hb2 Hb]]].
        apply mbind_ok in Hb. destruct Hb as [[] [a3 [Hb3 Hb4]]].
        destruct Ha as [Da [Fa [Na Ua]]].
        destruct (raw_remove_from_class_fr _ _ _ _ _ Hb1 Na) as [D1 [_ [_ [N1 F1]]]].
        pose proof (with_ctr_qfr _ _ _ _ Hb2) as Q2.
        assert (N2 : na_nodup (hc a2)). { destruct Q2 as [_ [E _]]. rewrite E. exact N1. }
        destruct (raw_add_to_class_fr _ _ _ _ _ _ Hb3 N2) as [D3 _].
        destruct (raw_add_then_pending _ _ _ _ _ _ _ Hb3 Hb4 N2) as [F3 N3].
        pose proof (pending_insert_qfr _ _ _ _ _ Hb4) as Q4.
        split. { eapply dfr_trans. exact Da. eapply dfr_trans. exact D1. eapply dfr_trans. apply Q2.
                 eapply dfr_trans. exact D3. apply Q4. }
        split. { eapply fr_trans. exact Fa. eapply fr_trans. exact F1. eapply fr_trans. apply qfr_fr. exact Q2. exact F3. }
        split. exact N3.
        eapply uinv_pending_insert. exact Hb4. eapply raw_add_uinv. exact Hb3.
        eapply uinv_cq. eapply with_ctr_cq. exact Hb2.
        eapply (raw_remove_uinv _ _ (fun y => y = sh)). exact Hb1. reflexivity.
        eapply uinv_mono. 2: exact Ua. intros y [].
      - split. apply dfr_refl. split. apply fr_refl. split. exact Hnd.
        intros sh Hin. right. left. exists cf. split; assumption. }
    apply mbind_ok in H. destruct H as [cf2 [t2 [H6 H]]]. apply reads_ok in H6. destruct H6 as [-> _].
    apply mbind_ok in H. destruct H as [ct [t3 [H7 H]]]. apply reads_ok in H7. destruct H7 as [-> _].
    apply mbind_ok in H. destruct H as [r [t4 [H8 H]]]. apply lift_ok in H8. destruct H8 as [-> _].
    apply mbind_ok in H. destruct H as [[] [s5 [H9 H]]].
    apply mbind_ok in H. destruct H as [[] [s6 [H10 H]]].
    assert (P5 : mtP (aid from) (cusages cf) s3 s5).
    { destruct P4 as [D [F [Nd U]]].
      assert (S9 : sfr s4 s5). { eapply upd_class_sfr. 2: exact H9. intro c0. reflexivity. }
      split. eapply dfr_trans. exact D. apply S9.
      split. eapply fr_trans. exact F. apply qfr_fr. apply sfr_qfr. exact S9.
      split. destruct S9 as [_ [E _]]. rewrite E. exact Nd.
      eapply uinv_upd. exact H9. 2: exact U. intros c0 sh0 Hin. right. exact Hin. }
    assert (P6 : mtP (aid from) (cusages cf) s3 s6).
    { destruct (snd r).
      - eapply mtP_quiet. eapply touched_class_qfr. exact H10. eapply touched_class_cq. exact H10. exact P5.
      - apply ret_ok in H10. destruct H10 as [-> _]. exact P5. }
    destruct P6 as [D [F [Nd U]]]. pose proof (touched_class_qfr _ _ _ _ _ H) as Q.
    split. eapply dfr_trans. exact D. apply Q.
    split. { apply (fr_trans Data s3 s6 s' F (qfr_fr _ _ Q)). }
    split. destruct Q as [_ [E _]]. rewrite E. exact Nd.
    intros c Hc sh Hin. rewrite Hcf in Hc. inversion Hc; subst c.
    destruct (U sh Hin) as [[]|[[c6 [Hc6 Hu6]]|Hp]].
    - eapply touched_class_pending; eassumption.
    - destruct Q as [_ [_ Pg]]. apply Pg. exact Hp.
  Qed.

End Frames.

Print Assumptions dfr_dsame.
Print Assumptions qfr_fr.
Print Assumptions touched_class_pending.
Print Assumptions upd_class_data.
Print Assumptions record_redundancy_witness_qfr.
Print Assumptions raw_remove_from_class_fr.
Print Assumptions raw_add_to_class_fr.
Print Assumptions raw_add_then_pending.
Print Assumptions shrink_slots_rel.
Print Assumptions move_to_split.
