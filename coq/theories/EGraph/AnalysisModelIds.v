(* EGraph/AnalysisModelIds.v — the class ids (and the variant index) of a node through
   apply_slotmap / wshape / set_apps / find_enode / variants / min_variant / shape of EGraph/ModelA.v. *)
From SE Require Import EGraph.ModelA.
From Coq Require Import Lia Arith Bool List NArith.
Import ListNotations.

(* ------------------------------------------------------------------ *)
(* 0. generic *)

Lemma ami_mapr_ok : forall {A B} (f : A -> res B) l r, mapr f l = Ok r -> Forall2 (fun x y => f x = Ok y) l r.
Proof.
  induction l as [|x t IH]; intros r H; cbn [mapr] in H.
  - inversion H. constructor.
  - destruct (f x) as [y|] eqn:E; cbn [bind] in H; [|discriminate].
    destruct (mapr f t) as [r'|]; cbn [bind] in H; [|discriminate]. inversion H. constructor; auto.
Qed.

Lemma ami_F2_length : forall {A B} (R : A -> B -> Prop) l r, Forall2 R l r -> List.length l = List.length r.
Proof. intros A B R l r H. induction H; cbn [List.length]; congruence. Qed.

Lemma ami_mapr_length : forall {A B} (f : A -> res B) l r, mapr f l = Ok r -> List.length r = List.length l.
Proof. intros A B f l r H. apply ami_mapr_ok in H. symmetry. eapply ami_F2_length; eauto. Qed.

Lemma ami_cartesian_len : forall {A} (gs : list (list A)) l, In l (cartesian gs) -> List.length l = List.length gs.
Proof.
  intros A. induction gs as [|g gs IH]; intros l H; cbn [cartesian] in H.
  - destruct H as [<-|[]]. reflexivity.
  - apply in_flat_map in H. destruct H as (rest & Hr & H). apply in_map_iff in H. destruct H as (x & <- & _).
    cbn [List.length]. rewrite (IH rest Hr). reflexivity.
Qed.

Lemma ami_zip_with_aid : forall {P : Type} (f : appid -> P -> appid) (apps : list appid) (l : list P),
  (forall a pp, aid (f a pp) = aid a) -> List.length l = List.length apps ->
  List.length (zip_with f apps l) = List.length apps /\ map aid (zip_with f apps l) = map aid apps.
Proof.
  intros P f. induction apps as [|a t IH]; intros [|pp l] Hf HL; cbn in HL; try discriminate; cbn [zip_with map List.length].
  - split; reflexivity.
  - destruct (IH l Hf) as [A B]; [lia|]. rewrite A, B, Hf. split; reflexivity.
Qed.

(* ------------------------------------------------------------------ *)
(* 1. traversals keep the applied ids' ids *)

Section TravIds.
  Context {S : Type} (f : bool -> slot -> S -> slot * S).

  Lemma trav_f_ids : forall a bound st, map aid (app_occ_f (fst (trav_f f bound a st))) = map aid (app_occ_f a).
  Proof.
    induction a as [s|x|s b IH|p]; intros bound st; cbn [trav_f].
    - destruct (f _ s st) as [s' st1]. reflexivity.
    - destruct (trav_vals f bound (am x) st) as [m' st1]. reflexivity.
    - destruct (f false s st) as [s' st1]. specialize (IH (s :: bound) st1).
      destruct (trav_f f (s :: bound) b st1) as [b' st2]. cbn [fst app_occ_f] in *. exact IH.
    - reflexivity.
  Qed.

  Lemma trav_args_ids : forall l st, map aid (flat_map app_occ_f (fst (trav_args f l st))) = map aid (flat_map app_occ_f l).
  Proof.
    induction l as [|a t IH]; intros st; cbn [trav_args]; [reflexivity|].
    pose proof (trav_f_ids a [] st) as Ha.
    destruct (trav_f f [] a st) as [a' st1]. specialize (IH st1).
    destruct (trav_args f t st1) as [t' st2]. cbn [fst flat_map] in *.
    rewrite !map_app, Ha, IH. reflexivity.
  Qed.

  Lemma trav_ids : forall n st, nvar (fst (trav f n st)) = nvar n /\ node_ids (fst (trav f n st)) = node_ids n.
  Proof.
    intros n st. unfold trav. pose proof (trav_args_ids (nargs n) st) as H.
    destruct (trav_args f (nargs n) st) as [l st']. cbn [fst] in *.
    split; [reflexivity|]. unfold node_ids, app_occ. cbn [nargs]. exact H.
  Qed.
End TravIds.

Lemma trav_res_ids : forall f n n', trav_res f n = Ok n' -> nvar n' = nvar n /\ node_ids n' = node_ids n.
Proof.
  intros f n n' H. unfold trav_res in H.
  match type of H with (let '(_, _) := trav ?F n None in _) = _ => pose proof (trav_ids F n None) as T; destruct (trav F n None) as [n1 e] end.
  cbn [fst] in T. destruct e; [discriminate|]. inversion H; subst n'. exact T.
Qed.

Lemma apply_slotmap_ids : forall m n n', apply_slotmap false m n = Ok n' -> nvar n' = nvar n /\ node_ids n' = node_ids n.
Proof.
  intros m n n' H. unfold apply_slotmap in H. cbn [andb] in H. unfold apply_slotmap_partial in H.
  eapply trav_res_ids; eauto.
Qed.

(* ------------------------------------------------------------------ *)
(* 2. weak shape *)

Lemma ws_f_ids : forall lg a m, map aid (app_occ_f (fst (ws_f lg a m))) = map aid (app_occ_f a).
Proof.
  induction a as [s|x|s b IH|p]; intros m; cbn [ws_f].
  - destruct (on_see s m) as [s' m1]. reflexivity.
  - destruct (ws_vals (am x) m) as [vm m1]. reflexivity.
  - destruct (add_slot s m) as [s' m1]. specialize (IH m1).
    destruct (ws_f lg b m1) as [b' m2]. cbn [fst app_occ_f] in *. exact IH.
  - reflexivity.
Qed.

Lemma ws_args_ids : forall lg l m, map aid (flat_map app_occ_f (fst (ws_args lg l m))) = map aid (flat_map app_occ_f l).
Proof.
  induction l as [|a t IH]; intros m; cbn [ws_args]; [reflexivity|].
  pose proof (ws_f_ids lg a m) as Ha.
  destruct (ws_f lg a m) as [a' m1]. specialize (IH m1).
  destruct (ws_args lg t m1) as [t' m2]. cbn [fst flat_map] in *.
  rewrite !map_app, Ha, IH. reflexivity.
Qed.

Lemma weak_shape_ids : forall lg ck n sh b, weak_shape lg ck n = Ok (sh, b) -> nvar sh = nvar n /\ node_ids sh = node_ids n.
Proof.
  intros lg ck n sh b H. unfold weak_shape in H.
  pose proof (ws_args_ids lg (nargs n) ([], 0%N)) as T.
  destruct (ws_args lg (nargs n) ([], 0%N)) as [l m]. cbn [fst] in T.
  destruct (inverse ck (fst m)) as [bij|]; cbn [bind] in H; [|discriminate].
  inversion H; subst sh b. split; [reflexivity|]. unfold node_ids, app_occ. cbn [nargs]. exact T.
Qed.

Lemma wshape_ids : forall n sh b, wshape n = Ok (sh, b) -> nvar sh = nvar n /\ node_ids sh = node_ids n.
Proof. intros n sh b H. unfold wshape in H. eapply weak_shape_ids; eauto. Qed.

(* ------------------------------------------------------------------ *)
(* 3. set_apps *)

Lemma ami_set_apps_f_occ : forall a l, (List.length (app_occ_f a) <= List.length l)%nat ->
  app_occ_f (fst (set_apps_f a l)) ++ snd (set_apps_f a l) = l /\
  List.length (app_occ_f (fst (set_apps_f a l))) = List.length (app_occ_f a).
Proof.
  induction a as [s|x|s b IH|p]; intros l H; cbn [set_apps_f app_occ_f] in *; try (cbn; auto; fail).
  - destruct l as [|y t]; [cbn in H; lia|]. cbn. auto.
  - specialize (IH l H). destruct (set_apps_f b l) as [b' r]. cbn [fst snd app_occ_f] in *. exact IH.
Qed.

Lemma ami_set_apps_args_occ : forall args l, List.length (flat_map app_occ_f args) = List.length l ->
  flat_map app_occ_f (set_apps_args args l) = l.
Proof.
  induction args as [|a t IH]; intros l H; cbn [set_apps_args flat_map] in *.
  - destruct l; [auto|discriminate].
  - rewrite app_length in H.
    destruct (ami_set_apps_f_occ a l ltac:(lia)) as (A & B).
    destruct (set_apps_f a l) as [a' r]. cbn [fst snd] in *. cbn [flat_map].
    assert (Hr : List.length (flat_map app_occ_f t) = List.length r).
    { rewrite <- A, app_length in H. lia. }
    rewrite (IH r Hr). exact A.
Qed.

Lemma ami_app_occ_set_apps : forall n l, List.length l = List.length (app_occ n) -> app_occ (set_apps n l) = l.
Proof. intros n l H. unfold app_occ, set_apps. cbn [nargs]. apply ami_set_apps_args_occ. symmetry. exact H. Qed.

Lemma node_ids_set_apps : forall n l, List.length l = List.length (app_occ n) -> node_ids (set_apps n l) = map aid l.
Proof. intros n l H. unfold node_ids. rewrite ami_app_occ_set_apps by exact H. reflexivity. Qed.

Lemma nvar_set_apps : forall n l, nvar (set_apps n l) = nvar n.
Proof. intros n l. reflexivity. Qed.

(* ------------------------------------------------------------------ *)
(* 4. find_enode, variants, min_variant, shape *)

Lemma min_variant_in : forall l best n, min_variant l best = Ok n -> In n l \/ (exists k, best = Some (n, k)).
Proof.
  induction l as [|v t IH]; intros best n H; cbn [min_variant] in H.
  - destruct best as [[b k]|]; [|discriminate]. inversion H; subst b. right. exists k. reflexivity.
  - destruct (wshape v) as [sh|]; cbn [bind] in H; [|discriminate].
    destruct best as [[b bk]|].
    + destruct (cmp_slots (all_occ (fst sh)) bk).
      * destruct (IH _ _ H) as [A|[k A]]; [left; right; exact A|right; exists k; exact A].
      * destruct (IH _ _ H) as [A|[k A]]; [left; right; exact A|]. inversion A; subst. left. left. reflexivity.
      * destruct (IH _ _ H) as [A|[k A]]; [left; right; exact A|right; exists k; exact A].
    + destruct (IH _ _ H) as [A|[k A]]; [left; right; exact A|]. inversion A; subst. left. left. reflexivity.
Qed.

Section WithData.
  Variable Data : Type.

  Lemma find_applied_id_find_id : forall (s : egraph Data) a a', find_applied_id Data s a = Ok a' ->
    find_id Data s (aid a) = Ok (aid a').
  Proof.
    intros s a a' H. unfold find_applied_id in H. unfold find_id.
    destruct (unionfind_get Data s (aid a)) as [p|]; cbn [bind] in *; [|discriminate].
    inversion H; subst a'. reflexivity.
  Qed.

  Lemma find_enode_ids : forall (s : egraph Data) n n', find_enode Data s n = Ok n' ->
    nvar n' = nvar n /\ Forall2 (fun k k' => find_id Data s k = Ok k') (node_ids n) (node_ids n').
  Proof.
    intros s n n' H. unfold find_enode in H.
    destruct (mapr (find_applied_id Data s) (app_occ n)) as [l|] eqn:E; cbn [bind] in H; [|discriminate].
    inversion H; subst n'. split; [reflexivity|].
    rewrite node_ids_set_apps by (eapply ami_mapr_length; eauto).
    unfold node_ids. apply ami_mapr_ok in E. clear H.
    induction E as [|a a' t t' Ha E IH]; cbn [map]; constructor.
    - apply find_applied_id_find_id. exact Ha.
    - exact IH.
  Qed.

  Lemma variants_ids : forall (s : egraph Data) n vs v, variants Data s n = Ok vs -> In v vs ->
    nvar v = nvar n /\ node_ids v = node_ids n.
  Proof.
    intros s n vs v H Hv. unfold variants in H.
    destruct (mapr (fun a => get_class Data s (aid a)) (app_occ n)) as [cls|] eqn:Ec; cbn [bind] in H; [|discriminate].
    destruct (forallb _ cls).
    - inversion H; subst vs. destruct Hv as [<-|[]]. split; reflexivity.
    - destruct (mapr _ cls) as [groups|] eqn:Eg; cbn [bind] in H; [|discriminate]. inversion H; subst vs; clear H.
      apply in_map_iff in Hv. destruct Hv as (l & <- & Hl).
      pose proof (ami_cartesian_len _ _ Hl) as L1. pose proof (ami_mapr_length _ _ _ Eg) as L2.
      pose proof (ami_mapr_length _ _ _ Ec) as L3.
      destruct (ami_zip_with_aid (fun a pp => {| aid := aid a; am := compose_partial pp (am a) |}) (app_occ n) l) as [A B];
        [intros; reflexivity|etransitivity; [exact L1|]; etransitivity; [exact L2|exact L3]|].
      split; [reflexivity|]. rewrite node_ids_set_apps by exact A. exact B.
  Qed.

  Lemma shape_ids : forall (s : egraph Data) n sh b, shape Data s n = Ok (sh, b) ->
    nvar sh = nvar n /\ Forall2 (fun k k' => find_id Data s k = Ok k') (node_ids n) (node_ids sh).
  Proof.
    intros s n sh b H. unfold shape, pre_shape in H.
    destruct (find_enode Data s n) as [n1|] eqn:E1; cbn [bind] in H; [|discriminate].
    destruct (variants Data s n1) as [vs|] eqn:Ev; cbn [bind] in H; [|discriminate].
    destruct (min_variant vs None) as [p|] eqn:Em; cbn [bind] in H; [|discriminate].
    destruct (wshape_ids _ _ _ H) as [W1 W2].
    destruct (min_variant_in _ _ _ Em) as [Hp|(k & Hk)]; [|discriminate].
    destruct (variants_ids _ _ _ _ Ev Hp) as [V1 V2].
    destruct (find_enode_ids _ _ _ E1) as [F1 F2].
    split; [congruence|]. rewrite W2, V2. exact F2.
  Qed.
End WithData.

Print Assumptions apply_slotmap_ids.
Print Assumptions wshape_ids.
Print Assumptions node_ids_set_apps.
Print Assumptions nvar_set_apps.
Print Assumptions find_enode_ids.
Print Assumptions variants_ids.
Print Assumptions min_variant_in.
Print Assumptions shape_ids.
