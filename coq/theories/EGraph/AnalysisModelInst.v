(* EGraph/AnalysisModelInst.v — the hypotheses of `Section AMF` (EGraph/AnalysisModelBase.v) and of
   EGraph/AnalysisFix.v proved for the analyses of EGraph/ModelAMachine.v:
     min-size  (merge = N.min, mk = 1 + saturating sum of the children),
     depth     (merge = N.min, mk = 1 + max of the children, saturating),
   with Data := N, L := unit, lab := fun _ => tt, Dok d := d <= u64_max;
   and the NEGATIVE fact for the cap-depth probe analysis (merge = N.max): it satisfies make_spec
   and is monotone, but a node RAISES its child's datum (make_below_kids fails). *)
From SE Require Import EGraph.ModelA EGraph.ModelAMachine.
From Coq Require Import Lia List NArith.
Import ListNotations.
Local Open Scope N_scope.

(* ------------------------------------------------------------------ *)
(* the labelled makes *)

Definition mk_minsize (_ : unit) (ds : list N) : N := fold_left sat_add ds 1.
Definition mk_depth (_ : unit) (ds : list N) : N := sat_add (fold_left N.max ds 0) 1.
Definition mk_cap (cap : N) (_ : unit) (ds : list N) : N := N.min cap (fold_left N.max ds 0 + 1).

(* ------------------------------------------------------------------ *)
(* make_spec: the fold over the occurrences reads the children's data in order *)

Lemma fold_get_err : forall (op : N -> N -> N) (get : N -> res N) (l : list appid) e,
  fold_left (fun acc a => do s <- acc; do d <- get (aid a); Ok (op s d)) l (Err e) = Err e.
Proof.
  intros op get l. induction l as [|a t IH]; intros e.
  - reflexivity.
  - cbn [fold_left bind]. apply IH.
Qed.

Lemma fold_get_spec : forall (op : N -> N -> N) (get : N -> res N) (l : list appid) acc,
  fold_left (fun acc a => do s <- acc; do d <- get (aid a); Ok (op s d)) l (Ok acc)
  = do ds <- mapr get (map aid l); Ok (fold_left op ds acc).
Proof.
  intros op get l. induction l as [|a t IH]; intros acc.
  - reflexivity.
  - cbn [fold_left map mapr bind]. destruct (get (aid a)) as [d|e]; cbn [bind].
    + rewrite IH. destruct (mapr get (map aid t)) as [r|e]; cbn [bind fold_left]; reflexivity.
    + apply fold_get_err.
Qed.

Lemma minsize_make_spec : forall get n,
  make_minsize get n = do ds <- mapr get (node_ids n); Ok (mk_minsize tt ds).
Proof.
  intros get n. unfold make_minsize, node_ids, mk_minsize. apply fold_get_spec.
Qed.

Lemma depth_make_spec : forall get n,
  make_depth get n = do ds <- mapr get (node_ids n); Ok (mk_depth tt ds).
Proof.
  intros get n. unfold make_depth, node_ids, mk_depth. rewrite fold_get_spec.
  destruct (mapr get (map aid (app_occ n))) as [r|e]; cbn [bind]; reflexivity.
Qed.

Lemma capdepth_make_spec : forall cap get n,
  make_capdepth cap get n = do ds <- mapr get (node_ids n); Ok (mk_cap cap tt ds).
Proof.
  intros cap get n. unfold make_capdepth, node_ids, mk_cap. rewrite fold_get_spec.
  destruct (mapr get (map aid (app_occ n))) as [r|e]; cbn [bind]; reflexivity.
Qed.

(* ------------------------------------------------------------------ *)
(* the merge N.min and the equality test *)

Lemma Nmin_assoc' : forall x y z : N, N.min x (N.min y z) = N.min (N.min x y) z.
Proof. intros x y z. lia. Qed.
Lemma Nmin_comm' : forall x y : N, N.min x y = N.min y x.
Proof. intros x y. lia. Qed.
Lemma Nmin_idem' : forall x : N, N.min x x = x.
Proof. intros x. lia. Qed.
Lemma Neqb_spec' : forall x y : N, N.eqb x y = true <-> x = y.
Proof. intros x y. apply N.eqb_eq. Qed.

(* ------------------------------------------------------------------ *)
(* saturating addition *)

Lemma u64_max_pos : 1 <= u64_max.
Proof. unfold u64_max. lia. Qed.
Lemma sat_add_le_max : forall a b, sat_add a b <= u64_max.
Proof. intros a b. unfold sat_add. lia. Qed.
Lemma sat_add_ge_l : forall a b, a <= u64_max -> a <= sat_add a b.
Proof. intros a b H. unfold sat_add. lia. Qed.
Lemma sat_add_ge_r : forall a b, b <= u64_max -> b <= sat_add a b.
Proof. intros a b H. unfold sat_add. lia. Qed.
Lemma sat_add_mono : forall a a' b b', a' <= a -> b' <= b -> sat_add a' b' <= sat_add a b.
Proof. intros a a' b b' H1 H2. unfold sat_add. lia. Qed.

Lemma fold_sat_le_max : forall ds acc, acc <= u64_max -> fold_left sat_add ds acc <= u64_max.
Proof.
  intros ds. induction ds as [|x t IH]; intros acc H; cbn [fold_left].
  - exact H.
  - apply IH. apply sat_add_le_max.
Qed.
Lemma fold_sat_ge_acc : forall ds acc, acc <= u64_max -> acc <= fold_left sat_add ds acc.
Proof.
  intros ds. induction ds as [|x t IH]; intros acc H; cbn [fold_left].
  - lia.
  - pose proof (sat_add_ge_l acc x H) as H1.
    pose proof (IH (sat_add acc x) (sat_add_le_max acc x)) as H2. lia.
Qed.
Lemma fold_sat_ge_in : forall ds acc d, In d ds -> d <= u64_max -> d <= fold_left sat_add ds acc.
Proof.
  intros ds. induction ds as [|x t IH]; intros acc d Hin Hd; cbn [fold_left].
  - destruct Hin.
  - destruct Hin as [->|Hin].
    + pose proof (sat_add_ge_r acc d Hd) as H1.
      pose proof (fold_sat_ge_acc t (sat_add acc d) (sat_add_le_max acc d)) as H2. lia.
    + apply IH. exact Hin. exact Hd.
Qed.
Lemma fold_sat_mono : forall xs ys, Forall2 (fun x y => N.min x y = y) xs ys ->
  forall a a', a' <= a -> fold_left sat_add ys a' <= fold_left sat_add xs a.
Proof.
  intros xs ys HF. induction HF as [|x y xs ys Hxy HF IH]; intros a a' Ha; cbn [fold_left].
  - exact Ha.
  - apply IH. apply sat_add_mono. exact Ha. lia.
Qed.

(* ------------------------------------------------------------------ *)
(* folds of N.max *)

Lemma fold_max_ge_acc : forall ds acc, acc <= fold_left N.max ds acc.
Proof.
  intros ds. induction ds as [|x t IH]; intros acc; cbn [fold_left].
  - lia.
  - pose proof (IH (N.max acc x)) as H. lia.
Qed.
Lemma fold_max_ge_in : forall ds acc d, In d ds -> d <= fold_left N.max ds acc.
Proof.
  intros ds. induction ds as [|x t IH]; intros acc d Hin; cbn [fold_left].
  - destruct Hin.
  - destruct Hin as [->|Hin].
    + pose proof (fold_max_ge_acc t (N.max acc d)) as H. lia.
    + apply IH. exact Hin.
Qed.
(* xs pointwise above ys *)
Lemma fold_max_mono_min : forall xs ys, Forall2 (fun x y => N.min x y = y) xs ys ->
  forall a a', a' <= a -> fold_left N.max ys a' <= fold_left N.max xs a.
Proof.
  intros xs ys HF. induction HF as [|x y xs ys Hxy HF IH]; intros a a' Ha; cbn [fold_left].
  - exact Ha.
  - apply IH. lia.
Qed.
(* xs pointwise below ys *)
Lemma fold_max_mono_max : forall xs ys, Forall2 (fun x y => N.max x y = y) xs ys ->
  forall a a', a <= a' -> fold_left N.max xs a <= fold_left N.max ys a'.
Proof.
  intros xs ys HF. induction HF as [|x y xs ys Hxy HF IH]; intros a a' Ha; cbn [fold_left].
  - exact Ha.
  - apply IH. lia.
Qed.

(* ------------------------------------------------------------------ *)
(* Dok d := d <= u64_max *)

Lemma minsize_Dok_mk : forall (l : unit) ds, mk_minsize l ds <= u64_max.
Proof. intros l ds. unfold mk_minsize. apply fold_sat_le_max. apply u64_max_pos. Qed.
Lemma depth_Dok_mk : forall (l : unit) ds, mk_depth l ds <= u64_max.
Proof. intros l ds. unfold mk_depth. apply sat_add_le_max. Qed.
Lemma Dok_min : forall a b, a <= u64_max -> b <= u64_max -> N.min a b <= u64_max.
Proof. intros a b Ha Hb. lia. Qed.

(* ------------------------------------------------------------------ *)
(* make_below_kids: a node never raises the datum of a child's class *)

Lemma minsize_below_kids : forall (l : unit) ds d,
  In d ds -> d <= u64_max -> N.min d (mk_minsize l ds) = d.
Proof.
  intros l ds d Hin Hd. unfold mk_minsize.
  pose proof (fold_sat_ge_in ds 1 d Hin Hd) as H. lia.
Qed.
Lemma depth_below_kids : forall (l : unit) ds d,
  In d ds -> d <= u64_max -> N.min d (mk_depth l ds) = d.
Proof.
  intros l ds d Hin Hd. unfold mk_depth.
  pose proof (fold_max_ge_in ds 0 d Hin) as H. unfold sat_add. lia.
Qed.

(* ------------------------------------------------------------------ *)
(* make_mono: monotone in the merge order (merge x y = y, i.e. y below x) *)

Lemma minsize_mono : forall (l : unit) xs ys, Forall2 (fun x y => N.min x y = y) xs ys ->
  N.min (mk_minsize l xs) (mk_minsize l ys) = mk_minsize l ys.
Proof.
  intros l xs ys HF. unfold mk_minsize.
  pose proof (fold_sat_mono xs ys HF 1 1 (N.le_refl 1)) as H. lia.
Qed.
Lemma depth_mono : forall (l : unit) xs ys, Forall2 (fun x y => N.min x y = y) xs ys ->
  N.min (mk_depth l xs) (mk_depth l ys) = mk_depth l ys.
Proof.
  intros l xs ys HF. unfold mk_depth.
  pose proof (fold_max_mono_min xs ys HF 0 0 (N.le_refl 0)) as H.
  pose proof (sat_add_mono (fold_left N.max xs 0) (fold_left N.max ys 0) 1 1 H (N.le_refl 1)) as H1. lia.
Qed.

(* ------------------------------------------------------------------ *)
(* the cap-depth probe (merge = N.max): monotone, but NOT below its children *)

Lemma capdepth_not_below_kids : forall cap, 1 < cap ->
  exists ds d, In d ds /\ N.max d (mk_cap cap tt ds) <> d.
Proof.
  intros cap Hcap. exists [1], 1. split.
  - left. reflexivity.
  - unfold mk_cap. cbn [fold_left]. lia.
Qed.

Lemma capdepth_mono : forall cap (l : unit) xs ys, Forall2 (fun x y => N.max x y = y) xs ys ->
  N.max (mk_cap cap l xs) (mk_cap cap l ys) = mk_cap cap l ys.
Proof.
  intros cap l xs ys HF. unfold mk_cap.
  pose proof (fold_max_mono_max xs ys HF 0 0 (N.le_refl 0)) as H. lia.
Qed.

(* ------------------------------------------------------------------ *)
Print Assumptions minsize_make_spec.
Print Assumptions depth_make_spec.
Print Assumptions capdepth_make_spec.
Print Assumptions Nmin_assoc'.
Print Assumptions Nmin_comm'.
Print Assumptions Nmin_idem'.
Print Assumptions Neqb_spec'.
Print Assumptions minsize_Dok_mk.
Print Assumptions depth_Dok_mk.
Print Assumptions Dok_min.
Print Assumptions minsize_below_kids.
Print Assumptions depth_below_kids.
Print Assumptions minsize_mono.
Print Assumptions depth_mono.
Print Assumptions capdepth_not_below_kids.
Print Assumptions capdepth_mono.
