(* EGraph/AnalysisModelInv.v — the concrete invariant behind `modelA_data_is_fixpoint`:
   definitions only (plus executable checkers and their use on the histories in AnalysisModelInvEval.v).

   STRUCTURAL part  Sx X s  (X = shapes in flight, excepted from `kl`):
     nd   the hashcons has no duplicate key
     len  |unionfind| = |classes|
     hl   a stored shape sits in a leader                                 (checker hliveb)
     hf   hashcons sh = i  ->  class i has an entry for sh                (hconsb, first half)
     hb   class i has an entry for sh  ->  hashcons sh = i                (hconsb, second half)
     cn   the node table of a class has no duplicate key
     so   the source id of an entry of class i is in class i (find src = i)
     ua   a stored shape is among the usages of every class it mentions   (ucov_allb)
     kl   a stored shape that is not pending-Full mentions leaders only   (ucovb, pfullb)
   FRAMES
     strfr s s'   the parent ids of the union-find, the hashcons, the node tables and the usages are the
                  same; pending only grows, and Full entries stay Full
     gfr s s'     strfr and the analysis data are the same
     fmap s s'    find' . find = find'
   ANALYSIS part
     jbv V s c d / upperv V s   AnalysisModelAbs.jb / upper with VIRTUAL contributions V: (sh, k) in V lets
                  the class of k use make(sh) although sh is not stored (the node handle_pending has taken
                  out of its class and not yet re-inserted). *)
From SE Require Import EGraph.ModelA EGraph.AnalysisFix EGraph.AnalysisModelChk EGraph.AnalysisModelBase
  EGraph.AnalysisModelStab EGraph.AnalysisModelUF EGraph.AnalysisModelAbs EGraph.AnalysisModelFrames.
From Coq Require Import Lia Arith Bool List NArith.
Import ListNotations.

Section Inv.
  Variable Data : Type.
  Variable data_eqb : Data -> Data -> bool.
  Variable make : (N -> res Data) -> node -> res Data.
  Variable merge : Data -> Data -> Data.

  Notation eg := (egraph Data).
  Notation uf := (unionfind Data).
  Notation cls := (classes Data).
  Notation hc := (hashcons Data).
  Notation pend := (pending Data).
  Notation gclass := (get_class Data).
  Notation adata := (analysis_data Data).
  Notation mk_in := (make_in Data make).
  Notation mle := (AnalysisFix.le Data merge).
  Notation stored := (AnalysisModelBase.stored Data).
  Notation npend := (AnalysisModelBase.npend Data).
  Notation fid := (find_id Data).

  (* ---------------- the structural invariant ---------------- *)
  Record Sx (X : node -> Prop) (s : eg) : Prop := {
    sx_nd : na_nodup (hc s);
    sx_len : List.length (uf s) = List.length (cls s);
    sx_hl : forall sh i, stored s sh i -> fid s i = Ok i;
    sx_hf : forall sh i, stored s sh i -> exists c p, gclass s i = Ok c /\ na_get (c_nodes Data c) sh = Some p;
    sx_hb : forall i c sh p, gclass s i = Ok c -> In (sh, p) (c_nodes Data c) -> stored s sh i;
    sx_cn : forall i c, gclass s i = Ok c -> na_nodup (c_nodes Data c);
    sx_so : forall i c sh bij src, gclass s i = Ok c -> In (sh, (bij, src)) (c_nodes Data c) -> fid s src = Ok i;
    sx_ua : forall sh i, stored s sh i -> forall k, In k (node_ids sh) ->
              exists c, gclass s k = Ok c /\ In sh (c_usages Data c);
    sx_kl : forall sh i, stored s sh i -> na_get (pend s) sh <> Some true -> ~ X sh ->
              forall k, In k (node_ids sh) -> fid s k = Ok k }.

  Definition S0 : eg -> Prop := Sx (fun _ => False).

  (* ---------------- frames ---------------- *)
  Definition cstr (c : eclass Data) : list (node * (slotmap * N)) * list node := (c_nodes Data c, c_usages Data c).

  Definition pmono (s s' : eg) : Prop :=
    (forall x, na_get (pend s) x <> None -> na_get (pend s') x <> None) /\
    (forall x, na_get (pend s) x = Some true -> na_get (pend s') x = Some true).

  Definition strfr (s s' : eg) : Prop :=
    map aid (uf s') = map aid (uf s) /\ hc s' = hc s /\ pmono s s' /\ map cstr (cls s') = map cstr (cls s).

  Definition gfr (s s' : eg) : Prop := strfr s s' /\ map (c_data Data) (cls s') = map (c_data Data) (cls s).

  Definition fmap (s s' : eg) : Prop :=
    forall j r, fid s j = Ok r -> exists r', fid s' j = Ok r' /\ fid s' r = Ok r'.

  (* ---------------- the analysis invariant with virtual contributions ---------------- *)
  Inductive jbv (V : list (node * N)) (s : eg) (c : N) : Data -> Prop :=
  | jbv_make : forall sh v d, stored s sh c -> mk_in s sh = Ok v -> mle d v -> jbv V s c d
  | jbv_virt : forall sh k v d, In (sh, k) V -> fid s k = Ok c -> mk_in s sh = Ok v -> mle d v -> jbv V s c d
  | jbv_join : forall d e, jbv V s c d -> jbv V s c e -> jbv V s c (merge d e).

  Definition upperv (V : list (node * N)) (s : eg) : Prop :=
    forall c d, fid s c = Ok c -> adata s c = Ok d -> jbv V s c d.

  (* a node insertion does not overwrite a hashcons entry *)
  Definition keeps_hc (s s1 : eg) : Prop := forall sh j, stored s sh j -> stored s1 sh j.
End Inv.

(* ------------------------------------------------------------------ *)
(* executable checkers for Sx (fun _ => False) *)
Section InvChk.
  Variable Data : Type.
  Notation eg := (egraph Data).

  Fixpoint nodupb (l : list node) : bool :=
    match l with [] => true | x :: t => negb (existsb (node_eqb x) t) && nodupb t end.

  Definition rootb (s : eg) (i : N) : bool :=
    match find_id Data s i with Ok r => r =? i | Err _ => false end.

  Definition iclasses (s : eg) : list (N * eclass Data) :=
    combine (map N.of_nat (seq 0 (List.length (classes Data s)))) (classes Data s).

  Definition sx_ndb (s : eg) : bool := nodupb (map fst (hashcons Data s)).
  Definition sx_lenb (s : eg) : bool := Nat.eqb (List.length (unionfind Data s)) (List.length (classes Data s)).
  Definition sx_hlb (s : eg) : bool := forallb (fun e => rootb s (snd e)) (hashcons Data s).
  Definition sx_cnb (s : eg) : bool := forallb (fun ic => nodupb (map fst (c_nodes Data (snd ic)))) (iclasses s).
  Definition sx_sob (s : eg) : bool :=
    forallb (fun ic => forallb (fun e => match find_id Data s (snd (snd e)) with Ok r => r =? fst ic | Err _ => false end)
                               (c_nodes Data (snd ic))) (iclasses s).
  Definition sx_klb (s : eg) : bool :=
    forallb (fun e => match na_get (pending Data s) (fst e) with
                      | Some true => true
                      | _ => forallb (rootb s) (node_ids (fst e)) end) (hashcons Data s).
  Definition s0b (s : eg) : bool :=
    sx_ndb s && sx_lenb s && sx_hlb s && hconsb Data s && sx_cnb s && sx_sob s && ucov_allb Data s && sx_klb s.
End InvChk.
