(* EGraph/AnalysisModelInvEval.v — the structural invariant S0 of AnalysisModelInv.v (checker s0b), evaluated at
   every head of the pending loop and after every operation of the histories of AnalysisModelEval.v. *)
From SE Require Import EGraph.ModelA EGraph.ModelAMachine EGraph.AnalysisModelChk EGraph.AnalysisModelInv EGraph.AnalysisModelEval.

Definition run_min_s0 c := run_case N N.eqb make_minsize N.min 0 (fun _ => None) (s0b N) (s0b N) (args_of c).
Definition run_dep_s0 c := run_case N N.eqb make_depth N.min 0 (fun _ => None) (s0b N) (s0b N) (args_of c).

Lemma eval_minsize_s0 : forallb (fun c => is_ok (run_min_s0 c)) cases_ex = true.
Proof. vm_compute. reflexivity. Qed.
Lemma eval_depth_s0 : forallb (fun c => is_ok (run_dep_s0 c)) cases_ex = true.
Proof. vm_compute. reflexivity. Qed.
