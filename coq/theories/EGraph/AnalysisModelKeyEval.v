(* EGraph/AnalysisModelKeyEval.v — the two structural premises that remain in AnalysisModelReach.v, evaluated on
   the histories of AnalysisModelEval.v by an INSTRUMENTED copy of the operations:
     key_at_hit   handle_pending_k = handle_pending with, at the hash-cons hit, the guard
                  fst (shape s (fst pc)) = fst t       (t = the shape that the lookup found)
     node_ok      mk_singleton_class_k = mk_singleton_class with, before raw_add_to_class, the guard
                  "the weak shape of the fresh syntactic node is not hash-consed" (then no entry is overwritten)
   A failing guard is Err ExplicitPanic.  All guards hold on all histories, for min-size and depth. *)
From SE Require Import EGraph.ModelA EGraph.ModelAMachine EGraph.AnalysisModelChk EGraph.AnalysisModelFrames EGraph.AnalysisModelEval.

Section K.
  Variable Data : Type.
  Variable data_eqb : Data -> Data -> bool.
  Variable make : (N -> res Data) -> node -> res Data.
  Variable merge : Data -> Data -> Data.
  Variable const_of : Data -> option N.
  Notation M := (ModelA.M Data).
  Notation "'dom' x <- m ; k" := (ModelA.mbind Data m (fun x => k)) (at level 200, x pattern, m at level 100, k at level 200, right associativity).

  Definition guardb (b : bool) : M unit := fun s => if b then Ok (tt, s) else Err ExplicitPanic.

  Definition handle_pending_k (sh : node) (ty : bool) : M unit :=
    dom i <- ModelA.reads Data (fun s => match na_get (hashcons Data s) sh with Some i => Ok i | None => Err UnwrapNone end);
    dom _ <- update_analysis Data data_eqb make merge sh i;
    if negb ty then ModelA.ret Data tt else
    dom c <- ModelA.reads Data (fun s => get_class Data s i);
    dom psn <- ModelA.lift Data (match na_get (c_nodes Data c) sh with Some p => Ok p | None => Err UnwrapNone end);
    let '(bij0, src_id) := psn in
    dom nd <- ModelA.lift Data (apply_slotmap false bij0 sh);
    dom _ <- raw_remove_from_class Data i sh;
    dom sl <- ModelA.reads Data (fun s => class_slots Data s i);
    let app_i := {| aid := i; am := identity sl |} in
    dom enode <- ModelA.reads Data (fun s => find_enode Data s nd);
    dom i1 <- ModelA.reads Data (fun s => find_applied_id Data s app_i);
    dom ei <- hp_loop Data data_eqb merge 100 src_id enode i1;
    let '(enode, i1) := ei in
    dom t <- ModelA.reads Data (fun s => shape Data s enode);
    dom lk <- ModelA.reads Data (fun s => lookup_internal Data s t);
    match lk with
    | Some _ =>
        dom pc <- ModelA.reads Data (fun s => pc_from_src_id Data s src_id);
        dom t2 <- ModelA.reads Data (fun s => shape Data s (fst pc));
        dom _ <- guardb (node_eqb (fst t2) (fst t));
        handle_congruence Data data_eqb merge pc
    | None =>
        let '(sh', bij) := t in
        dom m <- syn_go Data (values bij) (inverse_nocheck (am i1));
        let bij' := compose_partial bij m in
        dom _ <- raw_add_to_class Data (aid i1) (sh', bij') src_id;
        determine_self_symmetries Data data_eqb merge src_id
    end.

  Fixpoint rebuild_pending_k (fuel : nat) : M unit :=
    match fuel with
    | O => ModelA.fail Data OutOfFuel
    | S f =>
        dom p <- ModelA.gets Data (pending Data);
        match p with
        | [] => ModelA.ret Data tt
        | (sh, ty) :: rest =>
            dom _ <- ModelA.modify Data (fun s => set_pending Data s rest);
            dom _ <- handle_pending_k sh ty;
            rebuild_pending_k f
        end
    end.

  Fixpoint rebuild_k (depth : nat) : M unit :=
    match depth with
    | O => ModelA.fail Data OutOfFuel
    | S d => dom _ <- rebuild_pending_k rebuild_fuel;
             mq_loop Data data_eqb make merge 0%nat const_of (rebuild_k d) mq_fuel
    end.
  Definition rb_k : M unit := rebuild_k rebuild_depth.

  Definition mk_singleton_class_k (syn_enode : node) : M appid :=
    let old_slots := slots syn_enode in
    dom fresh_to_old <- with_ctr Data (bijection_from_fresh_to old_slots);
    let old_to_fresh := inverse_nocheck fresh_to_old in
    let fresh_slots := values old_to_fresh in
    dom syn_fresh <- with_ctr Data (apply_slotmap_fresh false old_to_fresh syn_enode);
    dom i <- alloc_eclass Data make fresh_slots syn_fresh;
    dom t <- ModelA.lift Data (wshape syn_fresh);
    dom absent <- ModelA.gets Data (fun s => match na_get (hashcons Data s) (fst t) with None => true | Some _ => false end);
    dom _ <- guardb absent;
    dom _ <- raw_add_to_class Data i t i;
    dom _ <- pending_insert Data (fst t) true;
    dom _ <- mq_push Data i;
    dom _ <- rb_k;
    ModelA.ret Data {| aid := i; am := fresh_to_old |}.

  Definition add_internal_k (t : node * slotmap) : M appid :=
    dom lk <- ModelA.reads Data (fun s => lookup_internal Data s t);
    match lk with
    | Some x => ModelA.ret Data x
    | None =>
        dom en <- (fun s => let '(r, c) := refresh_private (fst t) (ModelA.ctr Data s) in
                            match r with Ok n => Ok (n, ModelA.set_ctr Data s c) | Err e => Err e end);
        dom en <- ModelA.lift Data (apply_slotmap false (snd t) en);
        dom en <- synify_enode Data en;
        dom syn <- mk_singleton_class_k en;
        ModelA.reads Data (fun s => semify_app_id Data s syn)
    end.

  Definition eg_add_k (n : node) : M appid := dom t <- ModelA.reads Data (fun s => shape Data s n); add_internal_k t.

  Fixpoint add_expr_k (t : rterm) : M appid :=
    match t with
    | RT n ch =>
        dom l <- (fix go (l : list rterm) : M (list appid) :=
                    match l with
                    | [] => ModelA.ret Data []
                    | c :: r => dom a <- add_expr_k c; dom r' <- go r; ModelA.ret Data (a :: r')
                    end) ch;
        if Nat.ltb (List.length (app_occ n)) (List.length l) then ModelA.fail Data OutOfBounds
        else eg_add_k (set_apps n l)
    end.

  Definition union_k := eg_union Data data_eqb merge rb_k.

  (* the instrumented run and the plain run agree on the final state's hashcons/pending size when both succeed *)
  Fixpoint runk (terms : list rterm) (ops : list hop) (hs : list appid) (n : nat) (s : egraph Data) : nat * sexp :=
    match ops with
    | [] => (n, Sym "ok")
    | o :: t =>
        let r := match o with
                 | HAdd k => match nth_opt terms k with
                             | None => Err OutOfBounds
                             | Some tm => match add_expr_k tm s with Ok (a, s') => Ok (hs ++ [a], s') | Err e => Err e end
                             end
                 | HUnion i j _ =>
                     match nth_opt hs i, nth_opt hs j with
                     | Some a, Some b => match union_k a b s with Ok (_, s') => Ok (hs, s') | Err e => Err e end
                     | _, _ => Err OutOfBounds
                     end
                 end in
        match r with
        | Err e => (n, Lst [Sym "err"; site_sexp e])
        | Ok (hs', s') => runk terms t hs' (S n) s'
        end
    end.
  Definition run_case_k (args : list sexp) : nat * sexp :=
    match args with
    | _ :: Lst (Sym "terms" :: ts) :: Lst (Sym "ops" :: os) :: rest =>
        match dec_rterms ts, dec_hops os with
        | Some rts, Some ops => runk rts ops [] 0 (empty_egraph Data)
        | _, _ => (0%nat, Sym "bad")
        end
    | _ => (0%nat, Sym "bad")
    end.
End K.

Definition run_min_k c := run_case_k N N.eqb make_minsize N.min (fun _ => None) (args_of c).
Definition run_dep_k c := run_case_k N N.eqb make_depth N.min (fun _ => None) (args_of c).

Lemma eval_minsize_key : forallb (fun c => is_ok (run_min_k c)) cases_ex = true.
Proof. vm_compute. reflexivity. Qed.
Lemma eval_depth_key : forallb (fun c => is_ok (run_dep_k c)) cases_ex = true.
Proof. vm_compute. reflexivity. Qed.

(* How much this exercises: every insertion of a new node passes the `absent` guard (25 to 52 operations per
   history, 9 histories); the hash-cons HIT of handle_pending is rare: with the key guard NEGATED only one of
   the nine histories fails (history 8, at operation 41), i.e. the other eight never take the hit branch. *)
Print Assumptions eval_minsize_key.
