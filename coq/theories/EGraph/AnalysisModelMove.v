(* EGraph/AnalysisModelMove.v — move_to between two distinct leaders keeps the structural invariant S0
   (AnalysisModelInv.v); every stored shape follows its class, and find is post-composed with
   from |-> to. *)
From SE Require Import EGraph.ModelA EGraph.AnalysisFix EGraph.AnalysisModelBase EGraph.AnalysisModelStab EGraph.AnalysisModelUF EGraph.AnalysisModelAbs EGraph.AnalysisModelFrames EGraph.AnalysisModelFacts EGraph.AnalysisModelInv.
From Coq Require Import Lia Arith Bool List NArith. Import ListNotations.
Local Open Scope N_scope.

(* ---------------- association lists ---------------- *)
Lemma na_get_In : forall {V} (l : list (node * V)) k v, na_get l k = Some v -> In (k, v) l.
Proof.
  intros V l. induction l as [|[k' v'] t IH]; intros k v H; cbn [na_get] in H. discriminate.
  destruct (node_eqb k k') eqn:E.
  - apply node_eqb_true in E. subst k'. inversion H; subst. left. reflexivity.
  - right. apply IH. exact H.
Qed.

Lemma na_get_some_of_In : forall {V} (l : list (node * V)) k v, In (k, v) l -> na_get l k <> None.
Proof.
  intros V l. induction l as [|[k' v'] t IH]; intros k v H; cbn [na_get]. destruct H.
  destruct (node_eqb k k') eqn:E. discriminate.
  destruct H as [H|H]. inversion H; subst. rewrite node_eqb_refl in E. discriminate.
  eapply IH. exact H.
Qed.

Lemma na_remove_In : forall {V} (l : list (node * V)) k e, In e (na_remove l k) -> In e l.
Proof.
  intros V l. induction l as [|[k' v'] t IH]; intros k e H; cbn [na_remove] in H. exact H.
  destruct (node_eqb k k').
  - right. exact H.
  - destruct H as [H|H]. left. exact H. right. eapply IH. exact H.
Qed.

Lemma na_set_In : forall {V} (l : list (node * V)) k v x p, In (x, p) (na_set l k v) -> (x = k /\ p = v) \/ In (x, p) l.
Proof.
  intros V l. induction l as [|[k' v'] t IH]; intros k v x p H; cbn [na_set] in H.
  - destruct H as [H|[]]. inversion H; subst. left. split; reflexivity.
  - destruct (node_eqb k k') eqn:E.
    + apply node_eqb_true in E. subst k'. destruct H as [H|H].
      * inversion H; subst. left. split; reflexivity.
      * right. right. exact H.
    + destruct H as [H|H]. right. left. exact H.
      apply IH in H. destruct H as [H|H]. left. exact H. right. right. exact H.
Qed.

Lemma ns_add_self : forall l k, In k (ns_add l k).
Proof.
  intros l k. unfold ns_add. destruct (existsb (node_eqb k) l) eqn:E.
  - apply existsb_node_eqb. exact E.
  - apply in_or_app. right. left. reflexivity.
Qed.

Section Move.
  Variable Data : Type.
  Variable data_eqb : Data -> Data -> bool.
  Variable merge : Data -> Data -> Data.

  Notation eg := (egraph Data).
  Notation uf := (unionfind Data).
  Notation cls := (classes Data).
  Notation hc := (hashcons Data).
  Notation pend := (pending Data).
  Notation gclass := (get_class Data).
  Notation fid := (find_id Data).

  (* node table / usages of class j, as functions of the class list *)
  Definition ndl (cl : list (eclass Data)) (j : N) : option (list (node * (slotmap * N))) :=
    match nth_opt cl (N.to_nat j) with Some c => Some (c_nodes Data c) | None => None end.
  Definition usl (cl : list (eclass Data)) (j : N) : option (list node) :=
    match nth_opt cl (N.to_nat j) with Some c => Some (c_usages Data c) | None => None end.

  Lemma gclass_nd : forall s i c, gclass s i = Ok c ->
    ndl (cls s) i = Some (c_nodes Data c) /\ usl (cls s) i = Some (c_usages Data c).
  Proof.
    intros s i c H. unfold get_class in H. unfold ndl, usl.
    destruct (nth_opt (cls s) (N.to_nat i)) as [c0|]; inversion H; subst. split; reflexivity.
  Qed.
  Lemma nd_gclass : forall s i n, ndl (cls s) i = Some n -> exists c, gclass s i = Ok c /\ c_nodes Data c = n.
  Proof.
    intros s i n H. unfold ndl in H. unfold get_class.
    destruct (nth_opt (cls s) (N.to_nat i)) as [c0|]; inversion H; subst. exists c0. split; reflexivity.
  Qed.
  Lemma us_gclass : forall s i u, usl (cls s) i = Some u -> exists c, gclass s i = Ok c /\ c_usages Data c = u.
  Proof.
    intros s i u H. unfold usl in H. unfold get_class.
    destruct (nth_opt (cls s) (N.to_nat i)) as [c0|]; inversion H; subst. exists c0. split; reflexivity.
  Qed.

  (* ---------------- the part of S0 that does not mention find / pending ---------------- *)
  Record CxF (h : list (node * N)) (nd : N -> option (list (node * (slotmap * N)))) (us : N -> option (list node)) : Prop := {
    cx_nd : na_nodup h;
    cx_hf : forall sh i, na_get h sh = Some i -> exists n p, nd i = Some n /\ na_get n sh = Some p;
    cx_hb : forall i n sh p, nd i = Some n -> In (sh, p) n -> na_get h sh = Some i;
    cx_cn : forall i n, nd i = Some n -> na_nodup n;
    cx_ua : forall sh i, na_get h sh = Some i -> forall k, In k (node_ids sh) -> exists u, us k = Some u /\ In sh u }.

  Definition Cx (s : eg) : Prop := CxF (hc s) (ndl (cls s)) (usl (cls s)).

  Lemma CxF_ext : forall h nd us nd' us', CxF h nd us -> (forall j, nd' j = nd j) -> (forall j, us' j = us j) -> CxF h nd' us'.
  Proof.
    intros h nd us nd' us' [Hnd Hhf Hhb Hcn Hua] En Eu. constructor.
    - exact Hnd.
    - intros sh i H. destruct (Hhf sh i H) as [n [p [H1 H2]]]. exists n, p. split. rewrite En. exact H1. exact H2.
    - intros i n sh p H1 H2. rewrite En in H1. eapply Hhb; eassumption.
    - intros i n H. rewrite En in H. eapply Hcn. exact H.
    - intros sh i H k Hk. destruct (Hua sh i H k Hk) as [u [H1 H2]]. exists u. split. rewrite Eu. exact H1. exact H2.
  Qed.

  Lemma Cx_same : forall s s', hc s' = hc s -> cls s' = cls s -> Cx s -> Cx s'.
  Proof. intros s s' E1 E2 H. unfold Cx. rewrite E1, E2. exact H. Qed.

  Lemma CxF_remove : forall h nd us nd' us' id n sh p,
    CxF h nd us -> nd id = Some n -> In (sh, p) n ->
    (forall j, nd' j = if j =? id then Some (na_remove n sh) else nd j) ->
    (forall j u y, us j = Some u -> y <> sh -> In y u -> exists u', us' j = Some u' /\ In y u') ->
    CxF (na_remove h sh) nd' us' /\ na_get (na_remove h sh) sh = None /\
    (forall j n', nd' j = Some n' -> na_get n' sh = None).
  Proof.
    intros h nd us nd' us' id n sh p [Hnd Hhf Hhb Hcn Hua] Hid Hin Hnd' Hus'.
    assert (Hst : na_get h sh = Some id) by (eapply Hhb; eassumption).
    assert (Hn : na_nodup n) by (eapply Hcn; eassumption).
    assert (Hnone : forall j n', nd' j = Some n' -> na_get n' sh = None).
    { intros j n' Hj. rewrite (Hnd' j) in Hj. destruct (j =? id) eqn:E.
      - inversion Hj. apply na_get_remove_same. exact Hn.
      - destruct (na_get n' sh) as [q|] eqn:Eq; [|reflexivity]. exfalso.
        apply na_get_In in Eq. pose proof (Hhb j n' sh q Hj Eq) as Hs. rewrite Hst in Hs. inversion Hs. subst j.
        rewrite N.eqb_refl in E. discriminate. }
    split; [|split; [apply na_get_remove_same; exact Hnd | exact Hnone]].
    constructor.
    - apply na_remove_nodup. exact Hnd.
    - intros x i Hx. destruct (node_eq_dec' x sh) as [->|Hne].
      + rewrite na_get_remove_same in Hx by exact Hnd. discriminate.
      + rewrite na_get_remove_other in Hx by exact Hne.
        destruct (Hhf x i Hx) as [n0 [q [Hn0 Hq]]]. rewrite (Hnd' i). destruct (i =? id) eqn:E.
        * apply N.eqb_eq in E. subst i. rewrite Hid in Hn0. inversion Hn0; subst n0.
          exists (na_remove n sh), q. split. reflexivity. rewrite na_get_remove_other by exact Hne. exact Hq.
        * exists n0, q. split; assumption.
    - intros i n' x q Hi Hxq.
      assert (Hne : x <> sh).
      { intro; subst x. apply na_get_some_of_In in Hxq. apply Hxq. eapply Hnone. exact Hi. }
      rewrite na_get_remove_other by exact Hne.
      rewrite (Hnd' i) in Hi. destruct (i =? id) eqn:E.
      + apply N.eqb_eq in E. subst i. inversion Hi; subst n'. eapply Hhb. exact Hid. eapply na_remove_In. exact Hxq.
      + eapply Hhb; eassumption.
    - intros i n' Hi. rewrite (Hnd' i) in Hi. destruct (i =? id) eqn:E.
      + inversion Hi. apply na_remove_nodup. exact Hn.
      + eapply Hcn. exact Hi.
    - intros x i Hx k Hk. destruct (node_eq_dec' x sh) as [->|Hne].
      + rewrite na_get_remove_same in Hx by exact Hnd. discriminate.
      + rewrite na_get_remove_other in Hx by exact Hne.
        destruct (Hua x i Hx k Hk) as [u [Hu Hin']]. eapply Hus'; eassumption.
  Qed.

  Lemma CxF_add : forall h nd us nd' us' id n sh v,
    CxF h nd us -> nd id = Some n -> na_get h sh = None -> (forall j n', nd j = Some n' -> na_get n' sh = None) ->
    (forall j, nd' j = if j =? id then Some (na_set n sh v) else nd j) ->
    (forall j u y, us j = Some u -> In y u -> exists u', us' j = Some u' /\ In y u') ->
    (forall k, In k (node_ids sh) -> exists u', us' k = Some u' /\ In sh u') ->
    CxF (na_set h sh id) nd' us'.
  Proof.
    intros h nd us nd' us' id n sh v [Hnd Hhf Hhb Hcn Hua] Hid Hnone Hnn Hnd' Hus' Hnew.
    constructor.
    - apply na_set_nodup. exact Hnd.
    - intros x i Hx. destruct (node_eq_dec' x sh) as [->|Hne].
      + rewrite na_get_set_same in Hx. inversion Hx; subst i. rewrite (Hnd' id), N.eqb_refl.
        exists (na_set n sh v), v. split. reflexivity. apply na_get_set_same.
      + rewrite na_get_set_other in Hx by exact Hne.
        destruct (Hhf x i Hx) as [n0 [q [Hn0 Hq]]]. rewrite (Hnd' i). destruct (i =? id) eqn:E.
        * apply N.eqb_eq in E. subst i. rewrite Hid in Hn0. inversion Hn0; subst n0.
          exists (na_set n sh v), q. split. reflexivity. rewrite na_get_set_other by exact Hne. exact Hq.
        * exists n0, q. split; assumption.
    - intros i n' x q Hi Hxq. rewrite (Hnd' i) in Hi. destruct (i =? id) eqn:E.
      + apply N.eqb_eq in E. subst i. inversion Hi; subst n'. apply na_set_In in Hxq. destruct Hxq as [[-> _]|Hxq].
        * apply na_get_set_same.
        * assert (Hne : x <> sh). { intro; subst x. apply na_get_some_of_In in Hxq. apply Hxq. eapply Hnn. exact Hid. }
          rewrite na_get_set_other by exact Hne. eapply Hhb; eassumption.
      + assert (Hne : x <> sh). { intro; subst x. apply na_get_some_of_In in Hxq. apply Hxq. eapply Hnn. exact Hi. }
        rewrite na_get_set_other by exact Hne. eapply Hhb; eassumption.
    - intros i n' Hi. rewrite (Hnd' i) in Hi. destruct (i =? id) eqn:E.
      + inversion Hi. apply na_set_nodup. eapply Hcn. exact Hid.
      + eapply Hcn. exact Hi.
    - intros x i Hx k Hk. destruct (node_eq_dec' x sh) as [->|Hne].
      + apply Hnew. exact Hk.
      + rewrite na_get_set_other in Hx by exact Hne. destruct (Hua x i Hx k Hk) as [u [Hu Hin']]. eapply Hus'; eassumption.
  Qed.

  (* ---------------- exact effects of the primitive writers ---------------- *)
  Lemma upd_class_eff2 : forall i f s x s', upd_class Data i f s = Ok (x, s') ->
    exists c, nth_opt (cls s) (N.to_nat i) = Some c /\
      uf s' = uf s /\ hc s' = hc s /\ pend s' = pend s /\ List.length (cls s') = List.length (cls s) /\
      (forall j, ndl (cls s') j = if j =? i then Some (c_nodes Data (f c)) else ndl (cls s) j) /\
      (forall j, usl (cls s') j = if j =? i then Some (c_usages Data (f c)) else usl (cls s) j).
  Proof.
    intros i f s x s' H. apply upd_class_effect in H. destruct H as [c [_ [Hn ->]]].
    exists c. split. exact Hn. cbn [unionfind hashcons pending classes set_classes].
    split. reflexivity. split. reflexivity. split. reflexivity.
    split. apply AnalysisModelUF.set_nth_length.
    split; intro j; unfold ndl, usl; destruct (j =? i) eqn:E.
    - apply N.eqb_eq in E. subst j. rewrite (AnalysisModelFrames.nth_opt_set_nth_eq _ _ _ _ Hn). reflexivity.
    - apply N.eqb_neq in E. rewrite AnalysisModelFrames.nth_opt_set_nth_ne. reflexivity.
      intro Hc. apply E. apply N2Nat.inj. symmetry. exact Hc.
    - apply N.eqb_eq in E. subst j. rewrite (AnalysisModelFrames.nth_opt_set_nth_eq _ _ _ _ Hn). reflexivity.
    - apply N.eqb_neq in E. rewrite AnalysisModelFrames.nth_opt_set_nth_ne. reflexivity.
      intro Hc. apply E. apply N2Nat.inj. symmetry. exact Hc.
  Qed.

  Lemma upd_class_keep : forall i f s x s',
    (forall c, c_nodes Data (f c) = c_nodes Data c) -> (forall c, c_usages Data (f c) = c_usages Data c) ->
    upd_class Data i f s = Ok (x, s') ->
    uf s' = uf s /\ hc s' = hc s /\ pend s' = pend s /\ List.length (cls s') = List.length (cls s) /\
    (forall j, ndl (cls s') j = ndl (cls s) j) /\ (forall j, usl (cls s') j = usl (cls s) j).
  Proof.
    intros i f s x s' Hfn Hfu H. apply upd_class_eff2 in H.
    destruct H as [c [Hn [U1 [Hh1 [P1 [L1 [Hnd1 Hus1]]]]]]].
    split. exact U1. split. exact Hh1. split. exact P1. split. exact L1.
    split; intro j.
    - rewrite Hnd1. destruct (j =? i) eqn:E; [|reflexivity]. apply N.eqb_eq in E. subst j.
      unfold ndl. rewrite Hn. rewrite Hfn. reflexivity.
    - rewrite Hus1. destruct (j =? i) eqn:E; [|reflexivity]. apply N.eqb_eq in E. subst j.
      unfold usl. rewrite Hn. rewrite Hfu. reflexivity.
  Qed.

  Lemma with_ctr_eff : forall {A} (f : N -> A * N) s x s', with_ctr Data f s = Ok (x, s') ->
    uf s' = uf s /\ cls s' = cls s /\ hc s' = hc s /\ pend s' = pend s.
  Proof.
    intros A f s x s' H. unfold with_ctr in H. destruct (f (ctr Data s)) as [a c]. inversion H; subst.
    repeat split.
  Qed.

  Lemma iter_us_eff : forall (h : list node -> list node) (Q : node -> Prop),
    (forall v x, Q x -> In x v -> In x (h v)) ->
    forall l s s', iterM Data (fun r => upd_class Data r (fun c => with_usages Data c (h (c_usages Data c)))) l s = Ok (tt, s') ->
      uf s' = uf s /\ hc s' = hc s /\ pend s' = pend s /\ List.length (cls s') = List.length (cls s) /\
      (forall j, ndl (cls s') j = ndl (cls s) j) /\
      (forall j u x, usl (cls s) j = Some u -> Q x -> In x u -> exists u', usl (cls s') j = Some u' /\ In x u') /\
      (forall y, Q y -> (forall v, In y (h v)) -> forall k, In k l -> exists u', usl (cls s') k = Some u' /\ In y u').
  Proof.
    intros h Q Hk l. induction l as [|a t IH]; intros s s' H.
    - cbn [iterM] in H. apply ret_ok in H. destruct H as [-> _].
      split. reflexivity. split. reflexivity. split. reflexivity. split. reflexivity.
      split. intro j. reflexivity. split.
      + intros j u x Hu _ Hin. exists u. split; assumption.
      + intros y _ _ k [].
    - cbn [iterM] in H. apply mbind_ok in H. destruct H as [[] [s1 [H1 H2]]].
      apply upd_class_eff2 in H1. destruct H1 as [c [Hn [U1 [Hh1 [P1 [L1 [Hnd1 Hus1]]]]]]].
      cbv beta in Hnd1, Hus1. cbn [c_nodes c_usages with_usages] in Hnd1, Hus1.
      apply IH in H2. destruct H2 as [U2 [Hh2 [P2 [L2 [Hnd2 [Hkeep2 Hnew2]]]]]].
      assert (Ha_nd : ndl (cls s) a = Some (c_nodes Data c)). { unfold ndl. rewrite Hn. reflexivity. }
      assert (Ha_us : usl (cls s) a = Some (c_usages Data c)). { unfold usl. rewrite Hn. reflexivity. }
      assert (Hkeep1 : forall j u x, usl (cls s) j = Some u -> Q x -> In x u -> exists u', usl (cls s1) j = Some u' /\ In x u').
      { intros j u x Hu Hq Hin. rewrite Hus1. destruct (j =? a) eqn:E.
        - apply N.eqb_eq in E. subst j. rewrite Ha_us in Hu. inversion Hu; subst u.
          eexists. split. reflexivity. apply Hk; assumption.
        - exists u. split; assumption. }
      split. congruence. split. congruence. split. congruence. split. congruence.
      split. { intro j. rewrite Hnd2, Hnd1. destruct (j =? a) eqn:E; [|reflexivity].
               apply N.eqb_eq in E. subst j. rewrite Ha_nd. reflexivity. }
      split.
      + intros j u x Hu Hq Hin. destruct (Hkeep1 j u x Hu Hq Hin) as [u1 [Hu1 Hin1]]. eapply Hkeep2; eassumption.
      + intros y Hq Hy k [<-|Hin].
        * eapply (Hkeep2 a). rewrite Hus1, N.eqb_refl. reflexivity. exact Hq. apply Hy.
        * eapply Hnew2; eassumption.
  Qed.

  Lemma raw_remove_eff : forall id sh s x s', raw_remove_from_class Data id sh s = Ok (x, s') ->
    exists n, ndl (cls s) id = Some n /\
      uf s' = uf s /\ pend s' = pend s /\ List.length (cls s') = List.length (cls s) /\ hc s' = na_remove (hc s) sh /\
      (forall j, ndl (cls s') j = if j =? id then Some (na_remove n sh) else ndl (cls s) j) /\
      (forall j u y, usl (cls s) j = Some u -> y <> sh -> In y u -> exists u', usl (cls s') j = Some u' /\ In y u').
  Proof.
    intros id sh s x s' H. unfold raw_remove_from_class in H.
    apply mbind_ok in H. destruct H as [c [s0 [H0 H]]]. apply reads_ok in H0. destruct H0 as [-> _].
    apply mbind_ok in H. destruct H as [[] [s1 [H1 H]]].
    apply mbind_ok in H. destruct H as [[] [s2 [H2 H]]]. apply modify_ok in H2.
    apply mbind_ok in H. destruct H as [[] [s3 [H3 H]]].
    assert (E : s' = s3).
    { destruct (na_get (c_nodes Data c) sh) as [p|]. apply ret_ok in H. tauto. discriminate. }
    subst s'. clear H.
    apply upd_class_eff2 in H1. destruct H1 as [c1 [Hn [U1 [Hh1 [P1 [L1 [Hnd1 Hus1]]]]]]].
    cbv beta in Hnd1, Hus1. cbn [c_nodes c_usages with_nodes] in Hnd1, Hus1.
    apply (iter_us_eff (fun v => ns_remove v sh) (fun y => y <> sh)) in H3.
    2: { intros v y Hy Hin. apply ns_remove_in; assumption. }
    destruct H3 as [U3 [Hh3 [P3 [L3 [Hnd3 [Hkeep3 _]]]]]].
    subst s2. cbn [unionfind hashcons pending classes set_hashcons] in *.
    exists (c_nodes Data c1). split. unfold ndl. rewrite Hn. reflexivity.
    split. congruence. split. congruence. split. congruence. split. congruence.
    split. { intro j. rewrite Hnd3, Hnd1. reflexivity. }
    intros j u y Hu Hne Hin. apply (Hkeep3 j u y). 2: exact Hne. 2: exact Hin.
    rewrite Hus1. destruct (j =? id) eqn:E; [|exact Hu]. apply N.eqb_eq in E. subst j.
    unfold usl in Hu. rewrite Hn in Hu. exact Hu.
  Qed.

  Lemma raw_add_eff : forall id sh bij src s s', raw_add_to_class Data id (sh, bij) src s = Ok (tt, s') ->
    exists n, ndl (cls s) id = Some n /\
      uf s' = uf s /\ pend s' = pend s /\ List.length (cls s') = List.length (cls s) /\ hc s' = na_set (hc s) sh id /\
      (forall j, ndl (cls s') j = if j =? id then Some (na_set n sh (bij, src)) else ndl (cls s) j) /\
      (forall j u y, usl (cls s) j = Some u -> In y u -> exists u', usl (cls s') j = Some u' /\ In y u') /\
      (forall k, In k (node_ids sh) -> exists u', usl (cls s') k = Some u' /\ In sh u').
  Proof.
    intros id sh bij src s s' H. unfold raw_add_to_class in H.
    apply mbind_ok in H. destruct H as [[] [s1 [H1 H]]].
    apply mbind_ok in H. destruct H as [[] [s2 [H2 H3]]]. apply modify_ok in H2.
    apply upd_class_eff2 in H1. destruct H1 as [c1 [Hn [U1 [Hh1 [P1 [L1 [Hnd1 Hus1]]]]]]].
    cbv beta in Hnd1, Hus1. cbn [c_nodes c_usages with_nodes] in Hnd1, Hus1.
    apply (iter_us_eff (fun v => ns_add v sh) (fun _ => True)) in H3.
    2: { intros v y _ Hin. apply ns_add_in. exact Hin. }
    destruct H3 as [U3 [Hh3 [P3 [L3 [Hnd3 [Hkeep3 Hnew3]]]]]].
    subst s2. cbn [unionfind hashcons pending classes set_hashcons] in *.
    exists (c_nodes Data c1). split. unfold ndl. rewrite Hn. reflexivity.
    split. congruence. split. congruence. split. congruence. split. congruence.
    split. { intro j. rewrite Hnd3, Hnd1. reflexivity. }
    split.
    - intros j u y Hu Hin. apply (Hkeep3 j u y). 2: exact I. 2: exact Hin.
      rewrite Hus1. destruct (j =? id) eqn:E; [|exact Hu]. apply N.eqb_eq in E. subst j.
      unfold usl in Hu. rewrite Hn in Hu. exact Hu.
    - intros k Hk. apply (Hnew3 sh I). intro v. apply ns_add_self. exact Hk.
  Qed.

  (* the same at the level of Cx *)
  Lemma Cx_remove : forall id sh p n s x s', Cx s -> ndl (cls s) id = Some n -> In (sh, p) n ->
    raw_remove_from_class Data id sh s = Ok (x, s') ->
    Cx s' /\ na_get (hc s') sh = None /\ (forall j n', ndl (cls s') j = Some n' -> na_get n' sh = None).
  Proof.
    intros id sh p n s x s' HC Hid Hin H. apply raw_remove_eff in H.
    destruct H as [n1 [Hn1 [_ [_ [_ [Hh [Hnd Hus]]]]]]]. rewrite Hid in Hn1. inversion Hn1; subst n1.
    unfold Cx. rewrite Hh. eapply CxF_remove; eassumption.
  Qed.

  Lemma Cx_add : forall id sh bij src s s', Cx s -> na_get (hc s) sh = None ->
    (forall j n', ndl (cls s) j = Some n' -> na_get n' sh = None) ->
    raw_add_to_class Data id (sh, bij) src s = Ok (tt, s') -> Cx s'.
  Proof.
    intros id sh bij src s s' HC Hnone Hnn H. apply raw_add_eff in H.
    destruct H as [n1 [Hn1 [_ [_ [_ [Hh [Hnd [Hus Hnew]]]]]]]].
    unfold Cx. rewrite Hh. eapply CxF_add; eassumption.
  Qed.

  (* ---------------- pending: Full entries stay Full ---------------- *)
  Lemma pending_touch_eff2 : forall x ty s s', pending_touch Data x ty s = Ok (tt, s') ->
    uf s' = uf s /\ cls s' = cls s /\ hc s' = hc s /\
    (forall y, na_get (pend s) y = Some true -> na_get (pend s') y = Some true) /\
    (ty = true -> na_get (pend s') x = Some true).
  Proof.
    intros x ty s s' H. unfold pending_touch in H. apply modify_ok in H. subst s'.
    cbn [unionfind classes hashcons pending set_pending].
    split. reflexivity. split. reflexivity. split. reflexivity.
    destruct (na_get (pend s) x) as [v|] eqn:E.
    - split.
      + intros y Hy. destruct (node_eq_dec' y x) as [->|Hne].
        * rewrite E in Hy. inversion Hy; subst v. rewrite na_get_set_same. reflexivity.
        * rewrite na_get_set_other by exact Hne. exact Hy.
      + intros ->. rewrite na_get_set_same. rewrite orb_true_r. reflexivity.
    - split.
      + intros y Hy. apply na_get_app_some. exact Hy.
      + intros ->. rewrite (na_get_app_none _ _ _ E). cbn [na_get]. rewrite node_eqb_refl. reflexivity.
  Qed.

  Lemma iter_touch_eff2 : forall ty l s s', iterM Data (fun sh => pending_touch Data sh ty) l s = Ok (tt, s') ->
    uf s' = uf s /\ cls s' = cls s /\ hc s' = hc s /\
    (forall y, na_get (pend s) y = Some true -> na_get (pend s') y = Some true) /\
    (ty = true -> forall sh, In sh l -> na_get (pend s') sh = Some true).
  Proof.
    intros ty l. induction l as [|a t IH]; intros s s' H.
    - cbn [iterM] in H. apply ret_ok in H. destruct H as [-> _].
      split. reflexivity. split. reflexivity. split. reflexivity. split. intros y Hy. exact Hy. intros _ sh [].
    - cbn [iterM] in H. apply mbind_ok in H. destruct H as [[] [s1 [H1 H2]]].
      apply pending_touch_eff2 in H1. destruct H1 as [U1 [C1 [Hh1 [M1 T1]]]].
      apply IH in H2. destruct H2 as [U2 [C2 [Hh2 [M2 T2]]]].
      split. congruence. split. congruence. split. congruence.
      split. intros y Hy. apply M2. apply M1. exact Hy.
      intros Et sh [<-|Hin]. apply M2. apply T1. exact Et. apply T2; assumption.
  Qed.

  Lemma touched_class_eff2 : forall i ty s s', touched_class Data i ty s = Ok (tt, s') ->
    exists c, gclass s i = Ok c /\ uf s' = uf s /\ cls s' = cls s /\ hc s' = hc s /\
      (forall y, na_get (pend s) y = Some true -> na_get (pend s') y = Some true) /\
      (ty = true -> forall sh, In sh (c_usages Data c) -> na_get (pend s') sh = Some true).
  Proof.
    intros i ty s s' H. unfold touched_class in H. apply mbind_ok in H. destruct H as [c [s1 [H1 H2]]].
    apply reads_ok in H1. destruct H1 as [-> Hc]. exists c. split. exact Hc.
    apply iter_touch_eff2 in H2. exact H2.
  Qed.

  (* ---------------- the loop of move_to ---------------- *)
  (* b = the state after the head (the link from F to T is done); rest = the entries of F still to move;
     U0 = the usages of F at b *)
  Record LI (b : eg) (F T : N) (U0 : list node) (rest : list (node * (slotmap * N))) (s : eg) : Prop := {
    li_uf : uf s = uf b;
    li_len : List.length (cls s) = List.length (cls b);
    li_cx : Cx s;
    li_from : ndl (cls s) F = Some rest;
    li_fwd : forall sh c, na_get (hc b) sh = Some c -> na_get (hc s) sh = Some c \/ (c = F /\ na_get (hc s) sh = Some T);
    li_bwd : forall sh i, na_get (hc s) sh = Some i -> na_get (hc b) sh = Some i \/ (i = T /\ na_get (hc b) sh = Some F);
    li_so : forall i n sh bij src, ndl (cls s) i = Some n -> In (sh, (bij, src)) n ->
              fid b src = Ok (if i =? F then T else i);
    li_pt : forall x, na_get (pend b) x = Some true -> na_get (pend s) x = Some true;
    li_us : forall sh, In sh U0 -> (exists u, usl (cls s) F = Some u /\ In sh u) \/ na_get (pend s) sh = Some true }.

  Lemma LI_step : forall b F T U0 sh bij src rest (g : N -> slotmap * N) s a1 a2 a3 s' x nb, F <> T ->
    LI b F T U0 ((sh, (bij, src)) :: rest) s ->
    raw_remove_from_class Data F sh s = Ok (x, a1) ->
    with_ctr Data g a1 = Ok (nb, a2) ->
    raw_add_to_class Data T (sh, nb) src a2 = Ok (tt, a3) ->
    pending_insert Data sh true a3 = Ok (tt, s') ->
    LI b F T U0 rest s'.
  Proof.
    intros b F T U0 sh bij src rest g s a1 a2 a3 s' x nb HFT [Luf Llen Lcx Lfrom Lfwd Lbwd Lso Lpt Lus] H1 H2 H3 H4.
    assert (HinF : In (sh, (bij, src)) ((sh, (bij, src)) :: rest)) by (left; reflexivity).
    assert (HsF : na_get (hc s) sh = Some F). { eapply (cx_hb _ _ _ Lcx). exact Lfrom. exact HinF. }
    destruct (Cx_remove _ _ _ _ _ _ _ Lcx Lfrom HinF H1) as [Cx1 [Hno1 Hnn1]].
    apply raw_remove_eff in H1. destruct H1 as [n1 [Hn1 [U1 [P1 [L1 [Hh1 [Hnd1 Hus1]]]]]]].
    rewrite Lfrom in Hn1. inversion Hn1; subst n1. clear Hn1.
    assert (Erem : na_remove ((sh, (bij, src)) :: rest) sh = rest). { cbn [na_remove]. rewrite node_eqb_refl. reflexivity. }
    rewrite Erem in Hnd1.
    apply with_ctr_eff in H2. destruct H2 as [U2 [C2 [Hh2 P2]]].
    assert (Cx2 : Cx a2). { eapply Cx_same. exact Hh2. exact C2. exact Cx1. }
    assert (Cx3 : Cx a3).
    { eapply Cx_add. exact Cx2. rewrite Hh2. exact Hno1. rewrite C2. exact Hnn1. exact H3. }
    apply raw_add_eff in H3. destruct H3 as [nT [HnT [U3 [P3 [L3 [Hh3 [Hnd3 [Hus3 Hnew3]]]]]]]].
    unfold pending_insert in H4. apply modify_ok in H4. subst s'.
    assert (ETF : (T =? F) = false). { apply N.eqb_neq. intro E. apply HFT. symmetry. exact E. }
    assert (EFT : (F =? T) = false). { apply N.eqb_neq. exact HFT. }
    assert (HnT0 : ndl (cls s) T = Some nT). { rewrite C2, Hnd1, ETF in HnT. exact HnT. }
    assert (HshT : na_get (hc a3) sh = Some T). { rewrite Hh3. apply na_get_set_same. }
    assert (Hother : forall y, y <> sh -> na_get (hc a3) y = na_get (hc s) y).
    { intros y Hne. rewrite Hh3. rewrite na_get_set_other by exact Hne. rewrite Hh2, Hh1.
      apply na_get_remove_other. exact Hne. }
    constructor; cbn [unionfind classes hashcons pending set_pending].
    - congruence.
    - rewrite L3, C2, L1. exact Llen.
    - eapply Cx_same. 3: exact Cx3. reflexivity. reflexivity.
    - rewrite Hnd3, EFT, C2, Hnd1, N.eqb_refl. reflexivity.
    - intros y c Hy. destruct (node_eq_dec' y sh) as [->|Hne].
      + right. split. 2: exact HshT.
        destruct (Lfwd sh c Hy) as [Hs|[Hc _]]. rewrite HsF in Hs. inversion Hs. reflexivity. exact Hc.
      + rewrite (Hother y Hne). apply Lfwd. exact Hy.
    - intros y i Hy. destruct (node_eq_dec' y sh) as [->|Hne].
      + rewrite HshT in Hy. inversion Hy; subst i. right. split. reflexivity.
        destruct (Lbwd sh F HsF) as [Hb|[E _]]. exact Hb. contradiction.
      + rewrite (Hother y Hne) in Hy. apply Lbwd. exact Hy.
    - intros i n y bj sr Hi Hin. rewrite Hnd3 in Hi. destruct (i =? T) eqn:E.
      + apply N.eqb_eq in E. subst i. inversion Hi; subst n. apply na_set_In in Hin.
        destruct Hin as [[-> Ep]|Hin].
        * inversion Ep; subst. rewrite ETF.
          pose proof (Lso F _ sh bij src Lfrom HinF) as Hf. rewrite N.eqb_refl in Hf. exact Hf.
        * eapply Lso. exact HnT0. exact Hin.
      + rewrite C2, Hnd1 in Hi. destruct (i =? F) eqn:E2.
        * inversion Hi; subst n. apply N.eqb_eq in E2. subst i.
          pose proof (Lso F _ y bj sr Lfrom (or_intror Hin)) as Hf. rewrite N.eqb_refl in Hf. exact Hf.
        * pose proof (Lso i n y bj sr Hi Hin) as Hf. rewrite E2 in Hf. exact Hf.
    - intros y Hy. apply Lpt in Hy. rewrite P3, P2, P1.
      destruct (node_eq_dec' y sh) as [->|Hne]. apply na_get_set_same.
      rewrite na_get_set_other by exact Hne. exact Hy.
    - intros y Hy. rewrite P3, P2, P1. destruct (node_eq_dec' y sh) as [->|Hne].
      + right. apply na_get_set_same.
      + destruct (Lus y Hy) as [[u [Hu Hin]]|Hp].
        * left. destruct (Hus1 F u y Hu Hne Hin) as [u1 [Hu1 Hin1]]. rewrite <- C2 in Hu1.
          destruct (Hus3 F u1 y Hu1 Hin1) as [u3 [Hu3 Hin3]]. exists u3. split; assumption.
        * right. rewrite na_get_set_other by exact Hne. exact Hp.
  Qed.

  Definition body_ok (F T : N) (f : node * (slotmap * N) -> M Data unit) : Prop :=
    forall sh bij src s s', f (sh, (bij, src)) s = Ok (tt, s') ->
      exists x a1 (g : N -> slotmap * N) nb a2 a3,
        raw_remove_from_class Data F sh s = Ok (x, a1) /\ with_ctr Data g a1 = Ok (nb, a2) /\
        raw_add_to_class Data T (sh, nb) src a2 = Ok (tt, a3) /\ pending_insert Data sh true a3 = Ok (tt, s').

  Lemma LI_loop : forall b F T U0 f, F <> T -> body_ok F T f ->
    forall l s s', LI b F T U0 l s -> iterM Data f l s = Ok (tt, s') -> LI b F T U0 [] s'.
  Proof.
    intros b F T U0 f HFT Hf l. induction l as [|[sh [bij src]] t IH]; intros s s' HL H.
    - cbn [iterM] in H. apply ret_ok in H. destruct H as [-> _]. exact HL.
    - cbn [iterM] in H. apply mbind_ok in H. destruct H as [[] [s1 [H1 H2]]].
      apply Hf in H1. destruct H1 as [x [a1 [g [nb [a2 [a3 [E1 [E2 [E3 E4]]]]]]]]].
      eapply IH. 2: exact H2. eapply LI_step; eassumption.
  Qed.

  (* ---------------- head and tail of move_to ---------------- *)
  Lemma ufset_exact : forall i p s s', fid s i = Ok i -> unionfind_set Data i p s = Ok (tt, s') ->
    (N.to_nat i < List.length (uf s))%nat /\ uf s' = set_nth (uf s) (N.to_nat i) p.
  Proof.
    intros i p s s' Hr H. change (fidl (uf s) i = Ok i) in Hr.
    destruct (fidl_is_root _ _ _ Hr) as [e [He _]]. assert (Hlt := nth_opt_some_lt' _ _ _ He).
    unfold unionfind_set in H.
    destruct (Nat.eqb (List.length (uf s)) (N.to_nat i)) eqn:E1. apply Nat.eqb_eq in E1. lia.
    destruct (Nat.ltb (N.to_nat i) (List.length (uf s))) eqn:E2. 2: discriminate.
    inversion H; subst s'. split. exact Hlt. reflexivity.
  Qed.

  Lemma move_head_eff : forall F T d (b : bool) p s s1 s2 s3,
    fid s F = Ok F -> fid s T = Ok T -> F <> T ->
    upd_class Data T (fun c => with_data Data c d) s = Ok (tt, s1) ->
    (if b then ret Data tt else mbind Data (mq_push Data T) (fun _ => touched_class Data T false)) s1 = Ok (tt, s2) ->
    unionfind_set Data F {| aid := T; am := p |} s2 = Ok (tt, s3) ->
    (forall j r, fid s j = Ok r -> fid s3 j = Ok (if r =? F then T else r)) /\
    ((N.to_nat F < List.length (uf s))%nat /\ uf s3 = set_nth (uf s) (N.to_nat F) {| aid := T; am := p |}) /\
    hc s3 = hc s /\ List.length (cls s3) = List.length (cls s) /\
    (forall j, ndl (cls s3) j = ndl (cls s) j) /\ (forall j, usl (cls s3) j = usl (cls s) j) /\
    (forall x, na_get (pend s) x = Some true -> na_get (pend s3) x = Some true).
  Proof.
    intros F T d b p s s1 s2 s3 Hrf Hrt Hne H1 H2 H3.
    apply upd_class_keep in H1. 2: intro c; reflexivity. 2: intro c; reflexivity.
    destruct H1 as [U1 [Hh1 [P1 [L1 [Hnd1 Hus1]]]]].
    assert (A2 : uf s2 = uf s1 /\ cls s2 = cls s1 /\ hc s2 = hc s1 /\
                 (forall x, na_get (pend s1) x = Some true -> na_get (pend s2) x = Some true)).
    { destruct b.
      - apply ret_ok in H2. destruct H2 as [-> _]. repeat split. intros x Hx. exact Hx.
      - apply mbind_ok in H2. destruct H2 as [[] [t [H2 H2']]].
        apply mq_push_eff in H2. destruct H2 as [Ua [Ca [Ha Pa]]].
        apply touched_class_eff2 in H2'. destruct H2' as [c [_ [Ub [Cb [Hb [Mb _]]]]]].
        split. congruence. split. congruence. split. congruence.
        intros x Hx. apply Mb. rewrite Pa. exact Hx. }
    destruct A2 as [U2 [C2 [Hh2 M2]]].
    assert (Eu : uf s2 = uf s) by congruence.
    assert (Hrf2 : fid s2 F = Ok F). { rewrite (fid_uf Data s s2 F Eu). exact Hrf. }
    assert (Hrt2 : fid s2 T = Ok T). { rewrite (fid_uf Data s s2 T Eu). exact Hrt. }
    pose proof (link_spec_holds Data s2 s3 F T p Hrf2 Hrt2 Hne H3) as Hl.
    pose proof (ufset_exact _ _ _ _ Hrf2 H3) as [Hlt Hex].
    apply unionfind_set_eff in H3. destruct H3 as [C3 [Hh3 P3]].
    split. { intros j r Hr. apply Hl. rewrite (fid_uf Data s s2 j Eu). exact Hr. }
    split. { rewrite <- Eu. split; assumption. }
    split. congruence. split. { rewrite C3, C2. exact L1. }
    split. { intro j. rewrite C3, C2. apply Hnd1. }
    split. { intro j. rewrite C3, C2. apply Hus1. }
    intros x Hx. rewrite P3. apply M2. rewrite P1. exact Hx.
  Qed.

  Lemma move_tail_eff : forall F T g (b : bool) s4 s5 s6 s',
    upd_class Data T (fun c => with_group Data c g) s4 = Ok (tt, s5) ->
    (if b then touched_class Data T true else ret Data tt) s5 = Ok (tt, s6) ->
    touched_class Data F true s6 = Ok (tt, s') ->
    uf s' = uf s4 /\ hc s' = hc s4 /\ List.length (cls s') = List.length (cls s4) /\
    (forall j, ndl (cls s') j = ndl (cls s4) j) /\ (forall j, usl (cls s') j = usl (cls s4) j) /\
    (forall x, na_get (pend s4) x = Some true -> na_get (pend s') x = Some true) /\
    (forall u sh, usl (cls s4) F = Some u -> In sh u -> na_get (pend s') sh = Some true).
  Proof.
    intros F T g b s4 s5 s6 s' H1 H2 H3.
    apply upd_class_keep in H1. 2: intro c; reflexivity. 2: intro c; reflexivity.
    destruct H1 as [U1 [Hh1 [P1 [L1 [Hnd1 Hus1]]]]].
    assert (A2 : uf s6 = uf s5 /\ cls s6 = cls s5 /\ hc s6 = hc s5 /\
                 (forall x, na_get (pend s5) x = Some true -> na_get (pend s6) x = Some true)).
    { destruct b.
      - apply touched_class_eff2 in H2. destruct H2 as [c [_ [Ub [Cb [Hb [Mb _]]]]]]. repeat split; assumption.
      - apply ret_ok in H2. destruct H2 as [-> _]. repeat split. intros x Hx. exact Hx. }
    destruct A2 as [U2 [C2 [Hh2 M2]]].
    apply touched_class_eff2 in H3. destruct H3 as [c [Hc [U3 [C3 [Hh3 [M3 T3]]]]]].
    split. congruence. split. congruence. split. { rewrite C3, C2. exact L1. }
    split. { intro j. rewrite C3, C2. apply Hnd1. }
    split. { intro j. rewrite C3, C2. apply Hus1. }
    split. { intros x Hx. apply M3. apply M2. rewrite P1. exact Hx. }
    intros u sh Hu Hin. apply (T3 eq_refl).
    destruct (gclass_nd _ _ _ Hc) as [_ Hcu]. rewrite C2, Hus1, Hu in Hcu. inversion Hcu as [E]. rewrite <- E. exact Hin.
  Qed.

  Lemma Cx_of_S0 : forall s, S0 Data s -> Cx s.
  Proof.
    intros s HS. unfold Cx. constructor.
    - exact (sx_nd Data _ _ HS).
    - intros sh i H. destruct (sx_hf Data _ _ HS sh i H) as [c [p [Hc Hp]]].
      destruct (gclass_nd _ _ _ Hc) as [Hn _]. exists (c_nodes Data c), p. split; assumption.
    - intros i n sh p Hn Hin. destruct (nd_gclass _ _ _ Hn) as [c [Hc En]]. subst n.
      exact (sx_hb Data _ _ HS i c sh p Hc Hin).
    - intros i n Hn. destruct (nd_gclass _ _ _ Hn) as [c [Hc En]]. subst n. exact (sx_cn Data _ _ HS i c Hc).
    - intros sh i H k Hk. destruct (sx_ua Data _ _ HS sh i H k Hk) as [c [Hc Hin]].
      destruct (gclass_nd _ _ _ Hc) as [_ Hu]. exists (c_usages Data c). split; assumption.
  Qed.

  (* ---------------- the theorem ---------------- *)
  Theorem move_to_S0_full : forall from to s s',
    S0 Data s -> fid s (aid from) = Ok (aid from) -> fid s (aid to) = Ok (aid to) -> aid from <> aid to ->
    move_to Data data_eqb merge from to s = Ok (tt, s') ->
    S0 Data s' /\
    (forall sh c, stored Data s sh c -> stored Data s' sh (if c =? aid from then aid to else c)) /\
    (forall j r, fid s j = Ok r -> fid s' j = Ok (if r =? aid from then aid to else r)) /\
    (forall c, fid s' c = Ok c -> fid s c = Ok c /\ c <> aid from).
  Proof.
    intros from to s s' HS Hrf Hrt Hne H.
    unfold move_to in H. cbv zeta in H.
    apply mbind_ok in H. destruct H as [a_from [t0 [H0 H]]]. apply reads_ok in H0. destruct H0 as [-> Haf].
    apply mbind_ok in H. destruct H as [to_id [t0 [H0 H]]]. apply reads_ok in H0. destruct H0 as [-> Hti].
    cbv beta in Hti. rewrite Hrt in Hti. inversion Hti; subst to_id. clear Hti.
    apply mbind_ok in H. destruct H as [a_to [t0 [H0 H]]]. apply reads_ok in H0. destruct H0 as [-> Hat].
    apply mbind_ok in H. destruct H as [[] [s1 [H1 H]]].
    apply mbind_ok in H. destruct H as [[] [s2 [H2 H]]].
    apply mbind_ok in H. destruct H as [[] [s3 [H3 H]]].
    apply mbind_ok in H. destruct H as [cf [t1 [H4 H]]]. apply reads_ok in H4. destruct H4 as [-> Hcf].
    cbv beta in Hcf.
    apply mbind_ok in H. destruct H as [[] [s4 [H5 H]]].
    apply mbind_ok in H. destruct H as [cf2 [t2 [H6 H]]]. apply reads_ok in H6. destruct H6 as [-> _].
    apply mbind_ok in H. destruct H as [ct [t3 [H7 H]]]. apply reads_ok in H7. destruct H7 as [-> _].
    apply mbind_ok in H. destruct H as [r [t4 [H8 H]]]. apply lift_ok in H8. destruct H8 as [-> _].
    apply mbind_ok in H. destruct H as [[] [s5 [H9 H]]].
    apply mbind_ok in H. destruct H as [[] [s6 [H10 H]]].
    destruct (move_head_eff _ _ _ _ _ _ _ _ _ Hrf Hrt Hne H1 H2 H3) as [Hf3 [[Hlt Hu3] [Hh3 [Hl3 [Hnd3 [Hus3 Hpm3]]]]]].
    destruct (move_tail_eff _ _ _ _ _ _ _ _ H9 H10 H) as [Tu [Th [Tl [Tnd [Tus [Tpm Ttouch]]]]]].
    assert (HC0 : Cx s) by (apply Cx_of_S0; exact HS).
    destruct (gclass_nd _ _ _ Hcf) as [Hcfn Hcfu].
    assert (HL3 : LI s3 (aid from) (aid to) (c_usages Data cf) (c_nodes Data cf) s3).
    { constructor.
      - reflexivity.
      - reflexivity.
      - unfold Cx. rewrite Hh3. eapply CxF_ext. exact HC0. exact Hnd3. exact Hus3.
      - exact Hcfn.
      - intros sh c Hs. left. exact Hs.
      - intros sh i Hs. left. exact Hs.
      - intros i n sh bij src Hi Hin. rewrite Hnd3 in Hi. destruct (nd_gclass _ _ _ Hi) as [c [Hc En]]. subst n.
        apply Hf3. eapply (sx_so Data _ _ HS); eassumption.
      - intros x Hx. exact Hx.
      - intros sh Hin. left. exists (c_usages Data cf). split; assumption. }
    assert (HL4 : LI s3 (aid from) (aid to) (c_usages Data cf) [] s4).
    { refine (LI_loop s3 (aid from) (aid to) (c_usages Data cf) _ Hne _ (c_nodes Data cf) s3 s4 HL3 H5).
      intros sh bij src a a' Hb.
      apply mbind_ok in Hb. destruct Hb as [rm [a1 [Hb1 Hb]]].
      apply mbind_ok in Hb. destruct Hb as [nb [a2 [Hb2 Hb]]].
      apply mbind_ok in Hb. destruct Hb as [[] [a3 [Hb3 Hb4]]].
      exists rm, a1. eexists. exists nb, a2, a3. split. exact Hb1. split. exact Hb2. split. exact Hb3. exact Hb4. }
    destruct HL4 as [Luf Llen Lcx Lfrom Lfwd Lbwd Lso Lpt Lus].
    assert (Hnof : forall sh, na_get (hc s4) sh <> Some (aid from)).
    { intros sh Hs. destruct (cx_hf _ _ _ Lcx sh (aid from) Hs) as [n [p [Hn Hp]]].
      rewrite Lfrom in Hn. inversion Hn; subst n. discriminate Hp. }
    assert (Hfid' : forall j, fid s' j = fid s3 j). { intro j. apply fid_uf. congruence. }
    assert (ETF : (aid to =? aid from) = false). { apply N.eqb_neq. intro E. apply Hne. symmetry. exact E. }
    split; [|split; [|split]].
    - constructor.
      + rewrite Th. exact (cx_nd _ _ _ Lcx).
      + rewrite Tu, Luf, Tl, Llen, Hl3, Hu3. rewrite AnalysisModelUF.set_nth_length. exact (sx_len Data _ _ HS).
      + intros sh i Hs. unfold AnalysisModelBase.stored in Hs. rewrite Th in Hs. rewrite Hfid'.
        destruct (Lbwd sh i Hs) as [Hb|[-> Hb]].
        * rewrite Hh3 in Hb. pose proof (sx_hl Data _ _ HS sh i Hb) as Hr. rewrite (Hf3 i i Hr).
          destruct (i =? aid from) eqn:E; [|reflexivity].
          apply N.eqb_eq in E. subst i. exfalso. eapply Hnof. exact Hs.
        * rewrite (Hf3 _ _ Hrt). rewrite ETF. reflexivity.
      + intros sh i Hs. unfold AnalysisModelBase.stored in Hs. rewrite Th in Hs.
        destruct (cx_hf _ _ _ Lcx sh i Hs) as [n [p [Hn Hp]]]. rewrite <- Tnd in Hn.
        destruct (nd_gclass _ _ _ Hn) as [c [Hc En]]. exists c, p. split. exact Hc. rewrite En. exact Hp.
      + intros i c sh p Hc Hin. unfold AnalysisModelBase.stored. rewrite Th.
        destruct (gclass_nd _ _ _ Hc) as [Hn _]. rewrite Tnd in Hn. eapply (cx_hb _ _ _ Lcx); eassumption.
      + intros i c Hc. destruct (gclass_nd _ _ _ Hc) as [Hn _]. rewrite Tnd in Hn. eapply (cx_cn _ _ _ Lcx). exact Hn.
      + intros i c sh bij src Hc Hin. rewrite Hfid'.
        destruct (gclass_nd _ _ _ Hc) as [Hn _]. rewrite Tnd in Hn.
        pose proof (Lso i _ sh bij src Hn Hin) as Hf. destruct (i =? aid from) eqn:E; [|exact Hf].
        exfalso. apply N.eqb_eq in E. subst i. rewrite Lfrom in Hn. inversion Hn as [En]. rewrite <- En in Hin. destruct Hin.
      + intros sh i Hs k Hk. unfold AnalysisModelBase.stored in Hs. rewrite Th in Hs.
        destruct (cx_ua _ _ _ Lcx sh i Hs k Hk) as [u [Hu Hin]]. rewrite <- Tus in Hu.
        destruct (us_gclass _ _ _ Hu) as [c [Hc Ec]]. exists c. split. exact Hc. rewrite Ec. exact Hin.
      + intros sh i Hs Hp _ k Hk. unfold AnalysisModelBase.stored in Hs. rewrite Th in Hs.
        assert (Hs0 : exists i0, na_get (hc s) sh = Some i0).
        { destruct (Lbwd sh i Hs) as [Hb|[_ Hb]]; rewrite Hh3 in Hb; eexists; exact Hb. }
        destruct Hs0 as [i0 Hs0].
        assert (Hp0 : na_get (pend s) sh <> Some true).
        { intro Hq. apply Hp. apply Tpm. apply Lpt. apply Hpm3. exact Hq. }
        pose proof (sx_kl Data _ _ HS sh i0 Hs0 Hp0 (fun f => f) k Hk) as Hr.
        rewrite Hfid'. rewrite (Hf3 k k Hr). destruct (k =? aid from) eqn:E; [|reflexivity].
        exfalso. apply N.eqb_eq in E. subst k.
        destruct (sx_ua Data _ _ HS sh i0 Hs0 (aid from) Hk) as [c [Hc Hin]].
        destruct (gclass_nd _ _ _ Hc) as [_ Hcu]. rewrite <- Hus3 in Hcu.
        rewrite Hcfu in Hcu. inversion Hcu as [Eu]. rewrite <- Eu in Hin.
        destruct (Lus sh Hin) as [[u [Hu Hinu]]|Hq].
        * apply Hp. eapply Ttouch; eassumption.
        * apply Hp. apply Tpm. exact Hq.
    - intros sh c Hs. unfold AnalysisModelBase.stored in *. rewrite Th. rewrite <- Hh3 in Hs.
      destruct (Lfwd sh c Hs) as [Hq|[-> Hq]].
      + destruct (c =? aid from) eqn:E; [|exact Hq]. apply N.eqb_eq in E. subst c. exfalso. eapply Hnof. exact Hq.
      + rewrite N.eqb_refl. exact Hq.
    - intros j r0 Hr. rewrite Hfid'. apply Hf3. exact Hr.
    - intros c Hc. rewrite Hfid' in Hc. change (fidl (uf s3) c = Ok c) in Hc.
      destruct (fidl_is_root _ _ _ Hc) as [e [He Hae]]. rewrite Hu3 in He.
      destruct (N.eq_dec c (aid from)) as [->|Hcf'].
      + rewrite (AnalysisModelUF.nth_opt_set_nth_eq _ _ _ Hlt) in He. inversion He; subst e. cbn [aid] in Hae.
        exfalso. apply Hne. symmetry. exact Hae.
      + rewrite AnalysisModelUF.nth_opt_set_nth_neq in He.
        * split. 2: exact Hcf'. change (fidl (uf s) c = Ok c). apply fidl_root. exists e. split; assumption.
        * intro E. apply Hcf'. apply N2Nat.inj. symmetry. exact E.
  Qed.

  Theorem move_to_S0 : forall from to s s',
    S0 Data s -> find_id Data s (aid from) = Ok (aid from) -> find_id Data s (aid to) = Ok (aid to) -> aid from <> aid to ->
    move_to Data data_eqb merge from to s = Ok (tt, s') ->
    S0 Data s' /\
    (forall sh c, stored Data s sh c -> stored Data s' sh (if c =? aid from then aid to else c)) /\
    (forall j r, find_id Data s j = Ok r -> find_id Data s' j = Ok (if r =? aid from then aid to else r)).
  Proof.
    intros from to s s' HS Hrf Hrt Hne H.
    destruct (move_to_S0_full from to s s' HS Hrf Hrt Hne H) as [A [B [C _]]]. split. exact A. split; assumption.
  Qed.

  (* every leader after move_to was a leader before, other than `aid from` *)
  Theorem move_to_roots : forall from to s s',
    S0 Data s -> find_id Data s (aid from) = Ok (aid from) -> find_id Data s (aid to) = Ok (aid to) -> aid from <> aid to ->
    move_to Data data_eqb merge from to s = Ok (tt, s') ->
    forall c, find_id Data s' c = Ok c -> find_id Data s c = Ok c /\ c <> aid from.
  Proof.
    intros from to s s' HS Hrf Hrt Hne H.
    destruct (move_to_S0_full from to s s' HS Hrf Hrt Hne H) as [_ [_ [_ D]]]. exact D.
  Qed.

End Move.

Print Assumptions move_to_S0_full.
Print Assumptions move_to_S0.
Print Assumptions move_to_roots.
