(* EGraph/AnalysisModelQuiet.v — the `gfr` steps of EGraph/ModelA.v: a union of two invocations of the
   same class id never reaches move_to; shrink_slots is always quiet; a general union is quiet steps
   followed by at most ONE move_to between two distinct leaders. *)
From SE Require Import EGraph.ModelA EGraph.AnalysisFix EGraph.AnalysisModelBase EGraph.AnalysisModelStab EGraph.AnalysisModelUF EGraph.AnalysisModelAbs EGraph.AnalysisModelFrames EGraph.AnalysisModelInv.
From Coq Require Import Lia Arith Bool List NArith. Import ListNotations.

Section Quiet.
  Variable Data : Type.
  Variable data_eqb : Data -> Data -> bool.
  Variable merge : Data -> Data -> Data.

  Notation eg := (egraph Data).
  Notation uf := (unionfind Data).
  Notation cls := (classes Data).
  Notation hc := (hashcons Data).
  Notation pend := (pending Data).
  Notation gfr := (AnalysisModelInv.gfr Data).
  Notation strfr := (AnalysisModelInv.strfr Data).
  Notation pmono := (AnalysisModelInv.pmono Data).
  Notation fid := (find_id Data).
  Notation uin := (union_internal Data data_eqb merge).

  (* ------------------------------------------------------------------ *)
  (* 1: the frames *)
  Lemma pmono_refl : forall s, pmono s s.
  Proof. intro s. split; intros x H; exact H. Qed.
  Lemma pmono_trans : forall a b c, pmono a b -> pmono b c -> pmono a c.
  Proof. intros a b c [H1 H2] [H3 H4]. split; intros x H. apply H3, H1, H. apply H4, H2, H. Qed.
  Lemma pmono_eq : forall s s', pend s' = pend s -> pmono s s'.
  Proof. intros s s' E. unfold AnalysisModelInv.pmono. rewrite E. split; intros x H; exact H. Qed.

  Lemma strfr_refl : forall s, strfr s s.
  Proof. intro s. split. reflexivity. split. reflexivity. split. apply pmono_refl. reflexivity. Qed.
  Lemma strfr_trans : forall a b c, strfr a b -> strfr b c -> strfr a c.
  Proof.
    intros a b c [U1 [H1 [P1 C1]]] [U2 [H2 [P2 C2]]]. split. congruence. split. congruence.
    split. eapply pmono_trans; eassumption. congruence.
  Qed.
  Lemma gfr_refl : forall s, gfr s s.
  Proof. intro s. split. apply strfr_refl. reflexivity. Qed.
  Lemma gfr_trans : forall a b c, gfr a b -> gfr b c -> gfr a c.
  Proof. intros a b c [S1 D1] [S2 D2]. split. eapply strfr_trans; eassumption. congruence. Qed.
  Lemma gfr_strfr : forall s s', gfr s s' -> strfr s s'.
  Proof. intros s s' [H _]. exact H. Qed.

  Lemma gfr_qfr : forall s s', AnalysisModelInv.gfr Data s s' -> qfr Data s s'.
  Proof.
    intros s s' [[U [H [[P _] _]]] D]. split. split; assumption. split. exact H. exact P.
  Qed.

  Lemma gfr_fid : forall s s', gfr s s' -> forall j, find_id Data s' j = find_id Data s j.
  Proof. intros s s' [[U _] _] j. apply find_id_dfr. exact U. Qed.

  Lemma gfr_pend : forall s s', uf s' = uf s -> cls s' = cls s -> hc s' = hc s -> pmono s s' -> gfr s s'.
  Proof.
    intros s s' U C H P. split. split. rewrite U. reflexivity. split. exact H. split. exact P.
    rewrite C. reflexivity. rewrite C. reflexivity.
  Qed.

  Lemma eq_fields_gfr : forall s s', uf s' = uf s -> cls s' = cls s -> hc s' = hc s -> pend s' = pend s -> gfr s s'.
  Proof. intros s s' U C H P. apply gfr_pend; try assumption. apply pmono_eq. exact P. Qed.

  Lemma is_root_aid : forall u u' i, map aid u' = map aid u -> is_root u i -> is_root u' i.
  Proof.
    intros u u' i E [e [Hn Ha]]. unfold is_root.
    assert (En : option_map aid (nth_opt u' (N.to_nat i)) = option_map aid (nth_opt u (N.to_nat i))).
    { rewrite <- !nth_opt_map_f. rewrite E. reflexivity. }
    rewrite Hn in En. destruct (nth_opt u' (N.to_nat i)) as [e'|]; cbn [option_map] in En. 2: discriminate.
    exists e'. split. reflexivity. injection En as En. congruence.
  Qed.

  Lemma is_root_gfr : forall s s' i, gfr s s' -> is_root (uf s) i -> is_root (uf s') i.
  Proof. intros s s' i [[U _] _] H. eapply is_root_aid. exact U. exact H. Qed.

  (* ------------------------------------------------------------------ *)
  (* 2: the primitive steps *)
  Lemma ret_gfr : forall {A} (x : A) s a s', ret Data x s = Ok (a, s') -> gfr s s'.
  Proof. intros A x s a s' H. apply ret_ok in H. destruct H as [-> _]. apply gfr_refl. Qed.

  Lemma with_ctr_gfr : forall {A} (f : N -> A * N) s x s', with_ctr Data f s = Ok (x, s') -> gfr s s'.
  Proof.
    intros A f s x s' H. unfold with_ctr in H. destruct (f (ctr Data s)) as [a c]. inversion H; subst.
    apply eq_fields_gfr; reflexivity.
  Qed.

  Lemma fresh_gfr : forall s x s', fresh Data s = Ok (x, s') -> gfr s s'.
  Proof. intros s x s' H. unfold fresh in H. inversion H; subst. apply eq_fields_gfr; reflexivity. Qed.

  Lemma mq_push_gfr : forall i s x s', mq_push Data i s = Ok (x, s') -> gfr s s'.
  Proof.
    intros i s x s' H. unfold mq_push in H. apply modify_ok in H. subst s'. apply eq_fields_gfr; reflexivity.
  Qed.

  Lemma pending_touch_gfr : forall sh ty s x s', pending_touch Data sh ty s = Ok (x, s') -> gfr s s'.
  Proof.
    intros sh ty s x s' H. unfold pending_touch in H. apply modify_ok in H. subst s'.
    apply gfr_pend; try reflexivity. unfold AnalysisModelInv.pmono. cbn [pending set_pending].
    destruct (na_get (pend s) sh) as [v|] eqn:E.
    - split; intros y Hy.
      + destruct (node_eq_dec' y sh) as [->|Hne]. rewrite na_get_set_same. discriminate.
        rewrite na_get_set_other by exact Hne. exact Hy.
      + destruct (node_eq_dec' y sh) as [->|Hne].
        * rewrite na_get_set_same. rewrite E in Hy. injection Hy as ->. reflexivity.
        * rewrite na_get_set_other by exact Hne. exact Hy.
    - split; intros y Hy.
      + destruct (na_get (pend s) y) as [v0|] eqn:E0. 2: congruence.
        rewrite (na_get_app_some _ _ _ _ E0). discriminate.
      + apply na_get_app_some. exact Hy.
  Qed.

  Lemma pending_insert_true_gfr : forall sh s x s', pending_insert Data sh true s = Ok (x, s') -> gfr s s'.
  Proof.
    intros sh s x s' H. unfold pending_insert in H. apply modify_ok in H. subst s'.
    apply gfr_pend; try reflexivity. unfold AnalysisModelInv.pmono. cbn [pending set_pending].
    split; intros y Hy.
    - destruct (node_eq_dec' y sh) as [->|Hne]. rewrite na_get_set_same. discriminate.
      rewrite na_get_set_other by exact Hne. exact Hy.
    - destruct (node_eq_dec' y sh) as [->|Hne]. rewrite na_get_set_same. reflexivity.
      rewrite na_get_set_other by exact Hne. exact Hy.
  Qed.

  Lemma iterM_gfr : forall {A} (f : A -> ModelA.M Data unit) l,
    (forall x s s', In x l -> f x s = Ok (tt, s') -> gfr s s') ->
    forall s s', iterM Data f l s = Ok (tt, s') -> gfr s s'.
  Proof.
    intros A f l Hf s s' H. apply (iterM_inv Data (gfr s) f l) with (s := s). 3: exact H. 2: apply gfr_refl.
    intros x a b Hx Ha Hb. eapply gfr_trans. exact Ha. eapply Hf; eassumption.
  Qed.

  Lemma touched_class_gfr : forall i ty s x s', touched_class Data i ty s = Ok (x, s') -> gfr s s'.
  Proof.
    intros i ty s [] s' H. unfold touched_class in H. apply mbind_ok in H. destruct H as [c [s1 [H1 H2]]].
    apply reads_ok in H1. destruct H1 as [-> _]. eapply iterM_gfr. 2: exact H2.
    intros sh a b _ Hab. eapply pending_touch_gfr. exact Hab.
  Qed.

  Lemma upd_class_gfr : forall i f s x s',
    (forall c, cstr Data (f c) = cstr Data c /\ c_data Data (f c) = c_data Data c) ->
    upd_class Data i f s = Ok (x, s') -> gfr s s'.
  Proof.
    intros i f s x s' Hf H. apply upd_class_effect in H. destruct H as [c [_ [Hn ->]]].
    split. split. reflexivity. split. reflexivity. split. apply pmono_eq. reflexivity.
    - cbn [classes set_classes]. eapply map_set_nth_keep. exact Hn. apply Hf.
    - cbn [classes set_classes]. eapply map_set_nth_keep. exact Hn. apply Hf.
  Qed.

  Lemma unionfind_set_gfr : forall i p s x s', unionfind_set Data i p s = Ok (x, s') ->
    is_root (uf s) i -> aid p = i -> gfr s s'.
  Proof.
    intros i p s x s' H [e [Hn Ha]] Hp. unfold unionfind_set in H. cbv zeta in H.
    pose proof (nth_opt_lt_len _ _ _ Hn) as Hlt.
    destruct (Nat.eqb (List.length (uf s)) (N.to_nat i)) eqn:E1. apply Nat.eqb_eq in E1. lia.
    destruct (Nat.ltb (N.to_nat i) (List.length (uf s))) eqn:E2. 2: discriminate.
    inversion H; subst. split. split.
    - cbn [unionfind set_uf]. eapply map_set_nth_keep. exact Hn. congruence.
    - split. reflexivity. split. apply pmono_eq. reflexivity. reflexivity.
    - reflexivity.
  Qed.

  Lemma record_redundancy_witness_gfr : forall i cap s s', record_redundancy_witness Data i cap s = Ok (tt, s') ->
    is_root (uf s) i -> gfr s s'.
  Proof.
    intros i cap s s' H Hr. unfold record_redundancy_witness in H.
    apply mbind_ok in H. destruct H as [ss [s1 [H1 H]]]. apply reads_ok in H1. destruct H1 as [-> _].
    eapply unionfind_set_gfr. exact H. exact Hr. reflexivity.
  Qed.

  Lemma syn_go_gfr : forall l m s x s', syn_go Data l m s = Ok (x, s') -> gfr s s'.
  Proof.
    induction l as [|y t IH]; intros m s x s' H; cbn [syn_go] in H.
    - eapply ret_gfr. exact H.
    - destruct (contains_key m y). eapply IH. exact H.
      apply mbind_ok in H. destruct H as [f [s1 [H1 H2]]].
      eapply gfr_trans. eapply fresh_gfr. exact H1. eapply IH. exact H2.
  Qed.

  (* the local `fix go` of handle_pending (and of synify_app_id) *)
  Lemma hp_go_gfr : forall l m s x s',
    (fix go (l : list slot) (m : slotmap) : ModelA.M Data slotmap :=
       match l with
       | [] => ret Data m
       | x :: r => if contains_key m x then go r m
                   else mbind Data (fresh Data) (fun f => go r (insert x f m))
       end) l m s = Ok (x, s') -> gfr s s'.
  Proof. intros l m s x s' H. change (syn_go Data l m s = Ok (x, s')) in H. eapply syn_go_gfr. exact H. Qed.

  Lemma synify_app_id_gfr : forall a s x s', synify_app_id Data a s = Ok (x, s') -> gfr s s'.
  Proof.
    intros a s x s' H. rewrite synify_app_id_eq in H.
    apply mbind_ok in H. destruct H as [ss [s1 [H1 H2]]]. apply reads_ok in H1. destruct H1 as [-> _].
    apply mbind_ok in H2. destruct H2 as [m [s2 [H2 H3]]]. apply ret_ok in H3. destruct H3 as [-> _].
    eapply syn_go_gfr. exact H2.
  Qed.

  Lemma mapM_gfr : forall {A C} (f : A -> ModelA.M Data C) l,
    (forall a s x s', f a s = Ok (x, s') -> gfr s s') ->
    forall s x s', mapM Data f l s = Ok (x, s') -> gfr s s'.
  Proof.
    intros A C f l Hf. induction l as [|a t IH]; intros s x s' H; cbn [mapM] in H.
    - eapply ret_gfr. exact H.
    - apply mbind_ok in H. destruct H as [y [s1 [H1 H2]]].
      apply mbind_ok in H2. destruct H2 as [r [s2 [H2 H3]]]. apply ret_ok in H3. destruct H3 as [-> _].
      eapply gfr_trans. eapply Hf. exact H1. eapply IH. exact H2.
  Qed.

  Lemma synify_enode_gfr : forall n s x s', synify_enode Data n s = Ok (x, s') -> gfr s s'.
  Proof.
    intros n s x s' H. unfold synify_enode in H. apply mbind_ok in H. destruct H as [l [s1 [H1 H2]]].
    apply ret_ok in H2. destruct H2 as [-> _]. eapply mapM_gfr. 2: exact H1.
    intros a s0 y s0' Ha. eapply synify_app_id_gfr. exact Ha.
  Qed.

  Lemma pc_congruence_gfr : forall a b s x s', pc_congruence Data a b s = Ok (x, s') -> gfr s s'.
  Proof.
    intros a b s x s' H. unfold pc_congruence in H.
    apply mbind_ok in H. destruct H as [sa [s1 [H1 H]]]. apply lift_ok in H1. destruct H1 as [-> _].
    apply mbind_ok in H. destruct H as [sb [s2 [H2 H]]]. apply lift_ok in H2. destruct H2 as [-> _].
    apply mbind_ok in H. destruct H as [m [s3 [H3 H]]].
    apply mbind_ok in H. destruct H as [u [s4 [H4 H]]].
    apply mbind_ok in H. destruct H as [bm [s5 [H5 H]]]. apply ret_ok in H. destruct H as [-> _].
    eapply gfr_trans. eapply with_ctr_gfr. exact H3.
    eapply gfr_trans. eapply with_ctr_gfr. exact H4. eapply with_ctr_gfr. exact H5.
  Qed.

  Lemma pc_congruence_res : forall a b s x s', pc_congruence Data a b s = Ok (x, s') ->
    fst x = snd a /\ aid (snd x) = aid (snd b).
  Proof.
    intros a b s x s' H. unfold pc_congruence in H.
    apply mbind_ok in H. destruct H as [sa [s1 [H1 H]]].
    apply mbind_ok in H. destruct H as [sb [s2 [H2 H]]].
    apply mbind_ok in H. destruct H as [m [s3 [H3 H]]].
    apply mbind_ok in H. destruct H as [u [s4 [H4 H]]].
    apply mbind_ok in H. destruct H as [bm [s5 [H5 H]]]. apply ret_ok in H. destruct H as [_ ->].
    split; reflexivity.
  Qed.

  (* ------------------------------------------------------------------ *)
  (* find *)
  Lemma find_applied_id_fid : forall s a a', find_applied_id Data s a = Ok a' -> fid s (aid a) = Ok (aid a').
  Proof.
    intros s a a' H. unfold find_applied_id in H. apply bind_ok in H. destruct H as [p [Hp H]].
    injection H as <-. unfold find_id. rewrite Hp. reflexivity.
  Qed.
  Lemma fid_is_root : forall s j r, fid s j = Ok r -> is_root (uf s) r.
  Proof. intros s j r H. change (fidl (uf s) j = Ok r) in H. eapply fidl_is_root. exact H. Qed.
  Lemma fid_root : forall s r, is_root (uf s) r -> fid s r = Ok r.
  Proof. intros s r H. change (fidl (uf s) r = Ok r). apply fidl_root. exact H. Qed.

  (* ------------------------------------------------------------------ *)
  (* 3: unions inside one class, shrink_slots *)
  Section CoreQ.
    Variable ui : appid -> appid -> ModelA.M Data bool.
    Hypothesis ui_same : forall l r s b s', aid l = aid r -> ui l r s = Ok (b, s') -> gfr s s'.

    Lemma shrink_slots_core : forall from cap s s', is_root (uf s) (aid from) ->
      shrink_slots Data ui from cap s = Ok (tt, s') -> gfr s s'.
    Proof.
      intros from cap s s' Hroot H. unfold shrink_slots in H. cbv zeta in H.
      apply mbind_ok in H. destruct H as [oc [s0 [H0 H]]]. apply lift_ok in H0. destruct H0 as [-> _].
      apply mbind_ok in H. destruct H as [[] [s1 [H1 H]]].
      apply record_redundancy_witness_gfr in H1. 2: exact Hroot.
      apply mbind_ok in H. destruct H as [c [s2 [H2 H]]]. apply reads_ok in H2. destruct H2 as [-> _].
      apply mbind_ok in H. destruct H as [flags [s3 [H3 H]]]. apply lift_ok in H3. destruct H3 as [-> _].
      apply mbind_ok in H. destruct H as [g [s4 [H4 H]]]. apply lift_ok in H4. destruct H4 as [-> _].
      apply mbind_ok in H. destruct H as [[] [s5 [H5 H]]]. apply upd_class_gfr in H5. 2: intro c0; split; reflexivity.
      apply mbind_ok in H. destruct H as [[] [s6 [H6 H]]]. apply touched_class_gfr in H6.
      eapply gfr_trans. exact H1. eapply gfr_trans. exact H5. eapply gfr_trans. exact H6.
      refine (iterM_inv Data (gfr s6) _ _ _ s6 s' (gfr_refl s6) H).
      intros pp a b _ Ha Hb. cbv beta in Hb.
      apply mbind_ok in Hb. destruct Hb as [sl [a1 [Hb1 Hb]]]. apply reads_ok in Hb1. destruct Hb1 as [-> _].
      apply mbind_ok in Hb. destruct Hb as [ps [a2 [Hb2 Hb]]]. apply lift_ok in Hb2. destruct Hb2 as [-> _].
      apply mbind_ok in Hb. destruct Hb as [bb [a3 [Hb3 Hb]]]. apply ret_ok in Hb. destruct Hb as [-> _].
      eapply gfr_trans. exact Ha. eapply ui_same. 2: exact Hb3. reflexivity.
    Qed.

    Lemma union_leaders_same : forall l r s b s', aid l = aid r -> is_root (uf s) (aid l) ->
      union_leaders Data data_eqb merge ui l r s = Ok (b, s') -> gfr s s'.
    Proof.
      intros l r s b s' Hlr Hroot H. unfold union_leaders in H. cbv zeta in H.
      apply mbind_ok in H. destruct H as [e [s0 [H0 H]]]. apply reads_ok in H0. destruct H0 as [-> He].
      destruct e. { apply ret_ok in H. destruct H as [-> _]. apply gfr_refl. }
      destruct (negb (sset_eqb (values (am l)) (sset_inter (values (am l)) (values (am r))))) eqn:E1.
      { apply mbind_ok in H. destruct H as [[] [s1 [H1 H]]]. apply mbind_ok in H. destruct H as [b1 [s2 [H2 H]]].
        apply ret_ok in H. destruct H as [-> _].
        eapply gfr_trans. eapply shrink_slots_core. exact Hroot. exact H1. eapply ui_same. exact Hlr. exact H2. }
      destruct (negb (sset_eqb (values (am r)) (sset_inter (values (am l)) (values (am r))))) eqn:E2.
      { apply mbind_ok in H. destruct H as [[] [s1 [H1 H]]]. apply mbind_ok in H. destruct H as [b1 [s2 [H2 H]]].
        apply ret_ok in H. destruct H as [-> _].
        eapply gfr_trans. eapply shrink_slots_core. 2: exact H1. rewrite <- Hlr. exact Hroot.
        eapply ui_same. exact Hlr. exact H2. }
      destruct (aid l =? aid r)%N eqn:E3.
      2: { apply N.eqb_neq in E3. contradiction. }
      apply mbind_ok in H. destruct H as [c [s1 [H1 H]]]. apply reads_ok in H1. destruct H1 as [-> _].
      apply mbind_ok in H. destruct H as [bb [s2 [H2 H]]]. apply lift_ok in H2. destruct H2 as [-> _].
      destruct bb. { apply ret_ok in H. destruct H as [-> _]. apply gfr_refl. }
      apply mbind_ok in H. destruct H as [g [s3 [H3 H]]]. apply lift_ok in H3. destruct H3 as [-> _].
      apply mbind_ok in H. destruct H as [[] [s4 [H4 H]]].
      apply mbind_ok in H. destruct H as [[] [s5 [H5 H]]]. apply ret_ok in H. destruct H as [-> _].
      eapply gfr_trans. eapply upd_class_gfr. 2: exact H4. intro c0; split; reflexivity.
      eapply touched_class_gfr. exact H5.
    Qed.

    Lemma ui_body_same : forall l r s b s', aid l = aid r ->
      union_internal_body Data data_eqb merge ui l r s = Ok (b, s') -> gfr s s'.
    Proof.
      intros l r s b s' Hlr H. unfold union_internal_body in H.
      apply mbind_ok in H. destruct H as [l' [t0 [H0 H]]]. apply reads_ok in H0. destruct H0 as [-> Hl].
      apply mbind_ok in H. destruct H as [r' [t0 [H0 H]]]. apply reads_ok in H0. destruct H0 as [-> Hr].
      pose proof (find_applied_id_fid _ _ _ Hl) as Fl. pose proof (find_applied_id_fid _ _ _ Hr) as Fr.
      rewrite <- Hlr in Fr. rewrite Fl in Fr. injection Fr as Fr.
      eapply union_leaders_same. exact Fr. eapply fid_is_root. exact Fl. exact H.
    Qed.
  End CoreQ.

  Lemma union_internal_S : forall f, uin (S f) = union_internal_body Data data_eqb merge (uin f).
  Proof. reflexivity. Qed.

  Theorem ui_same_gfr : forall f l r s b s', aid l = aid r ->
    union_internal Data data_eqb merge f l r s = Ok (b, s') -> gfr s s'.
  Proof.
    induction f as [|f IH]; intros l r s b s' E H. discriminate H.
    rewrite union_internal_S in H. eapply ui_body_same. 2: exact E. 2: exact H. exact IH.
  Qed.

  Theorem shrink_slots_gfr : forall f from cap s s', is_root (unionfind Data s) (aid from) ->
    shrink_slots Data (union_internal Data data_eqb merge f) from cap s = Ok (tt, s') -> gfr s s'.
  Proof.
    intros f from cap s s' Hr H. eapply shrink_slots_core. 2: exact Hr. 2: exact H. apply ui_same_gfr.
  Qed.

  (* ------------------------------------------------------------------ *)
  (* 4: the shape of a general union *)
  Lemma eg_eq_true_roots : forall s a b, is_root (uf s) (aid a) -> is_root (uf s) (aid b) ->
    eg_eq Data s a b = Ok true -> aid a = aid b.
  Proof.
    intros s a b Ra Rb H. unfold eg_eq in H.
    apply bind_ok in H. destruct H as [a' [Ha H]]. apply bind_ok in H. destruct H as [b' [Hb H]].
    apply find_applied_id_fid in Ha. apply find_applied_id_fid in Hb.
    rewrite (fid_root _ _ Ra) in Ha. rewrite (fid_root _ _ Rb) in Hb. injection Ha as Ea. injection Hb as Eb.
    destruct (aid a' =? aid b')%N eqn:E. apply N.eqb_eq in E. congruence. cbn [negb] in H. discriminate H.
  Qed.

  Theorem ui_shape : forall f l r s b s', union_internal Data data_eqb merge f l r s = Ok (b, s') ->
    exists s1 rl rr, gfr s s1 /\ find_id Data s (aid l) = Ok rl /\ find_id Data s (aid r) = Ok rr /\
      ((s' = s1 /\ rl = rr) \/
       (rl <> rr /\ exists from to, ((aid from = rl /\ aid to = rr) \/ (aid from = rr /\ aid to = rl)) /\
                    move_to Data data_eqb merge from to s1 = Ok (tt, s'))).
  Proof.
    induction f as [|f IH]; intros l r s b s' H. discriminate H.
    rewrite union_internal_S in H. unfold union_internal_body in H.
    apply mbind_ok in H. destruct H as [l' [t0 [H0 H]]]. apply reads_ok in H0. destruct H0 as [-> Hl].
    apply mbind_ok in H. destruct H as [r' [t0 [H0 H]]]. apply reads_ok in H0. destruct H0 as [-> Hr].
    pose proof (find_applied_id_fid _ _ _ Hl) as Fl. pose proof (find_applied_id_fid _ _ _ Hr) as Fr.
    pose proof (fid_is_root _ _ _ Fl) as Rl. pose proof (fid_is_root _ _ _ Fr) as Rr.
    destruct (N.eq_dec (aid l') (aid r')) as [E|NE].
    - exists s', (aid l'), (aid r'). split.
      { eapply union_leaders_same. 4: exact H. apply ui_same_gfr. exact E. exact Rl. }
      split. exact Fl. split. exact Fr. left. split. reflexivity. exact E.
    - unfold union_leaders in H. cbv zeta in H.
      apply mbind_ok in H. destruct H as [e [t0 [H0 H]]]. apply reads_ok in H0. destruct H0 as [-> He].
      destruct e. { exfalso. apply NE. eapply eg_eq_true_roots; eassumption. }
      destruct (negb (sset_eqb (values (am l')) (sset_inter (values (am l')) (values (am r'))))) eqn:E1.
      { apply mbind_ok in H. destruct H as [[] [s2 [H1 H]]]. apply mbind_ok in H. destruct H as [b1 [s3 [H2 H]]].
        apply ret_ok in H. destruct H as [-> _].
        apply shrink_slots_gfr in H1. 2: exact Rl.
        destruct (IH _ _ _ _ _ H2) as [s1 [rl [rr [G [Fl2 [Fr2 D]]]]]].
        rewrite (gfr_fid _ _ H1) in Fl2, Fr2. rewrite (fid_root _ _ Rl) in Fl2. rewrite (fid_root _ _ Rr) in Fr2.
        injection Fl2 as <-. injection Fr2 as <-.
        exists s1, (aid l'), (aid r'). split. eapply gfr_trans; eassumption. split. exact Fl. split. exact Fr. exact D. }
      destruct (negb (sset_eqb (values (am r')) (sset_inter (values (am l')) (values (am r'))))) eqn:E2.
      { apply mbind_ok in H. destruct H as [[] [s2 [H1 H]]]. apply mbind_ok in H. destruct H as [b1 [s3 [H2 H]]].
        apply ret_ok in H. destruct H as [-> _].
        apply shrink_slots_gfr in H1. 2: exact Rr.
        destruct (IH _ _ _ _ _ H2) as [s1 [rl [rr [G [Fl2 [Fr2 D]]]]]].
        rewrite (gfr_fid _ _ H1) in Fl2, Fr2. rewrite (fid_root _ _ Rl) in Fl2. rewrite (fid_root _ _ Rr) in Fr2.
        injection Fl2 as <-. injection Fr2 as <-.
        exists s1, (aid l'), (aid r'). split. eapply gfr_trans; eassumption. split. exact Fl. split. exact Fr. exact D. }
      destruct (aid l' =? aid r')%N eqn:E3. { apply N.eqb_eq in E3. contradiction. }
      apply mbind_ok in H. destruct H as [cl [t0 [H0 H]]]. apply reads_ok in H0. destruct H0 as [-> _].
      apply mbind_ok in H. destruct H as [cr [t0 [H0 H]]]. apply reads_ok in H0. destruct H0 as [-> _].
      apply mbind_ok in H. destruct H as [[] [s2 [Hm H]]]. apply ret_ok in H. destruct H as [-> _].
      exists s, (aid l'), (aid r'). split. apply gfr_refl. split. exact Fl. split. exact Fr.
      right. split. exact NE.
      match type of Hm with (if ?c then _ else _) _ = _ => destruct c end.
      + exists l', r'. split. left. split; reflexivity. exact Hm.
      + exists r', l'. split. right. split; reflexivity. exact Hm.
  Qed.

  (* ------------------------------------------------------------------ *)
  (* 5: handle_shrink_in_upwards_merge, hp_loop, determine_self_symmetries *)
  Lemma pc_from_src_id_inv : forall s src pc, pc_from_src_id Data s src = Ok pc ->
    exists ident, aid ident = src /\ find_applied_id Data s ident = Ok (snd pc).
  Proof.
    intros s src pc H. unfold pc_from_src_id in H. cbv zeta in H.
    apply bind_ok in H. destruct H as [c [Hc H]].
    apply bind_ok in H. destruct H as [n [Hn H]].
    apply bind_ok in H. destruct H as [nd [Hnd H]].
    apply bind_ok in H. destruct H as [pai [Hpai H]]. injection H as <-.
    exists {| aid := src; am := identity (slots (c_syn Data c)) |}. split. reflexivity. exact Hpai.
  Qed.

  Lemma pc_from_src_id_fid : forall s src pc, pc_from_src_id Data s src = Ok pc ->
    find_id Data s src = Ok (aid (snd pc)).
  Proof.
    intros s src pc H. destruct (pc_from_src_id_inv _ _ _ H) as [ident [Ei Hf]].
    apply find_applied_id_fid in Hf. rewrite Ei in Hf. exact Hf.
  Qed.

  Theorem handle_shrink_gfr : forall src s s',
    handle_shrink_in_upwards_merge Data data_eqb merge src s = Ok (tt, s') -> gfr s s'.
  Proof.
    intros src s s' H. unfold handle_shrink_in_upwards_merge in H.
    apply mbind_ok in H. destruct H as [pc1 [t0 [H0 H]]]. apply reads_ok in H0. destruct H0 as [-> Hpc].
    apply mbind_ok in H. destruct H as [n2 [t0 [H0 H]]]. apply reads_ok in H0. destruct H0 as [-> _].
    apply mbind_ok in H. destruct H as [ab [s1 [Hab H]]]. destruct ab as [a b]. cbv zeta in H.
    pose proof (pc_congruence_gfr _ _ _ _ _ Hab) as G1.
    destruct (pc_congruence_res _ _ _ _ _ Hab) as [Ea _]. cbn [fst] in Ea.
    eapply gfr_trans. exact G1. unfold uint in H. eapply shrink_slots_gfr. 2: exact H.
    eapply is_root_gfr. exact G1. rewrite Ea. eapply fid_is_root. eapply pc_from_src_id_fid. exact Hpc.
  Qed.

  Lemma hp_loop_S : forall f src enode i,
    hp_loop Data data_eqb merge (S f) src enode i =
    if sset_subset (values (am i)) (slots enode) then ret Data (enode, i)
    else mbind Data (handle_shrink_in_upwards_merge Data data_eqb merge src) (fun _ =>
         mbind Data (reads Data (fun s => find_enode Data s enode)) (fun enode' =>
         mbind Data (reads Data (fun s => find_applied_id Data s i)) (fun i' =>
         hp_loop Data data_eqb merge f src enode' i'))).
  Proof. reflexivity. Qed.

  Theorem hp_loop_inv : forall (P : node -> appid -> Prop) fuel src s enode i enode' i' s',
    (forall s0 en a en' a', gfr s s0 -> P en a -> find_enode Data s0 en = Ok en' ->
       find_applied_id Data s0 a = Ok a' -> P en' a') ->
    P enode i -> hp_loop Data data_eqb merge fuel src enode i s = Ok ((enode', i'), s') -> gfr s s' /\ P enode' i'.
  Proof.
    intros P fuel src s enode i enode' i' s' HP.
    assert (Gen : forall fu sc en a, gfr s sc -> P en a ->
                    hp_loop Data data_eqb merge fu src en a sc = Ok ((enode', i'), s') -> gfr s s' /\ P enode' i').
    { induction fu as [|fu IHf]; intros sc en a G Pa H. discriminate H.
      rewrite hp_loop_S in H. destruct (sset_subset (values (am a)) (slots en)).
      - apply ret_ok in H. destruct H as [Es E]. injection E as Een Ea. subst s' enode' i'. split; assumption.
      - apply mbind_ok in H. destruct H as [[] [s1 [H1 H]]].
        apply mbind_ok in H. destruct H as [en1 [t0 [H0 H]]]. apply reads_ok in H0. destruct H0 as [-> Hen].
        apply mbind_ok in H. destruct H as [a1 [t0 [H0 H]]]. apply reads_ok in H0. destruct H0 as [-> Ha].
        assert (G1 : gfr s s1). { eapply gfr_trans. exact G. eapply handle_shrink_gfr. exact H1. }
        eapply IHf. 3: exact H. exact G1. eapply HP. exact G1. exact Pa. exact Hen. exact Ha. }
    intros Pi H. eapply Gen. apply gfr_refl. exact Pi. exact H.
  Qed.

  Theorem determine_self_symmetries_gfr : forall src s s',
    determine_self_symmetries Data data_eqb merge src s = Ok (tt, s') -> gfr s s'.
  Proof.
    intros src s s' H. unfold determine_self_symmetries in H. cbv zeta in H.
    apply mbind_ok in H. destruct H as [pc1 [t0 [H0 H]]]. apply reads_ok in H0. destruct H0 as [-> Hpc].
    apply mbind_ok in H. destruct H as [w [t0 [H0 H]]]. apply lift_ok in H0. destruct H0 as [-> _].
    apply mbind_ok in H. destruct H as [vs [t0 [H0 H]]]. apply reads_ok in H0. destruct H0 as [-> _].
    refine (iterM_inv Data (gfr s) _ _ _ s s' (gfr_refl s) H).
    intros pn2 a b _ Ga Hb. cbv beta in Hb.
    apply mbind_ok in Hb. destruct Hb as [w2 [t0 [H0 Hb]]]. apply lift_ok in H0. destruct H0 as [-> _].
    destruct (node_eqb (fst w) (fst w2)).
    - apply mbind_ok in Hb. destruct Hb as [ab [a1 [Hc Hb]]].
      apply mbind_ok in Hb. destruct Hb as [bb [a2 [Hu Hb]]]. apply ret_ok in Hb. destruct Hb as [-> _].
      destruct (pc_congruence_res _ _ _ _ _ Hc) as [Ea Eb]. cbn [snd] in Eb.
      eapply gfr_trans. exact Ga. eapply gfr_trans. eapply pc_congruence_gfr. exact Hc.
      unfold uint in Hu. eapply ui_same_gfr. 2: exact Hu. rewrite Ea, Eb. reflexivity.
    - apply ret_ok in Hb. destruct Hb as [-> _]. exact Ga.
  Qed.

  (* ------------------------------------------------------------------ *)
  (* 6: handle_congruence *)
  Theorem handle_congruence_split : forall pc s s', handle_congruence Data data_eqb merge pc s = Ok (tt, s') ->
    exists t pc2 a b s1 bb, shape Data s (fst pc) = Ok t /\ pc_from_shape Data s (fst t) = Ok pc2 /\ gfr s s1 /\
      aid a = aid (snd pc) /\ aid b = aid (snd pc2) /\ uint Data data_eqb merge a b s1 = Ok (bb, s').
  Proof.
    intros pc s s' H. unfold handle_congruence in H.
    apply mbind_ok in H. destruct H as [t [t0 [H0 H]]]. apply reads_ok in H0. destruct H0 as [-> Ht].
    apply mbind_ok in H. destruct H as [pc2 [t0 [H0 H]]]. apply reads_ok in H0. destruct H0 as [-> Hp2].
    apply mbind_ok in H. destruct H as [ab [s1 [Hc H]]].
    apply mbind_ok in H. destruct H as [bb [s2 [Hu H]]]. apply ret_ok in H. destruct H as [-> _].
    destruct (pc_congruence_res _ _ _ _ _ Hc) as [Ea Eb].
    exists t, pc2, (fst ab), (snd ab), s1, bb. split. exact Ht. split. exact Hp2.
    split. eapply pc_congruence_gfr. exact Hc. split. rewrite Ea. reflexivity. split. exact Eb. exact Hu.
  Qed.

End Quiet.

Print Assumptions gfr_qfr.
Print Assumptions gfr_fid.
Print Assumptions eq_fields_gfr.
Print Assumptions hp_go_gfr.
Print Assumptions synify_enode_gfr.
Print Assumptions record_redundancy_witness_gfr.
Print Assumptions ui_same_gfr.
Print Assumptions shrink_slots_gfr.
Print Assumptions ui_shape.
Print Assumptions handle_shrink_gfr.
Print Assumptions hp_loop_inv.
Print Assumptions determine_self_symmetries_gfr.
Print Assumptions handle_congruence_split.
Print Assumptions pc_from_src_id_fid.
