(* EGraph/AnalysisModelReach.v — the datum of every live class of a REACHABLE state of ModelA is the fold of
   merge over make of its stored e-nodes, with a CONCRETE invariant:

     JJ s := stab s /\ dok s /\ upperv [] s /\ S0 s /\ lh s
       stab, dok     AnalysisModelBase.v      upperv   AnalysisModelInv.v (justification, with virtual nodes)
       S0            AnalysisModelInv.v: the structural invariant Sx (fun _ => False) (checker s0b, validated at
                     every loop head and after every operation of the histories: AnalysisModelInvEval.v)
       lh            AnalysisModelReachA.v: s is a reachable head of the pending loop

   What is proved here: for every state reachable from the empty e-graph by NODE insertions (eg_add, the
   implementation's `add`; add_expr is a sequence of them) and unions,

     reachN s -> In c (ids s) -> analysis_data s c = Ok d -> stored nodes of c = sh0 :: rest ->
       exists v0 vs, make s sh0 = v0 /\ mapr (make s) rest = vs /\ d = fold_left merge vs v0

   for every analysis satisfying the hypotheses of AnalysisModelFacts.v plus `lab_nvar`, in particular
   min-size and depth (minsize_data_is_fixpoint_reachable, depth_data_is_fixpoint_reachable).

   REMAINING PREMISES (structural, not about the analysis):
   (1) `node_ok s n` at every insertion (part of reachN): the miss branch of add_internal does not overwrite a
       hashcons entry (keeps_hc).  It is NOT a theorem of the model: EGraph/HashconsAbs.v
       absent_needs_covers / absent_needs_old_slots are reachable states and nodes (a child invocation that
       does not cover its class; a user slot named like a fresh slot still to be drawn) for which the weak
       shape of the fresh syntactic node IS already hash-consed.
   (2) `H_key`: at the hash-cons hit of handle_pending, the shape of the syntactic node of the source class
       (what handle_congruence looks up) is the shape of the node being re-inserted (what the lookup found).
       This is the key invariant of EGraph/KeyInv.v (for Model.v); it is stated over reachable loop heads
       (`lh`) with the exact run of handle_pending up to that point as premises. *)
From SE Require Import EGraph.ModelA EGraph.AnalysisFix EGraph.AnalysisModelBase EGraph.AnalysisModelStab
  EGraph.AnalysisModelUF EGraph.AnalysisModelAbs EGraph.AnalysisModelFrames EGraph.AnalysisModelTop EGraph.AnalysisModelFacts
  EGraph.AnalysisModelInv EGraph.AnalysisModelUpper EGraph.AnalysisModelReachA EGraph.ModelAMachine EGraph.AnalysisModelInst.
From Coq Require Import Lia Arith Bool List NArith.
Import ListNotations.

(* ---------------- ids = the leaders ---------------- *)
Lemma ids_root : forall Data (s : egraph Data) c, In c (ids Data s) <-> is_root (unionfind Data s) c.
Proof.
  intros Data s c. unfold ids, is_root.
  set (go := fix go (l : list appid) (i : N) {struct l} : list N :=
               match l with [] => [] | e :: t => if aid e =? i then i :: go t (i + 1)%N else go t (i + 1)%N end).
  assert (G : forall l k, In c (go l k) <-> exists e, nth_opt l (N.to_nat (c - k)) = Some e /\ aid e = c /\ (k <= c)%N).
  { induction l as [|e t IH]; intro k.
    - cbn [go In]. split. intros []. intros [e [H _]]. discriminate.
    - assert (Hgo : go (e :: t) k = if aid e =? k then k :: go t (k + 1)%N else go t (k + 1)%N) by reflexivity.
      rewrite Hgo. split.
      + intro Hin. assert (Hc : (c = k /\ aid e = k) \/ In c (go t (k + 1)%N)).
        { destruct (aid e =? k) eqn:E. destruct Hin as [<-|Hin]. left. split. reflexivity. apply N.eqb_eq. exact E. right. exact Hin. right. exact Hin. }
        destruct Hc as [[-> Ha]|Hin'].
        * exists e. rewrite N.sub_diag. split. reflexivity. split. exact Ha. lia.
        * apply IH in Hin'. destruct Hin' as [e' [Hn [Ha Hle]]]. exists e'.
          replace (N.to_nat (c - k)) with (S (N.to_nat (c - (k + 1)))) by lia. split. exact Hn. split. exact Ha. lia.
      + intros [e' [Hn [Ha Hle]]]. destruct (N.eq_dec c k) as [->|Hne].
        * rewrite N.sub_diag in Hn. cbn [N.to_nat nth_opt] in Hn. inversion Hn; subst e'. rewrite Ha. rewrite N.eqb_refl. left. reflexivity.
        * assert (Hin' : In c (go t (k + 1)%N)).
          { apply IH. exists e'. replace (N.to_nat (c - k)) with (S (N.to_nat (c - (k + 1)))) in Hn by lia. split. exact Hn. split. exact Ha. lia. }
          destruct (aid e =? k). right. exact Hin'. exact Hin'. }
  rewrite G. rewrite N.sub_0_r. split. intros [e [H1 [H2 _]]]. exists e. split; assumption.
  intros [e [H1 H2]]. exists e. split. exact H1. split. exact H2. lia.
Qed.

Lemma na_get_nodup_in : forall {V} (l : list (node * V)) k v, na_nodup l -> In (k, v) l -> na_get l k = Some v.
Proof.
  intros V l. unfold na_nodup. induction l as [|[k' v'] t IH]; intros k v Hnd Hin. destruct Hin.
  cbn [map fst] in Hnd. inversion Hnd as [|x r Hn Hd]; subst. cbn [na_get]. destruct Hin as [E|Hin].
  - inversion E; subst. rewrite node_eqb_refl. reflexivity.
  - destruct (node_eqb k k') eqn:E. apply node_eqb_true in E. subst k'. exfalso. apply Hn. apply in_map_iff. exists (k, v). split. reflexivity. exact Hin.
    apply IH; assumption.
Qed.

Section Final.
  Variable Data : Type.
  Variable data_eqb : Data -> Data -> bool.
  Variable make : (N -> res Data) -> node -> res Data.
  Variable merge : Data -> Data -> Data.
  Variable const_of : Data -> option N.
  Hypothesis merge_assoc : forall x y z, merge x (merge y z) = merge (merge x y) z.
  Hypothesis merge_comm : forall x y, merge x y = merge y x.
  Hypothesis merge_idem : forall x, merge x x = x.
  Hypothesis data_eqb_spec : forall x y, data_eqb x y = true <-> x = y.
  Variable L : Type.
  Variable lab : node -> L.
  Variable mk : L -> list Data -> Data.
  Hypothesis make_spec : forall get n, make get n = do ds <- mapr get (node_ids n); Ok (mk (lab n) ds).
  Hypothesis make_mono : forall l xs ys, Forall2 (AnalysisFix.le Data merge) xs ys -> AnalysisFix.le Data merge (mk l xs) (mk l ys).
  Hypothesis lab_nvar : forall n m, nvar n = nvar m -> lab n = lab m.
  Variable Dok : Data -> Prop.
  Hypothesis Dok_mk : forall l ds, Dok (mk l ds).
  Hypothesis Dok_merge : forall a b, Dok a -> Dok b -> Dok (merge a b).
  Hypothesis make_below_kids : forall l ds d, In d ds -> Dok d -> merge d (mk l ds) = d.

  Notation eg := (egraph Data).
  Notation lh := (lh Data data_eqb make merge).
  Notation node_ok := (node_ok Data make).
  Notation JJ := (JJ Data data_eqb make merge Dok).
  Notation rb := (rb0 Data data_eqb make merge 0%nat const_of).

  (* the key invariant at the hash-cons hit of handle_pending (see the header) *)
  Definition key_at_hit : Prop :=
    forall s sh rest i s1 c bij0 src_id nd p s2 sl enode i1 enode' i1' s3 t x pc t2,
    lh s -> pending Data s = (sh, true) :: rest -> AnalysisModelBase.stored Data s sh i ->
    update_analysis Data data_eqb make merge sh i (set_pending Data s rest) = Ok (tt, s1) ->
    get_class Data s1 i = Ok c -> na_get (c_nodes Data c) sh = Some (bij0, src_id) -> apply_slotmap false bij0 sh = Ok nd ->
    raw_remove_from_class Data i sh s1 = Ok (p, s2) ->
    class_slots Data s2 i = Ok sl -> find_enode Data s2 nd = Ok enode ->
    find_applied_id Data s2 {| aid := i; am := identity sl |} = Ok i1 ->
    hp_loop Data data_eqb merge 100 src_id enode i1 s2 = Ok ((enode', i1'), s3) ->
    shape Data s3 enode' = Ok t -> lookup_internal Data s3 t = Ok (Some x) -> pc_from_src_id Data s3 src_id = Ok pc ->
    shape Data s3 (fst pc) = Ok t2 -> fst t2 = fst t.
  Hypothesis H_key : key_at_hit.

  (* reachable by node insertions and unions *)
  Inductive reachN : eg -> Prop :=
  | rN_empty : reachN (empty_egraph Data)
  | rN_add : forall s n a s', reachN s -> node_ok s n -> eg_add Data make rb n s = Ok (a, s') -> reachN s'
  | rN_union : forall s l r b s', reachN s -> eg_union0 Data data_eqb make merge 0%nat const_of l r s = Ok (b, s') -> reachN s'.

  Let closed := JJ_closed Data data_eqb make merge merge_assoc merge_comm merge_idem data_eqb_spec L lab mk make_spec make_mono lab_nvar
                  Dok Dok_mk Dok_merge make_below_kids H_key.

  Theorem reachN_JJ : forall s, reachN s -> JJ s /\ pending Data s = [].
  Proof.
    destruct closed as [J0 [Jmq [Jhp [Jadd Junion]]]].
    intros s0 Hr. induction Hr as [|s n a s' _ [HJ Hp] Hok H|s l r b s' _ [HJ Hp] H].
    - split. exact J0. reflexivity.
    - unfold eg_add in H. apply (mbind_ok Data) in H. destruct H as [t [sx [H0 H]]]. apply (reads_ok Data) in H0. destruct H0 as [-> Hsh].
      unfold add_internal in H. apply (mbind_ok Data) in H. destruct H as [lk [sx [H0 H]]]. apply (reads_ok Data) in H0. destruct H0 as [-> Hlk].
      destruct lk as [x|].
      + apply (ret_ok Data) in H. destruct H as [-> _]. split; assumption.
      + apply (mbind_ok Data) in H. destruct H as [x1 [s1 [H1 H]]].
        apply (mbind_ok Data) in H. destruct H as [x2 [s2 [H2 H]]].
        apply (mbind_ok Data) in H. destruct H as [x3 [s3 [H3 H]]].
        apply (mbind_ok Data) in H. destruct H as [x4 [s4 [H4 H]]].
        destruct (mk_singleton_split Data make rb x3 s3 x4 s4 H4) as [s5 [H5 H6]].
        apply (reads_ok Data) in H. destruct H as [-> _].
        assert (Hpre : add_pre0 Data make t s = Ok (x4, s5)). { unfold add_pre0, mbind. rewrite H1, H2, H3. exact H5. }
        unfold rb0 in H6.
        apply (rebuild_J Data data_eqb make merge const_of JJ Jmq Jhp rebuild_depth s5 s4).
        eapply Jadd; eassumption. exact H6.
    - unfold eg_union0 in H. destruct (eg_union_split Data data_eqb merge _ l r s b s' H) as [s1 [H1 H2]].
      unfold rb0 in H2.
      apply (rebuild_J Data data_eqb make merge const_of JJ Jmq Jhp rebuild_depth s1 s').
      eapply Junion; eassumption. exact H2.
  Qed.

  Theorem modelA_data_is_fixpoint_reachN :
    forall s, reachN s ->
    forall c d, In c (ids Data s) -> analysis_data Data s c = Ok d ->
    forall sh0 rest, map fst (filter (fun e => snd e =? c) (hashcons Data s)) = sh0 :: rest ->
    exists v0 vs, make_in Data make s sh0 = Ok v0 /\ mapr (make_in Data make s) rest = Ok vs /\
                  d = fold_left merge vs v0.
  Proof.
    intros s Hr. destruct (reachN_JJ s Hr) as [[[Hst [Hd [Hup HS]]] _] Hp].
    assert (Hall : stable_all Data make merge s).
    { apply stab_pending_nil. apply stab_stabx. exact Hst. exact Hp. }
    apply (modelA_fixpoint_concrete Data make merge merge_assoc merge_comm merge_idem L lab mk make_spec make_mono s).
    - intros sh i Hs. split.
      + apply ids_root. assert (Hi := sx_hl Data _ s HS sh i Hs). change (fidl (unionfind Data s) i = Ok i) in Hi. eapply fidl_is_root. exact Hi.
      + intros k Hk. destruct (Hall sh i Hs) as [d0 [v [_ [Hv _]]]]. eapply (mk_in_kids_ok Data make L lab mk make_spec). exact Hv. exact Hk.
    - intros sh i Hin. apply na_get_nodup_in. apply (sx_nd Data _ s HS). exact Hin.
    - exact Hall.
    - intros c d Hc Hd0. apply jbv_nil_jb. apply Hup. 2: exact Hd0.
      apply ids_root in Hc. change (fidl (unionfind Data s) c = Ok c). apply fidl_root. exact Hc.
  Qed.
End Final.

Print Assumptions reachN_JJ.
Print Assumptions modelA_data_is_fixpoint_reachN.

(* ------------------------------------------------------------------ *)
(* the two instances: all hypotheses about the analysis are discharged *)
Definition minsize_data_is_fixpoint_reachable :=
  modelA_data_is_fixpoint_reachN N N.eqb make_minsize N.min (fun _ => None) Nmin_assoc' Nmin_comm' Nmin_idem' Neqb_spec'
    unit (fun _ => tt) mk_minsize minsize_make_spec minsize_mono (fun _ _ _ => eq_refl)
    (fun d => (d <= u64_max)%N) minsize_Dok_mk Dok_min minsize_below_kids.
Definition depth_data_is_fixpoint_reachable :=
  modelA_data_is_fixpoint_reachN N N.eqb make_depth N.min (fun _ => None) Nmin_assoc' Nmin_comm' Nmin_idem' Neqb_spec'
    unit (fun _ => tt) mk_depth depth_make_spec depth_mono (fun _ _ _ => eq_refl)
    (fun d => (d <= u64_max)%N) depth_Dok_mk Dok_min depth_below_kids.
Check minsize_data_is_fixpoint_reachable.
Check depth_data_is_fixpoint_reachable.
Print Assumptions minsize_data_is_fixpoint_reachable.
Print Assumptions depth_data_is_fixpoint_reachable.
