(* EGraph/AnalysisModelReachA.v — the concrete loop-head invariant
     Inv X V s := stabx X s /\ dok s /\ upperv V s /\ Sx X s       (J := Inv (fun _ => False) [])
   through the steps of ModelA: quiet frames (gfr), move_to, general unions, and one round of the pending
   loop (handle_pending), add_internal's miss branch, eg_union.  The structural facts about move_to and about
   the hashcons writers come from AnalysisModelMove.v / AnalysisModelStr.v.  ONE structural fact is a Section
   hypothesis: H_key (the key invariant at the hash-cons hit of handle_pending). *)
From SE Require Import EGraph.ModelA EGraph.AnalysisFix EGraph.AnalysisModelBase EGraph.AnalysisModelStab
  EGraph.AnalysisModelUF EGraph.AnalysisModelAbs EGraph.AnalysisModelFrames EGraph.AnalysisModelTop EGraph.AnalysisModelFacts
  EGraph.AnalysisModelInv EGraph.AnalysisModelUpper EGraph.AnalysisModelQuiet EGraph.AnalysisModelIds EGraph.AnalysisModelStr EGraph.AnalysisModelMove.
From Coq Require Import Lia Arith Bool List NArith.
Import ListNotations.

Section Asm.
  Variable Data : Type.
  Variable data_eqb : Data -> Data -> bool.
  Variable make : (N -> res Data) -> node -> res Data.
  Variable merge : Data -> Data -> Data.
  Hypothesis merge_assoc : forall x y z, merge x (merge y z) = merge (merge x y) z.
  Hypothesis merge_comm : forall x y, merge x y = merge y x.
  Hypothesis merge_idem : forall x, merge x x = x.
  Hypothesis data_eqb_spec : forall x y, data_eqb x y = true <-> x = y.
  Variable L : Type.
  Variable lab : node -> L.
  Variable mk : L -> list Data -> Data.
  Hypothesis make_spec : forall get n, make get n = do ds <- mapr get (node_ids n); Ok (mk (lab n) ds).
  Hypothesis make_mono : forall l xs ys, Forall2 (AnalysisFix.le Data merge) xs ys -> AnalysisFix.le Data merge (mk l xs) (mk l ys).
  Hypothesis lab_nvar : forall n m, nvar n = nvar m -> lab n = lab m.
  Variable Dok : Data -> Prop.
  Hypothesis Dok_mk : forall l ds, Dok (mk l ds).
  Hypothesis Dok_merge : forall a b, Dok a -> Dok b -> Dok (merge a b).
  Hypothesis make_below_kids : forall l ds d, In d ds -> Dok d -> merge d (mk l ds) = d.

  Notation eg := (egraph Data).
  Notation uf := (unionfind Data).
  Notation cls := (classes Data).
  Notation hc := (hashcons Data).
  Notation pend := (pending Data).
  Notation gclass := (get_class Data).
  Notation adata := (analysis_data Data).
  Notation mk_in := (make_in Data make).
  Notation mle := (AnalysisFix.le Data merge).
  Notation stored := (AnalysisModelBase.stored Data).
  Notation npend := (AnalysisModelBase.npend Data).
  Notation fid := (find_id Data).
  Notation stab := (AnalysisModelBase.stab Data make merge).
  Notation stabx := (AnalysisModelBase.stabx Data make merge).
  Notation stab_at := (AnalysisModelBase.stab_at Data make merge).
  Notation dok := (AnalysisModelBase.dok Data Dok).
  Notation upperv := (upperv Data make merge).
  Notation Sx := (Sx Data).
  Notation S0 := (S0 Data).
  Notation gfr := (gfr Data).
  Notation strfr := (strfr Data).
  Notation dfr := (dfr Data).
  Notation NoX := (fun _ : node => False).

  (* ---------------- structural facts (AnalysisModelStr.v, AnalysisModelMove.v) ---------------- *)
  Let H_mono := Sx_mono Data.
  Let H_strfr := Sx_strfr Data.
  Let H_pop := Sx_pop Data.
  Let H_kids_alive := Sx_kids_alive Data.
  Let H_pending_true := Sx_pending_true Data.
  Let H_set_mq := Sx_set_mq Data.
  Let H_update_strfr := update_analysis_strfr Data data_eqb make merge.
  Let H_remove := raw_remove_Sx Data.
  Let H_add := raw_add_Sx Data.
  Let H_alloc := alloc_Sx Data make.
  Let H_move := move_to_S0_full Data data_eqb merge.

  Let U_same := upperv_same Data make merge merge_assoc merge_idem L lab mk make_spec make_mono.
  Let U_remove := upperv_remove Data make merge merge_assoc merge_idem L lab mk make_spec make_mono.
  Let U_unvirt := upperv_unvirt Data make merge merge_assoc merge_idem.
  Let U_update := upperv_update Data make merge merge_assoc merge_idem L lab mk make_spec make_mono.
  Let U_link := upperv_link Data make merge merge_assoc merge_comm merge_idem L lab mk make_spec make_mono.
  Let U_new := upperv_new Data make merge merge_assoc merge_idem L lab mk make_spec make_mono.
  Let UA_eff := update_analysis_eff Data data_eqb make merge merge_assoc merge_idem data_eqb_spec L lab mk make_spec Dok make_below_kids.

  (* ---------------- the invariant ---------------- *)
  Definition Inv (X : node -> Prop) (V : list (node * N)) (s : eg) : Prop :=
    stabx X s /\ dok s /\ upperv V s /\ Sx X s.

  Lemma dok_dfr : forall s s', dok s -> map (c_data Data) (cls s') = map (c_data Data) (cls s) -> dok s'.
  Proof.
    intros s s' Hd E c Hc. assert (Hin : In (c_data Data c) (map (c_data Data) (cls s'))) by (apply in_map; exact Hc).
    rewrite E in Hin. apply in_map_iff in Hin. destruct Hin as [c0 [E0 Hc0]]. rewrite <- E0. apply Hd. exact Hc0.
  Qed.

  Lemma gfr_dfr : forall s s', gfr s s' -> dfr s s'.
  Proof. intros s s' G. apply (gfr_qfr Data) in G. apply G. Qed.

  Lemma upperv_dfr : forall V s s', upperv V s -> dfr s s' -> hc s' = hc s -> upperv V s'.
  Proof.
    intros V s s' Hup D Hh. apply (U_same V s s' Hup).
    - intro j. apply find_id_dfr. apply D.
    - apply dfr_dsame. exact D.
    - intros sh c H. unfold AnalysisModelBase.stored in *. rewrite Hh. exact H.
  Qed.

  Lemma Inv_gfr : forall X V s s', Inv X V s -> gfr s s' -> Inv X V s'.
  Proof.
    intros X V s s' [Hst [Hd [Hup HS]]] G. split; [|split; [|split]].
    - eapply (stabx_fr Data make merge L lab mk make_spec). exact Hst. apply qfr_fr. apply gfr_qfr. exact G.
    - eapply dok_dfr. exact Hd. apply G.
    - eapply upperv_dfr. exact Hup. apply gfr_dfr. exact G. apply G.
    - eapply H_strfr. exact HS. apply G.
  Qed.

  Lemma ucov_of_Sx : forall X s i, Sx X s -> ucov_at Data X s i.
  Proof.
    intros X s i HS sh2 i2 c Hs Hn HX [k [Hk Hf]] Hc.
    assert (Hkk : fid s k = Ok k).
    { apply (sx_kl Data X s HS sh2 i2 Hs). unfold AnalysisModelBase.npend in Hn. rewrite Hn. discriminate. exact HX. exact Hk. }
    rewrite Hkk in Hf. inversion Hf; subst k.
    destruct (sx_ua Data X s HS sh2 i2 Hs i Hk) as [c' [Hc' Hin]]. rewrite Hc in Hc'. inversion Hc'; subst c'. exact Hin.
  Qed.

  Lemma stab_of : forall s, stabx NoX s -> stab s.
  Proof. intros s H. apply stab_stabx. exact H. Qed.
  Lemma stabx_of : forall s, stab s -> stabx NoX s.
  Proof. intros s H. apply stab_stabx. exact H. Qed.

  (* ---------------- find along the steps ---------------- *)
  Definition same_cls (s : eg) (k k' : N) : Prop := exists r, fid s k = Ok r /\ fid s k' = Ok r.

  Lemma mk_in_same_cls : forall s sh sh', nvar sh' = nvar sh ->
    Forall2 (same_cls s) (node_ids sh) (node_ids sh') -> mk_in s sh' = mk_in s sh.
  Proof.
    intros s sh sh' Hn HF. unfold make_in. rewrite !make_spec. rewrite (lab_nvar sh' sh Hn).
    rewrite (mapr_rel Data (adata s) (node_ids sh) (node_ids sh')). reflexivity.
    induction HF as [|k k' t t' [r [Hk Hk']] HF IH]. constructor. constructor. 2: exact IH.
    rewrite (adata_via Data s k r Hk). rewrite (adata_via Data s k' r Hk'). reflexivity.
  Qed.

  Lemma Forall2_same_cls_map : forall s s' l l',
    (forall k k', same_cls s k k' -> same_cls s' k k') -> Forall2 (same_cls s) l l' -> Forall2 (same_cls s') l l'.
  Proof. intros s s' l l' H HF. induction HF as [|k k' t t' Hk HF IH]; constructor. apply H. exact Hk. exact IH. Qed.

  Lemma same_cls_fmap : forall s s', fmap Data s s' -> forall k k', same_cls s k k' -> same_cls s' k k'.
  Proof.
    intros s s' F k k' [r [Hk Hk']]. destruct (F k r Hk) as [r1 [H1 H1r]]. destruct (F k' r Hk') as [r2 [H2 H2r]].
    rewrite H1r in H2r. inversion H2r; subst r2. exists r1. split; assumption.
  Qed.

  Lemma fmap_fid_same : forall s s', (forall j, fid s' j = fid s j) -> fmap Data s s'.
  Proof.
    intros s s' H j r Hr. exists r. split. rewrite H. exact Hr. rewrite H. eapply (fid_root_of Data). exact Hr.
  Qed.

  Lemma fmap_move : forall s s' from to, fid s to = Ok to -> from <> to ->
    (forall j r, fid s j = Ok r -> fid s' j = Ok (if r =? from then to else r)) -> fmap Data s s'.
  Proof.
    intros s s' from to Hto Hne H j r Hr. exists (if r =? from then to else r). split. apply H. exact Hr.
    apply H. eapply (fid_root_of Data). exact Hr.
  Qed.

  (* ---------------- move_to ---------------- *)
  Theorem Inv_move : forall V from to s s', Inv NoX V s ->
    fid s (aid from) = Ok (aid from) -> fid s (aid to) = Ok (aid to) -> aid from <> aid to ->
    move_to Data data_eqb merge from to s = Ok (tt, s') ->
    Inv NoX V s' /\
    (forall sh c, stored s sh c -> stored s' sh (if c =? aid from then aid to else c)) /\
    (forall j r, fid s j = Ok r -> fid s' j = Ok (if r =? aid from then aid to else r)).
  Proof.
    intros V from to s s' [Hst [Hd [Hup HS]]] Hrf Hrt Hne H.
    assert (Hst' := stab_of s Hst).
    assert (Hcov_t := ucov_of_Sx NoX s (aid to) HS). assert (Hcov_f := ucov_of_Sx NoX s (aid from) HS).
    destruct (move_to_stab Data data_eqb make merge merge_assoc merge_comm merge_idem data_eqb_spec L lab mk make_spec Dok Dok_merge
                from to s s' Hst' Hd (sx_nd Data NoX s HS) Hrf Hrt Hne Hcov_t Hcov_f H) as [A [B _]].
    destruct (H_move from to s s' HS Hrf Hrt Hne H) as [HS' [Hsto [Hfm Hroots]]].
    split; [|split; [exact Hsto|exact Hfm]].
    split; [apply stabx_of; exact A|split; [exact B|split; [|exact HS']]].
    (* upperv *)
    destruct (move_to_split Data data_eqb merge from to s s' H) as [a_from [to_id [a_to [s1 [s2 [s3 [Haf [Hto [Hat [H1 [H2 [H3 Htail]]]]]]]]]]]].
    rewrite Hrt in Hto. inversion Hto; subst to_id. clear Hto.
    destruct (move_head_stab Data data_eqb make merge merge_assoc merge_comm merge_idem data_eqb_spec L lab mk make_spec
                Dok Dok_merge (link_spec_holds Data) s s1 s2 s3 (aid from) (aid to) a_from a_to _
                Hst' Hd Hrf Hrt Hne Haf Hat Hcov_t H1 H2 H3) as [_ [_ [HC3 [_ [Hf3 HG3]]]]].
    assert (Hnd3 : na_nodup (hc s3)). { rewrite HC3. exact (sx_nd Data NoX s HS). }
    destruct (Htail Hnd3) as [Hdfr _].
    assert (Hds := dfr_dsame Data s3 s' Hdfr).
    destruct (adata_root_class Data s (aid to) a_to Hrt Hat) as [ct [Hct _]].
    apply (U_link V s s' (aid from) (aid to) a_from a_to Hup Hrf Hrt Hne Haf Hat Hfm).
    - intros c Hc. exists c. apply (Hroots c Hc).
    - intros j r Hr. rewrite Hds. unfold analysis_data at 1. rewrite (Hf3 j r Hr). cbn [bind].
      destruct (r =? aid from) eqn:E1.
      + cbn [orb]. rewrite HG3. rewrite N.eqb_refl. rewrite Hct. reflexivity.
      + destruct (r =? aid to) eqn:E2.
        * cbn [orb]. apply N.eqb_eq in E2. subst r. rewrite HG3. rewrite N.eqb_refl. rewrite Hct. reflexivity.
        * cbn [orb]. rewrite HG3. rewrite E2. unfold analysis_data. rewrite Hr. reflexivity.
    - exact Hsto.
  Qed.

  (* ---------------- a general union ---------------- *)
  Theorem Inv_ui : forall V f l r s b s', Inv NoX V s ->
    union_internal Data data_eqb merge f l r s = Ok (b, s') ->
    Inv NoX V s' /\ fmap Data s s' /\
    (forall sh c, stored s sh c -> exists c', stored s' sh c' /\ fid s' c = Ok c') /\
    (exists m, fid s' (aid l) = Ok m /\ fid s' (aid r) = Ok m).
  Proof.
    intros V f l r s b s' HI H.
    destruct (ui_shape Data data_eqb merge f l r s b s' H) as [s1 [rl [rr [G [Hl [Hr Hcase]]]]]].
    assert (HI1 := Inv_gfr NoX V s s1 HI G).
    assert (Hf1 : forall j, fid s1 j = fid s j) by (apply gfr_fid; exact G).
    assert (Hh1 : hc s1 = hc s) by (apply G).
    destruct Hcase as [[-> ->]|[Hne [from [to [Hft Hmv]]]]].
    - split. exact HI1. split. apply fmap_fid_same. exact Hf1. split.
      + intros sh c Hs. exists c. split. unfold AnalysisModelBase.stored in *. rewrite Hh1. exact Hs.
        rewrite Hf1. destruct HI as [_ [_ [_ HS]]]. apply (sx_hl Data NoX s HS sh c Hs).
      + exists rr. rewrite !Hf1. split; assumption.
    - assert (Hrl : fid s1 rl = Ok rl). { rewrite Hf1. eapply (fid_root_of Data). exact Hl. }
      assert (Hrr : fid s1 rr = Ok rr). { rewrite Hf1. eapply (fid_root_of Data). exact Hr. }
      assert (Hroots : fid s1 (aid from) = Ok (aid from) /\ fid s1 (aid to) = Ok (aid to) /\ aid from <> aid to).
      { destruct Hft as [[-> ->]|[-> ->]]. split. exact Hrl. split. exact Hrr. exact Hne.
        split. exact Hrr. split. exact Hrl. intro E. apply Hne. symmetry. exact E. }
      destruct Hroots as [Hrf [Hrt Hne']].
      destruct (Inv_move V from to s1 s' HI1 Hrf Hrt Hne' Hmv) as [HI' [Hsto Hfm]].
      assert (F1 : fmap Data s1 s'). { eapply fmap_move. exact Hrt. exact Hne'. exact Hfm. }
      split. exact HI'. split.
      + intros j r0 Hr0. apply F1. rewrite Hf1. exact Hr0.
      + split.
        * intros sh c Hs. assert (Hs1 : stored s1 sh c). { unfold AnalysisModelBase.stored in *. rewrite Hh1. exact Hs. }
          exists (if c =? aid from then aid to else c). split. apply Hsto. exact Hs1.
          apply Hfm. destruct HI1 as [_ [_ [_ HS1]]]. apply (sx_hl Data NoX s1 HS1 sh c Hs1).
        * exists (aid to). rewrite <- Hf1 in Hl, Hr. rewrite (Hfm _ _ Hl), (Hfm _ _ Hr).
          destruct Hft as [[E1 E2]|[E1 E2]]; rewrite <- E1, <- E2.
          -- rewrite N.eqb_refl. destruct (aid to =? aid from) eqn:E. apply N.eqb_eq in E. symmetry in E. contradiction. split; reflexivity.
          -- rewrite N.eqb_refl. destruct (aid to =? aid from) eqn:E. apply N.eqb_eq in E. symmetry in E. contradiction. split; reflexivity.
  Qed.


  (* ---------------- reachable loop heads ---------------- *)
  Notation hp := (handle_pending Data data_eqb make merge).
  Notation add_pre := (add_pre0 Data make).
  Notation union_pre := (eg_union Data data_eqb merge (ret Data tt)).

  Definition node_ok (s : eg) (n : node) : Prop :=
    forall t a s1, shape Data s n = Ok t -> lookup_internal Data s t = Ok None -> add_pre t s = Ok (a, s1) -> keeps_hc Data s s1.

  Inductive lh : eg -> Prop :=
  | lh_empty : lh (empty_egraph Data)
  | lh_mq : forall s q, lh s -> lh (set_mq Data s q)
  | lh_hp : forall s sh ty rest s1, lh s -> pend s = (sh, ty) :: rest -> hp sh ty (set_pending Data s rest) = Ok (tt, s1) -> lh s1
  | lh_add : forall s n t a s1, lh s -> pend s = [] -> node_ok s n -> shape Data s n = Ok t -> lookup_internal Data s t = Ok None ->
      add_pre t s = Ok (a, s1) -> lh s1
  | lh_union : forall s l r b s1, lh s -> pend s = [] -> union_pre l r s = Ok (b, s1) -> lh s1.

  (* the KEY fact of the hash-cons hit in handle_pending: the class that handle_congruence unites with is the
     class in which the lookup found the node (the shape of the syntactic node of the source class is the
     shape of the node being re-inserted) *)
  Hypothesis H_key : forall s sh rest i s1 c bij0 src_id nd p s2 sl enode i1 enode' i1' s3 t x pc t2,
    lh s -> pend s = (sh, true) :: rest -> stored s sh i ->
    update_analysis Data data_eqb make merge sh i (set_pending Data s rest) = Ok (tt, s1) ->
    gclass s1 i = Ok c -> na_get (c_nodes Data c) sh = Some (bij0, src_id) -> apply_slotmap false bij0 sh = Ok nd ->
    raw_remove_from_class Data i sh s1 = Ok (p, s2) ->
    class_slots Data s2 i = Ok sl -> find_enode Data s2 nd = Ok enode ->
    find_applied_id Data s2 {| aid := i; am := identity sl |} = Ok i1 ->
    hp_loop Data data_eqb merge 100 src_id enode i1 s2 = Ok ((enode', i1'), s3) ->
    shape Data s3 enode' = Ok t -> lookup_internal Data s3 t = Ok (Some x) -> pc_from_src_id Data s3 src_id = Ok pc ->
    shape Data s3 (fst pc) = Ok t2 -> fst t2 = fst t.

  (* ---------------- lists ---------------- *)
  Lemma F2_comp : forall {A} (R1 R2 R3 : A -> A -> Prop) l1 l2 l3,
    (forall a b c, R1 a b -> R2 b c -> R3 a c) -> Forall2 R1 l1 l2 -> Forall2 R2 l2 l3 -> Forall2 R3 l1 l3.
  Proof.
    intros A R1 R2 R3 l1 l2 l3 H H1. revert l3. induction H1 as [|a b t t' Hab H1 IH]; intros l3 H2; inversion H2; subst; constructor.
    eapply H; eassumption. apply IH. assumption.
  Qed.
  Lemma F2_in_r : forall {A} (R : A -> A -> Prop) l l' y, Forall2 R l l' -> In y l' -> exists x, R x y.
  Proof.
    intros A R l l' y H. induction H as [|a b t t' Hab H IH]; intros Hin. destruct Hin.
    destruct Hin as [<-|Hin]. exists a. exact Hab. apply IH. exact Hin.
  Qed.
  Lemma F2_imp : forall {A} (R R' : A -> A -> Prop) l l', (forall a b, R a b -> R' a b) -> Forall2 R l l' -> Forall2 R' l l'.
  Proof. intros A R R' l l' H HF. induction HF; constructor; auto. Qed.

  Lemma lookup_none : forall s t, lookup_internal Data s t = Ok None -> na_get (hc s) (fst t) = None.
  Proof.
    intros s [sh b] H. unfold lookup_internal in H. cbn [fst]. destruct (na_get (hc s) sh) as [i|]. 2: reflexivity.
    destruct (gclass s i) as [c|e]; cbn [bind] in H. 2: discriminate.
    destruct (na_get (c_nodes Data c) sh) as [[cb x]|]; discriminate.
  Qed.
  Lemma lookup_some : forall s t x, lookup_internal Data s t = Ok (Some x) -> exists j, na_get (hc s) (fst t) = Some j.
  Proof.
    intros s [sh b] x H. unfold lookup_internal in H. cbn [fst]. destruct (na_get (hc s) sh) as [i|]. exists i. reflexivity. discriminate.
  Qed.

  Lemma pc_from_shape_inv : forall s sh pc, pc_from_shape Data s sh = Ok pc ->
    exists j c bij src, na_get (hc s) sh = Some j /\ gclass s j = Ok c /\ na_get (c_nodes Data c) sh = Some (bij, src) /\
                        pc_from_src_id Data s src = Ok pc.
  Proof.
    intros s sh pc H. unfold pc_from_shape in H. destruct (na_get (hc s) sh) as [j|] eqn:Ej. 2: discriminate.
    destruct (gclass s j) as [c|e] eqn:Ec; cbn [bind] in H. 2: discriminate.
    destruct (na_get (c_nodes Data c) sh) as [[bij src]|] eqn:En. 2: discriminate.
    exists j, c, bij, src. repeat split; assumption.
  Qed.

  Tactic Notation "bnd" hyp(H) ident(x) ident(s1) ident(H1) := apply (mbind_ok Data) in H; destruct H as [x [s1 [H1 H]]].

  (* ---------------- one round of the pending loop ---------------- *)
  Theorem hp_round : forall sh ty rest s s', lh s -> Inv NoX [] s -> pend s = (sh, ty) :: rest ->
    hp sh ty (set_pending Data s rest) = Ok (tt, s') -> Inv NoX [] s'.
  Proof.
    intros sh ty rest s s' Hlh [Hst [Hd [Hup HS]]] Hp H.
    remember (set_pending Data s rest) as s0 eqn:Es0.
    assert (Hu0 : uf s0 = uf s) by (subst s0; reflexivity).
    assert (Hc0 : cls s0 = cls s) by (subst s0; reflexivity).
    assert (Hh0 : hc s0 = hc s) by (subst s0; reflexivity).
    assert (Hp0 : pend s0 = rest) by (subst s0; reflexivity).
    assert (Hf0 : forall j, fid s0 j = fid s j) by (intro j; apply (fid_uf Data); exact Hu0).
    assert (Ha0 : forall j, adata s0 j = adata s j) by (intro j; apply (adata_eq Data); assumption).
    assert (Hst0 : stabx (eq sh) s0).
    { intros x i Hs Hn HX. assert (Hne : x <> sh) by (intro E; apply HX; symmetry; exact E).
      assert (A : stab_at s x i).
      { apply Hst. unfold AnalysisModelBase.stored in *. rewrite <- Hh0. exact Hs.
        unfold AnalysisModelBase.npend in *. rewrite Hp. cbn [na_get]. rewrite (node_eqb_false _ _ Hne). rewrite <- Hp0. exact Hn.
        intro F. exact F. }
      destruct A as [d [v [A1 [A2 A3]]]]. exists d, v. split. rewrite Ha0. exact A1. split. 2: exact A3.
      rewrite <- A2. apply (mk_in_ext Data make L lab mk make_spec). intros k _. apply Ha0. }
    assert (Hd0 : dok s0). { intros c Hc. apply Hd. rewrite <- Hc0. exact Hc. }
    assert (Hup0 : upperv [] s0).
    { apply (U_same [] s s0 Hup). exact Hf0. exact Ha0. intros x c Hx. unfold AnalysisModelBase.stored in *. rewrite Hh0. exact Hx. }
    assert (HS0 : Sx (eq sh) s0). { subst s0. eapply H_pop. exact HS. exact Hp. }
    unfold handle_pending in H.
    bnd H i s0' Hi. apply (reads_ok Data) in Hi. destruct Hi as [-> Hi].
    assert (Hsto : stored s0 sh i). { unfold AnalysisModelBase.stored. destruct (na_get (hc s0) sh) as [i'|]; inversion Hi. reflexivity. }
    bnd H u1 s1 H1. destruct u1.
    assert (Hroot : fid s0 i = Ok i) by (apply (sx_hl Data _ s0 HS0 sh i Hsto)).
    destruct (update_analysis_stab Data data_eqb make merge merge_assoc merge_comm merge_idem data_eqb_spec L lab mk make_spec
                Dok Dok_mk Dok_merge make_below_kids sh i s0 s1 Hst0 Hd0 Hsto Hroot (ucov_of_Sx (eq sh) s0 i HS0) H1)
      as [Hst1 [Hd1 [Hu1 [Hh1 Hnp1]]]].
    destruct (UA_eff sh i s0 s1 Hd0 Hroot H1) as [v [c [Hv [Hc [_ [_ [Ha1 Hat1]]]]]]].
    assert (Hup1 : upperv [] s1) by (apply (U_update [] sh i s0 s1 v c Hup0 Hsto Hroot Hv Hc Hu1 Hh1 Ha1)).
    assert (HS1 : Sx (eq sh) s1). { eapply H_strfr. exact HS0. eapply H_update_strfr. exact H1. }
    assert (Hf1 : forall j, fid s1 j = fid s0 j) by (intro j; apply (fid_uf Data); exact Hu1).
    destruct ty; cbn [negb] in H.
    2: { (* OnlyAnalysis *)
      apply (ret_ok Data) in H. destruct H as [-> _].
      split. apply stabx_of. exact Hst1. split. exact Hd1. split. exact Hup1.
      apply (H_kids_alive NoX sh s1). eapply H_mono. 2: exact HS1. intros x E. right. exact E.
      intros i0 Hs0 k Hk. rewrite Hf1, Hf0. apply (sx_kl Data NoX s HS sh i0).
      - unfold AnalysisModelBase.stored in *. rewrite <- Hh0, <- Hh1. exact Hs0.
      - rewrite Hp. cbn [na_get]. rewrite node_eqb_refl. discriminate.
      - intro F. exact F.
      - exact Hk. }
    (* Full *)
    bnd H c1 s1' Hc1. apply (reads_ok Data) in Hc1. destruct Hc1 as [-> Hc1].
    bnd H psn s1' Hpsn. apply (lift_ok Data) in Hpsn. destruct Hpsn as [-> Hpsn].
    assert (Hent : na_get (c_nodes Data c1) sh = Some psn). { destruct (na_get (c_nodes Data c1) sh) as [q|]; inversion Hpsn. reflexivity. }
    destruct psn as [bij0 src_id]. cbv iota beta in H.
    bnd H nd s1' Hnd. apply (lift_ok Data) in Hnd. destruct Hnd as [-> Hnd].
    bnd H p s2 H2.
    bnd H sl s2' Hsl. apply (reads_ok Data) in Hsl. destruct Hsl as [-> Hsl].
    bnd H enode s2' Hen. apply (reads_ok Data) in Hen. destruct Hen as [-> Hen].
    bnd H i1 s2' Hi1. apply (reads_ok Data) in Hi1. destruct Hi1 as [-> Hi1].
    bnd H ei s3 H3. destruct ei as [enode' i1']. cbv iota beta in H.
    bnd H t s3' Ht. apply (reads_ok Data) in Ht. destruct Ht as [-> Ht].
    bnd H lk s3' Hlk. apply (reads_ok Data) in Hlk. destruct Hlk as [-> Hlk].
    assert (Hsto1 : stored s1 sh i). { unfold AnalysisModelBase.stored in *. rewrite Hh1. exact Hsto. }
    assert (Hroot1 : fid s1 i = Ok i) by (rewrite Hf1; exact Hroot).
    assert (Hsrc1 : fid s1 src_id = Ok i). { apply (sx_so Data _ s1 HS1 i c1 sh bij0 src_id Hc1). apply na_get_in. exact Hent. }
    (* the node leaves its class *)
    destruct (H_remove (eq sh) i sh s1 p s2 HS1 Hsto1 H2) as [HS2x [Hh2 [Hno2 [D2 [Hp2 _]]]]].
    assert (HS2 : S0 s2).
    { apply (H_kids_alive NoX sh s2). eapply H_mono. 2: exact HS2x. intros x E. right. exact E.
      intros i0 Hs0. unfold AnalysisModelBase.stored in Hs0. rewrite Hno2 in Hs0. discriminate. }
    assert (Hf2 : forall j, fid s2 j = fid s1 j) by (intro j; apply find_id_dfr; apply D2).
    assert (Ha2 : forall j, adata s2 j = adata s1 j) by (apply dfr_dsame; exact D2).
    assert (HI2 : Inv NoX [(sh, i)] s2).
    { split; [|split; [|split]].
      - apply stabx_of. destruct (raw_remove_from_class_fr Data i sh s1 p s2 H2 (sx_nd Data _ s1 HS1)) as [_ [_ [_ [_ F]]]].
        eapply (stab_fr Data make merge L lab mk make_spec). exact Hst1. exact F.
      - eapply dok_dfr. exact Hd1. apply D2.
      - apply (U_remove [] s1 s2 sh i Hup1 Hroot1 Hsto1 Hf2 Ha2).
        intros x c0 Hx Hne. unfold AnalysisModelBase.stored in *. rewrite Hh2. rewrite na_get_remove_other. exact Hx. exact Hne.
      - exact HS2. }
    (* the shrink loop *)
    assert (Hroot2 : fid s2 i = Ok i) by (rewrite Hf2; exact Hroot1).
    set (P := fun (en : node) (a : appid) => aid a = i /\ nvar en = nvar sh /\
                Forall2 (fun k k' => fid s2 k = Ok k') (node_ids sh) (node_ids en)).
    assert (HP0 : P enode i1).
    { destruct (apply_slotmap_ids bij0 sh nd Hnd) as [N1 I1]. destruct (find_enode_ids Data s2 nd enode Hen) as [N2 I2].
      split. apply (find_applied_id_fid Data) in Hi1. cbn [aid] in Hi1. rewrite Hroot2 in Hi1. inversion Hi1. reflexivity.
      split. congruence. rewrite <- I1. exact I2. }
    assert (HPstep : forall s00 en a en' a', gfr s2 s00 -> P en a -> find_enode Data s00 en = Ok en' -> find_applied_id Data s00 a = Ok a' -> P en' a').
    { intros s00 en a en' a' G [Q1 [Q2 Q3]] Qe Qa.
      assert (Hf00 : forall j, fid s00 j = fid s2 j) by (apply gfr_fid; exact G).
      destruct (find_enode_ids Data s00 en en' Qe) as [N2 I2].
      split. apply (find_applied_id_fid Data) in Qa. rewrite Q1, Hf00, Hroot2 in Qa. inversion Qa. reflexivity.
      split. congruence.
      eapply (F2_comp _ (fun k k' => fid s00 k = Ok k')). 2: exact Q3. 2: exact I2.
      intros a0 b0 c0 R1 R2. cbv beta in *. rewrite Hf00 in R2. rewrite (fid_root_of Data s2 a0 b0 R1) in R2. inversion R2; subst c0. exact R1. }
    destruct (hp_loop_inv Data data_eqb merge P 100 src_id s2 enode i1 enode' i1' s3 HPstep HP0 H3) as [G3 [Q1 [Q2 Q3]]].
    assert (HI3 := Inv_gfr NoX _ s2 s3 HI2 G3).
    assert (Hf3 : forall j, fid s3 j = fid s2 j) by (apply gfr_fid; exact G3).
    assert (Hh3 : hc s3 = hc s2) by (apply G3).
    destruct t as [sh' bij]. destruct (shape_ids Data s3 enode' sh' bij Ht) as [N3 I3].
    assert (Hn' : nvar sh' = nvar sh) by congruence.
    assert (Hids : Forall2 (fun k k' => fid s3 k = Ok k') (node_ids sh) (node_ids sh')).
    { eapply (F2_comp _ (fun k k' => fid s3 k = Ok k')). 2: exact Q3. 2: exact I3.
      intros a0 b0 c0 R1 R2. cbv beta in *. rewrite Hf3 in R2. rewrite (fid_root_of Data s2 a0 b0 R1) in R2. inversion R2; subst c0. rewrite Hf3. exact R1. }
    assert (Hroot3 : fid s3 i = Ok i) by (rewrite Hf3; exact Hroot2).
    assert (Hsrc3 : fid s3 src_id = Ok i) by (rewrite Hf3, Hf2; exact Hsrc1).
    destruct lk as [x|].
    - (* hash-cons hit: congruence *)
      bnd H pc s3' Hpc. apply (reads_ok Data) in Hpc. destruct Hpc as [-> Hpc].
      destruct (handle_congruence_split Data data_eqb merge pc s3 s' H) as [t2 [pc2 [a [b [s3a [bb [Ht2 [Hpc2 [G3a [Ea [Eb Hu]]]]]]]]]]].
      assert (Hkey : fst t2 = sh').
      { subst s0. apply (H_key s sh rest i s1 c1 bij0 src_id nd p s2 sl enode i1 enode' i1' s3 (sh', bij) x pc t2); assumption. }
      rewrite Hkey in Hpc2.
      destruct (pc_from_shape_inv s3 sh' pc2 Hpc2) as [j [cj [bj [src2 [Hj [Hcj [Hej Hpc2']]]]]]].
      destruct HI3 as [Hst3 [Hd3 [Hup3 HS3]]].
      assert (Hsrc2 : fid s3 src2 = Ok j). { apply (sx_so Data _ s3 HS3 j cj sh' bj src2 Hcj). apply na_get_in. exact Hej. }
      assert (Eaa : aid a = i). { rewrite Ea. apply (pc_from_src_id_fid Data) in Hpc. rewrite Hsrc3 in Hpc. inversion Hpc. reflexivity. }
      assert (Ebb : aid b = j). { rewrite Eb. apply (pc_from_src_id_fid Data) in Hpc2'. rewrite Hsrc2 in Hpc2'. inversion Hpc2'. reflexivity. }
      assert (HI3a := Inv_gfr NoX _ s3 s3a (conj Hst3 (conj Hd3 (conj Hup3 HS3))) G3a).
      assert (Hf3a : forall j0, fid s3a j0 = fid s3 j0) by (apply gfr_fid; exact G3a).
      unfold uint in Hu.
      destruct (Inv_ui [(sh, i)] ui_fuel a b s3a bb s' HI3a Hu) as [[Hst' [Hd' [Hup' HS']]] [F' [Hsto' [m [Hm1 Hm2]]]]].
      assert (Hj3a : stored s3a sh' j). { unfold AnalysisModelBase.stored. replace (hc s3a) with (hc s3) by (symmetry; apply G3a). exact Hj. }
      destruct (Hsto' sh' j Hj3a) as [c' [Hs' Hjc']].
      rewrite Eaa in Hm1. rewrite Ebb in Hm2. rewrite Hjc' in Hm2. inversion Hm2; subst m.
      split. exact Hst'. split. exact Hd'. split. 2: exact HS'.
      apply (U_unvirt [] s' sh i sh' c' Hup' Hm1 Hs').
      intros v0 Hv0. rewrite <- Hv0. apply mk_in_same_cls. exact Hn'.
      eapply Forall2_same_cls_map. 2: { eapply F2_imp. 2: exact Hids. intros k k' Hk. exists k'. split. exact Hk. eapply (fid_root_of Data). exact Hk. }
      intros k k' Hk. apply (same_cls_fmap s3a s' F'). apply (same_cls_fmap s3 s3a). apply fmap_fid_same. exact Hf3a. exact Hk.
    - (* miss: the node is re-inserted *)
      cbv iota beta in H.
      bnd H m s3a Hm. assert (G3a := hp_go_gfr Data _ _ _ _ _ Hm).
      bnd H u5 s5 H5. destruct u5.
      assert (HI3a := Inv_gfr NoX _ s3 s3a HI3 G3a). destruct HI3a as [Hst3a [Hd3a [Hup3a HS3a]]].
      assert (Hf3a : forall j0, fid s3a j0 = fid s3 j0) by (apply gfr_fid; exact G3a).
      assert (Hno3a : na_get (hc s3a) sh' = None).
      { replace (hc s3a) with (hc s3) by (symmetry; apply G3a). apply (lookup_none s3 (sh', bij) Hlk). }
      rewrite Q1 in H5.
      destruct (H_add NoX i sh' _ src_id s3a s5 HS3a Hno3a (eq_trans (Hf3a i) Hroot3) (eq_trans (Hf3a src_id) Hsrc3) H5) as [HS5x [Hh5 [D5 Hp5]]].
      assert (Hf5 : forall j0, fid s5 j0 = fid s3a j0) by (intro j0; apply find_id_dfr; apply D5).
      assert (Ha5 : forall j0, adata s5 j0 = adata s3a j0) by (apply dfr_dsame; exact D5).
      assert (Hids5 : Forall2 (fun k k' => fid s5 k = Ok k') (node_ids sh) (node_ids sh')).
      { eapply F2_imp. 2: exact Hids. intros k k' Hk. cbv beta. rewrite Hf5, Hf3a. exact Hk. }
      assert (Hmk5 : mk_in s5 sh' = mk_in s5 sh) by (apply (mk_in_ids Data make L lab mk make_spec lab_nvar); assumption).
      assert (Hs5 : stored s5 sh' i). { unfold AnalysisModelBase.stored. rewrite Hh5. apply na_get_set_same. }
      assert (Hroot5 : fid s5 i = Ok i) by (rewrite Hf5, Hf3a; exact Hroot3).
      assert (HI5 : Inv NoX [] s5).
      { split; [|split; [|split]].
        - intros x j Hx Hn _. destruct (node_eq_dec' x sh') as [->|Hne].
          + unfold AnalysisModelBase.stored in Hx, Hs5. rewrite Hs5 in Hx. inversion Hx; subst j.
            destruct Hat1 as [d [w [A1 [A2 A3]]]].
            assert (Hdd : forall j0, adata s5 j0 = adata s1 j0).
            { intro j0. rewrite Ha5. rewrite (dfr_dsame Data s3 s3a (gfr_dfr _ _ G3a)). rewrite (dfr_dsame Data s2 s3 (gfr_dfr _ _ G3)). apply Ha2. }
            exists d, w. split. rewrite Hdd. exact A1. split. 2: exact A3.
            rewrite Hmk5. rewrite <- A2. apply (mk_in_ext Data make L lab mk make_spec). intros k _. apply Hdd.
          + assert (A : stab_at s3a x j).
            { apply Hst3a. unfold AnalysisModelBase.stored in *. rewrite Hh5 in Hx. rewrite na_get_set_other in Hx. exact Hx. exact Hne.
              unfold AnalysisModelBase.npend in *. rewrite <- Hp5. exact Hn. intro F. exact F. }
            destruct A as [d [w [A1 [A2 A3]]]]. exists d, w. split. rewrite Ha5. exact A1. split. 2: exact A3.
            rewrite <- A2. apply (mk_in_ext Data make L lab mk make_spec). intros k _. apply Ha5.
        - eapply dok_dfr. exact Hd3a. apply D5.
        - apply (U_unvirt [] s5 sh i sh' i). 2: exact Hroot5. 2: exact Hs5. 2: { intros v0 Hv0. rewrite Hmk5. exact Hv0. }
          apply (U_same _ s3a s5 Hup3a Hf5 Ha5).
          intros x c0 Hx. unfold AnalysisModelBase.stored in *. rewrite Hh5. rewrite na_get_set_other. exact Hx.
          intro E. subst x. rewrite Hno3a in Hx. discriminate.
        - apply (H_kids_alive NoX sh' s5 HS5x). intros i0 _ k Hk.
          destruct (F2_in_r _ _ _ k Hids5 Hk) as [k0 Hk0]. cbv beta in Hk0. eapply (fid_root_of Data). exact Hk0. }
      eapply Inv_gfr. exact HI5. eapply determine_self_symmetries_gfr. exact H.
  Qed.


  (* ---------------- eg_union without its rebuild ---------------- *)
  Theorem union_round : forall l r s b s', Inv NoX [] s -> union_pre l r s = Ok (b, s') -> Inv NoX [] s'.
  Proof.
    intros l r s b s' HI H. unfold eg_union in H.
    bnd H x1 s1 H1. bnd H x2 s2 H2. bnd H out s3 H3. bnd H u4 s4 H4.
    apply (ret_ok Data) in H4. destruct H4 as [-> _]. apply (ret_ok Data) in H. destruct H as [-> _].
    assert (HI1 := Inv_gfr NoX _ s s1 HI (synify_app_id_gfr Data _ _ _ _ H1)).
    assert (HI2 := Inv_gfr NoX _ s1 s2 HI1 (synify_app_id_gfr Data _ _ _ _ H2)).
    unfold uint in H3. apply (Inv_ui [] ui_fuel l r s2 out s3 HI2 H3).
  Qed.

  (* ---------------- add_internal's miss branch up to the rebuild ---------------- *)
  Lemma nth_opt_some_of_lt : forall {A} (l : list A) n, (n < List.length l)%nat -> exists x, nth_opt l n = Some x.
  Proof.
    intros A l. induction l as [|a t IH]; intros n Hn; cbn [List.length] in Hn. lia.
    destruct n as [|n]. exists a. reflexivity. cbn [nth_opt]. apply IH. lia.
  Qed.

  Lemma root_lt : forall s r, fid s r = Ok r -> (N.to_nat r < List.length (uf s))%nat.
  Proof. intros s r H. apply is_root_lt. change (fidl (uf s) r = Ok r) in H. eapply fidl_is_root. exact H. Qed.

  Theorem add_round : forall t s a s', Inv NoX [] s -> add_pre t s = Ok (a, s') -> keeps_hc Data s s' -> Inv NoX [] s'.
  Proof.
    intros t s a s' HI H Hkeep. unfold add_pre0 in H.
    bnd H en1 sa1 H1.
    assert (G1 : gfr s sa1).
    { destruct (refresh_private (fst t) (ctr Data s)) as [r c]. destruct r as [n|e]; inversion H1; subst.
      apply (eq_fields_gfr Data); reflexivity. }
    bnd H en2 sa2 H2. apply (lift_ok Data) in H2. destruct H2 as [-> _].
    bnd H en3 sa3 H3. assert (G3 := synify_enode_gfr Data _ _ _ _ H3).
    unfold mk_singleton_class in H.
    bnd H f2o sa4 H4. assert (G4 := with_ctr_gfr Data _ _ _ _ H4).
    bnd H synf sa H5. assert (G5 := with_ctr_gfr Data _ _ _ _ H5).
    assert (G : gfr s sa).
    { eapply (gfr_trans Data). exact G1. eapply (gfr_trans Data). exact G3. eapply (gfr_trans Data). exact G4. exact G5. }
    assert (HIa := Inv_gfr NoX _ s sa HI G). destruct HIa as [Hsta [Hda [Hupa HSa]]].
    assert (Hfa : forall j, fid sa j = fid s j) by (apply gfr_fid; exact G).
    assert (Hha : hc sa = hc s) by (apply G).
    bnd H i sb H6.
    destruct (H_alloc NoX _ synf sa i sb HSa H6) as [HSb [Ei [Hri [Hfb [Hhb [Hpb [[cn [Hcb [Hmk [Hcn Hcu]]]] [e [Hub Haide]]]]]]]]].
    bnd H t0 sb' H7. apply (lift_ok Data) in H7. destruct H7 as [-> Hws]. destruct t0 as [sh0 bij].
    bnd H u8 sc H8. destruct u8.
    bnd H u9 sd H9. destruct u9. cbn [fst] in H9.
    bnd H u10 se H10. destruct u10.
    bnd H u11 sf H11. apply (ret_ok Data) in H11. destruct H11 as [-> _]. apply (ret_ok Data) in H. destruct H as [-> _].
    assert (G10 := mq_push_gfr Data _ _ _ _ H10).
    assert (G9 := pending_insert_true_gfr Data _ _ _ _ H9).
    destruct (raw_add_to_class_fr Data i sh0 bij i sb sc H8) as [D8 [Hp8 [Hh8 _]]]. rewrite Hhb. apply (sx_nd Data _ sa HSa).
    assert (Hhe : hc se = na_set (hc sa) sh0 i).
    { replace (hc se) with (hc sd) by (symmetry; apply G10). replace (hc sd) with (hc sc) by (symmetry; apply G9). rewrite Hh8, Hhb. reflexivity. }
    (* the new shape was not hash-consed *)
    assert (Hno : na_get (hc sa) sh0 = None).
    { destruct (na_get (hc sa) sh0) as [j|] eqn:Ej. 2: reflexivity. exfalso.
      assert (Hsj : stored s sh0 j). { unfold AnalysisModelBase.stored. rewrite <- Hha. exact Ej. }
      assert (Hs' := Hkeep sh0 j Hsj). unfold AnalysisModelBase.stored in Hs'. rewrite Hhe in Hs'. rewrite na_get_set_same in Hs'. inversion Hs'; subst j.
      assert (Hrj : fid sa i = Ok i). { apply (sx_hl Data _ sa HSa sh0 i). exact Ej. }
      apply root_lt in Hrj. rewrite Ei in Hrj. rewrite Nat2N.id in Hrj. lia. }
    assert (Hnob : na_get (hc sb) sh0 = None) by (rewrite Hhb; exact Hno).
    destruct (H_add NoX i sh0 bij i sb sc HSb Hnob Hri Hri H8) as [HScx _].
    assert (HSd : S0 sd) by (apply (H_pending_true NoX sh0 sc sd HScx H9)).
    assert (HSe : S0 se). { eapply H_strfr. exact HSd. apply G10. }
    (* old ids: find and data are unchanged *)
    assert (Dbe : dfr sb se).
    { eapply dfr_trans. exact D8. eapply dfr_trans. apply gfr_dfr. exact G9. apply gfr_dfr. exact G10. }
    assert (Hfe : forall j, fid se j = fid sb j) by (intro j; apply find_id_dfr; apply Dbe).
    assert (Hae : forall j, adata se j = adata sb j) by (apply dfr_dsame; exact Dbe).
    assert (Hlen : List.length (uf sa) = List.length (cls sa)) by (apply (sx_len Data _ sa HSa)).
    assert (Hgb : forall r, fid sa r = Ok r -> gclass sb r = gclass sa r).
    { intros r Hr. apply root_lt in Hr. rewrite Hlen in Hr. destruct (nth_opt_some_of_lt (cls sa) _ Hr) as [c0 Hc0].
      unfold get_class. rewrite Hcb. rewrite (nth_opt_app_l _ _ _ _ Hc0). rewrite Hc0. reflexivity. }
    assert (Hold : forall j r, fid sa j = Ok r -> fid se j = Ok r /\ adata se j = adata sa j).
    { intros j r Hr. split. rewrite Hfe. apply Hfb. exact Hr.
      rewrite Hae. unfold analysis_data. rewrite (Hfb j r Hr), Hr. cbn [bind]. rewrite (Hgb r (fid_root_of Data sa j r Hr)). reflexivity. }
    assert (Holdd : forall j d, adata sa j = Ok d -> adata se j = Ok d).
    { intros j d Hd. destruct (adata_fid_ok Data sa j d Hd) as [r Hr]. destruct (Hold j r Hr) as [_ E]. rewrite E. exact Hd. }
    assert (Hmke : forall x v, mk_in sa x = Ok v -> mk_in se x = Ok v).
    { intros x v Hv. rewrite <- Hv. apply (mk_in_ext Data make L lab mk make_spec). intros k Hk.
      destruct (mk_in_kids_ok Data make L lab mk make_spec sa x v k Hv Hk) as [d Hd]. rewrite Hd. apply Holdd. exact Hd. }
    assert (Hpe : pend se = na_set (pend sa) sh0 true).
    { replace (pend se) with (pend sd). 2: { unfold mq_push in H10. apply (modify_ok Data) in H10. subst se. reflexivity. }
      unfold pending_insert in H9. apply (modify_ok Data) in H9. subst sd. cbn [pending set_pending]. rewrite Hp8, Hpb. reflexivity. }
    (* the new class *)
    assert (Hgi : gclass sb i = Ok cn).
    { unfold get_class. rewrite Hcb, Ei, Nat2N.id, Hlen. rewrite nth_opt_snoc. reflexivity. }
    assert (Hai : adata se i = Ok (c_data Data cn)).
    { rewrite Hae. unfold analysis_data. rewrite Hri. cbn [bind]. rewrite Hgi. reflexivity. }
    destruct (wshape_ids synf sh0 bij Hws) as [Nv Ni].
    assert (Hmk0 : mk_in se sh0 = Ok (c_data Data cn)).
    { apply Hmke. rewrite <- Hmk. unfold make_in. rewrite !make_spec. rewrite (lab_nvar sh0 synf Nv). rewrite Ni. reflexivity. }
    split; [|split; [|split]].
    - intros x j Hx Hn _. destruct (node_eq_dec' x sh0) as [->|Hne].
      + exfalso. unfold AnalysisModelBase.npend in Hn. rewrite Hpe in Hn. rewrite na_get_set_same in Hn. discriminate.
      + assert (A : stab_at sa x j).
        { apply Hsta. unfold AnalysisModelBase.stored in *. rewrite Hhe in Hx. rewrite na_get_set_other in Hx. exact Hx. exact Hne.
          unfold AnalysisModelBase.npend in *. rewrite Hpe in Hn. rewrite na_get_set_other in Hn. exact Hn. exact Hne. intro F. exact F. }
        destruct A as [d [w [A1 [A2 A3]]]]. exists d, w. split. apply Holdd. exact A1. split. apply Hmke. exact A2. exact A3.
    - apply (dok_dfr sb se). 2: apply Dbe.
      intros c0 Hc0. rewrite Hcb in Hc0. apply in_app_or in Hc0. destruct Hc0 as [Hc0|[E0|[]]]. apply Hda. exact Hc0. subst c0.
      unfold make_in in Hmk. rewrite make_spec in Hmk. apply bind_ok in Hmk. destruct Hmk as [ds [_ Hmk]]. injection Hmk as E. rewrite <- E. apply Dok_mk.
    - apply (U_new [] sa se i (c_data Data cn) sh0 Hupa Hold).
      + intros c0 Hc0. rewrite Hfe in Hc0. change (fidl (uf sb) c0 = Ok c0) in Hc0. apply fidl_is_root in Hc0. destruct Hc0 as [e0 [He0 Hae0]].
        rewrite Hub in He0. apply nth_opt_snoc_inv in He0. destruct He0 as [He0|[He0 _]].
        * right. change (fidl (uf sa) c0 = Ok c0). apply fidl_root. exists e0. split; assumption.
        * left. rewrite Ei. rewrite <- He0. rewrite N2Nat.id. reflexivity.
      + exact Hai.
      + unfold AnalysisModelBase.stored. rewrite Hhe. apply na_get_set_same.
      + exact Hmk0.
      + intros x c0 Hx. unfold AnalysisModelBase.stored in *. rewrite Hhe. rewrite na_get_set_other. exact Hx.
        intro E. subst x. rewrite Hno in Hx. discriminate.
    - exact HSe.
  Qed.

  (* ---------------- the invariant of the loop heads ---------------- *)
  Definition JJ (s : eg) : Prop := Inv NoX [] s /\ lh s.

  Lemma Inv_set_mq : forall s q, Inv NoX [] s -> Inv NoX [] (set_mq Data s q).
  Proof.
    intros s q [Hst [Hd [Hup HS]]]. split. exact Hst. split. exact Hd. split. 2: { apply H_set_mq. exact HS. }
    apply (U_same [] s (set_mq Data s q) Hup). intro j. reflexivity. intro j. reflexivity. intros sh c H. exact H.
  Qed.

  Lemma Inv_empty : Inv NoX [] (empty_egraph Data).
  Proof.
    split. intros sh i H. discriminate. split. intros c []. split. 2: apply Sx_empty.
    intros c d Hc. discriminate.
  Qed.

  Theorem JJ_closed :
    JJ (empty_egraph Data) /\
    (forall s q, JJ s -> JJ (set_mq Data s q)) /\
    (forall sh ty rest s s1, JJ s -> pend s = (sh, ty) :: rest -> hp sh ty (set_pending Data s rest) = Ok (tt, s1) -> JJ s1) /\
    (forall n t s a s1, JJ s -> pend s = [] -> node_ok s n -> shape Data s n = Ok t -> lookup_internal Data s t = Ok None ->
       add_pre t s = Ok (a, s1) -> JJ s1) /\
    (forall l r s b s1, JJ s -> pend s = [] -> union_pre l r s = Ok (b, s1) -> JJ s1).
  Proof.
    split. split. apply Inv_empty. apply lh_empty.
    split. intros s q [A B]. split. apply Inv_set_mq. exact A. apply lh_mq. exact B.
    split. intros sh ty rest s s1 [A B] Hp H. split. eapply hp_round; eassumption. eapply lh_hp; eassumption.
    split. intros n t s a s1 [A B] Hp Hok Hsh Hlk H. split. eapply add_round. exact A. exact H. eapply Hok; eassumption.
    eapply lh_add; eassumption.
    intros l r s b s1 [A B] Hp H. split. eapply union_round; eassumption. eapply lh_union; eassumption.
  Qed.

End Asm.
