(* EGraph/AnalysisModelRound.v — hp_round of AnalysisModelReachA.v with a LOCAL key premise (no lh, no global H_key). *)
From SE Require Import EGraph.ModelA EGraph.AnalysisFix EGraph.AnalysisModelBase EGraph.AnalysisModelStab
  EGraph.AnalysisModelUF EGraph.AnalysisModelAbs EGraph.AnalysisModelFrames EGraph.AnalysisModelTop EGraph.AnalysisModelFacts
  EGraph.AnalysisModelInv EGraph.AnalysisModelUpper EGraph.AnalysisModelQuiet EGraph.AnalysisModelIds EGraph.AnalysisModelStr EGraph.AnalysisModelMove
  EGraph.AnalysisModelReachA.
From Coq Require Import Lia Arith Bool List NArith.
Import ListNotations.

Section Round.
  Variable Data : Type.
  Variable data_eqb : Data -> Data -> bool.
  Variable make : (N -> res Data) -> node -> res Data.
  Variable merge : Data -> Data -> Data.
  Hypothesis merge_assoc : forall x y z, merge x (merge y z) = merge (merge x y) z.
  Hypothesis merge_comm : forall x y, merge x y = merge y x.
  Hypothesis merge_idem : forall x, merge x x = x.
  Hypothesis data_eqb_spec : forall x y, data_eqb x y = true <-> x = y.
  Variable L : Type.
  Variable lab : node -> L.
  Variable mk : L -> list Data -> Data.
  Hypothesis make_spec : forall get n, make get n = do ds <- mapr get (node_ids n); Ok (mk (lab n) ds).
  Hypothesis make_mono : forall l xs ys, Forall2 (AnalysisFix.le Data merge) xs ys -> AnalysisFix.le Data merge (mk l xs) (mk l ys).
  Hypothesis lab_nvar : forall n m, nvar n = nvar m -> lab n = lab m.
  Variable Dok : Data -> Prop.
  Hypothesis Dok_mk : forall l ds, Dok (mk l ds).
  Hypothesis Dok_merge : forall a b, Dok a -> Dok b -> Dok (merge a b).
  Hypothesis make_below_kids : forall l ds d, In d ds -> Dok d -> merge d (mk l ds) = d.

  Notation eg := (egraph Data).
  Notation uf := (unionfind Data).
  Notation cls := (classes Data).
  Notation hc := (hashcons Data).
  Notation pend := (pending Data).
  Notation gclass := (get_class Data).
  Notation adata := (analysis_data Data).
  Notation mk_in := (make_in Data make).
  Notation mle := (AnalysisFix.le Data merge).
  Notation stored := (AnalysisModelBase.stored Data).
  Notation npend := (AnalysisModelBase.npend Data).
  Notation fid := (find_id Data).
  Notation stab := (AnalysisModelBase.stab Data make merge).
  Notation stabx := (AnalysisModelBase.stabx Data make merge).
  Notation stab_at := (AnalysisModelBase.stab_at Data make merge).
  Notation dok := (AnalysisModelBase.dok Data Dok).
  Notation upperv := (upperv Data make merge).
  Notation Sx := (Sx Data).
  Notation S0 := (S0 Data).
  Notation gfr := (gfr Data).
  Notation strfr := (strfr Data).
  Notation dfr := (dfr Data).
  Notation NoX := (fun _ : node => False).

  (* ---------------- structural facts (AnalysisModelStr.v, AnalysisModelMove.v) ---------------- *)
  Let H_mono := Sx_mono Data.
  Let H_strfr := Sx_strfr Data.
  Let H_pop := Sx_pop Data.
  Let H_kids_alive := Sx_kids_alive Data.
  Let H_pending_true := Sx_pending_true Data.
  Let H_set_mq := Sx_set_mq Data.
  Let H_update_strfr := update_analysis_strfr Data data_eqb make merge.
  Let H_remove := raw_remove_Sx Data.
  Let H_add := raw_add_Sx Data.
  Let H_alloc := alloc_Sx Data make.
  Let H_move := move_to_S0_full Data data_eqb merge.

  Let U_same := upperv_same Data make merge merge_assoc merge_idem L lab mk make_spec make_mono.
  Let U_remove := upperv_remove Data make merge merge_assoc merge_idem L lab mk make_spec make_mono.
  Let U_unvirt := upperv_unvirt Data make merge merge_assoc merge_idem.
  Let U_update := upperv_update Data make merge merge_assoc merge_idem L lab mk make_spec make_mono.
  Let U_link := upperv_link Data make merge merge_assoc merge_comm merge_idem L lab mk make_spec make_mono.
  Let U_new := upperv_new Data make merge merge_assoc merge_idem L lab mk make_spec make_mono.
  Let UA_eff := update_analysis_eff Data data_eqb make merge merge_assoc merge_idem data_eqb_spec L lab mk make_spec Dok make_below_kids.

  (* ---------------- reused from AnalysisModelReachA (section arguments made explicit) ---------------- *)
  Notation Inv := (AnalysisModelReachA.Inv Data make merge Dok).
  Notation same_cls := (AnalysisModelReachA.same_cls Data).
  Let dok_dfr := AnalysisModelReachA.dok_dfr Data Dok.
  Let gfr_dfr := AnalysisModelReachA.gfr_dfr Data.
  Let Inv_gfr := AnalysisModelReachA.Inv_gfr Data make merge merge_assoc merge_idem L lab mk make_spec make_mono Dok.
  Let ucov_of_Sx := AnalysisModelReachA.ucov_of_Sx Data.
  Let stab_of := AnalysisModelReachA.stab_of Data make merge.
  Let stabx_of := AnalysisModelReachA.stabx_of Data make merge.
  Let mk_in_same_cls := AnalysisModelReachA.mk_in_same_cls Data make L lab mk make_spec lab_nvar.
  Let Forall2_same_cls_map := AnalysisModelReachA.Forall2_same_cls_map Data.
  Let same_cls_fmap := AnalysisModelReachA.same_cls_fmap Data.
  Let fmap_fid_same := AnalysisModelReachA.fmap_fid_same Data.
  Let Inv_ui := AnalysisModelReachA.Inv_ui Data data_eqb make merge merge_assoc merge_comm merge_idem data_eqb_spec
                  L lab mk make_spec make_mono Dok Dok_merge.
  Let lookup_none := AnalysisModelReachA.lookup_none Data.
  Let pc_from_shape_inv := AnalysisModelReachA.pc_from_shape_inv Data.

  Notation hp := (handle_pending Data data_eqb make merge).

  Tactic Notation "bnd" hyp(H) ident(x) ident(s1) ident(H1) := apply (mbind_ok Data) in H; destruct H as [x [s1 [H1 H]]].

  (* ---------------- one round of the pending loop, local key premise ---------------- *)
  Theorem hp_round_local : forall sh ty rest s s',
    (forall i s1 c bij0 src_id nd p s2 sl enode i1 enode' i1' s3 t x pc t2,
       stored s sh i ->
       update_analysis Data data_eqb make merge sh i (set_pending Data s rest) = Ok (tt, s1) ->
       gclass s1 i = Ok c -> na_get (c_nodes Data c) sh = Some (bij0, src_id) -> apply_slotmap false bij0 sh = Ok nd ->
       raw_remove_from_class Data i sh s1 = Ok (p, s2) ->
       class_slots Data s2 i = Ok sl -> find_enode Data s2 nd = Ok enode ->
       find_applied_id Data s2 {| aid := i; am := identity sl |} = Ok i1 ->
       hp_loop Data data_eqb merge 100 src_id enode i1 s2 = Ok ((enode', i1'), s3) ->
       shape Data s3 enode' = Ok t -> lookup_internal Data s3 t = Ok (Some x) -> pc_from_src_id Data s3 src_id = Ok pc ->
       shape Data s3 (fst pc) = Ok t2 -> fst t2 = fst t) ->
    Inv NoX [] s -> pend s = (sh, ty) :: rest -> hp sh ty (set_pending Data s rest) = Ok (tt, s') -> Inv NoX [] s'.
  Proof.
    intros sh ty rest s s' H_key [Hst [Hd [Hup HS]]] Hp H.
    remember (set_pending Data s rest) as s0 eqn:Es0.
    assert (Hu0 : uf s0 = uf s) by (subst s0; reflexivity).
    assert (Hc0 : cls s0 = cls s) by (subst s0; reflexivity).
    assert (Hh0 : hc s0 = hc s) by (subst s0; reflexivity).
    assert (Hp0 : pend s0 = rest) by (subst s0; reflexivity).
    assert (Hf0 : forall j, fid s0 j = fid s j) by (intro j; apply (fid_uf Data); exact Hu0).
    assert (Ha0 : forall j, adata s0 j = adata s j) by (intro j; apply (adata_eq Data); assumption).
    assert (Hst0 : stabx (eq sh) s0).
    { intros x i Hs Hn HX. assert (Hne : x <> sh) by (intro E; apply HX; symmetry; exact E).
      assert (A : stab_at s x i).
      { apply Hst. unfold AnalysisModelBase.stored in *. rewrite <- Hh0. exact Hs.
        unfold AnalysisModelBase.npend in *. rewrite Hp. cbn [na_get]. rewrite (node_eqb_false _ _ Hne). rewrite <- Hp0. exact Hn.
        intro F. exact F. }
      destruct A as [d [v [A1 [A2 A3]]]]. exists d, v. split. rewrite Ha0. exact A1. split. 2: exact A3.
      rewrite <- A2. apply (mk_in_ext Data make L lab mk make_spec). intros k _. apply Ha0. }
    assert (Hd0 : dok s0). { intros c Hc. apply Hd. rewrite <- Hc0. exact Hc. }
    assert (Hup0 : upperv [] s0).
    { apply (U_same [] s s0 Hup). exact Hf0. exact Ha0. intros x c Hx. unfold AnalysisModelBase.stored in *. rewrite Hh0. exact Hx. }
    assert (HS0 : Sx (eq sh) s0). { subst s0. eapply H_pop. exact HS. exact Hp. }
    unfold handle_pending in H.
    bnd H i s0' Hi. apply (reads_ok Data) in Hi. destruct Hi as [-> Hi].
    assert (Hsto : stored s0 sh i). { unfold AnalysisModelBase.stored. destruct (na_get (hc s0) sh) as [i'|]; inversion Hi. reflexivity. }
    bnd H u1 s1 H1. destruct u1.
    assert (Hroot : fid s0 i = Ok i) by (apply (sx_hl Data _ s0 HS0 sh i Hsto)).
    destruct (update_analysis_stab Data data_eqb make merge merge_assoc merge_comm merge_idem data_eqb_spec L lab mk make_spec
                Dok Dok_mk Dok_merge make_below_kids sh i s0 s1 Hst0 Hd0 Hsto Hroot (ucov_of_Sx (eq sh) s0 i HS0) H1)
      as [Hst1 [Hd1 [Hu1 [Hh1 Hnp1]]]].
    destruct (UA_eff sh i s0 s1 Hd0 Hroot H1) as [v [c [Hv [Hc [_ [_ [Ha1 Hat1]]]]]]].
    assert (Hup1 : upperv [] s1) by (apply (U_update [] sh i s0 s1 v c Hup0 Hsto Hroot Hv Hc Hu1 Hh1 Ha1)).
    assert (HS1 : Sx (eq sh) s1). { eapply H_strfr. exact HS0. eapply H_update_strfr. exact H1. }
    assert (Hf1 : forall j, fid s1 j = fid s0 j) by (intro j; apply (fid_uf Data); exact Hu1).
    destruct ty; cbn [negb] in H.
    2: { (* OnlyAnalysis *)
      apply (ret_ok Data) in H. destruct H as [-> _].
      split. apply stabx_of. exact Hst1. split. exact Hd1. split. exact Hup1.
      apply (H_kids_alive NoX sh s1). eapply H_mono. 2: exact HS1. intros x E. right. exact E.
      intros i0 Hs0 k Hk. rewrite Hf1, Hf0. apply (sx_kl Data NoX s HS sh i0).
      - unfold AnalysisModelBase.stored in *. rewrite <- Hh0, <- Hh1. exact Hs0.
      - rewrite Hp. cbn [na_get]. rewrite node_eqb_refl. discriminate.
      - intro F. exact F.
      - exact Hk. }
    (* Full *)
    bnd H c1 s1' Hc1. apply (reads_ok Data) in Hc1. destruct Hc1 as [-> Hc1].
    bnd H psn s1' Hpsn. apply (lift_ok Data) in Hpsn. destruct Hpsn as [-> Hpsn].
    assert (Hent : na_get (c_nodes Data c1) sh = Some psn). { destruct (na_get (c_nodes Data c1) sh) as [q|]; inversion Hpsn. reflexivity. }
    destruct psn as [bij0 src_id]. cbv iota beta in H.
    bnd H nd s1' Hnd. apply (lift_ok Data) in Hnd. destruct Hnd as [-> Hnd].
    bnd H p s2 H2.
    bnd H sl s2' Hsl. apply (reads_ok Data) in Hsl. destruct Hsl as [-> Hsl].
    bnd H enode s2' Hen. apply (reads_ok Data) in Hen. destruct Hen as [-> Hen].
    bnd H i1 s2' Hi1. apply (reads_ok Data) in Hi1. destruct Hi1 as [-> Hi1].
    bnd H ei s3 H3. destruct ei as [enode' i1']. cbv iota beta in H.
    bnd H t s3' Ht. apply (reads_ok Data) in Ht. destruct Ht as [-> Ht].
    bnd H lk s3' Hlk. apply (reads_ok Data) in Hlk. destruct Hlk as [-> Hlk].
    assert (Hsto1 : stored s1 sh i). { unfold AnalysisModelBase.stored in *. rewrite Hh1. exact Hsto. }
    assert (Hroot1 : fid s1 i = Ok i) by (rewrite Hf1; exact Hroot).
    assert (Hsrc1 : fid s1 src_id = Ok i). { apply (sx_so Data _ s1 HS1 i c1 sh bij0 src_id Hc1). apply na_get_in. exact Hent. }
    (* the node leaves its class *)
    destruct (H_remove (eq sh) i sh s1 p s2 HS1 Hsto1 H2) as [HS2x [Hh2 [Hno2 [D2 [Hp2 _]]]]].
    assert (HS2 : S0 s2).
    { apply (H_kids_alive NoX sh s2). eapply H_mono. 2: exact HS2x. intros x E. right. exact E.
      intros i0 Hs0. unfold AnalysisModelBase.stored in Hs0. rewrite Hno2 in Hs0. discriminate. }
    assert (Hf2 : forall j, fid s2 j = fid s1 j) by (intro j; apply find_id_dfr; apply D2).
    assert (Ha2 : forall j, adata s2 j = adata s1 j) by (apply dfr_dsame; exact D2).
    assert (HI2 : Inv NoX [(sh, i)] s2).
    { split; [|split; [|split]].
      - apply stabx_of. destruct (raw_remove_from_class_fr Data i sh s1 p s2 H2 (sx_nd Data _ s1 HS1)) as [_ [_ [_ [_ F]]]].
        eapply (stab_fr Data make merge L lab mk make_spec). exact Hst1. exact F.
      - eapply dok_dfr. exact Hd1. apply D2.
      - apply (U_remove [] s1 s2 sh i Hup1 Hroot1 Hsto1 Hf2 Ha2).
        intros x c0 Hx Hne. unfold AnalysisModelBase.stored in *. rewrite Hh2. rewrite na_get_remove_other. exact Hx. exact Hne.
      - exact HS2. }
    (* the shrink loop *)
    assert (Hroot2 : fid s2 i = Ok i) by (rewrite Hf2; exact Hroot1).
    set (P := fun (en : node) (a : appid) => aid a = i /\ nvar en = nvar sh /\
                Forall2 (fun k k' => fid s2 k = Ok k') (node_ids sh) (node_ids en)).
    assert (HP0 : P enode i1).
    { destruct (apply_slotmap_ids bij0 sh nd Hnd) as [N1 I1]. destruct (find_enode_ids Data s2 nd enode Hen) as [N2 I2].
      split. apply (find_applied_id_fid Data) in Hi1. cbn [aid] in Hi1. rewrite Hroot2 in Hi1. inversion Hi1. reflexivity.
      split. congruence. rewrite <- I1. exact I2. }
    assert (HPstep : forall s00 en a en' a', gfr s2 s00 -> P en a -> find_enode Data s00 en = Ok en' -> find_applied_id Data s00 a = Ok a' -> P en' a').
    { intros s00 en a en' a' G [Q1 [Q2 Q3]] Qe Qa.
      assert (Hf00 : forall j, fid s00 j = fid s2 j) by (apply gfr_fid; exact G).
      destruct (find_enode_ids Data s00 en en' Qe) as [N2 I2].
      split. apply (find_applied_id_fid Data) in Qa. rewrite Q1, Hf00, Hroot2 in Qa. inversion Qa. reflexivity.
      split. congruence.
      eapply (F2_comp _ (fun k k' => fid s00 k = Ok k')). 2: exact Q3. 2: exact I2.
      intros a0 b0 c0 R1 R2. cbv beta in *. rewrite Hf00 in R2. rewrite (fid_root_of Data s2 a0 b0 R1) in R2. inversion R2; subst c0. exact R1. }
    destruct (hp_loop_inv Data data_eqb merge P 100 src_id s2 enode i1 enode' i1' s3 HPstep HP0 H3) as [G3 [Q1 [Q2 Q3]]].
    assert (HI3 := Inv_gfr NoX _ s2 s3 HI2 G3).
    assert (Hf3 : forall j, fid s3 j = fid s2 j) by (apply gfr_fid; exact G3).
    assert (Hh3 : hc s3 = hc s2) by (apply G3).
    destruct t as [sh' bij]. destruct (shape_ids Data s3 enode' sh' bij Ht) as [N3 I3].
    assert (Hn' : nvar sh' = nvar sh) by congruence.
    assert (Hids : Forall2 (fun k k' => fid s3 k = Ok k') (node_ids sh) (node_ids sh')).
    { eapply (F2_comp _ (fun k k' => fid s3 k = Ok k')). 2: exact Q3. 2: exact I3.
      intros a0 b0 c0 R1 R2. cbv beta in *. rewrite Hf3 in R2. rewrite (fid_root_of Data s2 a0 b0 R1) in R2. inversion R2; subst c0. rewrite Hf3. exact R1. }
    assert (Hroot3 : fid s3 i = Ok i) by (rewrite Hf3; exact Hroot2).
    assert (Hsrc3 : fid s3 src_id = Ok i) by (rewrite Hf3, Hf2; exact Hsrc1).
    destruct lk as [x|].
    - (* hash-cons hit: congruence *)
      bnd H pc s3' Hpc. apply (reads_ok Data) in Hpc. destruct Hpc as [-> Hpc].
      destruct (handle_congruence_split Data data_eqb merge pc s3 s' H) as [t2 [pc2 [a [b [s3a [bb [Ht2 [Hpc2 [G3a [Ea [Eb Hu]]]]]]]]]]].
      assert (Hkey : fst t2 = sh').
      { subst s0. apply (H_key i s1 c1 bij0 src_id nd p s2 sl enode i1 enode' i1' s3 (sh', bij) x pc t2); assumption. }
      rewrite Hkey in Hpc2.
      destruct (pc_from_shape_inv s3 sh' pc2 Hpc2) as [j [cj [bj [src2 [Hj [Hcj [Hej Hpc2']]]]]]].
      destruct HI3 as [Hst3 [Hd3 [Hup3 HS3]]].
      assert (Hsrc2 : fid s3 src2 = Ok j). { apply (sx_so Data _ s3 HS3 j cj sh' bj src2 Hcj). apply na_get_in. exact Hej. }
      assert (Eaa : aid a = i). { rewrite Ea. apply (pc_from_src_id_fid Data) in Hpc. rewrite Hsrc3 in Hpc. inversion Hpc. reflexivity. }
      assert (Ebb : aid b = j). { rewrite Eb. apply (pc_from_src_id_fid Data) in Hpc2'. rewrite Hsrc2 in Hpc2'. inversion Hpc2'. reflexivity. }
      assert (HI3a := Inv_gfr NoX _ s3 s3a (conj Hst3 (conj Hd3 (conj Hup3 HS3))) G3a).
      assert (Hf3a : forall j0, fid s3a j0 = fid s3 j0) by (apply gfr_fid; exact G3a).
      unfold uint in Hu.
      destruct (Inv_ui [(sh, i)] ui_fuel a b s3a bb s' HI3a Hu) as [[Hst' [Hd' [Hup' HS']]] [F' [Hsto' [m [Hm1 Hm2]]]]].
      assert (Hj3a : stored s3a sh' j). { unfold AnalysisModelBase.stored. replace (hc s3a) with (hc s3) by (symmetry; apply G3a). exact Hj. }
      destruct (Hsto' sh' j Hj3a) as [c' [Hs' Hjc']].
      rewrite Eaa in Hm1. rewrite Ebb in Hm2. rewrite Hjc' in Hm2. inversion Hm2; subst m.
      split. exact Hst'. split. exact Hd'. split. 2: exact HS'.
      apply (U_unvirt [] s' sh i sh' c' Hup' Hm1 Hs').
      intros v0 Hv0. rewrite <- Hv0. apply mk_in_same_cls. exact Hn'.
      eapply Forall2_same_cls_map. 2: { eapply F2_imp. 2: exact Hids. intros k k' Hk. exists k'. split. exact Hk. eapply (fid_root_of Data). exact Hk. }
      intros k k' Hk. apply (same_cls_fmap s3a s' F'). apply (same_cls_fmap s3 s3a). apply fmap_fid_same. exact Hf3a. exact Hk.
    - (* miss: the node is re-inserted *)
      cbv iota beta in H.
      bnd H m s3a Hm. assert (G3a := hp_go_gfr Data _ _ _ _ _ Hm).
      bnd H u5 s5 H5. destruct u5.
      assert (HI3a := Inv_gfr NoX _ s3 s3a HI3 G3a). destruct HI3a as [Hst3a [Hd3a [Hup3a HS3a]]].
      assert (Hf3a : forall j0, fid s3a j0 = fid s3 j0) by (apply gfr_fid; exact G3a).
      assert (Hno3a : na_get (hc s3a) sh' = None).
      { replace (hc s3a) with (hc s3) by (symmetry; apply G3a). apply (lookup_none s3 (sh', bij) Hlk). }
      rewrite Q1 in H5.
      destruct (H_add NoX i sh' _ src_id s3a s5 HS3a Hno3a (eq_trans (Hf3a i) Hroot3) (eq_trans (Hf3a src_id) Hsrc3) H5) as [HS5x [Hh5 [D5 Hp5]]].
      assert (Hf5 : forall j0, fid s5 j0 = fid s3a j0) by (intro j0; apply find_id_dfr; apply D5).
      assert (Ha5 : forall j0, adata s5 j0 = adata s3a j0) by (apply dfr_dsame; exact D5).
      assert (Hids5 : Forall2 (fun k k' => fid s5 k = Ok k') (node_ids sh) (node_ids sh')).
      { eapply F2_imp. 2: exact Hids. intros k k' Hk. cbv beta. rewrite Hf5, Hf3a. exact Hk. }
      assert (Hmk5 : mk_in s5 sh' = mk_in s5 sh) by (apply (mk_in_ids Data make L lab mk make_spec lab_nvar); assumption).
      assert (Hs5 : stored s5 sh' i). { unfold AnalysisModelBase.stored. rewrite Hh5. apply na_get_set_same. }
      assert (Hroot5 : fid s5 i = Ok i) by (rewrite Hf5, Hf3a; exact Hroot3).
      assert (HI5 : Inv NoX [] s5).
      { split; [|split; [|split]].
        - intros x j Hx Hn _. destruct (node_eq_dec' x sh') as [->|Hne].
          + unfold AnalysisModelBase.stored in Hx, Hs5. rewrite Hs5 in Hx. inversion Hx; subst j.
            destruct Hat1 as [d [w [A1 [A2 A3]]]].
            assert (Hdd : forall j0, adata s5 j0 = adata s1 j0).
            { intro j0. rewrite Ha5. rewrite (dfr_dsame Data s3 s3a (gfr_dfr _ _ G3a)). rewrite (dfr_dsame Data s2 s3 (gfr_dfr _ _ G3)). apply Ha2. }
            exists d, w. split. rewrite Hdd. exact A1. split. 2: exact A3.
            rewrite Hmk5. rewrite <- A2. apply (mk_in_ext Data make L lab mk make_spec). intros k _. apply Hdd.
          + assert (A : stab_at s3a x j).
            { apply Hst3a. unfold AnalysisModelBase.stored in *. rewrite Hh5 in Hx. rewrite na_get_set_other in Hx. exact Hx. exact Hne.
              unfold AnalysisModelBase.npend in *. rewrite <- Hp5. exact Hn. intro F. exact F. }
            destruct A as [d [w [A1 [A2 A3]]]]. exists d, w. split. rewrite Ha5. exact A1. split. 2: exact A3.
            rewrite <- A2. apply (mk_in_ext Data make L lab mk make_spec). intros k _. apply Ha5.
        - eapply dok_dfr. exact Hd3a. apply D5.
        - apply (U_unvirt [] s5 sh i sh' i). 2: exact Hroot5. 2: exact Hs5. 2: { intros v0 Hv0. rewrite Hmk5. exact Hv0. }
          apply (U_same _ s3a s5 Hup3a Hf5 Ha5).
          intros x c0 Hx. unfold AnalysisModelBase.stored in *. rewrite Hh5. rewrite na_get_set_other. exact Hx.
          intro E. subst x. rewrite Hno3a in Hx. discriminate.
        - apply (H_kids_alive NoX sh' s5 HS5x). intros i0 _ k Hk.
          destruct (F2_in_r _ _ _ k Hids5 Hk) as [k0 Hk0]. cbv beta in Hk0. eapply (fid_root_of Data). exact Hk0. }
      eapply Inv_gfr. exact HI5. eapply determine_self_symmetries_gfr. exact H.
  Qed.

End Round.

Check hp_round_local.
About union_round. About add_round. About Inv_set_mq. About Inv_empty.
Print Assumptions hp_round_local.
