(* EGraph/AnalysisModelSim.v — a SIMULATION of EGraph/ModelA.v (the e-graph model with e-class analysis) by
   EGraph/Model.v (the plain model), one-directional and step by step:

     R sA m   :=  unionfind, hashcons, ctr of m are those of sA; classes m = the classes of sA with the datum
                  dropped (ecl); the pending lists have the same Full entries (prel)
     sim mA mM := forall sA m x sA', R sA m -> mA sA = Ok (x, sA') -> exists m', mM m = Ok (x, m') /\ R sA' m'

   Every operation of ModelA is simulated by the operation of the same name of Model.v; the analysis calls
   (update_analysis, the analysis block of move_to, touched_class .. OnlyAnalysis, mq_push, the `make` of
   alloc_eclass) are SKIPS: they keep R (`askip`).  The two rebuild loops are NOT related (ModelA processes more
   pending entries, in another order): the simulation is used round by round.
   `erase sA` is the canonical Model state related to sA (pending copied verbatim). *)
From SE Require Import Lang.Sig Group.Group Sem.Term EGraph.Model EGraph.ModelPre.
From SE Require EGraph.ModelA EGraph.AnalysisModelBase EGraph.AnalysisModelTop.
From Coq Require Import Lia Arith Bool List NArith.
Import ListNotations.

Module A := SE.EGraph.ModelA.
Module AB := SE.EGraph.AnalysisModelBase.

(* ---------------- the shared pure definitions are convertible ---------------- *)
Lemma na_get_conv : forall V, @Model.na_get V = @A.na_get V. Proof. reflexivity. Qed.
Lemma na_set_conv : forall V, @Model.na_set V = @A.na_set V. Proof. reflexivity. Qed.
Lemma na_remove_conv : forall V, @Model.na_remove V = @A.na_remove V. Proof. reflexivity. Qed.
Lemma ns_add_conv : Model.ns_add = A.ns_add. Proof. reflexivity. Qed.
Lemma ns_remove_conv : Model.ns_remove = A.ns_remove. Proof. reflexivity. Qed.
Lemma node_eqb_conv : Model.node_eqb = A.node_eqb. Proof. reflexivity. Qed.
Lemma wshape_conv : Model.wshape = A.wshape. Proof. reflexivity. Qed.
Lemma set_apps_conv : Model.set_apps = A.set_apps. Proof. reflexivity. Qed.
Lemma node_ids_conv : Model.node_ids = A.node_ids. Proof. reflexivity. Qed.
Lemma uf_get_go_conv : Model.uf_get_go = A.uf_get_go. Proof. reflexivity. Qed.
Lemma min_variant_conv : Model.min_variant = A.min_variant. Proof. reflexivity. Qed.
Lemma mapr_conv : forall X Y, @Model.mapr X Y = @A.mapr X Y. Proof. reflexivity. Qed.
Lemma allr_conv : forall X, @Model.allr X = @A.allr X. Proof. reflexivity. Qed.
Lemma cartesian_conv : forall X, @Model.cartesian X = @A.cartesian X. Proof. reflexivity. Qed.
Lemma zip_with_conv : forall X Y Z, @Model.zip_with X Y Z = @A.zip_with X Y Z. Proof. reflexivity. Qed.

Definition rmap {X Y} (f : X -> Y) (r : res X) : res Y := match r with Ok x => Ok (f x) | Err e => Err e end.

Section Sim.
  Variable D : Type.
  Variable data_eqb : D -> D -> bool.
  Variable make : (N -> res D) -> node -> res D.
  Variable merge : D -> D -> D.

  Notation egA := (A.egraph D).
  Notation MA := (A.M D).

  Definition ecl (c : A.eclass D) : eclass :=
    {| c_nodes := A.c_nodes D c; c_slots := A.c_slots D c; c_usages := A.c_usages D c;
       c_group := A.c_group D c; c_syn := A.c_syn D c |}.

  Definition erase (s : egA) : egraph :=
    {| unionfind := A.unionfind D s; classes := map ecl (A.classes D s); hashcons := A.hashcons D s;
       pending := A.pending D s; ctr := A.ctr D s |}.

  Definition prel (pA pM : list (node * bool)) : Prop := forall y, A.na_get pA y = Some true <-> A.na_get pM y = Some true.

  Definition R (sA : egA) (m : egraph) : Prop :=
    unionfind m = A.unionfind D sA /\ classes m = map ecl (A.classes D sA) /\ hashcons m = A.hashcons D sA /\
    ctr m = A.ctr D sA /\ prel (A.pending D sA) (pending m).

  Lemma prel_refl : forall p, prel p p. Proof. intros p y. reflexivity. Qed.
  Lemma R_erase : forall s, R s (erase s).
  Proof. intro s. repeat split; try reflexivity; intro H; exact H. Qed.

  Definition sim {X} (mA : MA X) (mM : M X) : Prop :=
    forall sA m x sA', R sA m -> mA sA = Ok (x, sA') -> exists m', mM m = Ok (x, m') /\ R sA' m'.
  (* a step of ModelA without counterpart *)
  Definition askip {X} (mA : MA X) : Prop := forall sA m x sA', R sA m -> mA sA = Ok (x, sA') -> R sA' m.

  (* ---------------- combinators ---------------- *)
  Lemma sim_ret : forall X (x : X), sim (A.ret D x) (ret x).
  Proof. intros X x sA m y sA' HR H. inversion H; subst. exists m. split. reflexivity. exact HR. Qed.
  Lemma sim_fail : forall X e, sim (@A.fail D X e) (@fail X e).
  Proof. intros X e sA m y sA' HR H. discriminate. Qed.
  Lemma sim_lift : forall X (r : res X), sim (A.lift D r) (lift r).
  Proof. intros X r sA m y sA' HR H. unfold A.lift in H. unfold lift. destruct r; inversion H; subst. exists m. split. reflexivity. exact HR. Qed.
  Lemma sim_bind : forall X Y (mA : MA X) (mM : M X) (kA : X -> MA Y) (kM : X -> M Y),
    sim mA mM -> (forall x, sim (kA x) (kM x)) -> sim (A.mbind D mA kA) (mbind mM kM).
  Proof.
    intros X Y mA mM kA kM H1 H2 sA m y sA' HR H. unfold A.mbind in H. destruct (mA sA) as [[x s1]|e] eqn:E. 2: discriminate.
    destruct (H1 sA m x s1 HR E) as [m1 [E1 R1]]. destruct (H2 x s1 m1 y sA' R1 H) as [m2 [E2 R2]].
    exists m2. split. unfold mbind. rewrite E1. exact E2. exact R2.
  Qed.
  Lemma sim_skip : forall X Y (mA : MA X) (kA : X -> MA Y) (mM : M Y),
    askip mA -> (forall x, sim (kA x) mM) -> sim (A.mbind D mA kA) mM.
  Proof.
    intros X Y mA kA mM H1 H2 sA m y sA' HR H. unfold A.mbind in H. destruct (mA sA) as [[x s1]|e] eqn:E. 2: discriminate.
    exact (H2 x s1 m y sA' (H1 sA m x s1 HR E) H).
  Qed.
  Lemma sim_reads : forall X (fA : egA -> res X) (f : egraph -> res X),
    (forall sA m, R sA m -> f m = fA sA) -> sim (A.reads D fA) (reads f).
  Proof.
    intros X fA f Hf sA m y sA' HR H. unfold A.reads in H. unfold reads. rewrite (Hf sA m HR).
    destruct (fA sA); inversion H; subst. exists m. split. reflexivity. exact HR.
  Qed.
  Lemma sim_gets : forall X (fA : egA -> X) (f : egraph -> X),
    (forall sA m, R sA m -> f m = fA sA) -> sim (A.gets D fA) (gets f).
  Proof.
    intros X fA f Hf sA m y sA' HR H. unfold A.gets in H. inversion H; subst. exists m. split. unfold gets. rewrite (Hf sA' m HR). reflexivity. exact HR.
  Qed.
  Lemma sim_modify : forall (fA : egA -> egA) (f : egraph -> egraph),
    (forall sA m, R sA m -> R (fA sA) (f m)) -> sim (A.modify D fA) (modify f).
  Proof. intros fA f Hf sA m y sA' HR H. unfold A.modify in H. inversion H; subst. exists (f m). split. reflexivity. apply Hf. exact HR. Qed.
  Lemma askip_reads : forall X (fA : egA -> res X), askip (A.reads D fA).
  Proof. intros X fA sA m y sA' HR H. unfold A.reads in H. destruct (fA sA); inversion H; subst. exact HR. Qed.
  Lemma askip_modify : forall (fA : egA -> egA), (forall sA m, R sA m -> R (fA sA) m) -> askip (A.modify D fA).
  Proof. intros fA Hf sA m y sA' HR H. unfold A.modify in H. inversion H; subst. apply Hf. exact HR. Qed.
  Lemma askip_ret : forall X (x : X), askip (A.ret D x).
  Proof. intros X x sA m y sA' HR H. inversion H; subst. exact HR. Qed.
  Lemma askip_bind : forall X Y (mA : MA X) (kA : X -> MA Y), askip mA -> (forall x, askip (kA x)) -> askip (A.mbind D mA kA).
  Proof.
    intros X Y mA kA H1 H2 sA m y sA' HR H. unfold A.mbind in H. destruct (mA sA) as [[x s1]|e] eqn:E. 2: discriminate.
    exact (H2 x s1 m y sA' (H1 sA m x s1 HR E) H).
  Qed.
  Lemma askip_iterM : forall X (f : X -> MA unit) l, (forall x, askip (f x)) -> askip (A.iterM D f l).
  Proof.
    intros X f l Hf. induction l as [|a t IH]. apply askip_ret. cbn [A.iterM]. apply askip_bind. apply Hf. intros _. exact IH.
  Qed.
  Lemma sim_mapM : forall X Y (fA : X -> MA Y) (f : X -> M Y) l, (forall x, sim (fA x) (f x)) -> sim (A.mapM D fA l) (mapM f l).
  Proof.
    intros X Y fA f l Hf. induction l as [|a t IH]. apply sim_ret. cbn [A.mapM mapM].
    apply sim_bind. apply Hf. intro y. apply sim_bind. exact IH. intro r. apply sim_ret.
  Qed.
  Lemma sim_iterM : forall X (fA : X -> MA unit) (f : X -> M unit) l, (forall x, sim (fA x) (f x)) -> sim (A.iterM D fA l) (iterM f l).
  Proof.
    intros X fA f l Hf. induction l as [|a t IH]. apply sim_ret. cbn [A.iterM iterM]. apply sim_bind. apply Hf. intros _. exact IH.
  Qed.

  (* ---------------- reads ---------------- *)
  Lemma nth_opt_map : forall {X Y} (f : X -> Y) l n, nth_opt (map f l) n = match nth_opt l n with Some x => Some (f x) | None => None end.
  Proof. intros X Y f l. induction l as [|a t IH]; intros [|n]; cbn [map nth_opt]; try reflexivity. apply IH. Qed.

  Lemma get_class_R : forall sA m i, R sA m -> get_class m i = rmap ecl (A.get_class D sA i).
  Proof.
    intros sA m i (_ & Hc & _). unfold get_class, A.get_class. rewrite Hc, nth_opt_map.
    destruct (nth_opt (A.classes D sA) (N.to_nat i)); reflexivity.
  Qed.
  Lemma class_slots_R : forall sA m i, R sA m -> class_slots m i = A.class_slots D sA i.
  Proof. intros sA m i HR. unfold class_slots, A.class_slots. rewrite (get_class_R sA m i HR). destruct (A.get_class D sA i); reflexivity. Qed.
  Lemma syn_slots_R : forall sA m i, R sA m -> syn_slots m i = A.syn_slots D sA i.
  Proof. intros sA m i HR. unfold syn_slots, A.syn_slots. rewrite (get_class_R sA m i HR). destruct (A.get_class D sA i); reflexivity. Qed.
  Lemma unionfind_get_R : forall sA m i, R sA m -> unionfind_get m i = A.unionfind_get D sA i.
  Proof. intros sA m i (Hu & _). unfold unionfind_get, A.unionfind_get. rewrite Hu. reflexivity. Qed.
  Lemma find_applied_id_R : forall sA m a, R sA m -> find_applied_id m a = A.find_applied_id D sA a.
  Proof. intros sA m a HR. unfold find_applied_id, A.find_applied_id. rewrite (unionfind_get_R sA m _ HR). reflexivity. Qed.
  Lemma mapr_ext : forall {X Y} (f g : X -> res Y) l, (forall x, f x = g x) -> mapr f l = mapr g l.
  Proof. intros X Y f g l H. induction l as [|a t IH]. reflexivity. cbn [mapr]. rewrite H, IH. reflexivity. Qed.
  Lemma find_enode_R : forall sA m n, R sA m -> find_enode m n = A.find_enode D sA n.
  Proof.
    intros sA m n HR. unfold find_enode, A.find_enode.
    rewrite (mapr_ext (find_applied_id m) (A.find_applied_id D sA)). reflexivity. intro a. apply find_applied_id_R. exact HR.
  Qed.
  Lemma is_alive_R : forall sA m i, R sA m -> is_alive m i = A.is_alive D sA i.
  Proof. intros sA m i (Hu & _). unfold is_alive, A.is_alive. rewrite Hu. reflexivity. Qed.
  Lemma eg_eq_R : forall sA m a b, R sA m -> eg_eq m a b = A.eg_eq D sA a b.
  Proof.
    intros sA m a b HR. unfold eg_eq, A.eg_eq. rewrite !(find_applied_id_R sA m _ HR).
    destruct (A.find_applied_id D sA a) as [a'|]; cbn [bind]. 2: reflexivity.
    destruct (A.find_applied_id D sA b) as [b'|]; cbn [bind]. 2: reflexivity.
    destruct (negb (aid a' =? aid b')). reflexivity.
    destruct (negb (sset_eqb (values (am a')) (values (am b')))). reflexivity.
    rewrite (get_class_R sA m _ HR). destruct (A.get_class D sA (aid a')); reflexivity.
  Qed.
  Lemma mapr_get_class_R : forall sA m (l : list appid), R sA m ->
    mapr (fun a => get_class m (aid a)) l = rmap (map ecl) (A.mapr (fun a => A.get_class D sA (aid a)) l).
  Proof.
    intros sA m l HR. induction l as [|a t IH]. reflexivity. cbn [mapr A.mapr]. rewrite (get_class_R sA m _ HR), IH.
    destruct (A.get_class D sA (aid a)) as [c|]; cbn [rmap bind]. 2: reflexivity.
    destruct (A.mapr _ t); reflexivity.
  Qed.
  Lemma variants_R : forall sA m n, R sA m -> variants m n = A.variants D sA n.
  Proof.
    intros sA m n HR. unfold variants, A.variants. rewrite (mapr_get_class_R sA m _ HR).
    destruct (A.mapr (fun a => A.get_class D sA (aid a)) (app_occ n)) as [cls|]; cbn [rmap bind]. 2: reflexivity.
    assert (E1 : forallb (fun c => gis_trivial (c_group c)) (map ecl cls) = forallb (fun c => gis_trivial (A.c_group D c)) cls).
    { induction cls as [|c t IH]. reflexivity. cbn [map forallb]. rewrite IH. reflexivity. }
    rewrite E1. clear E1. destruct (forallb _ cls). reflexivity.
    assert (E2 : mapr (fun c => gall_perms false (c_group c)) (map ecl cls) = A.mapr (fun c => gall_perms false (A.c_group D c)) cls).
    { induction cls as [|c t IH]. reflexivity. cbn [map mapr A.mapr]. rewrite IH. reflexivity. }
    rewrite E2. reflexivity.
  Qed.
  Lemma pre_shape_R : forall sA m n, R sA m -> pre_shape m n = A.pre_shape D sA n.
  Proof.
    intros sA m n HR. unfold pre_shape, A.pre_shape. rewrite (find_enode_R sA m n HR).
    destruct (A.find_enode D sA n) as [n'|]; cbn [bind]. 2: reflexivity. rewrite (variants_R sA m n' HR). reflexivity.
  Qed.
  Lemma shape_R : forall sA m n, R sA m -> shape m n = A.shape D sA n.
  Proof. intros sA m n HR. unfold shape, A.shape. rewrite (pre_shape_R sA m n HR). reflexivity. Qed.
  Lemma semify_R : forall sA m a, R sA m -> semify_app_id m a = A.semify_app_id D sA a.
  Proof. intros sA m a HR. unfold semify_app_id, A.semify_app_id. rewrite (class_slots_R sA m _ HR). reflexivity. Qed.
  Lemma lookup_internal_R : forall sA m t, R sA m -> lookup_internal m t = A.lookup_internal D sA t.
  Proof.
    intros sA m [sh b] HR. unfold lookup_internal, A.lookup_internal. destruct HR as (Hu & Hc & Hh & Hr). rewrite Hh.
    change (@na_get N) with (@A.na_get N). destruct (A.na_get (A.hashcons D sA) sh) as [i|]. 2: reflexivity.
    rewrite (get_class_R sA m i (conj Hu (conj Hc (conj Hh Hr)))). destruct (A.get_class D sA i) as [c|]; reflexivity.
  Qed.
  Lemma pc_from_src_id_R : forall sA m i, R sA m -> pc_from_src_id m i = A.pc_from_src_id D sA i.
  Proof.
    intros sA m i HR. unfold pc_from_src_id, A.pc_from_src_id. rewrite (get_class_R sA m i HR).
    destruct (A.get_class D sA i) as [c|]; cbn [rmap bind]. 2: reflexivity. cbn [ecl c_syn aid am].
    destruct (apply_slotmap false _ (A.c_syn D c)) as [n|]; cbn [bind]. 2: reflexivity.
    rewrite (pre_shape_R sA m n HR). destruct (A.pre_shape D sA n); cbn [bind]. 2: reflexivity.
    rewrite (find_applied_id_R sA m _ HR). reflexivity.
  Qed.
  Lemma pc_from_shape_R : forall sA m sh, R sA m -> pc_from_shape m sh = A.pc_from_shape D sA sh.
  Proof.
    intros sA m sh HR. unfold pc_from_shape, A.pc_from_shape. pose proof HR as (_ & _ & Hh & _). rewrite Hh.
    change (@na_get N) with (@A.na_get N). destruct (A.na_get (A.hashcons D sA) sh) as [i|]. 2: reflexivity.
    rewrite (get_class_R sA m i HR). destruct (A.get_class D sA i) as [c|]; cbn [rmap bind]. 2: reflexivity.
    cbn [ecl c_nodes]. change (@na_get (slotmap * N)) with (@A.na_get (slotmap * N)).
    destruct (A.na_get (A.c_nodes D c) sh) as [[b src]|]. 2: reflexivity. apply pc_from_src_id_R. exact HR.
  Qed.

  (* ---------------- the state relation along the setters ---------------- *)
  Lemma R_set_ctr : forall sA m c, R sA m -> R (A.set_ctr D sA c) (set_ctr m c).
  Proof. intros sA m c (H1 & H2 & H3 & H4 & H5). repeat split; try assumption; try reflexivity; apply H5. Qed.
  Lemma R_set_uf : forall sA m u, R sA m -> R (A.set_uf D sA u) (set_uf m u).
  Proof. intros sA m c (H1 & H2 & H3 & H4 & H5). repeat split; try assumption; try reflexivity; apply H5. Qed.
  Lemma R_set_hashcons : forall sA m h, R sA m -> R (A.set_hashcons D sA h) (set_hashcons m h).
  Proof. intros sA m c (H1 & H2 & H3 & H4 & H5). repeat split; try assumption; try reflexivity; apply H5. Qed.
  Lemma R_set_classes : forall sA m cA c, R sA m -> c = map ecl cA -> R (A.set_classes D sA cA) (set_classes m c).
  Proof. intros sA m cA c (H1 & H2 & H3 & H4 & H5) E. repeat split; try assumption; try reflexivity; apply H5. Qed.
  Lemma R_set_pending : forall sA m pA p, R sA m -> prel pA p -> R (A.set_pending D sA pA) (set_pending m p).
  Proof. intros sA m pA p (H1 & H2 & H3 & H4 & H5) E. repeat split; try assumption; try reflexivity; apply E. Qed.
  Lemma R_set_pending_l : forall sA m pA, R sA m -> prel pA (pending m) -> R (A.set_pending D sA pA) m.
  Proof. intros sA m pA (H1 & H2 & H3 & H4 & H5) E. repeat split; try assumption; try reflexivity; apply E. Qed.
  Lemma R_set_mq : forall sA m q, R sA m -> R (A.set_mq D sA q) m.
  Proof. intros sA m c (H1 & H2 & H3 & H4 & H5). repeat split; try assumption; try reflexivity; apply H5. Qed.
  Lemma R_set_classes_l : forall sA m cA, R sA m -> map ecl cA = map ecl (A.classes D sA) -> R (A.set_classes D sA cA) m.
  Proof. intros sA m cA (H1 & H2 & H3 & H4 & H5) E. repeat split; try assumption; try reflexivity; try apply H5. cbn [A.classes A.set_classes]. rewrite E. exact H2. Qed.

  Lemma set_nth_map : forall {X Y} (f : X -> Y) l n x, set_nth (map f l) n (f x) = map f (set_nth l n x).
  Proof. intros X Y f l. induction l as [|a t IH]; intros [|n] x; cbn [map set_nth]; try reflexivity. rewrite IH. reflexivity. Qed.

  (* ---------------- primitives ---------------- *)
  Lemma sim_fresh : sim (A.fresh D) fresh.
  Proof.
    intros sA m x sA' HR H. unfold A.fresh in H. inversion H; subst. pose proof HR as (_ & _ & _ & Hc & _).
    exists (set_ctr m (ctr m + 4)). split. unfold fresh. rewrite Hc. reflexivity. rewrite Hc. apply R_set_ctr. exact HR.
  Qed.
  Lemma sim_with_ctr : forall X (f : N -> X * N), sim (A.with_ctr D f) (with_ctr f).
  Proof.
    intros X f sA m x sA' HR H. unfold A.with_ctr in H. pose proof HR as (_ & _ & _ & Hc & _). unfold with_ctr. rewrite Hc.
    destruct (f (A.ctr D sA)) as [a c]. inversion H; subst. exists (set_ctr m c). split. reflexivity. apply R_set_ctr. exact HR.
  Qed.
  Lemma sim_upd_class : forall i (fA : A.eclass D -> A.eclass D) (f : eclass -> eclass),
    (forall c, f (ecl c) = ecl (fA c)) -> sim (A.upd_class D i fA) (upd_class i f).
  Proof.
    intros i fA f Hf sA m x sA' HR H. unfold A.upd_class in H. pose proof HR as (_ & Hc & _). unfold upd_class. rewrite Hc, nth_opt_map.
    destruct (nth_opt (A.classes D sA) (N.to_nat i)) as [c|]. 2: discriminate. inversion H; subst.
    eexists. split. reflexivity. apply R_set_classes. exact HR. rewrite Hf. apply set_nth_map.
  Qed.
  Lemma askip_upd_class : forall i (fA : A.eclass D -> A.eclass D), (forall c, ecl (fA c) = ecl c) -> askip (A.upd_class D i fA).
  Proof.
    intros i fA Hf sA m x sA' HR H. unfold A.upd_class in H.
    destruct (nth_opt (A.classes D sA) (N.to_nat i)) as [c|] eqn:E. 2: discriminate. inversion H; subst.
    apply R_set_classes_l. exact HR. rewrite <- set_nth_map. rewrite Hf.
    clear -E. revert E. generalize (N.to_nat i). induction (A.classes D sA) as [|a t IH]; intros [|n] E; cbn [nth_opt] in E; try discriminate.
    inversion E; subst. reflexivity. cbn [map set_nth]. rewrite IH. reflexivity. exact E.
  Qed.
  Lemma sim_unionfind_set : forall i p, sim (A.unionfind_set D i p) (unionfind_set i p).
  Proof.
    intros i p sA m x sA' HR H. unfold A.unionfind_set in H. pose proof HR as (Hu & _). unfold unionfind_set. rewrite Hu.
    destruct (Nat.eqb _ _). inversion H; subst. eexists. split. reflexivity. apply R_set_uf. exact HR.
    destruct (Nat.ltb _ _). inversion H; subst. eexists. split. reflexivity. apply R_set_uf. exact HR. discriminate.
  Qed.

  Lemma node_eq_dec_s : forall n m : node, n = m \/ n <> m.
  Proof.
    intros n m. destruct (A.node_eqb n m) eqn:E. left. apply AB.node_eqb_true. exact E.
    right. intro H. apply AB.node_eqb_true in H. congruence.
  Qed.
  Lemma prel_set_true : forall pA pM sh, prel pA pM -> prel (A.na_set pA sh true) (A.na_set pM sh true).
  Proof.
    intros pA pM sh H y. destruct (node_eq_dec_s y sh) as [->|Hne].
    - rewrite !AB.na_get_set_same. split; reflexivity.
    - rewrite !AB.na_get_set_other by exact Hne. apply H.
  Qed.

  Lemma prel_app_false : forall pA pM sh, prel pA pM -> A.na_get pA sh = None -> prel (pA ++ [(sh, false)]) pM.
  Proof.
    intros pA pM sh H Hn y. rewrite <- (H y). destruct (A.na_get pA y) as [v|] eqn:E.
    - rewrite (AB.na_get_app_some _ _ _ _ E). reflexivity.
    - rewrite (AB.na_get_app_none _ _ _ E). cbn [A.na_get]. destruct (A.node_eqb y sh); split; discriminate.
  Qed.
  Lemma prel_set_same : forall pA pM sh v, prel pA pM -> A.na_get pA sh = Some v -> prel (A.na_set pA sh v) pM.
  Proof.
    intros pA pM sh v H Hv y. rewrite <- (H y). destruct (node_eq_dec_s y sh) as [->|Hne].
    - rewrite AB.na_get_set_same, Hv. reflexivity.
    - rewrite AB.na_get_set_other by exact Hne. reflexivity.
  Qed.
  Lemma prel_touch_true : forall pA pM sh, prel pA pM ->
    prel (match A.na_get pA sh with None => pA ++ [(sh, true)] | Some v => A.na_set pA sh (v || true) end)
         (match A.na_get pM sh with None => pM ++ [(sh, true)] | Some v => A.na_set pM sh (v || true) end).
  Proof.
    intros pA pM sh H y.
    assert (GA : forall p, A.na_get (match A.na_get p sh with None => p ++ [(sh, true)] | Some v => A.na_set p sh (v || true) end) y
                 = if A.node_eqb y sh then Some true else A.na_get p y).
    { intro p. destruct (node_eq_dec_s y sh) as [->|Hne].
      - rewrite AB.node_eqb_refl. destruct (A.na_get p sh) as [v|] eqn:E.
        + rewrite orb_true_r. apply AB.na_get_set_same.
        + rewrite (AB.na_get_app_none _ _ _ E). cbn [A.na_get]. rewrite AB.node_eqb_refl. reflexivity.
      - rewrite (AB.node_eqb_false _ _ Hne). destruct (A.na_get p sh) as [v|] eqn:E.
        + apply AB.na_get_set_other. exact Hne.
        + destruct (A.na_get p y) as [w|] eqn:Ey. apply (AB.na_get_app_some _ _ _ _ Ey).
          rewrite (AB.na_get_app_none _ _ _ Ey). cbn [A.na_get]. rewrite (AB.node_eqb_false _ _ Hne). reflexivity. }
    rewrite !GA. destruct (A.node_eqb y sh). split; reflexivity. apply H.
  Qed.

  Lemma sim_pending_insert : forall sh, sim (A.pending_insert D sh true) (pending_insert sh true).
  Proof.
    intro sh. apply sim_modify. intros sA m HR. apply R_set_pending. exact HR. apply prel_set_true. apply HR.
  Qed.
  Lemma sim_pending_touch : forall sh, sim (A.pending_touch D sh true) (pending_touch sh true).
  Proof.
    intro sh. apply sim_modify. intros sA m HR. apply R_set_pending. exact HR. apply prel_touch_true. apply HR.
  Qed.
  Lemma askip_pending_touch : forall sh, askip (A.pending_touch D sh false).
  Proof.
    intro sh. apply askip_modify. intros sA m HR. apply R_set_pending_l. exact HR. pose proof HR as (_ & _ & _ & _ & Hp).
    destruct (A.na_get (A.pending D sA) sh) as [v|] eqn:E.
    - rewrite orb_false_r. apply prel_set_same. exact Hp. exact E.
    - apply prel_app_false. exact Hp. exact E.
  Qed.
  Lemma askip_mq_push : forall i, askip (A.mq_push D i).
  Proof. intro i. apply askip_modify. intros sA m HR. apply R_set_mq. exact HR. Qed.


  Lemma sim_bind_class : forall i Y (kA : A.eclass D -> MA Y) (kM : eclass -> M Y),
    (forall c, sim (kA c) (kM (ecl c))) ->
    sim (A.mbind D (A.reads D (fun s => A.get_class D s i)) kA) (mbind (reads (fun s => get_class s i)) kM).
  Proof.
    intros i Y kA kM Hk sA m y sA' HR H. unfold A.mbind, A.reads in H. unfold mbind, reads. rewrite (get_class_R sA m i HR).
    destruct (A.get_class D sA i) as [c|]. 2: discriminate. cbn [rmap]. exact (Hk c sA m y sA' HR H).
  Qed.

  Lemma sim_touched_class : forall i, sim (A.touched_class D i true) (touched_class i true).
  Proof.
    intro i. unfold A.touched_class, touched_class. apply sim_bind_class. intro c. cbn [ecl c_usages].
    apply sim_iterM. intro sh. apply sim_pending_touch.
  Qed.
  Lemma askip_touched_class : forall i, askip (A.touched_class D i false).
  Proof.
    intro i. unfold A.touched_class. apply askip_bind. apply askip_reads. intro c. apply askip_iterM. intro sh. apply askip_pending_touch.
  Qed.
  Lemma askip_update_analysis : forall sh i, askip (A.update_analysis D data_eqb make merge sh i).
  Proof.
    intros sh i. unfold A.update_analysis. apply askip_bind. apply askip_reads. intro v. apply askip_bind. apply askip_reads. intro c.
    apply askip_bind. apply askip_upd_class. intro c0. reflexivity. intros _.
    destruct (data_eqb _ _). apply askip_ret. apply askip_bind. apply askip_mq_push. intros _. apply askip_touched_class.
  Qed.

  Lemma sim_raw_add : forall id t src, sim (A.raw_add_to_class D id t src) (raw_add_to_class id t src).
  Proof.
    intros id [sh bij] src. unfold A.raw_add_to_class, raw_add_to_class.
    apply sim_bind. apply sim_upd_class. intro c. reflexivity. intros _.
    apply sim_bind. apply sim_modify. intros sA m HR. pose proof HR as (_ & _ & Hh & _). rewrite Hh. apply R_set_hashcons. exact HR. intros _.
    apply sim_iterM. intro r. apply sim_upd_class. intro c. reflexivity.
  Qed.
  Lemma sim_raw_remove : forall id sh, sim (A.raw_remove_from_class D id sh) (raw_remove_from_class id sh).
  Proof.
    intros id sh. unfold A.raw_remove_from_class, raw_remove_from_class. apply sim_bind_class. intro c. cbn [ecl c_nodes].
    apply sim_bind. apply sim_upd_class. intro c0. reflexivity. intros _.
    apply sim_bind. apply sim_modify. intros sA m HR. pose proof HR as (_ & _ & Hh & _). rewrite Hh. apply R_set_hashcons. exact HR. intros _.
    apply sim_bind. apply sim_iterM. intro r. apply sim_upd_class. intro c0. reflexivity. intros _.
    change (@na_get (slotmap * N)) with (@A.na_get (slotmap * N)).
    destruct (A.na_get (A.c_nodes D c) sh). apply sim_ret. apply sim_fail.
  Qed.

  Lemma sim_alloc : forall sl syn, sim (A.alloc_eclass D make sl syn) (alloc_eclass sl syn).
  Proof.
    intros sl syn. unfold A.alloc_eclass, alloc_eclass.
    apply sim_bind. apply sim_gets. intros sA m (Hu & _). rewrite Hu. reflexivity. intro c_id.
    apply sim_bind. apply sim_lift. intro g.
    apply sim_skip. apply askip_reads. intro d.
    apply sim_bind. apply sim_modify. intros sA m HR. apply R_set_classes. exact HR.
    pose proof HR as (_ & Hc & _). rewrite Hc. rewrite map_app. reflexivity. intros _.
    apply sim_bind. apply sim_unionfind_set. intros _. apply sim_ret.
  Qed.

  Fixpoint goA (l : list slot) (m : slotmap) : MA slotmap :=
    match l with [] => A.ret D m | x :: t => if contains_key m x then goA t m else A.mbind D (A.fresh D) (fun f => goA t (insert x f m)) end.
  Fixpoint goM (l : list slot) (m : slotmap) : M slotmap :=
    match l with [] => ret m | x :: t => if contains_key m x then goM t m else mbind fresh (fun f => goM t (insert x f m)) end.
  Lemma sim_syn_go : forall l mp, sim (goA l mp) (goM l mp).
  Proof.
    induction l as [|x t IH]; intro mp. apply sim_ret.
    cbn [goA goM]. destruct (contains_key mp x). apply IH. apply sim_bind. apply sim_fresh. intro f. apply IH.
  Qed.
  Lemma sim_synify_app_id : forall a, sim (A.synify_app_id D a) (synify_app_id a).
  Proof.
    intro a. unfold A.synify_app_id, synify_app_id.
    apply sim_bind. apply sim_reads. intros sA m HR. apply syn_slots_R. exact HR. intro ss.
    apply sim_bind. exact (sim_syn_go ss (am a)). intro mp. apply sim_ret.
  Qed.
  Lemma sim_synify_enode : forall n, sim (A.synify_enode D n) (synify_enode n).
  Proof.
    intro n. unfold A.synify_enode, synify_enode. apply sim_bind. apply sim_mapM. apply sim_synify_app_id. intro l. apply sim_ret.
  Qed.
  Lemma sim_pc_congruence : forall a b, sim (A.pc_congruence D a b) (pc_congruence a b).
  Proof.
    intros a b. unfold A.pc_congruence, pc_congruence.
    apply sim_bind. apply sim_lift. intro sa. apply sim_bind. apply sim_lift. intro sb.
    apply sim_bind. apply sim_with_ctr. intro mp. apply sim_bind. apply sim_with_ctr. intros _.
    apply sim_bind. apply sim_with_ctr. intro bm. apply sim_ret.
  Qed.

  (* ---------------- the union core ---------------- *)
  Section CoreSim.
    Variable uiA : appid -> appid -> MA bool.
    Variable uiM : appid -> appid -> M bool.
    Hypothesis H_ui : forall l r, sim (uiA l r) (uiM l r).

    Lemma sim_rrw : forall i cap, sim (A.record_redundancy_witness D i cap) (record_redundancy_witness i cap).
    Proof.
      intros i cap. unfold A.record_redundancy_witness, record_redundancy_witness.
      apply sim_bind. apply sim_reads. intros sA m HR. apply syn_slots_R. exact HR. intro ss. apply sim_unionfind_set.
    Qed.

    Lemma sim_shrink_slots : forall from cap, sim (A.shrink_slots D uiA from cap) (shrink_slots uiM from cap).
    Proof.
      intros from cap. unfold A.shrink_slots, shrink_slots.
      apply sim_bind. apply sim_lift. intro origcap.
      apply sim_bind. apply sim_rrw. intros _.
      apply sim_bind_class. intro c. cbn [ecl c_group].
      apply sim_bind. apply sim_lift. intro flags.
      apply sim_bind. apply sim_lift. intro g.
      apply sim_bind. apply sim_upd_class. intro c0. reflexivity. intros _.
      apply sim_bind. apply sim_touched_class. intros _.
      apply sim_iterM. intro pp.
      apply sim_bind. apply sim_reads. intros sA m HR. apply class_slots_R. exact HR. intro sl.
      apply sim_bind. apply sim_lift. intro ps.
      apply sim_bind. apply H_ui. intros _. apply sim_ret.
    Qed.

    Lemma sim_move_to : forall from to, sim (A.move_to D data_eqb merge from to) (move_to from to).
    Proof.
      intros from to. unfold A.move_to, move_to.
      apply sim_skip. apply askip_reads. intro a_from.
      apply sim_skip. apply askip_reads. intro to_id.
      apply sim_skip. apply askip_reads. intro a_to.
      apply sim_skip. apply askip_upd_class. intro c0. reflexivity. intros _.
      apply sim_skip.
      { destruct (data_eqb _ _). apply askip_ret. apply askip_bind. apply askip_mq_push. intros _. apply askip_touched_class. }
      intros _.
      apply sim_bind. apply sim_unionfind_set. intros _.
      apply sim_bind_class. intro cf. cbn [ecl c_nodes].
      apply sim_bind.
      { apply sim_iterM. intros [sh [bij src_id]].
        apply sim_bind. apply sim_raw_remove. intros _.
        apply sim_bind. apply sim_with_ctr. intro new_bij.
        apply sim_bind. apply sim_raw_add. intros _. apply sim_pending_insert. }
      intros _.
      apply sim_bind_class. intro cf2. cbn [ecl c_group].
      apply sim_bind_class. intro ct. cbn [ecl c_group].
      apply sim_bind. apply sim_lift. intro r.
      apply sim_bind. apply sim_upd_class. intro c0. reflexivity. intros _.
      apply sim_bind. destruct (snd r). apply sim_touched_class. apply sim_ret. intros _.
      apply sim_touched_class.
    Qed.

    Lemma sim_union_leaders : forall l r, sim (A.union_leaders D data_eqb merge uiA l r) (union_leaders uiM l r).
    Proof.
      intros l r. unfold A.union_leaders, union_leaders.
      apply sim_bind. apply sim_reads. intros sA m HR. apply eg_eq_R. exact HR. intro e.
      destruct e. apply sim_ret.
      destruct (negb (sset_eqb (values (am l)) (sset_inter (values (am l)) (values (am r))))).
      { apply sim_bind. apply sim_shrink_slots. intros _. apply sim_bind. apply H_ui. intros _. apply sim_ret. }
      destruct (negb (sset_eqb (values (am r)) (sset_inter (values (am l)) (values (am r))))).
      { apply sim_bind. apply sim_shrink_slots. intros _. apply sim_bind. apply H_ui. intros _. apply sim_ret. }
      destruct (aid l =? aid r).
      { apply sim_bind_class. intro c. cbn [ecl c_group].
        apply sim_bind. apply sim_lift. intro b. destruct b. apply sim_ret.
        apply sim_bind. apply sim_lift. intro g.
        apply sim_bind. apply sim_upd_class. intro c0. reflexivity. intros _.
        apply sim_bind. apply sim_touched_class. intros _. apply sim_ret. }
      apply sim_bind_class. intro cl. apply sim_bind_class. intro cr. cbn [ecl c_syn c_nodes c_usages].
      apply sim_bind. 2: { intros _. apply sim_ret. }
      match goal with |- sim (if ?b then _ else _) _ => destruct b end; apply sim_move_to.
    Qed.

    Lemma sim_union_internal_body : forall l r, sim (A.union_internal_body D data_eqb merge uiA l r) (union_internal_body uiM l r).
    Proof.
      intros l r. unfold A.union_internal_body, union_internal_body.
      apply sim_bind. apply sim_reads. intros sA m HR. apply find_applied_id_R. exact HR. intro l'.
      apply sim_bind. apply sim_reads. intros sA m HR. apply find_applied_id_R. exact HR. intro r'.
      apply sim_union_leaders.
    Qed.
  End CoreSim.

  Lemma sim_union_internal : forall fuel l r, sim (A.union_internal D data_eqb merge fuel l r) (union_internal fuel l r).
  Proof.
    induction fuel as [|f IH]; intros l r. apply sim_fail.
    cbn [A.union_internal union_internal]. apply sim_union_internal_body. exact IH.
  Qed.
  Lemma sim_uint : forall l r, sim (A.uint D data_eqb merge l r) (uint l r).
  Proof. intros l r. apply sim_union_internal. Qed.

  (* ---------------- the pending loop body ---------------- *)
  Lemma sim_handle_shrink : forall src, sim (A.handle_shrink_in_upwards_merge D data_eqb merge src) (handle_shrink_in_upwards_merge src).
  Proof.
    intro src. unfold A.handle_shrink_in_upwards_merge, handle_shrink_in_upwards_merge.
    apply sim_bind. apply sim_reads. intros sA m HR. apply pc_from_src_id_R. exact HR. intro pc1.
    apply sim_bind. apply sim_reads. intros sA m HR. apply find_enode_R. exact HR. intro n2.
    apply sim_bind. apply sim_pc_congruence. intros [a b]. apply sim_shrink_slots. apply sim_uint.
  Qed.
  Lemma sim_handle_congruence : forall pc, sim (A.handle_congruence D data_eqb merge pc) (handle_congruence pc).
  Proof.
    intro pc. unfold A.handle_congruence, handle_congruence.
    apply sim_bind. apply sim_reads. intros sA m HR. apply shape_R. exact HR. intro sh.
    apply sim_bind. apply sim_reads. intros sA m HR. apply pc_from_shape_R. exact HR. intro pc2.
    apply sim_bind. apply sim_pc_congruence. intro ab.
    apply sim_bind. apply sim_uint. intros _. apply sim_ret.
  Qed.
  Lemma sim_dss : forall src, sim (A.determine_self_symmetries D data_eqb merge src) (determine_self_symmetries src).
  Proof.
    intro src. unfold A.determine_self_symmetries, determine_self_symmetries.
    apply sim_bind. apply sim_reads. intros sA m HR. apply pc_from_src_id_R. exact HR. intro pc1.
    apply sim_bind. apply sim_lift. intro w.
    apply sim_bind. apply sim_reads. intros sA m HR. apply variants_R. exact HR. intro vs.
    apply sim_iterM. intro pn2.
    apply sim_bind. apply sim_lift. intro w2.
    change (node_eqb (fst w) (fst w2)) with (A.node_eqb (fst w) (fst w2)).
    destruct (A.node_eqb (fst w) (fst w2)). 2: apply sim_ret.
    apply sim_bind. apply sim_pc_congruence. intro ab.
    apply sim_bind. apply sim_uint. intros _. apply sim_ret.
  Qed.
  Lemma sim_hp_loop : forall fuel src enode i, sim (A.hp_loop D data_eqb merge fuel src enode i) (hp_loop fuel src enode i).
  Proof.
    induction fuel as [|f IH]; intros src enode i. apply sim_fail.
    cbn [A.hp_loop hp_loop]. destruct (sset_subset (values (am i)) (slots enode)). apply sim_ret.
    apply sim_bind. apply sim_handle_shrink. intros _.
    apply sim_bind. apply sim_reads. intros sA m HR. apply find_enode_R. exact HR. intro enode'.
    apply sim_bind. apply sim_reads. intros sA m HR. apply find_applied_id_R. exact HR. intro i'. apply IH.
  Qed.

  Theorem sim_handle_pending : forall sh ty, sim (A.handle_pending D data_eqb make merge sh ty) (handle_pending sh ty).
  Proof.
    intros sh ty. unfold A.handle_pending, handle_pending.
    apply sim_bind.
    { apply sim_reads. intros sA m (_ & _ & Hh & _). rewrite Hh. reflexivity. }
    intro i. apply sim_skip. apply askip_update_analysis. intros _.
    destruct (negb ty). apply sim_ret.
    apply sim_bind_class. intro c. cbn [ecl c_nodes].
    apply sim_bind. apply sim_lift. intros [bij0 src_id].
    apply sim_bind. apply sim_lift. intro nd.
    apply sim_bind. apply sim_raw_remove. intros _.
    apply sim_bind. apply sim_reads. intros sA m HR. apply class_slots_R. exact HR. intro sl.
    apply sim_bind. apply sim_reads. intros sA m HR. apply find_enode_R. exact HR. intro enode.
    apply sim_bind. apply sim_reads. intros sA m HR. apply find_applied_id_R. exact HR. intro i1.
    apply sim_bind. apply sim_hp_loop. intros [enode' i1'].
    apply sim_bind. apply sim_reads. intros sA m HR. apply shape_R. exact HR. intro t.
    apply sim_bind. apply sim_reads. intros sA m HR. apply lookup_internal_R. exact HR. intro lk.
    destruct lk as [x|].
    - apply sim_bind. apply sim_reads. intros sA m HR. apply pc_from_src_id_R. exact HR. intro pc. apply sim_handle_congruence.
    - destruct t as [sh' bij].
      apply sim_bind. exact (sim_syn_go (values bij) (inverse_nocheck (am i1'))). intro mp.
      apply sim_bind. apply sim_raw_add. intros _. apply sim_dss.
  Qed.

  (* ---------------- the operations up to their rebuild ---------------- *)
  Theorem sim_union_pre : forall l r, sim (A.eg_union D data_eqb merge (A.ret D tt) l r) (union_pre l r).
  Proof.
    intros l r. unfold A.eg_union, union_pre.
    apply sim_bind. apply sim_synify_app_id. intros _.
    apply sim_bind. apply sim_synify_app_id. intros _.
    intros sA m x sA' HR H.
    unfold A.mbind in H. destruct (A.uint D data_eqb merge l r sA) as [[out s1]|] eqn:E. 2: discriminate.
    cbn [A.ret] in H. inversion H; subst. exact (sim_uint l r sA m x sA' HR E).
  Qed.

  Lemma sim_mk_singleton_pre : forall en, sim (A.mk_singleton_class D make (A.ret D tt) en) (mk_singleton_pre en).
  Proof.
    intro en. unfold A.mk_singleton_class, mk_singleton_pre.
    apply sim_bind. apply sim_with_ctr. intro f2o.
    apply sim_bind. apply sim_with_ctr. intro synf.
    apply sim_bind. apply sim_alloc. intro i.
    apply sim_bind. apply sim_lift. intro t.
    apply sim_bind. apply sim_raw_add. intros _.
    apply sim_bind. apply sim_pending_insert. intros _.
    apply sim_skip. apply askip_mq_push. intros _.
    apply sim_skip. apply askip_ret. intros _. apply sim_ret.
  Qed.
  Theorem sim_add_pre : forall t, sim (AnalysisModelTop.add_pre0 D make t) (add_pre t).
  Proof.
    intro t. unfold AnalysisModelTop.add_pre0, add_pre.
    apply sim_bind.
    { intros sA m x sA' HR H. pose proof HR as (_ & _ & _ & Hc & _). rewrite Hc.
      destruct (refresh_private (fst t) (A.ctr D sA)) as [r c]. destruct r as [n|e]. 2: discriminate.
      inversion H; subst. eexists. split. reflexivity. apply R_set_ctr. exact HR. }
    intro en1. apply sim_bind. apply sim_lift. intro en2.
    apply sim_bind. apply sim_synify_enode. intro en3. apply sim_mk_singleton_pre.
  Qed.

  (* ---------------- erase ---------------- *)
  Lemma erase_of_R : forall sA m, R sA m -> erase sA = set_pending m (A.pending D sA).
  Proof. intros sA [u c h p k] (H1 & H2 & H3 & H4 & _). cbn in H1, H2, H3, H4. subst. reflexivity. Qed.
  Lemma erase_set_pending : forall s p, erase (A.set_pending D s p) = set_pending (erase s) p.
  Proof. reflexivity. Qed.
  Lemma erase_set_mq : forall s q, erase (A.set_mq D s q) = erase s.
  Proof. reflexivity. Qed.
  Lemma erase_empty : erase (A.empty_egraph D) = empty_egraph.
  Proof. reflexivity. Qed.
  Lemma R_prel : forall sA m, R sA m -> forall y, A.na_get (A.pending D sA) y = Some true <-> A.na_get (pending m) y = Some true.
  Proof. intros sA m HR. apply HR. Qed.
End Sim.

Print Assumptions sim_handle_pending.
Print Assumptions sim_union_pre.
Print Assumptions sim_add_pre.
Print Assumptions sim_hp_loop.
Print Assumptions sim_raw_remove.
