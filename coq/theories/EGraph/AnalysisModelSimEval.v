(* EGraph/AnalysisModelSimEval.v — executable checks around the simulation ModelA -> Model (AnalysisModelSim.v) on the
   histories of AnalysisModelEval.v (vm_compute):
   (a) `sim_final`: for every history, the run of ModelA (min-size, depth) and the run of Model.v return the same
       handles, and the ERASED final state of ModelA equals the final state of Model.v field by field (union-find,
       classes, hashcons, counter; pending = [] on both sides).  On these histories the extra OnlyAnalysis entries
       of ModelA's pending list do not change the order in which the Full entries are processed; in general the
       two rebuild loops are different runs, which is why AnalysisModelClosed.v relates the models round by round
       and not by their final states.
   (b) `static_ok`: which histories satisfy OpsPreFacts.term_staticb (the premise of
       modelA_data_is_fixpoint_all_histories) on all their terms: 1-7 do, 8 and 9 do not (`static_fail_is_binders`:
       the only failing clause is NoDup (binders n), at nodes of variant 11). *)
From SE Require Import Lang.Sig Group.Group Sem.Term Sem.EgMachine EGraph.Model EGraph.ModelMachine.
From SE Require Lang.RenameFacts EGraph.AddCoversFacts EGraph.HashconsAbs EGraph.AnalysisModelTop EGraph.ModelA EGraph.ModelAMachine EGraph.AnalysisModelEval EGraph.AnalysisModelSim EGraph.OpsPreFacts.
From Coq Require Import List NArith Bool String.
Import ListNotations.
Module A := SE.EGraph.ModelA.
Module SM := SE.EGraph.AnalysisModelSim.

Fixpoint group_eqb (g h : group) {struct g} : bool :=
  match g, h with
  | Grp i nx, Grp j ny =>
      eqb_map i j &&
      match nx, ny with
      | None, None => true
      | Some (s, l, g'), Some (s', l', h') =>
          N.eqb s s' && forallb2 (fun a b => N.eqb (fst a) (fst b) && eqb_map (snd a) (snd b)) l l' && group_eqb g' h'
      | _, _ => false
      end
  end.
Definition eclass_eqb (c d : Model.eclass) : bool :=
  forallb2 (fun e e' => node_eqb (fst e) (fst e') && eqb_map (fst (snd e)) (fst (snd e')) && N.eqb (snd (snd e)) (snd (snd e')))
           (c_nodes c) (c_nodes d)
  && sset_eqb (c_slots c) (c_slots d) && forallb2 node_eqb (c_usages c) (c_usages d)
  && group_eqb (c_group c) (c_group d) && node_eqb (c_syn c) (c_syn d).
Definition egraph_eqb (s t : Model.egraph) : bool :=
  forallb2 appid_eqb (Model.unionfind s) (Model.unionfind t) && forallb2 eclass_eqb (Model.classes s) (Model.classes t)
  && forallb2 (fun e e' => node_eqb (fst e) (fst e') && N.eqb (snd e) (snd e')) (Model.hashcons s) (Model.hashcons t)
  && forallb2 (fun e e' => node_eqb (fst e) (fst e') && Bool.eqb (snd e) (snd e')) (Model.pending s) (Model.pending t)
  && N.eqb (Model.ctr s) (Model.ctr t).

Section RunA.
  Variable D : Type.
  Variable data_eqb : D -> D -> bool.
  Variable make : (N -> res D) -> node -> res D.
  Variable merge : D -> D -> D.
  Fixpoint runA (terms : list rterm) (ops : list hop) (hs : list appid) (s : A.egraph D) : res (list appid * A.egraph D) :=
    match ops with
    | [] => Ok (hs, s)
    | HAdd k :: t =>
        match nth_opt terms k with
        | None => Err OutOfBounds
        | Some tm => match A.add_expr0 D data_eqb make merge 0 (fun _ => None) tm s with
                     | Ok (a, s') => runA terms t (hs ++ [a]) s' | Err e => Err e end
        end
    | HUnion i j _ :: t =>
        match nth_opt hs i, nth_opt hs j with
        | Some a, Some b => match A.eg_union0 D data_eqb make merge 0 (fun _ => None) a b s with
                            | Ok (_, s') => runA terms t hs s' | Err e => Err e end
        | _, _ => Err OutOfBounds
        end
    end.
  Definition sim_case (c : sexp) : bool :=
    match AnalysisModelEval.args_of c with
    | _ :: Lst (Sym "terms" :: ts) :: Lst (Sym "ops" :: os) :: _ =>
        match dec_rterms ts, dec_hops os with
        | Some rts, Some ops =>
            match runA rts ops [] (A.empty_egraph D), ModelMachine.run_ops rts ops [] Model.empty_egraph with
            | Ok (hsA, sA), Ok (hsM, m) => forallb2 appid_eqb hsA hsM && egraph_eqb (SM.erase D sA) m
            | _, _ => false
            end
        | _, _ => false
        end
    | _ => false
    end.
End RunA.

Definition static_case (c : sexp) : bool :=
  match AnalysisModelEval.args_of c with
  | _ :: Lst (Sym "terms" :: ts) :: _ =>
      match dec_rterms ts with Some rts => forallb OpsPreFacts.term_staticb rts | None => false end
  | _ => false
  end.

Lemma sim_final_minsize : map (sim_case N N.eqb ModelAMachine.make_minsize N.min) AnalysisModelEval.cases_ex = map (fun _ => true) AnalysisModelEval.cases_ex.
Proof. vm_compute. reflexivity. Qed.
Lemma sim_final_depth : map (sim_case N N.eqb ModelAMachine.make_depth N.min) AnalysisModelEval.cases_ex = map (fun _ => true) AnalysisModelEval.cases_ex.
Proof. vm_compute. reflexivity. Qed.

(* (b) histories 1-7 are static; histories 8 and 9 contain nodes (variant 11) with a repeated binder name: they are outside
   the premise of modelA_data_is_fixpoint_all_histories (NoDup (binders n)), although the guards of AnalysisModelKeyEval.v
   and the invariants of AnalysisModelEval.v hold on them too *)
Lemma static_ok : map static_case AnalysisModelEval.cases_ex = [true; true; true; true; true; true; true; false; false].
Proof. vm_compute. reflexivity. Qed.

(* per node: (variant, NoDup binders, one child per position, no slot 1 mod 4); the failing nodes only *)
Fixpoint diag (t : rterm) : list (nat * bool * bool * bool) :=
  match t with
  | RT n ch => (nvar n, SlotMap.nodupb (RenameFacts.binders n), Nat.eqb (List.length ch) (List.length (app_occ n)),
                forallb (fun x => negb (N.eqb (N.modulo x 4) 1)) (all_occ n))
               :: flat_map diag ch
  end.
Definition diag_case (c : sexp) :=
  match AnalysisModelEval.args_of c with
  | _ :: Lst (Sym "terms" :: ts) :: _ =>
      match dec_rterms ts with Some rts => map (fun t => filter (fun q => negb (snd (fst (fst q)) && snd (fst q) && snd q)) (diag t)) rts | None => [] end
  | _ => []
  end.
Lemma static_fail_is_binders :
  forallb (fun c => forallb (forallb (fun q => negb (snd (fst (fst q))) && snd (fst q) && snd q)) (diag_case c))
          [nth 7 AnalysisModelEval.cases_ex (Num 0); nth 8 AnalysisModelEval.cases_ex (Num 0)] = true.
Proof. vm_compute. reflexivity. Qed.

(* (c) FALSE formulation: "node_ok s n for every node n in every reachable state" (premise (1) of AnalysisModelReach.v
   without node_pre).  The two counterexamples of HashconsAbs.v (absent_needs_covers, absent_needs_old_slots), run in
   ModelA: a reachable state s (static terms), a node n whose lookup misses, and the prefix of its insertion OVERWRITES
   a hash-cons entry (keeps_hc fails).  In the first the child invocation does not cover its class, in the second a
   user slot is named like the fresh slot that refresh_private draws next. *)
Definition overwrites (D : Type) (s s1 : A.egraph D) : bool :=
  existsb (fun e => match A.na_get (A.hashcons D s1) (fst e) with Some j => negb (N.eqb j (snd e)) | None => true end) (A.hashcons D s).
Definition node_ok_chk (T : list rterm) (O : list hop) (mkn : A.egraph N -> node) : option (bool * bool * bool) :=
  match runA N N.eqb ModelAMachine.make_minsize N.min T O [] (A.empty_egraph N) with
  | Ok (_, s) =>
      let n := mkn s in
      match A.shape N s n with
      | Ok t => match A.lookup_internal N s t, AnalysisModelTop.add_pre0 N ModelAMachine.make_minsize t s with
                | Ok None, Ok (_, s1) => Some (forallb OpsPreFacts.term_staticb T, true, overwrites N s s1)
                | _, _ => None end
      | Err _ => None end
  | Err _ => None end.
Example node_ok_needs_covers :
  node_ok_chk AddCoversFacts.xT1 (firstn 3 AddCoversFacts.xO1) (fun _ => HashconsAbs.abs_nd 3 [AApp {| aid := 0; am := [] |}]) = Some (true, true, true).
Proof. vm_compute. reflexivity. Qed.
Example node_ok_needs_old_slots :
  node_ok_chk AddCoversFacts.xT4 (firstn 1 AddCoversFacts.xO4)
    (fun s => HashconsAbs.abs_nd 0 [ABind 2 (AApp {| aid := 0; am := [(1, A.ctr N s); (5, 6)] |})]) = Some (true, true, true).
Proof. vm_compute. reflexivity. Qed.
