(* EGraph/AnalysisModelStab.v — the data-writing steps of EGraph/ModelA.v preserve stability:
   update_analysis (handle_pending's first action) and the analysis block of move_to. *)
From SE Require Import EGraph.ModelA EGraph.AnalysisFix EGraph.AnalysisModelBase.
From Coq Require Import Lia Arith Bool.

Section Stab.
  Variable Data : Type.
  Variable data_eqb : Data -> Data -> bool.
  Variable make : (N -> res Data) -> node -> res Data.
  Variable merge : Data -> Data -> Data.
  Hypothesis merge_assoc : forall x y z, merge x (merge y z) = merge (merge x y) z.
  Hypothesis merge_comm : forall x y, merge x y = merge y x.
  Hypothesis merge_idem : forall x, merge x x = x.
  Hypothesis data_eqb_spec : forall x y, data_eqb x y = true <-> x = y.
  Variable L : Type.
  Variable lab : node -> L.
  Variable mk : L -> list Data -> Data.
  Hypothesis make_spec : forall get n, make get n = do ds <- mapr get (node_ids n); Ok (mk (lab n) ds).
  Variable Dok : Data -> Prop.
  Hypothesis Dok_mk : forall l ds, Dok (mk l ds).
  Hypothesis Dok_merge : forall a b, Dok a -> Dok b -> Dok (merge a b).
  Hypothesis make_below_kids : forall l ds d, In d ds -> Dok d -> merge d (mk l ds) = d.

  Notation eg := (egraph Data).
  Notation M := (ModelA.M Data).
  Notation adata := (analysis_data Data).
  Notation mk_in := (make_in Data make).
  Notation stored := (stored Data).
  Notation npend := (npend Data).
  Notation stab_at := (stab_at Data make merge).
  Notation stab := (stab Data make merge).
  Notation stabx := (stabx Data make merge).
  Notation dok := (dok Data Dok).
  Notation fid := (find_id Data).

  (* ---------------- small state facts ---------------- *)
  Lemma fid_uf : forall s s' j, unionfind Data s' = unionfind Data s -> fid s' j = fid s j.
  Proof. intros s s' j H. unfold find_id, unionfind_get. rewrite H. reflexivity. Qed.

  Lemma adata_eq : forall s s' j,
    unionfind Data s' = unionfind Data s -> classes Data s' = classes Data s -> adata s' j = adata s j.
  Proof.
    intros s s' j Hu Hc. unfold analysis_data. rewrite (fid_uf s s' j Hu).
    destruct (fid s j) as [r|e]; cbn [bind]. unfold get_class. rewrite Hc. reflexivity. reflexivity.
  Qed.

  Lemma nth_opt_set_nth_same : forall {A} (l : list A) n x y, nth_opt l n = Some y -> nth_opt (set_nth l n x) n = Some x.
  Proof.
    intros A l. induction l as [|a t IH]; intros n x y H; destruct n as [|n]; cbn [nth_opt set_nth] in *; try discriminate.
    reflexivity. eapply IH. exact H.
  Qed.
  Lemma nth_opt_set_nth_other : forall {A} (l : list A) n m x, n <> m -> nth_opt (set_nth l n x) m = nth_opt l m.
  Proof.
    intros A l. induction l as [|a t IH]; intros n m x H; destruct n as [|n]; destruct m as [|m]; cbn [nth_opt set_nth]; try reflexivity.
    contradiction. apply IH. intro E. apply H. congruence.
  Qed.
  Lemma In_set_nth : forall {A} (l : list A) n x y, In y (set_nth l n x) -> y = x \/ In y l.
  Proof.
    intros A l. induction l as [|a t IH]; intros n x y H; destruct n as [|n]; cbn [set_nth] in H.
    - destruct H.
    - destruct H.
    - destruct H as [H|H]. left. symmetry. exact H. right. right. exact H.
    - destruct H as [H|H]. right. left. exact H. destruct (IH n x y H) as [E|E]. left. exact E. right. right. exact E.
  Qed.
  Lemma nth_opt_In : forall {A} (l : list A) n x, nth_opt l n = Some x -> In x l.
  Proof.
    intros A l. induction l as [|a t IH]; intros n x H; destruct n as [|n]; cbn [nth_opt] in H; try discriminate.
    inversion H. left. reflexivity. right. eapply IH. exact H.
  Qed.

  (* upd_class i (with_data . d) *)
  Lemma upd_data_eff : forall i d s s',
    upd_class Data i (fun c => with_data Data c d) s = Ok (tt, s') ->
    exists c, get_class Data s i = Ok c /\
      unionfind Data s' = unionfind Data s /\ hashcons Data s' = hashcons Data s /\ pending Data s' = pending Data s /\
      (forall j, get_class Data s' j = if j =? i then Ok (with_data Data c d) else get_class Data s j) /\
      (forall c', In c' (classes Data s') -> c' = with_data Data c d \/ In c' (classes Data s)).
  Proof.
    intros i d s s' H. unfold upd_class in H.
    destruct (nth_opt (classes Data s) (N.to_nat i)) as [c|] eqn:E; [|discriminate].
    inversion H; subst s'. clear H. exists c. split. unfold get_class. rewrite E. reflexivity.
    split. reflexivity. split. reflexivity. split. reflexivity. split.
    - intro j. unfold get_class. cbn [classes set_classes].
      destruct (j =? i) eqn:Ej.
      + apply N.eqb_eq in Ej. subst j. rewrite (nth_opt_set_nth_same _ _ _ _ E). reflexivity.
      + apply N.eqb_neq in Ej. rewrite nth_opt_set_nth_other. reflexivity. intro X. apply Ej. apply N2Nat.inj. symmetry. exact X.
    - intros c' Hc'. cbn [classes set_classes] in Hc'. apply In_set_nth in Hc'. exact Hc'.
  Qed.

  Lemma adata_upd : forall i d s s' c,
    get_class Data s i = Ok c ->
    unionfind Data s' = unionfind Data s ->
    (forall j, get_class Data s' j = if j =? i then Ok (with_data Data c d) else get_class Data s j) ->
    forall j, adata s' j = match fid s j with
                           | Ok r => if r =? i then Ok d else adata s j
                           | Err e => Err e end.
  Proof.
    intros i d s s' c Hc Hu Hg j. unfold analysis_data at 1. rewrite (fid_uf s s' j Hu).
    unfold analysis_data. destruct (fid s j) as [r|e]; cbn [bind]; [|reflexivity].
    rewrite Hg. destruct (r =? i). reflexivity. reflexivity.
  Qed.

  (* pending_touch / touched_class *)
  Lemma pending_touch_eff : forall x ty s s',
    pending_touch Data x ty s = Ok (tt, s') ->
    unionfind Data s' = unionfind Data s /\ classes Data s' = classes Data s /\ hashcons Data s' = hashcons Data s /\
    (forall sh, npend s' sh -> npend s sh /\ sh <> x).
  Proof.
    intros x ty s s' H. unfold pending_touch in H. apply (modify_ok Data) in H. subst s'.
    split. reflexivity. split. reflexivity. split. reflexivity.
    intros sh Hn. unfold AnalysisModelBase.npend in *. cbn [pending set_pending] in Hn.
    destruct (na_get (pending Data s) x) as [v|] eqn:E.
    - assert (Hne : sh <> x).
      { intro X. subst sh. rewrite na_get_set_same in Hn. discriminate. }
      split. rewrite na_get_set_other in Hn. exact Hn. exact Hne. exact Hne.
    - destruct (na_get (pending Data s) sh) as [w|] eqn:E2.
      + rewrite (na_get_app_some _ _ _ _ E2) in Hn. discriminate.
      + rewrite (na_get_app_none _ _ _ E2) in Hn. split. reflexivity.
        intro X. subst sh. cbn [na_get] in Hn. rewrite node_eqb_refl in Hn. discriminate.
  Qed.

  Lemma iter_touch_eff : forall ty l s s',
    iterM Data (fun sh => pending_touch Data sh ty) l s = Ok (tt, s') ->
    unionfind Data s' = unionfind Data s /\ classes Data s' = classes Data s /\ hashcons Data s' = hashcons Data s /\
    (forall sh, npend s' sh -> npend s sh /\ ~ In sh l).
  Proof.
    intros ty l. induction l as [|x t IH]; intros s s' H.
    - cbn [iterM] in H. apply (ret_ok Data) in H. destruct H as [-> _].
      split. reflexivity. split. reflexivity. split. reflexivity. intros sh Hn. split. exact Hn. intros [].
    - cbn [iterM] in H. apply (mbind_ok Data) in H. destruct H as [[] [s1 [H1 H2]]].
      apply pending_touch_eff in H1. destruct H1 as [U1 [C1 [H1 P1]]].
      apply IH in H2. destruct H2 as [U2 [C2 [H2 P2]]].
      split. congruence. split. congruence. split. congruence.
      intros sh Hn. destruct (P2 sh Hn) as [Hn1 Hnin]. destruct (P1 sh Hn1) as [Hn0 Hne].
      split. exact Hn0. intros [X|X]. apply Hne. symmetry. exact X. apply Hnin. exact X.
  Qed.

  Lemma touched_class_eff : forall i ty s s',
    touched_class Data i ty s = Ok (tt, s') ->
    exists c, get_class Data s i = Ok c /\
    unionfind Data s' = unionfind Data s /\ classes Data s' = classes Data s /\ hashcons Data s' = hashcons Data s /\
    (forall sh, npend s' sh -> npend s sh /\ ~ In sh (c_usages Data c)).
  Proof.
    intros i ty s s' H. unfold touched_class in H. apply (mbind_ok Data) in H. destruct H as [c [s1 [H1 H2]]].
    apply (reads_ok Data) in H1. destruct H1 as [-> Hc]. exists c. split. exact Hc.
    apply iter_touch_eff in H2. exact H2.
  Qed.

  Lemma mq_push_eff : forall i s s', mq_push Data i s = Ok (tt, s') ->
    unionfind Data s' = unionfind Data s /\ classes Data s' = classes Data s /\ hashcons Data s' = hashcons Data s /\
    pending Data s' = pending Data s.
  Proof. intros i s s' H. unfold mq_push in H. apply (modify_ok Data) in H. subst s'. repeat split. Qed.

  (* ---------------- make under a change of one class's datum ---------------- *)
  Lemma mk_in_ext : forall s s' sh, (forall k, In k (node_ids sh) -> adata s' k = adata s k) -> mk_in s' sh = mk_in s sh.
  Proof. intros s s' sh H. unfold make_in. apply (make_ext Data make L lab mk make_spec). exact H. Qed.

  (* a node with a child in class i whose datum is d (Dok) makes a value below d *)
  Lemma make_below_child : forall s sh v k d,
    mk_in s sh = Ok v -> In k (node_ids sh) -> adata s k = Ok d -> Dok d -> merge d v = d.
  Proof.
    intros s sh v k d Hm Hk Hd HD. unfold make_in in Hm. rewrite make_spec in Hm.
    apply bind_ok in Hm. destruct Hm as [ds [Hds Hv]]. inversion Hv; subst v.
    destruct (mapr_ok_in _ _ _ Hds k Hk) as [y [Hy Hin]]. rewrite Hd in Hy. inversion Hy; subst y.
    apply make_below_kids. exact Hin. exact HD.
  Qed.

  Lemma merge_absorb : forall d v, merge (merge d v) v = merge d v.
  Proof. intros d v. rewrite <- merge_assoc. rewrite merge_idem. reflexivity. Qed.

  Lemma below_grow : forall d v e, merge d v = d -> merge (merge e d) v = merge e d.
  Proof. intros d v e H. rewrite <- merge_assoc. rewrite H. reflexivity. Qed.

  (* ---------------- a datum of one (root) class grows ---------------- *)
  (* s1 is s with the datum of class i (a root, datum old) replaced by new >= old, and more shapes pending;
     every stored non-pending shape of s1 other than those in X that has a child in class i ... has none. *)
  Definition kid_in (s : eg) (sh : node) (i : N) : Prop := exists k, In k (node_ids sh) /\ fid s k = Ok i.

  Lemma grow_stab_at : forall s s1 i old new sh i2,
    (forall j, adata s1 j = match fid s j with Ok r => if r =? i then Ok new else adata s j | Err e => Err e end) ->
    adata s i = Ok old -> fid s i = Ok i ->
    merge new old = new ->
    ~ kid_in s sh i ->
    stab_at s sh i2 -> stab_at s1 sh i2.
  Proof.
    intros s s1 i old new sh i2 Ha Hold Hroot Hge Hnk [d [v [Hd [Hv Hle]]]].
    assert (Hmk : mk_in s1 sh = Ok v).
    { rewrite <- Hv. apply mk_in_ext. intros k Hk. rewrite Ha.
      destruct (fid s k) as [r|e] eqn:Er.
      - destruct (r =? i) eqn:Eri. apply N.eqb_eq in Eri. subst r. exfalso. apply Hnk. exists k. split; assumption. reflexivity.
      - unfold analysis_data. rewrite Er. reflexivity. }
    assert (Hi2 := Ha i2). destruct (fid s i2) as [r|e] eqn:Er.
    - destruct (r =? i) eqn:Eri.
      + apply N.eqb_eq in Eri. subst r.
        (* the class of sh is i: its old datum is `old` *)
        assert (d = old).
        { unfold analysis_data in Hd, Hold. rewrite Er in Hd. rewrite Hroot in Hold. cbn [bind] in Hd, Hold. rewrite Hold in Hd. inversion Hd. reflexivity. }
        subst d. exists new, v. split. exact Hi2. split. exact Hmk.
        rewrite <- Hge. apply below_grow. exact Hle.
      + exists d, v. split. rewrite Hi2. exact Hd. split. exact Hmk. exact Hle.
    - unfold analysis_data in Hd. rewrite Er in Hd. discriminate.
  Qed.

  (* ---------------- update_analysis ---------------- *)
  (* usage coverage at class i: what touched_class i reaches *)
  Definition ucov_at (X : node -> Prop) (s : eg) (i : N) : Prop :=
    forall sh2 i2 c, stored s sh2 i2 -> npend s sh2 -> ~ X sh2 -> kid_in s sh2 i ->
      get_class Data s i = Ok c -> In sh2 (c_usages Data c).

  Theorem update_analysis_stab : forall sh i s s',
    stabx (eq sh) s -> dok s ->
    stored s sh i -> fid s i = Ok i ->
    ucov_at (eq sh) s i ->
    update_analysis Data data_eqb make merge sh i s = Ok (tt, s') ->
    stab s' /\ dok s' /\
    unionfind Data s' = unionfind Data s /\ hashcons Data s' = hashcons Data s /\
    (forall x, npend s' x -> npend s x).
  Proof.
    intros sh i s s' Hst Hdok Hsto Hroot Hcov H.
    unfold update_analysis in H.
    apply (mbind_ok Data) in H. destruct H as [v [s0 [H0 H]]]. apply (reads_ok Data) in H0. destruct H0 as [-> Hv].
    apply (mbind_ok Data) in H. destruct H as [c [s0 [H0 H]]]. apply (reads_ok Data) in H0. destruct H0 as [-> Hc].
    apply (mbind_ok Data) in H. destruct H as [[] [s1 [H1 H]]].
    apply upd_data_eff in H1. destruct H1 as [c' [Hc' [U1 [HC1 [P1 [G1 In1]]]]]].
    rewrite Hc in Hc'. inversion Hc'; subst c'. clear Hc'.
    set (old := c_data Data c) in *. set (new := merge old v) in *.
    assert (Hold : adata s i = Ok old).
    { unfold analysis_data. rewrite Hroot. cbn [bind]. rewrite Hc. reflexivity. }
    assert (HDold : Dok old).
    { apply Hdok. unfold get_class in Hc. destruct (nth_opt (classes Data s) (N.to_nat i)) eqn:E; [|discriminate].
      inversion Hc; subst. eapply nth_opt_In. exact E. }
    assert (HDv : Dok v).
    { unfold make_in in Hv. rewrite make_spec in Hv. apply bind_ok in Hv. destruct Hv as [ds [_ Hv]]. inversion Hv. apply Dok_mk. }
    assert (Ha1 := adata_upd i new s s1 c Hc U1 G1).
    assert (Hdok1 : dok s1).
    { intros c1 Hc1. destruct (In1 c1 Hc1) as [->|Hin]. cbn [c_data with_data]. apply Dok_merge; assumption. apply Hdok. exact Hin. }
    assert (Hge : merge new old = new).
    { unfold new. rewrite (merge_comm (merge old v) old). rewrite merge_assoc. rewrite merge_idem. reflexivity. }
    (* sh itself is stable in s1 *)
    assert (Hsh1 : stab_at s1 sh i).
    { destruct (data_eqb new old) eqn:Eq.
      - apply data_eqb_spec in Eq.
        exists new, v. split. rewrite Ha1. rewrite Hroot. rewrite N.eqb_refl. reflexivity.
        split.
        + rewrite <- Hv. apply mk_in_ext. intros k _. rewrite Ha1. destruct (fid s k) as [r|e] eqn:Er.
          * destruct (r =? i) eqn:Eri. apply N.eqb_eq in Eri. subst r. rewrite Eq. unfold analysis_data. rewrite Er. cbn [bind]. rewrite Hc. reflexivity. reflexivity.
          * unfold analysis_data. rewrite Er. reflexivity.
        + unfold new. apply merge_absorb.
      - (* changed: no child of sh is in class i *)
        assert (Hnk : ~ kid_in s sh i).
        { intros [k [Hk Hf]]. assert (Hdk : adata s k = Ok old).
          { unfold analysis_data. rewrite Hf. cbn [bind]. rewrite Hc. reflexivity. }
          assert (X := make_below_child s sh v k old Hv Hk Hdk HDold).
          assert (new = old) by exact X. apply data_eqb_spec in H0. rewrite H0 in Eq. discriminate. }
        exists new, v. split. rewrite Ha1. rewrite Hroot. rewrite N.eqb_refl. reflexivity.
        split.
        + rewrite <- Hv. apply mk_in_ext. intros k Hk. rewrite Ha1. destruct (fid s k) as [r|e] eqn:Er.
          * destruct (r =? i) eqn:Eri. apply N.eqb_eq in Eri. subst r. exfalso. apply Hnk. exists k. split; assumption. reflexivity.
          * unfold analysis_data. rewrite Er. reflexivity.
        + unfold new. apply merge_absorb. }
    destruct (data_eqb new old) eqn:Eq.
    - (* unchanged *)
      apply (ret_ok Data) in H. destruct H as [-> _].
      apply data_eqb_spec in Eq.
      assert (Hsame : forall j, adata s1 j = adata s j).
      { intro j. rewrite Ha1. destruct (fid s j) as [r|e] eqn:Er.
        - destruct (r =? i) eqn:Eri. apply N.eqb_eq in Eri. subst r. rewrite Eq. unfold analysis_data. rewrite Er. cbn [bind]. rewrite Hc. reflexivity. reflexivity.
        - unfold analysis_data. rewrite Er. reflexivity. }
      split; [|split; [exact Hdok1|split; [exact U1|split; [exact HC1|]]]].
      + intros sh2 i2 Hs2 Hn2. unfold AnalysisModelBase.stored in Hs2. rewrite HC1 in Hs2.
        unfold AnalysisModelBase.npend in Hn2. rewrite P1 in Hn2.
        destruct (node_eqb sh2 sh) eqn:En.
        * apply node_eqb_true in En. subst sh2. unfold AnalysisModelBase.stored in Hsto. rewrite Hsto in Hs2. inversion Hs2; subst i2. exact Hsh1.
        * assert (Hne : sh <> sh2). { intro X. subst sh2. rewrite node_eqb_refl in En. discriminate. }
          destruct (Hst sh2 i2 Hs2 Hn2 Hne) as [d [w [Hd [Hw Hle]]]].
          exists d, w. split. rewrite Hsame. exact Hd. split. rewrite <- Hw. apply mk_in_ext. intros k _. apply Hsame. exact Hle.
      + intros x Hx. unfold AnalysisModelBase.npend in *. rewrite P1 in Hx. exact Hx.
    - (* changed: the usages of i are pending now *)
      apply (mbind_ok Data) in H. destruct H as [[] [s2 [H2 H3]]].
      apply mq_push_eff in H2. destruct H2 as [U2 [C2 [HC2 P2]]].
      apply touched_class_eff in H3. destruct H3 as [c3 [Hc3 [U3 [C3 [HC3 P3]]]]].
      assert (Hc3' : c_usages Data c3 = c_usages Data c).
      { unfold get_class in Hc3. rewrite C2 in Hc3. fold (get_class Data s1 i) in Hc3. rewrite G1 in Hc3. rewrite N.eqb_refl in Hc3. inversion Hc3. reflexivity. }
      assert (Had : forall j, adata s' j = adata s1 j).
      { intro j. apply adata_eq. congruence. congruence. }
      split; [|split; [|split; [congruence|split; [congruence|]]]].
      + intros sh2 i2 Hs2 Hn2. unfold AnalysisModelBase.stored in Hs2. rewrite HC3, HC2, HC1 in Hs2.
        destruct (P3 sh2 Hn2) as [Hn2' Hnu]. unfold AnalysisModelBase.npend in Hn2'. rewrite P2, P1 in Hn2'.
        assert (Hat1 : stab_at s1 sh2 i2).
        { destruct (node_eqb sh2 sh) eqn:En.
          - apply node_eqb_true in En. subst sh2. unfold AnalysisModelBase.stored in Hsto. rewrite Hsto in Hs2. inversion Hs2; subst i2. exact Hsh1.
          - assert (Hne : sh <> sh2). { intro X. subst sh2. rewrite node_eqb_refl in En. discriminate. }
            apply (grow_stab_at s s1 i old new sh2 i2 Ha1 Hold Hroot Hge).
            + intro Hk. apply Hnu. rewrite Hc3'. apply (Hcov sh2 i2 c Hs2 Hn2' Hne Hk Hc).
            + apply Hst; assumption. }
        destruct Hat1 as [d [w [Hd [Hw Hle]]]]. exists d, w. split. rewrite Had. exact Hd.
        split. rewrite <- Hw. apply mk_in_ext. intros k _. apply Had. exact Hle.
      + intros c1 Hc1. apply Hdok1. rewrite <- C2, <- C3. exact Hc1.
      + intros x Hx. destruct (P3 x Hx) as [Hx' _]. unfold AnalysisModelBase.npend in *. rewrite P2, P1 in Hx'. exact Hx'.
  Qed.

  (* ---------------- the general growth step (used twice by move_to) ---------------- *)
  Lemma adata_fid_ok : forall s j d, adata s j = Ok d -> exists r, fid s j = Ok r.
  Proof. intros s j d H. unfold analysis_data in H. destruct (fid s j) as [r|e]. exists r. reflexivity. discriminate. Qed.

  Lemma adata_same_class : forall s j i, fid s j = Ok i -> fid s i = Ok i -> adata s j = adata s i.
  Proof. intros s j i H1 H2. unfold analysis_data. rewrite H1, H2. reflexivity. Qed.

  Lemma mk_in_kids_ok : forall s sh v k, mk_in s sh = Ok v -> In k (node_ids sh) -> exists d, adata s k = Ok d.
  Proof.
    intros s sh v k Hm Hk. unfold make_in in Hm. rewrite make_spec in Hm. apply bind_ok in Hm. destruct Hm as [ds [Hds _]].
    destruct (mapr_ok_in _ _ _ Hds k Hk) as [y [Hy _]]. exists y. exact Hy.
  Qed.

  Lemma grow_stab_at2 : forall s s1 i old new sh i2,
    (forall j r, fid s j = Ok r -> adata s1 j = if r =? i then Ok new else adata s j) ->
    adata s i = Ok old -> fid s i = Ok i ->
    merge new old = new ->
    (new = old \/ ~ kid_in s sh i) ->
    stab_at s sh i2 -> stab_at s1 sh i2.
  Proof.
    intros s s1 i old new sh i2 Ha Hold Hroot Hge Hcase [d [v [Hd [Hv Hle]]]].
    assert (Hmk : mk_in s1 sh = Ok v).
    { rewrite <- Hv. apply mk_in_ext. intros k Hk.
      destruct (mk_in_kids_ok s sh v k Hv Hk) as [y Hy]. destruct (adata_fid_ok s k y Hy) as [r Hr].
      rewrite (Ha k r Hr). destruct (r =? i) eqn:Eri; [|reflexivity].
      apply N.eqb_eq in Eri. subst r. destruct Hcase as [E|Hnk].
      - rewrite E. rewrite (adata_same_class s k i Hr Hroot). symmetry. exact Hold.
      - exfalso. apply Hnk. exists k. split; assumption. }
    destruct (adata_fid_ok s i2 d Hd) as [r Hr]. assert (Hi2 := Ha i2 r Hr).
    destruct (r =? i) eqn:Eri.
    - apply N.eqb_eq in Eri. subst r.
      assert (d = old). { rewrite (adata_same_class s i2 i Hr Hroot) in Hd. rewrite Hold in Hd. inversion Hd. reflexivity. }
      subst d. exists new, v. split. exact Hi2. split. exact Hmk. rewrite <- Hge. apply below_grow. exact Hle.
    - exists d, v. split. rewrite Hi2. exact Hd. split. exact Hmk. exact Hle.
  Qed.

  Lemma grow_stabx : forall (X : node -> Prop) s s1 i old new,
    stabx X s ->
    (forall j r, fid s j = Ok r -> adata s1 j = if r =? i then Ok new else adata s j) ->
    adata s i = Ok old -> fid s i = Ok i -> merge new old = new ->
    hashcons Data s1 = hashcons Data s ->
    (forall x, npend s1 x -> npend s x) ->
    (new = old \/ forall sh2 i2, stored s sh2 i2 -> npend s1 sh2 -> ~ X sh2 -> ~ kid_in s sh2 i) ->
    stabx X s1.
  Proof.
    intros X s s1 i old new Hst Ha Hold Hroot Hge HC HP Hcase sh2 i2 Hs2 Hn2 HX.
    unfold AnalysisModelBase.stored in Hs2. rewrite HC in Hs2.
    apply (grow_stab_at2 s s1 i old new sh2 i2 Ha Hold Hroot Hge).
    - destruct Hcase as [E|Hc]. left. exact E. right. apply (Hc sh2 i2 Hs2 Hn2 HX).
    - apply Hst. exact Hs2. apply HP. exact Hn2. exact HX.
  Qed.

  (* ---------------- move_to: the analysis block and the link from -> to ---------------- *)
  Lemma adata_root_class : forall s i d, fid s i = Ok i -> adata s i = Ok d ->
    exists c, get_class Data s i = Ok c /\ c_data Data c = d /\ In c (classes Data s).
  Proof.
    intros s i d Hr Hd. unfold analysis_data in Hd. rewrite Hr in Hd. cbn [bind] in Hd.
    destruct (get_class Data s i) as [c|e] eqn:E; cbn [bind] in Hd; [|discriminate]. inversion Hd.
    exists c. split. reflexivity. split. reflexivity.
    unfold get_class in E. destruct (nth_opt (classes Data s) (N.to_nat i)) eqn:E2; [|discriminate]. inversion E; subst. eapply nth_opt_In. exact E2.
  Qed.

  Lemma unionfind_set_eff : forall i p s s', unionfind_set Data i p s = Ok (tt, s') ->
    classes Data s' = classes Data s /\ hashcons Data s' = hashcons Data s /\ pending Data s' = pending Data s.
  Proof.
    intros i p s s' H. unfold unionfind_set in H.
    destruct (Nat.eqb (List.length (unionfind Data s)) (N.to_nat i)). inversion H. repeat split.
    destruct (Nat.ltb (N.to_nat i) (List.length (unionfind Data s))). inversion H. repeat split. discriminate.
  Qed.

  (* the union-find fact (proved in AnalysisModelUF.v, instantiated in AnalysisModelBase... below) *)
  Definition link_spec : Prop :=
    forall (s2 s3 : eg) from to mp, fid s2 from = Ok from -> fid s2 to = Ok to -> from <> to ->
      unionfind_set Data from {| aid := to; am := mp |} s2 = Ok (tt, s3) ->
      forall j r, fid s2 j = Ok r -> fid s3 j = Ok (if r =? from then to else r).

  Theorem move_head_stab : link_spec ->
    forall s s1 s2 s3 from to a_from a_to mp,
    stab s -> dok s ->
    fid s from = Ok from -> fid s to = Ok to -> from <> to ->
    adata s from = Ok a_from -> adata s to = Ok a_to ->
    ucov_at (fun _ => False) s to ->
    upd_class Data to (fun c => with_data Data c (merge a_from a_to)) s = Ok (tt, s1) ->
    (if data_eqb a_to (merge a_from a_to) then s2 = s1
     else mbind Data (mq_push Data to) (fun _ => touched_class Data to false) s1 = Ok (tt, s2)) ->
    unionfind_set Data from {| aid := to; am := mp |} s2 = Ok (tt, s3) ->
    stabx (fun sh => kid_in s sh from) s3 /\ dok s3 /\ hashcons Data s3 = hashcons Data s /\
    (forall x, npend s3 x -> npend s x) /\
    (forall j r, fid s j = Ok r -> fid s3 j = Ok (if r =? from then to else r)) /\
    (forall j, get_class Data s3 j = if j =? to then (do c <- get_class Data s to; Ok (with_data Data c (merge a_from a_to))) else get_class Data s j).
  Proof.
    intros Hlink s s1 s2 s3 from to a_from a_to mp Hst Hdok Hrf Hrt Hne Haf Hat Hcov H1 H2 H3.
    set (new := merge a_from a_to) in *.
    apply upd_data_eff in H1. destruct H1 as [c [Hc [U1 [HC1 [P1 [G1 In1]]]]]].
    destruct (adata_root_class s to a_to Hrt Hat) as [c' [Hc' [Hdc' Hinc']]]. rewrite Hc in Hc'. inversion Hc'; subst c'. clear Hc'.
    destruct (adata_root_class s from a_from Hrf Haf) as [cf [Hcf [Hdcf Hincf]]].
    assert (HDt : Dok a_to). { rewrite <- Hdc'. apply Hdok. exact Hinc'. }
    assert (HDf : Dok a_from). { rewrite <- Hdcf. apply Hdok. exact Hincf. }
    assert (Ha1 := adata_upd to new s s1 c Hc U1 G1).
    assert (Hge : merge new a_to = new).
    { unfold new. rewrite <- merge_assoc. rewrite merge_idem. reflexivity. }
    assert (Hgf : merge new a_from = new).
    { unfold new. rewrite (merge_comm a_from a_to). rewrite <- merge_assoc. rewrite merge_idem. reflexivity. }
    assert (Hdok1 : dok s1).
    { intros c1 Hc1. destruct (In1 c1 Hc1) as [->|Hin]. cbn [c_data with_data]. apply Dok_merge; assumption. apply Hdok. exact Hin. }
    (* step A: s -> s2 *)
    assert (HA : stab s2 /\ unionfind Data s2 = unionfind Data s /\ classes Data s2 = classes Data s1 /\
                 hashcons Data s2 = hashcons Data s /\ (forall x, npend s2 x -> npend s x)).
    { destruct (data_eqb a_to new) eqn:Eq.
      - subst s2. apply data_eqb_spec in Eq.
        split; [|split; [exact U1|split; [reflexivity|split; [exact HC1|]]]].
        + apply stab_stabx. apply (grow_stabx (fun _ => False) s s1 to a_to new).
          * apply stab_stabx. exact Hst.
          * intros j r Hr. rewrite Ha1. rewrite Hr. reflexivity.
          * exact Hat.
          * exact Hrt.
          * exact Hge.
          * exact HC1.
          * intros x Hx. unfold AnalysisModelBase.npend in *. rewrite P1 in Hx. exact Hx.
          * left. symmetry. exact Eq.
        + intros x Hx. unfold AnalysisModelBase.npend in *. rewrite P1 in Hx. exact Hx.
      - apply (mbind_ok Data) in H2. destruct H2 as [[] [s1' [H2 H2']]].
        apply mq_push_eff in H2. destruct H2 as [U2 [C2 [HC2 P2]]].
        apply touched_class_eff in H2'. destruct H2' as [c3 [Hc3 [U3 [C3 [HC3 P3]]]]].
        assert (Hc3' : c_usages Data c3 = c_usages Data c).
        { unfold get_class in Hc3. rewrite C2 in Hc3. fold (get_class Data s1 to) in Hc3. rewrite G1 in Hc3. rewrite N.eqb_refl in Hc3. inversion Hc3. reflexivity. }
        assert (Had : forall j, adata s2 j = adata s1 j).
        { intro j. apply adata_eq. congruence. congruence. }
        assert (HP : forall x, npend s2 x -> npend s x).
        { intros x Hx. destruct (P3 x Hx) as [Hx' _]. unfold AnalysisModelBase.npend in *. rewrite P2, P1 in Hx'. exact Hx'. }
        split; [|split; [congruence|split; [congruence|split; [congruence|exact HP]]]].
        apply stab_stabx. apply (grow_stabx (fun _ => False) s s2 to a_to new).
        + apply stab_stabx. exact Hst.
        + intros j r Hr. rewrite Had. rewrite Ha1. rewrite Hr. reflexivity.
        + exact Hat.
        + exact Hrt.
        + exact Hge.
        + congruence.
        + exact HP.
        + right. intros sh2 i2 Hs2 Hn2 HX Hk. destruct (P3 sh2 Hn2) as [_ Hnu]. apply Hnu. rewrite Hc3'.
          apply (Hcov sh2 i2 c Hs2 (HP sh2 Hn2) HX Hk Hc). }
    destruct HA as [Hst2 [U2 [C2 [HC2 HP2]]]].
    assert (Had2 : forall j r, fid s j = Ok r -> adata s2 j = if r =? to then Ok new else adata s j).
    { intros j r Hr. transitivity (adata s1 j).
      - unfold analysis_data. rewrite (fid_uf s1 s2 j). 2: congruence. destruct (fid s1 j); cbn [bind]. unfold get_class. rewrite C2. reflexivity. reflexivity.
      - rewrite Ha1. rewrite Hr. reflexivity. }
    (* step B: the link *)
    assert (Hrf2 : fid s2 from = Ok from). { rewrite (fid_uf s s2 from U2). exact Hrf. }
    assert (Hrt2 : fid s2 to = Ok to). { rewrite (fid_uf s s2 to U2). exact Hrt. }
    assert (Hf3 := Hlink s2 s3 from to mp Hrf2 Hrt2 Hne H3).
    apply unionfind_set_eff in H3. destruct H3 as [C3 [HC3 P3]].
    assert (Hto2 : adata s2 to = Ok new). { rewrite (Had2 to to Hrt). rewrite N.eqb_refl. reflexivity. }
    assert (Hfrom2 : adata s2 from = Ok a_from).
    { rewrite (Had2 from from Hrf). destruct (from =? to) eqn:E. apply N.eqb_eq in E. contradiction. exact Haf. }
    assert (Ha3 : forall j r, fid s2 j = Ok r -> adata s3 j = if r =? from then Ok new else adata s2 j).
    { intros j r Hr. unfold analysis_data at 1. rewrite (Hf3 j r Hr). cbn [bind].
      destruct (r =? from) eqn:E.
      - unfold get_class. rewrite C3. fold (get_class Data s2 to).
        unfold analysis_data in Hto2. rewrite Hrt2 in Hto2. cbn [bind] in Hto2. exact Hto2.
      - unfold get_class. rewrite C3. fold (get_class Data s2 r). unfold analysis_data. rewrite Hr. reflexivity. }
    assert (Hkid : forall sh, kid_in s2 sh from <-> kid_in s sh from).
    { intro sh. unfold kid_in. split; intros [k [Hk Hf]]; exists k; (split; [exact Hk|]).
      rewrite <- (fid_uf s s2 k U2). exact Hf. rewrite (fid_uf s s2 k U2). exact Hf. }
    split; [|split; [|split; [congruence|split; [|split]]]].
    - assert (Hx3 : stabx (fun sh => kid_in s2 sh from) s3).
      { apply (grow_stabx (fun sh => kid_in s2 sh from) s2 s3 from a_from new).
        + intros sh i Hs Hn _. apply Hst2; assumption.
        + exact Ha3.
        + exact Hfrom2.
        + exact Hrf2.
        + exact Hgf.
        + exact HC3.
        + intros x Hx. unfold AnalysisModelBase.npend in *. rewrite P3 in Hx. exact Hx.
        + right. intros sh2 i2 _ _ HX. exact HX. }
      intros sh i Hs Hn HX. apply Hx3. exact Hs. exact Hn. intro Hk. apply HX. apply Hkid. exact Hk.
    - intros c1 Hc1. apply Hdok1. rewrite <- C2, <- C3. exact Hc1.
    - intros x Hx. apply HP2. unfold AnalysisModelBase.npend in *. rewrite P3 in Hx. exact Hx.
    - intros j r Hr. apply Hf3. rewrite (fid_uf s s2 j U2). exact Hr.
    - intro j. unfold get_class at 1. rewrite C3, C2. fold (get_class Data s1 j). rewrite G1. rewrite Hc. reflexivity.
  Qed.

End Stab.
