(* EGraph/AnalysisModelStr.v — the structural invariant Sx of AnalysisModelInv.v is preserved by the
   frames (strfr), by popping a pending entry, and by raw_remove_from_class / raw_add_to_class /
   alloc_eclass / update_analysis. *)
From SE Require Import EGraph.ModelA EGraph.AnalysisFix EGraph.AnalysisModelBase EGraph.AnalysisModelStab EGraph.AnalysisModelUF EGraph.AnalysisModelAbs EGraph.AnalysisModelFrames EGraph.AnalysisModelInv.
From Coq Require Import Lia Arith Bool List NArith. Import ListNotations.

Section Str.
  Variable Data : Type.
  Variable data_eqb : Data -> Data -> bool.
  Variable make : (N -> res Data) -> node -> res Data.
  Variable merge : Data -> Data -> Data.

  Notation eg := (egraph Data).
  Notation uf := (unionfind Data).
  Notation cls := (classes Data).
  Notation hc := (hashcons Data).
  Notation pend := (pending Data).
  Notation gclass := (get_class Data).
  Notation fid := (find_id Data).
  Notation stored := (AnalysisModelBase.stored Data).
  Notation Sx := (AnalysisModelInv.Sx Data).
  Notation strfr := (AnalysisModelInv.strfr Data).
  Notation pmono := (AnalysisModelInv.pmono Data).
  Notation cstr := (AnalysisModelInv.cstr Data).
  Notation dfr := (AnalysisModelFrames.dfr Data).
  Notation cnodes := (c_nodes Data).
  Notation cusages := (c_usages Data).

  (* ---------------- association-list facts ---------------- *)
  Lemma na_get_some_in : forall {V} (l : list (node * V)) k v, na_get l k = Some v -> In (k, v) l.
  Proof.
    intros V l. induction l as [|[k' v'] t IH]; intros k v H; cbn [na_get] in H. discriminate.
    destruct (node_eqb k k') eqn:E.
    - apply node_eqb_true in E. subst k'. inversion H; subst. left. reflexivity.
    - right. apply IH. exact H.
  Qed.

  Lemma na_get_in_some : forall {V} (l : list (node * V)) k v, In (k, v) l -> exists v', na_get l k = Some v'.
  Proof.
    intros V l. induction l as [|[k' v'] t IH]; intros k v H. destruct H.
    cbn [na_get]. destruct (node_eqb k k') eqn:E. eexists. reflexivity.
    destruct H as [H|H]. inversion H; subst. rewrite node_eqb_refl in E. discriminate.
    eapply IH. exact H.
  Qed.

  Lemma na_remove_in : forall {V} (l : list (node * V)) k x, In x (na_remove l k) -> In x l.
  Proof.
    intros V l. induction l as [|[k' v'] t IH]; intros k x H; cbn [na_remove] in H. exact H.
    destruct (node_eqb k k').
    - right. exact H.
    - destruct H as [H|H]. left. exact H. right. eapply IH. exact H.
  Qed.

  Lemma na_set_in : forall {V} (l : list (node * V)) k v x, In x (na_set l k v) -> x = (k, v) \/ In x l.
  Proof.
    intros V l. induction l as [|[k' v'] t IH]; intros k v x H; cbn [na_set] in H.
    - destruct H as [H|[]]. left. symmetry. exact H.
    - destruct (node_eqb k k') eqn:E.
      + apply node_eqb_true in E. subst k'. destruct H as [H|H]. left. symmetry. exact H. right. right. exact H.
      + destruct H as [H|H]. right. left. exact H.
        apply IH in H. destruct H as [H|H]. left. exact H. right. right. exact H.
  Qed.

  Lemma ns_add_self : forall l k, In k (ns_add l k).
  Proof.
    intros l k. unfold ns_add. destruct (existsb (node_eqb k) l) eqn:E.
    - apply existsb_node_eqb. exact E.
    - apply in_or_app. right. left. reflexivity.
  Qed.

  Lemma nth_opt_snoc_inv : forall {A} (l : list A) x n y,
    nth_opt (l ++ [x]) n = Some y -> nth_opt l n = Some y \/ (n = List.length l /\ y = x).
  Proof.
    intros A l. induction l as [|a t IH]; intros x n y H.
    - destruct n as [|n]; cbn [app nth_opt] in H. inversion H. right. split; reflexivity.
      destruct n; discriminate.
    - destruct n as [|n]; cbn [app nth_opt] in H |- *. left. exact H.
      apply IH in H. destruct H as [H|[H1 H2]]. left. exact H. right. split. cbn [List.length]. lia. exact H2.
  Qed.

  (* ---------------- state facts ---------------- *)
  Lemma fid_uf_eq : forall s s' j, uf s' = uf s -> fid s' j = fid s j.
  Proof. intros s s' j H. unfold find_id, unionfind_get. rewrite H. reflexivity. Qed.

  Lemma gclass_cls_eq : forall s s' j, cls s' = cls s -> gclass s' j = gclass s j.
  Proof. intros s s' j H. unfold get_class. rewrite H. reflexivity. Qed.

  Lemma gclass_cstr : forall s s' j c', map cstr (cls s') = map cstr (cls s) -> gclass s' j = Ok c' ->
    exists c, gclass s j = Ok c /\ cnodes c = cnodes c' /\ cusages c = cusages c'.
  Proof.
    intros s s' j c' E H. unfold get_class in *.
    assert (En : option_map cstr (nth_opt (cls s') (N.to_nat j)) = option_map cstr (nth_opt (cls s) (N.to_nat j))).
    { rewrite <- !nth_opt_map_f. rewrite E. reflexivity. }
    destruct (nth_opt (cls s') (N.to_nat j)) as [x|]; [|discriminate]. inversion H; subst x.
    destruct (nth_opt (cls s) (N.to_nat j)) as [c|]; cbn [option_map] in En; [|discriminate].
    exists c. split. reflexivity. unfold AnalysisModelInv.cstr in En. inversion En. split; reflexivity.
  Qed.

  (* ---------------- the master transfer lemma ---------------- *)
  Lemma Sx_transfer : forall (X Y : node -> Prop) s s',
    map aid (uf s') = map aid (uf s) -> hc s' = hc s -> map cstr (cls s') = map cstr (cls s) ->
    (forall x i, stored s x i -> na_get (pend s') x <> Some true -> ~ Y x ->
       (na_get (pend s) x <> Some true /\ ~ X x) \/ (forall k, In k (node_ids x) -> fid s k = Ok k)) ->
    Sx X s -> Sx Y s'.
  Proof.
    intros X Y s s' Eu Eh Ec Hk H.
    assert (Ef : forall j, fid s' j = fid s j). { intro j. apply find_id_dfr. exact Eu. }
    assert (Hst : forall x i, stored s' x i -> stored s x i).
    { intros x i Hs. unfold AnalysisModelBase.stored in *. rewrite <- Eh. exact Hs. }
    assert (Ec' : map cstr (cls s) = map cstr (cls s')) by (symmetry; exact Ec).
    constructor.
    - rewrite Eh. apply (sx_nd _ _ _ H).
    - rewrite <- (map_length aid (uf s')), <- (map_length cstr (cls s')). rewrite Eu, Ec. rewrite !map_length.
      apply (sx_len _ _ _ H).
    - intros sh i Hs. rewrite Ef. eapply (sx_hl _ _ _ H). apply Hst. exact Hs.
    - intros sh i Hs. destruct (sx_hf _ _ _ H sh i (Hst _ _ Hs)) as [c [p [Hc Hp]]].
      destruct (gclass_cstr s' s i c Ec' Hc) as [c' [Hc' [En _]]]. exists c', p. split. exact Hc'. rewrite En. exact Hp.
    - intros i c' sh p Hc' Hin. destruct (gclass_cstr s s' i c' Ec Hc') as [c [Hc [En _]]].
      unfold AnalysisModelBase.stored. rewrite Eh. eapply (sx_hb _ _ _ H). exact Hc. rewrite En. exact Hin.
    - intros i c' Hc'. destruct (gclass_cstr s s' i c' Ec Hc') as [c [Hc [En _]]]. rewrite <- En.
      eapply (sx_cn _ _ _ H). exact Hc.
    - intros i c' sh bij src Hc' Hin. destruct (gclass_cstr s s' i c' Ec Hc') as [c [Hc [En _]]]. rewrite Ef.
      eapply (sx_so _ _ _ H). exact Hc. rewrite En. exact Hin.
    - intros sh i Hs k Hin. destruct (sx_ua _ _ _ H sh i (Hst _ _ Hs) k Hin) as [c [Hc Hu]].
      destruct (gclass_cstr s' s k c Ec' Hc) as [c' [Hc' [_ Eu']]]. exists c'. split. exact Hc'. rewrite Eu'. exact Hu.
    - intros sh i Hs Hp HY k Hin. rewrite Ef.
      destruct (Hk sh i (Hst _ _ Hs) Hp HY) as [[Hp' HX]|Hall].
      + apply (sx_kl _ _ _ H sh i (Hst _ _ Hs) Hp' HX). exact Hin.
      + apply Hall. exact Hin.
  Qed.

  (* ---------------- 1-5 ---------------- *)
  Theorem Sx_mono : forall (X Y : node -> Prop) s, (forall x, X x -> Y x) -> Sx X s -> Sx Y s.
  Proof.
    intros X Y s HXY H. eapply Sx_transfer. 5: exact H. reflexivity. reflexivity. reflexivity.
    intros x i _ Hp HY. left. split. exact Hp. intro HX. apply HY. apply HXY. exact HX.
  Qed.

  Theorem Sx_strfr : forall X s s', Sx X s -> strfr s s' -> Sx X s'.
  Proof.
    intros X s s' H [Eu [Eh [[_ Pm] Ec]]]. eapply Sx_transfer. 5: exact H. exact Eu. exact Eh. exact Ec.
    intros x i _ Hp HX. left. split. intro Ht. apply Hp. apply Pm. exact Ht. exact HX.
  Qed.

  Theorem Sx_set_mq : forall X s q, Sx X s -> Sx X (set_mq Data s q).
  Proof.
    intros X s q H. eapply Sx_transfer. 5: exact H. reflexivity. reflexivity. reflexivity.
    intros x i _ Hp HX. left. split. exact Hp. exact HX.
  Qed.

  Theorem Sx_empty : Sx (fun _ => False) (empty_egraph Data).
  Proof.
    constructor; cbn [hashcons unionfind classes empty_egraph].
    - constructor.
    - reflexivity.
    - intros sh i Hs. discriminate Hs.
    - intros sh i Hs. discriminate Hs.
    - intros i c sh p Hc. unfold get_class in Hc. cbn in Hc. discriminate.
    - intros i c Hc. unfold get_class in Hc. cbn in Hc. discriminate.
    - intros i c sh bij src Hc. unfold get_class in Hc. cbn in Hc. discriminate.
    - intros sh i Hs. discriminate Hs.
    - intros sh i Hs. discriminate Hs.
  Qed.

  Theorem Sx_pop : forall s sh ty rest, Sx (fun _ => False) s -> pend s = (sh, ty) :: rest ->
    Sx (eq sh) (set_pending Data s rest).
  Proof.
    intros s sh ty rest H Hp. eapply Sx_transfer. 5: exact H. reflexivity. reflexivity. reflexivity.
    intros x i _ Hn Hne. left. split. 2: tauto.
    rewrite Hp. cbn [na_get]. rewrite node_eqb_false. exact Hn. intro E. apply Hne. symmetry. exact E.
  Qed.

  Theorem Sx_kids_alive : forall (X : node -> Prop) sh s, Sx (fun x => X x \/ sh = x) s ->
    (forall i, stored s sh i -> forall k, In k (node_ids sh) -> fid s k = Ok k) -> Sx X s.
  Proof.
    intros X sh s H Hk. eapply Sx_transfer. 5: exact H. reflexivity. reflexivity. reflexivity.
    intros x i Hs Hp HX. destruct (node_eq_dec' sh x) as [E|E].
    - subst x. right. apply (Hk i Hs).
    - left. split. exact Hp. tauto.
  Qed.

  Theorem Sx_pending_true : forall (X : node -> Prop) sh s s', Sx (fun x => X x \/ sh = x) s ->
    pending_insert Data sh true s = Ok (tt, s') -> Sx X s'.
  Proof.
    intros X sh s s' H Hi. unfold pending_insert in Hi. apply modify_ok in Hi. subst s'.
    eapply Sx_transfer. 5: exact H. reflexivity. reflexivity. reflexivity.
    intros x i _ Hp HX. cbn [pending set_pending] in Hp. left.
    destruct (node_eq_dec' x sh) as [E|E].
    - subst x. rewrite na_get_set_same in Hp. exfalso. apply Hp. reflexivity.
    - rewrite na_get_set_other in Hp by exact E. split. exact Hp. intros [HX'|E']. tauto. apply E. symmetry. exact E'.
  Qed.

  (* ---------------- 6: update_analysis ---------------- *)
  Lemma strfr_refl_s : forall s, strfr s s.
  Proof. intro s. split. reflexivity. split. reflexivity. split. split; intros x Hx; exact Hx. reflexivity. Qed.

  Lemma strfr_trans_s : forall a b c, strfr a b -> strfr b c -> strfr a c.
  Proof.
    intros a b c [U1 [H1 [[P1 Q1] C1]]] [U2 [H2 [[P2 Q2] C2]]].
    split. congruence. split. congruence. split. 2: congruence.
    split; intros x Hx. apply P2. apply P1. exact Hx. apply Q2. apply Q1. exact Hx.
  Qed.

  Lemma pending_touch_false_strfr : forall x s s', pending_touch Data x false s = Ok (tt, s') -> strfr s s'.
  Proof.
    intros x s s' H. pose proof (pending_touch_qfr _ _ _ _ _ _ H) as [_ [_ Pg]].
    unfold pending_touch in H. apply modify_ok in H. subst s'.
    split. reflexivity. split. reflexivity. split. 2: reflexivity.
    split. exact Pg.
    intros y Hy. cbn [pending set_pending]. destruct (na_get (pend s) x) as [v|] eqn:E.
    - destruct (node_eq_dec' y x) as [Ey|Ey].
      + subst y. rewrite na_get_set_same. rewrite Hy in E. inversion E; subst v. reflexivity.
      + rewrite na_get_set_other by exact Ey. exact Hy.
    - apply na_get_app_some. exact Hy.
  Qed.

  Theorem update_analysis_strfr : forall sh i s s',
    update_analysis Data data_eqb make merge sh i s = Ok (tt, s') -> strfr s s'.
  Proof.
    intros sh i s s' H. unfold update_analysis in H.
    apply mbind_ok in H. destruct H as [v [s0 [H0 H]]]. apply reads_ok in H0. destruct H0 as [-> _].
    apply mbind_ok in H. destruct H as [c [s0 [H0 H]]]. apply reads_ok in H0. destruct H0 as [-> _].
    apply mbind_ok in H. destruct H as [[] [s1 [H1 H]]].
    assert (S1 : strfr s s1).
    { apply upd_class_effect in H1. destruct H1 as [c1 [_ [Hn ->]]].
      split. reflexivity. split. reflexivity. split. split; intros x Hx; exact Hx.
      cbn [classes set_classes]. eapply map_set_nth_keep. exact Hn. reflexivity. }
    destruct (data_eqb (merge (c_data Data c) v) (c_data Data c)).
    - apply ret_ok in H. destruct H as [-> _]. exact S1.
    - apply mbind_ok in H. destruct H as [[] [s2 [H2 H]]].
      eapply strfr_trans_s. exact S1.
      assert (S2 : strfr s1 s2).
      { unfold mq_push in H2. apply modify_ok in H2. subst s2.
        split. reflexivity. split. reflexivity. split. split; intros x Hx; exact Hx. reflexivity. }
      eapply strfr_trans_s. exact S2.
      unfold touched_class in H. apply mbind_ok in H. destruct H as [c2 [s3 [H3 H]]].
      apply reads_ok in H3. destruct H3 as [-> _].
      refine (iterM_inv Data (strfr s2) _ _ _ s2 s' (strfr_refl_s s2) H).
      intros x a b _ Ha Hb. eapply strfr_trans_s. exact Ha. eapply pending_touch_false_strfr. exact Hb.
  Qed.

  (* ---------------- class-wise relations ---------------- *)
  Definition cfx (R : N -> eclass Data -> eclass Data -> Prop) (s s' : eg) : Prop :=
    forall j, (forall c, gclass s j = Ok c -> exists c', gclass s' j = Ok c' /\ R j c c') /\
              (forall c', gclass s' j = Ok c' -> exists c, gclass s j = Ok c /\ R j c c').

  Definition crel (R : eclass Data -> eclass Data -> Prop) (s s' : eg) : Prop :=
    uf s' = uf s /\ hc s' = hc s /\ pend s' = pend s /\ List.length (cls s') = List.length (cls s) /\
    cfx (fun _ => R) s s'.

  Lemma crel_refl : forall R : eclass Data -> eclass Data -> Prop, (forall c, R c c) -> forall s, crel R s s.
  Proof.
    intros R Rr s. split. reflexivity. split. reflexivity. split. reflexivity. split. reflexivity.
    intro j. split; intros c Hc; exists c; split; auto.
  Qed.

  Lemma crel_trans : forall R : eclass Data -> eclass Data -> Prop, (forall a b c, R a b -> R b c -> R a c) ->
    forall a b c, crel R a b -> crel R b c -> crel R a c.
  Proof.
    intros R Rt a b c [U1 [H1 [P1 [L1 C1]]]] [U2 [H2 [P2 [L2 C2]]]].
    split. congruence. split. congruence. split. congruence. split. congruence.
    intro j. destruct (C1 j) as [C1a C1b]. destruct (C2 j) as [C2a C2b]. split.
    - intros x Hx. destruct (C1a x Hx) as [y [Hy Rxy]]. destruct (C2a y Hy) as [z [Hz Ryz]].
      exists z. split. exact Hz. eapply Rt; eassumption.
    - intros z Hz. destruct (C2b z Hz) as [y [Hy Ryz]]. destruct (C1b y Hy) as [x [Hx Rxy]].
      exists x. split. exact Hx. eapply Rt; eassumption.
  Qed.

  Lemma upd_class_len : forall i f s x s', upd_class Data i f s = Ok (x, s') -> List.length (cls s') = List.length (cls s).
  Proof.
    intros i f s x s' H. apply upd_class_effect in H. destruct H as [c [_ [_ ->]]].
    cbn [classes set_classes]. apply set_nth_length.
  Qed.

  Lemma upd_class_crel : forall (R : eclass Data -> eclass Data -> Prop) i f s x s', (forall c, R c c) -> (forall c, R c (f c)) ->
    upd_class Data i f s = Ok (x, s') -> crel R s s'.
  Proof.
    intros R i f s x s' Rr Rf H. pose proof (upd_class_len _ _ _ _ _ H) as L.
    apply upd_class_get in H. destruct H as [c [Hc [U [Hh [P G]]]]].
    split. exact U. split. exact Hh. split. exact P. split. exact L.
    intro j. rewrite G. destruct (j =? i)%N eqn:E.
    - apply N.eqb_eq in E. subst j. split.
      + intros c1 Hc1. rewrite Hc in Hc1. inversion Hc1; subst c1. exists (f c). split. reflexivity. apply Rf.
      + intros c' Hc'. inversion Hc'; subst c'. exists c. split. exact Hc. apply Rf.
    - split; intros c1 Hc1; exists c1; split; auto.
  Qed.

  Lemma iterM_upd_crel : forall (R : eclass Data -> eclass Data -> Prop) (g : N -> eclass Data -> eclass Data) l,
    (forall c, R c c) -> (forall a b c, R a b -> R b c -> R a c) -> (forall r c, R c (g r c)) ->
    forall s s', iterM Data (fun r => upd_class Data r (g r)) l s = Ok (tt, s') -> crel R s s'.
  Proof.
    intros R g l Rr Rt Hg s s' H.
    refine (iterM_inv Data (crel R s) _ _ _ s s' (crel_refl R Rr s) H).
    intros r a b _ Ha Hb. eapply crel_trans. exact Rt. exact Ha.
    eapply upd_class_crel. exact Rr. 2: exact Hb. intro c. apply Hg.
  Qed.

  (* ---------------- 7: raw_remove_from_class ---------------- *)
  Definition Rrm (sh : node) (c c' : eclass Data) : Prop :=
    cnodes c' = cnodes c /\ forall x, x <> sh -> In x (cusages c) -> In x (cusages c').

  Lemma Rrm_refl : forall sh c, Rrm sh c c.
  Proof. intros sh c. split. reflexivity. intros x _ Hx. exact Hx. Qed.
  Lemma Rrm_trans : forall sh a b c, Rrm sh a b -> Rrm sh b c -> Rrm sh a c.
  Proof. intros sh a b c [N1 U1] [N2 U2]. split. congruence. intros x Hx Hin. apply U2. exact Hx. apply U1. exact Hx. exact Hin. Qed.

  Definition Rrmj (i : N) (sh : node) (j : N) (c c' : eclass Data) : Prop :=
    cnodes c' = (if (j =? i)%N then na_remove (cnodes c) sh else cnodes c) /\
    forall x, x <> sh -> In x (cusages c) -> In x (cusages c').

  Lemma raw_remove_eff : forall i sh s p s', raw_remove_from_class Data i sh s = Ok (p, s') ->
    exists c0, gclass s i = Ok c0 /\ na_get (cnodes c0) sh = Some p /\
      uf s' = uf s /\ pend s' = pend s /\ hc s' = na_remove (hc s) sh /\
      List.length (cls s') = List.length (cls s) /\ cfx (Rrmj i sh) s s'.
  Proof.
    intros i sh s p s' H. unfold raw_remove_from_class in H.
    apply mbind_ok in H. destruct H as [c [s0 [H0 H]]]. apply reads_ok in H0. destruct H0 as [-> Hc].
    apply mbind_ok in H. destruct H as [[] [s1 [H1 H]]].
    apply mbind_ok in H. destruct H as [[] [s2 [H2 H]]]. apply modify_ok in H2.
    apply mbind_ok in H. destruct H as [[] [s3 [H3 H]]].
    destruct (na_get (cnodes c) sh) as [p0|] eqn:Ep. 2: discriminate.
    apply ret_ok in H. destruct H as [-> ->].
    pose proof (upd_class_len _ _ _ _ _ H1) as L1.
    apply upd_class_get in H1. destruct H1 as [c1 [Hc1 [U1 [Hh1 [P1 G1]]]]].
    rewrite Hc in Hc1. inversion Hc1; subst c1. clear Hc1.
    apply (iterM_upd_crel (Rrm sh) (fun r c0 => with_usages Data c0 (ns_remove (cusages c0) sh))) in H3.
    2: apply Rrm_refl. 2: apply Rrm_trans.
    2: { intros r c0. split. reflexivity. intros x Hx Hin. cbn [c_usages with_usages]. apply ns_remove_in; assumption. }
    destruct H3 as [U3 [Hh3 [P3 [L3 C3]]]].
    assert (G2 : forall j, gclass s2 j = gclass s1 j) by (intro j; subst s2; reflexivity).
    assert (U2 : uf s2 = uf s1) by (subst s2; reflexivity).
    assert (P2 : pend s2 = pend s1) by (subst s2; reflexivity).
    assert (Hh2 : hc s2 = na_remove (hc s1) sh) by (subst s2; reflexivity).
    assert (L2 : List.length (cls s2) = List.length (cls s1)) by (subst s2; reflexivity).
    exists c. split. exact Hc. split. exact Ep.
    split. congruence. split. congruence. split. congruence. split. congruence.
    intro j. destruct (C3 j) as [C3a C3b]. unfold Rrmj. split.
    - intros cj Hcj. assert (Hj2 := G2 j). rewrite G1 in Hj2. destruct (j =? i)%N eqn:E.
      + apply N.eqb_eq in E. subst j. rewrite Hc in Hcj. inversion Hcj; subst cj.
        destruct (C3a _ Hj2) as [c' [Hc' [Hn Hu]]]. exists c'. split. exact Hc'. split. exact Hn. exact Hu.
      + rewrite Hcj in Hj2. destruct (C3a _ Hj2) as [c' [Hc' [Hn Hu]]]. exists c'. split. exact Hc'. split. exact Hn. exact Hu.
    - intros c' Hc'. destruct (C3b c' Hc') as [c2 [Hc2 [Hn Hu]]]. rewrite G2, G1 in Hc2.
      destruct (j =? i)%N eqn:E.
      + apply N.eqb_eq in E. subst j. inversion Hc2; subst c2. exists c. split. exact Hc. split. exact Hn. exact Hu.
      + exists c2. split. exact Hc2. split. exact Hn. exact Hu.
  Qed.

  Theorem raw_remove_Sx : forall (X : node -> Prop) i sh s p s', Sx X s -> stored s sh i ->
    raw_remove_from_class Data i sh s = Ok (p, s') ->
    Sx X s' /\ hc s' = na_remove (hc s) sh /\ na_get (hc s') sh = None /\ dfr s s' /\ pend s' = pend s /\
    (exists c, gclass s i = Ok c /\ na_get (cnodes c) sh = Some p).
  Proof.
    intros X i sh s p s' H Hsi Hr.
    destruct (raw_remove_from_class_fr _ _ _ _ _ _ Hr (sx_nd _ _ _ H)) as [D _].
    destruct (raw_remove_eff _ _ _ _ _ Hr) as [c0 [Hc0 [Hp0 [U [P [Hh [L C]]]]]]].
    assert (Ef : forall j, fid s' j = fid s j) by (intro j; apply fid_uf_eq; exact U).
    assert (Hst : forall x j, stored s' x j -> x <> sh /\ stored s x j).
    { intros x j Hs. unfold AnalysisModelBase.stored in *. rewrite Hh in Hs.
      destruct (node_eq_dec' x sh) as [E|E].
      - subst x. rewrite na_get_remove_same in Hs by apply (sx_nd _ _ _ H). discriminate.
      - rewrite na_get_remove_other in Hs by exact E. split; assumption. }
    assert (Hst' : forall x j, x <> sh -> stored s x j -> stored s' x j).
    { intros x j E Hs. unfold AnalysisModelBase.stored in *. rewrite Hh. rewrite na_get_remove_other by exact E. exact Hs. }
    split. 2: { split. exact Hh. split. rewrite Hh. apply na_get_remove_same. apply (sx_nd _ _ _ H).
                split. exact D. split. exact P. exists c0. split; assumption. }
    constructor.
    - rewrite Hh. apply na_remove_nodup. apply (sx_nd _ _ _ H).
    - rewrite U, L. apply (sx_len _ _ _ H).
    - intros x j Hs. rewrite Ef. destruct (Hst _ _ Hs) as [_ Hs0]. eapply (sx_hl _ _ _ H). exact Hs0.
    - intros x j Hs. destruct (Hst _ _ Hs) as [Hne Hs0].
      destruct (sx_hf _ _ _ H x j Hs0) as [c [q [Hc Hq]]].
      destruct (C j) as [Ca _]. destruct (Ca c Hc) as [c' [Hc' [Hn _]]].
      exists c', q. split. exact Hc'. rewrite Hn. destruct (j =? i)%N.
      rewrite na_get_remove_other by exact Hne. exact Hq. exact Hq.
    - intros j c' x q Hc' Hin. destruct (C j) as [_ Cb]. destruct (Cb c' Hc') as [c [Hc [Hn _]]].
      rewrite Hn in Hin. destruct (j =? i)%N eqn:E.
      + apply N.eqb_eq in E. subst j.
        assert (Hne : x <> sh).
        { intro Ex. subst x. destruct (na_get_in_some _ _ _ Hin) as [v' Hv'].
          rewrite na_get_remove_same in Hv'. discriminate. eapply (sx_cn _ _ _ H). exact Hc. }
        apply Hst'. exact Hne. eapply (sx_hb _ _ _ H). exact Hc. eapply na_remove_in. exact Hin.
      + assert (Hs0 : stored s x j). { eapply (sx_hb _ _ _ H). exact Hc. exact Hin. }
        apply Hst'. 2: exact Hs0. intro Ex. subst x. unfold AnalysisModelBase.stored in *.
        rewrite Hsi in Hs0. inversion Hs0. subst j. rewrite N.eqb_refl in E. discriminate.
    - intros j c' Hc'. destruct (C j) as [_ Cb]. destruct (Cb c' Hc') as [c [Hc [Hn _]]]. rewrite Hn.
      destruct (j =? i)%N. apply na_remove_nodup. eapply (sx_cn _ _ _ H). exact Hc. eapply (sx_cn _ _ _ H). exact Hc.
    - intros j c' x bij src Hc' Hin. destruct (C j) as [_ Cb]. destruct (Cb c' Hc') as [c [Hc [Hn _]]].
      rewrite Hn in Hin. rewrite Ef. eapply (sx_so _ _ _ H). exact Hc.
      destruct (j =? i)%N. eapply na_remove_in. exact Hin. exact Hin.
    - intros x j Hs k Hk. destruct (Hst _ _ Hs) as [Hne Hs0].
      destruct (sx_ua _ _ _ H x j Hs0 k Hk) as [c [Hc Hu]].
      destruct (C k) as [Ca _]. destruct (Ca c Hc) as [c' [Hc' [_ Hu']]].
      exists c'. split. exact Hc'. apply Hu'. exact Hne. exact Hu.
    - intros x j Hs Hp HX k Hk. destruct (Hst _ _ Hs) as [_ Hs0]. rewrite Ef. rewrite P in Hp.
      apply (sx_kl _ _ _ H x j Hs0 Hp HX). exact Hk.
  Qed.

  (* ---------------- 8: raw_add_to_class ---------------- *)
  Definition Radd (c c' : eclass Data) : Prop :=
    cnodes c' = cnodes c /\ forall x, In x (cusages c) -> In x (cusages c').

  Lemma Radd_refl : forall c, Radd c c.
  Proof. intro c. split. reflexivity. intros x Hx. exact Hx. Qed.
  Lemma Radd_trans : forall a b c, Radd a b -> Radd b c -> Radd a c.
  Proof. intros a b c [N1 U1] [N2 U2]. split. congruence. intros x Hin. apply U2. apply U1. exact Hin. Qed.

  Definition Raddj (i : N) (sh : node) (v : slotmap * N) (j : N) (c c' : eclass Data) : Prop :=
    cnodes c' = (if (j =? i)%N then na_set (cnodes c) sh v else cnodes c) /\
    forall x, In x (cusages c) -> In x (cusages c').

  Lemma iterM_add_crel : forall sh l s s',
    iterM Data (fun r => upd_class Data r (fun c => with_usages Data c (ns_add (cusages c) sh))) l s = Ok (tt, s') ->
    crel Radd s s'.
  Proof.
    intros sh l s s' H.
    apply (iterM_upd_crel Radd (fun (r : N) c0 => with_usages Data c0 (ns_add (cusages c0) sh))) in H.
    exact H. apply Radd_refl. apply Radd_trans.
    intros r c0. split. reflexivity. intros x Hin. cbn [c_usages with_usages]. apply ns_add_in. exact Hin.
  Qed.

  Lemma iterM_add_usages : forall sh l s s',
    iterM Data (fun r => upd_class Data r (fun c => with_usages Data c (ns_add (cusages c) sh))) l s = Ok (tt, s') ->
    forall k, In k l -> exists c, gclass s' k = Ok c /\ In sh (cusages c).
  Proof.
    intros sh l. induction l as [|a t IH]; intros s s' H k Hk. destruct Hk.
    cbn [iterM] in H. apply mbind_ok in H. destruct H as [[] [s1 [H1 H2]]].
    destruct Hk as [->|Hk].
    - apply upd_class_get in H1. destruct H1 as [c [Hc [_ [_ [_ G]]]]].
      apply iterM_add_crel in H2. destruct H2 as [_ [_ [_ [_ C]]]].
      destruct (C k) as [Ca _]. specialize (G k). rewrite N.eqb_refl in G.
      destruct (Ca _ G) as [c' [Hc' [_ Hu]]]. exists c'. split. exact Hc'. apply Hu.
      cbn [c_usages with_usages]. apply ns_add_self.
    - eapply IH; eassumption.
  Qed.

  Lemma raw_add_eff : forall i sh bij src s s', raw_add_to_class Data i (sh, bij) src s = Ok (tt, s') ->
    exists c0, gclass s i = Ok c0 /\
      uf s' = uf s /\ pend s' = pend s /\ hc s' = na_set (hc s) sh i /\
      List.length (cls s') = List.length (cls s) /\ cfx (Raddj i sh (bij, src)) s s' /\
      (forall k, In k (node_ids sh) -> exists c, gclass s' k = Ok c /\ In sh (cusages c)).
  Proof.
    intros i sh bij src s s' H. unfold raw_add_to_class in H.
    apply mbind_ok in H. destruct H as [[] [s1 [H1 H]]].
    apply mbind_ok in H. destruct H as [[] [s2 [H2 H3]]]. apply modify_ok in H2.
    pose proof (upd_class_len _ _ _ _ _ H1) as L1.
    apply upd_class_get in H1. destruct H1 as [c [Hc [U1 [Hh1 [P1 G1]]]]].
    pose proof (iterM_add_usages _ _ _ _ H3) as K3.
    apply iterM_add_crel in H3. destruct H3 as [U3 [Hh3 [P3 [L3 C3]]]].
    assert (G2 : forall j, gclass s2 j = gclass s1 j) by (intro j; subst s2; reflexivity).
    assert (U2 : uf s2 = uf s1) by (subst s2; reflexivity).
    assert (P2 : pend s2 = pend s1) by (subst s2; reflexivity).
    assert (Hh2 : hc s2 = na_set (hc s1) sh i) by (subst s2; reflexivity).
    assert (L2 : List.length (cls s2) = List.length (cls s1)) by (subst s2; reflexivity).
    exists c. split. exact Hc.
    split. congruence. split. congruence. split. congruence. split. congruence. split. 2: exact K3.
    intro j. destruct (C3 j) as [C3a C3b]. unfold Raddj. split.
    - intros cj Hcj. assert (Hj2 := G2 j). rewrite G1 in Hj2. destruct (j =? i)%N eqn:E.
      + apply N.eqb_eq in E. subst j. rewrite Hc in Hcj. inversion Hcj; subst cj.
        destruct (C3a _ Hj2) as [c' [Hc' [Hn Hu]]]. exists c'. split. exact Hc'. split. exact Hn. exact Hu.
      + rewrite Hcj in Hj2. destruct (C3a _ Hj2) as [c' [Hc' [Hn Hu]]]. exists c'. split. exact Hc'. split. exact Hn. exact Hu.
    - intros c' Hc'. destruct (C3b c' Hc') as [c2 [Hc2 [Hn Hu]]]. rewrite G2, G1 in Hc2.
      destruct (j =? i)%N eqn:E.
      + apply N.eqb_eq in E. subst j. inversion Hc2; subst c2. exists c. split. exact Hc. split. exact Hn. exact Hu.
      + exists c2. split. exact Hc2. split. exact Hn. exact Hu.
  Qed.

  Theorem raw_add_Sx : forall (X : node -> Prop) i sh bij src s s', Sx X s -> na_get (hc s) sh = None ->
    fid s i = Ok i -> fid s src = Ok i ->
    raw_add_to_class Data i (sh, bij) src s = Ok (tt, s') ->
    Sx (fun x => X x \/ sh = x) s' /\ hc s' = na_set (hc s) sh i /\ dfr s s' /\ pend s' = pend s.
  Proof.
    intros X i sh bij src s s' H Hnone Hri Hrs Hr.
    destruct (raw_add_to_class_fr _ _ _ _ _ _ _ Hr (sx_nd _ _ _ H)) as [D _].
    destruct (raw_add_eff _ _ _ _ _ _ Hr) as [c0 [Hc0 [U [P [Hh [L [C K]]]]]]].
    assert (Ef : forall j, fid s' j = fid s j) by (intro j; apply fid_uf_eq; exact U).
    assert (Hst : forall x j, stored s' x j -> (x = sh /\ j = i) \/ (x <> sh /\ stored s x j)).
    { intros x j Hs. unfold AnalysisModelBase.stored in *. rewrite Hh in Hs.
      destruct (node_eq_dec' x sh) as [E|E].
      - subst x. rewrite na_get_set_same in Hs. inversion Hs. left. split; reflexivity.
      - rewrite na_get_set_other in Hs by exact E. right. split; assumption. }
    assert (Hne_st : forall x j, stored s x j -> x <> sh).
    { intros x j Hs E. subst x. unfold AnalysisModelBase.stored in Hs. rewrite Hnone in Hs. discriminate. }
    assert (Hst' : forall x j, stored s x j -> stored s' x j).
    { intros x j Hs. pose proof (Hne_st _ _ Hs) as E. unfold AnalysisModelBase.stored in *. rewrite Hh.
      rewrite na_get_set_other by exact E. exact Hs. }
    assert (Hsh' : stored s' sh i).
    { unfold AnalysisModelBase.stored. rewrite Hh. apply na_get_set_same. }
    split. 2: { split. exact Hh. split. exact D. exact P. }
    constructor.
    - rewrite Hh. apply na_set_nodup. apply (sx_nd _ _ _ H).
    - rewrite U, L. apply (sx_len _ _ _ H).
    - intros x j Hs. rewrite Ef. destruct (Hst _ _ Hs) as [[-> ->]|[_ Hs0]]. exact Hri.
      eapply (sx_hl _ _ _ H). exact Hs0.
    - intros x j Hs. destruct (Hst _ _ Hs) as [[-> ->]|[Hne Hs0]].
      + destruct (C i) as [Ca _]. destruct (Ca c0 Hc0) as [c' [Hc' [Hn _]]]. rewrite N.eqb_refl in Hn.
        exists c', (bij, src). split. exact Hc'. rewrite Hn. apply na_get_set_same.
      + destruct (sx_hf _ _ _ H x j Hs0) as [c [q [Hc Hq]]].
        destruct (C j) as [Ca _]. destruct (Ca c Hc) as [c' [Hc' [Hn _]]].
        exists c', q. split. exact Hc'. rewrite Hn. destruct (j =? i)%N.
        rewrite na_get_set_other by exact Hne. exact Hq. exact Hq.
    - intros j c' x q Hc' Hin. destruct (C j) as [_ Cb]. destruct (Cb c' Hc') as [c [Hc [Hn _]]].
      rewrite Hn in Hin. destruct (j =? i)%N eqn:E.
      + apply N.eqb_eq in E. subst j. apply na_set_in in Hin. destruct Hin as [Hin|Hin].
        * inversion Hin; subst. exact Hsh'.
        * apply Hst'. eapply (sx_hb _ _ _ H). exact Hc. exact Hin.
      + apply Hst'. eapply (sx_hb _ _ _ H). exact Hc. exact Hin.
    - intros j c' Hc'. destruct (C j) as [_ Cb]. destruct (Cb c' Hc') as [c [Hc [Hn _]]]. rewrite Hn.
      destruct (j =? i)%N. apply na_set_nodup. eapply (sx_cn _ _ _ H). exact Hc. eapply (sx_cn _ _ _ H). exact Hc.
    - intros j c' x b sr Hc' Hin. destruct (C j) as [_ Cb]. destruct (Cb c' Hc') as [c [Hc [Hn _]]].
      rewrite Hn in Hin. rewrite Ef. destruct (j =? i)%N eqn:E.
      + apply N.eqb_eq in E. subst j. apply na_set_in in Hin. destruct Hin as [Hin|Hin].
        * inversion Hin; subst. exact Hrs.
        * eapply (sx_so _ _ _ H). exact Hc. exact Hin.
      + eapply (sx_so _ _ _ H). exact Hc. exact Hin.
    - intros x j Hs k Hk. destruct (Hst _ _ Hs) as [[-> ->]|[Hne Hs0]].
      + apply K. exact Hk.
      + destruct (sx_ua _ _ _ H x j Hs0 k Hk) as [c [Hc Hu]].
        destruct (C k) as [Ca _]. destruct (Ca c Hc) as [c' [Hc' [_ Hu']]].
        exists c'. split. exact Hc'. apply Hu'. exact Hu.
    - intros x j Hs Hp HX k Hk. rewrite Ef. rewrite P in Hp.
      destruct (Hst _ _ Hs) as [[-> ->]|[Hne Hs0]].
      + exfalso. apply HX. right. reflexivity.
      + apply (sx_kl _ _ _ H x j Hs0 Hp). 2: exact Hk. intro HX'. apply HX. left. exact HX'.
  Qed.

  (* ---------------- 9: alloc_eclass ---------------- *)
  Theorem alloc_Sx : forall (X : node -> Prop) sl syn s i s', Sx X s -> alloc_eclass Data make sl syn s = Ok (i, s') ->
    Sx X s' /\ i = N.of_nat (List.length (uf s)) /\ fid s' i = Ok i /\ (forall j r, fid s j = Ok r -> fid s' j = Ok r) /\
    hc s' = hc s /\ pend s' = pend s /\
    (exists c, cls s' = cls s ++ [c] /\ make_in Data make s syn = Ok (c_data Data c) /\ cnodes c = [] /\ cusages c = []) /\
    (exists e, uf s' = uf s ++ [e] /\ aid e = i).
  Proof.
    intros X sl syn s i s' H Ha. unfold alloc_eclass in Ha.
    apply mbind_ok in Ha. destruct Ha as [cid [s0 [H0 Ha]]]. apply gets_ok in H0. destruct H0 as [-> Hcid].
    apply mbind_ok in Ha. destruct Ha as [g [s0 [H0 Ha]]]. apply lift_ok in H0. destruct H0 as [-> _].
    apply mbind_ok in Ha. destruct Ha as [d [s0 [H0 Ha]]]. apply reads_ok in H0. destruct H0 as [-> Hd].
    apply mbind_ok in Ha. destruct Ha as [[] [s1 [H1 Ha]]]. apply modify_ok in H1.
    apply mbind_ok in Ha. destruct Ha as [[] [s2 [H2 Ha]]]. apply ret_ok in Ha. destruct Ha as [-> ->].
    set (c := {| c_nodes := []; c_slots := sl; c_usages := []; c_group := g; c_syn := syn; c_data := d |}) in *.
    set (e := {| aid := cid; am := identity (slots syn) |}) in *.
    assert (E2 : s2 = set_uf Data s1 (uf s1 ++ [e])).
    { unfold unionfind_set in H2. subst s1. cbn [unionfind set_classes] in H2. rewrite Hcid in H2.
      rewrite Nat2N.id in H2. rewrite Nat.eqb_refl in H2. inversion H2. reflexivity. }
    clear H2. subst s1. cbn [unionfind set_classes] in E2.
    assert (U : uf s2 = uf s ++ [e]) by (subst s2; reflexivity).
    assert (Cl : cls s2 = cls s ++ [c]) by (subst s2; reflexivity).
    assert (Hh : hc s2 = hc s) by (subst s2; reflexivity).
    assert (P : pend s2 = pend s) by (subst s2; reflexivity).
    clear E2.
    assert (Fs : forall j r, fid s j = Ok r -> fid s2 j = Ok r).
    { intros j r Hj. change (fidl (uf s2) j = Ok r). rewrite U. apply fidl_snoc. exact Hj. }
    assert (Fn : fid s2 cid = Ok cid).
    { change (fidl (uf s2) cid = Ok cid). rewrite U. subst cid. unfold e. apply fidl_snoc_new. }
    assert (Gf : forall j cj, gclass s j = Ok cj -> gclass s2 j = Ok cj).
    { intros j cj Hj. unfold get_class in *. rewrite Cl.
      destruct (nth_opt (cls s) (N.to_nat j)) as [x|] eqn:En. 2: discriminate.
      rewrite (nth_opt_app_l _ _ _ _ En). exact Hj. }
    assert (Gb : forall j c', gclass s2 j = Ok c' -> gclass s j = Ok c' \/ c' = c).
    { intros j c' Hj. unfold get_class in *. rewrite Cl in Hj.
      destruct (nth_opt (cls s ++ [c]) (N.to_nat j)) as [x|] eqn:En. 2: discriminate.
      inversion Hj; subst x. apply nth_opt_snoc_inv in En. destruct En as [En|[_ En]].
      left. rewrite En. reflexivity. right. exact En. }
    assert (St : forall x j, stored s2 x j -> stored s x j).
    { intros x j Hs. unfold AnalysisModelBase.stored in *. rewrite <- Hh. exact Hs. }
    split.
    { constructor.
      - rewrite Hh. apply (sx_nd _ _ _ H).
      - rewrite U, Cl. rewrite !app_length. rewrite (sx_len _ _ _ H). reflexivity.
      - intros x j Hs. apply Fs. eapply (sx_hl _ _ _ H). apply St. exact Hs.
      - intros x j Hs. destruct (sx_hf _ _ _ H x j (St _ _ Hs)) as [cj [q [Hc Hq]]].
        exists cj, q. split. apply Gf. exact Hc. exact Hq.
      - intros j c' x q Hc' Hin. unfold AnalysisModelBase.stored. rewrite Hh.
        destruct (Gb _ _ Hc') as [Hc| ->]. eapply (sx_hb _ _ _ H). exact Hc. exact Hin. destruct Hin.
      - intros j c' Hc'. destruct (Gb _ _ Hc') as [Hc| ->]. eapply (sx_cn _ _ _ H). exact Hc.
        unfold na_nodup. cbn. constructor.
      - intros j c' x b sr Hc' Hin. destruct (Gb _ _ Hc') as [Hc| ->]. apply Fs. eapply (sx_so _ _ _ H). exact Hc. exact Hin.
        destruct Hin.
      - intros x j Hs k Hk. destruct (sx_ua _ _ _ H x j (St _ _ Hs) k Hk) as [ck [Hc Hu]].
        exists ck. split. apply Gf. exact Hc. exact Hu.
      - intros x j Hs Hp HX k Hk. apply Fs. rewrite P in Hp. apply (sx_kl _ _ _ H x j (St _ _ Hs) Hp HX). exact Hk. }
    split. exact Hcid. split. exact Fn. split. exact Fs. split. exact Hh. split. exact P.
    split. exists c. split. exact Cl. split. exact Hd. split; reflexivity.
    exists e. split. exact U. reflexivity.
  Qed.

End Str.

Print Assumptions Sx_mono.
Print Assumptions Sx_strfr.
Print Assumptions Sx_set_mq.
Print Assumptions Sx_empty.
Print Assumptions Sx_pop.
Print Assumptions Sx_kids_alive.
Print Assumptions Sx_pending_true.
Print Assumptions update_analysis_strfr.
Print Assumptions raw_remove_Sx.
Print Assumptions raw_add_Sx.
Print Assumptions alloc_Sx.
