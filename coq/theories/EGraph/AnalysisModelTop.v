(* EGraph/AnalysisModelTop.v — the control structure of EGraph/ModelA.v for the default `modify`
   (modify_kind = 0): rebuild returns with pending = [], every operation (add_expr0, eg_union0) ends in a
   rebuild, so every reachable state has pending = [] and satisfies every invariant J that is kept by
   one round of the pending loop and by the operations' prefixes (the operation with rebuild := ret tt). *)
From SE Require Import EGraph.ModelA EGraph.AnalysisFix EGraph.AnalysisModelBase.
From Coq Require Import Lia Arith Bool.

Section Top.
  Variable Data : Type.
  Variable data_eqb : Data -> Data -> bool.
  Variable make : (N -> res Data) -> node -> res Data.
  Variable merge : Data -> Data -> Data.
  Variable const_of : Data -> option N.

  Notation eg := (egraph Data).
  Notation M := (ModelA.M Data).
  Notation rt := (ret Data tt).
  Notation rb_pending := (rebuild_pending Data data_eqb make merge).
  Notation rebuild0 := (rebuild Data data_eqb make merge 0%nat const_of).
  Notation mq_loop0 := (mq_loop Data data_eqb make merge 0%nat const_of).
  (* add_internal's miss branch up to (excluding) the rebuild of mk_singleton_class and the final semify *)
  Definition add_pre0 (t : node * slotmap) : M appid :=
    mbind Data (fun s => let '(r, c) := refresh_private (fst t) (ctr Data s) in
                        match r with Ok n => Ok (n, set_ctr Data s c) | Err e => Err e end) (fun en =>
    mbind Data (lift Data (apply_slotmap false (snd t) en)) (fun en =>
    mbind Data (synify_enode Data en) (fun en =>
    mk_singleton_class Data make rt en))).
  Notation add_pre := add_pre0.
  Notation union_pre := (eg_union Data data_eqb merge rt).
  Notation add_e := (add_expr0 Data data_eqb make merge 0%nat const_of).
  Notation union_e := (eg_union0 Data data_eqb make merge 0%nat const_of).

  Variable J : eg -> Prop.
  Hypothesis J_mq : forall s q, J s -> J (set_mq Data s q).
  (* one round of the pending loop: from loop head to loop head *)
  Hypothesis J_hp : forall sh ty rest s s1, J s -> pending Data s = (sh, ty) :: rest ->
    handle_pending Data data_eqb make merge sh ty (set_pending Data s rest) = Ok (tt, s1) -> J s1.
  (* the operations up to their rebuild *)
  Hypothesis J_add_pre : forall t s a s1, J s -> pending Data s = [] -> add_pre t s = Ok (a, s1) -> J s1.
  Hypothesis J_union_pre : forall l r s b s1, J s -> pending Data s = [] -> union_pre l r s = Ok (b, s1) -> J s1.

  (* ---- the pending loop ---- *)
  Lemma rebuild_pending_S : forall f,
    rb_pending (S f) =
    mbind Data (gets Data (pending Data)) (fun p =>
      match p with
      | [] => ret Data tt
      | (sh, ty) :: rest =>
          mbind Data (modify Data (fun s => set_pending Data s rest)) (fun _ =>
          mbind Data (handle_pending Data data_eqb make merge sh ty) (fun _ => rb_pending f))
      end).
  Proof. reflexivity. Qed.

  Theorem rebuild_pending_J : forall fuel s s', J s -> rb_pending fuel s = Ok (tt, s') -> J s' /\ pending Data s' = [].
  Proof.
    induction fuel as [|f IH]; intros s s' HJ H.
    - discriminate.
    - rewrite rebuild_pending_S in H. apply (mbind_ok Data) in H. destruct H as [p [s0 [H0 H]]].
      apply (gets_ok Data) in H0. destruct H0 as [-> ->].
      destruct (pending Data s) as [|[sh ty] rest] eqn:Ep.
      + apply (ret_ok Data) in H. destruct H as [-> _]. split. exact HJ. exact Ep.
      + apply (mbind_ok Data) in H. destruct H as [[] [s1 [H1 H]]]. apply (modify_ok Data) in H1. subst s1.
        apply (mbind_ok Data) in H. destruct H as [[] [s2 [H2 H]]].
        apply (IH s2 s'). eapply J_hp. exact HJ. exact Ep. exact H2. exact H.
  Qed.

  (* ---- the modify loop with the default modify: only the queue changes ---- *)
  Lemma mq_loop_S : forall rb f,
    mq_loop0 rb (S f) =
    mbind Data (gets Data (modify_queue Data)) (fun q =>
      match pop_last q with
      | None => ret Data tt
      | Some (q', i) =>
          mbind Data (modify Data (fun s => set_mq Data s q')) (fun _ =>
          mbind Data (reads Data (fun s => find_id Data s i)) (fun j =>
          mbind Data (modify_hook Data data_eqb make merge 0%nat const_of rb j) (fun _ => mq_loop0 rb f)))
      end).
  Proof. reflexivity. Qed.

  Lemma mq_loop_eff : forall rb fuel s s', mq_loop0 rb fuel s = Ok (tt, s') -> exists q, s' = set_mq Data s q.
  Proof.
    intros rb. induction fuel as [|f IH]; intros s s' H.
    - discriminate.
    - rewrite mq_loop_S in H. apply (mbind_ok Data) in H. destruct H as [q [s0 [H0 H]]].
      apply (gets_ok Data) in H0. destruct H0 as [-> ->].
      destruct (pop_last (modify_queue Data s)) as [[q' i]|].
      + apply (mbind_ok Data) in H. destruct H as [[] [s1 [H1 H]]]. apply (modify_ok Data) in H1. subst s1.
        apply (mbind_ok Data) in H. destruct H as [j [s2 [H2 H]]]. apply (reads_ok Data) in H2. destruct H2 as [-> _].
        apply (mbind_ok Data) in H. destruct H as [[] [s3 [H3 H]]].
        unfold modify_hook in H3. apply (ret_ok Data) in H3. destruct H3 as [-> _].
        apply IH in H. destruct H as [q2 ->]. exists q2. reflexivity.
      + apply (ret_ok Data) in H. destruct H as [-> _]. exists (modify_queue Data s). destruct s; reflexivity.
  Qed.

  Lemma rebuild_S : forall d, rebuild0 (S d) = mbind Data (rb_pending rebuild_fuel) (fun _ => mq_loop0 (rebuild0 d) mq_fuel).
  Proof. reflexivity. Qed.

  Theorem rebuild_J : forall depth s s', J s -> rebuild0 depth s = Ok (tt, s') -> J s' /\ pending Data s' = [].
  Proof.
    intros [|d] s s' HJ H. discriminate.
    rewrite rebuild_S in H. apply (mbind_ok Data) in H. destruct H as [[] [s1 [H1 H2]]].
    destruct (rebuild_pending_J _ _ _ HJ H1) as [HJ1 Hp1].
    apply mq_loop_eff in H2. destruct H2 as [q ->]. split. apply J_mq. exact HJ1. exact Hp1.
  Qed.

  (* ---- operations = prefix ; rebuild ---- *)
  Lemma mk_singleton_split : forall (rb : M unit) n s a s',
    mk_singleton_class Data make rb n s = Ok (a, s') ->
    exists s1, mk_singleton_class Data make rt n s = Ok (a, s1) /\ rb s1 = Ok (tt, s').
  Proof.
    intros rb n s a s' H. unfold mk_singleton_class in *.
    apply (mbind_ok Data) in H. destruct H as [x1 [s1 [H1 H]]].
    apply (mbind_ok Data) in H. destruct H as [x2 [s2 [H2 H]]].
    apply (mbind_ok Data) in H. destruct H as [x3 [s3 [H3 H]]].
    apply (mbind_ok Data) in H. destruct H as [x4 [s4 [H4 H]]].
    apply (mbind_ok Data) in H. destruct H as [x5 [s5 [H5 H]]].
    apply (mbind_ok Data) in H. destruct H as [x6 [s6 [H6 H]]].
    apply (mbind_ok Data) in H. destruct H as [x7 [s7 [H7 H]]].
    apply (mbind_ok Data) in H. destruct H as [[] [s8 [H8 H]]].
    apply (ret_ok Data) in H. destruct H as [-> ->].
    exists s7. split. 2: exact H8.
    unfold mbind. rewrite H1, H2, H3, H4, H5, H6, H7. reflexivity.
  Qed.

  Lemma add_internal_split : forall (rb : M unit) t s a s',
    add_internal Data make rb t s = Ok (a, s') ->
    s' = s \/ (exists a1 s1, add_pre t s = Ok (a1, s1) /\ rb s1 = Ok (tt, s')).
  Proof.
    intros rb t s a s' H. unfold add_internal in H.
    apply (mbind_ok Data) in H. destruct H as [lk [s0 [H0 H]]].
    apply (reads_ok Data) in H0. destruct H0 as [-> Hlk].
    destruct lk as [x|].
    - apply (ret_ok Data) in H. destruct H as [-> _]. left. reflexivity.
    - right.
      apply (mbind_ok Data) in H. destruct H as [x1 [s1 [H1 H]]].
      apply (mbind_ok Data) in H. destruct H as [x2 [s2 [H2 H]]].
      apply (mbind_ok Data) in H. destruct H as [x3 [s3 [H3 H]]].
      apply (mbind_ok Data) in H. destruct H as [x4 [s4 [H4 H]]].
      destruct (mk_singleton_split rb x3 s3 x4 s4 H4) as [s5 [H5 H6]].
      apply (reads_ok Data) in H. destruct H as [-> _].
      exists x4, s5. split. 2: exact H6.
      unfold add_pre0, mbind. rewrite H1, H2, H3. exact H5.
  Qed.

  Lemma eg_union_split : forall (rb : M unit) l r s b s',
    eg_union Data data_eqb merge rb l r s = Ok (b, s') ->
    exists s1, union_pre l r s = Ok (b, s1) /\ rb s1 = Ok (tt, s').
  Proof.
    intros rb l r s b s' H. unfold eg_union in *.
    apply (mbind_ok Data) in H. destruct H as [x1 [s1 [H1 H]]].
    apply (mbind_ok Data) in H. destruct H as [x2 [s2 [H2 H]]].
    apply (mbind_ok Data) in H. destruct H as [x3 [s3 [H3 H]]].
    apply (mbind_ok Data) in H. destruct H as [[] [s4 [H4 H]]].
    apply (ret_ok Data) in H. destruct H as [-> ->].
    exists s3. split. 2: exact H4. unfold mbind. rewrite H1, H2, H3. reflexivity.
  Qed.

  (* ---- every operation keeps J and returns with pending = [] ---- *)
  Definition Jp (s : eg) : Prop := J s /\ pending Data s = [].

  Lemma eg_add_Jp : forall n s a s', Jp s -> eg_add Data make (rebuild0 rebuild_depth) n s = Ok (a, s') -> Jp s'.
  Proof.
    intros n s a s' [HJ Hp] H. unfold eg_add in H.
    apply (mbind_ok Data) in H. destruct H as [t [s0 [H0 H]]]. apply (reads_ok Data) in H0. destruct H0 as [-> _].
    destruct (add_internal_split _ _ _ _ _ H) as [->|[a1 [s1 [H1 H2]]]].
    - split; assumption.
    - apply (rebuild_J rebuild_depth s1 s'). eapply J_add_pre. exact HJ. exact Hp. exact H1. exact H2.
  Qed.

  Lemma add_expr_Jp : forall t s a s', Jp s -> add_e t s = Ok (a, s') -> Jp s'.
  Proof.
    unfold add_expr0, rb0.
    fix IH 1. intros [n ch] s a s' HJ H. cbn [add_expr] in H.
    apply (mbind_ok Data) in H. destruct H as [l [s1 [H1 H]]].
    assert (HJ1 : Jp s1).
    { clear H. revert s l s1 HJ H1. induction ch as [|c r IHr]; intros s l s1 HJ H1.
      - apply (ret_ok Data) in H1. destruct H1 as [-> _]. exact HJ.
      - apply (mbind_ok Data) in H1. destruct H1 as [a0 [s2 [H2 H1]]].
        apply (mbind_ok Data) in H1. destruct H1 as [r' [s3 [H3 H1]]].
        apply (ret_ok Data) in H1. destruct H1 as [-> _].
        apply (IHr s2 r' s3). eapply IH. exact HJ. exact H2. exact H3. }
    destruct (Nat.ltb (List.length (app_occ n)) (List.length l)). discriminate.
    eapply eg_add_Jp. exact HJ1. exact H.
  Qed.

  Lemma eg_union_Jp : forall l r s b s', Jp s -> union_e l r s = Ok (b, s') -> Jp s'.
  Proof.
    intros l r s b s' [HJ Hp] H. unfold eg_union0, rb0 in H.
    destruct (eg_union_split _ _ _ _ _ _ H) as [s1 [H1 H2]].
    apply (rebuild_J rebuild_depth s1 s'). eapply J_union_pre. exact HJ. exact Hp. exact H1. exact H2.
  Qed.

  (* ---- reachable states ---- *)
  Inductive reach : eg -> Prop :=
  | reach_empty : reach (empty_egraph Data)
  | reach_add : forall s t a s', reach s -> add_e t s = Ok (a, s') -> reach s'
  | reach_union : forall s l r b s', reach s -> union_e l r s = Ok (b, s') -> reach s'.

  Theorem reach_Jp : J (empty_egraph Data) -> forall s, reach s -> J s /\ pending Data s = [].
  Proof.
    intros H0 s Hr. induction Hr as [|s t a s' _ IH H|s l r b s' _ IH H].
    - split. exact H0. reflexivity.
    - eapply add_expr_Jp. exact IH. exact H.
    - eapply eg_union_Jp. exact IH. exact H.
  Qed.
End Top.
