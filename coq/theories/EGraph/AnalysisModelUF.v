(* EGraph/AnalysisModelUF.v — facts about the union-find lookup of ModelA (uf_get_go), at the level of
   ids only: roots, fuel irrelevance (pigeonhole), linking a root under another root, pushing a new
   entry, and dependence on the parent ids only. *)
From SE Require Import EGraph.ModelA.
From Coq Require Import List NArith Lia Arith.
From Coq Require FinFun.
Import ListNotations.
Local Open Scope N_scope.

Definition fidl (uf : list appid) (j : N) : res N :=
  do p <- uf_get_go (S (List.length uf)) uf j; Ok (aid p).

Definition is_root (uf : list appid) (r : N) : Prop :=
  exists e, nth_opt uf (N.to_nat r) = Some e /\ aid e = r.

(* ---------- the unfolding equation ---------- *)
Lemma uf_get_go_S f uf i :
  uf_get_go (S f) uf i =
  match nth_opt uf (N.to_nat i) with
  | None => Err OutOfBounds
  | Some e =>
      if aid e =? i then Ok e
      else do l <- uf_get_go f uf (aid e);
           Ok {| aid := aid l; am := compose_partial (am l) (am e) |}
  end.
Proof. reflexivity. Qed.

(* ---------- list utilities ---------- *)
Lemma nth_opt_lt {A} (l : list A) : forall n e, nth_opt l n = Some e -> (n < length l)%nat.
Proof.
  induction l as [|x t IH]; intros n e H.
  - discriminate H.
  - destruct n as [|n]; cbn [length].
    + lia.
    + cbn [nth_opt] in H. apply IH in H. lia.
Qed.

Lemma nth_opt_app_l {A} (l l' : list A) : forall n e, nth_opt l n = Some e -> nth_opt (l ++ l') n = Some e.
Proof.
  induction l as [|x t IH]; intros n e H.
  - discriminate H.
  - destruct n as [|n]; cbn [app nth_opt] in *.
    + exact H.
    + now apply IH.
Qed.

Lemma nth_opt_snoc {A} (l : list A) p : nth_opt (l ++ [p]) (length l) = Some p.
Proof. induction l as [|x t IH]; cbn [app nth_opt length]; [reflexivity|exact IH]. Qed.

Lemma nth_opt_map {A B} (g : A -> B) (l : list A) :
  forall n, nth_opt (map g l) n = match nth_opt l n with Some e => Some (g e) | None => None end.
Proof.
  induction l as [|x t IH]; intro n.
  - reflexivity.
  - destruct n as [|n]; cbn [map nth_opt]; [reflexivity|apply IH].
Qed.

Lemma set_nth_length {A} (l : list A) : forall n x, length (set_nth l n x) = length l.
Proof.
  induction l as [|y t IH]; intros n x.
  - reflexivity.
  - destruct n as [|n]; cbn [set_nth length]; [reflexivity|now rewrite IH].
Qed.

Lemma nth_opt_set_nth_eq {A} (l : list A) : forall n x, (n < length l)%nat -> nth_opt (set_nth l n x) n = Some x.
Proof.
  induction l as [|y t IH]; intros n x H.
  - cbn [length] in H. lia.
  - destruct n as [|n]; cbn [set_nth nth_opt]; [reflexivity|].
    apply IH. cbn [length] in H. lia.
Qed.

Lemma nth_opt_set_nth_neq {A} (l : list A) : forall n k x, n <> k -> nth_opt (set_nth l n x) k = nth_opt l k.
Proof.
  induction l as [|y t IH]; intros n k x H.
  - reflexivity.
  - destruct n as [|n]; destruct k as [|k]; cbn [set_nth nth_opt]; try reflexivity.
    + congruence.
    + apply IH. congruence.
Qed.

(* ---------- the parent function and the id-level walk ---------- *)
Definition par (uf : list appid) (i : N) : option N :=
  match nth_opt uf (N.to_nat i) with Some e => Some (aid e) | None => None end.

Lemma par_eq uf i : par uf i = match nth_opt uf (N.to_nat i) with Some e => Some (aid e) | None => None end.
Proof. reflexivity. Qed.

Fixpoint walkp (f : nat) (pa : N -> option N) (i : N) : res N :=
  match f with
  | O => Err OutOfFuel
  | S f => match pa i with
           | None => Err OutOfBounds
           | Some q => if q =? i then Ok i else walkp f pa q
           end
  end.

Lemma walkp_S f pa i :
  walkp (S f) pa i = match pa i with
                     | None => Err OutOfBounds
                     | Some q => if q =? i then Ok i else walkp f pa q
                     end.
Proof. reflexivity. Qed.

Lemma uf_walk f uf : forall i, (do p <- uf_get_go f uf i; Ok (aid p)) = walkp f (par uf) i.
Proof.
  induction f as [|f IH]; intro i.
  - reflexivity.
  - rewrite uf_get_go_S, walkp_S, par_eq.
    destruct (nth_opt uf (N.to_nat i)) as [e|]; [|reflexivity].
    destruct (N.eqb_spec (aid e) i) as [E|E].
    + cbn [bind]. now rewrite E.
    + rewrite <- IH. destruct (uf_get_go f uf (aid e)) as [l|s]; reflexivity.
Qed.

Lemma fidl_walk uf j : fidl uf j = walkp (S (length uf)) (par uf) j.
Proof. unfold fidl. apply uf_walk. Qed.

Lemma walkp_ext pa pa' (Hext : forall i, pa i = pa' i) f : forall j, walkp f pa j = walkp f pa' j.
Proof.
  induction f as [|f IH]; intro j; [reflexivity|].
  rewrite !walkp_S, <- Hext. destruct (pa j) as [q|]; [|reflexivity].
  destruct (q =? j); [reflexivity|apply IH].
Qed.

(* ---------- paths ---------- *)
Inductive stepsl (pa : N -> option N) : N -> N -> list N -> Prop :=
| sl_root j : pa j = Some j -> stepsl pa j j [j]
| sl_next j q r l : pa j = Some q -> q <> j -> stepsl pa q r l -> stepsl pa j r (j :: l).

Lemma walkp_stepsl pa f : forall j r, walkp f pa j = Ok r -> exists l, (length l <= f)%nat /\ stepsl pa j r l.
Proof.
  induction f as [|f IH]; intros j r H; [discriminate H|].
  rewrite walkp_S in H. destruct (pa j) as [q|] eqn:E; [|discriminate H].
  destruct (N.eqb_spec q j) as [Q|Q].
  - injection H as <-. subst q. exists [j]. split; [cbn [length]; lia|]. now constructor.
  - destruct (IH _ _ H) as (l & Hl & Hs). exists (j :: l). split; [cbn [length]; lia|].
    econstructor; eauto.
Qed.

Lemma stepsl_walkp pa j r l : stepsl pa j r l -> forall f, (length l <= f)%nat -> walkp f pa j = Ok r.
Proof.
  induction 1 as [j Hj | j q r l Hj Hq Hs IH]; intros f Hf;
    (destruct f as [|f]; [cbn [length] in Hf; lia|]); rewrite walkp_S, Hj.
  - rewrite N.eqb_refl. reflexivity.
  - destruct (N.eqb_spec q j) as [Q|Q]; [contradiction|]. apply IH. cbn [length] in Hf. lia.
Qed.

Lemma stepsl_root pa j r l : stepsl pa j r l -> pa r = Some r.
Proof. induction 1; assumption. Qed.

Lemma stepsl_dom pa j r l : stepsl pa j r l -> pa j <> None.
Proof. destruct 1; congruence. Qed.

Lemma stepsl_fun pa j r l : stepsl pa j r l -> forall r' l', stepsl pa j r' l' -> r = r' /\ l = l'.
Proof.
  induction 1 as [j Hj | j q r l Hj Hq Hs IH]; intros r' l' H';
    inversion H' as [j' Hj' | j' q' r'' l'' Hj' Hq' Hs']; subst.
  - auto.
  - rewrite Hj in Hj'. injection Hj' as <-. contradiction.
  - rewrite Hj in Hj'. injection Hj' as ->. contradiction.
  - rewrite Hj in Hj'. injection Hj' as <-. destruct (IH _ _ Hs') as [-> ->]. auto.
Qed.

Lemma stepsl_suffix pa j r l :
  stepsl pa j r l -> forall v, In v l -> exists l', stepsl pa v r l' /\ (length l' <= length l)%nat.
Proof.
  induction 1 as [j Hj | j q r l Hj Hq Hs IH]; intros v Hv.
  - destruct Hv as [<-|[]]. exists [j]. split; [now constructor|lia].
  - destruct Hv as [<-|Hv].
    + exists (j :: l). split; [econstructor; eauto|lia].
    + destruct (IH _ Hv) as (l' & Hs' & Hl). exists l'. split; [exact Hs'|cbn [length]; lia].
Qed.

Lemma stepsl_nodup pa j r l : stepsl pa j r l -> NoDup l.
Proof.
  induction 1 as [j Hj | j q r l Hj Hq Hs IH].
  - constructor; [intros []|constructor].
  - constructor; [|exact IH]. intro Hin.
    destruct (stepsl_suffix _ _ _ _ Hs _ Hin) as (l' & Hs' & Hl).
    assert (Hfull : stepsl pa j r (j :: l)) by (econstructor; eauto).
    destruct (stepsl_fun _ _ _ _ Hs' _ _ Hfull) as [_ ->]. cbn [length] in Hl. lia.
Qed.

Definition bounded (pa : N -> option N) (L : nat) : Prop :=
  forall i, pa i <> None -> (N.to_nat i < L)%nat.

(* pigeonhole *)
Lemma stepsl_bound pa L j r l : bounded pa L -> stepsl pa j r l -> (length l <= L)%nat.
Proof.
  intros Hb Hs.
  assert (H : (length (map N.to_nat l) <= length (seq 0 L))%nat).
  { apply NoDup_incl_length.
    - apply FinFun.Injective_map_NoDup; [intros x y; apply N2Nat.inj|]. eapply stepsl_nodup; eauto.
    - intros n Hn. apply in_map_iff in Hn. destruct Hn as (v & <- & Hv). apply in_seq.
      split; [lia|]. rewrite Nat.add_0_l. apply Hb.
      destruct (stepsl_suffix _ _ _ _ Hs _ Hv) as (l' & Hs' & _). eapply stepsl_dom; eauto. }
  now rewrite map_length, seq_length in H.
Qed.

Lemma par_bounded uf : bounded (par uf) (length uf).
Proof.
  intros i H. rewrite par_eq in H. destruct (nth_opt uf (N.to_nat i)) as [e|] eqn:E; [|congruence].
  eapply nth_opt_lt; eauto.
Qed.

Lemma fidl_of_stepsl uf j r l : stepsl (par uf) j r l -> fidl uf j = Ok r.
Proof.
  intro Hs. rewrite fidl_walk. eapply stepsl_walkp; eauto.
  pose proof (stepsl_bound _ _ _ _ _ (par_bounded uf) Hs). lia.
Qed.

Lemma stepsl_of_fidl uf j r : fidl uf j = Ok r -> exists l, stepsl (par uf) j r l.
Proof.
  rewrite fidl_walk. intro H. destruct (walkp_stepsl _ _ _ _ H) as (l & _ & Hs). eauto.
Qed.

Lemma is_root_par uf r : is_root uf r <-> par uf r = Some r.
Proof.
  rewrite par_eq. split.
  - intros (e & -> & <-). reflexivity.
  - destruct (nth_opt uf (N.to_nat r)) as [e|] eqn:E; [|discriminate].
    intro H. injection H as H. exists e. auto.
Qed.

(* ---------- 1, 2 ---------- *)
Theorem fidl_root uf r : is_root uf r -> fidl uf r = Ok r.
Proof.
  intro H. apply is_root_par in H. eapply fidl_of_stepsl. apply sl_root. exact H.
Qed.

Theorem fidl_is_root uf j r : fidl uf j = Ok r -> is_root uf r.
Proof.
  intro H. destruct (stepsl_of_fidl _ _ _ H) as (l & Hs). apply is_root_par.
  eapply stepsl_root; eauto.
Qed.

(* ---------- 3: fuel irrelevance ---------- *)
Theorem uf_get_go_fuel_enough :
  forall uf f j p, uf_get_go f uf j = Ok p ->
    exists q, uf_get_go (S (List.length uf)) uf j = Ok q /\ aid q = aid p.
Proof.
  intros uf f j p H.
  assert (Hw : walkp f (par uf) j = Ok (aid p)) by (rewrite <- uf_walk, H; reflexivity).
  destruct (walkp_stepsl _ _ _ _ Hw) as (l & _ & Hs).
  pose proof (fidl_of_stepsl _ _ _ _ Hs) as Hf. unfold fidl in Hf.
  destruct (uf_get_go (S (length uf)) uf j) as [q|s]; cbn [bind] in Hf; [|discriminate Hf].
  injection Hf as Hf. exists q. auto.
Qed.

(* ---------- 4: linking a root under another root ---------- *)
Section Link.
  Variables (pa pa' : N -> option N) (from to : N).
  Hypothesis Hfrom : pa from = Some from.
  Hypothesis Hto : pa to = Some to.
  Hypothesis Hne : from <> to.
  Hypothesis Hfrom' : pa' from = Some to.
  Hypothesis Hother : forall i, i <> from -> pa' i = pa i.

  Lemma stepsl_link j r l : stepsl pa j r l -> exists l', stepsl pa' j (if r =? from then to else r) l'.
  Proof.
    induction 1 as [j Hj | j q r l Hj Hq Hs IH].
    - destruct (N.eqb_spec j from) as [E|E].
      + subst j. exists [from; to]. eapply sl_next; [exact Hfrom'|congruence|].
        apply sl_root. rewrite Hother; [exact Hto|congruence].
      + exists [j]. apply sl_root. rewrite Hother; auto.
    - assert (E : j <> from).
      { intros ->. rewrite Hfrom in Hj. injection Hj as <-. contradiction. }
      destruct IH as (l' & Hs'). exists (j :: l'). eapply sl_next; [|exact Hq|exact Hs'].
      rewrite Hother; auto.
  Qed.

  Lemma stepsl_unlink j r' l : stepsl pa' j r' l -> exists r l', stepsl pa j r l'.
  Proof.
    induction 1 as [j Hj | j q r l Hj Hq Hs IH].
    - assert (E : j <> from).
      { intros ->. rewrite Hfrom' in Hj. injection Hj as Hj. congruence. }
      exists j, [j]. apply sl_root. rewrite <- Hother; auto.
    - destruct (N.eqb_spec j from) as [E|E].
      + subst j. exists from, [from]. now apply sl_root.
      + destruct IH as (r0 & l' & Hs'). exists r0, (j :: l'). eapply sl_next; [|exact Hq|exact Hs'].
        rewrite <- Hother; auto.
  Qed.
End Link.

Lemma is_root_lt uf r : is_root uf r -> (N.to_nat r < length uf)%nat.
Proof. intros (e & H & _). eapply nth_opt_lt; eauto. Qed.

Lemma par_set_nth_eq uf from x :
  (N.to_nat from < length uf)%nat -> par (set_nth uf (N.to_nat from) x) from = Some (aid x).
Proof. intro H. rewrite par_eq, nth_opt_set_nth_eq; auto. Qed.

Lemma par_set_nth_neq uf from x i :
  i <> from -> par (set_nth uf (N.to_nat from) x) i = par uf i.
Proof.
  intro H. rewrite !par_eq, nth_opt_set_nth_neq; [reflexivity|].
  intro E. apply N2Nat.inj in E. congruence.
Qed.

Theorem fidl_link :
  forall uf from to m, is_root uf from -> is_root uf to -> from <> to ->
    let uf' := set_nth uf (N.to_nat from) {| aid := to; am := m |} in
    forall j r, fidl uf j = Ok r -> fidl uf' j = Ok (if r =? from then to else r).
Proof.
  intros uf from to m Hf Ht Hne uf' j r H. subst uf'.
  destruct (stepsl_of_fidl _ _ _ H) as (l & Hs).
  pose proof (is_root_lt _ _ Hf) as Hlt.
  apply is_root_par in Hf. apply is_root_par in Ht.
  destruct (stepsl_link (par uf) (par (set_nth uf (N.to_nat from) {| aid := to; am := m |})) from to
              Hf Ht Hne (par_set_nth_eq _ _ _ Hlt) (fun i Hi => par_set_nth_neq _ _ _ _ Hi) _ _ _ Hs)
    as (l' & Hs').
  eapply fidl_of_stepsl; eauto.
Qed.

Theorem fidl_link_err :
  forall uf from to m, is_root uf from -> is_root uf to -> from <> to ->
    let uf' := set_nth uf (N.to_nat from) {| aid := to; am := m |} in
    forall j e, fidl uf j = Err e -> exists e', fidl uf' j = Err e'.
Proof.
  intros uf from to m Hf Ht Hne uf' j e H. subst uf'.
  destruct (fidl (set_nth uf (N.to_nat from) {| aid := to; am := m |}) j) as [r'|e'] eqn:E; [|eauto].
  exfalso.
  destruct (stepsl_of_fidl _ _ _ E) as (l & Hs).
  pose proof (is_root_lt _ _ Hf) as Hlt.
  apply is_root_par in Hf.
  destruct (stepsl_unlink (par uf) (par (set_nth uf (N.to_nat from) {| aid := to; am := m |})) from to
              Hf Hne (par_set_nth_eq _ _ _ Hlt) (fun i Hi => par_set_nth_neq _ _ _ _ Hi) _ _ _ Hs)
    as (r & l' & Hs').
  rewrite (fidl_of_stepsl _ _ _ _ Hs') in H. discriminate H.
Qed.

(* ---------- 5: pushing an entry ---------- *)
Lemma stepsl_mono pa pa' (Hm : forall i q, pa i = Some q -> pa' i = Some q) j r l :
  stepsl pa j r l -> stepsl pa' j r l.
Proof.
  induction 1 as [j Hj | j q r l Hj Hq Hs IH].
  - apply sl_root. auto.
  - eapply sl_next; eauto.
Qed.

Lemma par_snoc uf p i q : par uf i = Some q -> par (uf ++ [p]) i = Some q.
Proof.
  rewrite !par_eq. destruct (nth_opt uf (N.to_nat i)) as [e|] eqn:E; [|discriminate].
  intro H. now rewrite (nth_opt_app_l _ _ _ _ E).
Qed.

Theorem fidl_snoc : forall uf p j r, fidl uf j = Ok r -> fidl (uf ++ [p]) j = Ok r.
Proof.
  intros uf p j r H. destruct (stepsl_of_fidl _ _ _ H) as (l & Hs).
  eapply fidl_of_stepsl. eapply stepsl_mono; [|exact Hs]. intros i q. apply par_snoc.
Qed.

Theorem fidl_snoc_new :
  forall uf m, fidl (uf ++ [{| aid := N.of_nat (List.length uf); am := m |}]) (N.of_nat (List.length uf))
               = Ok (N.of_nat (List.length uf)).
Proof.
  intros uf m. apply fidl_root. exists {| aid := N.of_nat (length uf); am := m |}.
  split; [|reflexivity]. rewrite Nat2N.id. apply nth_opt_snoc.
Qed.

(* ---------- 6: only the parent ids matter ---------- *)
Theorem fidl_map_aid : forall uf uf', map aid uf = map aid uf' -> forall j, fidl uf j = fidl uf' j.
Proof.
  intros uf uf' H j. rewrite !fidl_walk.
  assert (Hl : length uf = length uf') by (rewrite <- (map_length aid uf), H; apply map_length).
  rewrite Hl. apply walkp_ext. intro i.
  rewrite !par_eq, <- !(nth_opt_map aid), H. reflexivity.
Qed.

Print Assumptions fidl_root.
Print Assumptions fidl_is_root.
Print Assumptions uf_get_go_fuel_enough.
Print Assumptions fidl_link.
Print Assumptions fidl_link_err.
Print Assumptions fidl_snoc.
Print Assumptions fidl_snoc_new.
Print Assumptions fidl_map_aid.
