(* EGraph/AnalysisModelUpper.v — the JUSTIFICATION invariant `upperv` (AnalysisModelInv.v: every datum of a
   leader is a join of contributions, each below make of a node stored in the class or of a virtual node)
   through the data-writing steps of ModelA, stated abstractly (by the effect of the step on find, on the
   data, and on the hashcons):
     upperv_same     nothing relevant changes
     upperv_update   update_analysis: merge old (make of a stored node)
     upperv_remove   a stored node is taken out of its class: it becomes virtual
     upperv_unvirt   a virtual node is replaced by a stored node of the same class with the same make
     upperv_link     move_to: from is linked under to, the data are merged, the nodes of from move to to
     upperv_new      a new class whose datum is make of its only node
   plus: make is monotone in the data (mk_in_mono), make of two nodes with the same operator whose
   children are pairwise in the same class is the same (mk_in_ids), and the effect of update_analysis
   (update_analysis_eff: data, and the popped node is stable afterwards). *)
From SE Require Import EGraph.ModelA EGraph.AnalysisFix EGraph.AnalysisModelBase EGraph.AnalysisModelStab
  EGraph.AnalysisModelUF EGraph.AnalysisModelAbs EGraph.AnalysisModelFrames EGraph.AnalysisModelInv.
From Coq Require Import Lia Arith Bool List NArith.
Import ListNotations.

Section Upper.
  Variable Data : Type.
  Variable data_eqb : Data -> Data -> bool.
  Variable make : (N -> res Data) -> node -> res Data.
  Variable merge : Data -> Data -> Data.
  Hypothesis merge_assoc : forall x y z, merge x (merge y z) = merge (merge x y) z.
  Hypothesis merge_comm : forall x y, merge x y = merge y x.
  Hypothesis merge_idem : forall x, merge x x = x.
  Hypothesis data_eqb_spec : forall x y, data_eqb x y = true <-> x = y.
  Variable L : Type.
  Variable lab : node -> L.
  Variable mk : L -> list Data -> Data.
  Hypothesis make_spec : forall get n, make get n = do ds <- mapr get (node_ids n); Ok (mk (lab n) ds).
  Hypothesis make_mono : forall l xs ys, Forall2 (AnalysisFix.le Data merge) xs ys -> AnalysisFix.le Data merge (mk l xs) (mk l ys).
  Hypothesis lab_nvar : forall n m, nvar n = nvar m -> lab n = lab m.
  Variable Dok : Data -> Prop.
  Hypothesis Dok_mk : forall l ds, Dok (mk l ds).
  Hypothesis Dok_merge : forall a b, Dok a -> Dok b -> Dok (merge a b).
  Hypothesis make_below_kids : forall l ds d, In d ds -> Dok d -> merge d (mk l ds) = d.

  Notation eg := (egraph Data).
  Notation uf := (unionfind Data).
  Notation cls := (classes Data).
  Notation hc := (hashcons Data).
  Notation pend := (pending Data).
  Notation gclass := (get_class Data).
  Notation adata := (analysis_data Data).
  Notation mk_in := (make_in Data make).
  Notation mle := (AnalysisFix.le Data merge).
  Notation stored := (AnalysisModelBase.stored Data).
  Notation npend := (AnalysisModelBase.npend Data).
  Notation fid := (find_id Data).
  Notation jbv := (jbv Data make merge).
  Notation upperv := (upperv Data make merge).
  Notation stab_at := (stab_at Data make merge).
  Notation dok := (dok Data Dok).

  Let le_refl := mle_refl Data merge merge_idem.
  Let le_trans := mle_trans Data merge merge_assoc.
  Let le_ub_l := mle_ub_l Data merge merge_assoc merge_idem.
  Let le_ub_r := mle_ub_r Data merge merge_assoc merge_comm merge_idem.

  (* ---------------- roots ---------------- *)
  Lemma fid_root_of : forall s j r, fid s j = Ok r -> fid s r = Ok r.
  Proof.
    intros s j r H. change (fidl (uf s) j = Ok r) in H. change (fidl (uf s) r = Ok r).
    apply fidl_root. eapply fidl_is_root. exact H.
  Qed.

  Lemma adata_via : forall s j r, fid s j = Ok r -> adata s j = adata s r.
  Proof. intros s j r H. apply (adata_same_class Data). exact H. eapply fid_root_of. exact H. Qed.

  (* ---------------- make: monotone, and a function of the operator and the children's classes ---------------- *)
  Lemma mapr_grow : forall (g g' : N -> res Data) ks ds,
    (forall k d, In k ks -> g k = Ok d -> exists d', g' k = Ok d' /\ mle d d') ->
    mapr g ks = Ok ds -> exists ds', mapr g' ks = Ok ds' /\ Forall2 mle ds ds'.
  Proof.
    intros g g' ks. induction ks as [|k t IH]; intros ds Hg H.
    - cbn [mapr] in H. inversion H; subst ds. exists []. split. reflexivity. constructor.
    - cbn [mapr] in H. apply bind_ok in H. destruct H as [d [Hd H]]. apply bind_ok in H. destruct H as [r [Hr H]].
      inversion H; subst ds. destruct (Hg k d (or_introl eq_refl) Hd) as [d' [Hd' Hle]].
      destruct (IH r (fun k0 d0 Hin => Hg k0 d0 (or_intror Hin)) Hr) as [r' [Hr' HF]].
      exists (d' :: r'). split. cbn [mapr]. rewrite Hd'. cbn [bind]. rewrite Hr'. reflexivity.
      constructor; assumption.
  Qed.

  Lemma mk_in_mono : forall s s' sh v,
    (forall k d, In k (node_ids sh) -> adata s k = Ok d -> exists d', adata s' k = Ok d' /\ mle d d') ->
    mk_in s sh = Ok v -> exists v', mk_in s' sh = Ok v' /\ mle v v'.
  Proof.
    intros s s' sh v Hg Hv. unfold make_in in *. rewrite make_spec in Hv. apply bind_ok in Hv. destruct Hv as [ds [Hds Hv]].
    inversion Hv; subst v. destruct (mapr_grow _ _ _ _ Hg Hds) as [ds' [Hds' HF]].
    exists (mk (lab sh) ds'). split. rewrite make_spec. rewrite Hds'. reflexivity. apply make_mono. exact HF.
  Qed.

  Lemma mapr_rel : forall (g : N -> res Data) ks ks',
    Forall2 (fun k k' => g k' = g k) ks ks' -> mapr g ks' = mapr g ks.
  Proof.
    intros g ks ks' HF. induction HF as [|k k' t t' E HF IH]. reflexivity.
    cbn [mapr]. rewrite E. rewrite IH. reflexivity.
  Qed.

  Lemma mk_in_ids : forall s sh sh', nvar sh' = nvar sh ->
    Forall2 (fun k k' => fid s k = Ok k') (node_ids sh) (node_ids sh') -> mk_in s sh' = mk_in s sh.
  Proof.
    intros s sh sh' Hn HF. unfold make_in. rewrite !make_spec. rewrite (lab_nvar sh' sh Hn).
    rewrite (mapr_rel (adata s) (node_ids sh) (node_ids sh')). reflexivity.
    induction HF as [|k k' t t' Hk HF IH]. constructor. constructor. 2: exact IH.
    rewrite (adata_via s k k' Hk). reflexivity.
  Qed.

  (* ---------------- lifting justifications ---------------- *)
  Definition src (V : list (node * N)) (s : eg) (c : N) (sh : node) : Prop :=
    stored s sh c \/ exists k, In (sh, k) V /\ fid s k = Ok c.

  Lemma jbv_src : forall V s c sh v d, src V s c sh -> mk_in s sh = Ok v -> mle d v -> jbv V s c d.
  Proof.
    intros V s c sh v d [Hs|[k [Hin Hk]]] Hv Hle. eapply jbv_make; eassumption. eapply jbv_virt; eassumption.
  Qed.

  Lemma jbv_lift : forall V V' s s' c0 c d,
    (forall sh v, src V s c0 sh -> mk_in s sh = Ok v -> exists sh' v', src V' s' c sh' /\ mk_in s' sh' = Ok v' /\ mle v v') ->
    jbv V s c0 d -> jbv V' s' c d.
  Proof.
    intros V V' s s' c0 c d H Hj. induction Hj as [sh v d Hs Hv Hle|sh k v d Hin Hk Hv Hle|d e _ IHd _ IHe].
    - destruct (H sh v (or_introl Hs) Hv) as [sh' [v' [Hs' [Hv' Hle']]]]. eapply jbv_src. exact Hs'. exact Hv'. eapply le_trans; eassumption.
    - destruct (H sh v (or_intror (ex_intro _ k (conj Hin Hk))) Hv) as [sh' [v' [Hs' [Hv' Hle']]]].
      eapply jbv_src. exact Hs'. exact Hv'. eapply le_trans; eassumption.
    - apply jbv_join; assumption.
  Qed.

  Definition grows (s s' : eg) : Prop := forall j d, adata s j = Ok d -> exists d', adata s' j = Ok d' /\ mle d d'.

  Lemma jbv_lift_grow : forall V V' s s' c0 c d, grows s s' ->
    (forall sh, src V s c0 sh -> src V' s' c sh) -> jbv V s c0 d -> jbv V' s' c d.
  Proof.
    intros V V' s s' c0 c d Hg Hs. apply jbv_lift. intros sh v Hsrc Hv.
    destruct (mk_in_mono s s' sh v (fun k d0 _ Hd => Hg k d0 Hd) Hv) as [v' [Hv' Hle]].
    exists sh, v'. split. apply Hs. exact Hsrc. split; assumption.
  Qed.

  Lemma grows_same : forall s s', (forall j d, adata s j = Ok d -> adata s' j = Ok d) -> grows s s'.
  Proof. intros s s' H j d Hd. exists d. split. apply H. exact Hd. apply le_refl. Qed.

  (* ---------------- nothing relevant changes ---------------- *)
  Lemma upperv_same : forall V s s', upperv V s ->
    (forall j, fid s' j = fid s j) -> (forall j, adata s' j = adata s j) ->
    (forall sh c, stored s sh c -> stored s' sh c) -> upperv V s'.
  Proof.
    intros V s s' Hup Hf Ha Hs c d Hc Hd. rewrite Hf in Hc. rewrite Ha in Hd.
    apply (jbv_lift_grow V V s s' c c d). apply grows_same. intros j d0 H0. rewrite Ha. exact H0.
    - intros sh [H1|[k [Hin Hk]]]. left. apply Hs. exact H1. right. exists k. split. exact Hin. rewrite Hf. exact Hk.
    - apply Hup; assumption.
  Qed.

  (* ---------------- a stored node becomes virtual ---------------- *)
  Lemma upperv_remove : forall V s s' sh i, upperv V s -> fid s i = Ok i -> stored s sh i ->
    (forall j, fid s' j = fid s j) -> (forall j, adata s' j = adata s j) ->
    (forall x c, stored s x c -> x <> sh -> stored s' x c) -> upperv ((sh, i) :: V) s'.
  Proof.
    intros V s s' sh i Hup Hroot Hsto Hf Ha Hs c d Hc Hd. rewrite Hf in Hc. rewrite Ha in Hd.
    apply (jbv_lift_grow V ((sh, i) :: V) s s' c c d). apply grows_same. intros j d0 H0. rewrite Ha. exact H0.
    - intros x [H1|[k [Hin Hk]]].
      + destruct (node_eq_dec' x sh) as [->|Hne].
        * right. exists i. split. left. reflexivity. rewrite Hf.
          unfold AnalysisModelBase.stored in *. rewrite Hsto in H1. inversion H1; subst c. exact Hroot.
        * left. apply Hs; assumption.
      + right. exists k. split. right. exact Hin. rewrite Hf. exact Hk.
    - apply Hup; assumption.
  Qed.

  (* ---------------- a virtual node is replaced by a stored one with the same make ---------------- *)
  Lemma upperv_unvirt : forall V s sh i sh' c, upperv ((sh, i) :: V) s -> fid s i = Ok c -> stored s sh' c ->
    (forall v, mk_in s sh = Ok v -> mk_in s sh' = Ok v) -> upperv V s.
  Proof.
    intros V s sh i sh' c Hup Hi Hs' Hmk c0 d Hc Hd.
    apply (jbv_lift ((sh, i) :: V) V s s c0 c0 d). 2: apply Hup; assumption.
    intros x v [H1|[k [[E|Hin] Hk]]] Hv.
    - exists x, v. split. left. exact H1. split. exact Hv. apply le_refl.
    - inversion E; subst x k. rewrite Hi in Hk. inversion Hk; subst c0.
      exists sh', v. split. left. exact Hs'. split. apply Hmk. exact Hv. apply le_refl.
    - exists x, v. split. right. exists k. split; assumption. split. exact Hv. apply le_refl.
  Qed.

  (* ---------------- update_analysis ---------------- *)
  Lemma update_analysis_eff : forall sh i s s', dok s -> fid s i = Ok i ->
    update_analysis Data data_eqb make merge sh i s = Ok (tt, s') ->
    exists v c, mk_in s sh = Ok v /\ gclass s i = Ok c /\ uf s' = uf s /\ hc s' = hc s /\
      (forall j, adata s' j = match fid s j with
                              | Ok r => if r =? i then Ok (merge (c_data Data c) v) else adata s j
                              | Err e => Err e end) /\
      stab_at s' sh i.
  Proof.
    intros sh i s s' Hdok Hroot H. unfold update_analysis in H.
    apply (mbind_ok Data) in H. destruct H as [v [s0 [H0 H]]]. apply (reads_ok Data) in H0. destruct H0 as [-> Hv].
    apply (mbind_ok Data) in H. destruct H as [c [s0 [H0 H]]]. apply (reads_ok Data) in H0. destruct H0 as [-> Hc].
    apply (mbind_ok Data) in H. destruct H as [[] [s1 [H1 H]]].
    apply (upd_data_eff Data) in H1. destruct H1 as [c' [Hc' [U1 [HC1 [P1 [G1 In1]]]]]].
    rewrite Hc in Hc'. inversion Hc'; subst c'. clear Hc'.
    set (old := c_data Data c) in *. set (new := merge old v) in *.
    assert (HDold : Dok old).
    { apply Hdok. unfold get_class in Hc. destruct (nth_opt (cls s) (N.to_nat i)) eqn:E; [|discriminate].
      inversion Hc; subst. eapply (nth_opt_In). exact E. }
    assert (Ha1 := adata_upd Data i new s s1 c Hc U1 G1).
    (* sh itself is stable in s1 *)
    assert (Hsh1 : stab_at s1 sh i).
    { destruct (data_eqb new old) eqn:Eq.
      - apply data_eqb_spec in Eq.
        exists new, v. split. rewrite Ha1. rewrite Hroot. rewrite N.eqb_refl. reflexivity.
        split.
        + rewrite <- Hv. apply (mk_in_ext Data make L lab mk make_spec). intros k _. rewrite Ha1. destruct (fid s k) as [r|e] eqn:Er.
          * destruct (r =? i) eqn:Eri. apply N.eqb_eq in Eri. subst r. rewrite Eq. unfold analysis_data. rewrite Er. cbn [bind]. rewrite Hc. reflexivity. reflexivity.
          * unfold analysis_data. rewrite Er. reflexivity.
        + unfold new. apply (merge_absorb Data merge merge_assoc merge_idem).
      - assert (Hnk : ~ kid_in Data s sh i).
        { intros [k [Hk Hf]]. assert (Hdk : adata s k = Ok old).
          { unfold analysis_data. rewrite Hf. cbn [bind]. rewrite Hc. reflexivity. }
          assert (X := make_below_child Data make merge L lab mk make_spec Dok make_below_kids s sh v k old Hv Hk Hdk HDold).
          assert (E : new = old) by exact X. apply data_eqb_spec in E. rewrite E in Eq. discriminate. }
        exists new, v. split. rewrite Ha1. rewrite Hroot. rewrite N.eqb_refl. reflexivity.
        split.
        + rewrite <- Hv. apply (mk_in_ext Data make L lab mk make_spec). intros k Hk. rewrite Ha1. destruct (fid s k) as [r|e] eqn:Er.
          * destruct (r =? i) eqn:Eri. apply N.eqb_eq in Eri. subst r. exfalso. apply Hnk. exists k. split; assumption. reflexivity.
          * unfold analysis_data. rewrite Er. reflexivity.
        + unfold new. apply (merge_absorb Data merge merge_assoc merge_idem). }
    assert (Hfin : uf s' = uf s1 /\ cls s' = cls s1 /\ hc s' = hc s1).
    { destruct (data_eqb new old).
      - apply (ret_ok Data) in H. destruct H as [-> _]. repeat split.
      - apply (mbind_ok Data) in H. destruct H as [[] [s2 [H2 H3]]].
        apply (mq_push_eff Data) in H2. destruct H2 as [U2 [C2 [HC2 P2]]].
        apply (touched_class_eff Data) in H3. destruct H3 as [c3 [Hc3 [U3 [C3 [HC3 P3]]]]].
        split. congruence. split; congruence. }
    destruct Hfin as [U' [C' H']].
    assert (Had : forall j, adata s' j = adata s1 j). { intro j. apply (adata_eq Data); assumption. }
    exists v, c. split. exact Hv. split. exact Hc. split. congruence. split. congruence. split.
    - intro j. rewrite Had. apply Ha1.
    - destruct Hsh1 as [d [w [Hd [Hw Hle]]]]. exists d, w. split. rewrite Had. exact Hd. split.
      rewrite <- Hw. apply (mk_in_ext Data make L lab mk make_spec). intros k _. apply Had. exact Hle.
  Qed.

  Lemma upperv_update : forall V sh i s s' v c, upperv V s -> stored s sh i -> fid s i = Ok i ->
    mk_in s sh = Ok v -> gclass s i = Ok c -> uf s' = uf s -> hc s' = hc s ->
    (forall j, adata s' j = match fid s j with
                            | Ok r => if r =? i then Ok (merge (c_data Data c) v) else adata s j
                            | Err e => Err e end) ->
    upperv V s'.
  Proof.
    intros V sh i s s' v c Hup Hsto Hroot Hv Hc HU HH Ha c0 d Hc0 Hd.
    assert (Hf : forall j, fid s' j = fid s j). { intro j. apply (fid_uf Data). exact HU. }
    assert (Hold : adata s i = Ok (c_data Data c)). { unfold analysis_data. rewrite Hroot. cbn [bind]. rewrite Hc. reflexivity. }
    assert (Hg : grows s s').
    { intros j d0 Hd0. rewrite Ha. destruct (fid s j) as [r|e] eqn:Er.
      - destruct (r =? i) eqn:Eri.
        + apply N.eqb_eq in Eri. subst r. rewrite (adata_same_class Data s j i Er Hroot) in Hd0. rewrite Hold in Hd0. inversion Hd0; subst d0.
          exists (merge (c_data Data c) v). split. reflexivity. apply le_ub_l.
        + exists d0. split. exact Hd0. apply le_refl.
      - unfold analysis_data in Hd0. rewrite Er in Hd0. discriminate. }
    assert (Hsrc : forall c1 sh1, src V s c1 sh1 -> src V s' c1 sh1).
    { intros c1 sh1 [H1|[k [Hin Hk]]]. left. unfold AnalysisModelBase.stored in *. rewrite HH. exact H1.
      right. exists k. split. exact Hin. rewrite Hf. exact Hk. }
    rewrite Hf in Hc0. rewrite Ha in Hd. rewrite Hc0 in Hd. destruct (c0 =? i) eqn:E.
    - apply N.eqb_eq in E. subst c0. inversion Hd; subst d. apply jbv_join.
      + apply (jbv_lift_grow V V s s' i i). exact Hg. apply Hsrc. apply Hup; assumption.
      + destruct (mk_in_mono s s' sh v (fun k d0 _ Hd0 => Hg k d0 Hd0) Hv) as [v' [Hv' Hle]].
        eapply jbv_make. unfold AnalysisModelBase.stored in *. rewrite HH. exact Hsto. exact Hv'. exact Hle.
    - apply (jbv_lift_grow V V s s' c0 c0). exact Hg. apply Hsrc. apply Hup; assumption.
  Qed.

  (* ---------------- move_to ---------------- *)
  Lemma upperv_link : forall V s s' from to a_from a_to,
    upperv V s -> fid s from = Ok from -> fid s to = Ok to -> from <> to ->
    adata s from = Ok a_from -> adata s to = Ok a_to ->
    (forall j r, fid s j = Ok r -> fid s' j = Ok (if r =? from then to else r)) ->
    (forall c, fid s' c = Ok c -> exists r, fid s c = Ok r) ->
    (forall j r, fid s j = Ok r -> adata s' j = if (r =? from) || (r =? to) then Ok (merge a_from a_to) else adata s j) ->
    (forall sh c, stored s sh c -> stored s' sh (if c =? from then to else c)) ->
    upperv V s'.
  Proof.
    intros V s s' from to a_from a_to Hup Hrf Hrt Hne Haf Hat Hf Hdef Ha Hs c d Hc Hd.
    set (new := merge a_from a_to) in *.
    assert (Hg : grows s s').
    { intros j d0 Hd0. destruct (adata_fid_ok Data s j d0 Hd0) as [r Hr]. rewrite (Ha j r Hr).
      destruct (r =? from) eqn:E1.
      - apply N.eqb_eq in E1. subst r. rewrite (adata_same_class Data s j from Hr Hrf) in Hd0. rewrite Haf in Hd0. inversion Hd0; subst d0.
        cbn [orb]. exists new. split. reflexivity. apply le_ub_l.
      - destruct (r =? to) eqn:E2.
        + apply N.eqb_eq in E2. subst r. rewrite (adata_same_class Data s j to Hr Hrt) in Hd0. rewrite Hat in Hd0. inversion Hd0; subst d0.
          cbn [orb]. exists new. split. reflexivity. apply le_ub_r.
        + cbn [orb]. exists d0. split. exact Hd0. apply le_refl. }
    assert (Hsrc : forall c1 sh1, src V s c1 sh1 -> src V s' (if c1 =? from then to else c1) sh1).
    { intros c1 sh1 [H1|[k [Hin Hk]]]. left. apply Hs. exact H1.
      right. exists k. split. exact Hin. apply Hf. exact Hk. }
    destruct (Hdef c Hc) as [r Hr]. assert (Hc' := Hf c r Hr). rewrite Hc in Hc'. injection Hc' as Ec.
    assert (Hrr : fid s r = Ok r) by (eapply fid_root_of; exact Hr).
    rewrite (Ha c r Hr) in Hd.
    destruct (r =? from) eqn:E1.
    - (* c = to, reached from `from` *)
      cbn [orb] in Hd. apply N.eqb_eq in E1. subst r. inversion Hd; subst d. subst c.
      apply jbv_join.
      + assert (X := jbv_lift_grow V V s s' from (if from =? from then to else from) a_from Hg (Hsrc from) (Hup from a_from Hrf Haf)).
        rewrite N.eqb_refl in X. exact X.
      + assert (X := jbv_lift_grow V V s s' to (if to =? from then to else to) a_to Hg (Hsrc to) (Hup to a_to Hrt Hat)).
        destruct (to =? from); exact X.
    - (* c = r, a root of s other than from *)
      subst c. destruct (r =? to) eqn:E2.
      + apply N.eqb_eq in E2. subst r. cbn [orb] in Hd. inversion Hd; subst d. apply jbv_join.
        * assert (X := jbv_lift_grow V V s s' from (if from =? from then to else from) a_from Hg (Hsrc from) (Hup from a_from Hrf Haf)).
          rewrite N.eqb_refl in X. exact X.
        * assert (X := jbv_lift_grow V V s s' to (if to =? from then to else to) a_to Hg (Hsrc to) (Hup to a_to Hrt Hat)).
          destruct (to =? from); exact X.
      + cbn [orb] in Hd.
        assert (X := jbv_lift_grow V V s s' r (if r =? from then to else r) d Hg (Hsrc r) (Hup r d Hrr Hd)).
        rewrite E1 in X. exact X.
  Qed.

  (* ---------------- a new class ---------------- *)
  Lemma upperv_new : forall V s s' i d0 sh0, upperv V s ->
    (forall j r, fid s j = Ok r -> fid s' j = Ok r /\ adata s' j = adata s j) ->
    (forall c, fid s' c = Ok c -> c = i \/ fid s c = Ok c) ->
    adata s' i = Ok d0 -> stored s' sh0 i -> mk_in s' sh0 = Ok d0 ->
    (forall sh c, stored s sh c -> stored s' sh c) ->
    upperv V s'.
  Proof.
    intros V s s' i d0 sh0 Hup Hf Hroots Hi Hs0 Hm0 Hs c d Hc Hd.
    destruct (N.eq_dec c i) as [->|Hne].
    - rewrite Hi in Hd. inversion Hd; subst d. eapply jbv_make. exact Hs0. exact Hm0. apply le_refl.
    - destruct (Hroots c Hc) as [E|Hrc]. contradiction.
      destruct (Hf c c Hrc) as [_ Hac]. rewrite Hac in Hd.
      apply (jbv_lift_grow V V s s' c c d).
      + apply grows_same. intros j d1 Hd1. destruct (adata_fid_ok Data s j d1 Hd1) as [r Hr]. destruct (Hf j r Hr) as [_ E]. rewrite E. exact Hd1.
      + intros sh [H1|[k [Hin Hk]]]. left. apply Hs. exact H1. right. exists k. split. exact Hin. apply (Hf k c Hk).
      + apply Hup; assumption.
  Qed.

  (* upper of AnalysisModelAbs.v from upperv [] *)
  Lemma jbv_nil_jb : forall s c d, jbv [] s c d -> jb Data make merge s c d.
  Proof.
    intros s c d H. induction H as [sh v d Hs Hv Hle|sh k v d Hin _ _ _|d e _ IHd _ IHe].
    - eapply jb_make; eassumption.
    - destruct Hin.
    - apply jb_join; assumption.
  Qed.

End Upper.

Print Assumptions upperv_link.
Print Assumptions upperv_update.
Print Assumptions update_analysis_eff.
