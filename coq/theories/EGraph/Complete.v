(* EGraph/Complete.v — C02: the e-graph model is COMPLETE for the specified congruence `Deriv` — the converse of
   SoundClosed.equality_sound_all.  For every history of insertions and unions over terms that satisfy the ONE static,
   decidable premise `term_static_user` (OpsPreFacts.v): if the terms of two handles are derivably equal from the
   asserted equations, `eg_eq` answers true on the handles.

   Files (build order): CompleteDefs (interpretation `clk`, relation `Sim`), CompleteNm (names), CompleteSim (`Sim` is
   a congruence in every good state), CompleteEqRnv (`eg_eq` under injective renaming of values), CompleteRen (`clk` is
   equivariant under axiom instantiation), CompleteCanon (`clk` on canonical forms = `lookup_rec`), CompleteRun (the
   asserted equations are between represented terms with eg-equal handles), CompleteMain (induction on derivations).

   Corollaries: `eq_iff_deriv` (the e-graph decides exactly `Deriv` on its handles), `order_independence`,
   `order_independence_perm` (the answers depend only on the SET of asserted equations up to orientation), and
   `equivariance_all`, `equivariance_iff_all` (CompleteEquiv.v: renaming the user slots of all inputs).
   Validation and counterexamples: CompleteCheck.v. *)
From SE Require Import Slots.SlotMapFacts Group.GroupSound Lang.LangFacts Lang.ShapeFacts Lang.RenameFacts
  Slots.SlotFacts Base.TextFacts EGraph.Model EGraph.ModelFacts EGraph.ModelMachine EGraph.PendingFacts EGraph.UnionFindFacts
  EGraph.InvariantFacts EGraph.UnionInvariantFacts EGraph.AddCoversFacts EGraph.MonotoneFacts EGraph.HashconsShape
  EGraph.Mod4Facts EGraph.HashconsAbs EGraph.Model9 EGraph.HashconsFacts EGraph.NodeCong EGraph.KidEqFacts EGraph.ShapeCong
  EGraph.CongruenceFacts EGraph.RepFacts EGraph.SoundFacts EGraph.OpsPreFacts
  EGraph.CompleteDefs EGraph.CompleteNm EGraph.CompleteSim EGraph.CompleteEqRnv EGraph.CompleteRen EGraph.CompleteCanon
  EGraph.CompleteRun EGraph.CompleteMain EGraph.CompleteEquiv.
From SE Require Import Sem.Term Sem.Deriv Sem.DerivFacts.
Require Import ZArith Lia Permutation.

(* in a good state: derivability from equations between represented, eg-equal terms implies Sim *)
Theorem Deriv_Sim_good : forall s E, good s ->
  (forall l r, In (l, r) E -> exists tl tr a b, term_static_user tl /\ term_static_user tr /\ l = canon0 tl /\ r = canon0 tr /\
                                            rep s tl a /\ rep s tr b /\ eg_eq s a b = Ok true) ->
  forall t u, Deriv E 0 t u -> Sim s [] t u.
Proof.
  intros s E G HE t u H. destruct (good_parts s G) as (I3 & Hs & _).
  apply (Deriv_Sim s (Sim_refl s G) (Sim_sym s G) (Sim_trans s G) (Sim_cong s G) E); [|exact H].
  intros l r d rho js Hin Hok Hl.
  destruct (HE l r Hin) as (tl & tr & a & b & Sl & Sr & -> & -> & Rl & Rr & Eab).
  apply (ax_Sim s G (clk_values s I3) (clk_ren s I3) wfc_canon0 (clk_canon0 s G (clk_ren s I3))
           (fun th x y => eg_eq_rnv_true s th x y) tl tr a b Sl Sr Rl Rr Eab d rho js Hok Hl).
Qed.

Theorem equality_complete_all : forall terms ops hs s i j a b ti tj, Forall term_static_user terms ->
  run_ops terms ops [] empty_egraph = Ok (hs, s) -> nth_opt hs i = Some a -> nth_opt hs j = Some b ->
  nth_opt (handle_cterms terms ops) i = Some ti -> nth_opt (handle_cterms terms ops) j = Some tj ->
  Deriv (asserted terms ops) 0 ti tj -> eg_eq s a b = Ok true.
Proof.
  intros terms ops hs s i j a b ti tj HT H Ea Eb Ei Ej D.
  destruct (asserted_rep terms ops hs s HT H) as (G & HR & AR). destruct (good_parts s G) as (I3 & _).
  destruct (HR i a ti Ea Ei) as (t1 & _ & S1 & -> & R1). destruct (HR j b tj Eb Ej) as (t2 & _ & S2 & -> & R2).
  apply (Sim_rep_eq s G (clk_canon0 s G (clk_ren s I3)) t1 t2 a b S1 S2 R1 R2).
  apply (Deriv_Sim_good s (asserted terms ops) G); [|exact D].
  intros l r Hin. destruct (AR l r Hin) as (tl & tr & a' & b' & _ & _ & Sl & Sr & El & Er & Rl & Rr & E').
  exists tl, tr, a', b'. auto 10.
Qed.

(* the e-graph decides exactly the specified congruence on its handles *)
Theorem eq_iff_deriv : forall terms ops hs s i j a b ti tj, Forall term_static_user terms ->
  run_ops terms ops [] empty_egraph = Ok (hs, s) -> nth_opt hs i = Some a -> nth_opt hs j = Some b ->
  nth_opt (handle_cterms terms ops) i = Some ti -> nth_opt (handle_cterms terms ops) j = Some tj ->
  (eg_eq s a b = Ok true <-> Deriv (asserted terms ops) 0 ti tj).
Proof.
  intros terms ops hs s i j a b ti tj HT H Ea Eb Ei Ej. split.
  - exact (equality_sound_all_static terms ops hs s i j a b ti tj HT H Ea Eb Ei Ej).
  - exact (equality_complete_all terms ops hs s i j a b ti tj HT H Ea Eb Ei Ej).
Qed.

(* the answer is a boolean (no error) on handles: so the iff determines the answer *)
Lemma eg_eq_handles_total : forall terms ops hs s i j a b, run_ops terms ops [] empty_egraph = Ok (hs, s) ->
  nth_opt hs i = Some a -> nth_opt hs j = Some b -> exists x, eg_eq s a b = Ok x.
Proof.
  intros terms ops hs s i j a b H Ea Eb. destruct (reachable_inv3 terms ops hs s H) as [I3 C].
  pose proof (proj1 (Forall_forall _ _) C a (nth_opt_In _ _ _ Ea)) as Ca.
  pose proof (proj1 (Forall_forall _ _) C b (nth_opt_In _ _ _ Eb)) as Cb.
  destruct I3 as [[Hs _] _].
  destruct (eg_eq_sym_inv s a b (ei_uf _ Hs) (ei_slots _ Hs) Ca Cb) as (x & Hx & _). exists x. exact Hx.
Qed.

(* ORDER INDEPENDENCE: two histories (possibly over different term lists and with different insertion orders) whose
   asserted equation sets agree up to order, repetition and orientation answer every equality query on handles of
   the same two terms alike *)
Theorem order_independence : forall terms1 ops1 hs1 s1 terms2 ops2 hs2 s2 i j i' j' a b a' b' ti tj,
  Forall term_static_user terms1 -> Forall term_static_user terms2 ->
  run_ops terms1 ops1 [] empty_egraph = Ok (hs1, s1) -> run_ops terms2 ops2 [] empty_egraph = Ok (hs2, s2) ->
  (forall l r, In (l, r) (asserted terms1 ops1) -> In (l, r) (asserted terms2 ops2) \/ In (r, l) (asserted terms2 ops2)) ->
  (forall l r, In (l, r) (asserted terms2 ops2) -> In (l, r) (asserted terms1 ops1) \/ In (r, l) (asserted terms1 ops1)) ->
  nth_opt hs1 i = Some a -> nth_opt hs1 j = Some b ->
  nth_opt (handle_cterms terms1 ops1) i = Some ti -> nth_opt (handle_cterms terms1 ops1) j = Some tj ->
  nth_opt hs2 i' = Some a' -> nth_opt hs2 j' = Some b' ->
  nth_opt (handle_cterms terms2 ops2) i' = Some ti -> nth_opt (handle_cterms terms2 ops2) j' = Some tj ->
  eg_eq s1 a b = eg_eq s2 a' b'.
Proof.
  intros terms1 ops1 hs1 s1 terms2 ops2 hs2 s2 i j i' j' a b a' b' ti tj HT1 HT2 H1 H2 E12 E21 Ea Eb Ei Ej Ea' Eb' Ei' Ej'.
  pose proof (eq_iff_deriv terms1 ops1 hs1 s1 i j a b ti tj HT1 H1 Ea Eb Ei Ej) as Q1.
  pose proof (eq_iff_deriv terms2 ops2 hs2 s2 i' j' a' b' ti tj HT2 H2 Ea' Eb' Ei' Ej') as Q2.
  assert (Q : eg_eq s1 a b = Ok true <-> eg_eq s2 a' b' = Ok true).
  { rewrite Q1, Q2. split; apply Deriv_order_orientation; assumption. }
  destruct (eg_eq_handles_total terms1 ops1 hs1 s1 i j a b H1 Ea Eb) as [x Hx].
  destruct (eg_eq_handles_total terms2 ops2 hs2 s2 i' j' a' b' H2 Ea' Eb') as [y Hy].
  rewrite Hx, Hy in *. destruct x, y; try reflexivity.
  - destruct Q as [Q _]. specialize (Q eq_refl). discriminate.
  - destruct Q as [_ Q]. specialize (Q eq_refl). discriminate.
Qed.

Corollary order_independence_perm : forall terms1 ops1 hs1 s1 terms2 ops2 hs2 s2 i j i' j' a b a' b' ti tj,
  Forall term_static_user terms1 -> Forall term_static_user terms2 ->
  run_ops terms1 ops1 [] empty_egraph = Ok (hs1, s1) -> run_ops terms2 ops2 [] empty_egraph = Ok (hs2, s2) ->
  Permutation (asserted terms1 ops1) (asserted terms2 ops2) ->
  nth_opt hs1 i = Some a -> nth_opt hs1 j = Some b ->
  nth_opt (handle_cterms terms1 ops1) i = Some ti -> nth_opt (handle_cterms terms1 ops1) j = Some tj ->
  nth_opt hs2 i' = Some a' -> nth_opt hs2 j' = Some b' ->
  nth_opt (handle_cterms terms2 ops2) i' = Some ti -> nth_opt (handle_cterms terms2 ops2) j' = Some tj ->
  eg_eq s1 a b = eg_eq s2 a' b'.
Proof.
  intros terms1 ops1 hs1 s1 terms2 ops2 hs2 s2 i j i' j' a b a' b' ti tj HT1 HT2 H1 H2 P.
  apply (order_independence terms1 ops1 hs1 s1 terms2 ops2 hs2 s2 i j i' j' a b a' b' ti tj HT1 HT2 H1 H2).
  - intros l r Hin. left. exact (Permutation_in _ P Hin).
  - intros l r Hin. left. exact (Permutation_in _ (Permutation_sym P) Hin).
Qed.

(* EQUIVARIANCE: renaming the user slot names of ALL input terms by a renaming sg that is injective on the non-reserved
   names (and keeps user names user names) preserves every positive answer; with a left inverse it preserves every
   answer.  (`rren sg t` renames every slot occurrence, binders included, of the term t; CompleteEquiv.v.)  Injectivity
   is needed: CompleteCheck.equivariance_needs_injective. *)
Theorem equivariance_all : forall sg terms ops hs s hs' s' i j a b a' b', nonB_ren sg -> Forall term_static_user terms ->
  run_ops terms ops [] empty_egraph = Ok (hs, s) -> run_ops (map (rren sg) terms) ops [] empty_egraph = Ok (hs', s') ->
  nth_opt hs i = Some a -> nth_opt hs j = Some b -> nth_opt hs' i = Some a' -> nth_opt hs' j = Some b' ->
  eg_eq s a b = Ok true -> eg_eq s' a' b' = Ok true.
Proof. exact (equivariance eq_iff_deriv). Qed.

Theorem equivariance_iff_all : forall sg tau terms ops hs s hs' s' i j a b a' b', nonB_ren sg -> nonB_ren tau ->
  (forall x, tau (sg x) = x) -> Forall term_static_user terms ->
  run_ops terms ops [] empty_egraph = Ok (hs, s) -> run_ops (map (rren sg) terms) ops [] empty_egraph = Ok (hs', s') ->
  nth_opt hs i = Some a -> nth_opt hs j = Some b -> nth_opt hs' i = Some a' -> nth_opt hs' j = Some b' ->
  eg_eq s a b = eg_eq s' a' b'.
Proof.
  intros sg tau terms ops hs s hs' s' i j a b a' b' Hsg Htau Inv HT H H' Ea Eb Ea' Eb'.
  pose proof (equivariance_iff_l eq_iff_deriv sg tau terms ops hs s hs' s' i j a b a' b' Hsg HT H H' Ea Eb Ea' Eb' Htau Inv) as Q.
  destruct (eg_eq_handles_total terms ops hs s i j a b H Ea Eb) as [x Hx].
  destruct (eg_eq_handles_total _ ops hs' s' i j a' b' H' Ea' Eb') as [y Hy].
  rewrite Hx, Hy in *. destruct x, y; try reflexivity.
  - destruct Q as [Q _]. specialize (Q eq_refl). discriminate.
  - destruct Q as [_ Q]. specialize (Q eq_refl). discriminate.
Qed.

Print Assumptions Deriv_Sim_good.
Print Assumptions equality_complete_all.
Print Assumptions eq_iff_deriv.
Print Assumptions order_independence.
Print Assumptions order_independence_perm.
Print Assumptions equivariance_all.
Print Assumptions equivariance_iff_all.
