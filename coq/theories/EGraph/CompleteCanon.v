(* EGraph/CompleteCanon.v — C02 completeness: on the canonical form `canon0 t` of a user term t the read-only
   bottom-up lookup `clk` (CompleteDefs.v) finds EXACTLY the invocation that `lookup_rec` (Model9.v) finds for t
   (binder names do not matter for lookups).

   `wfc_canon0`: the canonical form of a user term (rt_ok) is well scoped.
   `clk_canon0` (conditional on the renaming lemma CR = CompleteRen.clk_ren, a Section hypothesis):
      term_static_user t -> lookup_rec s t = Ok (Some x) -> clk s [] (canon0 t) = Some x.
   The node that clk builds for canon0 (RT n ch) is SYNTACTICALLY `ren (gn n) (set_apps n l)` where l are the
   invocations of the children and `gn n` keeps the public names and renames the binder at nesting depth e of the
   j-th top-level argument of n to `nm e j`; `gn n` is a `ren_ok` renaming (NoDup (binders n), user names have
   residue 0/2) and eg_lookup is equivariant (RepReachB.eg_lookup_ren) with `gn n true = id`. *)
From SE Require Import Slots.SlotMapFacts Group.GroupSound Lang.LangFacts Lang.ShapeFacts Lang.RenameFacts
  Slots.SlotFacts Base.TextFacts EGraph.Model EGraph.ModelFacts EGraph.ModelMachine EGraph.PendingFacts EGraph.UnionFindFacts
  EGraph.InvariantFacts EGraph.UnionInvariantFacts EGraph.AddCoversFacts EGraph.MonotoneFacts EGraph.HashconsShape
  EGraph.Model9 EGraph.CongruenceFacts EGraph.RepFacts EGraph.RepReachB EGraph.SoundFacts EGraph.SoundAddExpr
  EGraph.RewriteSoundInst EGraph.OpsPreFacts EGraph.CompleteDefs EGraph.CompleteNm.
From SE Require Import Sem.Term Sem.Deriv Sem.AlgebraFacts Sem.DerivFacts.
Require Import ZArith Lia.

(* ====================================================================== *)
(* 1. canon0 of a user term is well scoped                                  *)
(* ====================================================================== *)

Lemma cn_wfc_CT : forall e v args, wfc e (CT v args) <-> Forall (wfa e) args.
Proof.
  intros e v args. cbn [wfc]. induction args as [|a l IH].
  - split; intros _; [constructor|exact I].
  - split.
    + intros [Ha Hl]. constructor; [exact Ha|]. apply IH. exact Hl.
    + intros H. inversion H as [|a0 l0 Ha Hl]; subst. split; [exact Ha|]. apply IH. exact Hl.
Qed.

Section WfRen.
  Variables (d : nat) (rho : N -> N).
  Hypothesis R : forall x, is_B x = false -> is_B (rho x) = false \/ exists k, (k < d)%nat /\ rho x = B k.

  Definition wr_P (c : cterm) : Prop := forall e, wfc e c -> wfc (d + e) (cren (lift d rho) c).
  Definition wr_Q (a : carg) : Prop := forall e, wfa e a -> wfa (d + e) (cren_arg (lift d rho) a).

  Lemma wf_ren_PQ : (forall c, wr_P c) /\ (forall a, wr_Q a).
  Proof.
    assert (HCT : forall v args, Forall wr_Q args -> wr_P (CT v args)).
    { intros v args HF e W. rewrite cren_CT. apply cn_wfc_CT. apply cn_wfc_CT in W.
      induction HF as [|a l Ha HF IH]; cbn [map]; [constructor|].
      inversion W as [|a0 l0 Wa Wl]; subst. constructor; [apply Ha; exact Wa|apply IH; exact Wl]. }
    assert (HSlot : forall x, wr_Q (CSlot x)).
    { intros x e W. cbn [cren_arg wfa] in *. intros HB. unfold lift in *. destruct (is_B x) eqn:E.
      - destruct (W eq_refl) as (k & Hk & ->). exists (d + k)%nat. split; [lia|]. unfold shift_B, B. lia.
      - destruct (R x E) as [H|(k & Hk & H)]; [rewrite H in HB; discriminate|].
        exists k. split; [lia|exact H]. }
    assert (HChild : forall t, wr_P t -> wr_Q (CChild t)).
    { intros t IH e W. cbn [cren_arg wfa] in *. apply IH. exact W. }
    assert (HBind : forall a, wr_Q a -> wr_Q (CBind a)).
    { intros a IH e W. cbn [cren_arg wfa] in *. rewrite <- Nat.add_succ_r. apply IH. exact W. }
    assert (HPay : forall p, wr_Q (CPay p)).
    { intros p e W. exact I. }
    split.
    - exact (cterm_ind2 wr_P wr_Q HCT HSlot HChild HBind HPay).
    - exact (carg_ind2 wr_P wr_Q HCT HSlot HChild HBind HPay).
  Qed.
End WfRen.

Lemma wfc_cren_env : forall d env c, env_wf d env -> wfc 0 c -> wfc d (cren (lift d (env_get env)) c).
Proof.
  intros d env c EW W.
  assert (R : forall x, is_B x = false -> is_B (env_get env x) = false \/ exists k, (k < d)%nat /\ env_get env x = B k).
  { intros x Hx. destruct (env_get_range d env EW x) as [A|A]; [left; rewrite A; exact Hx|right; exact A]. }
  pose proof (proj1 (wf_ren_PQ d (env_get env) R) c 0%nat W) as H. rewrite Nat.add_0_r in H. exact H.
Qed.

Lemma carg_of_wf : forall a e env ccs, env_wf e env -> Forall (wfc 0) ccs ->
  (forall x, In x (all_occ_f a) -> usern x) ->
  wfa e (fst (carg_of e env a ccs)) /\ Forall (wfc 0) (snd (carg_of e env a ccs)).
Proof.
  induction a as [x|y|x b IH|p]; intros e env ccs EW F U; cbn [carg_of].
  - cbn [fst snd wfa]. split; [|exact F]. intros HB.
    destruct (env_get_range e env EW x) as [A|A]; [|exact A].
    exfalso. rewrite A in HB. rewrite (usern_notB x) in HB; [discriminate|]. apply U. left. reflexivity.
  - destruct F as [|c r Wc F]; cbn [fst snd wfa]; [split; [exact I|constructor]|].
    split; [|exact F]. apply wfc_cren_env; assumption.
  - specialize (IH (S e) ((x, B e) :: env) ccs (ew_cons _ _ _ EW) F).
    destruct (carg_of (S e) ((x, B e) :: env) b ccs) as [b' r]. cbn [fst snd wfa] in *.
    apply IH. intros z Hz. apply U. right. exact Hz.
  - cbn [fst snd wfa]. split; [exact I|exact F].
Qed.

Lemma cargs_of_wf : forall e env l ccs, env_wf e env -> Forall (wfc 0) ccs ->
  (forall x, In x (flat_map all_occ_f l) -> usern x) -> Forall (wfa e) (cargs_of e env l ccs).
Proof.
  intros e env. induction l as [|a l IH]; intros ccs EW F U; cbn [cargs_of]; [constructor|].
  destruct (carg_of_wf a e env ccs EW F) as [A1 A2].
  { intros x Hx. apply U. cbn [flat_map]. apply in_or_app. left. exact Hx. }
  destruct (carg_of e env a ccs) as [a' r]. cbn [fst snd] in *. constructor; [exact A1|].
  apply IH; [exact EW|exact A2|]. intros x Hx. apply U. cbn [flat_map]. apply in_or_app. right. exact Hx.
Qed.

Lemma wfc_canon0_sz : forall k t, (rsize t < k)%nat -> rt_ok t -> wfc 0 (canon0 t).
Proof.
  induction k as [|k IH]; intros t Hk OK; [lia|]. destruct t as [n ch].
  rewrite <- (node_t_canon0 n ch OK). unfold node_t. apply cn_wfc_CT.
  apply rt_ok_iff in OK. destruct OK as [U C]. apply cargs_of_wf; [constructor| |exact U].
  apply Forall_forall. intros cc Hcc. apply in_map_iff in Hcc. destruct Hcc as (c & <- & Hc).
  apply IH.
  - pose proof (rsize_child n ch c Hc). lia.
  - exact (proj1 (Forall_forall _ _) C c Hc).
Qed.

Lemma wfc_canon0 : forall t, rt_ok t -> wfc 0 (canon0 t).
Proof. intros t OK. exact (wfc_canon0_sz (S (rsize t)) t (Nat.lt_succ_diag_r _) OK). Qed.

(* ====================================================================== *)
(* 2. the binder naming of a node                                           *)
(* ====================================================================== *)

(* the binder at nesting depth e of the j-th top-level argument is named nm e j *)
Fixpoint bn_f (j e : nat) (a : farg) : list (slot * N) :=
  match a with ABind x b => (x, nm e j) :: bn_f j (S e) b | _ => [] end.
Fixpoint bn_args (j : nat) (args : list farg) : list (slot * N) :=
  match args with [] => [] | a :: r => bn_f j 0 a ++ bn_args (S j) r end.
Definition gn (n : node) (pub : bool) (z : N) : N := if pub then z else env_get (bn_args 0 (nargs n)) z.

Fixpoint gb (g : bool -> N -> N) (j e : nat) (a : farg) : Prop :=
  match a with ABind x b => g false x = nm e j /\ gb g j (S e) b | _ => True end.
Fixpoint gbs (g : bool -> N -> N) (j : nat) (args : list farg) : Prop :=
  match args with [] => True | a :: r => gb g j 0 a /\ gbs g (S j) r end.

Lemma map_fst_bn_f : forall a j e, map fst (bn_f j e a) = binders_f a.
Proof. induction a as [x|y|x b IH|p]; intros j e; cbn [bn_f binders_f map fst]; try reflexivity. rewrite IH. reflexivity. Qed.

Lemma map_fst_bn_args : forall args j, map fst (bn_args j args) = flat_map binders_f args.
Proof.
  induction args as [|a r IH]; intros j; cbn [bn_args flat_map]; [reflexivity|].
  rewrite map_app, map_fst_bn_f, IH. reflexivity.
Qed.

Lemma env_get_in : forall (L : list (slot * N)) x v, NoDup (map fst L) -> In (x, v) L -> env_get L x = v.
Proof.
  induction L as [|[k w] L IH]; intros x v ND H; [destruct H|]. cbn [map fst] in ND. inversion ND as [|k0 l0 Nin ND']; subst.
  cbn [env_get]. destruct H as [H|H].
  - inversion H; subst. rewrite N.eqb_refl. reflexivity.
  - destruct (x =? k) eqn:E; [|apply IH; assumption].
    apply N.eqb_eq in E. subst k. exfalso. apply Nin. apply in_map_iff. exists (x, v). split; [reflexivity|exact H].
Qed.

Lemma in_fst_ex : forall (L : list (slot * N)) x, In x (map fst L) -> exists v, In (x, v) L.
Proof. intros L x H. apply in_map_iff in H. destruct H as ([k v] & E & H). cbn [fst] in E. subst k. exists v. exact H. Qed.

Lemma nodup_snd_inj : forall (L : list (slot * N)) x y v, NoDup (map snd L) -> In (x, v) L -> In (y, v) L -> x = y.
Proof.
  induction L as [|[k w] L IH]; intros x y v ND Hx Hy; [destruct Hx|]. cbn [map snd] in ND.
  inversion ND as [|k0 l0 Nin ND']; subst.
  destruct Hx as [Hx|Hx]; destruct Hy as [Hy|Hy].
  - congruence.
  - inversion Hx; subst. exfalso. apply Nin. apply in_map_iff. exists (y, v). split; [reflexivity|exact Hy].
  - inversion Hy; subst. exfalso. apply Nin. apply in_map_iff. exists (x, v). split; [reflexivity|exact Hx].
  - exact (IH x y v ND' Hx Hy).
Qed.

Lemma gb_of_in : forall g a j e, (forall x v, In (x, v) (bn_f j e a) -> g false x = v) -> gb g j e a.
Proof.
  intros g. induction a as [x|y|x b IH|p]; intros j e H; cbn [gb bn_f] in *; try exact I.
  split; [apply H; left; reflexivity|]. apply IH. intros z v Hz. apply H. right. exact Hz.
Qed.

Lemma gbs_of_in : forall g args j, (forall x v, In (x, v) (bn_args j args) -> g false x = v) -> gbs g j args.
Proof.
  intros g. induction args as [|a r IH]; intros j H; cbn [gbs bn_args] in *; [exact I|]. split.
  - apply gb_of_in. intros x v Hx. apply H. apply in_or_app. left. exact Hx.
  - apply IH. intros x v Hx. apply H. apply in_or_app. right. exact Hx.
Qed.

Lemma bn_f_in : forall a j e x v, In (x, v) (bn_f j e a) -> exists e', (e <= e')%nat /\ v = nm e' j.
Proof.
  induction a as [x0|y|x0 b IH|p]; intros j e x v H; cbn [bn_f] in H; try (destruct H; fail).
  destruct H as [H|H].
  - inversion H; subst. exists e. split; [lia|reflexivity].
  - destruct (IH j (S e) x v H) as (e' & Le & Ev). exists e'. split; [lia|exact Ev].
Qed.

Lemma bn_args_in : forall args j x v, In (x, v) (bn_args j args) -> exists e' j', (j <= j')%nat /\ v = nm e' j'.
Proof.
  induction args as [|a r IH]; intros j x v H; cbn [bn_args] in H; [destruct H|].
  apply in_app_or in H. destruct H as [H|H].
  - destruct (bn_f_in a j 0%nat x v H) as (e' & _ & Ev). exists e', j. split; [lia|exact Ev].
  - destruct (IH (S j) x v H) as (e' & j' & Lj & Ev). exists e', j'. split; [lia|exact Ev].
Qed.

Lemma bn_f_nodup : forall a j e, NoDup (map snd (bn_f j e a)).
Proof.
  induction a as [x0|y|x0 b IH|p]; intros j e; cbn [bn_f map snd]; try constructor; [|apply IH].
  intros H. apply in_map_iff in H. destruct H as ([z w] & E & H). cbn [snd] in E. subst w.
  destruct (bn_f_in b j (S e) z _ H) as (e' & Le & Ev). apply nm_inj in Ev. lia.
Qed.

Lemma cn_NoDup_app : forall {A} (l1 l2 : list A), NoDup l1 -> NoDup l2 -> (forall x, In x l1 -> In x l2 -> False) -> NoDup (l1 ++ l2).
Proof.
  intros A l1 l2 N1 N2 D. induction N1 as [|x l1 Nin N1 IH]; cbn [app]; [exact N2|]. constructor.
  - intros H. apply in_app_or in H. destruct H as [H|H]; [exact (Nin H)|]. apply (D x); [left; reflexivity|exact H].
  - apply IH. intros y Hy1 Hy2. apply (D y); [right; exact Hy1|exact Hy2].
Qed.

Lemma bn_args_nodup : forall args j, NoDup (map snd (bn_args j args)).
Proof.
  induction args as [|a r IH]; intros j; cbn [bn_args]; [constructor|]. rewrite map_app. apply cn_NoDup_app.
  - apply bn_f_nodup.
  - apply IH.
  - intros v H1 H2. apply in_map_iff in H1, H2. destruct H1 as ([x1 w1] & E1 & H1). destruct H2 as ([x2 w2] & E2 & H2).
    cbn [snd] in E1, E2. subst w1 w2.
    destruct (bn_f_in a j 0%nat x1 v H1) as (e1 & _ & Ev1). destruct (bn_args_in r (S j) x2 v H2) as (e2 & j2 & Lj & Ev2).
    rewrite Ev1 in Ev2. apply nm_inj in Ev2. lia.
Qed.

(* the properties of gn that are used *)
Lemma gn_true : forall n z, gn n true z = z.
Proof. reflexivity. Qed.

Lemma gn_binder : forall n b, NoDup (binders n) -> In b (binders n) ->
  exists v, In (b, v) (bn_args 0 (nargs n)) /\ gn n false b = v.
Proof.
  intros n b ND Hb. unfold binders in *. rewrite <- (map_fst_bn_args (nargs n) 0%nat) in ND, Hb.
  destruct (in_fst_ex _ _ Hb) as (v & Hv). exists v. split; [exact Hv|]. unfold gn. apply env_get_in; assumption.
Qed.

Lemma gn_gbs : forall n, NoDup (binders n) -> gbs (gn n) 0 (nargs n).
Proof.
  intros n ND. apply gbs_of_in. intros x v H. unfold gn. apply env_get_in; [|exact H].
  rewrite map_fst_bn_args. exact ND.
Qed.

Lemma gn_false_inj : forall n, NoDup (binders n) -> inj_on (gn n false) (binders n).
Proof.
  intros n ND x y Hx Hy E.
  destruct (gn_binder n x ND Hx) as (v & Hv & Ev). destruct (gn_binder n y ND Hy) as (w & Hw & Ew).
  rewrite Ev, Ew in E. subst w. exact (nodup_snd_inj _ x y v (bn_args_nodup (nargs n) 0%nat) Hv Hw).
Qed.

Lemma gn_false_isB : forall n b, NoDup (binders n) -> In b (binders n) -> is_B (gn n false b) = true.
Proof.
  intros n b ND Hb. destruct (gn_binder n b ND Hb) as (v & Hv & ->).
  destruct (bn_args_in _ _ _ _ Hv) as (e' & j' & _ & ->). apply nm_isB.
Qed.

(* ====================================================================== *)
(* 3. clk on the canonical form                                             *)
(* ====================================================================== *)

Lemma nth_opt_repeat : forall {A} (j : A) e k, (k < e)%nat -> nth_opt (repeat j e) k = Some j.
Proof.
  intros A j. induction e as [|e IH]; intros k H; [lia|]. cbn [repeat]. destruct k as [|k]; [reflexivity|].
  cbn [nth_opt]. apply IH. lia.
Qed.

Lemma repeat_snoc : forall {A} (j : A) e, repeat j e ++ [j] = repeat j (S e).
Proof. intros A j. induction e as [|e IH]; [reflexivity|]. cbn [repeat app] in *. rewrite IH. reflexivity. Qed.

Definition envrel (g : bool -> N -> N) (j e : nat) (env : list (slot * N)) (bound : list slot) : Prop :=
  (forall x, existsb (N.eqb x) bound = true -> exists k, (k < e)%nat /\ env_get env x = B k /\ g false x = nm k j) /\
  (forall x, existsb (N.eqb x) bound = false -> env_get env x = x).

Lemma envrel_nil : forall g j, envrel g j 0 [] [].
Proof. intros g j. split; intros x H; cbn in *; [discriminate|reflexivity]. Qed.

Lemma envrel_cons : forall g j e env bound x, envrel g j e env bound -> g false x = nm e j ->
  envrel g j (S e) ((x, B e) :: env) (x :: bound).
Proof.
  intros g j e env bound x [R1 R2] Hx. split; intros y H; cbn [existsb env_get] in *.
  - destruct (y =? x) eqn:E.
    + apply N.eqb_eq in E. subst y. exists e. split; [lia|]. split; [reflexivity|exact Hx].
    + cbn [orb] in H. destruct (R1 y H) as (k & Hk & A1 & A2). exists k. split; [lia|]. split; assumption.
  - destruct (y =? x) eqn:E; cbn [orb] in H; [discriminate|]. apply R2. exact H.
Qed.

Lemma slot_ok : forall g j e env bound x, (forall z, g true z = z) -> envrel g j e env bound -> usern x ->
  sl (repeat j e) (env_get env x) = g (negb (existsb (N.eqb x) bound)) x.
Proof.
  intros g j e env bound x Gt [R1 R2] U. destruct (existsb (N.eqb x) bound) eqn:E; cbn [negb].
  - destruct (R1 x E) as (k & Hk & A1 & A2). rewrite A1, A2. apply sl_B. apply nth_opt_repeat. exact Hk.
  - rewrite (R2 x E), Gt. apply sl_user. apply usern_notB. exact U.
Qed.

Section Canon.
  Variable s : egraph.
  Hypothesis G : good s.
  Hypothesis CR : forall c rho js ks x, wfc (List.length ks) c -> inst_ok (List.length js) rho (cnames c) ->
    clk s ks c = Some x ->
    clk s (js ++ ks) (cren (lift (List.length js) rho) c) = Some (rnv (theta (List.length js) rho js) x).

  (* a child: its canonical term is well scoped, found by a, and the values of a are user names *)
  Definition KD (cc : cterm) (a : appid) : Prop :=
    wfc 0 cc /\ clk s [] cc = Some a /\ (forall v, In v (values_vec (am a)) -> usern v).

  Lemma arg_ok : forall g, (forall z, g true z = z) -> forall a j e env bound l ccs,
    Forall2 KD ccs l -> (List.length (app_occ_f a) <= List.length l)%nat -> env_wf e env -> envrel g j e env bound ->
    gb g j e a -> (forall x, In x (all_occ_f a) -> usern x) ->
    clk_arg s j (repeat j e) (fst (carg_of e env a ccs)) = Some (ren_f g bound (fst (set_apps_f a l))) /\
    Forall2 KD (snd (carg_of e env a ccs)) (snd (set_apps_f a l)) /\
    List.length (snd (set_apps_f a l)) = (List.length l - List.length (app_occ_f a))%nat.
  Proof.
    intros g Gt. induction a as [x|y0|x b IH|p]; intros j e env bound l ccs F Hl EW ER GB U;
      cbn [carg_of set_apps_f app_occ_f List.length] in *.
    - cbn [fst snd clk_arg ren_f]. split; [|split; [exact F|lia]]. f_equal. f_equal.
      apply slot_ok; [exact Gt|exact ER|]. apply U. left. reflexivity.
    - destruct F as [|cc y ccs' l' (Wc & Ck & Uy) F]; [cbn [List.length] in Hl; lia|]. cbn [fst snd List.length].
      split; [|split; [exact F|lia]]. cbn [clk_arg ren_f].
      assert (IO : inst_ok (List.length (repeat j e)) (env_get env) (cnames cc)).
      { rewrite repeat_length. split.
        - intros u v _ _ Hu Hv. apply (env_get_inj e env EW); assumption.
        - intros u _ Hu. destruct (env_get_range e env EW u) as [A|A]; [left; rewrite A; exact Hu|right; exact A]. }
      pose proof (CR cc (env_get env) (repeat j e) [] y Wc IO Ck) as K.
      rewrite app_nil_r, repeat_length in K. rewrite K. f_equal. f_equal. unfold rnv. f_equal.
      unfold ren_vals. apply map_ext_in. intros [k v] Hin. cbn [fst snd]. f_equal.
      assert (Uv : usern v).
      { apply Uy. unfold values_vec. apply in_map_iff. exists (k, v). split; [reflexivity|exact Hin]. }
      rewrite theta_user by (apply usern_notB; exact Uv). apply slot_ok; assumption.
    - destruct GB as [Gx GB].
      specialize (IH j (S e) ((x, B e) :: env) (x :: bound) l ccs F Hl (ew_cons _ _ _ EW) (envrel_cons _ _ _ _ _ _ ER Gx) GB).
      destruct IH as (A1 & A2 & A3). { intros z Hz. apply U. right. exact Hz. }
      destruct (carg_of (S e) ((x, B e) :: env) b ccs) as [b' r]. destruct (set_apps_f b l) as [b2 l2].
      cbn [fst snd clk_arg ren_f] in *. split; [|split; assumption].
      rewrite repeat_snoc, A1, repeat_length, Gx. reflexivity.
    - cbn [fst snd clk_arg ren_f]. split; [reflexivity|split; [exact F|lia]].
  Qed.

  Lemma args_ok : forall g, (forall z, g true z = z) -> forall args j l ccs,
    Forall2 KD ccs l -> (List.length (flat_map app_occ_f args) <= List.length l)%nat -> gbs g j args ->
    (forall x, In x (flat_map all_occ_f args) -> usern x) ->
    clk_args s j [] (cargs_of 0 [] args ccs) = Some (map (ren_f g []) (set_apps_args args l)).
  Proof.
    intros g Gt. induction args as [|a args IH]; intros j l ccs F Hl GB U; cbn [cargs_of set_apps_args clk_args map]; [reflexivity|].
    cbn [flat_map] in Hl. rewrite app_length in Hl. destruct GB as [Ga GB].
    destruct (arg_ok g Gt a j 0%nat [] [] l ccs F) as (A1 & A2 & A3); [lia|constructor|apply envrel_nil|exact Ga| |].
    { intros x Hx. apply U. cbn [flat_map]. apply in_or_app. left. exact Hx. }
    destruct (carg_of 0 [] a ccs) as [a' r]. destruct (set_apps_f a l) as [a2 l2]. cbn [fst snd repeat] in *.
    cbn [clk_args map]. rewrite A1. rewrite (IH (S j) l2 r A2); [reflexivity|lia|exact GB|].
    intros x Hx. apply U. cbn [flat_map]. apply in_or_app. right. exact Hx.
  Qed.

  Lemma clk_canon0_sz : forall k t x, (rsize t < k)%nat -> twf t -> rt_ok t -> lookup_rec s t = Ok (Some x) ->
    clk s [] (canon0 t) = Some x /\ (forall v, In v (values_vec (am x)) -> usern v).
  Proof.
    induction k as [|k IH]; intros t x Hk TW OK L; [lia|]. destruct t as [n ch].
    destruct (lookup_rec_inv s n ch x L) as (l & F & _ & EL).
    apply twf_iff in TW. destruct TW as (ND & Lc & TC).
    pose proof OK as OK'. apply rt_ok_iff in OK'. destruct OK' as [U C].
    destruct (good_parts s G) as (I3 & _).
    assert (FK : Forall2 KD (map canon0 ch) l).
    { assert (Sz : forall c, In c ch -> (rsize c < k)%nat).
      { intros c Hc. pose proof (rsize_child n ch c Hc). lia. }
      clear -F TC C IH Sz. induction F as [|c a ch l Hca F IHF]; cbn [map]; [constructor|].
      inversion TC as [|c0 ch0 Tc TC']; subst. inversion C as [|c1 ch1 Cc C']; subst.
      destruct (IH c a (Sz c (or_introl eq_refl)) Tc Cc Hca) as [K1 K2].
      constructor; [split; [apply wfc_canon0; exact Cc|split; assumption]|].
      apply IHF; [assumption|assumption|]. intros c' Hc'. apply Sz. right. exact Hc'. }
    assert (Ll : List.length l = List.length (app_occ n)).
    { rewrite <- Lc. symmetry. exact (F2_length _ _ _ F). }
    (* the public slots of the node over the children's invocations are user names *)
    assert (UP : forall v, In v (pub_occ (set_apps n l)) -> usern v).
    { intros v Hv. unfold pub_occ, set_apps in Hv. cbn [nargs] in Hv. apply set_apps_args_pub in Hv.
      destruct Hv as [Hv|(y & Hy & Hv)]; [apply U; exact Hv|].
      clear -FK Hy Hv. induction FK as [|cc a ccs l (_ & _ & Ua) FK IHF]; [destruct Hy|].
      destruct Hy as [->|Hy]; [apply Ua; exact Hv|apply IHF; exact Hy]. }
    destruct (lookup_facts s _ x EL) as [Wx Vx].
    split.
    2:{ intros v Hv. apply UP. unfold values_vec in Hv. apply in_map_iff in Hv. destruct Hv as ([k0 v0] & Ev & Hin).
        cbn [snd] in Ev. subst v0. apply (Vx k0 v). apply in_get; assumption. }
    rewrite <- (node_t_canon0 n ch OK). unfold node_t. rewrite clk_CT.
    rewrite (args_ok (gn n) (gn_true n) (nargs n) 0%nat l (map canon0 ch) FK);
      [|unfold app_occ in Ll; lia|apply gn_gbs; exact ND|exact U].
    assert (RO : ren_ok (gn n) (set_apps n l)).
    { unfold ren_ok. rewrite binders_set_apps'. split; [apply gn_false_inj; exact ND|]. split.
      - intros v b Hv Hb E. rewrite gn_true in E. pose proof (gn_false_isB n b ND Hb) as HB.
        rewrite <- E in HB. rewrite (usern_notB v (UP v Hv)) in HB. discriminate.
      - intros v w _ _ E. rewrite !gn_true in E. exact E. }
    destruct (eg_lookup_ren s (gn n) (set_apps n l) x I3 RO EL) as (y' & EL' & Ea & Eg).
    unfold look. change {| nvar := nvar n; nargs := map (ren_f (gn n) []) (set_apps_args (nargs n) l) |}
      with (RenameFacts.ren (gn n) (set_apps n l)).
    rewrite EL'. f_equal.
    destruct (lookup_facts s _ y' EL') as [Wy _].
    destruct y' as [i m], x as [i' m']. cbn [aid am] in *. subst i'. f_equal.
    apply ext_eq; [exact Wy|exact Wx|]. intros k0. rewrite Eg. destruct (get m' k0) as [v|]; reflexivity.
  Qed.

  Theorem clk_canon0 : forall t x, term_static_user t -> lookup_rec s t = Ok (Some x) -> clk s [] (canon0 t) = Some x.
  Proof.
    intros t x [TW OK] L. exact (proj1 (clk_canon0_sz (S (rsize t)) t x (Nat.lt_succ_diag_r _) TW OK L)).
  Qed.

  (* by-product: the values of a found invocation of a user term are user names *)
  Lemma lookup_rec_values_user : forall t x, term_static_user t -> lookup_rec s t = Ok (Some x) ->
    forall v, In v (values_vec (am x)) -> usern v.
  Proof.
    intros t x [TW OK] L. exact (proj2 (clk_canon0_sz (S (rsize t)) t x (Nat.lt_succ_diag_r _) TW OK L)).
  Qed.
End Canon.

Print Assumptions wfc_canon0.
Print Assumptions clk_canon0.
