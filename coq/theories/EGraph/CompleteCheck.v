(* EGraph/CompleteCheck.v — C02 completeness: executable validation of the two key claims BEFORE they were proved
   (`clk` on canonical forms = `lookup_rec`: CompleteCanon.clk_canon0; equivariance of `clk` under axiom instantiation:
   CompleteRen.clk_ren), comparison of the e-graph's equality matrix with the bounded closure `gcc` (proved sound for
   Deriv), and COUNTEREXAMPLES for false formulations:
   - `complete_needs_user_names`: without the premise `term_static_user` (here: a user slot named 3 = B 0, the reserved
     name of binder level 0) two different terms have the SAME canonical form, `Deriv` relates them by reflexivity and
     the e-graph rightly keeps them apart: completeness (and the reading of canonical terms) needs the premise;
   - `equivariance_needs_injective`: a non-injective renaming of the inputs does not preserve the answers. *)
From SE Require Import Slots.SlotMapFacts Lang.LangFacts Lang.RenameFacts
  EGraph.Model EGraph.ModelFacts EGraph.ModelMachine EGraph.Model9 EGraph.AddCoversFacts EGraph.Mod4Facts EGraph.CongruenceFacts
  EGraph.RepFacts EGraph.SoundFacts EGraph.OpsPreFacts EGraph.CompleteDefs.
From SE Require Import Sem.Term Sem.Deriv Sem.Closure Sem.EgMachine.
Require Import ZArith Lia.

Definition appid_eqb (a b : appid) : bool :=
  (aid a =? aid b) && (List.length (am a) =? List.length (am b))%nat &&
  forallb (fun p => (fst (fst p) =? fst (snd p)) && (snd (fst p) =? snd (snd p))) (combine (am a) (am b)).

(* clk [] (canon0 t) = lookup_rec t for all terms of the history, in the final state *)
Definition chkC (p : list rterm * list hop) : bool :=
  match run_ops (fst p) (snd p) [] empty_egraph with
  | Ok (hs, s) => forallb (fun t => match lookup_rec s t, clk s [] (canon0 t) with
                                    | Ok (Some x), Some y => appid_eqb x y
                                    | Ok None, None => true
                                    | _, _ => false end) (fst p)
  | Err _ => false
  end.

(* instance under js = [5; 2] (d = 2), rho: 2 -> B 1, 6 -> 22, 10 -> B 0, else x + 40 *)
Definition rho1 (x : N) : N := if x =? 2 then B 1 else if x =? 6 then 22 else if x =? 10 then B 0 else x + 40.
Definition chkE (p : list rterm * list hop) : bool :=
  match run_ops (fst p) (snd p) [] empty_egraph with
  | Ok (hs, s) => forallb (fun t => match clk s [] (canon0 t), clk s [5;2]%nat (cren (lift 2 rho1) (canon0 t)) with
                                    | Some x, Some y => appid_eqb (rnv (theta 2 rho1 [5;2]%nat) x) y
                                    | None, None => true
                                    | _, _ => false end) (fst p)
  | Err _ => false
  end.

(* nested binders, two binders in one node, shadowing, symmetric classes *)
Definition x2b a b x y : rterm := RT {| nvar := 9; nargs := [ABind x xph; ABind y xph] |} [a; b].
Definition yT := [xlam 2 (xs2 2 2 6); xlam 2 (xlam 6 (xs3 8 2 6 10)); xbin 4 (xlam 2 (xs2 2 2 6)) (xs2 2 6 10); xlam 2 (xun 3 (xlam 6 (xs3 8 2 6 10)));
   x2b (xs2 2 2 6) (xs2 2 6 10) 2 6; x2b (xs2 2 2 6) (xs2 2 6 10) 6 2; xs2 2 2 6; xs2 2 6 2; x2b (xs3 8 2 6 10) (xlam 2 (xs3 8 2 6 10)) 10 6;
   xlam 2 (xs3 8 2 6 10); xlam 6 (xs3 8 2 6 10); RT {| nvar := 11; nargs := [ASlot 2; ABind 2 (ABind 6 xph); ASlot 6] |} [xs3 8 2 6 10]].
Definition yO := map HAdd (seq 0 12) ++ [xU 6 7] ++ map HAdd (seq 0 12) ++ [xU 9 10] ++ map HAdd (seq 0 12).

Definition chk_hists := rep_hists ++ [(yT, yO)].

Example hists_static_user : forallb (fun p => forallb term_static_userb (fst p)) chk_hists = true.
Proof. vm_compute. reflexivity. Qed.
Example clk_canon0_checked : forallb chkC chk_hists = true.
Proof. vm_compute. reflexivity. Qed.
Example clk_ren_checked : forallb chkE chk_hists = true.
Proof. vm_compute. reflexivity. Qed.

(* the equality matrix of the e-graph against the bounded closure (sound for Deriv): every pair the closure derives is
   reported equal by the e-graph (an instance of completeness), and on these histories the closure derives every pair
   the e-graph reports *)
Definition matrix_cmp (p : list rterm * list hop) : option (nat * nat * nat) :=
  match run_ops (fst p) (snd p) [] empty_egraph with
  | Ok (hs, s) =>
      let hts := handle_cterms (fst p) (snd p) in
      let E := asserted (fst p) (snd p) in
      let maxd := fold_left Nat.max (map binder_depth hts) O in
      let P := gcc_part (history_pool hts 2) maxd 6 E hts in
      let pairs := flat_map (fun a => map (fun b => (a, b)) (combine hs hts)) (combine hs hts) in
      let both := List.length (filter (fun q => same_cls P (O, snd (fst q)) (O, snd (snd q)) &&
                     match eg_eq s (fst (fst q)) (fst (snd q)) with Ok true => true | _ => false end) pairs) in
      let only_gcc := List.length (filter (fun q => same_cls P (O, snd (fst q)) (O, snd (snd q)) &&
                     negb match eg_eq s (fst (fst q)) (fst (snd q)) with Ok true => true | _ => false end) pairs) in
      let only_eg := List.length (filter (fun q => negb (same_cls P (O, snd (fst q)) (O, snd (snd q))) &&
                     match eg_eq s (fst (fst q)) (fst (snd q)) with Ok true => true | _ => false end) pairs) in
      Some (both, only_gcc, only_eg)
  | Err _ => None
  end.

Example closure_matrix_checked :
  map matrix_cmp [(xT1, xO1); (xT2, xO2); (xT3, xO3); (xT4, xO4); (xT5, xO5); (yT, yO)]
  = [Some (36, 0, 0); Some (26, 0, 0); Some (85, 0, 0); Some (113, 0, 0); Some (110, 0, 0); Some (144, 0, 0)]%nat.
Proof. vm_compute. reflexivity. Qed.

(* ---- counterexamples ---- *)

(* a user slot with the reserved name 3 = B 0: lam x. f(x, x) and lam x. f(x, 3) have the same canonical form *)
Definition ceT := [xlam 2 (xs2 2 2 2); xlam 2 (xs2 2 2 3)].
Definition ceO := [HAdd 0; HAdd 1]%nat.
Example complete_needs_user_names :
  map term_static_userb ceT = [true; false] /\
  map term_staticb ceT = [true; true] /\
  (exists t, handle_cterms ceT ceO = [t; t]) /\
  match run_ops ceT ceO [] empty_egraph with
  | Ok ([a; b], s) => eg_eq s a b
  | _ => Err OutOfBounds
  end = Ok false.
Proof. vm_compute. split; [reflexivity|]. split; [reflexivity|]. split; [eexists; reflexivity|reflexivity]. Qed.

(* a non-injective renaming of the inputs (6 |-> 2): from f(2,6) = g(2,6) the e-graph concludes f(10,14) = g(10,14);
   from the renamed equation f(2,2) = g(2,2) it (rightly) does not *)
Definition niT := [xs2 2 2 6; xs2 7 2 6; xs2 2 10 14; xs2 7 10 14].
Definition niT' := [xs2 2 2 2; xs2 7 2 2; xs2 2 10 14; xs2 7 10 14].
Definition niO := [HAdd 0; HAdd 1; HAdd 2; HAdd 3; xU 0 1]%nat.
Example equivariance_needs_injective :
  match run_ops niT niO [] empty_egraph with Ok ([_; _; a; b], s) => eg_eq s a b | _ => Err OutOfBounds end = Ok true /\
  match run_ops niT' niO [] empty_egraph with Ok ([_; _; a; b], s) => eg_eq s a b | _ => Err OutOfBounds end = Ok false.
Proof. vm_compute. split; reflexivity. Qed.

Print Assumptions clk_canon0_checked.
Print Assumptions clk_ren_checked.
Print Assumptions closure_matrix_checked.
Print Assumptions complete_needs_user_names.
Print Assumptions equivariance_needs_injective.
