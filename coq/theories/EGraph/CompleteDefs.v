(* EGraph/CompleteDefs.v — C02 COMPLETENESS of the model w.r.t. `Deriv`: definitions.

   The interpretation of an arbitrary canonical term (living under d = length js binders) in a state s:
   `clk s js t` = the invocation found by the read-only bottom-up lookup of t (children first, then `eg_lookup`
   of the node over the children's invocations), or None when some subterm is not represented.
   The binder of level k that stands in the j-th top-level argument of its node is given the concrete slot
   name `nm k j` = 4 * (2^k * (2j+1)) + 3 (injective in (k, j): the binders of one node get pairwise distinct
   names, distinct from the names of the enclosing binders); js lists, for the enclosing levels 0..d-1, the
   argument indices, so that the name B k of the canonical term (k < d) is read as `nm k js[k]` (`sl`).
   `Sim s js t u`: t and u have eg-equal interpretations (both found, `eg_eq`) or both are not found, have the
   same operator and pairwise Sim arguments. *)
From SE Require Import Slots.SlotMapFacts Lang.LangFacts Lang.RenameFacts
  EGraph.Model EGraph.ModelFacts EGraph.ModelMachine EGraph.Model9.
From SE Require Import Sem.Term Sem.Deriv.
Require Import ZArith Lia.

Definition lvl (x : N) : nat := N.to_nat (x / 4).
Definition nm (k j : nat) : N := 4 * (2 ^ N.of_nat k * (2 * N.of_nat j + 1)) + 3.

(* the concrete name of a slot name of a canonical term under the binders js *)
Definition sl (js : list nat) (x : N) : N :=
  if is_B x then match nth_opt js (lvl x) with Some j => nm (lvl x) j | None => x end else x.

Fixpoint clk (s : egraph) (js : list nat) (t : cterm) {struct t} : option appid :=
  match t with
  | CT v args =>
      match (fix go (j : nat) (l : list carg) {struct l} : option (list farg) :=
               match l with
               | [] => Some []
               | a :: l' => match clk_arg s j js a, go (S j) l' with
                            | Some a', Some r => Some (a' :: r)
                            | _, _ => None
                            end
               end) O args with
      | Some fargs => match eg_lookup s {| nvar := v; nargs := fargs |} with Ok (Some x) => Some x | _ => None end
      | None => None
      end
  end
with clk_arg (s : egraph) (j : nat) (js : list nat) (a : carg) {struct a} : option farg :=
  match a with
  | CSlot x => Some (ASlot (sl js x))
  | CChild t => match clk s js t with Some x => Some (AApp x) | None => None end
  | CBind b => match clk_arg s j (js ++ [j]) b with Some b' => Some (ABind (nm (List.length js) j) b') | None => None end
  | CPay p => Some (APay p)
  end.

Fixpoint clk_args (s : egraph) (j : nat) (js : list nat) (l : list carg) : option (list farg) :=
  match l with
  | [] => Some []
  | a :: l' => match clk_arg s j js a, clk_args s (S j) js l' with
               | Some a', Some r => Some (a' :: r)
               | _, _ => None
               end
  end.

Definition look (s : egraph) (v : nat) (fargs : list farg) : option appid :=
  match eg_lookup s {| nvar := v; nargs := fargs |} with Ok (Some x) => Some x | _ => None end.

Lemma clk_CT : forall s js v args,
  clk s js (CT v args) = match clk_args s O js args with Some fargs => look s v fargs | None => None end.
Proof.
  intros s js v args. cbn [clk]. unfold look.
  assert (E : forall l j, (fix go (j : nat) (l : list carg) {struct l} : option (list farg) :=
               match l with
               | [] => Some []
               | a :: l' => match clk_arg s j js a, go (S j) l' with
                            | Some a', Some r => Some (a' :: r)
                            | _, _ => None
                            end
               end) j l = clk_args s j js l).
  { induction l as [|a l IH]; intros j; [reflexivity|]. cbn [clk_args]. rewrite IH. reflexivity. }
  rewrite E. reflexivity.
Qed.

Inductive Sim (s : egraph) : list nat -> cterm -> cterm -> Prop :=
| Sim_cls : forall js t u x y, clk s js t = Some x -> clk s js u = Some y -> eg_eq s x y = Ok true -> Sim s js t u
| Sim_free : forall js v a b, clk s js (CT v a) = None -> clk s js (CT v b) = None ->
    SimArgs s O js a b -> Sim s js (CT v a) (CT v b)
with SimArg (s : egraph) : nat -> list nat -> carg -> carg -> Prop :=
| SA_slot : forall j js x, SimArg s j js (CSlot x) (CSlot x)
| SA_pay : forall j js p, SimArg s j js (CPay p) (CPay p)
| SA_child : forall j js t u, Sim s js t u -> SimArg s j js (CChild t) (CChild u)
| SA_bind : forall j js a b, SimArg s j (js ++ [j]) a b -> SimArg s j js (CBind a) (CBind b)
with SimArgs (s : egraph) : nat -> list nat -> list carg -> list carg -> Prop :=
| SAs_nil : forall j js, SimArgs s j js [] []
| SAs_cons : forall j js a b l l', SimArg s j js a b -> SimArgs s (S j) js l l' -> SimArgs s j js (a :: l) (b :: l').

Scheme Sim_mut := Induction for Sim Sort Prop
  with SimArg_mut := Induction for SimArg Sort Prop
  with SimArgs_mut := Induction for SimArgs Sort Prop.
Combined Scheme Sim_mutind from Sim_mut, SimArg_mut, SimArgs_mut.

(* well-scoped canonical terms under e binders: a reserved name is the name of an enclosing level *)
Fixpoint wfc (e : nat) (t : cterm) : Prop :=
  match t with
  | CT _ args => (fix go (l : list carg) : Prop := match l with [] => True | a :: l' => wfa e a /\ go l' end) args
  end
with wfa (e : nat) (a : carg) : Prop :=
  match a with
  | CSlot x => is_B x = true -> exists k, (k < e)%nat /\ x = B k
  | CChild t => wfc e t
  | CBind b => wfa (S e) b
  | CPay _ => True
  end.

(* renaming the values of an invocation *)
Definition rnv (th : N -> N) (a : appid) : appid :=
  {| aid := aid a; am := map (fun kv => (fst kv, th (snd kv))) (am a) |}.

(* the renaming of invocation names induced by instantiating an axiom by (lift d rho) under the binders js
   (d = length js): the axiom's own binder names nm k j move to nm (d + k) j, a user name u to the concrete
   name of rho u *)
Definition theta (d : nat) (rho : N -> N) (js : list nat) (z : N) : N :=
  if is_B z then 4 * (2 ^ N.of_nat d * (z / 4)) + 3 else sl js (rho z).
