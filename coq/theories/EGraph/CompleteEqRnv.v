(* EGraph/CompleteEqRnv.v — `eg_eq` is invariant under renaming the VALUES of two invocations by a function
   th : N -> N that is injective on the values the two invocations use (`rnv`, CompleteDefs.v).  Reduction to
   MatchEmbedEq.eg_eq_rn_cancel through the finite slot map `graph th L` (the graph of th on the list L of values). *)
From SE Require Import Slots.SlotMapFacts Group.GroupSound Lang.LangFacts Lang.ShapeFacts Lang.RenameFacts
  Base.TextFacts Parse.Parser EGraph.Model EGraph.ModelFacts EGraph.ModelMachine EGraph.UnionFindFacts
  EGraph.InvariantFacts EGraph.UnionInvariantFacts EGraph.AddCoversFacts EGraph.HashconsShape EGraph.Mod4Facts
  EGraph.HashconsAbs EGraph.HashconsFacts EGraph.Rewrite EGraph.RewriteFacts EGraph.MatchDefs EGraph.MatchMachine
  EGraph.ProgressFacts EGraph.MatchFacts EGraph.SoundUnion EGraph.MonotoneFacts EGraph.MatchLookup EGraph.MatchComplete
  EGraph.MatchEmbedEq EGraph.CompleteDefs.
Require Import ZArith Lia ZifyBool ZifyN ZifyNat List.
Import ListNotations.
Local Open Scope N_scope.
Local Notation "a ** b" := (compose_partial a b) (at level 40, left associativity).

Definition mapv (th : N -> N) (m : slotmap) : slotmap := map (fun kv => (fst kv, th (snd kv))) m.

Lemma get_mapv : forall th m k, get (mapv th m) k = match get m k with Some y => Some (th y) | None => None end.
Proof.
  intros th m k. induction m as [|[k0 v0] t IH]; cbn [mapv map get fst snd]; [reflexivity|].
  destruct (k =? k0); [reflexivity|exact IH].
Qed.

Lemma wf_mapv : forall th m, wf m -> wf (mapv th m).
Proof.
  intros th m. induction m as [|[k0 v0] t IH]; intro W; cbn [mapv map wf fst snd]; [exact I|].
  cbn [wf] in W. destruct W as [Hl Wt]. split; [|apply IH; exact Wt].
  destruct t as [|[k1 v1] t']; cbn [map lb fst snd] in *; assumption.
Qed.

(* the graph of th on a list of slots *)
Definition graph (th : N -> N) (L : list N) : slotmap := map (fun u => (u, th u)) L.

Lemma get_graph_in : forall th L u, In u L -> get (graph th L) u = Some (th u).
Proof.
  intros th L u. induction L as [|a t IH]; intro Hin; [destruct Hin|].
  cbn [graph map get]. destruct (u =? a) eqn:E.
  - apply N.eqb_eq in E. subst a. reflexivity.
  - apply IH. destruct Hin as [->|Hin]; [rewrite N.eqb_refl in E; discriminate|exact Hin].
Qed.

Lemma get_graph_some : forall th L u v, get (graph th L) u = Some v -> In u L /\ v = th u.
Proof.
  intros th L u v. induction L as [|a t IH]; intro G; [discriminate|].
  cbn [graph map get] in G. destruct (u =? a) eqn:E.
  - apply N.eqb_eq in E. subst a. inversion G. split; [left; reflexivity|reflexivity].
  - destruct (IH G) as [Hin Hv]. split; [right; exact Hin|exact Hv].
Qed.

Lemma graph_injective : forall th L,
  (forall u v, In u L -> In v L -> th u = th v -> u = v) -> injective (graph th L).
Proof.
  intros th L Inj k1 k2 v G1 G2.
  destruct (get_graph_some _ _ _ _ G1) as [H1 E1]. destruct (get_graph_some _ _ _ _ G2) as [H2 E2].
  apply Inj; [exact H1|exact H2|congruence].
Qed.

Lemma rnv_rn : forall th L x, wf (am x) -> (forall u, In u (values_vec (am x)) -> In u L) ->
  rnv th x = rn (graph th L) x.
Proof.
  intros th L x W Sub. unfold rnv, rn. f_equal. fold (mapv th (am x)).
  apply ext_eq; [apply wf_mapv; exact W|apply compose_partial_wf|].
  intro k. rewrite get_mapv. rewrite get_compose_partial by exact W.
  destruct (get (am x) k) as [y|] eqn:G; [|reflexivity].
  symmetry. apply get_graph_in. apply Sub. eapply get_values_vec; exact G.
Qed.

Theorem eg_eq_rnv : forall s th x y, eg_inv s -> covers s x -> covers s y -> wf (am x) -> wf (am y) ->
  (forall u v, In u (values_vec (am x) ++ values_vec (am y)) -> In v (values_vec (am x) ++ values_vec (am y)) ->
     th u = th v -> u = v) ->
  eg_eq s (rnv th x) (rnv th y) = eg_eq s x y.
Proof.
  intros s th x y Hs Cx Cy Wx Wy Inj.
  set (L := values_vec (am x) ++ values_vec (am y)) in *.
  rewrite (rnv_rn th L x Wx) by (intros u Hu; unfold L; apply in_or_app; left; exact Hu).
  rewrite (rnv_rn th L y Wy) by (intros u Hu; unfold L; apply in_or_app; right; exact Hu).
  apply eg_eq_rn_cancel.
  - exact Hs.
  - apply graph_injective. exact Inj.
  - split; assumption.
  - split; assumption.
  - intros u Hu. rewrite get_graph_in by (unfold L; apply in_or_app; left; exact Hu). discriminate.
  - intros u Hu. rewrite get_graph_in by (unfold L; apply in_or_app; right; exact Hu). discriminate.
Qed.

Corollary eg_eq_rnv_true : forall s th x y, eg_inv s -> covers s x -> covers s y -> wf (am x) -> wf (am y) ->
  (forall u v, In u (values_vec (am x) ++ values_vec (am y)) -> In v (values_vec (am x) ++ values_vec (am y)) ->
     th u = th v -> u = v) ->
  eg_eq s x y = Ok true -> eg_eq s (rnv th x) (rnv th y) = Ok true.
Proof.
  intros s th x y Hs Cx Cy Wx Wy Inj H. rewrite (eg_eq_rnv s th x y Hs Cx Cy Wx Wy Inj). exact H.
Qed.

Lemma covers_rnv : forall s th x, covers s x -> wf (am x) ->
  (forall u v, In u (values_vec (am x)) -> In v (values_vec (am x)) -> th u = th v -> u = v) ->
  covers s (rnv th x).
Proof.
  intros s th x (c & Hc & Ix & Sub) W Inj. exists c. split; [exact Hc|]. split.
  - intros k1 k2 v G1 G2. unfold rnv in G1, G2. cbn [am] in G1, G2. fold (mapv th (am x)) in G1, G2.
    rewrite get_mapv in G1, G2.
    destruct (get (am x) k1) as [y1|] eqn:E1; [|discriminate]. destruct (get (am x) k2) as [y2|] eqn:E2; [|discriminate].
    assert (y1 = y2) as <-.
    { apply Inj; [eapply get_values_vec; exact E1|eapply get_values_vec; exact E2|congruence]. }
    eapply Ix; eauto.
  - intros k Hk. unfold rnv. cbn [am]. fold (mapv th (am x)). rewrite get_mapv.
    specialize (Sub k Hk). destruct (get (am x) k); [discriminate|congruence].
Qed.

Lemma wf_rnv : forall th x, wf (am x) -> wf (am (rnv th x)).
Proof. intros th x W. unfold rnv. cbn [am]. apply (wf_mapv th _ W). Qed.

Print Assumptions eg_eq_rnv.
Print Assumptions eg_eq_rnv_true.
Print Assumptions covers_rnv.
