(* EGraph/CompleteEquiv.v — EQUIVARIANCE of the equality answers of the e-graph under an injective renaming of
   the user slot names of all input terms, as a corollary of the characterisation
       eg_eq on handles  <->  Deriv of their terms      (Section hypothesis EQ, provided by the completeness development).

   rren sg t      : the rterm t with every user-visible slot name x (free slots and binders) replaced by sg x;
                    the placeholder applied ids are untouched.
   usr sg         : the renaming of canonical names induced by sg (binder level names B k are fixed).
   user_ren sg    : sg maps user names (residue 0 or 2) to user names, injectively.
   nonB_ren sg    : user_ren + injective on ALL non-B names, non-B names go to non-B names
                    (what Deriv_equivariant needs).

   Proved:
     canon_rren / canon0_rren : canon0 (rren sg t) = cren (usr sg) (canon0 t)
     static_rren              : term_static_user is kept by rren
     ghost_rren               : handle_cterms / asserted of the renamed history = renamed handle_cterms / asserted
     run_ops_length           : a successful run has as many handles as the ghost has terms
     equivariance, equivariance_iff (conditional on EQ only). *)
From SE Require Import Slots.SlotMapFacts Group.GroupSound Lang.LangFacts Lang.ShapeFacts Lang.RenameFacts
  Slots.SlotFacts Base.TextFacts EGraph.Model EGraph.ModelFacts EGraph.ModelMachine EGraph.UnionFindFacts
  EGraph.InvariantFacts EGraph.UnionInvariantFacts EGraph.AddCoversFacts EGraph.MonotoneFacts
  EGraph.SoundFacts EGraph.SoundSyn EGraph.SoundAddExpr EGraph.RepFacts EGraph.OpsPreFacts.
From SE Require Import Sem.Term Sem.Deriv Sem.DerivFacts Sem.AlgebraFacts.
Require Import ZArith Lia.

(* ====================================================================== *)
(* 0. definitions                                                          *)
(* ====================================================================== *)

Fixpoint rren_f (sg : N -> N) (a : farg) : farg :=
  match a with
  | ASlot x => ASlot (sg x)
  | AApp x => AApp x
  | ABind x b => ABind (sg x) (rren_f sg b)
  | APay p => APay p
  end.

Fixpoint rren (sg : N -> N) (t : rterm) : rterm :=
  match t with
  | RT n ch => RT {| nvar := nvar n; nargs := map (rren_f sg) (nargs n) |} (map (rren sg) ch)
  end.

Definition usr (sg : N -> N) (x : N) : N := if is_B x then x else sg x.

Definition user_ren (sg : N -> N) : Prop :=
  (forall x, usern x -> usern (sg x)) /\ (forall x y, usern x -> usern y -> sg x = sg y -> x = y).

Definition nonB_ren (sg : N -> N) : Prop :=
  (forall x, is_B x = false -> is_B (sg x) = false) /\
  (forall x y, is_B x = false -> is_B y = false -> sg x = sg y -> x = y) /\
  (forall x, usern x -> usern (sg x)).

Lemma nonB_user_ren : forall sg, nonB_ren sg -> user_ren sg.
Proof.
  intros sg (_ & I & U). split; [exact U|]. intros x y Hx Hy E. apply I; [apply usern_notB; exact Hx|apply usern_notB; exact Hy|exact E].
Qed.

(* induction on rterms with the children under Forall *)
Lemma rterm_ind_F : forall P : rterm -> Prop, (forall n ch, Forall P ch -> P (RT n ch)) -> forall t, P t.
Proof.
  intros P H. fix IH 1. intros [n ch]. apply H. induction ch as [|c r IHr]; constructor; [apply IH|exact IHr].
Qed.

Lemma twf_iff : forall n ch, twf (RT n ch) <-> NoDup (binders n) /\ List.length ch = List.length (app_occ n) /\ Forall twf ch.
Proof.
  intros n ch. cbn [twf]. split; intros (A & L & C); (split; [exact A|]; split; [exact L|]).
  - clear L. induction ch as [|c r IH]; constructor; [apply C|apply IH; apply C].
  - clear L. induction C as [|c r Hc C IH]; [exact I|split; assumption].
Qed.

Lemma rsize_rren : forall sg t, rsize (rren sg t) = rsize t.
Proof.
  intros sg. apply (rterm_ind_F (fun t => rsize (rren sg t) = rsize t)). intros n ch F. cbn [rren rsize]. f_equal.
  induction F as [|c r Hc F IH]; [reflexivity|]. cbn [map fold_right]. rewrite Hc, IH. reflexivity.
Qed.

(* ====================================================================== *)
(* 1. canon of a renamed term                                               *)
(* ====================================================================== *)

(* the relation between the environment of the renamed term and that of the original *)
Definition envR (sg : N -> N) (e1 e2 : list (slot * N)) : Prop :=
  forall x, usern x -> env_get e1 (sg x) = usr sg (env_get e2 x).

Lemma usr_user : forall sg x, usern x -> usr sg x = sg x.
Proof. intros sg x H. unfold usr. rewrite (usern_notB x H). reflexivity. Qed.

Lemma usr_B : forall sg k, usr sg (B k) = B k.
Proof. intros sg k. unfold usr. rewrite is_B_B. reflexivity. Qed.

Lemma envR_nil : forall sg, envR sg [] [].
Proof. intros sg x Hx. cbn [env_get]. symmetry. apply usr_user. exact Hx. Qed.

Lemma envR_cons : forall sg e1 e2 k d, user_ren sg -> usern k -> envR sg e1 e2 ->
  envR sg ((sg k, B d) :: e1) ((k, B d) :: e2).
Proof.
  intros sg e1 e2 k d [_ Inj] Hk R x Hx. cbn [env_get].
  destruct (x =? k) eqn:E.
  - apply N.eqb_eq in E. subst x. rewrite N.eqb_refl. symmetry. apply usr_B.
  - assert (E' : (sg x =? sg k) = false).
    { apply N.eqb_neq. intros C. apply N.eqb_neq in E. apply E. apply Inj; assumption. }
    rewrite E'. apply R. exact Hx.
Qed.

(* the environment of the renamed term, as a map of the environment of the original *)
Lemma envR_map : forall sg env, user_ren sg -> Forall (fun p => usern (fst p) /\ is_B (snd p) = true) env ->
  envR sg (map (fun p => (sg (fst p), snd p)) env) env.
Proof.
  intros sg env [U Inj] F. induction F as [|[k v] r [Hk Hv] F IH]; [apply envR_nil|].
  cbn [map fst snd] in *. intros x Hx. cbn [env_get].
  destruct (x =? k) eqn:E.
  - apply N.eqb_eq in E. subst x. rewrite N.eqb_refl. unfold usr. rewrite Hv. reflexivity.
  - assert (E' : (sg x =? sg k) = false).
    { apply N.eqb_neq. intros C. apply N.eqb_neq in E. apply E. apply Inj; assumption. }
    rewrite E'. apply IH. exact Hx.
Qed.

Lemma canon_arg_rren : forall cn1 cn2 sg, user_ren sg -> forall a d e1 e2 ch,
  (forall x, In x (all_occ_f a) -> usern x) ->
  (forall c d' e1' e2', In c ch -> envR sg e1' e2' -> cn1 d' e1' (rren sg c) = cren (usr sg) (cn2 d' e2' c)) ->
  envR sg e1 e2 ->
  fst (canon_arg cn1 d e1 (rren_f sg a) (map (rren sg) ch)) = cren_arg (usr sg) (fst (canon_arg cn2 d e2 a ch)) /\
  snd (canon_arg cn1 d e1 (rren_f sg a) (map (rren sg) ch)) = map (rren sg) (snd (canon_arg cn2 d e2 a ch)).
Proof.
  intros cn1 cn2 sg UR. induction a as [x|x|x b IH|p]; intros d e1 e2 ch U Hc R; cbn [rren_f canon_arg].
  - cbn [fst snd cren_arg]. split; [|reflexivity]. rewrite R; [reflexivity|]. apply U. left. reflexivity.
  - destruct ch as [|c rest]; cbn [map fst snd cren_arg]; [split; reflexivity|]. split; [|reflexivity]. f_equal.
    apply Hc; [left; reflexivity|exact R].
  - specialize (IH (S d) ((sg x, B d) :: e1) ((x, B d) :: e2) ch).
    destruct (canon_arg cn1 (S d) _ (rren_f sg b) (map (rren sg) ch)) as [b1 c1].
    destruct (canon_arg cn2 (S d) _ b ch) as [b2 c2]. cbn [fst snd cren_arg] in *.
    destruct IH as [A1 A2].
    + intros y Hy. apply U. right. exact Hy.
    + exact Hc.
    + apply envR_cons; [exact UR| |exact R]. apply U. left. reflexivity.
    + split; [f_equal; exact A1|exact A2].
  - cbn [fst snd cren_arg]. split; reflexivity.
Qed.

Lemma canon_args_rren : forall cn1 cn2 sg d e1 e2, user_ren sg -> envR sg e1 e2 ->
  forall l ch, (forall a x, In a l -> In x (all_occ_f a) -> usern x) ->
  (forall c d' e1' e2', In c ch -> envR sg e1' e2' -> cn1 d' e1' (rren sg c) = cren (usr sg) (cn2 d' e2' c)) ->
  canon_args cn1 d e1 (map (rren_f sg) l) (map (rren sg) ch) = map (cren_arg (usr sg)) (canon_args cn2 d e2 l ch).
Proof.
  intros cn1 cn2 sg d e1 e2 UR R. induction l as [|a l IH]; intros ch U Hc; cbn [canon_args map]; [reflexivity|].
  pose proof (canon_arg_rren cn1 cn2 sg UR a d e1 e2 ch (fun x Hx => U a x (or_introl eq_refl) Hx) Hc R) as [A1 A2].
  pose proof (canon_arg_snd_in cn2 a d e2 ch) as I.
  destruct (canon_arg cn1 d e1 (rren_f sg a) (map (rren sg) ch)) as [a1 c1].
  destruct (canon_arg cn2 d e2 a ch) as [a2 c2]. cbn [fst snd] in *. subst c1. cbn [map]. f_equal; [exact A1|]. apply IH.
  - intros a' x Ha'. apply U. right. exact Ha'.
  - intros c d' e1' e2' Hin. apply Hc. apply I. exact Hin.
Qed.

Theorem canon_rren_R : forall f sg t d e1 e2, user_ren sg -> rt_ok t -> envR sg e1 e2 ->
  canon f d e1 (rren sg t) = cren (usr sg) (canon f d e2 t).
Proof.
  induction f as [|f IH]; intros sg t d e1 e2 UR OK R; [reflexivity|].
  destruct t as [n ch]. apply rt_ok_iff in OK. destruct OK as [U C]. cbn [rren]. rewrite !canon_S, cren_CT. cbn [nvar nargs]. f_equal.
  apply canon_args_rren; [exact UR|exact R| |].
  - intros a x Ha Hx. apply U. unfold all_occ. apply in_flat_map. exists a. split; assumption.
  - intros c d' e1' e2' Hin R'. apply IH; [exact UR| |exact R']. apply (proj1 (Forall_forall _ _) C). exact Hin.
Qed.

(* the form with the environment of the renamed term given as a map *)
Theorem canon_rren : forall f sg t d env, user_ren sg -> rt_ok t ->
  Forall (fun p => usern (fst p) /\ is_B (snd p) = true) env ->
  canon f d (map (fun p => (sg (fst p), snd p)) env) (rren sg t) = cren (usr sg) (canon f d env t).
Proof. intros f sg t d env UR OK F. apply canon_rren_R; [exact UR|exact OK|apply envR_map; assumption]. Qed.

Lemma canon0_rren : forall sg t, user_ren sg -> rt_ok t -> canon0 (rren sg t) = cren (usr sg) (canon0 t).
Proof.
  intros sg t UR OK. unfold canon0. rewrite rsize_rren. apply canon_rren_R; [exact UR|exact OK|apply envR_nil].
Qed.

(* ====================================================================== *)
(* 2. the static predicate is kept                                          *)
(* ====================================================================== *)

Lemma rren_binders_f : forall sg a, binders_f (rren_f sg a) = map sg (binders_f a).
Proof. intros sg. induction a as [x|x|x b IH|p]; cbn [rren_f binders_f map]; try reflexivity. rewrite IH. reflexivity. Qed.

Lemma rren_binders : forall sg l, flat_map binders_f (map (rren_f sg) l) = map sg (flat_map binders_f l).
Proof.
  intros sg. induction l as [|a l IH]; cbn [map flat_map]; [reflexivity|]. rewrite map_app, rren_binders_f, IH. reflexivity.
Qed.

Lemma rren_app_occ_f : forall sg a, app_occ_f (rren_f sg a) = app_occ_f a.
Proof. intros sg. induction a as [x|x|x b IH|p]; cbn [rren_f app_occ_f]; try reflexivity. exact IH. Qed.

Lemma rren_app_occ : forall sg l, flat_map app_occ_f (map (rren_f sg) l) = flat_map app_occ_f l.
Proof.
  intros sg. induction l as [|a l IH]; cbn [map flat_map]; [reflexivity|]. rewrite rren_app_occ_f, IH. reflexivity.
Qed.

Lemma rren_all_occ_f : forall sg a, (forall x, usern x -> usern (sg x)) -> (forall x, In x (all_occ_f a) -> usern x) ->
  forall y, In y (all_occ_f (rren_f sg a)) -> usern y.
Proof.
  intros sg a U. induction a as [x|x|x b IH|p]; intros H y Hy; cbn [rren_f all_occ_f] in *.
  - destruct Hy as [<-|[]]. apply U. apply H. left. reflexivity.
  - apply H. exact Hy.
  - destruct Hy as [<-|Hy]; [apply U; apply H; left; reflexivity|]. apply IH; [|exact Hy]. intros z Hz. apply H. right. exact Hz.
  - destruct Hy.
Qed.

Lemma binders_f_all : forall a x, In x (binders_f a) -> In x (all_occ_f a).
Proof.
  induction a as [z|z|z b IH|p]; intros x H; cbn [binders_f all_occ_f] in *; try (exfalso; exact H).
  destruct H as [->|H]; [left; reflexivity|right; apply IH; exact H].
Qed.

Lemma binders_all : forall n x, In x (binders n) -> In x (all_occ n).
Proof.
  intros n x H. unfold binders, all_occ in *. apply in_flat_map in H. destruct H as (a & Ha & Hx).
  apply in_flat_map. exists a. split; [exact Ha|apply binders_f_all; exact Hx].
Qed.

Lemma NoDup_map_on : forall (f : N -> N) l, (forall x y, In x l -> In y l -> f x = f y -> x = y) -> NoDup l -> NoDup (map f l).
Proof.
  intros f l Inj ND. induction ND as [|a l Ha ND IH]; cbn [map]; constructor.
  - intros C. apply in_map_iff in C. destruct C as (y & E & Hy). apply Ha.
    assert (y = a) by (apply Inj; [right; exact Hy|left; reflexivity|exact E]). subst y. exact Hy.
  - apply IH. intros x y Hx Hy. apply Inj; right; assumption.
Qed.

Lemma rt_ok_rren : forall sg t, user_ren sg -> rt_ok t -> rt_ok (rren sg t).
Proof.
  intros sg t [U _]. revert t. apply (rterm_ind_F (fun t => rt_ok t -> rt_ok (rren sg t))). intros n ch F OK.
  apply rt_ok_iff in OK. destruct OK as [A C]. cbn [rren]. apply rt_ok_iff. split.
  - intros y Hy. unfold all_occ in Hy. cbn [nargs] in Hy. apply in_flat_map in Hy. destruct Hy as (a' & Ha' & Hy).
    apply in_map_iff in Ha'. destruct Ha' as (a & <- & Ha). apply (rren_all_occ_f sg a U); [|exact Hy].
    intros x Hx. apply A. unfold all_occ. apply in_flat_map. exists a. split; assumption.
  - clear A. induction F as [|c r Hc F IH]; [constructor|]. inversion C as [|c' r' C1 C2]; subst. cbn [map].
    constructor; [apply Hc; exact C1|apply IH; exact C2].
Qed.

Lemma twf_rren : forall sg t, user_ren sg -> rt_ok t -> twf t -> twf (rren sg t).
Proof.
  intros sg t [U Inj]. revert t. apply (rterm_ind_F (fun t => rt_ok t -> twf t -> twf (rren sg t))). intros n ch F OK W.
  apply rt_ok_iff in OK. destruct OK as [A C]. apply twf_iff in W. destruct W as (ND & L & W). cbn [rren]. apply twf_iff.
  split; [|split].
  - unfold binders. cbn [nargs]. rewrite rren_binders. apply NoDup_map_on; [|exact ND].
    intros x y Hx Hy. apply Inj; apply A; apply binders_all; assumption.
  - unfold app_occ. cbn [nargs]. rewrite rren_app_occ, map_length. exact L.
  - clear A L ND. induction F as [|c r Hc F IH]; [constructor|]. inversion C as [|c' r' C1 C2]; subst.
    inversion W as [|c'' r'' W1 W2]; subst. cbn [map]. constructor; [apply Hc; assumption|apply IH; assumption].
Qed.

Lemma static_rren : forall sg t, user_ren sg -> term_static_user t -> term_static_user (rren sg t).
Proof. intros sg t UR [W OK]. split; [apply twf_rren; assumption|apply rt_ok_rren; assumption]. Qed.

Lemma static_rren_all : forall sg terms, user_ren sg -> Forall term_static_user terms -> Forall term_static_user (map (rren sg) terms).
Proof.
  intros sg terms UR F. induction F as [|t r Ht F IH]; cbn [map]; constructor; [apply static_rren; assumption|exact IH].
Qed.

(* ====================================================================== *)
(* 3. the ghost of the renamed history                                      *)
(* ====================================================================== *)

Lemma ren_eqs_app : forall u E1 E2, ren_eqs u (E1 ++ E2) = ren_eqs u E1 ++ ren_eqs u E2.
Proof. intros u E1 E2. unfold ren_eqs. apply map_app. Qed.

Lemma ghost_rren_gen : forall sg terms, user_ren sg -> Forall rt_ok terms -> forall ops hts E,
  ghost (map (rren sg) terms) ops (map (cren (usr sg)) hts) (ren_eqs (usr sg) E) =
  (map (cren (usr sg)) (fst (ghost terms ops hts E)), ren_eqs (usr sg) (snd (ghost terms ops hts E))).
Proof.
  intros sg terms UR TO. induction ops as [|o ops IH]; intros hts E; cbn [ghost]; [reflexivity|].
  destruct o as [k|i j just].
  - rewrite nth_opt_map. destruct (nth_opt terms k) as [tm|] eqn:Ek; cbn [option_map]; [|reflexivity].
    assert (OK : rt_ok tm). { apply (proj1 (Forall_forall _ _) TO). eapply nth_opt_In; eauto. }
    rewrite (canon0_rren sg tm UR OK). rewrite <- (IH (hts ++ [canon0 tm]) E). rewrite map_app. reflexivity.
  - rewrite !nth_opt_map. destruct (nth_opt hts i) as [a|]; cbn [option_map]; [|reflexivity].
    destruct (nth_opt hts j) as [b|]; cbn [option_map]; [|reflexivity].
    rewrite <- (IH hts (E ++ [(a, b)])). rewrite ren_eqs_app. reflexivity.
Qed.

Lemma ghost_rren : forall sg terms ops, user_ren sg -> Forall rt_ok terms ->
  handle_cterms (map (rren sg) terms) ops = map (cren (usr sg)) (handle_cterms terms ops) /\
  asserted (map (rren sg) terms) ops = ren_eqs (usr sg) (asserted terms ops).
Proof.
  intros sg terms ops UR TO. unfold handle_cterms, asserted.
  pose proof (ghost_rren_gen sg terms UR TO ops [] []) as G. cbn [map ren_eqs] in G. rewrite G. split; reflexivity.
Qed.

(* ====================================================================== *)
(* 4. handles and ghost terms are in step                                   *)
(* ====================================================================== *)

Lemma run_ops_length_gen : forall terms ops hs s hts E hs' s', List.length hs = List.length hts ->
  run_ops terms ops hs s = Ok (hs', s') -> List.length hs' = List.length (fst (ghost terms ops hts E)).
Proof.
  intros terms. induction ops as [|o ops IH]; intros hs s hts E hs' s' L H; cbn [run_ops ghost] in *.
  - inversion H; subst. exact L.
  - destruct o as [k|i j just].
    + destruct (nth_opt terms k) as [tm|] eqn:Ek; [|discriminate]. unfold mbind in H.
      destruct (add_expr tm s) as [[a s1]|] eqn:Ea; [|discriminate].
      apply (IH (hs ++ [a]) s1 (hts ++ [canon0 tm]) E hs' s'); [|exact H]. rewrite !app_length. cbn [List.length]. lia.
    + destruct (nth_opt hs i) as [a|] eqn:Ha; [|discriminate]. destruct (nth_opt hs j) as [b|] eqn:Hb; [|discriminate].
      unfold mbind in H. destruct (eg_union a b s) as [[u s1]|] eqn:Eu; [|discriminate].
      destruct (nth_opt_some_lt hts i) as (ta & Hta); [rewrite <- L; eapply nth_opt_Some_lt; eauto|].
      destruct (nth_opt_some_lt hts j) as (tb & Htb); [rewrite <- L; eapply nth_opt_Some_lt; eauto|].
      rewrite Hta, Htb. apply (IH _ _ _ _ _ _ L H).
Qed.

Lemma run_ops_length : forall terms ops hs s, run_ops terms ops [] empty_egraph = Ok (hs, s) ->
  List.length hs = List.length (handle_cterms terms ops).
Proof. intros terms ops hs s H. unfold handle_cterms. apply (run_ops_length_gen terms ops [] empty_egraph [] [] hs s eq_refl H). Qed.

Lemma run_ops_handle_term : forall terms ops hs s i a, run_ops terms ops [] empty_egraph = Ok (hs, s) ->
  nth_opt hs i = Some a -> exists t, nth_opt (handle_cterms terms ops) i = Some t.
Proof.
  intros terms ops hs s i a H Ha. apply nth_opt_some_lt. rewrite <- (run_ops_length terms ops hs s H).
  eapply nth_opt_Some_lt; eauto.
Qed.

(* ====================================================================== *)
(* 5. equivariance                                                          *)
(* ====================================================================== *)

Lemma rren_f_inv : forall sg tau a, (forall x, tau (sg x) = x) -> rren_f tau (rren_f sg a) = a.
Proof.
  intros sg tau a H. induction a as [x|x|x b IH|p]; cbn [rren_f]; try reflexivity.
  - rewrite H. reflexivity.
  - rewrite H, IH. reflexivity.
Qed.

Lemma rren_inv : forall sg tau t, (forall x, tau (sg x) = x) -> rren tau (rren sg t) = t.
Proof.
  intros sg tau t H. revert t. apply (rterm_ind_F (fun t => rren tau (rren sg t) = t)). intros [v args] ch F.
  cbn [rren nvar nargs]. f_equal.
  - f_equal. rewrite map_map. rewrite <- (map_id args) at 2. apply map_ext. intros a. apply rren_f_inv. exact H.
  - induction F as [|c r Hc F IH]; [reflexivity|]. cbn [map]. rewrite Hc, IH. reflexivity.
Qed.

Lemma rren_inv_all : forall sg tau terms, (forall x, tau (sg x) = x) -> map (rren tau) (map (rren sg) terms) = terms.
Proof.
  intros sg tau terms H. rewrite map_map. rewrite <- (map_id terms) at 2. apply map_ext. intros t. apply rren_inv. exact H.
Qed.

Section Equivariance.
  (* the characterisation of the equality answers (the completeness development provides it) *)
  Hypothesis EQ : forall terms ops hs s i j a b ti tj, Forall term_static_user terms ->
    run_ops terms ops [] empty_egraph = Ok (hs, s) -> nth_opt hs i = Some a -> nth_opt hs j = Some b ->
    nth_opt (handle_cterms terms ops) i = Some ti -> nth_opt (handle_cterms terms ops) j = Some tj ->
    (eg_eq s a b = Ok true <-> Deriv (asserted terms ops) 0 ti tj).

  Theorem equivariance : forall sg terms ops hs s hs' s' i j a b a' b', nonB_ren sg -> Forall term_static_user terms ->
    run_ops terms ops [] empty_egraph = Ok (hs, s) -> run_ops (map (rren sg) terms) ops [] empty_egraph = Ok (hs', s') ->
    nth_opt hs i = Some a -> nth_opt hs j = Some b -> nth_opt hs' i = Some a' -> nth_opt hs' j = Some b' ->
    eg_eq s a b = Ok true -> eg_eq s' a' b' = Ok true.
  Proof.
    intros sg terms ops hs s hs' s' i j a b a' b' NR TS R R' Ha Hb Ha' Hb' H.
    pose proof (nonB_user_ren sg NR) as UR. destruct NR as (NB & Inj & _).
    destruct (run_ops_handle_term terms ops hs s i a R Ha) as (ti & Hti).
    destruct (run_ops_handle_term terms ops hs s j b R Hb) as (tj & Htj).
    pose proof (proj1 (EQ terms ops hs s i j a b ti tj TS R Ha Hb Hti Htj) H) as D.
    assert (TO : Forall rt_ok terms).
    { apply Forall_forall. intros t Ht. exact (proj2 (proj1 (Forall_forall _ _) TS t Ht)). }
    destruct (ghost_rren sg terms ops UR TO) as [G1 G2].
    apply (proj2 (EQ (map (rren sg) terms) ops hs' s' i j a' b' (cren (usr sg) ti) (cren (usr sg) tj)
                    (static_rren_all sg terms UR TS) R' Ha' Hb'
                    ltac:(rewrite G1, nth_opt_map, Hti; reflexivity) ltac:(rewrite G1, nth_opt_map, Htj; reflexivity))).
    rewrite G2. apply Deriv_equivariant; [| | |exact D].
    - intros x Hx. unfold usr. rewrite Hx. apply NB. exact Hx.
    - intros x y Hx Hy. unfold usr. rewrite Hx, Hy. apply Inj; assumption.
    - intros x Hx. unfold usr. rewrite Hx. reflexivity.
  Qed.

  (* a renaming with a left inverse that is itself a renaming: the answers of the two runs agree *)
  Theorem equivariance_iff_l : forall sg tau terms ops hs s hs' s' i j a b a' b', nonB_ren sg -> Forall term_static_user terms ->
    run_ops terms ops [] empty_egraph = Ok (hs, s) -> run_ops (map (rren sg) terms) ops [] empty_egraph = Ok (hs', s') ->
    nth_opt hs i = Some a -> nth_opt hs j = Some b -> nth_opt hs' i = Some a' -> nth_opt hs' j = Some b' ->
    nonB_ren tau -> (forall x, tau (sg x) = x) ->
    (eg_eq s a b = Ok true <-> eg_eq s' a' b' = Ok true).
  Proof.
    intros sg tau terms ops hs s hs' s' i j a b a' b' NR TS R R' Ha Hb Ha' Hb' NT TI. split.
    - apply (equivariance sg terms ops hs s hs' s' i j a b a' b'); assumption.
    - apply (equivariance tau (map (rren sg) terms) ops hs' s' hs s i j a' b' a b); try assumption.
      + apply static_rren_all; [apply nonB_user_ren; exact NR|exact TS].
      + rewrite (rren_inv_all sg tau terms TI). exact R.
  Qed.

  Theorem equivariance_iff : forall sg tau terms ops hs s hs' s' i j a b a' b', nonB_ren sg -> Forall term_static_user terms ->
    run_ops terms ops [] empty_egraph = Ok (hs, s) -> run_ops (map (rren sg) terms) ops [] empty_egraph = Ok (hs', s') ->
    nth_opt hs i = Some a -> nth_opt hs j = Some b -> nth_opt hs' i = Some a' -> nth_opt hs' j = Some b' ->
    nonB_ren tau -> (forall x, tau (sg x) = x) -> (forall x, sg (tau x) = x) ->
    (eg_eq s a b = Ok true <-> eg_eq s' a' b' = Ok true).
  Proof.
    intros sg tau terms ops hs s hs' s' i j a b a' b' NR TS R R' Ha Hb Ha' Hb' NT TI _.
    apply (equivariance_iff_l sg tau terms ops hs s hs' s' i j a b a' b'); assumption.
  Qed.
End Equivariance.

Print Assumptions canon0_rren.
Print Assumptions canon_rren.
Print Assumptions static_rren.
Print Assumptions ghost_rren.
Print Assumptions run_ops_length.
Print Assumptions equivariance.
Print Assumptions equivariance_iff_l.
Print Assumptions equivariance_iff.
