(* EGraph/CompleteMain.v — C02 COMPLETENESS, the skeleton: in a state s in which
     (R/S/T/C) `Sim s` is reflexive, symmetric, transitive and a congruence (CompleteSim.v: every `good` state),
     (AX)     every instance of an equation of E relates terms with Sim-equal interpretations,
   derivably equal terms have Sim-equal interpretations (`Deriv_Sim`, by mutual induction on the derivation).
   The axiom case (`ax_Sim`) from: both sides of the equation are canonical forms of user terms that are represented
   by eg-equal handles; `clk` on a canonical form finds what `lookup_rec` finds (CompleteCanon.clk_canon0); `clk` is
   equivariant under the instantiating renaming (CompleteRen.clk_ren); `eg_eq` is invariant under an injective
   renaming of the values (CompleteEqRnv.eg_eq_rnv_true). *)
From SE Require Import Slots.SlotMapFacts Group.GroupSound Lang.LangFacts Lang.ShapeFacts Lang.RenameFacts
  Slots.SlotFacts Base.TextFacts EGraph.Model EGraph.ModelFacts EGraph.ModelMachine EGraph.PendingFacts EGraph.UnionFindFacts
  EGraph.InvariantFacts EGraph.UnionInvariantFacts EGraph.AddCoversFacts EGraph.MonotoneFacts EGraph.HashconsShape
  EGraph.Mod4Facts EGraph.HashconsAbs EGraph.Model9 EGraph.HashconsFacts EGraph.NodeCong EGraph.KidEqFacts EGraph.ShapeCong
  EGraph.CongruenceFacts EGraph.RepFacts EGraph.SoundFacts EGraph.OpsPreFacts EGraph.CompleteDefs EGraph.CompleteNm.
From SE Require Import Sem.Term Sem.Deriv Sem.DerivFacts.
Require Import ZArith Lia.

(* the concrete names of the targets of an instantiating renaming are distinct *)
Lemma sl_inj_range : forall js p q,
  (is_B p = false \/ exists k, (k < List.length js)%nat /\ p = B k) ->
  (is_B q = false \/ exists k, (k < List.length js)%nat /\ q = B k) ->
  sl js p = sl js q -> p = q.
Proof.
  intros js p q Hp Hq H.
  assert (Nth : forall k, (k < List.length js)%nat -> exists j, nth_opt js k = Some j).
  { clear. induction js as [|a js IH]; intros k Hk; cbn [List.length] in Hk; [lia|].
    destruct k as [|k]; [exists a; reflexivity|]. destruct (IH k) as [j Ej]; [lia|]. exists j. exact Ej. }
  destruct Hp as [Hp|(k & Hk & ->)]; destruct Hq as [Hq|(k' & Hk' & ->)].
  - rewrite !sl_user in H by assumption. exact H.
  - destruct (Nth k' Hk') as [j' Ej']. rewrite (sl_user js p Hp), (sl_B js k' j' Ej') in H.
    exfalso. pose proof (nm_isB k' j') as Q. rewrite <- H in Q. congruence.
  - destruct (Nth k Hk) as [j Ej]. rewrite (sl_user js q Hq), (sl_B js k j Ej) in H.
    exfalso. pose proof (nm_isB k j) as Q. rewrite H in Q. congruence.
  - destruct (Nth k Hk) as [j Ej]. destruct (Nth k' Hk') as [j' Ej'].
    rewrite (sl_B js k j Ej), (sl_B js k' j' Ej') in H. apply nm_inj in H. destruct H as [-> _]. reflexivity.
Qed.

Lemma theta_inj_user : forall d rho js names u v, inst_ok d rho names -> List.length js = d ->
  In u names -> In v names -> is_B u = false -> is_B v = false ->
  theta d rho js u = theta d rho js v -> u = v.
Proof.
  intros d rho js names u v [Inj Rng] Hl Hu Hv Bu Bv H. rewrite !theta_user in H by assumption.
  apply (Inj u v Hu Hv Bu Bv). apply (sl_inj_range js); [| |exact H].
  - destruct (Rng u Hu Bu) as [A|(k & Hk & A)]; [left; exact A|right; exists k; split; [lia|exact A]].
  - destruct (Rng v Hv Bv) as [A|(k & Hk & A)]; [left; exact A|right; exists k; split; [lia|exact A]].
Qed.

Section Main.
  Variable s : egraph.
  Hypothesis G : good s.

  (* CompleteSim.v *)
  Hypothesis H_refl : forall t js, Sim s js t t.
  Hypothesis H_sym : forall js t u, Sim s js t u -> Sim s js u t.
  Hypothesis H_trans : forall js t u w, Sim s js t u -> Sim s js u w -> Sim s js t w.
  Hypothesis H_cong : forall js v a b, SimArgs s O js a b -> Sim s js (CT v a) (CT v b).

  Section Induction.
    Variable E : equations.
    Hypothesis H_ax : forall l r d rho js, In (l, r) E -> inst_ok d rho (cnames l ++ cnames r) -> List.length js = d ->
      Sim s js (cren (lift d rho) l) (cren (lift d rho) r).

    Theorem Deriv_Sim_all :
      (forall d t u, Deriv E d t u -> forall js, List.length js = d -> Sim s js t u) /\
      (forall d a b, DerivArg E d a b -> forall j js, List.length js = d -> SimArg s j js a b) /\
      (forall d l l', DerivArgs E d l l' -> forall j js, List.length js = d -> SimArgs s j js l l').
    Proof.
      apply Deriv_mutind.
      - intros d l r rho Hin Hok js Hl. apply H_ax; assumption.
      - intros d t js _. apply H_refl.
      - intros d t u _ IH js Hl. apply H_sym. apply IH. exact Hl.
      - intros d t u w _ IH1 _ IH2 js Hl. eapply H_trans; [apply IH1|apply IH2]; exact Hl.
      - intros d v args args' _ IH js Hl. apply H_cong. apply IH. exact Hl.
      - intros d x j js _. constructor.
      - intros d p j js _. constructor.
      - intros d t u _ IH j js Hl. constructor. apply IH. exact Hl.
      - intros d a b _ IH j js Hl. constructor. apply IH. rewrite app_length. cbn [List.length]. lia.
      - intros d j js _. constructor.
      - intros d a b l l' _ IHa _ IHl j js Hl. constructor; [apply IHa|apply IHl]; exact Hl.
    Qed.

    Corollary Deriv_Sim : forall t u, Deriv E 0 t u -> Sim s [] t u.
    Proof. intros t u H. exact (proj1 Deriv_Sim_all 0%nat t u H [] eq_refl). Qed.
  End Induction.

  (* CompleteRen.v, CompleteCanon.v, CompleteEqRnv.v *)
  Hypothesis H_values : forall c ks x, wfc (List.length ks) c -> clk s ks c = Some x ->
    wf (am x) /\
    forall k v, get (am x) k = Some v ->
      (is_B v = false /\ In v (cnames c)) \/ (exists k' j, nth_opt ks k' = Some j /\ v = nm k' j).
  Hypothesis H_ren : forall c rho js ks x, wfc (List.length ks) c -> inst_ok (List.length js) rho (cnames c) ->
    clk s ks c = Some x ->
    clk s (js ++ ks) (cren (lift (List.length js) rho) c) = Some (rnv (theta (List.length js) rho js) x).
  Hypothesis H_wfc : forall t, rt_ok t -> wfc 0 (canon0 t).
  Hypothesis H_canon : forall t x, term_static_user t -> lookup_rec s t = Ok (Some x) -> clk s [] (canon0 t) = Some x.
  Hypothesis H_rnv : forall th x y, eg_inv s -> covers s x -> covers s y -> wf (am x) -> wf (am y) ->
    (forall u v, In u (values_vec (am x) ++ values_vec (am y)) -> In v (values_vec (am x) ++ values_vec (am y)) ->
       th u = th v -> u = v) ->
    eg_eq s x y = Ok true -> eg_eq s (rnv th x) (rnv th y) = Ok true.

  Lemma values_user : forall t x v, rt_ok t -> clk s [] (canon0 t) = Some x -> In v (values_vec (am x)) ->
    is_B v = false /\ In v (cnames (canon0 t)).
  Proof.
    intros t x v OK Hx Hv. destruct (H_values (canon0 t) [] x (H_wfc t OK) Hx) as [W V].
    unfold values_vec in Hv. apply in_map_iff in Hv. destruct Hv as ([k v'] & <- & Hin). cbn [snd].
    destruct (V k v' (in_get _ _ _ W Hin)) as [A|(k' & j & N & _)]; [exact A|]. destruct k'; discriminate.
  Qed.

  (* the axiom case *)
  Theorem ax_Sim : forall tl tr a b, term_static_user tl -> term_static_user tr ->
    rep s tl a -> rep s tr b -> eg_eq s a b = Ok true ->
    forall d rho js, inst_ok d rho (cnames (canon0 tl) ++ cnames (canon0 tr)) -> List.length js = d ->
    Sim s js (cren (lift d rho) (canon0 tl)) (cren (lift d rho) (canon0 tr)).
  Proof.
    intros tl tr a b Sl Sr (Ca & x & Lx & Ex) (Cb & y & Ly & Ey) Eab d rho js Hok Hl.
    destruct (good_parts s G) as (I3 & Hs & Nk & _).
    pose proof (lookup_rec_covers _ _ _ Nk Lx) as Cx. pose proof (lookup_rec_covers _ _ _ Nk Ly) as Cy.
    assert (Exy : eg_eq s x y = Ok true).
    { apply (eg_eq_trans_true s x a y Hs Cx Ca Cy Ex).
      apply (eg_eq_trans_true s a b y Hs Ca Cb Cy Eab). apply eg_eq_sym_true; assumption. }
    pose proof (H_canon tl x Sl Lx) as Kx. pose proof (H_canon tr y Sr Ly) as Ky.
    destruct Sl as [_ OKl]. destruct Sr as [_ OKr].
    assert (Il : inst_ok (List.length js) rho (cnames (canon0 tl))).
    { rewrite Hl. eapply inst_ok_incl; [|exact Hok]. intros z Hz. apply in_or_app. left. exact Hz. }
    assert (Ir : inst_ok (List.length js) rho (cnames (canon0 tr))).
    { rewrite Hl. eapply inst_ok_incl; [|exact Hok]. intros z Hz. apply in_or_app. right. exact Hz. }
    pose proof (H_ren (canon0 tl) rho js [] x (H_wfc tl OKl) Il Kx) as Rx.
    pose proof (H_ren (canon0 tr) rho js [] y (H_wfc tr OKr) Ir Ky) as Ry.
    rewrite app_nil_r in Rx, Ry. rewrite Hl in Rx, Ry.
    apply (Sim_cls s js _ _ _ _ Rx Ry).
    destruct (H_values (canon0 tl) [] x (H_wfc tl OKl) Kx) as [Wx _].
    destruct (H_values (canon0 tr) [] y (H_wfc tr OKr) Ky) as [Wy _].
    apply H_rnv; try assumption.
    assert (U : forall u, In u (values_vec (am x) ++ values_vec (am y)) ->
              is_B u = false /\ In u (cnames (canon0 tl) ++ cnames (canon0 tr))).
    { intros u Hu. apply in_app_or in Hu. destruct Hu as [Hu|Hu].
      - destruct (values_user tl x u OKl Kx Hu) as [A B']. split; [exact A|apply in_or_app; left; exact B'].
      - destruct (values_user tr y u OKr Ky Hu) as [A B']. split; [exact A|apply in_or_app; right; exact B']. }
    intros u v Hu Hv Huv. destruct (U u Hu) as [Bu Iu]. destruct (U v Hv) as [Bv Iv].
    exact (theta_inj_user d rho js _ u v Hok Hl Iu Iv Bu Bv Huv).
  Qed.

  (* the conclusion for two represented terms *)
  Theorem Sim_rep_eq : forall ti tj a b, term_static_user ti -> term_static_user tj ->
    rep s ti a -> rep s tj b -> Sim s [] (canon0 ti) (canon0 tj) -> eg_eq s a b = Ok true.
  Proof.
    intros ti tj a b Si Sj (Ca & x & Lx & Ex) (Cb & y & Ly & Ey) H.
    destruct (good_parts s G) as (I3 & Hs & Nk & _).
    pose proof (lookup_rec_covers _ _ _ Nk Lx) as Cx. pose proof (lookup_rec_covers _ _ _ Nk Ly) as Cy.
    pose proof (H_canon ti x Si Lx) as Kx. pose proof (H_canon tj y Sj Ly) as Ky.
    assert (Exy : eg_eq s x y = Ok true).
    { inversion H as [js t u x' y' Hx' Hy' E'|js v a' b' Hn _ _]; subst.
      - rewrite Kx in Hx'. rewrite Ky in Hy'. inversion Hx'; inversion Hy'; subst. exact E'.
      - match goal with Hc : CT _ _ = canon0 ti |- _ => rewrite Hc in Hn end. congruence. }
    apply (eg_eq_trans_true s a x b Hs Ca Cx Cb); [apply eg_eq_sym_true; assumption|].
    apply (eg_eq_trans_true s x y b Hs Cx Cy Cb Exy Ey).
  Qed.
End Main.
