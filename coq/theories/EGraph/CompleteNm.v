(* EGraph/CompleteNm.v — arithmetic of the binder names `nm k j` and of the renamings `sl`, `theta` (CompleteDefs.v). *)
From SE Require Import Slots.SlotMapFacts Lang.LangFacts EGraph.Model EGraph.CompleteDefs.
From SE Require Import Sem.Term Sem.Deriv.
Require Import ZArith Lia.

Lemma pow2_pos : forall k : N, 0 < 2 ^ k.
Proof. intros k. apply N.neq_0_lt_0. apply N.pow_nonzero. lia. Qed.

(* 2^k * odd = 2^k' * odd' -> k = k' and odd = odd' *)
Lemma pow2_odd_inj : forall k k' a b : nat,
  2 ^ N.of_nat k * (2 * N.of_nat a + 1) = 2 ^ N.of_nat k' * (2 * N.of_nat b + 1) -> k = k' /\ a = b.
Proof.
  induction k as [|k IH]; intros k' a b H.
  - destruct k' as [|k'].
    + cbn in H. split; [reflexivity|lia].
    + exfalso. rewrite Nat2N.inj_succ, N.pow_succ_r' in H. change (2 ^ N.of_nat 0) with 1 in H. lia.
  - destruct k' as [|k'].
    + exfalso. rewrite Nat2N.inj_succ, N.pow_succ_r' in H. change (2 ^ N.of_nat 0) with 1 in H. lia.
    + rewrite !Nat2N.inj_succ, !N.pow_succ_r' in H.
      assert (H' : 2 ^ N.of_nat k * (2 * N.of_nat a + 1) = 2 ^ N.of_nat k' * (2 * N.of_nat b + 1)) by lia.
      destruct (IH k' a b H') as [-> ->]. split; reflexivity.
Qed.

Lemma nm_inj : forall k j k' j', nm k j = nm k' j' -> k = k' /\ j = j'.
Proof. intros k j k' j' H. unfold nm in H. apply pow2_odd_inj. lia. Qed.

Lemma nm_isB : forall k j, is_B (nm k j) = true.
Proof. intros k j. unfold is_B, nm. apply N.eqb_eq. rewrite N.add_comm, N.mul_comm, N.mod_add by lia. reflexivity. Qed.

Lemma nm_div4 : forall k j, nm k j / 4 = 2 ^ N.of_nat k * (2 * N.of_nat j + 1).
Proof. intros k j. unfold nm. rewrite N.add_comm, N.mul_comm, N.div_add by lia. reflexivity. Qed.

Lemma is_B_B : forall k, is_B (B k) = true.
Proof. intros k. unfold is_B, B. apply N.eqb_eq. rewrite N.add_comm, N.mul_comm, N.mod_add by lia. reflexivity. Qed.

Lemma lvl_B : forall k, lvl (B k) = k.
Proof. intros k. unfold lvl, B. rewrite N.add_comm, N.mul_comm, N.div_add by lia. cbn. lia. Qed.

Lemma B_inj : forall k k', B k = B k' -> k = k'.
Proof. intros k k' H. unfold B in H. lia. Qed.

Lemma is_B_spec : forall x, is_B x = true -> x = B (lvl x).
Proof.
  intros x H. unfold is_B in H. apply N.eqb_eq in H. unfold B, lvl. rewrite N2Nat.id.
  pose proof (N.div_mod x 4). lia.
Qed.

Lemma sl_user : forall js x, is_B x = false -> sl js x = x.
Proof. intros js x H. unfold sl. rewrite H. reflexivity. Qed.

Lemma sl_B : forall js k j, nth_opt js k = Some j -> sl js (B k) = nm k j.
Proof. intros js k j H. unfold sl. rewrite is_B_B, lvl_B, H. reflexivity. Qed.

Lemma sl_B_none : forall js k, nth_opt js k = None -> sl js (B k) = B k.
Proof. intros js k H. unfold sl. rewrite is_B_B, lvl_B, H. reflexivity. Qed.

Lemma sl_isB : forall js x, is_B (sl js x) = is_B x.
Proof.
  intros js x. unfold sl. destruct (is_B x) eqn:E; [|exact E].
  destruct (nth_opt js (lvl x)); [apply nm_isB|exact E].
Qed.

Lemma theta_nm : forall d rho js k j, theta d rho js (nm k j) = nm (d + k) j.
Proof.
  intros d rho js k j. unfold theta. rewrite nm_isB, nm_div4. unfold nm.
  rewrite Nat2N.inj_add, N.pow_add_r. lia.
Qed.

Lemma theta_user : forall d rho js z, is_B z = false -> theta d rho js z = sl js (rho z).
Proof. intros d rho js z H. unfold theta. rewrite H. reflexivity. Qed.

Lemma theta_B_isB : forall d rho js z, is_B z = true -> is_B (theta d rho js z) = true.
Proof.
  intros d rho js z H. unfold theta. rewrite H. unfold is_B. apply N.eqb_eq.
  rewrite N.add_comm, N.mul_comm, N.mod_add by lia. reflexivity.
Qed.

Lemma theta_B_inj : forall d rho js z z', is_B z = true -> is_B z' = true ->
  theta d rho js z = theta d rho js z' -> z = z'.
Proof.
  intros d rho js z z' Hz Hz' H. unfold theta in H. rewrite Hz, Hz' in H.
  pose proof (pow2_pos (N.of_nat d)) as P.
  assert (E : z / 4 = z' / 4) by nia.
  unfold is_B in Hz, Hz'. apply N.eqb_eq in Hz, Hz'.
  pose proof (N.div_mod z 4). pose proof (N.div_mod z' 4). lia.
Qed.

Lemma nth_opt_app_l : forall {A} (l r : list A) k, (k < List.length l)%nat -> nth_opt (l ++ r) k = nth_opt l k.
Proof.
  intros A l. induction l as [|x l IH]; intros r k H; cbn [List.length] in H; [lia|].
  destruct k as [|k]; [reflexivity|]. cbn. apply IH. lia.
Qed.

Lemma nth_opt_app_r : forall {A} (l r : list A) k, nth_opt (l ++ r) (List.length l + k) = nth_opt r k.
Proof. intros A l. induction l as [|x l IH]; intros r k; [reflexivity|]. cbn. apply IH. Qed.
