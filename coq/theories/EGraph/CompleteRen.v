(* EGraph/CompleteRen.v — C02 completeness: the read-only bottom-up lookup `clk` (CompleteDefs.v) commutes with the
   instantiating renamings of `Deriv` (Sem/Deriv.v: `lift d rho`, `inst_ok`).

   `clk_values`: the values of the invocation found for a well-scoped term c under the binders ks are user names of c
     or names `nm k' j` of enclosing binders (k' < length ks).
   `clk_ren`: if c (well-scoped under ks) is found by x, then its instance `cren (lift d rho) c` is found under js ++ ks
     (d = length js) by `rnv (theta d rho js) x`.
   The node built for the instance is SYNTACTICALLY the renaming (RenameFacts.ren) of the node built for c by theta, theta is
   injective on the names that occur (HashconsShape.ren_ok), and eg_lookup is equivariant (RepReachB.eg_lookup_ren). *)
From SE Require Import Slots.SlotMapFacts Group.GroupSound Lang.LangFacts Lang.ShapeFacts Lang.RenameFacts
  Slots.SlotFacts Base.TextFacts EGraph.Model EGraph.ModelFacts EGraph.ModelMachine EGraph.PendingFacts EGraph.UnionFindFacts
  EGraph.InvariantFacts EGraph.UnionInvariantFacts EGraph.AddCoversFacts EGraph.MonotoneFacts EGraph.HashconsShape
  EGraph.Model9 EGraph.RepReachB EGraph.CompleteDefs EGraph.CompleteNm.
From SE Require Import Sem.Term Sem.Deriv Sem.AlgebraFacts Sem.DerivFacts.
Require Import ZArith Lia.

(* ------------------------------------------------------------------ *)
(* small list facts *)

Lemma rn_nth_opt_lt : forall {A} (l : list A) k x, nth_opt l k = Some x -> (k < List.length l)%nat.
Proof.
  intros A l. induction l as [|y l IH]; intros k x H; destruct k as [|k]; cbn in H; try discriminate; cbn [List.length].
  - lia.
  - apply IH in H. lia.
Qed.

Lemma rn_nth_opt_some : forall {A} (l : list A) k, (k < List.length l)%nat -> exists x, nth_opt l k = Some x.
Proof.
  intros A l. induction l as [|y l IH]; intros k H; cbn [List.length] in H; [lia|].
  destruct k as [|k]; [exists y; reflexivity|]. cbn. apply IH. lia.
Qed.

Lemma rn_nth_opt_snoc : forall {A} (l : list A) j k x, nth_opt (l ++ [j]) k = Some x ->
  nth_opt l k = Some x \/ (k = List.length l /\ x = j).
Proof.
  intros A l j k x H. destruct (Nat.lt_ge_cases k (List.length l)) as [L|G].
  - left. rewrite nth_opt_app_l in H by exact L. exact H.
  - right. pose proof (rn_nth_opt_lt _ _ _ H) as L. rewrite app_length in L. cbn [List.length] in L.
    assert (E : k = (List.length l + 0)%nat) by lia. split; [lia|].
    rewrite E, nth_opt_app_r in H. cbn in H. congruence.
Qed.

Lemma wfc_CT : forall e v args, wfc e (CT v args) <-> Forall (wfa e) args.
Proof.
  intros e v args. cbn [wfc]. induction args as [|a l IH].
  - split; intros _; [constructor|exact I].
  - split.
    + intros [Ha Hl]. constructor; [exact Ha|]. apply IH. exact Hl.
    + intros H. inversion H as [|a0 l0 Ha Hl]; subst. split; [exact Ha|]. apply IH. exact Hl.
Qed.

Lemma clk_args_cons : forall s j ks a l fargs, clk_args s j ks (a :: l) = Some fargs ->
  exists a' r, clk_arg s j ks a = Some a' /\ clk_args s (S j) ks l = Some r /\ fargs = a' :: r.
Proof.
  intros s j ks a l fargs H. cbn [clk_args] in H.
  destruct (clk_arg s j ks a) as [a'|]; [|discriminate].
  destruct (clk_args s (S j) ks l) as [r|]; [|discriminate].
  exists a', r. split; [reflexivity|]. split; [reflexivity|]. congruence.
Qed.

Lemma look_some : forall s v fargs x, look s v fargs = Some x -> eg_lookup s {| nvar := v; nargs := fargs |} = Ok (Some x).
Proof.
  intros s v fargs x H. unfold look in H.
  destruct (eg_lookup s {| nvar := v; nargs := fargs |}) as [[y|]|]; try discriminate. congruence.
Qed.

(* ------------------------------------------------------------------ *)
(* 1. the public slots of the node built by clk *)

Definition Pub (ks : list nat) (names : list N) (v : N) : Prop :=
  (is_B v = false /\ In v names) \/ (exists k' j, nth_opt ks k' = Some j /\ v = nm k' j).

Lemma Pub_incl : forall ks ns ns' v, (forall x, In x ns -> In x ns') -> Pub ks ns v -> Pub ks ns' v.
Proof.
  intros ks ns ns' v I [[H1 H2]|H]; [left; split; [exact H1|apply I; exact H2]|right; exact H].
Qed.

Section Values.
  Variable s : egraph.

  Definition PV (c : cterm) : Prop := forall ks x, wfc (List.length ks) c -> clk s ks c = Some x ->
    wf (am x) /\ forall k v, get (am x) k = Some v -> Pub ks (cnames c) v.
  Definition QV (a : carg) : Prop := forall j ks a', wfa (List.length ks) a -> clk_arg s j ks a = Some a' ->
    forall v, In v (pub_occ_f a') -> Pub ks (cnames_arg a) v.

  Lemma clk_args_pub_F : forall l, Forall QV l -> forall j ks fargs, Forall (wfa (List.length ks)) l ->
    clk_args s j ks l = Some fargs -> forall v, In v (flat_map pub_occ_f fargs) -> Pub ks (flat_map cnames_arg l) v.
  Proof.
    induction l as [|a l IH]; intros HF j ks fargs W H v Hv.
    - cbn in H. injection H as <-. cbn in Hv. contradiction.
    - destruct (clk_args_cons _ _ _ _ _ _ H) as (a' & r & Ha & Hr & ->).
      inversion HF as [|a0 l0 Qa Ql]; subst. inversion W as [|a1 l1 Wa Wl]; subst.
      cbn [flat_map] in Hv |- *. apply in_app_or in Hv. destruct Hv as [Hv|Hv].
      + eapply Pub_incl; [|exact (Qa j ks a' Wa Ha v Hv)]. intros z Hz. apply in_or_app. left. exact Hz.
      + eapply Pub_incl; [|exact (IH Ql (S j) ks r Wl Hr v Hv)]. intros z Hz. apply in_or_app. right. exact Hz.
  Qed.

  Lemma values_PQ : (forall c, PV c) /\ (forall a, QV a).
  Proof.
    assert (HCT : forall v args, Forall QV args -> PV (CT v args)).
    { intros v args HF ks x W H. rewrite clk_CT in H.
      destruct (clk_args s 0 ks args) as [fargs|] eqn:EA; [|discriminate].
      apply look_some in H. destruct (lookup_facts _ _ _ H) as [Wx Vx]. split; [exact Wx|].
      intros k v0 G. rewrite cnames_CT. apply (clk_args_pub_F args HF 0%nat ks fargs); [apply wfc_CT in W; exact W|exact EA|].
      apply Vx in G. exact G. }
    assert (HSlot : forall x, QV (CSlot x)).
    { intros x j ks a' W H v Hv. cbn [clk_arg] in H. injection H as <-. cbn [pub_occ_f In] in Hv.
      destruct Hv as [<-|[]]. cbn [wfa] in W. cbn [cnames_arg]. destruct (is_B x) eqn:E.
      - destruct (W eq_refl) as (k & Lk & ->). destruct (rn_nth_opt_some ks k Lk) as (j0 & Hj).
        right. exists k, j0. split; [exact Hj|]. apply sl_B. exact Hj.
      - left. rewrite sl_user by exact E. split; [exact E|left; reflexivity]. }
    assert (HChild : forall t, PV t -> QV (CChild t)).
    { intros t IH j ks a' W H v Hv. cbn [clk_arg] in H. cbn [wfa] in W.
      destruct (clk s ks t) as [x|] eqn:E; [|discriminate]. injection H as <-.
      destruct (IH ks x W E) as [Wx Vx]. cbn [pub_occ_f cnames_arg] in *.
      unfold values_vec in Hv. apply in_map_iff in Hv. destruct Hv as ([k v'] & Ev & Hin). cbn [snd] in Ev. subst v'.
      apply (Vx k v). apply in_get; assumption. }
    assert (HBind : forall a, QV a -> QV (CBind a)).
    { intros a IH j ks a' W H v Hv. cbn [clk_arg] in H. cbn [wfa] in W.
      destruct (clk_arg s j (ks ++ [j]) a) as [b'|] eqn:E; [|discriminate]. injection H as <-.
      cbn [pub_occ_f cnames_arg] in *. apply filter_In in Hv. destruct Hv as [Hv Hne].
      assert (W' : wfa (List.length (ks ++ [j])) a).
      { rewrite app_length. cbn [List.length]. rewrite Nat.add_1_r. exact W. }
      destruct (IH j (ks ++ [j]) b' W' E v Hv) as [HL|(k' & j' & Hn & ->)]; [left; exact HL|].
      destruct (rn_nth_opt_snoc _ _ _ _ Hn) as [Hn'|[-> ->]].
      - right. exists k', j'. split; [exact Hn'|reflexivity].
      - rewrite N.eqb_refl in Hne. discriminate. }
    assert (HPay : forall p, QV (CPay p)).
    { intros p j ks a' W H v Hv. cbn [clk_arg] in H. injection H as <-. cbn in Hv. contradiction. }
    split.
    - exact (cterm_ind2 PV QV HCT HSlot HChild HBind HPay).
    - exact (carg_ind2 PV QV HCT HSlot HChild HBind HPay).
  Qed.

  Lemma clk_values_pub : forall c ks x, wfc (List.length ks) c -> clk s ks c = Some x ->
    wf (am x) /\ forall k v, get (am x) k = Some v -> Pub ks (cnames c) v.
  Proof. exact (proj1 values_PQ). Qed.

  Lemma clk_args_pub : forall l j ks fargs, Forall (wfa (List.length ks)) l ->
    clk_args s j ks l = Some fargs -> forall v, In v (flat_map pub_occ_f fargs) -> Pub ks (flat_map cnames_arg l) v.
  Proof.
    intros l. apply clk_args_pub_F. apply Forall_forall. intros a _. exact (proj2 values_PQ a).
  Qed.

  (* the binders of the node built by clk are names nm k j of levels >= length ks *)
  Lemma clk_arg_binders : forall a j ks a', clk_arg s j ks a = Some a' ->
    forall b, In b (binders_f a') -> exists k, (List.length ks <= k)%nat /\ b = nm k j.
  Proof.
    induction a as [x|t|a IH|p]; intros j ks a' H b Hb; cbn [clk_arg] in H.
    - injection H as <-. cbn in Hb. contradiction.
    - destruct (clk s ks t); [|discriminate]. injection H as <-. cbn in Hb. contradiction.
    - destruct (clk_arg s j (ks ++ [j]) a) as [b'|] eqn:E; [|discriminate]. injection H as <-.
      cbn [binders_f In] in Hb. destruct Hb as [<-|Hb].
      + exists (List.length ks). split; [lia|reflexivity].
      + destruct (IH j (ks ++ [j]) b' E b Hb) as (k & Lk & ->). exists k. split; [|reflexivity].
        rewrite app_length in Lk. lia.
    - injection H as <-. cbn in Hb. contradiction.
  Qed.

  Lemma clk_args_binders : forall l j ks fargs, clk_args s j ks l = Some fargs ->
    forall b, In b (flat_map binders_f fargs) -> exists k j', (List.length ks <= k)%nat /\ b = nm k j'.
  Proof.
    induction l as [|a l IH]; intros j ks fargs H b Hb.
    - cbn in H. injection H as <-. cbn in Hb. contradiction.
    - destruct (clk_args_cons _ _ _ _ _ _ H) as (a' & r & Ha & Hr & ->).
      cbn [flat_map] in Hb. apply in_app_or in Hb. destruct Hb as [Hb|Hb].
      + destruct (clk_arg_binders a j ks a' Ha b Hb) as (k & Lk & ->). exists k, j. split; [exact Lk|reflexivity].
      + exact (IH (S j) ks r Hr b Hb).
  Qed.
End Values.

Lemma clk_values : forall s, inv3 s -> forall c ks x, wfc (List.length ks) c -> clk s ks c = Some x ->
  wf (am x) /\
  forall k v, get (am x) k = Some v ->
    (is_B v = false /\ In v (cnames c)) \/ (exists k' j, nth_opt ks k' = Some j /\ v = nm k' j).
Proof. intros s _ c ks x W H. exact (clk_values_pub s c ks x W H). Qed.

(* ------------------------------------------------------------------ *)
(* 2. renaming *)

Fixpoint rf (th : N -> N) (a : farg) : farg :=
  match a with
  | ASlot x => ASlot (th x)
  | AApp x => AApp (rnv th x)
  | ABind x b => ABind (th x) (rf th b)
  | APay p => APay p
  end.

Lemma ren_f_rf : forall th a bound, ren_f (fun _ : bool => th) bound a = rf th a.
Proof.
  intros th. induction a as [x|x|x b IH|p]; intros bound; cbn [ren_f rf]; try reflexivity.
  rewrite IH. reflexivity.
Qed.

Lemma wf_map_vals : forall (f : N -> N) m, wf m -> wf (map (fun kv => (fst kv, f (snd kv))) m).
Proof.
  intros f. induction m as [|[k v] t IH]; intros H; cbn [map fst snd wf] in *; [exact I|].
  destruct H as [L W]. split; [|apply IH; exact W].
  destruct t as [|[k' v'] t']; cbn [map lb fst snd] in *; exact L.
Qed.

Lemma get_map_vals : forall (f : N -> N) m k,
  get (map (fun kv => (fst kv, f (snd kv))) m) k = option_map f (get m k).
Proof.
  intros f. induction m as [|[k' v] t IH]; intros k; cbn [map fst snd get]; [reflexivity|].
  destruct (k =? k'); [reflexivity|apply IH].
Qed.

Section Ren.
  Variables (s : egraph) (rho : N -> N) (js : list nat).
  Hypothesis I3 : inv3 s.
  Let d := List.length js.
  Let th := theta d rho js.

  (* the image of a user name *)
  Lemma th_user_cases : forall names z, inst_ok d rho names -> In z names -> is_B z = false ->
    th z = sl js (rho z) /\
    ((is_B (rho z) = false /\ th z = rho z) \/ (exists k j, (k < d)%nat /\ rho z = B k /\ th z = nm k j)).
  Proof.
    intros names z [_ R] Hz Bz. unfold th. rewrite theta_user by exact Bz. split; [reflexivity|].
    destruct (R z Hz Bz) as [U|(k & Lk & E)].
    - left. split; [exact U|apply sl_user; exact U].
    - right. destruct (rn_nth_opt_some js k Lk) as (j & Hj). exists k, j. split; [exact Lk|]. split; [exact E|].
      rewrite E. apply sl_B. exact Hj.
  Qed.

  Lemma sl_lift : forall ks x, wfa (List.length ks) (CSlot x) -> inst_ok d rho [x] ->
    sl (js ++ ks) (lift d rho x) = th (sl ks x).
  Proof.
    intros ks x W IO. cbn [wfa] in W. destruct (is_B x) eqn:E.
    - destruct (W eq_refl) as (k & Lk & ->). destruct (rn_nth_opt_some ks k Lk) as (j & Hj).
      rewrite lift_B. rewrite (sl_B ks k j Hj). unfold th. rewrite theta_nm.
      apply sl_B. unfold d. rewrite nth_opt_app_r. exact Hj.
    - rewrite (sl_user ks x E). unfold lift. rewrite E.
      destruct (th_user_cases [x] x IO (or_introl eq_refl) E) as (T & _). rewrite T.
      destruct IO as [_ R]. destruct (R x (or_introl eq_refl) E) as [U|(k & Lk & Ek)].
      + rewrite !sl_user by exact U. reflexivity.
      + rewrite Ek. unfold sl. rewrite is_B_B, lvl_B, nth_opt_app_l by exact Lk. reflexivity.
  Qed.

  Lemma th_inj_pub : forall ks names x y, inst_ok d rho names -> Pub ks names x -> Pub ks names y -> th x = th y -> x = y.
  Proof.
    intros ks names x y IO Px Py E.
    destruct Px as [[Bx Ix]|(kx & jx & Nx & ->)]; destruct Py as [[By Iy]|(ky & jy & Ny & ->)].
    - destruct (th_user_cases names x IO Ix Bx) as (_ & Cx). destruct (th_user_cases names y IO Iy By) as (_ & Cy).
      destruct IO as [Inj _].
      destruct Cx as [[Ux Tx]|(k1 & j1 & L1 & R1 & T1)]; destruct Cy as [[Uy Ty]|(k2 & j2 & L2 & R2 & T2)].
      + apply Inj; try assumption. congruence.
      + exfalso. rewrite Tx, T2 in E. rewrite E, nm_isB in Ux. discriminate.
      + exfalso. rewrite T1, Ty in E. rewrite <- E, nm_isB in Uy. discriminate.
      + rewrite T1, T2 in E. apply nm_inj in E. destruct E as [-> ->]. apply Inj; try assumption. congruence.
    - exfalso. destruct (th_user_cases names x IO Ix Bx) as (_ & Cx). unfold th in E at 2. rewrite theta_nm in E.
      destruct Cx as [[Ux Tx]|(k1 & j1 & L1 & R1 & T1)].
      + rewrite Tx in E. rewrite E, nm_isB in Ux. discriminate.
      + rewrite T1 in E. apply nm_inj in E. lia.
    - exfalso. destruct (th_user_cases names y IO Iy By) as (_ & Cy). unfold th in E at 1. rewrite theta_nm in E.
      destruct Cy as [[Uy Ty]|(k2 & j2 & L2 & R2 & T2)].
      + rewrite Ty in E. rewrite <- E, nm_isB in Uy. discriminate.
      + rewrite T2 in E. apply nm_inj in E. lia.
    - unfold th in E. apply theta_B_inj in E; [exact E|apply nm_isB|apply nm_isB].
  Qed.

  Lemma th_pub_binder : forall ks names x k j, inst_ok d rho names -> Pub ks names x -> (List.length ks <= k)%nat ->
    th x <> th (nm k j).
  Proof.
    intros ks names x k j IO Px Lk E. unfold th in E at 2. rewrite theta_nm in E.
    destruct Px as [[Bx Ix]|(kx & jx & Nx & ->)].
    - destruct (th_user_cases names x IO Ix Bx) as (_ & Cx).
      destruct Cx as [[Ux Tx]|(k1 & j1 & L1 & R1 & T1)].
      + rewrite Tx in E. rewrite E, nm_isB in Ux. discriminate.
      + rewrite T1 in E. apply nm_inj in E. lia.
    - unfold th in E. rewrite theta_nm in E. apply nm_inj in E. apply rn_nth_opt_lt in Nx. lia.
  Qed.

  (* equivariance of the node lookup *)
  Lemma look_ren : forall ks v l fargs x, Forall (wfa (List.length ks)) l -> inst_ok d rho (flat_map cnames_arg l) ->
    clk_args s 0 ks l = Some fargs -> look s v fargs = Some x ->
    look s v (map (rf th) fargs) = Some (rnv th x).
  Proof.
    intros ks v l fargs x W IO HA HL. apply look_some in HL.
    set (g := fun _ : bool => th).
    set (m1 := {| nvar := v; nargs := fargs |}) in *.
    assert (Em : {| nvar := v; nargs := map (rf th) fargs |} = RenameFacts.ren g m1).
    { unfold RenameFacts.ren, m1. cbn [nvar nargs]. f_equal. apply map_ext. intros a. symmetry. exact (ren_f_rf th a []). }
    assert (PB : forall z, In z (pub_occ m1) -> Pub ks (flat_map cnames_arg l) z).
    { intros z Hz. exact (clk_args_pub s l 0%nat ks fargs W HA z Hz). }
    assert (BB : forall b, In b (binders m1) -> exists k j', (List.length ks <= k)%nat /\ b = nm k j').
    { intros b Hb. exact (clk_args_binders s l 0%nat ks fargs HA b Hb). }
    assert (RO : ren_ok g m1).
    { split; [|split].
      - intros a b Ha Hb E. destruct (BB a Ha) as (k1 & j1 & _ & ->). destruct (BB b Hb) as (k2 & j2 & _ & ->).
        unfold g, th in E. apply theta_B_inj in E; [exact E|apply nm_isB|apply nm_isB].
      - intros z b Hz Hb. destruct (BB b Hb) as (k & j' & Lk & ->). unfold g.
        exact (th_pub_binder ks _ z k j' IO (PB z Hz) Lk).
      - intros a b Ha Hb E. unfold g in E. exact (th_inj_pub ks _ a b IO (PB a Ha) (PB b Hb) E). }
    destruct (eg_lookup_ren s g m1 x I3 RO HL) as (y' & Ly' & Ay' & Gy').
    unfold look. rewrite Em, Ly'. f_equal.
    destruct (lookup_facts _ _ _ HL) as [Wx _]. destruct (lookup_facts _ _ _ Ly') as [Wy' _].
    destruct y' as [i' m']. unfold rnv. cbn [aid am] in *. f_equal; [exact Ay'|].
    apply ext_eq; [exact Wy'|apply wf_map_vals; exact Wx|].
    intros k. rewrite Gy', get_map_vals. reflexivity.
  Qed.

  Definition PR (c : cterm) : Prop := forall ks x, wfc (List.length ks) c -> inst_ok d rho (cnames c) ->
    clk s ks c = Some x -> clk s (js ++ ks) (cren (lift d rho) c) = Some (rnv th x).
  Definition QR (a : carg) : Prop := forall j ks a', wfa (List.length ks) a -> inst_ok d rho (cnames_arg a) ->
    clk_arg s j ks a = Some a' -> clk_arg s j (js ++ ks) (cren_arg (lift d rho) a) = Some (rf th a').

  Lemma clk_args_ren_F : forall l, Forall QR l -> forall j ks fargs, Forall (wfa (List.length ks)) l ->
    inst_ok d rho (flat_map cnames_arg l) -> clk_args s j ks l = Some fargs ->
    clk_args s j (js ++ ks) (map (cren_arg (lift d rho)) l) = Some (map (rf th) fargs).
  Proof.
    induction l as [|a l IH]; intros HF j ks fargs W IO H.
    - cbn in H. injection H as <-. reflexivity.
    - destruct (clk_args_cons _ _ _ _ _ _ H) as (a' & r & Ha & Hr & ->).
      inversion HF as [|a0 l0 Qa Ql]; subst. inversion W as [|a1 l1 Wa Wl]; subst.
      cbn [flat_map] in IO. cbn [map clk_args].
      rewrite (Qa j ks a' Wa); [| |exact Ha].
      + rewrite (IH Ql (S j) ks r Wl); [reflexivity| |exact Hr].
        eapply inst_ok_incl; [|exact IO]. intros z Hz. apply in_or_app. right. exact Hz.
      + eapply inst_ok_incl; [|exact IO]. intros z Hz. apply in_or_app. left. exact Hz.
  Qed.

  Lemma ren_PQ : (forall c, PR c) /\ (forall a, QR a).
  Proof.
    assert (HCT : forall v args, Forall QR args -> PR (CT v args)).
    { intros v args HF ks x W IO H. rewrite clk_CT in H. rewrite cren_CT, clk_CT. rewrite cnames_CT in IO.
      apply wfc_CT in W.
      destruct (clk_args s 0 ks args) as [fargs|] eqn:EA; [|discriminate].
      rewrite (clk_args_ren_F args HF 0%nat ks fargs W IO EA).
      exact (look_ren ks v args fargs x W IO EA H). }
    assert (HSlot : forall x, QR (CSlot x)).
    { intros x j ks a' W IO H. cbn [clk_arg] in H. injection H as <-. cbn [cren_arg clk_arg rf cnames_arg] in *.
      rewrite (sl_lift ks x W IO). reflexivity. }
    assert (HChild : forall t, PR t -> QR (CChild t)).
    { intros t IH j ks a' W IO H. cbn [clk_arg] in H. cbn [wfa cnames_arg] in W, IO.
      destruct (clk s ks t) as [x|] eqn:E; [|discriminate]. injection H as <-.
      cbn [cren_arg clk_arg rf]. rewrite (IH ks x W IO E). reflexivity. }
    assert (HBind : forall a, QR a -> QR (CBind a)).
    { intros a IH j ks a' W IO H. cbn [clk_arg] in H. cbn [wfa cnames_arg] in W, IO.
      destruct (clk_arg s j (ks ++ [j]) a) as [b'|] eqn:E; [|discriminate]. injection H as <-.
      assert (W' : wfa (List.length (ks ++ [j])) a).
      { rewrite app_length. cbn [List.length]. rewrite Nat.add_1_r. exact W. }
      cbn [cren_arg clk_arg rf]. rewrite <- app_assoc. rewrite (IH j (ks ++ [j]) b' W' IO E).
      rewrite app_length. fold d. unfold th at 2. rewrite theta_nm. reflexivity. }
    assert (HPay : forall p, QR (CPay p)).
    { intros p j ks a' W IO H. cbn [clk_arg] in H. injection H as <-. reflexivity. }
    split.
    - exact (cterm_ind2 PR QR HCT HSlot HChild HBind HPay).
    - exact (carg_ind2 PR QR HCT HSlot HChild HBind HPay).
  Qed.
End Ren.

Theorem clk_ren : forall s, inv3 s -> forall c rho js ks x,
  wfc (List.length ks) c -> inst_ok (List.length js) rho (cnames c) ->
  clk s ks c = Some x ->
  clk s (js ++ ks) (cren (lift (List.length js) rho) c) = Some (rnv (theta (List.length js) rho js) x).
Proof.
  intros s I3 c rho js ks x W IO H. exact (proj1 (ren_PQ s rho js I3) c ks x W IO H).
Qed.

(* the same for arguments and argument lists *)
Theorem clk_arg_ren : forall s, inv3 s -> forall a rho js j ks a',
  wfa (List.length ks) a -> inst_ok (List.length js) rho (cnames_arg a) ->
  clk_arg s j ks a = Some a' ->
  clk_arg s j (js ++ ks) (cren_arg (lift (List.length js) rho) a) = Some (rf (theta (List.length js) rho js) a').
Proof.
  intros s I3 a rho js j ks a' W IO H. exact (proj2 (ren_PQ s rho js I3) a j ks a' W IO H).
Qed.

Print Assumptions clk_values.
Print Assumptions clk_ren.
Print Assumptions clk_arg_ren.
