(* EGraph/CompleteRun.v — the semantic side of a history (SoundFacts.ghost: handle_cterms / asserted) is REPRESENTED in the
   final state of the run: every handle represents (CongruenceFacts.rep) a user term whose canonical term is the ghost
   term at the same position, and every asserted equation is an equation between two such terms whose handles are
   eg_eq in the final state.

   - `run_ghost` : the lock-step invariant J of run_ops / ghost (generalised over the accumulators);
   - `asserted_rep` : the statement for histories from the empty e-graph. *)
From SE Require Import Slots.SlotMapFacts Sem.Term EGraph.Model EGraph.ModelFacts EGraph.ModelMachine EGraph.UnionFindFacts
  EGraph.InvariantFacts EGraph.UnionInvariantFacts
  EGraph.AddCoversFacts EGraph.MonotoneFacts EGraph.SoundFacts EGraph.SoundAddExpr EGraph.CongruenceFacts EGraph.RepFacts
  EGraph.OpsPreFacts EGraph.StaticFacts.
Require Import List ZArith Lia.
Import ListNotations.

(* ------------------------------------------------------------------ *)
(* 1. list facts (local copies, to be independent of the names elsewhere) *)

Lemma Run_nth_lt : forall {A} (l : list A) n x, nth_opt l n = Some x -> (n < length l)%nat.
Proof.
  intros A l. induction l as [|a t IH]; intros n x H; destruct n as [|n]; cbn [nth_opt length] in *; try discriminate.
  - lia.
  - apply IH in H. lia.
Qed.

Lemma Run_nth_some : forall {A} (l : list A) n, (n < length l)%nat -> exists x, nth_opt l n = Some x.
Proof.
  intros A l. induction l as [|a t IH]; intros n Hn; cbn [length] in Hn; [lia|].
  destruct n as [|n]; [exists a; reflexivity|]. cbn [nth_opt]. apply IH. lia.
Qed.

Lemma Run_nth_app1 : forall {A} (l m : list A) n x, nth_opt l n = Some x -> nth_opt (l ++ m) n = Some x.
Proof.
  intros A l. induction l as [|a t IH]; intros m n x H; destruct n as [|n]; cbn [nth_opt app] in *; try discriminate.
  - exact H.
  - apply IH. exact H.
Qed.

Lemma Run_nth_snoc_inv : forall {A} (l : list A) x n y,
  nth_opt (l ++ [x]) n = Some y -> nth_opt l n = Some y \/ (n = length l /\ y = x).
Proof.
  intros A l. induction l as [|a t IH]; intros x n y H; cbn [app length] in *.
  - destruct n as [|n]; cbn [nth_opt] in H.
    + right. inversion H. split; reflexivity.
    + destruct n; discriminate.
  - destruct n as [|n]; cbn [nth_opt] in *.
    + left. exact H.
    + destruct (IH x n y H) as [L|[E1 E2]]; [left; exact L|right]. split; [lia|exact E2].
Qed.

Lemma Run_nth_snoc_len : forall {A} (l : list A) x, nth_opt (l ++ [x]) (length l) = Some x.
Proof. intros A l x. induction l as [|a t IH]; cbn [app length nth_opt]; [reflexivity|exact IH]. Qed.

Lemma Run_nth_In : forall {A} (l : list A) n x, nth_opt l n = Some x -> In x l.
Proof.
  intros A l. induction l as [|a t IH]; intros n x H; destruct n as [|n]; cbn [nth_opt] in H; try discriminate.
  - inversion H. left. reflexivity.
  - right. eapply IH. exact H.
Qed.

Lemma Run_nth_combine : forall {A B} (l : list A) (m : list B) n x y,
  nth_opt l n = Some x -> nth_opt m n = Some y -> In (x, y) (combine l m).
Proof.
  intros A B l. induction l as [|a t IH]; intros m n x y Hx Hy; destruct n as [|n]; destruct m as [|b m];
    cbn [nth_opt combine] in *; try discriminate.
  - inversion Hx. inversion Hy. left. reflexivity.
  - right. eapply IH; eassumption.
Qed.

Lemma Run_add_idx_cons_add : forall k ops, add_idx (HAdd k :: ops) = k :: add_idx ops.
Proof. intros k ops. reflexivity. Qed.
Lemma Run_add_idx_cons_union : forall i j u ops, add_idx (HUnion i j u :: ops) = add_idx ops.
Proof. intros i j u ops. reflexivity. Qed.

(* ------------------------------------------------------------------ *)
(* 2. the lock-step invariant *)

Definition J (terms : list rterm) (s : egraph) (hs : list appid) (hts : list cterm) (E : equations) (idx : list nat) : Prop :=
  length hs = length hts /\ length idx = length hts /\
  (forall p ti, nth_opt hts p = Some ti ->
     exists k t, nth_opt idx p = Some k /\ nth_opt terms k = Some t /\ ti = canon0 t) /\
  (forall l r, In (l, r) E ->
     exists i j a b, nth_opt hs i = Some a /\ nth_opt hs j = Some b /\
                     nth_opt hts i = Some l /\ nth_opt hts j = Some r /\ eg_eq s a b = Ok true).

Lemma run_ghost : forall terms ops hs s hts E idx hs' s',
  inv3 s -> Forall (covers s) hs -> J terms s hs hts E idx ->
  run_ops terms ops hs s = Ok (hs', s') ->
  J terms s' hs' (fst (ghost terms ops hts E)) (snd (ghost terms ops hts E)) (idx ++ add_idx ops).
Proof.
  intros terms. induction ops as [|o t IH]; intros hs s hts E idx hs' s' I3 Hc HJ H; cbn [run_ops ghost] in *.
  - inversion H; subst. cbn [fst snd]. unfold add_idx. cbn [flat_map]. rewrite app_nil_r. exact HJ.
  - destruct HJ as (L1 & L2 & P & Q). pose proof (proj1 (Forall_forall _ _) Hc) as Hc'.
    destruct o as [k|i j just].
    + destruct (nth_opt terms k) as [tm|] eqn:Ek; [|discriminate].
      apply mbind_inv in H. destruct H as (a & s1 & H1 & H).
      destruct (add_expr_covers tm s a s1 I3 H1) as (I1 & E01 & Ca).
      destruct (inv4_add_expr tm s a s1 H1 (proj1 I3)) as [_ [_ M1]].
      rewrite Run_add_idx_cons_add.
      replace (idx ++ k :: add_idx t) with ((idx ++ [k]) ++ add_idx t) by (rewrite <- app_assoc; reflexivity).
      apply (IH (hs ++ [a]) s1 (hts ++ [canon0 tm]) E (idx ++ [k]) hs' s' I1); [| |exact H].
      { apply Forall_app. split; [|constructor; [assumption|constructor]].
        revert Hc. apply Forall_impl. intros x. apply covers_ext0. assumption. }
      split; [rewrite !app_length; cbn [length]; lia|]. split; [rewrite !app_length; cbn [length]; lia|]. split.
      * intros p ti Hp. destruct (Run_nth_snoc_inv _ _ _ _ Hp) as [Hp'|[-> ->]].
        -- destruct (P p ti Hp') as (k0 & t0 & A1 & A2 & A3). exists k0, t0.
           split; [apply Run_nth_app1; exact A1|]. split; assumption.
        -- exists k, tm. split; [rewrite <- L2; apply Run_nth_snoc_len|]. split; [exact Ek|reflexivity].
      * intros l r Hlr. destruct (Q l r Hlr) as (i & j & x & y & A1 & A2 & A3 & A4 & A5).
        exists i, j, x, y. split; [apply Run_nth_app1; exact A1|]. split; [apply Run_nth_app1; exact A2|].
        split; [apply Run_nth_app1; exact A3|]. split; [apply Run_nth_app1; exact A4|].
        apply M1; [apply Hc'; eapply Run_nth_In; eauto|apply Hc'; eapply Run_nth_In; eauto|exact A5].
    + destruct (nth_opt hs i) as [a|] eqn:Ei; [|discriminate]. destruct (nth_opt hs j) as [b|] eqn:Ej; [|discriminate].
      apply mbind_inv in H. destruct H as (u & s1 & H1 & H).
      pose proof (Hc' a (Run_nth_In _ _ _ Ei)) as Ca. pose proof (Hc' b (Run_nth_In _ _ _ Ej)) as Cb.
      destruct (eg_union_inv3 a b s u s1 I3 Ca Cb H1) as [I1 E1].
      destruct (inv4_eg_union a b s u s1 (proj1 I3) Ca Cb H1) as (_ & [_ M1] & _).
      pose proof (eg_union_establishes a b s u s1 I3 Ca Cb H1) as Eab.
      destruct (Run_nth_some hts i) as [ta Hta]; [rewrite <- L1; eapply Run_nth_lt; eauto|].
      destruct (Run_nth_some hts j) as [tb Htb]; [rewrite <- L1; eapply Run_nth_lt; eauto|].
      rewrite Hta, Htb. rewrite Run_add_idx_cons_union.
      apply (IH hs s1 hts (E ++ [(ta, tb)]) idx hs' s' I1); [| |exact H].
      { revert Hc. apply Forall_impl. intros x. apply covers_ext. assumption. }
      split; [exact L1|]. split; [exact L2|]. split; [exact P|].
      intros l r Hlr. apply in_app_or in Hlr. destruct Hlr as [Hlr|[Hlr|[]]].
      * destruct (Q l r Hlr) as (i0 & j0 & x & y & A1 & A2 & A3 & A4 & A5).
        exists i0, j0, x, y. repeat (split; [assumption|]).
        apply M1; [apply Hc'; eapply Run_nth_In; eauto|apply Hc'; eapply Run_nth_In; eauto|exact A5].
      * inversion Hlr; subst. exists i, j, a, b. repeat (split; [assumption|]). exact Eab.
Qed.

(* ------------------------------------------------------------------ *)
(* 3. histories from the empty e-graph *)

Theorem asserted_rep : forall terms ops hs s, Forall term_static_user terms ->
  run_ops terms ops [] empty_egraph = Ok (hs, s) ->
  good s /\
  (forall i a ti, nth_opt hs i = Some a -> nth_opt (handle_cterms terms ops) i = Some ti ->
     exists t, In t terms /\ term_static_user t /\ ti = canon0 t /\ rep s t a) /\
  (forall l r, In (l, r) (asserted terms ops) ->
     exists tl tr a b, In tl terms /\ In tr terms /\ term_static_user tl /\ term_static_user tr /\
                       l = canon0 tl /\ r = canon0 tr /\
                       rep s tl a /\ rep s tr b /\ eg_eq s a b = Ok true).
Proof.
  intros terms ops hs s HU H.
  assert (HT : Forall term_static terms) by (revert HU; apply Forall_impl; exact term_static_user_static).
  destruct (reachable_all_static terms ops hs s HU H) as (_ & _ & _ & Hcb & Hss & _).
  assert (J0 : J terms empty_egraph [] [] [] []).
  { split; [reflexivity|]. split; [reflexivity|]. split.
    - intros p ti Hp. destruct p; discriminate.
    - intros l r []. }
  pose proof (run_ghost terms ops [] empty_egraph [] [] [] hs s inv3_empty (Forall_nil _) J0 H) as HJ.
  cbn [app] in HJ. fold (handle_cterms terms ops) in HJ. fold (asserted terms ops) in HJ.
  destruct HJ as (L1 & L2 & P & Q).
  assert (C2 : forall i a ti, nth_opt hs i = Some a -> nth_opt (handle_cterms terms ops) i = Some ti ->
     exists t, In t terms /\ term_static_user t /\ ti = canon0 t /\ rep s t a).
  { intros i a ti Ha Hti. destruct (P i ti Hti) as (k & t & A1 & A2 & A3).
    destruct (handles_rep_static terms ops hs s HT H k a (Run_nth_combine _ _ _ _ _ A1 Ha)) as (t' & B1 & B2).
    rewrite A2 in B1. inversion B1; subst t'. exists t.
    pose proof (Run_nth_In _ _ _ A2) as Hin.
    split; [exact Hin|]. split; [exact (proj1 (Forall_forall _ _) HU t Hin)|]. split; [exact A3|exact B2]. }
  split; [split; assumption|]. split; [exact C2|].
  intros l r Hlr. destruct (Q l r Hlr) as (i & j & a & b & A1 & A2 & A3 & A4 & A5).
  destruct (C2 i a l A1 A3) as (tl & B1 & B2 & B3 & B4).
  destruct (C2 j b r A2 A4) as (tr & D1 & D2 & D3 & D4).
  exists tl, tr, a, b. repeat (split; [assumption|]). exact A5.
Qed.

Print Assumptions run_ghost.
Print Assumptions asserted_rep.
