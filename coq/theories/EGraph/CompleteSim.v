(* EGraph/CompleteSim.v — C02 COMPLETENESS: `Sim s js` (CompleteDefs.v) is an equivalence relation and a congruence
   in every state s with `good s` (RepFacts.good):

     Sim_refl  : good s -> Sim s js t t
     Sim_sym   : good s -> Sim s js t u -> Sim s js u t
     Sim_trans : good s -> Sim s js t u -> Sim s js u w -> Sim s js t w
     Sim_cong  : good s -> SimArgs s O js a b -> Sim s js (CT v a) (CT v b)

   (with the SimArg / SimArgs versions).  Congruence: Sim arguments have interpretations (`clk_args`) with the same
   skeleton and pairwise `kid_eq` applied ids (`fsim`); the binders of the interpreted node are pairwise distinct
   (names nm k j, injective), so RepFacts.lookup_kid_eq transports a found node to a found node with an eg-equal
   invocation, in both directions. *)
From SE Require Import Slots.SlotMapFacts Group.GroupSound Lang.LangFacts Lang.ShapeFacts Lang.RenameFacts
  Slots.SlotFacts Base.TextFacts EGraph.Model EGraph.ModelFacts EGraph.ModelMachine EGraph.PendingFacts EGraph.UnionFindFacts
  EGraph.InvariantFacts EGraph.UnionInvariantFacts EGraph.AddCoversFacts EGraph.MonotoneFacts EGraph.HashconsShape
  EGraph.Mod4Facts EGraph.HashconsAbs EGraph.Model9 EGraph.HashconsFacts EGraph.NodeCong EGraph.KidEqFacts EGraph.ShapeCong
  EGraph.CongruenceFacts EGraph.RepFacts EGraph.CompleteDefs EGraph.CompleteNm.
From SE Require Import Sem.Term Sem.Deriv.
Require Import ZArith Lia.

(* ---------- induction principle for the nested mutual type cterm / carg ---------- *)
Section CtermInd.
  Variables (P : cterm -> Prop) (Q : carg -> Prop).
  Hypothesis HCT : forall v args, Forall Q args -> P (CT v args).
  Hypothesis HSlot : forall x, Q (CSlot x).
  Hypothesis HChild : forall t, P t -> Q (CChild t).
  Hypothesis HBind : forall a, Q a -> Q (CBind a).
  Hypothesis HPay : forall p, Q (CPay p).

  Fixpoint cterm_rect2 (t : cterm) : P t :=
    match t with
    | CT v args =>
        HCT v args ((fix go (l : list carg) : Forall Q l :=
                       match l with
                       | [] => Forall_nil Q
                       | a :: l' => Forall_cons a (carg_rect2 a) (go l')
                       end) args)
    end
  with carg_rect2 (a : carg) : Q a :=
    match a with
    | CSlot x => HSlot x
    | CChild t => HChild t (cterm_rect2 t)
    | CBind b => HBind b (carg_rect2 b)
    | CPay p => HPay p
    end.
End CtermInd.

(* ---------- clk finds covered invocations ---------- *)
Lemma look_covers : forall s v fa x, nodes_ok s -> look s v fa = Some x -> covers s x.
Proof.
  intros s v fa x Nk H. unfold look in H.
  destruct (eg_lookup s {| nvar := v; nargs := fa |}) as [[y|]|e] eqn:L; try discriminate.
  injection H as ->. exact (eg_lookup_covers _ _ _ Nk L).
Qed.

Lemma clk_covers : forall s js t x, nodes_ok s -> clk s js t = Some x -> covers s x.
Proof.
  intros s js t x Nk H. destruct t as [v args]. rewrite clk_CT in H.
  destruct (clk_args s 0 js args) as [fa|]; [|discriminate]. exact (look_covers _ _ _ _ Nk H).
Qed.

(* ---------- reflexivity ---------- *)
Lemma SimArgs_of_Forall : forall s l, Forall (fun a => forall j js, SimArg s j js a a) l ->
  forall j js, SimArgs s j js l l.
Proof.
  intros s l F. induction F as [|a l Ha F IH]; intros j js; constructor; [apply Ha|apply IH].
Qed.

Lemma Sim_refl_both : forall s, good s ->
  (forall t js, Sim s js t t) /\ (forall a j js, SimArg s j js a a).
Proof.
  intros s G. destruct (good_parts s G) as (I3 & Hs & Nk & Hh & Pe & SS).
  assert (HP : forall t, (fun t => forall js, Sim s js t t) t).
  { apply (cterm_rect2 (fun t => forall js, Sim s js t t) (fun a => forall j js, SimArg s j js a a)).
    - intros v args F js. destruct (clk s js (CT v args)) as [x|] eqn:E.
      + apply (Sim_cls s js _ _ x x E E).
        apply eg_eq_refl_inv; [exact (ei_uf _ Hs)|exact (ei_slots _ Hs)|exact (clk_covers _ _ _ _ Nk E)].
      + apply Sim_free; [exact E|exact E|]. apply SimArgs_of_Forall. exact F.
    - intros x j js. constructor.
    - intros t IH j js. constructor. apply IH.
    - intros a IH j js. constructor. apply IH.
    - intros p j js. constructor. }
  split; [exact HP|].
  apply (carg_rect2 (fun t => forall js, Sim s js t t) (fun a => forall j js, SimArg s j js a a)).
  - intros v args F js. apply HP.
  - intros x j js. constructor.
  - intros t IH j js. constructor. apply IH.
  - intros a IH j js. constructor. apply IH.
  - intros p j js. constructor.
Qed.

Theorem Sim_refl : forall s, good s -> forall t js, Sim s js t t.
Proof. intros s G. exact (proj1 (Sim_refl_both s G)). Qed.

Theorem SimArg_refl : forall s, good s -> forall a j js, SimArg s j js a a.
Proof. intros s G. exact (proj2 (Sim_refl_both s G)). Qed.

Theorem SimArgs_refl : forall s, good s -> forall l j js, SimArgs s j js l l.
Proof.
  intros s G l. induction l as [|a l IH]; intros j js; constructor; [apply SimArg_refl; exact G|apply IH].
Qed.

(* ---------- symmetry ---------- *)
Lemma Sim_sym_all : forall s, good s ->
  (forall js t u, Sim s js t u -> Sim s js u t) /\
  (forall j js a b, SimArg s j js a b -> SimArg s j js b a) /\
  (forall j js l l', SimArgs s j js l l' -> SimArgs s j js l' l).
Proof.
  intros s G. destruct (good_parts s G) as (I3 & Hs & Nk & Hh & Pe & SS).
  apply (Sim_mutind s (fun js t u _ => Sim s js u t) (fun j js a b _ => SimArg s j js b a)
           (fun j js l l' _ => SimArgs s j js l' l)).
  - intros js t u x y Et Eu E. apply (Sim_cls s js u t y x Eu Et).
    apply eg_eq_sym_true; [exact Hs|exact (clk_covers _ _ _ _ Nk Et)|exact (clk_covers _ _ _ _ Nk Eu)|exact E].
  - intros js v a b Ea Eb _ IH. apply Sim_free; assumption.
  - intros j js x. constructor.
  - intros j js p. constructor.
  - intros j js t u _ IH. constructor. exact IH.
  - intros j js a b _ IH. constructor. exact IH.
  - intros j js. constructor.
  - intros j js a b l l' _ IH1 _ IH2. constructor; assumption.
Qed.

Theorem Sim_sym : forall s, good s -> forall js t u, Sim s js t u -> Sim s js u t.
Proof. intros s G. exact (proj1 (Sim_sym_all s G)). Qed.

Theorem SimArg_sym : forall s, good s -> forall j js a b, SimArg s j js a b -> SimArg s j js b a.
Proof. intros s G. exact (proj1 (proj2 (Sim_sym_all s G))). Qed.

Theorem SimArgs_sym : forall s, good s -> forall j js l l', SimArgs s j js l l' -> SimArgs s j js l' l.
Proof. intros s G. exact (proj2 (proj2 (Sim_sym_all s G))). Qed.

(* ---------- transitivity ---------- *)
Lemma Sim_trans_all : forall s, good s ->
  (forall js t u, Sim s js t u -> forall w, Sim s js u w -> Sim s js t w) /\
  (forall j js a b, SimArg s j js a b -> forall c, SimArg s j js b c -> SimArg s j js a c) /\
  (forall j js l l', SimArgs s j js l l' -> forall l'', SimArgs s j js l' l'' -> SimArgs s j js l l'').
Proof.
  intros s G. destruct (good_parts s G) as (I3 & Hs & Nk & Hh & Pe & SS).
  apply (Sim_mutind s (fun js t u _ => forall w, Sim s js u w -> Sim s js t w)
           (fun j js a b _ => forall c, SimArg s j js b c -> SimArg s j js a c)
           (fun j js l l' _ => forall l'', SimArgs s j js l' l'' -> SimArgs s j js l l'')).
  - intros js t u x y Et Eu E w H2. inversion H2 as [js' t' u' y' z Eu' Ew E' | js' v a b Ea Eb HA]; subst.
    + rewrite Eu in Eu'. injection Eu' as <-.
      apply (Sim_cls s js t w x z Et Ew).
      apply (eg_eq_trans_true s x y z Hs);
        [exact (clk_covers _ _ _ _ Nk Et)|exact (clk_covers _ _ _ _ Nk Eu)|exact (clk_covers _ _ _ _ Nk Ew)|exact E|exact E'].
    + rewrite Eu in Ea. discriminate.
  - intros js v a b Ea Eb _ IH w H2. inversion H2 as [js' t' u' y' z Eu' Ew E' | js' v' a' c Eb' Ec HA]; subst.
    + rewrite Eb in Eu'. discriminate.
    + apply Sim_free; [exact Ea|exact Ec|]. apply IH. exact HA.
  - intros j js x c H2. exact H2.
  - intros j js p c H2. exact H2.
  - intros j js t u _ IH c H2. inversion H2 as [| |j' js' t' w HS|]; subst. constructor. apply IH. exact HS.
  - intros j js a b _ IH c H2. inversion H2 as [| | |j' js' a' c' HS]; subst. constructor. apply IH. exact HS.
  - intros j js l'' H2. exact H2.
  - intros j js a b l l' _ IH1 _ IH2 l'' H2. inversion H2 as [|j' js' b' c m m' HA HL]; subst.
    constructor; [apply IH1; exact HA|apply IH2; exact HL].
Qed.

Theorem Sim_trans : forall s, good s -> forall js t u w, Sim s js t u -> Sim s js u w -> Sim s js t w.
Proof. intros s G js t u w H1 H2. exact (proj1 (Sim_trans_all s G) js t u H1 w H2). Qed.

Theorem SimArg_trans : forall s, good s -> forall j js a b c, SimArg s j js a b -> SimArg s j js b c -> SimArg s j js a c.
Proof. intros s G j js a b c H1 H2. exact (proj1 (proj2 (Sim_trans_all s G)) j js a b H1 c H2). Qed.

Theorem SimArgs_trans : forall s, good s -> forall j js l l' l'',
  SimArgs s j js l l' -> SimArgs s j js l' l'' -> SimArgs s j js l l''.
Proof. intros s G j js l l' l'' H1 H2. exact (proj2 (proj2 (Sim_trans_all s G)) j js l l' H1 l'' H2). Qed.

(* ---------- congruence ---------- *)
(* same skeleton, applied ids pairwise kid_eq *)
Inductive fsim (s : egraph) : farg -> farg -> Prop :=
| fs_slot : forall x, fsim s (ASlot x) (ASlot x)
| fs_pay : forall p, fsim s (APay p) (APay p)
| fs_bind : forall x f g, fsim s f g -> fsim s (ABind x f) (ABind x g)
| fs_app : forall p q, kid_eq s p q -> fsim s (AApp p) (AApp q).

Lemma fsim_set_apps_f : forall s f g, fsim s f g -> forall r, set_apps_f f (app_occ_f g ++ r) = (g, r).
Proof.
  intros s f g H. induction H as [x|p|x f g H IH|p q K]; intros r; cbn [set_apps_f app_occ_f app].
  - reflexivity.
  - reflexivity.
  - rewrite IH. reflexivity.
  - reflexivity.
Qed.

Lemma fsim_set_apps_args : forall s fa fb, Forall2 (fsim s) fa fb ->
  set_apps_args fa (flat_map app_occ_f fb) = fb.
Proof.
  intros s fa fb F. induction F as [|f g fa fb H F IH]; cbn [set_apps_args flat_map]; [reflexivity|].
  rewrite (fsim_set_apps_f s f g H). rewrite IH. reflexivity.
Qed.

Lemma fsim_kids_f : forall s f g, fsim s f g -> Forall2 (kid_eq s) (app_occ_f f) (app_occ_f g).
Proof.
  intros s f g H. induction H as [x|p|x f g H IH|p q K]; cbn [app_occ_f]; try constructor; try assumption.
  constructor.
Qed.

Lemma fsim_kids : forall s fa fb, Forall2 (fsim s) fa fb ->
  Forall2 (kid_eq s) (flat_map app_occ_f fa) (flat_map app_occ_f fb).
Proof.
  intros s fa fb F. induction F as [|f g fa fb H F IH]; cbn [flat_map]; [constructor|].
  apply Forall2_app; [exact (fsim_kids_f s f g H)|exact IH].
Qed.

(* Sim arguments have fsim interpretations *)
Lemma SimArg_clk : forall s, nodes_ok s -> forall j js a b, SimArg s j js a b ->
  forall fa, clk_arg s j js a = Some fa -> exists fb, clk_arg s j js b = Some fb /\ fsim s fa fb.
Proof.
  intros s Nk j js a b H. induction H as [j js x|j js p|j js t u HS|j js a b H IH]; intros fa E; cbn [clk_arg] in *.
  - injection E as <-. eexists. split; [reflexivity|constructor].
  - injection E as <-. eexists. split; [reflexivity|constructor].
  - destruct (clk s js t) as [x|] eqn:Et; [|discriminate]. injection E as <-.
    inversion HS as [js' t' u' x' y Et' Eu Ee | js' v a b Ea Eb HA]; subst.
    + rewrite Et in Et'. injection Et' as <-. rewrite Eu. eexists. split; [reflexivity|].
      constructor. split; [exact (clk_covers _ _ _ _ Nk Et)|]. split; [exact (clk_covers _ _ _ _ Nk Eu)|exact Ee].
    + rewrite Et in Ea. discriminate.
  - destruct (clk_arg s j (js ++ [j]) a) as [a'|] eqn:Ea; [|discriminate]. injection E as <-.
    destruct (IH a' eq_refl) as (b' & Eb & F). rewrite Eb. eexists. split; [reflexivity|]. constructor. exact F.
Qed.

Lemma SimArgs_clk : forall s, nodes_ok s -> forall j js l l', SimArgs s j js l l' ->
  forall fa, clk_args s j js l = Some fa -> exists fb, clk_args s j js l' = Some fb /\ Forall2 (fsim s) fa fb.
Proof.
  intros s Nk j js l l' H. induction H as [j js|j js a b l l' HA H IH]; intros fa E; cbn [clk_args] in *.
  - injection E as <-. eexists. split; [reflexivity|constructor].
  - destruct (clk_arg s j js a) as [a'|] eqn:Ea; [|discriminate].
    destruct (clk_args s (S j) js l) as [r|] eqn:El; [|discriminate]. injection E as <-.
    destruct (SimArg_clk s Nk j js a b HA a' Ea) as (b' & Eb & F).
    destruct (IH r eq_refl) as (r' & Er & FR). rewrite Eb, Er.
    eexists. split; [reflexivity|]. constructor; assumption.
Qed.

(* the binders of an interpreted node are pairwise distinct *)
Lemma clk_arg_binders : forall s a j js f, clk_arg s j js a = Some f ->
  NoDup (binders_f f) /\ forall x, In x (binders_f f) -> exists k, (List.length js <= k)%nat /\ x = nm k j.
Proof.
  intros s. induction a as [x|t|a IH|p]; intros j js f E; cbn [clk_arg] in E.
  - injection E as <-. cbn [binders_f]. split; [constructor|]. intros x0 [].
  - destruct (clk s js t); [|discriminate]. injection E as <-. cbn [binders_f]. split; [constructor|]. intros x0 [].
  - destruct (clk_arg s j (js ++ [j]) a) as [a'|] eqn:Ea; [|discriminate]. injection E as <-.
    destruct (IH j (js ++ [j]) a' Ea) as [ND HI]. cbn [binders_f]. split.
    + constructor; [|exact ND]. intros HIn. destruct (HI _ HIn) as (k & Hk & Hx).
      rewrite app_length in Hk. cbn [List.length] in Hk. apply nm_inj in Hx. lia.
    + intros x [<-|HIn].
      * exists (List.length js). split; [lia|reflexivity].
      * destruct (HI _ HIn) as (k & Hk & Hx). rewrite app_length in Hk. cbn [List.length] in Hk.
        exists k. split; [lia|exact Hx].
  - injection E as <-. cbn [binders_f]. split; [constructor|]. intros x0 [].
Qed.

Lemma NoDup_app_mk : forall (A : Type) (l r : list A), NoDup l -> NoDup r ->
  (forall x, In x l -> In x r -> False) -> NoDup (l ++ r).
Proof.
  intros A l r Hl Hr D. induction Hl as [|a l Ha Hl IH]; cbn [app]; [exact Hr|].
  constructor.
  - intros HIn. apply in_app_or in HIn. destruct HIn as [HIn|HIn]; [exact (Ha HIn)|].
    apply (D a); [left; reflexivity|exact HIn].
  - apply IH. intros x Hx Hx'. apply (D x); [right; exact Hx|exact Hx'].
Qed.

Lemma clk_args_binders : forall s l j js fa, clk_args s j js l = Some fa ->
  NoDup (flat_map binders_f fa) /\
  forall x, In x (flat_map binders_f fa) -> exists k j', (j <= j')%nat /\ x = nm k j'.
Proof.
  intros s. induction l as [|a l IH]; intros j js fa E; cbn [clk_args] in E.
  - injection E as <-. cbn [flat_map]. split; [constructor|]. intros x [].
  - destruct (clk_arg s j js a) as [a'|] eqn:Ea; [|discriminate].
    destruct (clk_args s (S j) js l) as [r|] eqn:El; [|discriminate]. injection E as <-.
    destruct (clk_arg_binders s a j js a' Ea) as [ND1 H1].
    destruct (IH (S j) js r El) as [ND2 H2]. cbn [flat_map]. split.
    + apply NoDup_app_mk; [exact ND1|exact ND2|].
      intros x Hx Hx'. destruct (H1 x Hx) as (k & _ & E1). destruct (H2 x Hx') as (k' & j' & Hj & E2).
      rewrite E1 in E2. apply nm_inj in E2. lia.
    + intros x Hx. apply in_app_or in Hx. destruct Hx as [Hx|Hx].
      * destruct (H1 x Hx) as (k & _ & E1). exists k, j. split; [lia|exact E1].
      * destruct (H2 x Hx) as (k' & j' & Hj & E2). exists k', j'. split; [lia|exact E2].
Qed.

(* a found node over Sim arguments: the node over the other arguments is found, by an eg-equal invocation *)
Lemma cong_found : forall s, good s -> forall js v a b x, SimArgs s O js a b ->
  clk s js (CT v a) = Some x -> exists y, clk s js (CT v b) = Some y /\ eg_eq s x y = Ok true.
Proof.
  intros s G js v a b x HA E. destruct (good_parts s G) as (I3 & Hs & Nk & Hh & Pe & SS).
  rewrite clk_CT in E. destruct (clk_args s 0 js a) as [fa|] eqn:Ea; [|discriminate].
  destruct (SimArgs_clk s Nk 0%nat js a b HA fa Ea) as (fb & Eb & F).
  unfold look in E. destruct (eg_lookup s {| nvar := v; nargs := fa |}) as [[x'|]|e] eqn:L; try discriminate.
  injection E as ->.
  assert (ND : NoDup (binders {| nvar := v; nargs := fa |})).
  { unfold binders. cbn [nargs]. exact (proj1 (clk_args_binders s a 0%nat js fa Ea)). }
  assert (K : Forall2 (kid_eq s) (app_occ {| nvar := v; nargs := fa |}) (app_occ {| nvar := v; nargs := fb |})).
  { unfold app_occ. cbn [nargs]. exact (fsim_kids s fa fb F). }
  destruct (lookup_kid_eq s _ _ x G ND K L) as (y & L' & Ee).
  assert (Es : set_apps {| nvar := v; nargs := fa |} (app_occ {| nvar := v; nargs := fb |}) = {| nvar := v; nargs := fb |}).
  { unfold set_apps, app_occ. cbn [nvar nargs]. rewrite (fsim_set_apps_args s fa fb F). reflexivity. }
  rewrite Es in L'. exists y. split; [|exact Ee].
  rewrite clk_CT, Eb. unfold look. rewrite L'. reflexivity.
Qed.

Theorem Sim_cong : forall s, good s -> forall js v a b, SimArgs s O js a b -> Sim s js (CT v a) (CT v b).
Proof.
  intros s G js v a b HA.
  destruct (clk s js (CT v a)) as [x|] eqn:Ea.
  - destruct (cong_found s G js v a b x HA Ea) as (y & Eb & E). exact (Sim_cls s js _ _ x y Ea Eb E).
  - destruct (clk s js (CT v b)) as [y|] eqn:Eb.
    + exfalso. destruct (cong_found s G js v b a y (SimArgs_sym s G _ _ _ _ HA) Eb) as (x & Ea' & _).
      rewrite Ea in Ea'. discriminate.
    + exact (Sim_free s js v a b Ea Eb HA).
Qed.

Print Assumptions Sim_refl.
Print Assumptions SimArg_refl.
Print Assumptions SimArgs_refl.
Print Assumptions Sim_sym.
Print Assumptions SimArg_sym.
Print Assumptions SimArgs_sym.
Print Assumptions Sim_trans.
Print Assumptions SimArg_trans.
Print Assumptions SimArgs_trans.
Print Assumptions Sim_cong.
