(* EGraph/CompleteSlots.v — C11/C12 for the two observables other than equality: the NON-REDUNDANT SLOTS of an inserted term
   (the slots of the canonical invocation of its handle: `find_applied_id s a = Ok a'`, `values (am a')`) and its SYMMETRIES
   (the renamings pi of these slots with `eg_eq s a' (rnv pi a') = Ok true`) are determined by the congruence `Deriv` of the
   asserted equations alone.  Everything is a corollary of CompleteSlotsRen.eq_rnv_iff_deriv.

   For every history over `term_static_user` terms, every handle a with term ta and canonical invocation a':
   - canon_values_names    : the slots of a' are user (non-reserved) names that occur in ta;
   - nonredundant_iff      : x is a slot of a'  <->  NOT Deriv E 0 ta (ta with x swapped with a name z not in ta);
   - slots_order_independent, slots_count_order_independent : two histories whose asserted sets agree up to order,
       repetition and orientation give every term the same slot set (hence the same number of slots);
   - slots_equivariant : under `rren sg` the slot set is the sg-image (same number: CompleteSlotsCount.slots_count_equivariant);
   - sym_iff_deriv         : eg_eq s a' (rnv pi a') = Ok true  <->  Deriv E 0 ta (cren pi ta)   (pi any `sren`);
   - sym_order_independent, sym_count_order_independent, sym_equivariant.
   The count exactly as observed by the harness: CompleteSlotsPerm.v, CompleteSlotsObs.v, CompleteSlotsFinal.v. *)
From SE Require Import Slots.SlotMapFacts Group.GroupSound Lang.LangFacts Lang.ShapeFacts Lang.RenameFacts
  Slots.SlotFacts Base.TextFacts EGraph.Model EGraph.ModelFacts EGraph.ModelMachine EGraph.PendingFacts EGraph.UnionFindFacts
  EGraph.InvariantFacts EGraph.UnionInvariantFacts EGraph.AddCoversFacts EGraph.MonotoneFacts EGraph.HashconsShape
  EGraph.Mod4Facts EGraph.HashconsAbs EGraph.Model9 EGraph.HashconsFacts EGraph.NodeCong EGraph.KidEqFacts EGraph.ShapeCong
  EGraph.CongruenceFacts EGraph.RepFacts EGraph.SoundFacts EGraph.SoundSyn EGraph.OpsPreFacts EGraph.MatchFacts
  EGraph.CompleteDefs EGraph.CompleteNm EGraph.CompleteSim EGraph.CompleteEqRnv EGraph.CompleteRen EGraph.CompleteCanon
  EGraph.CompleteRun EGraph.CompleteMain EGraph.CompleteEquiv EGraph.Complete EGraph.CompleteSlotsRen.
From SE Require Import Sem.Term Sem.Deriv Sem.DerivFacts Explain.CheckerFacts.
Require Import ZArith Lia Permutation.
Local Notation "a ** b" := (compose_partial a b) (at level 40, left associativity).
Local Notation usr := CompleteEquiv.usr.

(* ====================================================================== *)
(* 0. transpositions, fresh names                                           *)
(* ====================================================================== *)

Definition swp (x z u : N) : N := if u =? x then z else if u =? z then x else u.

Lemma sren_swp : forall x z, is_B x = false -> is_B z = false -> sren (swp x z).
Proof.
  intros x z Bx Bz. split; [|split].
  - intros u Hu. unfold swp. destruct (N.eqb_spec u x) as [->|_]; [congruence|].
    destruct (N.eqb_spec u z) as [->|_]; [congruence|reflexivity].
  - intros u Hu. unfold swp. destruct (u =? x); [exact Bz|]. destruct (u =? z); [exact Bx|exact Hu].
  - intros u v _ _. unfold swp.
    destruct (N.eqb_spec u x), (N.eqb_spec u z), (N.eqb_spec v x), (N.eqb_spec v z); subst; intros; congruence.
Qed.

Lemma swp_conj : forall (f : N -> N) x z u, (forall p q, f p = f q -> p = q) -> swp (f x) (f z) (f u) = f (swp x z u).
Proof.
  intros f x z u Inj. unfold swp.
  destruct (N.eqb_spec u x) as [->|Nx]; [rewrite N.eqb_refl; reflexivity|].
  destruct (N.eqb_spec (f u) (f x)) as [E|_]; [apply Inj in E; contradiction|].
  destruct (N.eqb_spec u z) as [->|Nz]; [rewrite N.eqb_refl; reflexivity|].
  destruct (N.eqb_spec (f u) (f z)) as [E|_]; [apply Inj in E; contradiction|reflexivity].
Qed.

Definition fresh_name (x : N) (ns : list N) : N := 4 * (bnd (x :: ns) + 1).

Lemma fresh_name_spec : forall x ns, is_B (fresh_name x ns) = false /\ ~ In (fresh_name x ns) ns /\ fresh_name x ns <> x.
Proof.
  intros x ns. unfold fresh_name. split; [|split].
  - unfold is_B. rewrite N.mul_comm, N.mod_mul by lia. reflexivity.
  - intros H. pose proof (bnd_ge (x :: ns) _ (or_intror H)). lia.
  - intros H. pose proof (bnd_ge (x :: ns) x (or_introl eq_refl)). lia.
Qed.

Lemma values_in : forall m v, In v (values m) <-> In v (values_vec m).
Proof. intros m v. exact (proj2 (sset_of_list_spec (values_vec m)) v). Qed.

Lemma values_swf : forall m, swf (values m).
Proof. intros m. exact (proj1 (sset_of_list_spec (values_vec m))). Qed.

Lemma nth_map_some : forall {A C} (f : A -> C) l i x, nth_opt l i = Some x -> nth_opt (map f l) i = Some (f x).
Proof.
  intros A C f. induction l as [|y l IH]; intros [|i] x H; cbn [map nth_opt] in *; try discriminate.
  - inversion H. reflexivity.
  - apply IH. exact H.
Qed.

(* ====================================================================== *)
(* 1. the slots of a canonical invocation                                   *)
(* ====================================================================== *)

Lemma canon_values_sub : forall s a a' v, uf_ok s -> find_applied_id s a = Ok a' ->
  In v (values_vec (am a')) -> In v (values_vec (am a)).
Proof.
  intros s a a' v U H Hv. unfold find_applied_id in H.
  destruct (unionfind_get s (aid a)) as [p|] eqn:Hp; cbn [bind] in H; [|discriminate]. inversion H; subst a'. cbn [am] in Hv.
  unfold values_vec in Hv. apply in_map_iff in Hv. destruct Hv as ([k v'] & <- & Hin). cbn [snd].
  apply (in_get _ _ _ (compose_partial_wf _ _)) in Hin.
  rewrite get_compose_partial in Hin by exact (unionfind_get_wf s (aid a) p U Hp).
  destruct (get (am p) k) as [y|]; [|discriminate]. exact (get_values_vec _ _ _ Hin).
Qed.

(* the slots of the canonical invocation of a represented term are user names of the term *)
Lemma rep_values_names : forall s t a a' v, RepFacts.good s -> term_static_user t -> rep s t a ->
  find_applied_id s a = Ok a' -> In v (values (am a')) -> is_B v = false /\ In v (cnames (canon0 t)).
Proof.
  intros s t a a' v G St (Ca & x & Lx & Ex) Fa Hv. destruct (good_parts s G) as (I3 & Hs & _). pose proof (ei_uf _ Hs) as U.
  destruct (clk_sren s (fun z => z) t x G sren_id St Lx) as (_ & _ & _ & V).
  destruct (eg_eq_true_inv s x a Ex) as (x' & a'' & c & Fx & Fa' & _ & EV & _). rewrite Fa in Fa'. inversion Fa'; subst a''.
  rewrite <- EV in Hv. apply values_in in Hv. apply V. exact (canon_values_sub s x x' v U Fx Hv).
Qed.

Lemma swp_canon_true : forall s a' x z, eg_inv s -> covers s a' ->
  ~ In x (values (am a')) -> ~ In z (values (am a')) -> eg_eq s a' (rnv (swp x z) a') = Ok true.
Proof.
  intros s a' x z Hs Ca Nx Nz.
  assert (E : rnv (swp x z) a' = a').
  { destruct a' as [i m]. unfold rnv. cbn [aid am] in *. f_equal. rewrite <- (map_id m) at 2. apply map_ext_in.
    intros [k v] Hin. cbn [fst snd]. f_equal.
    assert (Hv : In v (values m)). { apply values_in. unfold values_vec. apply in_map_iff. exists (k, v). split; [reflexivity|exact Hin]. }
    unfold swp. destruct (N.eqb_spec v x) as [->|_]; [contradiction|]. destruct (N.eqb_spec v z) as [->|_]; [contradiction|reflexivity]. }
  rewrite E. exact (eg_eq_refl_inv s a' (ei_uf _ Hs) (ei_slots _ Hs) Ca).
Qed.

Lemma swp_canon_false : forall s a0 a' x z, uf_ok s -> find_applied_id s a0 = Ok a' ->
  In x (values (am a')) -> ~ In z (values (am a')) -> eg_eq s a' (rnv (swp x z) a') <> Ok true.
Proof.
  intros s a0 a' x z U Fa Hx Nz H. pose proof (find_idempotent s a0 a' U Fa) as Fi.
  destruct (eg_eq_true_inv s _ _ H) as (p & q & c & Fp & Fq & _ & EV & _).
  rewrite Fi in Fp. inversion Fp; subst p. rewrite (find_rnv s (swp x z) a' a' U Fi) in Fq. inversion Fq; subst q.
  apply Nz. rewrite EV. apply values_in. apply values_in in Hx.
  unfold values_vec in *. apply in_map_iff in Hx. destruct Hx as ([k v] & Ev & Hin). cbn [snd] in Ev. subst v.
  unfold rnv. cbn [am]. apply in_map_iff. exists (k, swp x z x). split.
  - cbn [snd]. unfold swp. rewrite N.eqb_refl. reflexivity.
  - apply in_map_iff. exists (k, x). split; [reflexivity|exact Hin].
Qed.

(* ====================================================================== *)
(* 2. non-redundant slots                                                   *)
(* ====================================================================== *)

Section OneRun.
  Variables (terms : list rterm) (ops : list hop) (hs : list appid) (s : egraph).
  Hypothesis HT : Forall term_static_user terms.
  Hypothesis HR : run_ops terms ops [] empty_egraph = Ok (hs, s).
  Variables (i : nat) (a a' : appid) (ta : cterm).
  Hypothesis Ha : nth_opt hs i = Some a.
  Hypothesis Hta : nth_opt (handle_cterms terms ops) i = Some ta.
  Hypothesis Fa : find_applied_id s a = Ok a'.

  Lemma run_canon : uf_ok s /\ eg_inv s /\ inv3 s /\ covers s a /\ covers s a' /\ find_applied_id s a' = Ok a'.
  Proof.
    destruct (run_facts terms ops hs s HT HR) as (G & I & _ & _ & _ & HH).
    destruct (HH i a ta Ha Hta) as (Ca & _). destruct (good_parts s G) as (_ & Hs & _). pose proof (ei_uf _ Hs) as U.
    destruct (covers_find_ok s a U (ei_slots _ Hs) Ca) as (a'' & Fa' & Na). rewrite Fa in Fa'. inversion Fa'; subst a''.
    split; [exact U|]. split; [exact Hs|]. split; [exact I|]. split; [exact Ca|]. split; [exact (canon_covers s a' Na)|].
    exact (find_idempotent s a a' U Fa).
  Qed.

  Theorem canon_values_names : forall v, In v (values (am a')) -> is_B v = false /\ In v (cnames ta).
  Proof.
    intros v Hv. destruct (run_facts terms ops hs s HT HR) as (G & _ & _ & _ & _ & HH).
    destruct (HH i a ta Ha Hta) as (_ & _ & t & _ & St & -> & Rt). exact (rep_values_names s t a a' v G St Rt Fa Hv).
  Qed.

  (* the symmetries: a renaming of the slots of the canonical invocation gives an equal invocation iff the renamed term is
     congruent to the term *)
  Theorem sym_iff_deriv : forall pi, sren pi ->
    (eg_eq s a' (rnv pi a') = Ok true <-> Deriv (asserted terms ops) 0 ta (cren pi ta)).
  Proof.
    intros pi Rp. destruct run_canon as (U & _).
    pose proof (eq_rnv_iff_deriv terms ops hs s i i a a ta ta (fun z => z) pi HT HR Ha Ha Hta Hta sren_id Rp) as Q.
    rewrite (eg_eq_rnv_find s (fun z => z) pi a a a' a' U Fa Fa) in Q. rewrite rnv_id in Q.
    rewrite (cren_id ta (fun z => z)) in Q by reflexivity. exact Q.
  Qed.

  Theorem sym_total : forall pi, sren pi -> exists x, eg_eq s a' (rnv pi a') = Ok x.
  Proof.
    intros pi Rp. destruct run_canon as (_ & _ & I & _ & Ca' & _).
    destruct (eg_eq_rnv_total s a' a' (fun z => z) pi I Ca' Ca' sren_id Rp) as [x Hx]. rewrite rnv_id in Hx. exists x. exact Hx.
  Qed.

  (* x is a slot of the canonical invocation iff the term is NOT congruent to its variant with x replaced by a name that does
     not occur in it *)
  Theorem nonredundant_iff : forall x z, is_B x = false -> is_B z = false -> ~ In z (cnames ta) -> z <> x ->
    (In x (values (am a')) <-> ~ Deriv (asserted terms ops) 0 ta (cren (swp x z) ta)).
  Proof.
    intros x z Bx Bz Nz Nzx. destruct run_canon as (U & Hs & _ & _ & Ca' & _).
    pose proof (sym_iff_deriv (swp x z) (sren_swp x z Bx Bz)) as Q.
    assert (Nz' : ~ In z (values (am a'))) by (intros H; apply Nz; exact (proj2 (canon_values_names z H))).
    split.
    - intros Hx D. apply Q in D. exact (swp_canon_false s a a' x z U Fa Hx Nz' D).
    - intros ND. destruct (in_dec N.eq_dec x (values (am a'))) as [Hx|Nx]; [exact Hx|exfalso].
      apply ND. apply Q. exact (swp_canon_true s a' x z Hs Ca' Nx Nz').
  Qed.
End OneRun.

(* ORDER INDEPENDENCE of the slot sets and of the symmetries *)
Section TwoRuns.
  Variables (terms1 : list rterm) (ops1 : list hop) (hs1 : list appid) (s1 : egraph).
  Variables (terms2 : list rterm) (ops2 : list hop) (hs2 : list appid) (s2 : egraph).
  Hypothesis HT1 : Forall term_static_user terms1.
  Hypothesis HT2 : Forall term_static_user terms2.
  Hypothesis HR1 : run_ops terms1 ops1 [] empty_egraph = Ok (hs1, s1).
  Hypothesis HR2 : run_ops terms2 ops2 [] empty_egraph = Ok (hs2, s2).
  Hypothesis E12 : forall l r, In (l, r) (asserted terms1 ops1) -> In (l, r) (asserted terms2 ops2) \/ In (r, l) (asserted terms2 ops2).
  Hypothesis E21 : forall l r, In (l, r) (asserted terms2 ops2) -> In (l, r) (asserted terms1 ops1) \/ In (r, l) (asserted terms1 ops1).
  Variables (i i' : nat) (a1 a1' a2 a2' : appid) (ta : cterm).
  Hypothesis Ha1 : nth_opt hs1 i = Some a1.
  Hypothesis Ht1 : nth_opt (handle_cterms terms1 ops1) i = Some ta.
  Hypothesis Fa1 : find_applied_id s1 a1 = Ok a1'.
  Hypothesis Ha2 : nth_opt hs2 i' = Some a2.
  Hypothesis Ht2 : nth_opt (handle_cterms terms2 ops2) i' = Some ta.
  Hypothesis Fa2 : find_applied_id s2 a2 = Ok a2'.

  Theorem slots_order_independent : values (am a1') = values (am a2').
  Proof.
    assert (K : forall tA oA hA sA tB oB hB sB iA iB aA aA' aB aB',
      Forall term_static_user tA -> Forall term_static_user tB ->
      run_ops tA oA [] empty_egraph = Ok (hA, sA) -> run_ops tB oB [] empty_egraph = Ok (hB, sB) ->
      (forall l r, In (l, r) (asserted tB oB) -> In (l, r) (asserted tA oA) \/ In (r, l) (asserted tA oA)) ->
      nth_opt hA iA = Some aA -> nth_opt (handle_cterms tA oA) iA = Some ta -> find_applied_id sA aA = Ok aA' ->
      nth_opt hB iB = Some aB -> nth_opt (handle_cterms tB oB) iB = Some ta -> find_applied_id sB aB = Ok aB' ->
      forall x, In x (values (am aA')) -> In x (values (am aB'))).
    { intros tA oA hA sA tB oB hB sB iA iB aA aA' aB aB' TA TB RA RB EBA HA HtA FA HB HtB FB x Hx.
      destruct (canon_values_names tA oA hA sA TA RA iA aA aA' ta HA HtA FA x Hx) as [Bx _].
      destruct (fresh_name_spec x (cnames ta)) as (Bz & Nz & Nzx). set (z := fresh_name x (cnames ta)) in *.
      apply (nonredundant_iff tB oB hB sB TB RB iB aB aB' ta HB HtB FB x z Bx Bz Nz Nzx). intros D.
      apply (proj1 (nonredundant_iff tA oA hA sA TA RA iA aA aA' ta HA HtA FA x z Bx Bz Nz Nzx) Hx).
      exact (Deriv_order_orientation _ _ _ _ _ EBA D). }
    apply sset_ext; [apply values_swf|apply values_swf|]. intros x. split.
    - exact (K terms1 ops1 hs1 s1 terms2 ops2 hs2 s2 i i' a1 a1' a2 a2' HT1 HT2 HR1 HR2 E21 Ha1 Ht1 Fa1 Ha2 Ht2 Fa2 x).
    - exact (K terms2 ops2 hs2 s2 terms1 ops1 hs1 s1 i' i a2 a2' a1 a1' HT2 HT1 HR2 HR1 E12 Ha2 Ht2 Fa2 Ha1 Ht1 Fa1 x).
  Qed.

  Corollary slots_count_order_independent : List.length (values (am a1')) = List.length (values (am a2')).
  Proof. rewrite slots_order_independent. reflexivity. Qed.

  Theorem sym_order_independent : forall pi, sren pi -> eg_eq s1 a1' (rnv pi a1') = eg_eq s2 a2' (rnv pi a2').
  Proof.
    intros pi Rp.
    pose proof (sym_iff_deriv terms1 ops1 hs1 s1 HT1 HR1 i a1 a1' ta Ha1 Ht1 Fa1 pi Rp) as Q1.
    pose proof (sym_iff_deriv terms2 ops2 hs2 s2 HT2 HR2 i' a2 a2' ta Ha2 Ht2 Fa2 pi Rp) as Q2.
    assert (Q : eg_eq s1 a1' (rnv pi a1') = Ok true <-> eg_eq s2 a2' (rnv pi a2') = Ok true).
    { rewrite Q1, Q2. split; apply Deriv_order_orientation; assumption. }
    destruct (sym_total terms1 ops1 hs1 s1 HT1 HR1 i a1 a1' ta Ha1 Ht1 Fa1 pi Rp) as [x Hx].
    destruct (sym_total terms2 ops2 hs2 s2 HT2 HR2 i' a2 a2' ta Ha2 Ht2 Fa2 pi Rp) as [y Hy].
    rewrite Hx, Hy in *. destruct x, y; try reflexivity.
    - destruct Q as [Q _]. specialize (Q eq_refl). discriminate.
    - destruct Q as [_ Q]. specialize (Q eq_refl). discriminate.
  Qed.
End TwoRuns.

Definition is_true_res (r : res bool) : bool := match r with Ok true => true | _ => false end.

(* the number of symmetries among ANY list of candidate slot renamings (e.g. all permutations of the common slot set) *)
Corollary sym_count_order_independent : forall terms1 ops1 hs1 s1 terms2 ops2 hs2 s2 i i' a1 a1' a2 a2' ta P,
  Forall term_static_user terms1 -> Forall term_static_user terms2 ->
  run_ops terms1 ops1 [] empty_egraph = Ok (hs1, s1) -> run_ops terms2 ops2 [] empty_egraph = Ok (hs2, s2) ->
  (forall l r, In (l, r) (asserted terms1 ops1) -> In (l, r) (asserted terms2 ops2) \/ In (r, l) (asserted terms2 ops2)) ->
  (forall l r, In (l, r) (asserted terms2 ops2) -> In (l, r) (asserted terms1 ops1) \/ In (r, l) (asserted terms1 ops1)) ->
  nth_opt hs1 i = Some a1 -> nth_opt (handle_cterms terms1 ops1) i = Some ta -> find_applied_id s1 a1 = Ok a1' ->
  nth_opt hs2 i' = Some a2 -> nth_opt (handle_cterms terms2 ops2) i' = Some ta -> find_applied_id s2 a2 = Ok a2' ->
  Forall sren P ->
  List.length (filter (fun pi => is_true_res (eg_eq s1 a1' (rnv pi a1'))) P) =
  List.length (filter (fun pi => is_true_res (eg_eq s2 a2' (rnv pi a2'))) P).
Proof.
  intros terms1 ops1 hs1 s1 terms2 ops2 hs2 s2 i i' a1 a1' a2 a2' ta P HT1 HT2 HR1 HR2 E12 E21 Ha1 Ht1 Fa1 Ha2 Ht2 Fa2 FP.
  f_equal. apply filter_ext_in. intros pi Hpi. f_equal.
  apply (sym_order_independent terms1 ops1 hs1 s1 terms2 ops2 hs2 s2 HT1 HT2 HR1 HR2 E12 E21 i i' a1 a1' a2 a2' ta
           Ha1 Ht1 Fa1 Ha2 Ht2 Fa2 pi). exact (proj1 (Forall_forall _ _) FP pi Hpi).
Qed.

(* ====================================================================== *)
(* 3. equivariance                                                          *)
(* ====================================================================== *)

Lemma sren_usr : forall sg, nonB_ren sg -> sren (usr sg).
Proof.
  intros sg (NB & Inj & _). split; [|split].
  - intros x Hx. unfold usr. rewrite Hx. reflexivity.
  - intros x Hx. unfold usr. rewrite Hx. apply NB. exact Hx.
  - intros x y Hx Hy. unfold usr. rewrite Hx, Hy. apply Inj; assumption.
Qed.

Lemma usr_inv : forall sg tau, nonB_ren sg -> (forall x, tau (sg x) = x) -> forall x, usr tau (usr sg x) = x.
Proof.
  intros sg tau (NB & _) TI x. unfold usr at 2. destruct (is_B x) eqn:E.
  - unfold usr. rewrite E. reflexivity.
  - unfold usr. rewrite (NB x E). apply TI.
Qed.

Lemma Deriv_sren_iff : forall sigma tau E d t u, sren sigma -> sren tau -> (forall x, tau (sigma x) = x) ->
  (Deriv (ren_eqs sigma E) d (cren sigma t) (cren sigma u) <-> Deriv E d t u).
Proof.
  intros sigma tau E d t u (F1 & U1 & I1) (F2 & U2 & I2) TI. split.
  - intros D. pose proof (Deriv_equivariant tau _ d _ _ U2 I2 F2 D) as D'.
    assert (EE : ren_eqs tau (ren_eqs sigma E) = E).
    { unfold ren_eqs. rewrite map_map. rewrite <- (map_id E) at 2. apply map_ext. intros [l r]. cbn [fst snd].
      rewrite !cren_cren. rewrite !cren_id by (intros; apply TI). reflexivity. }
    rewrite EE in D'. rewrite !cren_cren in D'. rewrite !cren_id in D' by (intros; apply TI). exact D'.
  - intros D. exact (Deriv_equivariant sigma E d t u U1 I1 F1 D).
Qed.

Section Equivariance.
  Variables (sg tau : N -> N) (terms : list rterm) (ops : list hop) (hs hs' : list appid) (s s' : egraph).
  Hypothesis NR : nonB_ren sg.
  Hypothesis NT : nonB_ren tau.
  Hypothesis TI : forall x, tau (sg x) = x.
  Hypothesis HT : Forall term_static_user terms.
  Hypothesis HR : run_ops terms ops [] empty_egraph = Ok (hs, s).
  Hypothesis HR' : run_ops (map (rren sg) terms) ops [] empty_egraph = Ok (hs', s').
  Variables (i : nat) (a a' b b' : appid) (ta : cterm).
  Hypothesis Ha : nth_opt hs i = Some a.
  Hypothesis Hta : nth_opt (handle_cterms terms ops) i = Some ta.
  Hypothesis Fa : find_applied_id s a = Ok a'.
  Hypothesis Hb : nth_opt hs' i = Some b.
  Hypothesis Fb : find_applied_id s' b = Ok b'.

  Let sigma := usr sg.

  Lemma equiv_setup : sren sigma /\ sren (usr tau) /\ (forall x, usr tau (sigma x) = x) /\
    Forall term_static_user (map (rren sg) terms) /\
    nth_opt (handle_cterms (map (rren sg) terms) ops) i = Some (cren sigma ta) /\
    asserted (map (rren sg) terms) ops = ren_eqs sigma (asserted terms ops).
  Proof.
    pose proof (nonB_user_ren sg NR) as UR.
    assert (TO : Forall rt_ok terms) by (revert HT; apply Forall_impl; intros t [_ O]; exact O).
    destruct (ghost_rren sg terms ops UR TO) as [G1 G2].
    split; [exact (sren_usr sg NR)|]. split; [exact (sren_usr tau NT)|]. split; [exact (usr_inv sg tau NR TI)|].
    split; [exact (static_rren_all sg terms UR HT)|]. split; [|exact G2].
    rewrite G1. apply nth_map_some. exact Hta.
  Qed.

  Lemma slots_equiv_key : forall x, is_B x = false -> (In (sigma x) (values (am b')) <-> In x (values (am a'))).
  Proof.
    intros x Bx. destruct equiv_setup as (Rs & Rt & Inv & HT' & Htb & EE).
    destruct (fresh_name_spec x (cnames ta)) as (Bz & Nz & Nzx). set (z := fresh_name x (cnames ta)) in *.
    pose proof (sren_inj sigma Rs) as Inj.
    assert (Bsx : is_B (sigma x) = false) by (rewrite (sren_isB sigma Rs); exact Bx).
    assert (Bsz : is_B (sigma z) = false) by (rewrite (sren_isB sigma Rs); exact Bz).
    assert (Nsz : ~ In (sigma z) (cnames (cren sigma ta))).
    { rewrite cnames_cren. intros H. apply in_map_iff in H. destruct H as (u & Eu & Hu). apply Inj in Eu. subst u. exact (Nz Hu). }
    assert (Nszx : sigma z <> sigma x) by (intros H; apply Inj in H; exact (Nzx H)).
    rewrite (nonredundant_iff terms ops hs s HT HR i a a' ta Ha Hta Fa x z Bx Bz Nz Nzx).
    rewrite (nonredundant_iff _ ops hs' s' HT' HR' i b b' (cren sigma ta) Hb Htb Fb (sigma x) (sigma z) Bsx Bsz Nsz Nszx).
    assert (EC : cren (swp (sigma x) (sigma z)) (cren sigma ta) = cren sigma (cren (swp x z) ta)).
    { rewrite !cren_cren. apply cren_ext. intros u _. apply swp_conj. exact Inj. }
    rewrite EC, EE. rewrite (Deriv_sren_iff sigma (usr tau) _ 0 ta (cren (swp x z) ta) Rs Rt Inv). reflexivity.
  Qed.

  (* the slot set of the renamed run is the image of the slot set *)
  Theorem slots_equivariant : forall y, In y (values (am b')) <-> exists x, In x (values (am a')) /\ y = sg x.
  Proof.
    intros y. destruct equiv_setup as (Rs & Rt & Inv & HT' & Htb & EE). split.
    - intros Hy. destruct (canon_values_names _ ops hs' s' HT' HR' i b b' (cren sigma ta) Hb Htb Fb y Hy) as [By Iy].
      rewrite cnames_cren in Iy. apply in_map_iff in Iy. destruct Iy as (x & <- & _).
      assert (Bx : is_B x = false) by (rewrite <- (sren_isB sigma Rs); exact By).
      exists x. split; [apply (slots_equiv_key x Bx); exact Hy|]. unfold sigma, usr. rewrite Bx. reflexivity.
    - intros (x & Hx & ->). destruct (canon_values_names terms ops hs s HT HR i a a' ta Ha Hta Fa x Hx) as [Bx _].
      replace (sg x) with (sigma x) by (unfold sigma, usr; rewrite Bx; reflexivity). apply (slots_equiv_key x Bx). exact Hx.
  Qed.

  (* the symmetries of the renamed run are the conjugates *)
  Theorem sym_equivariant : forall pi pi', sren pi -> sren pi' -> (forall u, pi' (sigma u) = sigma (pi u)) ->
    eg_eq s a' (rnv pi a') = eg_eq s' b' (rnv pi' b').
  Proof.
    intros pi pi' Rp Rp' Cj. destruct equiv_setup as (Rs & Rt & Inv & HT' & Htb & EE).
    pose proof (sym_iff_deriv terms ops hs s HT HR i a a' ta Ha Hta Fa pi Rp) as Q1.
    pose proof (sym_iff_deriv _ ops hs' s' HT' HR' i b b' (cren sigma ta) Hb Htb Fb pi' Rp') as Q2.
    assert (EC : cren pi' (cren sigma ta) = cren sigma (cren pi ta)).
    { rewrite !cren_cren. apply cren_ext. intros u _. apply Cj. }
    rewrite EC, EE in Q2. rewrite (Deriv_sren_iff sigma (usr tau) _ 0 ta (cren pi ta) Rs Rt Inv) in Q2.
    assert (Q : eg_eq s a' (rnv pi a') = Ok true <-> eg_eq s' b' (rnv pi' b') = Ok true) by (rewrite Q1, Q2; reflexivity).
    destruct (sym_total terms ops hs s HT HR i a a' ta Ha Hta Fa pi Rp) as [x Hx].
    destruct (sym_total _ ops hs' s' HT' HR' i b b' (cren sigma ta) Hb Htb Fb pi' Rp') as [y Hy].
    rewrite Hx, Hy in *. destruct x, y; try reflexivity.
    - destruct Q as [Q _]. specialize (Q eq_refl). discriminate.
    - destruct Q as [_ Q]. specialize (Q eq_refl). discriminate.
  Qed.
End Equivariance.

Print Assumptions canon_values_names.
Print Assumptions nonredundant_iff.
Print Assumptions slots_order_independent.
Print Assumptions slots_count_order_independent.
Print Assumptions sym_iff_deriv.
Print Assumptions sym_order_independent.
Print Assumptions sym_count_order_independent.
Print Assumptions slots_equivariant.
Print Assumptions sym_equivariant.
