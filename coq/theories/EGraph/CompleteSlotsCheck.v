(* EGraph/CompleteSlotsCheck.v — executable validation (vm_compute) of the statements of CompleteSlots.v on the histories of
   CompleteCheck.v / CongruenceFacts.v (redundant slots and symmetric classes occur there), and a counterexample for a false
   formulation.
   - slots_eg_checked   : x is a slot of the canonical invocation  <->  the handle is NOT eg-equal to its variant with x swapped
                          with a name that does not occur (e-graph side of nonredundant_iff), all 16 histories;
   - slots_gcc_checked  : the same against the bounded closure `gcc` (sound for Deriv) on (ta, swapped ta), 6 histories;
   - sym_gcc_checked    : for every handle and every permutation pi of its canonical slots (the harness enumeration):
                          eg_eq a' (a' permuted by pi)  =  closure verdict on (ta, cren pi ta); plus the totals, to show that
                          redundant slots and non-trivial symmetries do occur;
   - order_checked      : two histories with the same asserted set (other order, orientation, repetition, other insertion
                          order): same slot set and same symmetry count for every term. *)
From SE Require Import Slots.SlotMapFacts Lang.LangFacts Lang.RenameFacts
  EGraph.Model EGraph.ModelFacts EGraph.ModelMachine EGraph.Model9 EGraph.AddCoversFacts EGraph.Mod4Facts EGraph.CongruenceFacts
  EGraph.RepFacts EGraph.SoundFacts EGraph.OpsPreFacts EGraph.CompleteDefs EGraph.CompleteCheck EGraph.CompleteSlotsRen EGraph.CompleteSlots.
From SE Require Import Sem.Term Sem.Deriv Sem.Closure Sem.EgMachine Explain.CheckerFacts.
Require Import ZArith Lia.

Definition flag (r : res bool) : bool := match r with Ok true => true | _ => false end.
Definition userb (x : N) : bool := negb (is_B x).
Definition pfun (vals p : list N) (v : N) : N := match get (combine vals p) v with Some y => y | None => v end.

(* (ok, number of (handle, name) pairs checked, number of redundant ones among them) *)
Definition slots_eg (p : list rterm * list hop) : bool * nat * nat :=
  match run_ops (fst p) (snd p) [] empty_egraph with
  | Ok (hs, s) =>
      let hts := handle_cterms (fst p) (snd p) in
      let rows := flat_map (fun q : appid * cterm =>
        match find_applied_id s (fst q) with
        | Ok f => map (fun x => let z := fresh_name x (cnames (snd q)) in
                         (sset_mem x (values (am f)), flag (eg_eq s (fst q) (rnv (swp x z) (fst q)))))
                      (filter userb (4 :: cnames (snd q)))
        | Err _ => [(true, true)]
        end) (combine hs hts) in
      (forallb (fun r => Bool.eqb (fst r) (negb (snd r))) rows, List.length rows, List.length (filter (fun r => negb (fst r)) rows))
  | Err _ => (false, O, O)
  end.

Example slots_eg_checked : map slots_eg chk_hists =
  map (fun p => (true, snd (fst (slots_eg p)), snd (slots_eg p))) chk_hists /\
  fold_right Nat.add O (map (fun p => snd (slots_eg p)) chk_hists) <> O.
Proof. vm_compute. split; [reflexivity|discriminate]. Qed.

Definition slots_gcc (p : list rterm * list hop) : bool * nat * nat :=
  match run_ops (fst p) (snd p) [] empty_egraph with
  | Ok (hs, s) =>
      let hts := handle_cterms (fst p) (snd p) in
      let E := asserted (fst p) (snd p) in
      let maxd := fold_left Nat.max (map binder_depth hts) O in
      let z := fresh_name 0 (flat_map cnames hts) in
      let pool := z :: history_pool hts 2 in
      let rows := flat_map (fun q : appid * cterm =>
        match find_applied_id s (fst q) with
        | Ok f => map (fun x => (sset_mem x (values (am f)), gcc pool maxd 6 E hts (snd q) (cren (swp x z) (snd q))))
                      (dedupN (filter userb (cnames (snd q))))
        | Err _ => [(true, true)]
        end) (combine hs hts) in
      (forallb (fun r => Bool.eqb (fst r) (negb (snd r))) rows, List.length rows, List.length (filter (fun r => negb (fst r)) rows))
  | Err _ => (false, O, O)
  end.

Definition gcc_hists := [(xT1, xO1); (xT2, xO2); (xT4, xO4); (yT, yO)].

Example slots_gcc_checked : map (fun p => fst (fst (slots_gcc p))) gcc_hists = [true; true; true; true] /\
  fold_right Nat.add O (map (fun p => snd (slots_gcc p)) gcc_hists) <> O.
Proof. vm_compute. split; [reflexivity|discriminate]. Qed.

(* symmetries: (ok, number of (handle, permutation) pairs, number of accepted NON-identity permutations) *)
Definition sym_gcc (p : list rterm * list hop) : bool * nat * nat :=
  match run_ops (fst p) (snd p) [] empty_egraph with
  | Ok (hs, s) =>
      let hts := handle_cterms (fst p) (snd p) in
      let E := asserted (fst p) (snd p) in
      let maxd := fold_left Nat.max (map binder_depth hts) O in
      let pool := history_pool hts 2 in
      let rows := flat_map (fun q : appid * cterm =>
        match find_applied_id s (fst q) with
        | Ok f => let vals := values_vec (am f) in
                  map (fun pm => (flag (eg_eq s f {| aid := aid f; am := from_iter (combine (keys_vec (am f)) pm) |}),
                                  flag (eg_eq s f (rnv (pfun vals pm) f)),
                                  gcc pool maxd 6 E hts (snd q) (cren (pfun vals pm) (snd q)),
                                  negb (forallb (fun v => pfun vals pm v =? v) vals)))
                      (perms_of_vals vals)
        | Err _ => [(true, false, false, false)]
        end) (combine hs hts) in
      (forallb (fun r => match r with (a, b, c, _) => Bool.eqb a b && Bool.eqb b c end) rows, List.length rows,
       List.length (filter (fun r => match r with (a, _, _, d) => a && d end) rows))
  | Err _ => (false, O, O)
  end.

Example sym_gcc_checked : map (fun p => fst (fst (sym_gcc p))) gcc_hists = [true; true; true; true] /\
  fold_right Nat.add O (map (fun p => snd (sym_gcc p)) gcc_hists) <> O.
Proof. vm_compute. split; [reflexivity|discriminate]. Qed.

(* order independence on a concrete pair: per TERM the slot set and the symmetry count *)
Definition per_term (p : list rterm * list hop) : list (cterm * (list N * nat)) :=
  match run_ops (fst p) (snd p) [] empty_egraph with
  | Ok (hs, s) =>
      map (fun q : appid * cterm =>
        match find_applied_id s (fst q) with
        | Ok f => (snd q, (values (am f),
                   List.length (filter (fun pm => flag (eg_eq s f {| aid := aid f; am := from_iter (combine (keys_vec (am f)) pm) |}))
                                       (perms_of_vals (values_vec (am f))))))
        | Err _ => (snd q, ([], O))
        end) (combine hs (handle_cterms (fst p) (snd p)))
  | Err _ => []
  end.

Definition lookup_term (t : cterm) (l : list (cterm * (list N * nat))) : option (list N * nat) :=
  match filter (fun r => cterm_eqb t (fst r)) l with r :: _ => Some (snd r) | [] => None end.

(* yO: inserts 0..11, f(2,6) = f(6,2), inserts, lam = lam, inserts.  yO': inserts in reverse order, the unions first in the other
   order and orientation, one of them twice *)
Definition yO' := map HAdd (rev (seq 0 12)) ++ [xU 1 2; xU 4 5; xU 2 1].
Definition xO1' := [HAdd 5; HAdd 4; HAdd 3; HAdd 2; HAdd 1; HAdd 0; xU 0 1; xU 3 2; xU 4 5; xU 2 3]%nat.

Definition same_set (E E' : equations) : bool :=
  forallb (fun e => existsb (fun e' => (cterm_eqb (fst e) (fst e') && cterm_eqb (snd e) (snd e')) ||
                                        (cterm_eqb (fst e) (snd e') && cterm_eqb (snd e) (fst e'))) E') E.

Definition order_chk (T : list rterm) (O1 O2 : list hop) : bool :=
  same_set (asserted T O1) (asserted T O2) && same_set (asserted T O2) (asserted T O1) &&
  let r1 := per_term (T, O1) in let r2 := per_term (T, O2) in
  negb (Nat.eqb (List.length r1) 0) &&
  forallb (fun r => match lookup_term (fst r) r2 with
                    | Some (sl, c) => (List.length sl =? List.length (fst (snd r)))%nat &&
                                      forallb (fun x => sset_mem x (fst (snd r))) sl && (c =? snd (snd r))%nat
                    | None => false end) r1.

Example order_checked : order_chk yT yO yO' = true /\ order_chk xT1 xO1 xO1' = true.
Proof. vm_compute. split; reflexivity. Qed.

Print Assumptions slots_eg_checked.
Print Assumptions slots_gcc_checked.
Print Assumptions sym_gcc_checked.
Print Assumptions order_checked.
