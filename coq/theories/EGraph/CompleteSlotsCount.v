(* EGraph/CompleteSlotsCount.v — the NUMBER of non-redundant slots of an inserted term is equivariant: under `rren sg` the
   canonical invocation of the renamed run has as many slots as that of the original run.  Corollary of
   CompleteSlots.slots_equivariant (the slot set is the sg-image), CompleteSlots.canon_values_names (slots are non-B names)
   and the injectivity of sg on non-B names (nonB_ren). *)
From SE Require Import Slots.SlotMapFacts Group.GroupSound Lang.LangFacts Lang.ShapeFacts Lang.RenameFacts
  Slots.SlotFacts Base.TextFacts EGraph.Model EGraph.ModelFacts EGraph.ModelMachine EGraph.PendingFacts EGraph.UnionFindFacts
  EGraph.InvariantFacts EGraph.UnionInvariantFacts EGraph.AddCoversFacts EGraph.MonotoneFacts EGraph.HashconsShape
  EGraph.Mod4Facts EGraph.HashconsAbs EGraph.Model9 EGraph.HashconsFacts EGraph.NodeCong EGraph.KidEqFacts EGraph.ShapeCong
  EGraph.CongruenceFacts EGraph.RepFacts EGraph.SoundFacts EGraph.SoundSyn EGraph.OpsPreFacts EGraph.MatchFacts
  EGraph.CompleteDefs EGraph.CompleteNm EGraph.CompleteSim EGraph.CompleteEqRnv EGraph.CompleteRen EGraph.CompleteCanon
  EGraph.CompleteRun EGraph.CompleteMain EGraph.CompleteEquiv EGraph.Complete EGraph.CompleteSlotsRen EGraph.CompleteSlots.
From SE Require Import Sem.Term Sem.Deriv Sem.DerivFacts Explain.CheckerFacts.
Require Import List NArith ZArith Lia Permutation.
Local Notation "a ** b" := (compose_partial a b) (at level 40, left associativity).
Local Notation usr := CompleteEquiv.usr.

(* a strictly sorted list has no duplicates *)
Lemma swf_NoDup : forall l, swf l -> NoDup l.
Proof.
  induction l as [|k t IH]; intros W; [constructor|].
  cbn [swf] in W. destruct W as [Lb W]. constructor.
  - intros Hin. pose proof (swf_all_gt t k Lb W k Hin) as Lt. lia.
  - exact (IH W).
Qed.

(* the image of a duplicate-free list under a function injective on its elements is duplicate-free *)
Lemma NoDup_map_inj_on : forall (f : N -> N) l, (forall x y, In x l -> In y l -> f x = f y -> x = y) -> NoDup l -> NoDup (map f l).
Proof.
  intros f. induction l as [|k t IH]; intros Inj ND; cbn [map]; [constructor|].
  inversion ND as [|k' t' Nk NDt]; subst. constructor.
  - intros Hin. apply in_map_iff in Hin. destruct Hin as (u & Eu & Hu).
    assert (E : u = k) by (apply Inj; [right; exact Hu|left; reflexivity|exact Eu]). subst u. exact (Nk Hu).
  - apply IH; [|exact NDt]. intros x y Hx Hy E. apply Inj; [right; exact Hx|right; exact Hy|exact E].
Qed.

Theorem slots_count_equivariant : forall (sg tau : N -> N) (terms : list rterm) (ops : list hop) (hs hs' : list appid)
  (s s' : egraph),
  nonB_ren sg -> nonB_ren tau -> (forall x, tau (sg x) = x) -> Forall term_static_user terms ->
  run_ops terms ops [] empty_egraph = Ok (hs, s) ->
  run_ops (map (rren sg) terms) ops [] empty_egraph = Ok (hs', s') ->
  forall (i : nat) (a a' b b' : appid) (ta : cterm),
  nth_opt hs i = Some a -> nth_opt (handle_cterms terms ops) i = Some ta -> find_applied_id s a = Ok a' ->
  nth_opt hs' i = Some b -> find_applied_id s' b = Ok b' ->
  List.length (values (am b')) = List.length (values (am a')).
Proof.
  intros sg tau terms ops hs hs' s s' NR NT TI HT HR HR' i a a' b b' ta Ha Hta Fa Hb Fb.
  pose proof (slots_equivariant sg tau terms ops hs hs' s s' NR NT TI HT HR HR' i a a' b b' ta Ha Hta Fa Hb Fb) as SE.
  destruct NR as (_ & Inj & _).
  assert (NB : forall x, In x (values (am a')) -> is_B x = false).
  { intros x Hx. exact (proj1 (canon_values_names terms ops hs s HT HR i a a' ta Ha Hta Fa x Hx)). }
  transitivity (List.length (map sg (values (am a')))); [|apply map_length].
  apply Permutation_length. apply NoDup_Permutation.
  - apply swf_NoDup. apply values_swf.
  - apply NoDup_map_inj_on.
    + intros x y Hx Hy E. apply Inj; [exact (NB x Hx)|exact (NB y Hy)|exact E].
    + apply swf_NoDup. apply values_swf.
  - intros y. rewrite (SE y). rewrite in_map_iff. split.
    + intros (x & Hx & ->). exists x. split; [reflexivity|exact Hx].
    + intros (x & E & Hx). exists x. split; [exact Hx|symmetry; exact E].
Qed.

Check slots_count_equivariant.
Print Assumptions slots_count_equivariant.
