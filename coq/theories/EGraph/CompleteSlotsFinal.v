(* EGraph/CompleteSlotsFinal.v — C12 for the harness observation `ModelMachine.obs_handle` (slot set, symmetry count), closed:
   the two facts about `perms_fuel` assumed in CompleteSlotsObs.v (Section Obs) are discharged from CompleteSlotsPermsFuel.v.
   - obs_handle_parts              : the observation line of a handle is (slot set of the canonical invocation, obs_count, #nodes);
   - obs_count_order_independent_all : the symmetry count is order independent;
   - obs_slots_count_order_independent_all : the first two components of the observation agree between two histories whose
       asserted sets agree up to order / orientation / repetition, for handles of the same term. *)
From SE Require Import Slots.SlotMapFacts EGraph.Model EGraph.ModelFacts EGraph.ModelMachine EGraph.SoundFacts EGraph.OpsPreFacts
  EGraph.CompleteDefs EGraph.CompleteSlotsRen EGraph.CompleteSlots EGraph.CompleteSlotsPerm EGraph.CompleteSlotsPermsFuel
  EGraph.CompleteSlotsObs.
From SE Require Import Sem.Term Sem.Deriv.
Require Import ZArith Lia Permutation.

Theorem obs_count_order_independent_all : forall terms1 ops1 hs1 s1 terms2 ops2 hs2 s2 i i' a1 a1' a2 a2' ta,
  Forall term_static_user terms1 -> Forall term_static_user terms2 ->
  run_ops terms1 ops1 [] empty_egraph = Ok (hs1, s1) -> run_ops terms2 ops2 [] empty_egraph = Ok (hs2, s2) ->
  (forall l r, In (l, r) (asserted terms1 ops1) -> In (l, r) (asserted terms2 ops2) \/ In (r, l) (asserted terms2 ops2)) ->
  (forall l r, In (l, r) (asserted terms2 ops2) -> In (l, r) (asserted terms1 ops1) \/ In (r, l) (asserted terms1 ops1)) ->
  nth_opt hs1 i = Some a1 -> nth_opt (handle_cterms terms1 ops1) i = Some ta -> find_applied_id s1 a1 = Ok a1' ->
  nth_opt hs2 i' = Some a2 -> nth_opt (handle_cterms terms2 ops2) i' = Some ta -> find_applied_id s2 a2 = Ok a2' ->
  obs_count s1 a1' = obs_count s2 a2'.
Proof. exact (obs_count_order_independent (@perms_fuel_complete N) (@perms_fuel_NoDup N)). Qed.

Lemma mapr_filter_len : forall {A} (g : A -> res bool) l r, mapr g l = Ok r ->
  List.length (filter (fun b : bool => b) r) = List.length (filter (fun x => is_true_res (g x)) l).
Proof.
  intros A g. induction l as [|x l IH]; intros r H; cbn [mapr] in H.
  - inversion H. reflexivity.
  - destruct (g x) as [y|] eqn:E; cbn [bind] in H; [|discriminate].
    destruct (mapr g l) as [r'|] eqn:E'; cbn [bind] in H; [|discriminate]. inversion H; subst r.
    cbn [filter]. rewrite E. unfold is_true_res at 1. destruct y; cbn [List.length]; rewrite (IH r' eq_refl); reflexivity.
Qed.

Lemma obs_handle_parts : forall s a o, obs_handle s a = Ok o ->
  exists f (en : list node), find_applied_id s a = Ok f /\
    o = Lst [set_sexp (values (am f)); Num (N.of_nat (obs_count s f)); Num (N.of_nat (List.length en))].
Proof.
  intros s a o H. unfold obs_handle in H. destruct (find_applied_id s a) as [f|] eqn:Ff; cbn [bind] in H; [|discriminate].
  destruct (mapr _ (perms_of_vals (values_vec (am f)))) as [flags|] eqn:Em; cbn [bind] in H; [|discriminate].
  destruct (enodes s (aid f)) as [en|] eqn:En; cbn [bind] in H; [|discriminate]. inversion H.
  exists f, en. split; [reflexivity|]. unfold obs_count. rewrite (mapr_filter_len _ _ _ Em). reflexivity.
Qed.

Print Assumptions obs_count_order_independent_all.
Print Assumptions obs_handle_parts.
