(* EGraph/CompleteSlotsObs.v — the SYMMETRY COUNT exactly as the harness observes it (ModelMachine.obs_handle): for the canonical
   invocation f of a handle, the number of lists p in `perms_of_vals (values_vec (am f))` with
       eg_eq s f {| aid := aid f; am := from_iter (combine (keys_vec (am f)) p) |} = Ok true,
   is ORDER INDEPENDENT (`obs_count_order_independent`).  The enumeration runs over the values in KEY order, which differs between
   two runs; the counts are compared through the bijection p |-> map (perm_fun vals1 p) vals2 between the two enumerations.
   Section Obs is parametric in two facts about `perms_fuel` (complete and duplicate free on duplicate free lists); they are
   discharged in CompleteSlotsFinal.v from CompleteSlotsPermsFuel.v. *)
From SE Require Import Slots.SlotMapFacts Group.GroupSound Lang.LangFacts Lang.ShapeFacts Lang.RenameFacts
  Slots.SlotFacts Base.TextFacts EGraph.Model EGraph.ModelFacts EGraph.ModelMachine EGraph.PendingFacts EGraph.UnionFindFacts
  EGraph.InvariantFacts EGraph.UnionInvariantFacts EGraph.AddCoversFacts EGraph.MonotoneFacts EGraph.HashconsShape
  EGraph.Mod4Facts EGraph.HashconsAbs EGraph.Model9 EGraph.HashconsFacts EGraph.NodeCong EGraph.KidEqFacts EGraph.ShapeCong
  EGraph.CongruenceFacts EGraph.RepFacts EGraph.SoundFacts EGraph.SoundSyn EGraph.OpsPreFacts EGraph.MatchFacts
  EGraph.CompleteDefs EGraph.CompleteNm EGraph.CompleteSim EGraph.CompleteEqRnv EGraph.CompleteRen EGraph.CompleteCanon
  EGraph.CompleteRun EGraph.CompleteMain EGraph.CompleteEquiv EGraph.Complete EGraph.CompleteSlotsRen EGraph.CompleteSlots
  EGraph.CompleteSlotsPerm.
From SE Require Import Sem.Term Sem.Deriv Sem.DerivFacts Explain.CheckerFacts.
Require Import ZArith Lia Permutation.

Definition obs_count (s : egraph) (f : appid) : nat :=
  List.length (filter (fun p => is_true_res (eg_eq s f {| aid := aid f; am := from_iter (combine (keys_vec (am f)) p) |}))
                      (perms_of_vals (values_vec (am f)))).

(* ---------------------------------------------------------------------- *)
(* list facts *)

Lemma filter_len_perm : forall {A} (Q : A -> bool) l l', Permutation l l' -> List.length (filter Q l) = List.length (filter Q l').
Proof.
  intros A Q l l' P. induction P as [|x l l' _ IH|x y l|l l' l'' _ IH1 _ IH2]; cbn [filter].
  - reflexivity.
  - destruct (Q x); cbn [List.length]; rewrite IH; reflexivity.
  - destruct (Q x), (Q y); reflexivity.
  - rewrite IH1. exact IH2.
Qed.

Lemma filter_len_map : forall {A C} (Q1 : A -> bool) (Q2 : C -> bool) (F : A -> C) l,
  (forall p, In p l -> Q1 p = Q2 (F p)) -> List.length (filter Q1 l) = List.length (filter Q2 (map F l)).
Proof.
  intros A C Q1 Q2 F. induction l as [|x l IH]; intros H; [reflexivity|]. cbn [map filter].
  rewrite <- (H x (or_introl eq_refl)). destruct (Q1 x); cbn [List.length]; rewrite IH; try reflexivity;
    intros p Hp; apply H; right; exact Hp.
Qed.

Lemma NoDup_map_on : forall {A C} (F : A -> C) l, (forall x y, In x l -> In y l -> F x = F y -> x = y) -> NoDup l -> NoDup (map F l).
Proof.
  intros A C F l Inj ND. induction ND as [|a l Ha ND IH]; cbn [map]; constructor.
  - intros H. apply in_map_iff in H. destruct H as (y & E & Hy). apply Ha.
    assert (y = a) by (apply Inj; [right; exact Hy|left; reflexivity|exact E]). subst y. exact Hy.
  - apply IH. intros x y Hx Hy. apply Inj; right; assumption.
Qed.

Lemma perm_fun_map : forall (g : N -> N) l v, NoDup l -> In v l -> perm_fun l (map g l) v = g v.
Proof.
  intros g. induction l as [|x t IH]; intros v ND Hv; [contradiction|]. inversion ND as [|? ? Nx ND']; subst.
  cbn [map]. rewrite perm_fun_cons. destruct (N.eqb_spec v x) as [->|Nv]; [reflexivity|].
  apply IH; [exact ND'|]. destruct Hv as [E|Hv]; [congruence|exact Hv].
Qed.

Lemma rnv_ext_in : forall f g a, (forall v, In v (values_vec (am a)) -> f v = g v) -> rnv f a = rnv g a.
Proof.
  intros f g a H. unfold rnv. f_equal. apply map_ext_in. intros [k v] Hin. cbn [fst snd]. f_equal. apply H.
  unfold values_vec. apply in_map_iff. exists (k, v). split; [reflexivity|exact Hin].
Qed.

Section Obs.
  Hypothesis PC : forall n (l q : list N), NoDup l -> (List.length l <= n)%nat -> Permutation l q -> In q (perms_fuel n l).
  Hypothesis PN : forall n (l : list N), NoDup l -> (List.length l <= n)%nat -> NoDup (perms_fuel n l).

  (* the two enumerations, over two orderings of the same set, are in bijection *)
  Lemma count_reindex : forall (l1 l2 : list N) n (Q1 Q2 : list N -> bool), NoDup l1 -> NoDup l2 -> Permutation l1 l2 ->
    (List.length l1 <= n)%nat -> (forall p, Permutation l1 p -> Q1 p = Q2 (map (perm_fun l1 p) l2)) ->
    List.length (filter Q1 (perms_fuel n l1)) = List.length (filter Q2 (perms_fuel n l2)).
  Proof.
    intros l1 l2 n Q1 Q2 N1 N2 P12 Ln HQ. set (F := fun p => map (perm_fun l1 p) l2).
    pose proof (Permutation_length P12) as L12.
    assert (In12 : forall v, In v l2 -> In v l1) by (intros v Hv; exact (Permutation_in _ (Permutation_sym P12) Hv)).
    assert (In21 : forall v, In v l1 -> In v l2) by (intros v Hv; exact (Permutation_in _ P12 Hv)).
    rewrite (filter_len_map Q1 Q2 F).
    2:{ intros p Hp. apply HQ. exact (perms_fuel_perm n l1 p Ln Hp). }
    apply filter_len_perm. apply NoDup_Permutation.
    - apply NoDup_map_on; [|exact (PN n l1 N1 Ln)]. intros p q Hp Hq E.
      pose proof (perms_fuel_perm n l1 p Ln Hp) as Pp. pose proof (perms_fuel_perm n l1 q Ln Hq) as Pq.
      rewrite <- (map_perm_fun l1 p N1 (eq_sym (Permutation_length Pp))).
      rewrite <- (map_perm_fun l1 q N1 (eq_sym (Permutation_length Pq))).
      apply map_ext_in. intros v Hv. unfold F in E.
      assert (G : forall (g h : N -> N) l, map g l = map h l -> forall x, In x l -> g x = h x).
      { intros g h. induction l as [|y l IH]; intros Eq x Hx; [contradiction|]. cbn [map] in Eq. inversion Eq.
        destruct Hx as [->|Hx]; [assumption|apply IH; assumption]. }
      exact (G _ _ l2 E v (In21 v Hv)).
    - apply PN; [exact N2|lia].
    - intros q. split.
      + intros H. apply in_map_iff in H. destruct H as (p & <- & Hp). pose proof (perms_fuel_perm n l1 p Ln Hp) as Pp.
        apply PC; [exact N2|lia|]. unfold F.
        apply Permutation_trans with l1; [exact (Permutation_sym P12)|].
        apply Permutation_trans with p; [exact Pp|].
        rewrite <- (map_perm_fun l1 p N1 (eq_sym (Permutation_length Pp))) at 1. apply Permutation_map. exact P12.
      + intros Hq. pose proof (perms_fuel_perm n l2 q ltac:(lia) Hq) as Pq.
        apply in_map_iff. exists (map (perm_fun l2 q) l1). split.
        * unfold F. rewrite <- (map_perm_fun l2 q N2 (eq_sym (Permutation_length Pq))) at 2. apply map_ext_in. intros v Hv.
          apply perm_fun_map; [exact N1|exact (In12 v Hv)].
        * apply PC; [exact N1|exact Ln|].
          apply Permutation_trans with l2; [exact P12|]. apply Permutation_trans with q; [exact Pq|].
          rewrite <- (map_perm_fun l2 q N2 (eq_sym (Permutation_length Pq))) at 1. apply Permutation_map. exact (Permutation_sym P12).
  Qed.

  Theorem obs_count_order_independent : forall terms1 ops1 hs1 s1 terms2 ops2 hs2 s2 i i' a1 a1' a2 a2' ta,
    Forall term_static_user terms1 -> Forall term_static_user terms2 ->
    run_ops terms1 ops1 [] empty_egraph = Ok (hs1, s1) -> run_ops terms2 ops2 [] empty_egraph = Ok (hs2, s2) ->
    (forall l r, In (l, r) (asserted terms1 ops1) -> In (l, r) (asserted terms2 ops2) \/ In (r, l) (asserted terms2 ops2)) ->
    (forall l r, In (l, r) (asserted terms2 ops2) -> In (l, r) (asserted terms1 ops1) \/ In (r, l) (asserted terms1 ops1)) ->
    nth_opt hs1 i = Some a1 -> nth_opt (handle_cterms terms1 ops1) i = Some ta -> find_applied_id s1 a1 = Ok a1' ->
    nth_opt hs2 i' = Some a2 -> nth_opt (handle_cterms terms2 ops2) i' = Some ta -> find_applied_id s2 a2 = Ok a2' ->
    obs_count s1 a1' = obs_count s2 a2'.
  Proof.
    intros terms1 ops1 hs1 s1 terms2 ops2 hs2 s2 i i' a1 a1' a2 a2' ta HT1 HT2 HR1 HR2 E12 E21 Ha1 Ht1 Fa1 Ha2 Ht2 Fa2.
    assert (CAN : forall terms ops hs s i a a', Forall term_static_user terms -> run_ops terms ops [] empty_egraph = Ok (hs, s) ->
              nth_opt hs i = Some a -> nth_opt (handle_cterms terms ops) i = Some ta -> find_applied_id s a = Ok a' ->
              wf (am a') /\ NoDup (values_vec (am a')) /\ (forall v, In v (values_vec (am a')) -> is_B v = false)).
    { intros terms ops hs s j a a' HT HR Ha Hta Fa. destruct (run_facts terms ops hs s HT HR) as (G & _ & _ & _ & _ & HH).
      destruct (HH j a ta Ha Hta) as (Ca & _). destruct (good_parts s G) as (_ & Hs & _).
      destruct (covers_find_ok s a (ei_uf _ Hs) (ei_slots _ Hs) Ca) as (a'' & Fa' & Na). rewrite Fa in Fa'. inversion Fa'; subst a''.
      destruct (canon_parts s a' Na) as (W & _ & Inj). split; [exact W|]. split; [exact (wf_injective_nodup_values _ W Inj)|].
      intros v Hv. apply values_in in Hv. exact (proj1 (canon_values_names terms ops hs s HT HR j a a' ta Ha Hta Fa v Hv)). }
    destruct (CAN terms1 ops1 hs1 s1 i a1 a1' HT1 HR1 Ha1 Ht1 Fa1) as (W1 & N1 & B1).
    destruct (CAN terms2 ops2 hs2 s2 i' a2 a2' HT2 HR2 Ha2 Ht2 Fa2) as (W2 & N2 & B2).
    set (v1 := values_vec (am a1')) in *. set (v2 := values_vec (am a2')) in *.
    pose proof (slots_order_independent terms1 ops1 hs1 s1 terms2 ops2 hs2 s2 HT1 HT2 HR1 HR2 E12 E21 i i' a1 a1' a2 a2' ta
                  Ha1 Ht1 Fa1 Ha2 Ht2 Fa2) as SV.
    assert (P12 : Permutation v1 v2).
    { apply NoDup_Permutation; [exact N1|exact N2|]. intros x. unfold v1, v2. rewrite <- !values_in. rewrite SV. reflexivity. }
    pose proof (Permutation_length P12) as L12.
    unfold obs_count. fold v1 v2. unfold perms_of_vals. rewrite <- L12. destruct (Nat.leb (List.length v1) 5) eqn:E5.
    - rewrite L12 at 2. rewrite <- L12.
      apply (count_reindex v1 v2 (List.length v1) _ _ N1 N2 P12 (le_n _)). intros p Pp.
      pose proof (Permutation_length Pp) as Lp. symmetry in Lp.
      rewrite (perm_fun_rnv a1' p W1 N1 Lp). fold v1.
      assert (Lq : List.length (map (perm_fun v1 p) v2) = List.length (values_vec (am a2'))) by (rewrite map_length; reflexivity).
      rewrite (perm_fun_rnv a2' _ W2 N2 Lq). fold v2.
      rewrite (rnv_ext_in (perm_fun v2 (map (perm_fun v1 p) v2)) (perm_fun v1 p) a2').
      2:{ intros v Hv. apply perm_fun_map; [exact N2|exact Hv]. }
      f_equal.
      exact (sym_order_independent terms1 ops1 hs1 s1 terms2 ops2 hs2 s2 HT1 HT2 HR1 HR2 E12 E21 i i' a1 a1' a2 a2' ta
               Ha1 Ht1 Fa1 Ha2 Ht2 Fa2 (perm_fun v1 p) (perm_fun_sren v1 p N1 Pp B1)).
    - assert (ONE : forall terms ops hs s j a a', Forall term_static_user terms -> run_ops terms ops [] empty_egraph = Ok (hs, s) ->
                nth_opt hs j = Some a -> nth_opt (handle_cterms terms ops) j = Some ta -> find_applied_id s a = Ok a' ->
                NoDup (values_vec (am a')) -> Nat.leb (List.length (values_vec (am a'))) 5 = false ->
                is_true_res (eg_eq s a' {| aid := aid a'; am := from_iter (combine (keys_vec (am a')) (values_vec (am a'))) |}) = true).
      { intros terms ops hs s j a a' HT HR Ha Hta Fa ND E.
        assert (Hin : In (values_vec (am a')) (perms_of_vals (values_vec (am a')))) by (unfold perms_of_vals; rewrite E; left; reflexivity).
        rewrite (proj2 (obs_flag_iff_deriv terms ops hs s HT HR j a a' ta Ha Hta Fa _ Hin)); [reflexivity|].
        rewrite cren_id; [apply D_refl|]. intros x _.
        destruct (in_dec N.eq_dec x (values_vec (am a'))) as [Hx|Nx]; [|apply perm_fun_notin; exact Nx].
        rewrite <- (map_id (values_vec (am a'))) at 2. exact (perm_fun_map (fun z => z) _ x ND Hx). }
      assert (E5' : Nat.leb (List.length v2) 5 = false) by (rewrite <- L12; exact E5).
      subst v1 v2. cbn [filter].
      rewrite (ONE terms1 ops1 hs1 s1 i a1 a1' HT1 HR1 Ha1 Ht1 Fa1 N1 E5).
      rewrite (ONE terms2 ops2 hs2 s2 i' a2 a2' HT2 HR2 Ha2 Ht2 Fa2 N2 E5'). reflexivity.
  Qed.
End Obs.
