From SE Require Import Slots.SlotMapFacts Group.GroupSound Lang.LangFacts Lang.ShapeFacts Lang.RenameFacts
  Slots.SlotFacts Base.TextFacts EGraph.Model EGraph.ModelFacts EGraph.ModelMachine EGraph.PendingFacts EGraph.UnionFindFacts
  EGraph.InvariantFacts EGraph.UnionInvariantFacts EGraph.AddCoversFacts EGraph.MonotoneFacts EGraph.HashconsShape
  EGraph.Mod4Facts EGraph.HashconsAbs EGraph.Model9 EGraph.HashconsFacts EGraph.NodeCong EGraph.KidEqFacts EGraph.ShapeCong
  EGraph.CongruenceFacts EGraph.RepFacts EGraph.SoundFacts EGraph.SoundSyn EGraph.OpsPreFacts EGraph.MatchFacts
  EGraph.CompleteDefs EGraph.CompleteNm EGraph.CompleteSim EGraph.CompleteEqRnv EGraph.CompleteRen EGraph.CompleteCanon
  EGraph.CompleteRun EGraph.CompleteMain EGraph.CompleteEquiv EGraph.Complete EGraph.CompleteSlotsRen EGraph.CompleteSlots.
From SE Require Import Sem.Term Sem.Deriv Sem.DerivFacts Explain.CheckerFacts.
Require Import ZArith Lia Permutation.
Local Notation "a ** b" := (compose_partial a b) (at level 40, left associativity).
Local Notation usr := CompleteEquiv.usr.

(* EGraph/CompleteSlotsPerm.v — the symmetry flags observed by the harness (obs_handle): for every enumerated permutation p of
   the slots of the canonical invocation, the flag is true iff the term is congruent to its renaming by perm_fun. *)

Definition perm_fun (vals p : list N) (v : N) : N :=
  match get (combine vals p) v with Some y => y | None => v end.

(* ---------------------------------------------------------------------- *)
(* 1. the permuted invocation is a renaming of the values                    *)
(* ---------------------------------------------------------------------- *)

Lemma from_iter_wf_id : forall l, wf l -> from_iter l = l.
Proof.
  intros l W. apply ext_eq; [apply from_iter_wf|exact W|]. intros k. rewrite get_from_iter.
  pose proof (wf_nodup_keys l W) as ND.
  destruct (get l k) as [v|] eqn:G.
  - apply in_assoc_last; [exact ND|]. apply get_in. exact G.
  - destruct (assoc_last l k) as [v|] eqn:E; [|reflexivity].
    apply assoc_last_in in E. apply (in_get l k v W) in E. congruence.
Qed.

Lemma wf_same_keys : forall l l' : slotmap, map fst l = map fst l' -> wf l -> wf l'.
Proof.
  induction l as [|[k v] t IH]; intros l' E W; destruct l' as [|[k' v'] t']; cbn [map fst] in E; try discriminate; [exact I|].
  inversion E as [[E1 E2]]. subst k'. cbn [wf] in *. destruct W as [L W]. split; [|exact (IH t' E2 W)].
  destruct t as [|[k1 v1] t1]; destruct t' as [|[k2 v2] t2]; cbn [map fst] in E2; try discriminate; [exact I|].
  inversion E2; subst. exact L.
Qed.

Lemma map_fst_combine : forall (ks p : list N), List.length p = List.length ks -> map fst (combine ks p) = ks.
Proof.
  induction ks as [|k t IH]; intros p L; [reflexivity|]. destruct p as [|y p]; [discriminate|].
  cbn [combine map fst]. f_equal. apply IH. cbn [List.length] in L. lia.
Qed.

Lemma map_snd_combine : forall (m : slotmap) (g : N -> N),
  map (fun kv => (fst kv, g (snd kv))) m = combine (keys_vec m) (map g (values_vec m)).
Proof.
  induction m as [|[k v] t IH]; intros g; [reflexivity|]. cbn [map keys_vec values_vec combine fst snd].
  f_equal. apply IH.
Qed.

Lemma perm_fun_cons : forall x vals y p v,
  perm_fun (x :: vals) (y :: p) v = if v =? x then y else perm_fun vals p v.
Proof. intros. unfold perm_fun. cbn [combine get]. destruct (v =? x); reflexivity. Qed.

Lemma map_perm_fun : forall vals p, NoDup vals -> List.length p = List.length vals -> map (perm_fun vals p) vals = p.
Proof.
  induction vals as [|x t IH]; intros p ND L; destruct p as [|y p]; try discriminate; [reflexivity|].
  inversion ND as [|? ? Nx ND']; subst. cbn [map]. rewrite perm_fun_cons, N.eqb_refl. f_equal.
  rewrite <- (IH p ND') at 2 by (cbn [List.length] in L; lia).
  apply map_ext_in. intros v Hv. rewrite perm_fun_cons.
  destruct (N.eqb_spec v x) as [->|_]; [contradiction|reflexivity].
Qed.

Lemma perm_fun_rnv : forall f p, wf (am f) -> NoDup (values_vec (am f)) ->
  List.length p = List.length (values_vec (am f)) ->
  {| aid := aid f; am := from_iter (combine (keys_vec (am f)) p) |} = rnv (perm_fun (values_vec (am f)) p) f.
Proof.
  intros f p W ND L. unfold rnv. f_equal.
  rewrite map_snd_combine, map_perm_fun by assumption.
  apply from_iter_wf_id. apply (wf_same_keys (am f)); [|exact W].
  rewrite map_fst_combine; [reflexivity|]. etransitivity; [exact L|]. unfold values_vec, keys_vec. rewrite !map_length. reflexivity.
Qed.

(* ---------------------------------------------------------------------- *)
(* 2. perm_fun of a permutation of non-reserved names is an sren             *)
(* ---------------------------------------------------------------------- *)

Lemma perm_fun_notin : forall vals p v, ~ In v vals -> perm_fun vals p v = v.
Proof.
  induction vals as [|x t IH]; intros p v Nv; [reflexivity|]. destruct p as [|y p]; [reflexivity|].
  rewrite perm_fun_cons. destruct (N.eqb_spec v x) as [->|_]; [exfalso; apply Nv; left; reflexivity|].
  apply IH. intros H. apply Nv. right. exact H.
Qed.

Lemma perm_fun_in : forall vals p v, List.length p = List.length vals -> In v vals -> In (perm_fun vals p v) p.
Proof.
  induction vals as [|x t IH]; intros p v L Hv; [contradiction|]. destruct p as [|y p]; [discriminate|].
  rewrite perm_fun_cons. destruct (N.eqb_spec v x) as [->|Nx]; [left; reflexivity|]. right.
  apply IH; [cbn [List.length] in L; lia|]. destruct Hv as [E|Hv]; [congruence|exact Hv].
Qed.

Lemma NoDup_map_inj_in : forall (g : N -> N) l x y, NoDup (map g l) -> In x l -> In y l -> g x = g y -> x = y.
Proof.
  induction l as [|z t IH]; intros x y ND Hx Hy E; [contradiction|]. cbn [map] in ND.
  inversion ND as [|? ? Nz ND']; subst.
  destruct Hx as [->|Hx], Hy as [->|Hy].
  - reflexivity.
  - exfalso. apply Nz. rewrite E. apply in_map. exact Hy.
  - exfalso. apply Nz. rewrite <- E. apply in_map. exact Hx.
  - exact (IH x y ND' Hx Hy E).
Qed.

Lemma perm_fun_sren : forall vals p, NoDup vals -> Permutation vals p ->
  (forall v, In v vals -> is_B v = false) -> sren (perm_fun vals p).
Proof.
  intros vals p ND P NB. pose proof (Permutation_length P) as L. symmetry in L.
  assert (NDp : NoDup p) by (exact (Permutation_NoDup P ND)).
  assert (IN : forall v, In v vals -> In (perm_fun vals p v) vals).
  { intros v Hv. apply (Permutation_in _ (Permutation_sym P)). apply perm_fun_in; assumption. }
  split; [|split].
  - intros x Bx. apply perm_fun_notin. intros H. rewrite (NB x H) in Bx. discriminate.
  - intros x Bx. destruct (in_dec N.eq_dec x vals) as [Hx|Nx].
    + apply NB. apply IN. exact Hx.
    + rewrite perm_fun_notin by exact Nx. exact Bx.
  - intros x y _ _ E.
    destruct (in_dec N.eq_dec x vals) as [Hx|Nx], (in_dec N.eq_dec y vals) as [Hy|Ny].
    + apply (NoDup_map_inj_in (perm_fun vals p) vals); try assumption. rewrite map_perm_fun; assumption.
    + exfalso. apply Ny. rewrite (perm_fun_notin vals p y Ny) in E. rewrite <- E. apply IN. exact Hx.
    + exfalso. apply Nx. rewrite (perm_fun_notin vals p x Nx) in E. rewrite E. apply IN. exact Hy.
    + rewrite !perm_fun_notin in E by assumption. exact E.
Qed.

(* ---------------------------------------------------------------------- *)
(* 3. the enumerated lists are permutations                                  *)
(* ---------------------------------------------------------------------- *)

Lemma selects_perm : forall {A} (l : list A) x r, In (x, r) (selects l) -> Permutation l (x :: r).
Proof.
  induction l as [|z t IH]; intros x r H; [contradiction|]. cbn [selects] in H. destruct H as [E|H].
  - inversion E; subst. apply Permutation_refl.
  - apply in_map_iff in H. destruct H as ([x' r'] & E & H). cbn [fst snd] in E. inversion E; subst.
    apply IH in H. eapply Permutation_trans; [apply perm_skip; exact H|]. apply perm_swap.
Qed.

Lemma perms_fuel_perm : forall {A} fuel (l p : list A), (List.length l <= fuel)%nat ->
  In p (perms_fuel fuel l) -> Permutation l p.
Proof.
  induction fuel as [|f IH]; intros l p L H.
  - destruct l; [|cbn [List.length] in L; lia]. cbn [perms_fuel] in H. destruct H as [<-|[]]. apply Permutation_refl.
  - destruct l as [|z t]; [cbn [perms_fuel] in H; destruct H as [<-|[]]; apply Permutation_refl|].
    cbn [perms_fuel] in H. apply in_flat_map in H. destruct H as ([x r] & Hs & H). cbn [fst snd] in H.
    apply in_map_iff in H. destruct H as (q & <- & Hq). apply selects_perm in Hs.
    pose proof (Permutation_length Hs) as Ls. cbn [List.length] in Ls, L.
    eapply Permutation_trans; [exact Hs|]. apply perm_skip. apply IH; [lia|exact Hq].
Qed.

Lemma perms_of_vals_perm : forall vals p, In p (perms_of_vals vals) -> Permutation vals p.
Proof.
  intros vals p H. unfold perms_of_vals in H. destruct (Nat.leb (List.length vals) 5).
  - exact (perms_fuel_perm _ vals p (le_n _) H).
  - destruct H as [<-|[]]. apply Permutation_refl.
Qed.

(* ---------------------------------------------------------------------- *)
(* 4. the observed symmetry flags                                            *)
(* ---------------------------------------------------------------------- *)

Lemma wf_injective_nodup_values : forall m, wf m -> injective m -> NoDup (values_vec m).
Proof.
  intros m W Inj. apply nodupb_NoDup. change (is_bijection m = true). apply is_bijection_injective; assumption.
Qed.

Theorem obs_flag_iff_deriv : forall (terms : list rterm) (ops : list hop) (hs : list appid) (s : egraph),
  Forall term_static_user terms -> run_ops terms ops [] empty_egraph = Ok (hs, s) ->
  forall (i : nat) (a a' : appid) (ta : cterm),
  nth_opt hs i = Some a -> nth_opt (handle_cterms terms ops) i = Some ta -> find_applied_id s a = Ok a' ->
  forall p, In p (perms_of_vals (values_vec (am a'))) ->
    (eg_eq s a' {| aid := aid a'; am := from_iter (combine (keys_vec (am a')) p) |} = Ok true
     <-> Deriv (asserted terms ops) 0 ta (cren (perm_fun (values_vec (am a')) p) ta)).
Proof.
  intros terms ops hs s HT HR i a a' ta Ha Hta Fa p Hp.
  destruct (run_canon terms ops hs s HT HR i a a' ta Ha Hta Fa) as (U & Hs & _ & Ca & _).
  destruct (covers_find_ok s a U (ei_slots _ Hs) Ca) as (a'' & Fa' & Na). rewrite Fa in Fa'. inversion Fa'; subst a''.
  destruct (canon_parts s a' Na) as (W & _ & Inj).
  pose proof (wf_injective_nodup_values (am a') W Inj) as ND.
  pose proof (perms_of_vals_perm _ p Hp) as P.
  assert (L : List.length p = List.length (values_vec (am a'))) by (symmetry; exact (Permutation_length P)).
  rewrite (perm_fun_rnv a' p W ND L).
  apply (sym_iff_deriv terms ops hs s HT HR i a a' ta Ha Hta Fa).
  apply perm_fun_sren; [exact ND|exact P|].
  intros v Hv. apply values_in in Hv.
  exact (proj1 (canon_values_names terms ops hs s HT HR i a a' ta Ha Hta Fa v Hv)).
Qed.

Print Assumptions perm_fun_rnv.
Print Assumptions perm_fun_sren.
Print Assumptions perms_of_vals_perm.
Print Assumptions obs_flag_iff_deriv.
