From SE Require Import EGraph.ModelMachine EGraph.CompleteSlotsPerm.
Require Import List Lia Permutation FinFun.
Import ListNotations.

(* EGraph/CompleteSlotsPermsFuel.v — the enumeration perms_fuel is complete (every permutation of the input is listed)
   and duplicate-free (on duplicate-free input), given enough fuel. *)

Section PermsFuel.
Context {A : Type}.

(* ---------------------------------------------------------------------- *)
(* 1. selects                                                                *)
(* ---------------------------------------------------------------------- *)

Lemma selects_in_app : forall (l1 : list A) x l2, In (x, l1 ++ l2) (selects (l1 ++ x :: l2)).
Proof.
  induction l1 as [|z t IH]; intros x l2.
  - cbn. left. reflexivity.
  - cbn [app selects]. right. apply in_map_iff. exists (x, t ++ l2). split; [reflexivity|apply IH].
Qed.

Lemma selects_split : forall (l : list A) x r,
  In (x, r) (selects l) <-> exists l1 l2, l = l1 ++ x :: l2 /\ r = l1 ++ l2.
Proof.
  intros l x r. split.
  - revert x r. induction l as [|z t IH]; intros x r H; [contradiction|]. cbn [selects] in H. destruct H as [E|H].
    + inversion E; subst. exists [], r. split; reflexivity.
    + apply in_map_iff in H. destruct H as ([x' r'] & E & H). cbn [fst snd] in E. inversion E; subst.
      apply IH in H. destruct H as (l1 & l2 & -> & ->). exists (z :: l1), l2. split; reflexivity.
  - intros (l1 & l2 & -> & ->). apply selects_in_app.
Qed.

Lemma selects_length : forall (l : list A) x r, In (x, r) (selects l) -> S (List.length r) = List.length l.
Proof.
  intros l x r H. apply selects_perm in H. apply Permutation_length in H. cbn [List.length] in H. lia.
Qed.

Lemma selects_NoDup : forall (l : list A) x r, NoDup l -> In (x, r) (selects l) -> NoDup r /\ ~ In x r.
Proof.
  intros l x r ND H. apply selects_perm in H. pose proof (Permutation_NoDup H ND) as ND'.
  inversion ND'; subst. split; assumption.
Qed.

Lemma selects_fst : forall (l : list A), map fst (selects l) = l.
Proof.
  induction l as [|z t IH]; [reflexivity|]. cbn [selects map fst]. f_equal. rewrite map_map. cbn [fst]. exact IH.
Qed.

Lemma selects_complete : forall (l : list A) x r, Permutation l (x :: r) ->
  exists r', In (x, r') (selects l) /\ Permutation r' r.
Proof.
  intros l x r P. assert (Hin : In x l).
  { eapply Permutation_in; [apply Permutation_sym; exact P|]. left. reflexivity. }
  apply in_split in Hin. destruct Hin as (l1 & l2 & ->). exists (l1 ++ l2). split; [apply selects_in_app|].
  apply Permutation_sym. eapply Permutation_cons_app_inv. apply Permutation_sym. exact P.
Qed.

(* ---------------------------------------------------------------------- *)
(* 2. completeness of perms_fuel                                             *)
(* ---------------------------------------------------------------------- *)

Lemma perms_fuel_complete_gen : forall n (l q : list A), (List.length l <= n)%nat -> Permutation l q ->
  In q (perms_fuel n l).
Proof.
  induction n as [|f IH]; intros l q L P.
  - destruct l; [|cbn [List.length] in L; lia]. apply Permutation_nil in P. subst. cbn. left. reflexivity.
  - destruct l as [|z t]; [apply Permutation_nil in P; subst; cbn; left; reflexivity|].
    destruct q as [|x q']; [apply Permutation_sym, Permutation_nil in P; discriminate|].
    destruct (selects_complete _ _ _ P) as (r' & Hs & Pr).
    cbn [perms_fuel]. apply in_flat_map. exists (x, r'). split; [exact Hs|]. cbn [fst snd].
    apply in_map. apply IH; [|exact Pr]. apply selects_length in Hs. cbn [List.length] in Hs, L. lia.
Qed.

Lemma perms_fuel_complete : forall n (l q : list A), NoDup l -> (List.length l <= n)%nat -> Permutation l q ->
  In q (perms_fuel n l).
Proof. intros n l q _. apply perms_fuel_complete_gen. Qed.

(* ---------------------------------------------------------------------- *)
(* 3. perms_fuel has no duplicates                                           *)
(* ---------------------------------------------------------------------- *)

Lemma NoDup_app_disj : forall {C} (l1 l2 : list C), NoDup l1 -> NoDup l2 ->
  (forall c, In c l1 -> ~ In c l2) -> NoDup (l1 ++ l2).
Proof.
  intros C l1 l2 N1 N2 D. induction N1 as [|c l1 Hc N1 IH]; [exact N2|]. cbn [app]. constructor.
  - intro H. apply in_app_or in H. destruct H as [H|H]; [exact (Hc H)|]. apply (D c); [left; reflexivity|exact H].
  - apply IH. intros c' H. apply D. right. exact H.
Qed.

Lemma NoDup_flat_map_key : forall {B C K} (f : B -> list C) (key : C -> option K) (kb : B -> K) (l : list B),
  (forall b c, In b l -> In c (f b) -> key c = Some (kb b)) ->
  NoDup (map kb l) -> (forall b, In b l -> NoDup (f b)) -> NoDup (flat_map f l).
Proof.
  intros B C K f key kb. induction l as [|b t IH]; intros Hk ND Hb; [constructor|].
  cbn [flat_map]. cbn [map] in ND. inversion ND as [|? ? Hnin ND']; subst. apply NoDup_app_disj.
  - apply Hb. left. reflexivity.
  - apply IH; [|exact ND'|].
    + intros b' c Hb' Hc. apply Hk; [right; exact Hb'|exact Hc].
    + intros b' Hb'. apply Hb. right. exact Hb'.
  - intros c Hc Hc'. apply in_flat_map in Hc'. destruct Hc' as (b' & Hb' & Hc').
    pose proof (Hk b c (or_introl eq_refl) Hc) as E1. pose proof (Hk b' c (or_intror Hb') Hc') as E2.
    rewrite E1 in E2. inversion E2 as [E]. apply Hnin. rewrite E. apply in_map. exact Hb'.
Qed.

Lemma perms_fuel_NoDup : forall n (l : list A), NoDup l -> (List.length l <= n)%nat -> NoDup (perms_fuel n l).
Proof.
  induction n as [|f IH]; intros l ND L.
  - cbn. constructor; [intros []|constructor].
  - destruct l as [|z t]; [cbn; constructor; [intros []|constructor]|].
    cbn [perms_fuel]. apply (NoDup_flat_map_key _ (@hd_error A) fst).
    + intros [x r] c _ Hc. cbn [fst snd] in *. apply in_map_iff in Hc. destruct Hc as (q & <- & _). reflexivity.
    + rewrite selects_fst. exact ND.
    + intros [x r] Hs. cbn [fst snd]. apply Injective_map_NoDup.
      * intros a b E. inversion E. reflexivity.
      * pose proof (selects_NoDup _ _ _ ND Hs) as (NDr & _). apply IH; [exact NDr|].
        apply selects_length in Hs. cbn [List.length] in Hs, L. lia.
Qed.

End PermsFuel.

Print Assumptions perms_fuel_complete.
Print Assumptions perms_fuel_NoDup.
