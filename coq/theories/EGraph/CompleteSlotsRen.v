(* EGraph/CompleteSlotsRen.v — C11/C12 beyond the equality observable, part 1: the characterisation
       eg_eq on handles  <->  Deriv of their terms                               (Complete.eq_iff_deriv)
   GENERALISED to RENAMED handles: for handles a, b with terms ta, tb and renamings r, t of the user slot names
   (`sren`: binder level names fixed, non-reserved names to non-reserved names, injective):
       eg_eq s (rnv r a) (rnv t b) = Ok true  <->  Deriv (asserted terms ops) 0 (cren r ta) (cren t tb).
   (`rnv` : CompleteDefs.v, renaming of the VALUES of an invocation; `cren` : Sem/Term.v.)
   - soundness direction: the invariant `Sound` speaks about arbitrary covered invocations
     (SoundFacts.eq_sound_of_Sound); the class term under a renamed completion is the renamed class term
     (SoundSyn.syn_t_cren); Deriv is closed under good renamings (CheckerFacts.Deriv_ren);
   - completeness direction: Deriv_Sim_good + clk_ren (with no enclosing binders) + eg_eq_rnv.
   Handles need not have sorted maps: everything is moved to the canonical invocations (`find_rnv`). *)
From SE Require Import Slots.SlotMapFacts Group.GroupSound Lang.LangFacts Lang.ShapeFacts Lang.RenameFacts
  Slots.SlotFacts Base.TextFacts EGraph.Model EGraph.ModelFacts EGraph.ModelMachine EGraph.PendingFacts EGraph.UnionFindFacts
  EGraph.InvariantFacts EGraph.UnionInvariantFacts EGraph.AddCoversFacts EGraph.MonotoneFacts EGraph.HashconsShape
  EGraph.Mod4Facts EGraph.HashconsAbs EGraph.Model9 EGraph.HashconsFacts EGraph.NodeCong EGraph.KidEqFacts EGraph.ShapeCong
  EGraph.CongruenceFacts EGraph.RepFacts EGraph.SoundFacts EGraph.SoundSyn EGraph.SoundRebuild EGraph.SoundClosed
  EGraph.OpsPreFacts EGraph.RepReachB
  EGraph.CompleteDefs EGraph.CompleteNm EGraph.CompleteSim EGraph.CompleteEqRnv EGraph.CompleteRen EGraph.CompleteCanon
  EGraph.CompleteRun EGraph.CompleteMain EGraph.CompleteEquiv EGraph.Complete.
From SE Require Import Sem.Term Sem.Deriv Sem.DerivFacts Explain.CheckerFacts.
Require Import ZArith Lia Permutation.
Local Notation "a ** b" := (compose_partial a b) (at level 40, left associativity).

(* ====================================================================== *)
(* 0. renamings of the user slot names                                      *)
(* ====================================================================== *)

Definition sren (r : N -> N) : Prop :=
  (forall x, is_B x = true -> r x = x) /\
  (forall x, is_B x = false -> is_B (r x) = false) /\
  (forall x y, is_B x = false -> is_B y = false -> r x = r y -> x = y).

Lemma sren_isB : forall r, sren r -> forall x, is_B (r x) = is_B x.
Proof.
  intros r (F & U & _) x. destruct (is_B x) eqn:E; [rewrite (F x E); exact E|apply U; exact E].
Qed.

Lemma sren_inj : forall r, sren r -> forall x y, r x = r y -> x = y.
Proof.
  intros r R x y H. pose proof (sren_isB r R x) as Bx. pose proof (sren_isB r R y) as By.
  destruct R as (F & U & I). destruct (is_B x) eqn:Ex; destruct (is_B y) eqn:Ey.
  - rewrite (F x Ex), (F y Ey) in H. exact H.
  - rewrite H in Bx. congruence.
  - rewrite H in Bx. congruence.
  - apply I; assumption.
Qed.

Lemma sren_id : sren (fun x => x).
Proof. split; [reflexivity|]. split; [intros x H; exact H|intros x y _ _ H; exact H]. Qed.

Lemma sren_good : forall r, sren r -> CheckerFacts.good 0 0 r.
Proof.
  intros r R. pose proof (sren_inj r R) as Inj. destruct R as (F & U & _). split; [|split].
  - intros x Hb _. rewrite (F x Hb). change (N.of_nat 0) with 0%N. lia.
  - intros x Hx. apply fr_0 in Hx. apply fr_0. apply U. exact Hx.
  - intros x y _ _. apply Inj.
Qed.

Lemma sren_shifts : forall r, sren r -> shifts 0 0 r.
Proof. intros r (F & _) k. apply F. apply is_B_B. Qed.

Lemma cren_lift0 : forall r c, sren r -> cren (lift 0 r) c = cren r c.
Proof.
  intros r c (F & _). apply cren_ext. intros x _. unfold lift, shift_B. destruct (is_B x) eqn:E; [|reflexivity].
  rewrite (F x E). change (N.of_nat 0) with 0%N. lia.
Qed.

Lemma theta0 : forall r z, sren r -> theta 0 r [] z = r z.
Proof.
  intros r z (F & U & _). unfold theta. destruct (is_B z) eqn:E.
  - rewrite (F z E). change (2 ^ N.of_nat 0)%N with 1%N. unfold is_B in E. apply N.eqb_eq in E.
    pose proof (N.div_mod z 4). lia.
  - apply sl_user. apply U. exact E.
Qed.

Lemma rnv_ext : forall f g a, (forall z, f z = g z) -> rnv f a = rnv g a.
Proof. intros f g a H. unfold rnv. f_equal. apply map_ext. intros [k v]. cbn [fst snd]. rewrite H. reflexivity. Qed.

Lemma rnv_id : forall a, rnv (fun x => x) a = a.
Proof.
  intros [i m]. unfold rnv. cbn [aid am]. f_equal. rewrite <- (map_id m) at 2. apply map_ext. intros [k v]. reflexivity.
Qed.

Lemma inst_ok_sren : forall r ns, sren r -> inst_ok 0 r ns.
Proof.
  intros r ns (_ & U & I). split.
  - intros x y _ _. apply I.
  - intros x _ Hx. left. apply U. exact Hx.
Qed.

(* ====================================================================== *)
(* 1. renaming the values commutes with canonicalisation                    *)
(* ====================================================================== *)

Lemma mapv_compose : forall r m n, wf m -> m ** mapv r n = mapv r (m ** n).
Proof.
  intros r m n W. apply ext_eq; [apply compose_partial_wf|apply wf_mapv; apply compose_partial_wf|].
  intros k. rewrite get_compose_partial by exact W. rewrite get_mapv. rewrite get_compose_partial by exact W.
  destruct (get m k) as [y|]; [rewrite get_mapv|]; reflexivity.
Qed.

Lemma find_rnv : forall s r a a', uf_ok s -> find_applied_id s a = Ok a' ->
  find_applied_id s (rnv r a) = Ok (rnv r a').
Proof.
  intros s r a a' U H. unfold find_applied_id in *. unfold rnv at 1. cbn [aid am].
  destruct (unionfind_get s (aid a)) as [p|] eqn:Hp; cbn [bind] in *; [|discriminate].
  inversion H; subst a'. unfold rnv. cbn [aid am]. f_equal. f_equal.
  exact (mapv_compose r (am p) (am a) (unionfind_get_wf s (aid a) p U Hp)).
Qed.

Lemma eg_eq_rnv_find : forall s r t a b a' b', uf_ok s -> find_applied_id s a = Ok a' -> find_applied_id s b = Ok b' ->
  eg_eq s (rnv r a) (rnv t b) = eg_eq s (rnv r a') (rnv t b').
Proof.
  intros s r t a b a' b' U Fa Fb. apply eg_eq_find_congr.
  - rewrite (find_rnv s r a a' U Fa). symmetry. apply find_rnv; [exact U|]. exact (find_idempotent s a a' U Fa).
  - rewrite (find_rnv s t b b' U Fb). symmetry. apply find_rnv; [exact U|]. exact (find_idempotent s b b' U Fb).
Qed.

Lemma eg_eq_find_both : forall s a b a' b', uf_ok s -> find_applied_id s a = Ok a' -> find_applied_id s b = Ok b' ->
  eg_eq s a b = eg_eq s a' b'.
Proof.
  intros s a b a' b' U Fa Fb. apply eg_eq_find_congr.
  - rewrite Fa. symmetry. exact (find_idempotent s a a' U Fa).
  - rewrite Fb. symmetry. exact (find_idempotent s b b' U Fb).
Qed.

Lemma get_rnv : forall r a k, get (am (rnv r a)) k = match get (am a) k with Some y => Some (r y) | None => None end.
Proof. intros r a k. unfold rnv. cbn [am]. exact (get_mapv r (am a) k). Qed.

(* covers without the sortedness premise of CompleteEqRnv.covers_rnv *)
Lemma covers_rnv_inj : forall s r a, (forall x y, r x = r y -> x = y) -> covers s a -> covers s (rnv r a).
Proof.
  intros s r a Inj (c & Hc & Ia & Sub). exists c. split; [exact Hc|]. split.
  - intros k1 k2 v G1 G2. rewrite get_rnv in G1, G2.
    destruct (get (am a) k1) as [y1|] eqn:E1; [|discriminate]. destruct (get (am a) k2) as [y2|] eqn:E2; [|discriminate].
    assert (y1 = y2) as <- by (apply Inj; congruence). eapply Ia; eauto.
  - intros k Hk. rewrite get_rnv. specialize (Sub k Hk). destruct (get (am a) k); [discriminate|congruence].
Qed.

(* ====================================================================== *)
(* 2. soundness for renamed invocations                                     *)
(* ====================================================================== *)

Lemma rnv_sound : forall E s a b ta tb r t, inv3 s -> syn_wf s -> Sound E s -> covers s a -> covers s b ->
  handle_ok E s a ta -> handle_ok E s b tb -> sren r -> sren t ->
  eg_eq s (rnv r a) (rnv t b) = Ok true -> Deriv E 0 (cren r ta) (cren t tb).
Proof.
  intros E s a b ta tb r t I W S Ca Cb Oa Ob Rr Rt H.
  pose proof (covers_rnv_inj s r a (sren_inj r Rr) Ca) as Cra.
  pose proof (covers_rnv_inj s t b (sren_inj t Rt) Cb) as Ctb.
  pose proof (eq_sound_of_Sound E s (rnv r a) (rnv t b) S I Cra Ctb H) as Sab.
  destruct (completion_exists E s a ta Oa Ca) as (sg & Cs & Xs).
  destruct (completion_exists E s b tb Ob Cb) as (tau & Ct & Xt).
  assert (Ka : cren r (clsT s sg (aid a)) = clsT s (fun x => r (sg x)) (aid a)).
  { unfold clsT, syn_at. apply (syn_t_cren s W); [apply sren_shifts; exact Rr|]. intros y _. reflexivity. }
  assert (Kb : cren t (clsT s tau (aid b)) = clsT s (fun x => t (tau x)) (aid b)).
  { unfold clsT, syn_at. apply (syn_t_cren s W); [apply sren_shifts; exact Rt|]. intros y _. reflexivity. }
  apply D_trans with (clsT s (fun x => r (sg x)) (aid a)).
  { rewrite <- Ka. apply (Deriv_ren E 0 _ _ 0 r); [apply (proj2 Oa); exact Cs|apply sren_good; exact Rr]. }
  apply D_trans with (clsT s (fun x => t (tau x)) (aid b)).
  2:{ rewrite <- Kb. apply D_sym. apply (Deriv_ren E 0 _ _ 0 t); [apply (proj2 Ob); exact Ct|apply sren_good; exact Rt]. }
  assert (RK : forall u (m : N -> N) i, sren u -> rok s i m -> rok s i (fun x => u (m x))).
  { intros u m i Ru [Inj NB]. split.
    - intros x y Hx Hy Hxy. apply (Inj x y Hx Hy). exact (sren_inj u Ru _ _ Hxy).
    - intros x Hx. rewrite (sren_isB u Ru). apply NB. exact Hx. }
  apply (Sab (fun x => r (sg x)) (fun x => t (tau x))).
  - change (aid (rnv r a)) with (aid a). apply RK; [exact Rr|apply Cs].
  - change (aid (rnv t b)) with (aid b). apply RK; [exact Rt|apply Ct].
  - intros x y v Hx Hy. rewrite get_rnv in Hx, Hy.
    destruct (get (am a) x) as [w1|] eqn:E1; [|discriminate]. destruct (get (am b) y) as [w2|] eqn:E2; [|discriminate].
    rewrite (Xs _ _ E1), (Xt _ _ E2). congruence.
Qed.

(* ====================================================================== *)
(* 3. completeness for renamed invocations                                  *)
(* ====================================================================== *)

Lemma clk_sren : forall s r t x, RepFacts.good s -> sren r -> term_static_user t -> lookup_rec s t = Ok (Some x) ->
  clk s [] (cren r (canon0 t)) = Some (rnv r x) /\ wf (am x) /\ covers s x /\
  (forall v, In v (values_vec (am x)) -> is_B v = false /\ In v (cnames (canon0 t))).
Proof.
  intros s r t x G R St L. destruct (good_parts s G) as (I3 & Hs & Nk & _).
  pose proof (clk_canon0 s G (clk_ren s I3) t x St L) as K. destruct St as [_ OK].
  pose proof (clk_ren s I3 (canon0 t) r [] [] x (wfc_canon0 t OK) (inst_ok_sren r _ R) K) as Q.
  cbn [app List.length] in Q. rewrite (cren_lift0 r _ R) in Q. rewrite (rnv_ext _ r x (fun z => theta0 r z R)) in Q.
  split; [exact Q|]. destruct (clk_values s I3 (canon0 t) [] x (wfc_canon0 t OK) K) as [Wx V].
  split; [exact Wx|]. split; [exact (lookup_rec_covers _ _ _ Nk L)|].
  intros v Hv. unfold values_vec in Hv. apply in_map_iff in Hv. destruct Hv as ([k v'] & <- & Hin). cbn [snd].
  destruct (V k v' (in_get _ _ _ Wx Hin)) as [A|(k' & j & Nn & _)]; [exact A|]. destruct k'; discriminate.
Qed.

Lemma rnv_complete : forall E s t1 t2 a b r t, RepFacts.good s ->
  (forall l r, In (l, r) E -> exists tl tr a b, term_static_user tl /\ term_static_user tr /\ l = canon0 tl /\ r = canon0 tr /\
                                            rep s tl a /\ rep s tr b /\ eg_eq s a b = Ok true) ->
  term_static_user t1 -> term_static_user t2 -> rep s t1 a -> rep s t2 b -> sren r -> sren t ->
  Deriv E 0 (cren r (canon0 t1)) (cren t (canon0 t2)) -> eg_eq s (rnv r a) (rnv t b) = Ok true.
Proof.
  intros E s t1 t2 a b r t G HE S1 S2 (Ca & x & Lx & Ex) (Cb & y & Ly & Ey) Rr Rt D.
  destruct (good_parts s G) as (I3 & Hs & Nk & _). pose proof (ei_uf _ Hs) as U.
  destruct (clk_sren s r t1 x G Rr S1 Lx) as (Kx & Wx & Cx & _).
  destruct (clk_sren s t t2 y G Rt S2 Ly) as (Ky & Wy & Cy & _).
  pose proof (Deriv_Sim_good s E G HE _ _ D) as SM.
  assert (Exy : eg_eq s (rnv r x) (rnv t y) = Ok true).
  { inversion SM as [js t0 u0 x' y' Hx' Hy' E'|js v a0 b0 Hn _ _]; subst.
    - rewrite Kx in Hx'. rewrite Ky in Hy'. inversion Hx'; inversion Hy'; subst. exact E'.
    - match goal with Hc : CT _ _ = cren r (canon0 t1) |- _ => rewrite Hc in Hn end. congruence. }
  destruct (covers_find_ok s a U (ei_slots _ Hs) Ca) as (a' & Fa & Na).
  destruct (covers_find_ok s b U (ei_slots _ Hs) Cb) as (b' & Fb & Nb).
  rewrite (eg_eq_rnv_find s r t a b a' b' U Fa Fb).
  pose proof (canon_covers s a' Na) as Ca'. pose proof (canon_covers s b' Nb) as Cb'.
  destruct (canon_parts s a' Na) as (Wa' & _). destruct (canon_parts s b' Nb) as (Wb' & _).
  assert (Ex' : eg_eq s x a' = Ok true).
  { rewrite <- Ex. apply eg_eq_find_congr; [reflexivity|]. rewrite Fa. exact (find_idempotent s a a' U Fa). }
  assert (Ey' : eg_eq s y b' = Ok true).
  { rewrite <- Ey. apply eg_eq_find_congr; [reflexivity|]. rewrite Fb. exact (find_idempotent s b b' U Fb). }
  pose proof (eg_eq_rnv_true s r x a' Hs Cx Ca' Wx Wa' (fun u v _ _ => sren_inj r Rr u v) Ex') as Qa.
  pose proof (eg_eq_rnv_true s t y b' Hs Cy Cb' Wy Wb' (fun u v _ _ => sren_inj t Rt u v) Ey') as Qb.
  pose proof (covers_rnv_inj s r x (sren_inj r Rr) Cx) as C1. pose proof (covers_rnv_inj s r a' (sren_inj r Rr) Ca') as C2.
  pose proof (covers_rnv_inj s t y (sren_inj t Rt) Cy) as C3. pose proof (covers_rnv_inj s t b' (sren_inj t Rt) Cb') as C4.
  apply (eg_eq_trans_true s _ (rnv r x) _ Hs C2 C1 C4); [apply eg_eq_sym_true; assumption|].
  apply (eg_eq_trans_true s _ (rnv t y) _ Hs C1 C3 C4 Exy Qb).
Qed.

(* ====================================================================== *)
(* 4. the facts of a run                                                    *)
(* ====================================================================== *)

Definition Eprem (s : egraph) (E : equations) : Prop :=
  forall l r, In (l, r) E -> exists tl tr a b, term_static_user tl /\ term_static_user tr /\ l = canon0 tl /\ r = canon0 tr /\
                                           rep s tl a /\ rep s tr b /\ eg_eq s a b = Ok true.

Theorem run_facts : forall terms ops hs s, Forall term_static_user terms ->
  run_ops terms ops [] empty_egraph = Ok (hs, s) ->
  RepFacts.good s /\ inv3 s /\ syn_wf s /\ Sound (asserted terms ops) s /\ Eprem s (asserted terms ops) /\
  forall i a ti, nth_opt hs i = Some a -> nth_opt (handle_cterms terms ops) i = Some ti ->
    covers s a /\ handle_ok (asserted terms ops) s a ti /\
    exists t, In t terms /\ term_static_user t /\ ti = canon0 t /\ rep s t a.
Proof.
  intros terms ops hs s HT H.
  destruct (asserted_rep terms ops hs s HT H) as (G & HR & AR).
  assert (TO : Forall rt_ok terms) by (revert HT; apply Forall_impl; intros t [_ O]; exact O).
  assert (TW : Forall SoundAddExpr.rt_wf terms) by (revert HT; apply Forall_impl; intros t [W _]; exact (twf_rt_wf t W)).
  destruct (Good2_run_ops SC2 KC2 xinv_closed HSh_red_2 HC_sim_y_proved HD_sim_2 HS_readd_2 terms TO TW ops [] empty_egraph [] [] hs s
              (Good2_empty SC2 KC2 xinv_closed []) H) as [(I & S & Cv & F) (W & _)].
  fold (asserted terms ops) in S, F. fold (handle_cterms terms ops) in F.
  split; [exact G|]. split; [exact I|]. split; [exact W|]. split; [exact S|]. split.
  - intros l r Hin. destruct (AR l r Hin) as (tl & tr & a' & b' & _ & _ & Sl & Sr & El & Er & Rl & Rr & E').
    exists tl, tr, a', b'. auto 10.
  - intros i a ti Ha Hti. split; [exact (proj1 (Forall_forall _ _) Cv a (Run_nth_In _ _ _ Ha))|].
    destruct (Forall2_nth_opt _ _ _ _ _ F Ha) as (ti' & E1 & Oa). rewrite Hti in E1. inversion E1; subst ti'.
    split; [exact Oa|exact (HR i a ti Ha Hti)].
Qed.

(* ====================================================================== *)
(* 5. the generalised characterisation                                      *)
(* ====================================================================== *)

Theorem eq_rnv_iff_deriv : forall terms ops hs s i j a b ti tj r t, Forall term_static_user terms ->
  run_ops terms ops [] empty_egraph = Ok (hs, s) -> nth_opt hs i = Some a -> nth_opt hs j = Some b ->
  nth_opt (handle_cterms terms ops) i = Some ti -> nth_opt (handle_cterms terms ops) j = Some tj ->
  sren r -> sren t ->
  (eg_eq s (rnv r a) (rnv t b) = Ok true <-> Deriv (asserted terms ops) 0 (cren r ti) (cren t tj)).
Proof.
  intros terms ops hs s i j a b ti tj r t HT H Ea Eb Ei Ej Rr Rt.
  destruct (run_facts terms ops hs s HT H) as (G & I & W & S & HE & HH).
  destruct (HH i a ti Ea Ei) as (Ca & Oa & t1 & _ & S1 & -> & R1).
  destruct (HH j b tj Eb Ej) as (Cb & Ob & t2 & _ & S2 & -> & R2). split.
  - exact (rnv_sound _ s a b _ _ r t I W S Ca Cb Oa Ob Rr Rt).
  - exact (rnv_complete _ s t1 t2 a b r t G HE S1 S2 R1 R2 Rr Rt).
Qed.

(* the answer on renamed handles is a boolean *)
Lemma eg_eq_rnv_total : forall s a b r t, inv3 s -> covers s a -> covers s b -> sren r -> sren t ->
  exists x, eg_eq s (rnv r a) (rnv t b) = Ok x.
Proof.
  intros s a b r t [[Hs _] _] Ca Cb Rr Rt.
  destruct (eg_eq_sym_inv s _ _ (ei_uf _ Hs) (ei_slots _ Hs) (covers_rnv_inj s r a (sren_inj r Rr) Ca)
              (covers_rnv_inj s t b (sren_inj t Rt) Cb)) as (x & Hx & _). exists x. exact Hx.
Qed.

Print Assumptions eq_rnv_iff_deriv.
Print Assumptions run_facts.
